/-
C13: combining two well-formed decompositions over the same patches and neighbour ranks into one (DOFs of the
second numbered behind those of the first, locally and globally).
-/
import FeatModel.Lemmas.C13Solve
open FeatModel.Dist

/-- local DOFs of `d2` behind those of `d1`, global DOFs of `d2` shifted by `off`; the neighbour lists are zipped -/
def FeatModel.Dist.Decomp.append (d1 d2 : Decomp) (off : Nat) : Decomp :=
  { maps := List.zipWith (fun a b => a ++ b.map (· + off)) d1.maps d2.maps,
    patches := List.zipWith (fun p q =>
      { n := p.n + q.n,
        nbrs := List.zipWith (fun a b => (a.1, a.2 ++ b.2.map (· + p.n))) p.nbrs q.nbrs }) d1.patches d2.patches }

namespace FeatModel.C13L

theorem mem_zipWith_iff {β γ δ : Type} (f : β → γ → δ) (A : List β) (B : List γ) (x : δ) :
    x ∈ List.zipWith f A B ↔ ∃ k, ∃ (h1 : k < A.length) (h2 : k < B.length), x = f A[k] B[k] := by
  rw [List.mem_iff_getElem]
  constructor
  · rintro ⟨k, hk, rfl⟩
    have hk' : k < A.length ∧ k < B.length := by simpa using hk
    exact ⟨k, hk'.1, hk'.2, by simp⟩
  · rintro ⟨k, h1, h2, rfl⟩
    exact ⟨k, by simp; omega, by simp⟩

theorem fst_eq_getElem {β γ : Type} (A : List (Nat × β)) (B : List (Nat × γ)) (h : A.map (·.1) = B.map (·.1)) :
    A.length = B.length ∧ ∀ k (h1 : k < A.length) (h2 : k < B.length), A[k].1 = B[k].1 := by
  refine ⟨by simpa using congrArg List.length h, ?_⟩
  intro k h1 h2
  have := congrArg (fun l => l[k]?) h
  simpa [h1, h2] using this

theorem index_of_fst_nodup {β : Type} (A : List (Nat × β)) (hn : (A.map (·.1)).Nodup) (k1 k2 : Nat)
    (h1 : k1 < A.length) (h2 : k2 < A.length) (he : A[k1].1 = A[k2].1) : k1 = k2 := by
  have := (List.Nodup.getElem_inj_iff hn (i := k1) (j := k2) (hi := by simpa using h1) (hj := by simpa using h2)).1
    (by simpa using he)
  exact this

section
variable (d1 d2 : Decomp) (off : Nat)

theorem app_np (hnp : d1.np = d2.np) : (d1.append d2 off).np = d1.np := by
  unfold Decomp.np at *
  simp [Decomp.append, hnp]

theorem app_patch (hnp : d1.np = d2.np) (r : Nat) (hr : r < d1.np) :
    (d1.append d2 off).patch r
      = { n := (d1.patch r).n + (d2.patch r).n,
          nbrs := List.zipWith (fun a b => (a.1, a.2 ++ b.2.map (· + (d1.patch r).n)))
            (d1.patch r).nbrs (d2.patch r).nbrs } := by
  unfold Decomp.patch Decomp.append
  exact getD_zipWith _ _ _ default default default r hr (by unfold Decomp.np at *; omega)

theorem app_lmap (h1 : d1.WF) (h2 : d2.WF) (hnp : d1.np = d2.np) (r : Nat) (hr : r < d1.np) :
    (d1.append d2 off).lmap r = d1.lmap r ++ (d2.lmap r).map (· + off) := by
  unfold Decomp.lmap Decomp.append
  exact getD_zipWith _ _ _ [] [] [] r (by rw [h1.len]; exact hr) (by rw [h2.len]; unfold Decomp.np at *; omega)

theorem app_gdof_left (h1 : d1.WF) (h2 : d2.WF) (hnp : d1.np = d2.np) (r : Nat) (hr : r < d1.np) (i : Nat)
    (hi : i < (d1.patch r).n) : (d1.append d2 off).gdof r i = d1.gdof r i := by
  unfold Decomp.gdof
  rw [app_lmap d1 d2 off h1 h2 hnp r hr]
  have hi' : i < (d1.lmap r).length := by rw [← h1.size r hr]; exact hi
  simp [List.getD_eq_getElem?_getD, List.getElem?_append_left hi']

theorem app_gdof_right (h1 : d1.WF) (h2 : d2.WF) (hnp : d1.np = d2.np) (r : Nat) (hr : r < d1.np) (j : Nat)
    (hj : j < (d2.patch r).n) :
    (d1.append d2 off).gdof r (j + (d1.patch r).n) = d2.gdof r j + off := by
  unfold Decomp.gdof
  rw [app_lmap d1 d2 off h1 h2 hnp r hr, h1.size r hr]
  have hj' : j < (d2.lmap r).length := by rw [← h2.size r (hnp ▸ hr)]; exact hj
  simp [List.getD_eq_getElem?_getD, List.getElem?_append_right, hj']

end

theorem map_gdof_app_left (d1 d2 : Decomp) (off : Nat) (h1 : d1.WF) (h2 : d2.WF) (hnp : d1.np = d2.np) (r : Nat)
    (hr : r < d1.np) (l : List Nat) (hl : ∀ i ∈ l, i < (d1.patch r).n) :
    l.map ((d1.append d2 off).gdof r) = l.map (d1.gdof r) :=
  List.map_congr_left fun i hi => app_gdof_left d1 d2 off h1 h2 hnp r hr i (hl i hi)

theorem map_gdof_app_right (d1 d2 : Decomp) (off : Nat) (h1 : d1.WF) (h2 : d2.WF) (hnp : d1.np = d2.np) (r : Nat)
    (hr : r < d1.np) (l : List Nat) (hl : ∀ j ∈ l, j < (d2.patch r).n) :
    (l.map (· + (d1.patch r).n)).map ((d1.append d2 off).gdof r) = (l.map (d2.gdof r)).map (· + off) := by
  rw [List.map_map, List.map_map]
  exact List.map_congr_left fun j hj => app_gdof_right d1 d2 off h1 h2 hnp r hr j (hl j hj)

/-- **two well-formed decompositions over the same patches and neighbour ranks combine to a well-formed one** -/
theorem WF_append (d1 d2 : Decomp) (off : Nat) (h1 : d1.WF) (h2 : d2.WF) (hnp : d1.np = d2.np)
    (hranks : ∀ r, r < d1.np → (d1.patch r).nbrs.map (·.1) = (d2.patch r).nbrs.map (·.1))
    (hoff : ∀ r, r < d1.np → ∀ g ∈ d1.lmap r, g < off) : (d1.append d2 off).WF := by
  have hnp' := app_np d1 d2 off hnp
  -- the neighbour entries of the combined patch, by position
  have hmem : ∀ r, r < d1.np → ∀ nb, nb ∈ ((d1.append d2 off).patch r).nbrs ↔
      ∃ k, ∃ (ha : k < (d1.patch r).nbrs.length) (hb : k < (d2.patch r).nbrs.length),
        nb = ((d1.patch r).nbrs[k].1, (d1.patch r).nbrs[k].2 ++ (d2.patch r).nbrs[k].2.map (· + (d1.patch r).n)) := by
    intro r hr nb
    rw [app_patch d1 d2 off hnp r hr]
    exact mem_zipWith_iff _ _ _ nb
  have hA : ∀ r (hr : r < d1.np) k (ha : k < (d1.patch r).nbrs.length), (d1.patch r).nbrs[k] ∈ (d1.patch r).nbrs :=
    fun r hr k ha => List.getElem_mem _
  have hB : ∀ r (hr : r < d1.np) k (hb : k < (d2.patch r).nbrs.length), (d2.patch r).nbrs[k] ∈ (d2.patch r).nbrs :=
    fun r hr k hb => List.getElem_mem _
  have hfst := fun r (hr : r < d1.np) => fst_eq_getElem _ _ (hranks r hr)
  have hn : ∀ r, r < d1.np → ((d1.append d2 off).patch r).n = (d1.patch r).n + (d2.patch r).n := by
    intro r hr; rw [app_patch d1 d2 off hnp r hr]
  refine ⟨?_, ?_, ?_, ?_, ?_, ?_, ?_, ?_, ?_⟩
  · have e1 := h1.len
    have e2 := h2.len
    unfold Decomp.np at hnp
    simp [Decomp.append, e1, e2, hnp]
  · intro r hr
    rw [hnp'] at hr
    rw [hn r hr, app_lmap d1 d2 off h1 h2 hnp r hr, List.length_append, List.length_map, h1.size r hr,
      h2.size r (hnp ▸ hr)]
  · intro r hr
    rw [hnp'] at hr
    rw [app_lmap d1 d2 off h1 h2 hnp r hr, List.nodup_append]
    refine ⟨h1.inj r hr, (h2.inj r (hnp ▸ hr)).map (fun a b hab => by simpa using hab), ?_⟩
    intro a ha b hb hab
    obtain ⟨c, _, rfl⟩ := List.mem_map.1 hb
    have := hoff r hr a ha
    omega
  · intro r hr
    rw [hnp'] at hr
    rw [app_patch d1 d2 off hnp r hr]
    have : (List.zipWith (fun a b => (a.1, a.2 ++ b.2.map (· + (d1.patch r).n)))
        (d1.patch r).nbrs (d2.patch r).nbrs).map (·.1) = (d1.patch r).nbrs.map (·.1) := by
      apply List.ext_getElem
      · simp [(hfst r hr).1]
      · intro k k1 k2
        simp
    rw [this]
    exact h1.ranks r hr
  · intro r hr nb hnb
    rw [hnp'] at hr ⊢
    obtain ⟨k, ha, hb, rfl⟩ := (hmem r hr nb).1 hnb
    exact h1.nbr r hr (d1.patch r).nbrs[k] (hA r hr k ha)
  · intro r hr nb hnb
    rw [hnp'] at hr
    obtain ⟨k, ha, hb, rfl⟩ := (hmem r hr nb).1 hnb
    rw [List.nodup_append]
    refine ⟨h1.mirNodup r hr _ (hA r hr k ha),
      (h2.mirNodup r (hnp ▸ hr) _ (hB r hr k hb)).map (fun a b hab => by simpa using hab), ?_⟩
    intro a haa b hbb hab
    obtain ⟨c, _, rfl⟩ := List.mem_map.1 hbb
    have := h1.mirRange r hr _ (hA r hr k ha) a haa
    omega
  · intro r hr nb hnb i hi
    rw [hnp'] at hr
    obtain ⟨k, ha, hb, rfl⟩ := (hmem r hr nb).1 hnb
    rw [hn r hr]
    rcases List.mem_append.1 hi with h | h
    · have := h1.mirRange r hr _ (hA r hr k ha) i h
      omega
    · obtain ⟨c, hc, rfl⟩ := List.mem_map.1 h
      have := h2.mirRange r (hnp ▸ hr) _ (hB r hr k hb) c hc
      omega
  · intro r hr nb hnb
    rw [hnp'] at hr
    obtain ⟨k, ha, hb, rfl⟩ := (hmem r hr nb).1 hnb
    have hslt := (h1.nbr r hr _ (hA r hr k ha)).2
    obtain ⟨a', ha', ha'1, ha'map, ha'range⟩ := h1.sym r hr _ (hA r hr k ha)
    obtain ⟨b', hb', hb'1, hb'map, hb'range⟩ := h2.sym r (hnp ▸ hr) _ (hB r hr k hb)
    have hfk := (hfst r hr).2 k ha hb
    rw [← hfk] at hb' hb'map hb'range
    obtain ⟨k1, hk1, rfl⟩ := List.getElem_of_mem ha'
    obtain ⟨k2, hk2, rfl⟩ := List.getElem_of_mem hb'
    have hfs := hfst _ hslt
    have hk21 : k2 < (d1.patch (d1.patch r).nbrs[k].1).nbrs.length := by rw [hfs.1]; exact hk2
    have hkk : k1 = k2 := by
      apply index_of_fst_nodup _ (h1.ranks _ hslt) k1 k2 hk1 hk21
      rw [ha'1, hfs.2 k2 hk21 hk2, hb'1]
    subst hkk
    refine ⟨_, (hmem _ hslt _).2 ⟨k1, hk1, hk2, rfl⟩, ha'1, ?_, ?_⟩
    · simp only [List.map_append]
      rw [map_gdof_app_left d1 d2 off h1 h2 hnp _ hslt _ ha'range,
        map_gdof_app_right d1 d2 off h1 h2 hnp _ hslt _ hb'range,
        map_gdof_app_left d1 d2 off h1 h2 hnp r hr _ (h1.mirRange r hr _ (hA r hr k ha)),
        map_gdof_app_right d1 d2 off h1 h2 hnp r hr _ (h2.mirRange r (hnp ▸ hr) _ (hB r hr k hb)),
        ha'map, hb'map]
    · intro j hj
      show j < ((d1.append d2 off).patch _).n
      rw [hn _ hslt]
      rcases List.mem_append.1 hj with h | h
      · have := ha'range j h
        omega
      · obtain ⟨c, hc, rfl⟩ := List.mem_map.1 h
        have := hb'range c hc
        omega
  · intro r hr s hs hsr i hi j hj hg
    rw [hnp'] at hr hs
    rw [hn r hr] at hi
    rw [hn s hs] at hj
    have hlow : ∀ t (ht : t < d1.np) x, x < (d1.patch t).n → d1.gdof t x < off := by
      intro t ht x hx
      apply hoff t ht
      have hx' : x < (d1.lmap t).length := by rw [← h1.size t ht]; exact hx
      simp [Decomp.gdof, List.getD_eq_getElem?_getD, hx']
    by_cases hi1 : i < (d1.patch r).n
    · by_cases hj1 : j < (d1.patch s).n
      · rw [app_gdof_left d1 d2 off h1 h2 hnp r hr i hi1, app_gdof_left d1 d2 off h1 h2 hnp s hs j hj1] at hg
        obtain ⟨a, ha, has, hia⟩ := h1.complete r hr s hs hsr i hi1 j hj1 hg
        obtain ⟨k, hk, rfl⟩ := List.getElem_of_mem ha
        have hkb : k < (d2.patch r).nbrs.length := by rw [← (hfst r hr).1]; exact hk
        exact ⟨_, (hmem r hr _).2 ⟨k, hk, hkb, rfl⟩, has, List.mem_append_left _ hia⟩
      · exfalso
        have e : j = (j - (d1.patch s).n) + (d1.patch s).n := by omega
        rw [app_gdof_left d1 d2 off h1 h2 hnp r hr i hi1, e,
          app_gdof_right d1 d2 off h1 h2 hnp s hs _ (by omega)] at hg
        have := hlow r hr i hi1
        omega
    · by_cases hj1 : j < (d1.patch s).n
      · exfalso
        have e : i = (i - (d1.patch r).n) + (d1.patch r).n := by omega
        rw [app_gdof_left d1 d2 off h1 h2 hnp s hs j hj1, e,
          app_gdof_right d1 d2 off h1 h2 hnp r hr _ (by omega)] at hg
        have := hlow s hs j hj1
        omega
      · have ei : i = (i - (d1.patch r).n) + (d1.patch r).n := by omega
        have ej : j = (j - (d1.patch s).n) + (d1.patch s).n := by omega
        rw [ei, ej, app_gdof_right d1 d2 off h1 h2 hnp r hr _ (by omega),
          app_gdof_right d1 d2 off h1 h2 hnp s hs _ (by omega)] at hg
        obtain ⟨b, hb, hbs, hib⟩ := h2.complete r (hnp ▸ hr) s (hnp ▸ hs) hsr (i - (d1.patch r).n) (by omega)
          (j - (d1.patch s).n) (by omega) (by omega)
        obtain ⟨k, hk, rfl⟩ := List.getElem_of_mem hb
        have hka : k < (d1.patch r).nbrs.length := by rw [(hfst r hr).1]; exact hk
        refine ⟨_, (hmem r hr _).2 ⟨k, hka, hk, rfl⟩, ?_, ?_⟩
        · show (d1.patch r).nbrs[k].1 = s
          rw [(hfst r hr).2 k hka hk]; exact hbs
        · rw [ei]
          exact List.mem_append_right _ (List.mem_map.2 ⟨_, hib, rfl⟩)

end FeatModel.C13L
