import Mathlib.Tactic.Ring
import Mathlib.Data.Nat.Sqrt
import FeatModel.Model.Solver.RatVec
import FeatModel.Lemmas.C07Krylov
import FeatModel.Lemmas.C07Krylov2
import FeatModel.Lemmas.C07CG
import FeatModel.Lemmas.C07Rgcr
/-! Helper lemmas for C07: the instance the driver executes (`Vector Rat n`, dense matrix, unit-filter mask, arbitrary
    preconditioner) satisfies the linear-algebra laws `Lawful`; the fast square root equals `Nat.sqrt`. -/
namespace FeatModel.Solver

theorem foldl_sum_linear (n : Nat) (f g : Fin n → Rat) (c : Rat) :
    Fin.foldl n (fun acc i => acc + (f i + c * g i)) 0 =
      Fin.foldl n (fun acc i => acc + f i) 0 + c * Fin.foldl n (fun acc i => acc + g i) 0 := by
  induction n with
  | zero => simp [Fin.foldl_zero]
  | succ n ih =>
    rw [Fin.foldl_succ_last, Fin.foldl_succ_last, Fin.foldl_succ_last]
    rw [ih (fun i => f i.castSucc) (fun i => g i.castSucc)]
    ring

theorem foldl_sum_zero (n : Nat) (f : Fin n → Rat) (h : ∀ i, f i = 0) :
    Fin.foldl n (fun acc i => acc + f i) 0 = 0 := by
  induction n with
  | zero => simp [Fin.foldl_zero]
  | succ n ih =>
    rw [Fin.foldl_succ_last, ih (fun i => f i.castSucc) (fun i => h _), h]
    ring

theorem vdot_axpy {n : Nat} (r x p : RVec n) (a : Rat) : vdot r (vaxpy x p a) = vdot r x + a * vdot r p := by
  unfold vdot vaxpy
  rw [← foldl_sum_linear]
  congr 1
  funext acc i
  simp only [Fin.getElem_fin, Vector.getElem_ofFn]
  ring

theorem vdot_zero {n : Nat} (r : RVec n) : vdot r (vzero n) = 0 := by
  unfold vdot vzero
  apply foldl_sum_zero
  intro i
  simp

theorem getElem_vaxpy {n : Nat} (x p : RVec n) (a : Rat) (i : Nat) (hi : i < n) :
    (vaxpy x p a)[i] = x[i] + a * p[i] := by
  simp [vaxpy]

theorem getElem_matVec {n : Nat} (A : RMat n) (x : RVec n) (i : Nat) (hi : i < n) :
    (matVec A x)[i] = vdot A[i] x := by
  simp [matVec]

theorem getElem_maskF {n : Nat} (mask : Vector Bool n) (v : RVec n) (i : Nat) (hi : i < n) :
    (maskF mask v)[i] = if mask[i] then 0 else v[i] := by
  simp [maskF]

theorem ratSys_lawful {n : Nat} (A : RMat n) (mask : Vector Bool n) (pre : Option (RMat n × Nat)) :
    Lawful (ratSys A mask pre) := by
  constructor
  · intro b x p a
    show maskF mask (vaxpy b (matVec A (vaxpy x p a)) (-1)) =
      vaxpy (maskF mask (vaxpy b (matVec A x) (-1))) (maskF mask (matVec A p)) (-a)
    apply Vector.ext
    intro i hi
    rw [getElem_maskF, getElem_vaxpy, getElem_matVec, vdot_axpy, getElem_vaxpy, getElem_maskF, getElem_maskF,
      getElem_vaxpy, getElem_matVec, getElem_matVec]
    split <;> ring
  · intro b
    show maskF mask (vaxpy b (matVec A (vzero n)) (-1)) = maskF mask b
    apply Vector.ext
    intro i hi
    rw [getElem_maskF, getElem_vaxpy, getElem_matVec, vdot_zero, getElem_maskF]
    split <;> ring

theorem getElem_vscale {n : Nat} (x : RVec n) (a : Rat) (i : Nat) (hi : i < n) : (vscale x a)[i] = a * x[i] := by
  simp [vscale]

theorem vdot_scale {n : Nat} (r p : RVec n) (a : Rat) : vdot r (vscale p a) = a * vdot r p := by
  have h := foldl_sum_linear n (fun _ => 0) (fun i => r[i] * p[i]) a
  rw [foldl_sum_zero n (fun _ => 0) (fun _ => rfl)] at h
  unfold vdot vscale
  rw [show (0 : Rat) + a * Fin.foldl n (fun acc i => acc + r[i] * p[i]) 0 =
    a * Fin.foldl n (fun acc i => acc + r[i] * p[i]) 0 by ring] at h
  rw [← h]
  congr 1
  funext acc i
  simp only [Fin.getElem_fin, Vector.getElem_ofFn]
  ring

theorem ratSys_lawfulLin {n : Nat} (A : RMat n) (mask : Vector Bool n) (pre : Option (RMat n × Nat)) :
    LawfulLin (ratSys A mask pre) := by
  refine ⟨ratSys_lawful A mask pre, ?_⟩
  intro p s β
  show maskF mask (matVec A (vaxpy (vscale p β) s 1)) =
    vaxpy (vscale (maskF mask (matVec A p)) β) (maskF mask (matVec A s)) 1
  apply Vector.ext
  intro i hi
  rw [getElem_maskF, getElem_matVec, vdot_axpy, vdot_scale, getElem_vaxpy, getElem_vscale, getElem_maskF,
    getElem_maskF, getElem_matVec, getElem_matVec]
  split <;> ring

theorem ratSysF_lawful {n : Nat} (A : RMat n) (mask : Vector Bool n) (k : FeatPre) (w : Rat) :
    Lawful (ratSysF A mask k w) :=
  ⟨(ratSys_lawful A mask none).resid_step, (ratSys_lawful A mask none).resid_zero⟩

theorem ratSysF_lawfulLin {n : Nat} (A : RMat n) (mask : Vector Bool n) (k : FeatPre) (w : Rat) :
    LawfulLin (ratSysF A mask k w) :=
  ⟨ratSysF_lawful A mask k w, (ratSys_lawfulLin A mask none).lin_comb⟩

/-- `Σ_i f i` as the fold the model uses -/
def sumF (n : Nat) (f : Fin n → Rat) : Rat := Fin.foldl n (fun acc i => acc + f i) 0

theorem sumF_succ (n : Nat) (f : Fin (n + 1) → Rat) :
    sumF (n + 1) f = sumF n (fun i => f i.castSucc) + f (Fin.last n) := by
  simp only [sumF, Fin.foldl_succ_last]

theorem sumF_add (n : Nat) (f g : Fin n → Rat) : sumF n (fun i => f i + g i) = sumF n f + sumF n g := by
  have := foldl_sum_linear n f g 1
  simp only [one_mul] at this
  simpa [sumF] using this

theorem sumF_mul (n : Nat) (g : Fin n → Rat) (c : Rat) : sumF n (fun i => g i * c) = sumF n g * c := by
  induction n with
  | zero => simp [sumF, Fin.foldl_zero]
  | succ n ih => rw [sumF_succ, sumF_succ, ih]; ring

theorem sumF_congr (n : Nat) (f g : Fin n → Rat) (h : ∀ i, f i = g i) : sumF n f = sumF n g := by
  have : f = g := funext h
  rw [this]

theorem sumF_swap (n m : Nat) (f : Fin n → Fin m → Rat) :
    sumF n (fun i => sumF m (fun j => f i j)) = sumF m (fun j => sumF n (fun i => f i j)) := by
  induction n with
  | zero =>
    simp only [sumF, Fin.foldl_zero]
    symm
    exact foldl_sum_zero m _ (fun _ => rfl)
  | succ n ih =>
    rw [sumF_succ, ih]
    rw [show (fun j => sumF (n + 1) (fun i => f i j)) =
      fun j => sumF n (fun i => f i.castSucc j) + f (Fin.last n) j from funext fun j => sumF_succ n _]
    rw [sumF_add]

theorem vdot_eq_sumF {n : Nat} (a b : RVec n) : vdot a b = sumF n (fun i => a[i] * b[i]) := rfl

theorem vdot_comm {n : Nat} (a b : RVec n) : vdot a b = vdot b a := by
  rw [vdot_eq_sumF, vdot_eq_sumF]
  exact sumF_congr n _ _ (fun i => by ring)

/-- a symmetric matrix is self-adjoint for `vdot` -/
theorem matVec_sym {n : Nat} (A : RMat n) (hs : ∀ (i j : Fin n), A[i][j] = A[j][i]) (x y : RVec n) :
    vdot (matVec A x) y = vdot x (matVec A y) := by
  rw [vdot_eq_sumF, vdot_eq_sumF]
  have h1 : ∀ i : Fin n, (matVec A x)[i] * y[i] = sumF n (fun j => A[i][j] * x[j] * y[i]) := by
    intro i
    rw [show (matVec A x)[i] = vdot A[i] x from getElem_matVec A x i.val i.isLt, vdot_eq_sumF, ← sumF_mul]
  have h2 : ∀ j : Fin n, x[j] * (matVec A y)[j] = sumF n (fun i => A[i][j] * x[j] * y[i]) := by
    intro j
    rw [show (matVec A y)[j] = vdot A[j] y from getElem_matVec A y j.val j.isLt, vdot_eq_sumF, mul_comm, ← sumF_mul]
    exact sumF_congr n _ _ (fun i => by rw [hs j i]; ring)
  rw [sumF_congr n _ _ h1, sumF_congr n _ _ h2, sumF_swap]

theorem maskF_none {n : Nat} (v : RVec n) : maskF (Vector.ofFn fun _ => false) v = v := by
  apply Vector.ext
  intro i hi
  rw [getElem_maskF]
  simp

/-- plain CG (no filter, no preconditioner) on a symmetric matrix: the driver's system satisfies the laws of the
    CG induction with `M = id` -/
theorem ratSys_cgLaws {n : Nat} (A : RMat n) (hs : ∀ (i j : Fin n), A[i][j] = A[j][i]) :
    CgLaws (ratSys A (Vector.ofFn fun _ => false) none) (fun v => v) where
  dot_comm := fun x y => vdot_comm x y
  dot_axpy := fun y x p a => vdot_axpy y x p a
  dot_scale := fun y x a => vdot_scale y x a
  a_sym := fun x y => matVec_sym A hs x y
  no_filter := fun v => maskF_none v
  prec_eq := fun k v => by
    show precOf _ none k v = some v
    simp only [precOf, maskF_none]
  m_sym := fun _ _ => rfl

theorem ratSys_lawfulRgcr {n : Nat} (A : RMat n) (mask : Vector Bool n) (pre : Option (RMat n × Nat)) :
    LawfulRgcr (ratSys A mask pre) := by
  refine ⟨ratSys_lawful A mask pre, ?_, ?_⟩
  · intro x p a
    show maskF mask (matVec A (vaxpy x p a)) = vaxpy (maskF mask (matVec A x)) (maskF mask (matVec A p)) a
    apply Vector.ext
    intro i hi
    rw [getElem_maskF, getElem_matVec, vdot_axpy, getElem_vaxpy, getElem_maskF, getElem_maskF, getElem_matVec,
      getElem_matVec]
    split <;> ring
  · intro x a
    show maskF mask (matVec A (vscale x a)) = vscale (maskF mask (matVec A x)) a
    apply Vector.ext
    intro i hi
    rw [getElem_maskF, getElem_matVec, vdot_scale, getElem_vscale, getElem_maskF, getElem_matVec]
    split <;> ring

theorem ratSysF_lawfulRgcr {n : Nat} (A : RMat n) (mask : Vector Bool n) (k : FeatPre) (w : Rat) :
    LawfulRgcr (ratSysF A mask k w) :=
  ⟨ratSysF_lawful A mask k w, (ratSys_lawfulRgcr A mask none).lin_axpy, (ratSys_lawfulRgcr A mask none).lin_scale⟩

theorem fastSqrt_eq (m : Nat) : fastSqrt m = Nat.sqrt m := by
  simp only [fastSqrt]
  split
  · rename_i h
    exact Nat.eq_sqrt.2 h
  · rfl

/-- the norm the model uses is exactly the shared `Proto.qsqrt` (= `q_sqrt` of harness/common/exact_q.hpp) -/
theorem qsqrtF_eq (x : Rat) : qsqrtF x = Proto.qsqrt x := by
  unfold qsqrtF Proto.qsqrt
  simp only [fastSqrt_eq]

/-- configuration of `C07.success_without_defect_calc_witness`: fixed iteration count (`min_iter = max_iter = 2`),
    `tol_rel = 1`, default `skip_defect_calc` -/
def witnessCfg : Config Rat where
  tolRel := 1
  tolAbs := 1000000000
  tolAbsLow := 0
  divRel := 1000000000
  divAbs := 1000000000000
  stagRate := 19 / 20
  eps2 := epsSqQ
  minIter := 2
  maxIter := 2
  minStag := 0
  skipDefCalc := true
  plotIter := false
  plotInterval := 1

end FeatModel.Solver
