import FeatModel.Model.FEDual
/-! kernel-checked: the samples of the real 3-D Bernstein-2 evaluator are products of 1-D evaluations -/
namespace FeatModel.FE
open FeatModel.Poly FeatModel.Gen
set_option maxRecDepth 100000 in
theorem fast_b2 : fastSamplesOk BasisH1.b2 3 true true BasisH3.b2_idx BasisH3.b2_samples = true := by decide +kernel
end FeatModel.FE
