import FeatModel.Lemmas.C05Bytes
/-! helper lemmas for C05: closed form of the serialised image, no overrun, round trip -/
namespace FeatModel.Ser

/-- every header/table word fits into a `uint64`, every value into its `DT2_` / `IT2_` word -/
def WF (t : Tag) (sDT sIT : Nat) (c : Container) : Prop :=
  (∀ v ∈ u64Words t sDT sIT c, v < 256 ^ 8) ∧ (∀ v ∈ c.scalarDt, v < 256 ^ sDT) ∧
  (∀ a ∈ c.elements, ∀ v ∈ a, v < 256 ^ sDT) ∧ (∀ a ∈ c.indices, ∀ v ∈ a, v < 256 ^ sIT)

theorem length_u64Words (t : Tag) (sDT sIT : Nat) (c : Container) :
    (u64Words t sDT sIT c).length = nWords c := by
  simp [u64Words, nWords, sizes]
  omega

/-- the offset arithmetic of `_serialize`: regions are ordered, disjoint and inside both the allocated
    `_serialized_size()` buffer and the final `raw_size + 16` bytes -/
theorem offsets_ok (sDT sIT : Nat) (c : Container) (hD : sDT = 4 ∨ sDT = 8 ∨ sDT = 16) (hI : sIT = 4 ∨ sIT = 8) :
    8 * nWords c ≤ offDt sDT c ∧
    offDt sDT c + sDT * (dtWords c).length ≤ offIt sDT sIT c ∧
    offIt sDT sIT c + sIT * (itWords c).length ≤ rawSize sDT sIT c + 16 ∧
    rawSize sDT sIT c + 16 = serializedSize sDT sIT c := by
  rcases hD with rfl | rfl | rfl <;> rcases hI with rfl | rfl <;>
    simp only [offDt, offIt, ceilDiv, rawSize, serializedSize, nWords, dtWords, itWords, List.length_append] <;>
    omega

theorem writeAt_zeros0 (k : Nat) (bs : Bytes) (h : bs.length ≤ k) :
    writeAt (List.replicate k 0) 0 bs = some (bs ++ List.replicate (k - bs.length) 0) := by
  have := writeAt_zeros [] k 0 bs (by simp) (by simp; omega)
  simpa using this

/-- closed form of the serialised image: the three blocks, separated by zero gaps, zero padding at the end;
    in particular no write leaves the buffer (`serialize ≠ none`) and `resize` cuts no data -/
theorem serialize_closed (t : Tag) (sDT sIT : Nat) (c : Container)
    (hD : sDT = 4 ∨ sDT = 8 ∨ sDT = 16) (hI : sIT = 4 ∨ sIT = 8) :
    ∃ z1 z2 z3 : Nat,
      serialize t sDT sIT c = some (wordsBytes 8 (u64Words t sDT sIT c) ++ List.replicate z1 0
        ++ wordsBytes sDT (dtWords c) ++ List.replicate z2 0 ++ wordsBytes sIT (itWords c) ++ List.replicate z3 0)
      ∧ 8 * nWords c + z1 = offDt sDT c
      ∧ offDt sDT c + sDT * (dtWords c).length + z2 = offIt sDT sIT c
      ∧ offIt sDT sIT c + sIT * (itWords c).length + z3 = rawSize sDT sIT c + 16 := by
  obtain ⟨h1, h2, h3, h4⟩ := offsets_ok sDT sIT c hD hI
  have lW : (wordsBytes 8 (u64Words t sDT sIT c)).length = 8 * nWords c := by
    rw [length_wordsBytes, length_u64Words]
  have lD := length_wordsBytes sDT (dtWords c)
  have lI := length_wordsBytes sIT (itWords c)
  refine ⟨offDt sDT c - 8 * nWords c, offIt sDT sIT c - (offDt sDT c + sDT * (dtWords c).length),
    rawSize sDT sIT c + 16 - (offIt sDT sIT c + sIT * (itWords c).length), ?_, by omega, by omega, by omega⟩
  have e1 := writeAt_zeros0 (serializedSize sDT sIT c) (wordsBytes 8 (u64Words t sDT sIT c)) (by omega)
  have e2 := writeAt_zeros (wordsBytes 8 (u64Words t sDT sIT c))
    (serializedSize sDT sIT c - (wordsBytes 8 (u64Words t sDT sIT c)).length) (offDt sDT c)
    (wordsBytes sDT (dtWords c)) (by omega) (by omega)
  have e3 := writeAt_zeros
    (wordsBytes 8 (u64Words t sDT sIT c) ++ List.replicate (offDt sDT c - (wordsBytes 8 (u64Words t sDT sIT c)).length) 0
      ++ wordsBytes sDT (dtWords c))
    ((wordsBytes 8 (u64Words t sDT sIT c)).length
      + (serializedSize sDT sIT c - (wordsBytes 8 (u64Words t sDT sIT c)).length) - offDt sDT c
      - (wordsBytes sDT (dtWords c)).length)
    (offIt sDT sIT c) (wordsBytes sIT (itWords c)) (by simp; omega) (by simp; omega)
  unfold serialize
  simp only [e1, e2, e3]
  rw [resize_zeros _ _ _ (by simp; omega)]
  simp only [List.length_append, List.length_replicate, lW, lD, lI]
  congr 5
  · congr 1
    omega
  · congr 1
    omega

/-- reading back what `_serialize` wrote gives the container back, for all array counts and sizes -/
theorem deserialize_serialize (t : Tag) (sDT sIT : Nat) (c : Container)
    (hD : sDT = 4 ∨ sDT = 8 ∨ sDT = 16) (hI : sIT = 4 ∨ sIT = 8) (hwf : WF t sDT sIT c)
    (b : Bytes) (hs : serialize t sDT sIT c = some b) : deserialize t.magic sDT sIT b = some c := by
  obtain ⟨z1, z2, z3, hser, hz1, hz2, hz3⟩ := serialize_closed t sDT sIT c hD hI
  rw [hser] at hs
  injection hs with hb
  subst hb
  obtain ⟨hw64, hwsd, hwel, hwix⟩ := hwf
  have lW : (wordsBytes 8 (u64Words t sDT sIT c)).length = 8 * nWords c := by
    rw [length_wordsBytes, length_u64Words]
  have lD := length_wordsBytes sDT (dtWords c)
  -- the parts of the uint64 block
  let hdr : List Nat := [rawSize sDT sIT c + 16, t.magic, t.hashDT, t.hashIT, c.elements.length, c.indices.length,
    c.elements.length, c.indices.length, c.scalarIndex.length, c.scalarDt.length, compressOff]
  let eb : List Nat := (sizes c.elements).map (· * sDT)
  let ib : List Nat := (sizes c.indices).map (· * sIT)
  have hu : u64Words t sDT sIT c = hdr ++ sizes c.elements ++ eb ++ sizes c.indices ++ ib ++ c.scalarIndex := rfl
  have lse : (sizes c.elements).length = c.elements.length := by simp [sizes]
  have lsi : (sizes c.indices).length = c.indices.length := by simp [sizes]
  have leb : eb.length = c.elements.length := by simp [eb, sizes]
  have lib : ib.length = c.indices.length := by simp [ib, sizes]
  have r0 := readWords_mid 8 [] [] hdr (sizes c.elements ++ eb ++ sizes c.indices ++ ib ++ c.scalarIndex)
    (List.replicate z1 0 ++ wordsBytes sDT (dtWords c) ++ List.replicate z2 0 ++ wordsBytes sIT (itWords c)
      ++ List.replicate z3 0) 0 (by simp) (fun v hv => hw64 v (by rw [hu]; simp [hv]))
  have r1 := readWords_mid 8 [] hdr (sizes c.elements) (eb ++ sizes c.indices ++ ib ++ c.scalarIndex)
    (List.replicate z1 0 ++ wordsBytes sDT (dtWords c) ++ List.replicate z2 0 ++ wordsBytes sIT (itWords c)
      ++ List.replicate z3 0) (11 * 8) (by simp [hdr]) (fun v hv => hw64 v (by rw [hu]; simp [hv]))
  have r2 := readWords_mid 8 [] (hdr ++ sizes c.elements ++ eb) (sizes c.indices) (ib ++ c.scalarIndex)
    (List.replicate z1 0 ++ wordsBytes sDT (dtWords c) ++ List.replicate z2 0 ++ wordsBytes sIT (itWords c)
      ++ List.replicate z3 0) ((11 + 2 * c.elements.length) * 8) (by simp [hdr, lse, leb]; omega)
    (fun v hv => hw64 v (by rw [hu]; simp [hv]))
  have r3 := readWords_mid 8 [] (hdr ++ sizes c.elements ++ eb ++ sizes c.indices ++ ib) c.scalarIndex []
    (List.replicate z1 0 ++ wordsBytes sDT (dtWords c) ++ List.replicate z2 0 ++ wordsBytes sIT (itWords c)
      ++ List.replicate z3 0) ((11 + 2 * c.elements.length + 2 * c.indices.length) * 8)
    (by simp [hdr, lse, leb, lsi, lib]; omega) (fun v hv => hw64 v (by rw [hu]; simp [hv]))
  have hlen : (dtWords c).length = c.scalarDt.length + c.elements.flatten.length := by simp [dtWords]
  have hz1' : ceilDiv (nWords c * 8) sDT * sDT = 8 * nWords c + z1 := hz1.symm
  have hz2' : ceilDiv ((ceilDiv (nWords c * 8) sDT + c.scalarDt.length + c.elements.flatten.length) * sDT) sIT * sIT
      = 8 * nWords c + z1 + sDT * (dtWords c).length + z2 := by
    rw [Nat.add_assoc, ← hlen, hz1]
    exact hz2.symm
  have r4 := readWords_mid sDT (wordsBytes 8 (u64Words t sDT sIT c) ++ List.replicate z1 0) [] c.scalarDt
    c.elements.flatten (List.replicate z2 0 ++ wordsBytes sIT (itWords c) ++ List.replicate z3 0)
    (ceilDiv (nWords c * 8) sDT * sDT)
    (by rw [List.length_append, List.length_replicate, lW, List.length_nil, Nat.mul_zero, Nat.add_zero]
        exact hz1') hwsd
  have r5 := readArrays_mid sDT (wordsBytes 8 (u64Words t sDT sIT c) ++ List.replicate z1 0) c.scalarDt
    c.elements (List.replicate z2 0 ++ wordsBytes sIT (itWords c) ++ List.replicate z3 0)
    (ceilDiv (nWords c * 8) sDT + c.scalarDt.length)
    (by rw [List.length_append, List.length_replicate, lW, Nat.add_mul, hz1', Nat.mul_comm c.scalarDt.length sDT])
    hwel
  have r6 := readArrays_mid sIT (wordsBytes 8 (u64Words t sDT sIT c) ++ List.replicate z1 0
      ++ wordsBytes sDT (dtWords c) ++ List.replicate z2 0) [] c.indices (List.replicate z3 0)
    (ceilDiv ((ceilDiv (nWords c * 8) sDT + c.scalarDt.length + c.elements.flatten.length) * sDT) sIT)
    (by rw [List.length_append, List.length_append, List.length_append, List.length_replicate,
          List.length_replicate, lW, lD, List.length_nil, Nat.mul_zero, Nat.add_zero]
        exact hz2') hwix
  -- normal forms of the buffer
  simp only [List.nil_append, List.append_nil] at r0 r1 r2 r3 r4 r5 r6
  simp only [← List.append_assoc] at r0 r1 r2 r3 r4 r5 r6
  rw [← hu] at r0 r1 r2 r3
  have e4 : c.scalarDt ++ c.elements.flatten = dtWords c := rfl
  have e6 : c.indices.flatten = itWords c := rfl
  rw [e4] at r4 r5
  rw [e6] at r6
  rw [lse] at r1
  rw [lsi] at r2
  have hdrlen : hdr.length = 11 := rfl
  rw [hdrlen] at r0
  simp only [nWords] at r4 r5 r6
  unfold deserialize
  rw [r0]
  simp only [hdr, ne_eq, not_true_eq_false, if_false, r1, r2, r3]
  have ht1 : (sizes c.elements).take c.elements.length = sizes c.elements :=
    List.take_of_length_le (by simp [sizes])
  have ht2 : (sizes c.indices).take c.indices.length = sizes c.indices :=
    List.take_of_length_le (by simp [sizes])
  simp only [lse, lsi, ht1, ht2, Nat.lt_irrefl, gt_iff_lt, or_self, if_false, r4, r5, r6]

theorem length_serialize (t : Tag) (sDT sIT : Nat) (c : Container)
    (hD : sDT = 4 ∨ sDT = 8 ∨ sDT = 16) (hI : sIT = 4 ∨ sIT = 8) :
    ∃ b, serialize t sDT sIT c = some b ∧ b.length = rawSize sDT sIT c + 16
      ∧ b.length ≤ serializedSize sDT sIT c := by
  obtain ⟨z1, z2, z3, hser, hz1, hz2, hz3⟩ := serialize_closed t sDT sIT c hD hI
  obtain ⟨_, _, _, h4⟩ := offsets_ok sDT sIT c hD hI
  refine ⟨_, hser, ?_, ?_⟩ <;>
    simp only [List.length_append, List.length_replicate, length_wordsBytes, length_u64Words] <;> omega

theorem map_map_id {α : Type} (f g : α → α) : ∀ l : List α, (∀ x ∈ l, g (f x) = x) → (l.map f).map g = l
  | [], _ => rfl
  | x :: l, h => by
    simp only [List.map_cons]
    rw [h x (by simp), map_map_id f g l (fun y hy => h y (by simp [hy]))]

/-- converting to the file types and back is the identity on representable values -/
theorem convert_convert (cvD cvI bkD bkI : Nat → Nat) (c : Container)
    (h1 : ∀ v ∈ c.scalarDt, bkD (cvD v) = v) (h2 : ∀ a ∈ c.elements, ∀ v ∈ a, bkD (cvD v) = v)
    (h3 : ∀ a ∈ c.indices, ∀ v ∈ a, bkI (cvI v) = v) :
    convert bkD bkI (convert cvD cvI c) = c := by
  cases c with
  | mk si sdt els ixs =>
    simp only [convert] at *
    congr 1
    · exact map_map_id cvD bkD sdt h1
    · exact map_map_id (·.map cvD) (·.map bkD) els (fun a ha => map_map_id cvD bkD a (h2 a ha))
    · exact map_map_id (·.map cvI) (·.map bkI) ixs (fun a ha => map_map_id cvI bkI a (h3 a ha))

/-! ### several records in one stream -/

/-- the first word of an image is its own length (what the stream reader peeks) -/
theorem size_word (t : Tag) (sDT sIT : Nat) (c : Container)
    (hD : sDT = 4 ∨ sDT = 8 ∨ sDT = 16) (hI : sIT = 4 ∨ sIT = 8) (hwf : WF t sDT sIT c)
    (b : Bytes) (hs : serialize t sDT sIT c = some b) : leNat (b.take 8) = b.length ∧ 8 ≤ b.length := by
  obtain ⟨z1, z2, z3, hser, _, _, _⟩ := serialize_closed t sDT sIT c hD hI
  obtain ⟨b', hb', hlen, _⟩ := length_serialize t sDT sIT c hD hI
  rw [hs] at hb'
  injection hb' with hb'
  subst hb'
  have hu : u64Words t sDT sIT c = (rawSize sDT sIT c + 16) ::
      ([t.magic, t.hashDT, t.hashIT, c.elements.length, c.indices.length, c.elements.length, c.indices.length,
        c.scalarIndex.length, c.scalarDt.length, compressOff] ++ sizes c.elements
        ++ (sizes c.elements).map (· * sDT) ++ sizes c.indices ++ (sizes c.indices).map (· * sIT) ++ c.scalarIndex) := rfl
  have hw : rawSize sDT sIT c + 16 < 256 ^ 8 := hwf.1 _ (by rw [hu]; exact List.mem_cons_self)
  rw [hser] at hs
  injection hs with hb
  have htake : b.take 8 = leBytes 8 (rawSize sDT sIT c + 16) := by
    rw [← hb, hu]
    simp only [wordsBytes, List.append_assoc]
    exact List.take_left' (length_leBytes 8 _)
  refine ⟨?_, by omega⟩
  rw [htake, leNat_leBytes 8 _ hw, hlen]

/-- reading one record that sits at `pos = |pre|` in a larger stream: the container comes back and the stream
    is positioned exactly behind the record -/
theorem readFrom_at (t : Tag) (sDT sIT : Nat) (c : Container)
    (hD : sDT = 4 ∨ sDT = 8 ∨ sDT = 16) (hI : sIT = 4 ∨ sIT = 8) (hwf : WF t sDT sIT c)
    (b : Bytes) (hs : serialize t sDT sIT c = some b) (pre post : Bytes) :
    readFrom t.magic sDT sIT (pre ++ b ++ post) pre.length = some (c, pre.length + b.length) := by
  obtain ⟨hsz, h8⟩ := size_word t sDT sIT c hD hI hwf b hs
  have hdrop : (pre ++ b ++ post).drop pre.length = b ++ post := by
    rw [List.append_assoc]
    exact List.drop_left' rfl
  have ht8 : (b ++ post).take 8 = b.take 8 := by
    rw [List.take_append, show 8 - b.length = 0 by omega]
    simp
  have htb : (b ++ post).take b.length = b := List.take_left' rfl
  have hd := deserialize_serialize t sDT sIT c hD hI hwf b hs
  have hc : pre.length + b.length ≤ (pre ++ b ++ post).length ∧ pre.length + 8 ≤ (pre ++ b ++ post).length := by
    simp only [List.length_append]
    omega
  simp only [readFrom, hdrop, ht8, hsz, htb, hd, hc, and_self, if_true]

/-- **several containers in one stream**: reading `k` times from the concatenation of `k` images (behind any
    prefix `pre`, e.g. junk or earlier records, and in front of any suffix) returns the containers in order and
    leaves the stream exactly behind the last record -/
theorem readAll_writeAll (sDT sIT : Nat) (hD : sDT = 4 ∨ sDT = 8 ∨ sDT = 16) (hI : sIT = 4 ∨ sIT = 8) :
    ∀ (objs : List (Tag × Container)) (pre post : Bytes), (∀ o ∈ objs, WF o.1 sDT sIT o.2) →
      readAll sDT sIT (pre ++ writeAll sDT sIT objs ++ post) (objs.map (·.1.magic)) pre.length
        = some (objs.map (·.2), pre.length + (writeAll sDT sIT objs).length)
  | [], pre, post, _ => by simp [readAll, writeAll]
  | (t, c) :: rest, pre, post, hwf => by
    obtain ⟨b, hb, _, _⟩ := length_serialize t sDT sIT c hD hI
    have hwc : WF t sDT sIT c := hwf (t, c) (by simp)
    have h1 := readFrom_at t sDT sIT c hD hI hwc b hb pre (writeAll sDT sIT rest ++ post)
    have ih := readAll_writeAll sDT sIT hD hI rest (pre ++ b) post (fun o ho => hwf o (by simp [ho]))
    have hbuf : pre ++ writeAll sDT sIT ((t, c) :: rest) ++ post = pre ++ b ++ (writeAll sDT sIT rest ++ post) := by
      simp [writeAll, hb, List.append_assoc]
    have hbuf2 : pre ++ b ++ writeAll sDT sIT rest ++ post = pre ++ b ++ (writeAll sDT sIT rest ++ post) := by
      simp [List.append_assoc]
    have hl : (pre ++ b).length = pre.length + b.length := by simp
    rw [hbuf2, hl] at ih
    simp only [List.map_cons, readAll]
    rw [hbuf, h1]
    simp only []
    rw [ih]
    simp [writeAll, hb, Nat.add_assoc]

end FeatModel.Ser
