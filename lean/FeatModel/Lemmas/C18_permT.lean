/-
C18 helper lemmas, part 9: mesh permutations and the truncation matrix (`assemble_truncation(_direct)`).
-/
import FeatModel.Lemmas.C18_perm
import FeatModel.Lemmas.C18_trunc
open FeatModel.GT Finset

namespace C18L

theorem get_scaleRows {C : Nat} {raw m : Mat} {w : List Rat} (h : scaleRows C raw w = some m) {r s : Nat}
    (hr : r < raw.length) (hs : s < C) :
    FeatModel.GT.get m r s = FeatModel.GT.get raw r s * (1 / w.getD r 0) := by
  unfold scaleRows at h
  split at h
  · simp at h
  · simp only [Option.some.injEq] at h
    subst h
    unfold FeatModel.GT.get
    simp only [List.getD_eq_getElem?_getD, List.getElem?_map, List.getElem?_range, hr]
    simp [vtab, hs]

/-- contribution of one coarse cell to the entry `(r, s)` of the raw truncation matrix -/
def tlEntry (t : List Nat × List (List Nat × Mat)) (r s : Nat) : Rat :=
  ∑ i ∈ range t.1.length, if t.1.getD i 0 = r then
    (t.2.map fun (fx : List Nat × Mat) =>
      ∑ k ∈ range fx.1.length, if fx.1.getD k 0 = s then FeatModel.GT.get fx.2 i k else 0).sum else 0

def tlCount (t : List Nat × List (List Nat × Mat)) (r : Nat) : Nat :=
  ((List.range t.1.length).filter fun i => t.1.getD i 0 = r).length

theorem get_truncRaw (d : Dump) (tl : List (List Nat × List (List Nat × Mat))) {r s : Nat} (hr : r < d.nc)
    (hs : s < d.nf) :
    FeatModel.GT.get (truncRaw d tl) r s = (tl.map fun t => tlEntry t r s).sum := by
  have g2 : FeatModel.GT.get (truncRaw d tl) r s = (sumRows d.nf (truncContrib d.nf tl r)).getD s 0 := by
    unfold FeatModel.GT.get truncRaw
    simp [hr]
  rw [g2, sumRows_eq, getD_vtab _ hs]
  unfold truncContrib
  rw [sum_flatMap_map]
  congr 1
  apply List.map_congr_left
  intro t _
  obtain ⟨cmap, xs⟩ := t
  unfold tlEntry
  rw [sum_filterMap_range cmap.length (fun i => cmap.getD i 0 = r)
    (fun i => sumRows d.nf (xs.map fun (fx : List Nat × Mat) => denseRow d.nf fx.1 (fx.2.getD i [])))
    (fun row => row.getD s 0)]
  apply Finset.sum_congr rfl
  intro i _
  split
  · rw [sumRows_eq, getD_vtab _ hs, List.map_map]
    congr 1
    apply List.map_congr_left
    intro fx _
    simp only [Function.comp]
    unfold denseRow
    rw [getD_vtab _ hs, sumTo_eq]
    rfl
  · rfl

theorem length_truncContrib (nf : Nat) (tl : List (List Nat × List (List Nat × Mat))) (r : Nat) :
    (truncContrib nf tl r).length = (tl.map fun t => tlCount t r).sum := by
  unfold truncContrib
  induction tl with
  | nil => simp
  | cons t tl ih =>
    rw [List.flatMap_cons, List.length_append, ih, List.map_cons, List.sum_cons]
    congr 1
    obtain ⟨cmap, xs⟩ := t
    exact length_filterMap_ite _ (fun i => cmap.getD i 0 = r) _

def relabelT (σc σf : Nat → Nat) (t : List Nat × List (List Nat × Mat)) : List Nat × List (List Nat × Mat) :=
  (t.1.map σc, t.2.map fun fx => (fx.1.map σf, fx.2))

theorem tlEntry_relabel {σc σf : Nat → Nat} (hc : Function.Injective σc) (hf : Function.Injective σf)
    (t : List Nat × List (List Nat × Mat)) (r s : Nat) :
    tlEntry (relabelT σc σf t) (σc r) (σf s) = tlEntry t r s := by
  unfold tlEntry relabelT
  simp only [List.length_map, List.map_map]
  apply Finset.sum_congr rfl
  intro i hi
  rw [getD_map_lt σc _ (Finset.mem_range.1 hi)]
  have e1 : (σc (t.1.getD i 0) = σc r) ↔ (t.1.getD i 0 = r) := ⟨fun h => hc h, fun h => by rw [h]⟩
  simp only [e1]
  split
  · congr 1
    apply List.map_congr_left
    intro fx _
    simp only [Function.comp, List.length_map]
    apply Finset.sum_congr rfl
    intro k hk
    rw [getD_map_lt σf _ (Finset.mem_range.1 hk)]
    have e2 : (σf (fx.1.getD k 0) = σf s) ↔ (fx.1.getD k 0 = s) := ⟨fun h => hf h, fun h => by rw [h]⟩
    simp only [e2]
  · rfl

theorem tlCount_relabel {σc σf : Nat → Nat} (hc : Function.Injective σc)
    (t : List Nat × List (List Nat × Mat)) (r : Nat) :
    tlCount (relabelT σc σf t) (σc r) = tlCount t r := by
  unfold tlCount relabelT
  simp only [List.length_map]
  congr 1
  apply List.filter_congr
  intro i hi
  rw [getD_map_lt σc _ (List.mem_range.1 hi)]
  have e1 : (σc (t.1.getD i 0) = σc r) ↔ (t.1.getD i 0 = r) := ⟨fun h => hc h, fun h => by rw [h]⟩
  simp only [e1]

theorem truncDirect_perm_relabel (d0 dP : Dump) (tl0 tlP : List (List Nat × List (List Nat × Mat))) (td0 tdP : Mat)
    {σc σf : Nat → Nat} (hc : Function.Injective σc) (hf : Function.Injective σf)
    (hnf : dP.nf = d0.nf) (hnc : dP.nc = d0.nc)
    (hperm : tlP.Perm (tl0.map (relabelT σc σf)))
    (h0 : scaleRows d0.nf (truncRaw d0 tl0) (truncWeights d0 tl0) = some td0)
    (hP : scaleRows dP.nf (truncRaw dP tlP) (truncWeights dP tlP) = some tdP)
    {r s : Nat} (hr : r < d0.nc) (hs : s < d0.nf) (hr' : σc r < d0.nc) (hs' : σf s < d0.nf) :
    FeatModel.GT.get tdP (σc r) (σf s) = FeatModel.GT.get td0 r s := by
  have key : ∀ (d : Dump) (tl : List (List Nat × List (List Nat × Mat))) (td : Mat) (q p : Nat),
      scaleRows d.nf (truncRaw d tl) (truncWeights d tl) = some td → q < d.nc → p < d.nf →
      FeatModel.GT.get td q p = (tl.map fun t => tlEntry t q p).sum *
        (1 / (((tl.map fun t => tlCount t q).sum : Nat) : Rat)) := by
    intro d tl td q p h hq hp
    have hlen : (truncRaw d tl).length = d.nc := by simp [truncRaw]
    rw [get_scaleRows h (by rw [hlen]; exact hq) hp, get_truncRaw d tl hq hp]
    have g3 : (truncWeights d tl).getD q 0 = ((truncContrib d.nf tl q).length : Rat) := by
      unfold truncWeights; rw [getD_vtab _ hq]
    rw [g3, length_truncContrib]
  rw [key dP tlP tdP (σc r) (σf s) hP (by rw [hnc]; exact hr') (by rw [hnf]; exact hs'), key d0 tl0 td0 r s h0 hr hs]
  have e1 : (tlP.map fun t => tlEntry t (σc r) (σf s)).sum = (tl0.map fun t => tlEntry t r s).sum := by
    rw [(hperm.map _).sum_eq, List.map_map]
    congr 1
    apply List.map_congr_left
    intro t _
    exact tlEntry_relabel hc hf t r s
  have e2 : (tlP.map fun t => tlCount t (σc r)).sum = (tl0.map fun t => tlCount t r).sum := by
    rw [(hperm.map _).sum_eq, List.map_map]
    congr 1
    apply List.map_congr_left
    intro t _
    exact tlCount_relabel hc t r
  rw [e1, e2]

/-! ### the local truncation matrices as an explicit map over the cells -/

def okInv : Option (Rat × Mat × List Nat) → Mat
  | some (_, minv, _) => minv
  | none => []

def tOf (cell : Cell) : List Nat × List (List Nat × Mat) :=
  (cell.cmap, cell.children.map fun ch => (ch.fmap,
    matMul cell.cmap.length cell.cmap.length ch.fmap.length
      (okInv (invertMatrix cell.cmap.length cell.cmap.length (massC cell.cmap.length cell.cpts)))
      (massCF cell.cmap.length ch.fmap.length ch.pts)))

theorem localTruncs_eq_map {d : Dump} {tl : List (List Nat × List (List Nat × Mat))} (h : localTruncs d = .ok tl) :
    tl = d.cells.map tOf := by
  unfold localTruncs at h
  refine mapM_ok_eq_map _ tOf ?_ _ _ h
  intro cell y hy
  simp only at hy
  split at hy
  · simp at hy
  · rename_i det minv p hinv
    split at hy
    · simp at hy
    · rename_i xs hxs
      simp only [Except.ok.injEq] at hy
      subst hy
      unfold tOf
      rw [hinv, childMapM_ok cell.cmap.length minv cell.children xs hxs]
      rfl

theorem tOf_relabel (σc σf : Nat → Nat) (cell : Cell) :
    tOf (relabelCell σc σf cell) = relabelT σc σf (tOf cell) := by
  simp [tOf, relabelT, relabelCell, relabelChild, List.map_map, Function.comp_def]

theorem localTruncs_perm (d0 dP : Dump) (σc σf : Nat → Nat) (idx : List Nat)
    (hidx : idx.Perm (List.range d0.cells.length))
    (hcells : dP.cells = idx.map fun c => relabelCell σc σf (d0.cells.getD c default))
    {tl0 tlP : List (List Nat × List (List Nat × Mat))}
    (h0 : localTruncs d0 = .ok tl0) (hP : localTruncs dP = .ok tlP) :
    tlP.Perm (tl0.map (relabelT σc σf)) := by
  rw [localTruncs_eq_map h0, localTruncs_eq_map hP, hcells]
  have hc : (idx.map fun c => relabelCell σc σf (d0.cells.getD c default)).Perm (d0.cells.map (relabelCell σc σf)) := by
    have := hidx.map fun c => relabelCell σc σf (d0.cells.getD c default)
    refine this.trans ?_
    have e := list_eq_map_getD d0.cells default
    conv_rhs => rw [e]
    rw [List.map_map]
    exact List.Perm.refl _
  refine (hc.map tOf).trans ?_
  rw [List.map_map, List.map_map]
  apply List.Perm.of_eq
  apply List.map_congr_left
  intro cell _
  exact tOf_relabel σc σf cell

/-- **perm_invariance (truncation)**: `T'(σc r, σf s) = T(r, s)` for every permutation state -/
theorem perm_invariance_trunc (m0 : TwoLevel) (pc pf pfinv : List Nat) {σc σf : Nat → Nat}
    (hc : Function.Injective σc) (hf : Function.Injective σf) (hok : PermOK m0 pc pf pfinv)
    {tl0 tlP : List (List Nat × List (List Nat × Mat))} {td0 tdP : Mat}
    (h0 : localTruncs m0.toDump = .ok tl0)
    (hP : localTruncs (permutedPair m0 pc pf pfinv σc σf).toDump = .ok tlP)
    (hd0 : scaleRows m0.nf (truncRaw m0.toDump tl0) (truncWeights m0.toDump tl0) = some td0)
    (hdP : scaleRows m0.nf (truncRaw (permutedPair m0 pc pf pfinv σc σf).toDump tlP)
      (truncWeights (permutedPair m0 pc pf pfinv σc σf).toDump tlP) = some tdP)
    {r s : Nat} (hr : r < m0.nc) (hs : s < m0.nf) (hr' : σc r < m0.nc) (hs' : σf s < m0.nf) :
    FeatModel.GT.get tdP (σc r) (σf s) = FeatModel.GT.get td0 r s := by
  have hpc : ∀ i, i < m0.coarse.length → lookup pc i < m0.coarse.length := by
    intro i hi
    have : lookup pc i ∈ (List.range m0.coarse.length).map (lookup pc) :=
      List.mem_map.2 ⟨i, List.mem_range.2 hi, rfl⟩
    exact List.mem_range.1 (hok.coarse.mem_iff.1 this)
  have hcells := toDump_permutedPair m0 pc pf pfinv σc σf hok.base_c hok.base_f hpc hok.fine
  have hlen : m0.toDump.cells.length = m0.coarse.length := by simp [TwoLevel.toDump]
  have hperm := localTruncs_perm m0.toDump (permutedPair m0 pc pf pfinv σc σf).toDump σc σf
    ((List.range m0.coarse.length).map (lookup pc)) (by rw [hlen]; exact hok.coarse)
    (by rw [hcells, List.map_map]; rfl) h0 hP
  exact truncDirect_perm_relabel m0.toDump (permutedPair m0 pc pf pfinv σc σf).toDump tl0 tlP td0 tdP hc hf rfl rfl
    hperm hd0 hdP hr hs hr' hs'

end C18L
