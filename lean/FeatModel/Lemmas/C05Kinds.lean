import FeatModel.Lemmas.C05Serialize
import FeatModel.Model.TextIO
/-! helper lemmas for C05: well-formedness of the serialised image of every container kind, so that
`deserialize_serialize` / `typed_roundtrip` apply to each kind the harness runs -/
namespace FeatModel.Ser
open FeatModel.TextIO

theorem length_le_flatten {β : Type} : ∀ (l : List (List β)) (a : List β), a ∈ l → a.length ≤ l.flatten.length
  | [], _, h => by simp at h
  | b :: l, a, h => by
    rcases List.mem_cons.mp h with h | h
    · subst h; simp
    · have := length_le_flatten l a h
      simp only [List.flatten_cons, List.length_append]
      omega

/-- the words of the `uint64` block fit as soon as the tag, the total size and the `Index` scalars fit:
    array counts, array sizes and array byte sizes are all bounded by the total size -/
theorem WF_of_bounds (t : Tag) (sDT sIT : Nat) (c : Container) (hD : 0 < sDT) (hI : 0 < sIT)
    (ht : t.magic < 256 ^ 8 ∧ t.hashDT < 256 ^ 8 ∧ t.hashIT < 256 ^ 8)
    (hraw : rawSize sDT sIT c + 16 < 256 ^ 8) (hsi : ∀ v ∈ c.scalarIndex, v < 256 ^ 8)
    (hsd : ∀ v ∈ c.scalarDt, v < 256 ^ sDT) (hel : ∀ a ∈ c.elements, ∀ v ∈ a, v < 256 ^ sDT)
    (hix : ∀ a ∈ c.indices, ∀ v ∈ a, v < 256 ^ sIT) : WF t sDT sIT c := by
  refine ⟨?_, hsd, hel, hix⟩
  have hn : nWords c * 8 ≤ rawSize sDT sIT c := by simp only [rawSize]; omega
  have hdl : (dtWords c).length * sDT ≤ rawSize sDT sIT c := by simp only [rawSize]; omega
  have hil : (itWords c).length * sIT ≤ rawSize sDT sIT c := by simp only [rawSize]; omega
  have he : ∀ a ∈ c.elements, a.length * sDT ≤ rawSize sDT sIT c := by
    intro a ha
    have h1 := length_le_flatten c.elements a ha
    have h2 : a.length ≤ (dtWords c).length := by simp only [dtWords, List.length_append]; omega
    exact Nat.le_trans (Nat.mul_le_mul_right sDT h2) hdl
  have hi : ∀ a ∈ c.indices, a.length * sIT ≤ rawSize sDT sIT c := by
    intro a ha
    have h1 := length_le_flatten c.indices a ha
    exact Nat.le_trans (Nat.mul_le_mul_right sIT h1) hil
  have hnsd : c.scalarDt.length ≤ rawSize sDT sIT c := by
    have h2 : c.scalarDt.length ≤ (dtWords c).length := by simp only [dtWords, List.length_append]; omega
    exact Nat.le_trans (Nat.le_trans h2 (Nat.le_mul_of_pos_right _ hD)) hdl
  have hmul : ∀ n s : Nat, 0 < s → n ≤ n * s := fun n s hs => Nat.le_mul_of_pos_right n hs
  intro v hv
  simp only [u64Words, nWords, sizes, compressOff, List.mem_append, List.mem_cons, List.mem_map,
    List.not_mem_nil, or_false] at hv hn
  rcases hv with ((((hv | hv) | hv) | hv) | hv) | hv
  · rcases hv with h | h | h | h | h | h | h | h | h | h | h <;> subst h <;> first | omega | exact ht.1 | exact ht.2.1 | exact ht.2.2
  · obtain ⟨a, ha, rfl⟩ := hv
    have := he a ha
    have := hmul a.length sDT hD
    omega
  · obtain ⟨_, ⟨a, ha, rfl⟩, rfl⟩ := hv
    have := he a ha
    omega
  · obtain ⟨a, ha, rfl⟩ := hv
    have := hi a ha
    have := hmul a.length sIT hI
    omega
  · obtain ⟨_, ⟨a, ha, rfl⟩, rfl⟩ := hv
    have := hi a ha
    omega
  · exact hsi v hv

theorem rawSize_convert (cvD cvI : Nat → Nat) (sDT sIT : Nat) (c : Container) :
    rawSize sDT sIT (convert cvD cvI c) = rawSize sDT sIT c := by
  simp [rawSize, nWords, dtWords, itWords, convert, List.length_flatten, List.map_map, Function.comp_def]

/-- the image written by `write_out<DT2_, IT2_>` (values converted to the file types) is well formed -/
theorem WF_convert (t : Tag) (sDT sIT : Nat) (cvD cvI : Nat → Nat) (c : Container) (hD : 0 < sDT) (hI : 0 < sIT)
    (ht : t.magic < 256 ^ 8 ∧ t.hashDT < 256 ^ 8 ∧ t.hashIT < 256 ^ 8)
    (hraw : rawSize sDT sIT c + 16 < 256 ^ 8) (hsi : ∀ v ∈ c.scalarIndex, v < 256 ^ 8)
    (hcD : ∀ x, cvD x < 256 ^ sDT) (hcI : ∀ x, cvI x < 256 ^ sIT) : WF t sDT sIT (convert cvD cvI c) := by
  refine WF_of_bounds t sDT sIT (convert cvD cvI c) hD hI ht (by rw [rawSize_convert]; exact hraw) hsi ?_ ?_ ?_
  · intro v hv
    obtain ⟨x, _, rfl⟩ := List.mem_map.mp hv
    exact hcD x
  · intro a ha v hv
    obtain ⟨a0, _, rfl⟩ := List.mem_map.mp ha
    obtain ⟨x, _, rfl⟩ := List.mem_map.mp hv
    exact hcD x
  · intro a ha v hv
    obtain ⟨a0, _, rfl⟩ := List.mem_map.mp ha
    obtain ⟨x, _, rfl⟩ := List.mem_map.mp hv
    exact hcI x


/-! ### per-kind instances: the image of every container kind the harness runs is well formed -/

theorem dv_image_wf (t : Tag) (sDT sIT : Nat) (cvD cvI : Nat → Nat) (vals : List Nat) (hD : 0 < sDT) (hI : 0 < sIT)
    (ht : t.magic < 256 ^ 8 ∧ t.hashDT < 256 ^ 8 ∧ t.hashIT < 256 ^ 8)
    (hraw : rawSize sDT sIT (dvLayout vals) + 16 < 256 ^ 8) (h0 : vals.length < 256 ^ 8)
    (hcD : ∀ x, cvD x < 256 ^ sDT) (hcI : ∀ x, cvI x < 256 ^ sIT) :
    WF t sDT sIT (convert cvD cvI (dvLayout vals)) := by
  refine WF_convert t sDT sIT cvD cvI _ hD hI ht hraw ?_ hcD hcI
  intro v hv
  unfold dvLayout at hv
  repeat' split at hv
  all_goals simp at hv
  all_goals omega

theorem dvb_image_wf (t : Tag) (sDT sIT : Nat) (cvD cvI : Nat → Nat) (bs : Nat) (vals : List Nat) (hD : 0 < sDT) (hI : 0 < sIT)
    (ht : t.magic < 256 ^ 8 ∧ t.hashDT < 256 ^ 8 ∧ t.hashIT < 256 ^ 8)
    (hraw : rawSize sDT sIT (dvbLayout bs vals) + 16 < 256 ^ 8) (h0 : vals.length / bs < 256 ^ 8)
    (hcD : ∀ x, cvD x < 256 ^ sDT) (hcI : ∀ x, cvI x < 256 ^ sIT) :
    WF t sDT sIT (convert cvD cvI (dvbLayout bs vals)) := by
  refine WF_convert t sDT sIT cvD cvI _ hD hI ht hraw ?_ hcD hcI
  intro v hv
  unfold dvbLayout at hv
  repeat' split at hv
  all_goals simp at hv
  all_goals omega

theorem sv_image_wf (t : Tag) (sDT sIT : Nat) (cvD cvI : Nat → Nat) (size : Nat) (idx vals : List Nat) (hD : 0 < sDT) (hI : 0 < sIT)
    (ht : t.magic < 256 ^ 8 ∧ t.hashDT < 256 ^ 8 ∧ t.hashIT < 256 ^ 8)
    (hraw : rawSize sDT sIT (svLayout size idx vals) + 16 < 256 ^ 8) (h0 : size < 256 ^ 8) (h1 : vals.length < 256 ^ 8)
    (hcD : ∀ x, cvD x < 256 ^ sDT) (hcI : ∀ x, cvI x < 256 ^ sIT) :
    WF t sDT sIT (convert cvD cvI (svLayout size idx vals)) := by
  refine WF_convert t sDT sIT cvD cvI _ hD hI ht hraw ?_ hcD hcI
  intro v hv
  unfold svLayout at hv
  repeat' split at hv
  all_goals simp at hv
  all_goals omega

theorem dm_image_wf (t : Tag) (sDT sIT : Nat) (cvD cvI : Nat → Nat) (r c : Nat) (vals : List Nat) (hD : 0 < sDT) (hI : 0 < sIT)
    (ht : t.magic < 256 ^ 8 ∧ t.hashDT < 256 ^ 8 ∧ t.hashIT < 256 ^ 8)
    (hraw : rawSize sDT sIT (dmLayout r c vals) + 16 < 256 ^ 8) (h0 : r * c < 256 ^ 8) (h1 : r < 256 ^ 8) (h2 : c < 256 ^ 8)
    (hcD : ∀ x, cvD x < 256 ^ sDT) (hcI : ∀ x, cvI x < 256 ^ sIT) :
    WF t sDT sIT (convert cvD cvI (dmLayout r c vals)) := by
  refine WF_convert t sDT sIT cvD cvI _ hD hI ht hraw ?_ hcD hcI
  intro v hv
  unfold dmLayout at hv
  repeat' split at hv
  all_goals simp at hv
  all_goals omega

theorem csr_image_wf (t : Tag) (sDT sIT : Nat) (cvD cvI : Nat → Nat) (variant : Nat) (m : Csr) (hD : 0 < sDT) (hI : 0 < sIT)
    (ht : t.magic < 256 ^ 8 ∧ t.hashDT < 256 ^ 8 ∧ t.hashIT < 256 ^ 8)
    (hraw : rawSize sDT sIT (csrLayout variant m) + 16 < 256 ^ 8) (h0 : m.rows * m.cols < 256 ^ 8) (h1 : m.rows < 256 ^ 8) (h2 : m.cols < 256 ^ 8) (h3 : m.vals.length < 256 ^ 8)
    (hcD : ∀ x, cvD x < 256 ^ sDT) (hcI : ∀ x, cvI x < 256 ^ sIT) :
    WF t sDT sIT (convert cvD cvI (csrLayout variant m)) := by
  refine WF_convert t sDT sIT cvD cvI _ hD hI ht hraw ?_ hcD hcI
  intro v hv
  unfold csrLayout at hv
  repeat' split at hv
  all_goals simp at hv
  all_goals omega

theorem bcsr_image_wf (t : Tag) (sDT sIT : Nat) (cvD cvI : Nat → Nat) (bh bw r c : Nat) (rowPtr colInd vals : List Nat) (hD : 0 < sDT) (hI : 0 < sIT)
    (ht : t.magic < 256 ^ 8 ∧ t.hashDT < 256 ^ 8 ∧ t.hashIT < 256 ^ 8)
    (hraw : rawSize sDT sIT (bcsrLayout bh bw r c rowPtr colInd vals) + 16 < 256 ^ 8) (h0 : r * c < 256 ^ 8) (h1 : r < 256 ^ 8) (h2 : c < 256 ^ 8) (h3 : vals.length / (bh * bw) < 256 ^ 8)
    (hcD : ∀ x, cvD x < 256 ^ sDT) (hcI : ∀ x, cvI x < 256 ^ sIT) :
    WF t sDT sIT (convert cvD cvI (bcsrLayout bh bw r c rowPtr colInd vals)) := by
  refine WF_convert t sDT sIT cvD cvI _ hD hI ht hraw ?_ hcD hcI
  intro v hv
  unfold bcsrLayout at hv
  repeat' split at hv
  all_goals simp at hv
  all_goals omega

theorem bm_image_wf (t : Tag) (sDT sIT : Nat) (cvD cvI : Nat → Nat) (r c : Nat) (offs vals : List Nat) (hD : 0 < sDT) (hI : 0 < sIT)
    (ht : t.magic < 256 ^ 8 ∧ t.hashDT < 256 ^ 8 ∧ t.hashIT < 256 ^ 8)
    (hraw : rawSize sDT sIT (bmLayout r c offs vals) + 16 < 256 ^ 8) (h0 : r * c < 256 ^ 8) (h1 : r < 256 ^ 8) (h2 : c < 256 ^ 8) (h3 : bandedUsed r c offs < 256 ^ 8) (h4 : offs.length < 256 ^ 8)
    (hcD : ∀ x, cvD x < 256 ^ sDT) (hcI : ∀ x, cvI x < 256 ^ sIT) :
    WF t sDT sIT (convert cvD cvI (bmLayout r c offs vals)) := by
  refine WF_convert t sDT sIT cvD cvI _ hD hI ht hraw ?_ hcD hcI
  intro v hv
  unfold bmLayout at hv
  repeat' split at hv
  all_goals simp at hv
  all_goals omega

theorem cscr_image_wf (t : Tag) (sDT sIT : Nat) (cvD cvI : Nat → Nat) (r c : Nat) (rowPtr colInd vals rowNum : List Nat) (hD : 0 < sDT) (hI : 0 < sIT)
    (ht : t.magic < 256 ^ 8 ∧ t.hashDT < 256 ^ 8 ∧ t.hashIT < 256 ^ 8)
    (hraw : rawSize sDT sIT (cscrLayout r c rowPtr colInd vals rowNum) + 16 < 256 ^ 8) (h0 : r * c < 256 ^ 8) (h1 : r < 256 ^ 8) (h2 : c < 256 ^ 8) (h3 : vals.length < 256 ^ 8) (h4 : rowNum.length < 256 ^ 8)
    (hcD : ∀ x, cvD x < 256 ^ sDT) (hcI : ∀ x, cvI x < 256 ^ sIT) :
    WF t sDT sIT (convert cvD cvI (cscrLayout r c rowPtr colInd vals rowNum)) := by
  refine WF_convert t sDT sIT cvD cvI _ hD hI ht hraw ?_ hcD hcI
  intro v hv
  unfold cscrLayout at hv
  repeat' split at hv
  all_goals simp at hv
  all_goals omega

/-! ### decidable forms: well-formed image, representable values -/

theorem WF_of_ImageOK (t : Tag) (sDT sIT : Nat) (c : Container) (h : ImageOK t sDT sIT c = true) : WF t sDT sIT c := by
  simp only [ImageOK, Bool.and_eq_true, List.all_eq_true, decide_eq_true_eq] at h
  exact ⟨h.1.1.1, h.1.1.2, h.1.2, h.2⟩

theorem representable_spec (cvD cvI bkD bkI : Nat → Nat) (c : Container)
    (h : Representable cvD cvI bkD bkI c = true) :
    (∀ v ∈ c.scalarDt, bkD (cvD v) = v) ∧ (∀ a ∈ c.elements, ∀ v ∈ a, bkD (cvD v) = v) ∧
    (∀ a ∈ c.indices, ∀ v ∈ a, bkI (cvI v) = v) := by
  simp only [Representable, Bool.and_eq_true, List.all_eq_true, beq_iff_eq] at h
  exact ⟨h.1.1, h.1.2, h.2⟩

end FeatModel.Ser
