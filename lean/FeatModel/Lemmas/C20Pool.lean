import FeatModel.Model.Pool
/-! C20 helper lemmas, part 1: the reference counter of every chunk under the pool primitives -/
namespace FeatModel.Pool

/-- every stored counter is positive (a chunk whose counter would drop to 0 is erased instead) -/
def PoolPos (p : Pool) : Prop := ∀ id c, get p id = some c → 1 ≤ c.count

theorem get_lt {p : Pool} {id : Nat} {c : Chunk} (h : get p id = some c) : id < p.length := by
  unfold get at h
  split at h
  · rename_i c' hc
    exact (List.getElem?_eq_some_iff.mp hc).1
  · cases h

theorem get_set_self (p : Pool) (i : Nat) (x : Option Chunk) (h : i < p.length) :
    get (p.set i x) i = x := by
  unfold get
  rw [List.getElem?_set_self h]
  cases x <;> rfl

theorem get_set_ne (p : Pool) (i j : Nat) (x : Option Chunk) (h : i ≠ j) :
    get (p.set i x) j = get p j := by
  unfold get
  rw [List.getElem?_set_ne h]

theorem get_append_lt (p : Pool) (x : Option Chunk) (j : Nat) (h : j < p.length) :
    get (p ++ [x]) j = get p j := by
  unfold get
  rw [List.getElem?_append_left h]

theorem get_append_len (p : Pool) (x : Option Chunk) : get (p ++ [x]) p.length = x := by
  unfold get
  simp
  cases x <;> rfl

theorem get_ge (p : Pool) (j : Nat) (h : p.length ≤ j) : get p j = none := by
  unfold get
  rw [List.getElem?_eq_none h]

theorem count_ge (p : Pool) (j : Nat) (h : p.length ≤ j) : count p j = 0 := by
  unfold count; rw [get_ge p j h]

/-- a chunk id that was never allocated has counter 0; `alloc` uses exactly such an id -/
theorem count_alloc (p : Pool) (n esz : Nat) (vals : List Int) (j : Nat) :
    count (alloc p n esz vals).1 j = count p j + (if (alloc p n esz vals).2 = .at j 0 then 1 else 0) := by
  unfold alloc
  by_cases hn : n = 0
  · simp [hn]
  · simp only [hn, if_false]
    by_cases hj : j < p.length
    · have : ¬ (Ptr.at p.length 0 = Ptr.at j 0) := by
        intro h; injection h with h1 _; omega
      simp only [this, if_false, Nat.add_zero]
      unfold count; rw [get_append_lt p _ j hj]
    · by_cases hj2 : j = p.length
      · subst hj2
        simp only [if_true]
        unfold count
        rw [get_append_len, get_ge p p.length (Nat.le_refl _)]
      · have : ¬ (Ptr.at p.length 0 = Ptr.at j 0) := by
          intro h; injection h with h1 _; omega
        simp only [this, if_false, Nat.add_zero]
        rw [count_ge p j (by omega), count_ge _ j (by simp; omega)]

theorem posAlloc (p : Pool) (n esz : Nat) (vals : List Int) (hp : PoolPos p) : PoolPos (alloc p n esz vals).1 := by
  unfold alloc
  by_cases hn : n = 0
  · simpa [hn] using hp
  · simp only [hn, if_false]
    intro id c h
    by_cases hj : id < p.length
    · rw [get_append_lt p _ id hj] at h; exact hp id c h
    · by_cases hj2 : id = p.length
      · subst hj2; rw [get_append_len] at h; injection h with h; subst h; exact Nat.le_refl 1
      · rw [get_ge _ id (by simp; omega)] at h; cases h

/-- `increase_memory` succeeded: null pointer — nothing happens; otherwise exactly the addressed counter grew by one -/
theorem count_incr {p p' : Pool} {q : Ptr} (h : incr p q = .ok p') (j : Nat) :
    (q = .null ∧ p' = p) ∨ ∃ id, q = .at id 0 ∧ count p' j = count p j + (if id = j then 1 else 0) := by
  unfold incr at h
  cases q with
  | null => injection h with h; exact Or.inl ⟨rfl, h.symm⟩
  | «at» id off =>
    right
    simp only at h
    by_cases ho : off = 0
    · subst ho
      simp only [ne_eq, not_true_eq_false, if_false] at h
      cases hg : get p id with
      | none => rw [hg] at h; cases h
      | some c =>
        rw [hg] at h
        injection h with h
        subst h
        refine ⟨id, rfl, ?_⟩
        · by_cases hij : id = j
          · subst hij
            unfold count
            rw [get_set_self p id _ (get_lt hg), hg]; simp
          · unfold count
            rw [get_set_ne p id j _ hij]; simp [hij]
    · simp [ho] at h

theorem posIncr {p p' : Pool} {q : Ptr} (h : incr p q = .ok p') (hp : PoolPos p) : PoolPos p' := by
  unfold incr at h
  cases q with
  | null => injection h with h; subst h; exact hp
  | «at» id off =>
    simp only at h
    by_cases ho : off = 0
    · subst ho
      simp only [ne_eq, not_true_eq_false, if_false] at h
      cases hg : get p id with
      | none => rw [hg] at h; cases h
      | some c =>
        rw [hg] at h
        injection h with h
        subst h
        intro k c' hk
        by_cases hik : id = k
        · subst hik
          rw [get_set_self p id _ (get_lt hg)] at hk
          injection hk with hk; subst hk; simp
        · rw [get_set_ne p id k _ hik] at hk; exact hp k c' hk
    · simp [ho] at h

/-- `release_memory` succeeded on a non-null pointer: the chunk was in the pool, exactly its counter dropped by one -/
theorem count_release {p p' : Pool} {id off : Nat} (h : release p (.at id off) = .ok p') (hp : PoolPos p) (j : Nat) :
    off = 0 ∧ 1 ≤ count p id ∧ count p' j + (if id = j then 1 else 0) = count p j := by
  unfold release at h
  simp only at h
  by_cases ho : off = 0
  · subst ho
    simp only [ne_eq, not_true_eq_false, if_false] at h
    cases hg : get p id with
    | none => rw [hg] at h; cases h
    | some c =>
      rw [hg] at h
      have hc := hp id c hg
      refine ⟨rfl, ?_, ?_⟩
      · unfold count; rw [hg]; exact hc
      · by_cases h1 : c.count = 1
        · simp only [h1, if_true] at h
          injection h with h; subst h
          by_cases hij : id = j
          · subst hij
            unfold count
            rw [get_set_self p id _ (get_lt hg), hg]; simp [h1]
          · unfold count
            rw [get_set_ne p id j _ hij]; simp [hij]
        · simp only [h1, if_false] at h
          injection h with h; subst h
          by_cases hij : id = j
          · subst hij
            unfold count
            rw [get_set_self p id _ (get_lt hg), hg]; simp; omega
          · unfold count
            rw [get_set_ne p id j _ hij]; simp [hij]
  · simp [ho] at h

theorem posRelease {p p' : Pool} {q : Ptr} (h : release p q = .ok p') (hp : PoolPos p) : PoolPos p' := by
  unfold release at h
  cases q with
  | null => injection h with h; subst h; exact hp
  | «at» id off =>
    simp only at h
    by_cases ho : off = 0
    · subst ho
      simp only [ne_eq, not_true_eq_false, if_false] at h
      cases hg : get p id with
      | none => rw [hg] at h; cases h
      | some c =>
        rw [hg] at h
        have hc := hp id c hg
        by_cases h1 : c.count = 1
        · simp only [h1, if_true] at h
          injection h with h; subst h
          intro k c' hk
          by_cases hik : id = k
          · subst hik; rw [get_set_self p id _ (get_lt hg)] at hk; cases hk
          · rw [get_set_ne p id k _ hik] at hk; exact hp k c' hk
        · simp only [h1, if_false] at h
          injection h with h; subst h
          intro k c' hk
          by_cases hik : id = k
          · subst hik; rw [get_set_self p id _ (get_lt hg)] at hk
            injection hk with hk; subst hk; simp; omega
          · rw [get_set_ne p id k _ hik] at hk; exact hp k c' hk
    · simp [ho] at h

end FeatModel.Pool
