/- C13: concrete composite mirrors / vectors for the non-vacuity examples of Props/C13.lean. -/
import FeatModel.Lemmas.C13Examples
import FeatModel.Lemmas.C13Comp
import FeatModel.Lemmas.C13CompMux
import FeatModel.Lemmas.C13CompGate
import FeatModel.Lemmas.C13CompFreqs
import Mathlib.Tactic.NormNum
open FeatModel.Dist

namespace FeatModel.C13L

/-- a 3-tuple mirror: blocked (bs = 2) / scalar / blocked (bs = 3) components -/
def exCMir : CMir := .pair (.leaf [2, 0]) (.pair (.leaf [1]) (.leaf [0, 1]))

/-- `TupleVector<DenseVectorBlocked<2>, DenseVector, DenseVectorBlocked<3>>` with 3, 2, 2 blocks -/
def exCVec : CVec ℚ :=
  .pair (.leaf 2 [1, 2, 3, 4, 5, 6]) (.pair (.leaf 1 [7, 8]) (.leaf 3 [9, 10, 11, 12, 13, 14]))

/-- a nested mirror: a tuple whose first component is itself a tuple (power of 2) -/
def exNMir : CMir := .pair (CMir.power 2 (.leaf [1, 1])) (.leaf [0])

def exNVec : CVec ℚ := .pair (.pair (.leaf 1 [1, 2]) (.leaf 1 [3, 4])) (.leaf 2 [5, 6])

/-! Muxer: a parent vector (4 scalars, 2 blocks of 2) and two children; scalar 2 and block 0 are in both children -/
def exMuxX : CVec ℚ := .pair (.leaf 1 [1, 2, 3, 4]) (.leaf 2 [5, 6, 7, 8])
/-- child vectors: 3 scalars + 1 block, 2 scalars + 2 blocks -/
def exMuxChildren : List (CVec ℚ) :=
  [.pair (.leaf 1 [10, 20, 30]) (.leaf 2 [40, 50]), .pair (.leaf 1 [1, 2]) (.leaf 2 [3, 4, 5, 6])]
/-- child mirrors on the parent (buffer sizes 5 and 6) -/
def exMuxCm : List CMir := [.pair (.leaf [0, 1, 2]) (.leaf [0]), .pair (.leaf [2, 3]) (.leaf [0, 1])]
/-- parent mirrors on the children -/
def exMuxPm : List CMir := [.pair (.leaf [0, 1, 2]) (.leaf [0]), .pair (.leaf [0, 1]) (.leaf [0, 1])]

/-! Composite gate: three patches with `TupleVector<DenseVector, DenseVectorBlocked<2>>`; patch 0 has two neighbours -/
def exCPs : List (CPatch ℚ) :=
  [{ tmpl := .pair (.leaf 1 [0, 0, 0]) (.leaf 2 [0, 0, 0, 0]),
     nbrs := [(1, .pair (.leaf [2]) (.leaf [1])), (2, .pair (.leaf [0, 2]) (.leaf [1, 0]))] },
   { tmpl := .pair (.leaf 1 [0, 0]) (.leaf 2 [0, 0, 0, 0]), nbrs := [(0, .pair (.leaf [0]) (.leaf [0]))] },
   { tmpl := .pair (.leaf 1 [0, 0]) (.leaf 2 [0, 0, 0, 0]), nbrs := [(0, .pair (.leaf [1, 0]) (.leaf [0, 1]))] }]

def exCVs : List (CVec ℚ) :=
  [.pair (.leaf 1 [1, 2, 3]) (.leaf 2 [4, 5, 6, 7]), .pair (.leaf 1 [10, 20]) (.leaf 2 [30, 40, 50, 60]),
   .pair (.leaf 1 [100, 200]) (.leaf 2 [300, 400, 500, 600])]

end FeatModel.C13L
