import FeatModel.Model.PartitionRefine
import FeatModel.Lemmas.C10Parts
import FeatModel.Lemmas.C12Halo
/-! C12 helper lemmas: the simple target refiner commutes with the composition "halo of a patch ∘ patch part". -/
namespace FeatModel.Parti
open FeatModel.Adj FeatModel.Refine FeatModel.Gen.Refine

theorem flatMap_congr' {α β : Type} {l : List α} {f g : α → List β} (h : ∀ a ∈ l, f a = g a) :
    l.flatMap f = l.flatMap g := by
  induction l with
  | nil => rfl
  | cons a as ih =>
    simp only [List.flatMap_cons]
    rw [h a (by simp), ih (fun x hx => h x (by simp [hx]))]

theorem target_mk (n : Nat) (f : Nat → List Nat) (s : Nat) :
    ({ targets := (List.range (n + 1)).map f, topo := none } : Part).target s = if s ≤ n then f s else [] := by
  unfold Part.target
  simp only [List.getD_eq_getElem?_getD, List.getElem?_map]
  by_cases h : s ≤ n
  · rw [List.getElem?_range (by omega)]; simp [h]
  · rw [List.getElem?_eq_none (by simp; omega)]; simp [h]

theorem simplePart_target (M : Refine.Mesh) (P : Part) (c : Nat) :
    (simplePart M P).target c = if c ≤ M.dim then simpleTargets M P c else [] :=
  target_mk M.dim (simpleTargets M P) c

theorem composePart_target (dim : Nat) (P H : Part) (d : Nat) :
    (composePart dim P H).target d =
      if d ≤ dim then (H.target d).map (fun i => (P.target d).getD i 0) else [] :=
  target_mk dim _ d

/-- the block of children the simple target refiner writes for the part entities of dimension `s` -/
def stBlock (M : Refine.Mesh) (P : Part) (c s : Nat) : List Nat :=
  (P.target s).flatMap fun t =>
    (List.range (refCount M.kind s c)).map fun j => offset M.kind M.nums c s + t * refCount M.kind s c + j

theorem stBlock_length (M : Refine.Mesh) (P : Part) (c s : Nat) :
    (stBlock M P c s).length = (P.target s).length * refCount M.kind s c := by
  unfold stBlock
  exact length_flatMap_const _ _ _ (fun t _ => by simp)

/-- offsets of a mesh whose entity counts are the sizes of the part's target sets (the patch mesh) -/
theorem offset_eq_blocks (M N : Refine.Mesh) (P : Part) (c s : Nat) (hk : N.kind = M.kind)
    (hn : ∀ j, c ≤ j → j < s → N.nums.getD j 0 = (P.target j).length) :
    offset N.kind N.nums c s = ((List.range' c (s - c)).map fun j => (stBlock M P c j).length).sum := by
  unfold offset
  congr 1
  apply List.map_congr_left
  intro j hj
  rw [List.mem_range'_1] at hj
  rw [stBlock_length, hn j hj.1 (by omega), hk, Nat.mul_comm]

/-- **position formula**: in the refined patch part, the `j`-th child of the `t`-th part entity of dimension `s`
sits at the index the refined patch mesh gives to that child, and is attached to the `j`-th child of the parent entity -/
theorem simpleTargets_getElem (M N : Refine.Mesh) (P : Part) (c s t j : Nat) (hk : N.kind = M.kind)
    (hn : ∀ d, d ≤ M.dim → N.nums.getD d 0 = (P.target d).length)
    (hcs : c ≤ s) (hsd : s ≤ M.dim) (ht : t < (P.target s).length) (hj : j < refCount M.kind s c) :
    (simpleTargets M P c)[offset N.kind N.nums c s + t * refCount M.kind s c + j]? =
      some (offset M.kind M.nums c s + (P.target s).getD t 0 * refCount M.kind s c + j) := by
  have hst : simpleTargets M P c = (List.range' c (M.dim + 1 - c)).flatMap (stBlock M P c) := rfl
  rw [hst, offset_eq_blocks M N P c s hk (fun d h1 h2 => hn d (by omega)), Nat.add_assoc]
  have hp : t * refCount M.kind s c + j < (stBlock M P c s).length := by
    rw [stBlock_length]
    have : (t + 1) * refCount M.kind s c ≤ (P.target s).length * refCount M.kind s c :=
      Nat.mul_le_mul_right _ ht
    rw [Nat.succ_mul] at this
    omega
  rw [getElem?_flatMap_range' (stBlock M P c) (M.dim + 1 - c) c s _ hcs (by omega) hp]
  unfold stBlock
  rw [getElem?_flatMap_const (P.target s) _ (refCount M.kind s c) (fun t _ => by simp) t j hj]
  simp [List.getD, ht, hj]

/-- the invariant of one interface side: the patch mesh has as many entities as the patch part has targets, and the
halo refers to existing patch entities -/
structure Side.Ok (q : Side) : Prop where
  kind : q.mesh.kind = q.base.kind
  dim : q.mesh.dim = q.base.dim
  nums : ∀ d, q.mesh.nums.getD d 0 = (q.part.target d).length
  inRange : ∀ d, ∀ i ∈ q.halo.target d, i < (q.part.target d).length

/-- **commutation**: refining the halo inside the refined patch mesh and mapping it through the refined patch part
gives the simple refinement (in the base mesh) of the halo mapped through the coarse patch part — list equality -/
theorem compose_simple (M N : Refine.Mesh) (P H : Part) (c : Nat) (hk : N.kind = M.kind) (hd : N.dim = M.dim)
    (hn : ∀ d, d ≤ M.dim → N.nums.getD d 0 = (P.target d).length)
    (hr : ∀ d, ∀ i ∈ H.target d, i < (P.target d).length) (hc : c ≤ M.dim) :
    (simpleTargets N H c).map (fun i => (simpleTargets M P c).getD i 0) =
      simpleTargets M (composePart M.dim P H) c := by
  unfold simpleTargets
  rw [List.map_flatMap, hd, hk]
  apply flatMap_congr'
  intro s hs
  rw [List.mem_range'_1] at hs
  have hsd : s ≤ M.dim := by omega
  rw [composePart_target, if_pos hsd, List.map_flatMap, List.flatMap_map]
  apply flatMap_congr'
  intro t ht
  rw [List.map_map]
  apply List.map_congr_left
  intro j hj
  rw [List.mem_range] at hj
  have h1 := simpleTargets_getElem M N P c s t j hk hn hs.1 hsd (hr s t ht) hj
  rw [hk] at h1
  simp only [Function.comp, List.getD_eq_getElem?_getD]
  unfold simpleTargets at h1
  rw [h1]
  simp

end FeatModel.Parti
