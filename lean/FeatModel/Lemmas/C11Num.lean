import FeatModel.Model.C11Text
namespace FeatModel.C11

theorem digitsVal_nil (acc : Nat) : digitsVal acc [] = acc := by
  conv => lhs; unfold digitsVal
theorem digitsVal_cons (acc : Nat) (c : Char) (cs : Str) :
    digitsVal acc (c :: cs) = digitsVal (acc * 10 + digitVal c) cs := by
  conv => lhs; unfold digitsVal

theorem digitsVal_eq_ofDigitChars (acc : Nat) (l : Str) :
    digitsVal acc l = Nat.ofDigitChars 10 l acc := by
  induction l generalizing acc with
  | nil => rw [digitsVal_nil, Nat.ofDigitChars_nil]
  | cons c cs ih =>
    rw [digitsVal_cons, ih, Nat.ofDigitChars_cons, Nat.mul_comm, digitVal]

theorem digitsVal_append (acc : Nat) (a b : Str) :
    digitsVal acc (a ++ b) = digitsVal (digitsVal acc a) b := by
  simp only [digitsVal_eq_ofDigitChars, Nat.ofDigitChars_append]

theorem showNat_eq_toDigits (n : Nat) : showNat n = Nat.toDigits 10 n := by
  simp [showNat]

theorem digitsVal_showNat (n : Nat) : digitsVal 0 (showNat n) = n := by
  rw [showNat_eq_toDigits, digitsVal_eq_ofDigitChars]; exact Nat.ofDigitChars_ten_toDigits

theorem isDigit_iff (c : Char) : isDigit c = true ↔ 48 ≤ c.toNat ∧ c.toNat ≤ 57 := by
  simp only [isDigit, Char.le_def, Bool.and_eq_true, decide_eq_true_eq, UInt32.le_iff_toNat_le]
  exact Iff.rfl

theorem isDigit_eq_core (c : Char) : isDigit c = c.isDigit := by
  simp only [isDigit, Char.isDigit, Char.le_def, ge_iff_le]

theorem isDigit_of_mem_showNat (n : Nat) : ∀ c ∈ showNat n, isDigit c = true := by
  intro c hc
  rw [showNat_eq_toDigits] at hc
  rw [isDigit_eq_core]
  exact Nat.isDigit_of_mem_toDigits (by decide) (by decide) hc

theorem showNat_ne_nil (n : Nat) : showNat n ≠ [] := by
  rw [showNat_eq_toDigits]; exact Nat.toDigits_ne_nil


/-! ### white space, trim -/

theorem isWs_toNat {c : Char} (h : isWs c = true) :
    c.toNat = 32 ∨ c.toNat = 10 ∨ c.toNat = 9 ∨ c.toNat = 13 ∨
    c.toNat = 7 ∨ c.toNat = 8 ∨ c.toNat = 11 ∨ c.toNat = 12 := by
  simp only [isWs, Bool.or_eq_true, beq_iff_eq] at h
  rcases h with ((((((h | h) | h) | h) | h) | h) | h) | h
  all_goals first | (subst h; decide) | omega

theorem isWs_space : isWs ' ' = true := by decide

theorem isWs_of_isDigit {c : Char} (h : isDigit c = true) : isWs c = false := by
  rw [isDigit_iff] at h
  cases hw : isWs c with
  | false => rfl
  | true => have := isWs_toNat hw; omega

theorem dropWhile_isWs_replicate (k : Nat) (t : Str) :
    (List.replicate k ' ' ++ t).dropWhile isWs = t.dropWhile isWs := by
  induction k with
  | zero => simp
  | succ k ih => rw [List.replicate_succ, List.cons_append, List.dropWhile_cons, isWs_space]; simpa using ih

theorem dropWhile_eq_self_of_head {p : Char → Bool} {t : Str}
    (h : ∀ c, t.head? = some c → p c = false) : t.dropWhile p = t := by
  cases t with
  | nil => rfl
  | cons a as => rw [List.dropWhile_cons, h a rfl]; rfl

/-- `trim` strips leading blanks and is the identity on a line that neither starts nor ends with white space -/
theorem trim_replicate_append (k : Nat) (t : Str)
    (h0 : ∀ c, t.head? = some c → isWs c = false)
    (h1 : ∀ c, t.getLast? = some c → isWs c = false) :
    trim (List.replicate k ' ' ++ t) = t := by
  unfold trim trimFront trimBack
  rw [dropWhile_isWs_replicate, dropWhile_eq_self_of_head h0,
    dropWhile_eq_self_of_head (by simpa using h1), List.reverse_reverse]

theorem trim_eq_self (t : Str)
    (h0 : ∀ c, t.head? = some c → isWs c = false)
    (h1 : ∀ c, t.getLast? = some c → isWs c = false) : trim t = t := by
  simpa using trim_replicate_append 0 t h0 h1

theorem trim_eq_self_of_noWs (t : Str) (h : ∀ c ∈ t, isWs c = false) : trim t = t := by
  apply trim_eq_self
  · intro c hc; exact h c (List.mem_of_head? hc)
  · intro c hc; exact h c (List.mem_of_getLast? hc)

/-! ### sign and digit span -/

theorem readSign_of_isDigit {c : Char} (cs : Str) (h : isDigit c = true) :
    readSign (c :: cs) = (false, c :: cs) := by
  rw [isDigit_iff] at h
  unfold readSign
  split
  · rename_i heq; injection heq with h1 _; subst h1; exact absurd h (by decide)
  · rename_i heq; injection heq with h1 _; subst h1; exact absurd h (by decide)
  · rfl

theorem readSign_minus (r : Str) : readSign ('-' :: r) = (true, r) := rfl

theorem spanDigits_append (ds r : Str) (hd : ∀ c ∈ ds, isDigit c = true)
    (hr : ∀ c, r.head? = some c → isDigit c = false) : spanDigits (ds ++ r) = (ds, r) := by
  unfold spanDigits
  induction ds with
  | nil =>
    cases r with
    | nil => rfl
    | cons a as => simp [hr a rfl]
  | cons d ds ih =>
    have hd' : isDigit d = true := hd d (by simp)
    have := ih (fun c hc => hd c (by simp [hc]))
    simp only [Prod.mk.injEq] at this
    simp [hd', this.1, this.2]

theorem spanDigits_of_all (ds : Str) (hd : ∀ c ∈ ds, isDigit c = true) :
    spanDigits ds = (ds, []) := by
  simpa using spanDigits_append ds [] hd (by simp)

/-! ### `readIndex ∘ showNat` -/

theorem showNat_noWs (n : Nat) : ∀ c ∈ showNat n, isWs c = false :=
  fun c hc => isWs_of_isDigit (isDigit_of_mem_showNat n c hc)

theorem readSign_showNat (n : Nat) : readSign (showNat n) = (false, showNat n) := by
  have hne := showNat_ne_nil n
  have hd := isDigit_of_mem_showNat n
  cases hs : showNat n with
  | nil => exact absurd hs hne
  | cons c cs => exact readSign_of_isDigit cs (hd c (by simp [hs]))

theorem readIndex_showNat (n : Nat) (h : n < 2 ^ 64) : readIndex (showNat n) = some n := by
  unfold readIndex
  simp only [trim_eq_self_of_noWs _ (showNat_noWs n), readSign_showNat,
    spanDigits_of_all _ (isDigit_of_mem_showNat n), digitsVal_showNat]
  have hne := showNat_ne_nil n
  have : (showNat n).isEmpty = false := by simpa using hne
  simp [this, Nat.not_le.mpr h]

theorem space_toList : " ".toList = [' '] := by simp

theorem span_append_stop {p : Char → Bool} (a r : Str) (ha : ∀ c ∈ a, p c = true)
    (hr : ∀ c, r.head? = some c → p c = false) :
    (a ++ r).takeWhile p = a ∧ (a ++ r).dropWhile p = r := by
  induction a with
  | nil =>
    cases r with
    | nil => exact ⟨rfl, rfl⟩
    | cons x xs => simp [hr x rfl]
  | cons d ds ih =>
    have hd' : p d = true := ha d (by simp)
    have := ih (fun c hc => ha c (by simp [hc]))
    simp [hd', this.1, this.2]

/-- one step of the tokenizer: leading blanks, one token, and a rest that is empty or starts with white space -/
theorem splitWsFuel_step (f k : Nat) (t r : Str) (hne : t ≠ [])
    (ht : ∀ c ∈ t, isWs c = false) (hr : ∀ c, r.head? = some c → isWs c = true) :
    splitWsFuel (f + 1) (List.replicate k ' ' ++ (t ++ r)) = t :: splitWsFuel f r := by
  cases t with
  | nil => exact absurd rfl hne
  | cons a as =>
    have h1 : (List.replicate k ' ' ++ (a :: as ++ r)).dropWhile isWs = a :: (as ++ r) := by
      rw [dropWhile_isWs_replicate]
      exact dropWhile_eq_self_of_head (by intro c hc; simp at hc; subst hc; exact ht a (by simp))
    have h2 := span_append_stop (p := fun c => !isWs c) (a :: as) r
      (by intro c hc; simp [ht c hc]) (by intro c hc; simp [hr c hc])
    rw [List.cons_append] at h2
    rw [splitWsFuel, h1]
    simp only [h2.1, h2.2]

theorem intercalate_space_cons (t : Str) (ts : List Str) :
    ∃ j, List.intercalate [' '] (t :: ts) = t ++ (List.replicate j ' ' ++ List.intercalate [' '] ts) ∧
      (ts = [] → j = 0) ∧ (ts ≠ [] → j = 1) := by
  cases ts with
  | nil => exact ⟨0, by simp, by simp, by simp⟩
  | cons u us => exact ⟨1, by simp [List.intercalate_cons_cons], by simp, by simp⟩

theorem splitWsFuel_intercalate (ts : List Str) :
    ∀ (fuel k : Nat), ts.length ≤ fuel → (∀ t ∈ ts, t ≠ [] ∧ ∀ c ∈ t, isWs c = false) →
    splitWsFuel fuel (List.replicate k ' ' ++ List.intercalate [' '] ts) = ts := by
  induction ts with
  | nil =>
    intro fuel k _ _
    cases fuel with
    | zero => rfl
    | succ f =>
      have : (List.replicate k ' ' ++ List.intercalate [' '] ([] : List Str)).dropWhile isWs = [] := by
        rw [dropWhile_isWs_replicate]; rfl
      rw [splitWsFuel, this]
  | cons t ts ih =>
    intro fuel k hf hg
    cases fuel with
    | zero => simp at hf
    | succ f =>
      obtain ⟨j, hj, hj0, hj1⟩ := intercalate_space_cons t ts
      have hgt := hg t (by simp)
      rw [hj, splitWsFuel_step f k t _ hgt.1 hgt.2, ih f j (by simpa using hf) (fun u hu => hg u (by simp [hu]))]
      intro c hc
      by_cases hts : ts = []
      · subst hts; simp [hj0 rfl] at hc
      · rw [hj1 hts] at hc; simp at hc; subst hc; exact isWs_space

theorem length_le_length_intercalate (ts : List Str) (h : ∀ t ∈ ts, t ≠ []) :
    ts.length ≤ (List.intercalate [' '] ts).length := by
  induction ts with
  | nil => simp
  | cons t ts ih =>
    obtain ⟨j, hj, -, -⟩ := intercalate_space_cons t ts
    have := ih (fun u hu => h u (by simp [hu]))
    have ht : 0 < t.length := List.length_pos_iff.mpr (h t (by simp))
    rw [hj]; simp only [List.length_append, List.length_cons]; omega

/-- token layer: a line of blank-separated tokens (with `k` leading blanks) splits into exactly these tokens -/
theorem splitWs_intercalate (k : Nat) (ts : List Str)
    (h : ∀ t ∈ ts, t ≠ [] ∧ ∀ c ∈ t, isWs c = false) :
    splitWs (List.replicate k ' ' ++ " ".toList.intercalate ts) = ts := by
  rw [space_toList]
  unfold splitWs
  apply splitWsFuel_intercalate ts _ k _ h
  have := length_le_length_intercalate ts (fun t ht => (h t ht).1)
  simp only [List.length_append]; omega

/-! ### integers and rationals -/

theorem showInt_eq (z : Int) :
    showInt z = if 0 ≤ z then showNat z.toNat else '-' :: showNat (-z).toNat := by
  unfold showInt showNat
  rw [Int.toString_eq_repr, Int.repr_eq_if]
  split <;> simp

theorem showInt_ofNat (n : Nat) : showInt (n : Int) = showNat n := by
  rw [showInt_eq]; simp

theorem showInt_neg (n : Nat) (h : 0 < n) : showInt (-(n : Int)) = '-' :: showNat n := by
  rw [showInt_eq, if_neg (by omega)]; simp

/-- the signed-digit prefix used by `showInt` -/
def sgnPre (neg : Bool) : Str := if neg then ['-'] else []

theorem readSign_sgnPre (neg : Bool) (n : Nat) (r : Str) :
    readSign (sgnPre neg ++ (showNat n ++ r)) = (neg, showNat n ++ r) := by
  cases neg with
  | true => rfl
  | false =>
    have hne := showNat_ne_nil n
    have hd := isDigit_of_mem_showNat n
    show readSign (showNat n ++ r) = _
    cases hs : showNat n with
    | nil => exact absurd hs hne
    | cons c cs => exact readSign_of_isDigit _ (hd c (by simp [hs]))

theorem isWs_minus : isWs '-' = false := by decide
theorem isWs_slash : isWs '/' = false := by decide
theorem isDigit_slash : isDigit '/' = false := by decide

theorem showNat_isEmpty (n : Nat) : (showNat n).isEmpty = false := by
  simpa using showNat_ne_nil n

theorem readQ_frac (neg : Bool) (m d : Nat) (hd : d ≠ 0) :
    readQ (sgnPre neg ++ (showNat m ++ '/' :: showNat d)) =
      some (mkRat ((if neg then -1 else 1) * (m : Int)) d) := by
  have htrim : trim (sgnPre neg ++ (showNat m ++ '/' :: showNat d)) =
      sgnPre neg ++ (showNat m ++ '/' :: showNat d) := by
    apply trim_eq_self_of_noWs
    intro c hc
    simp only [List.mem_append, List.mem_cons] at hc
    rcases hc with hc | hc | hc | hc
    · cases neg <;> simp [sgnPre] at hc; subst hc; exact isWs_minus
    · exact showNat_noWs m c hc
    · subst hc; exact isWs_slash
    · exact showNat_noWs d c hc
  have hspan : spanDigits (showNat m ++ '/' :: showNat d) = (showNat m, '/' :: showNat d) :=
    spanDigits_append _ _ (isDigit_of_mem_showNat m)
      (by intro c hc; simp at hc; subst hc; exact isDigit_slash)
  unfold readQ
  simp only [htrim, readSign_sgnPre, hspan, showNat_isEmpty,
    spanDigits_of_all _ (isDigit_of_mem_showNat d), digitsVal_showNat]
  simp [hd]

theorem showQ_eq (q : Rat) : ∃ (neg : Bool) (m : Nat),
    showQ q = sgnPre neg ++ (showNat m ++ '/' :: showNat q.den) ∧
      (if neg then -1 else 1) * (m : Int) = q.num := by
  unfold showQ
  rw [showInt_eq]
  by_cases h : 0 ≤ q.num
  · exact ⟨false, q.num.toNat, by simp [h, sgnPre], by simp; omega⟩
  · exact ⟨true, (-q.num).toNat, by simp [h, sgnPre], by simp; omega⟩

theorem readQ_showQ (q : Rat) : readQ (showQ q) = some q := by
  obtain ⟨neg, m, hs, hm⟩ := showQ_eq q
  rw [hs, readQ_frac neg m q.den q.den_nz, hm, Rat.mkRat_self]

theorem readSign_sgnPre_nil (neg : Bool) (n : Nat) :
    readSign (sgnPre neg ++ showNat n) = (neg, showNat n) := by
  simpa using readSign_sgnPre neg n []

theorem readInt_sgnPre (neg : Bool) (n : Nat) :
    readInt (sgnPre neg ++ showNat n) =
      if neg then (if n > 2 ^ 31 then none else some (-(n : Int)))
      else (if n ≥ 2 ^ 31 then none else some (n : Int)) := by
  have htrim : trim (sgnPre neg ++ showNat n) = sgnPre neg ++ showNat n := by
    apply trim_eq_self_of_noWs
    intro c hc
    simp only [List.mem_append] at hc
    rcases hc with hc | hc
    · cases neg <;> simp [sgnPre] at hc; subst hc; exact isWs_minus
    · exact showNat_noWs n c hc
  unfold readInt
  simp only [htrim, readSign_sgnPre_nil, showNat_isEmpty,
    spanDigits_of_all _ (isDigit_of_mem_showNat n), digitsVal_showNat]
  simp

theorem readInt_showInt (z : Int) (h : -(2 ^ 31 : Int) ≤ z ∧ z < 2 ^ 31) :
    readInt (showInt z) = some z := by
  rw [showInt_eq]
  by_cases hz : 0 ≤ z
  · rw [if_pos hz]
    have := readInt_sgnPre false z.toNat
    simp only [sgnPre, List.nil_append, Bool.false_eq_true, if_false] at this
    rw [this, if_neg (by omega)]
    exact congrArg some (by omega)
  · rw [if_neg hz]
    have := readInt_sgnPre true (-z).toNat
    simp only [sgnPre, if_true, List.cons_append, List.nil_append] at this
    rw [this, if_neg (by omega)]
    exact congrArg some (by omega)

/-! ### tokens produced by the printers, and trimming of token lines -/

theorem showInt_tok (z : Int) : showInt z ≠ [] ∧ ∀ c ∈ showInt z, isWs c = false := by
  rw [showInt_eq]
  split
  · exact ⟨showNat_ne_nil _, showNat_noWs _⟩
  · refine ⟨by simp, ?_⟩
    intro c hc
    simp only [List.mem_cons] at hc
    rcases hc with hc | hc
    · subst hc; exact isWs_minus
    · exact showNat_noWs _ c hc

theorem showNat_tok (n : Nat) : showNat n ≠ [] ∧ ∀ c ∈ showNat n, isWs c = false :=
  ⟨showNat_ne_nil n, showNat_noWs n⟩

theorem showQ_tok (q : Rat) : showQ q ≠ [] ∧ ∀ c ∈ showQ q, isWs c = false := by
  unfold showQ
  refine ⟨by simp, ?_⟩
  intro c hc
  simp only [List.mem_append, List.mem_cons] at hc
  rcases hc with hc | hc | hc
  · exact (showInt_tok q.num).2 c hc
  · subst hc; exact isWs_slash
  · exact showNat_noWs _ c hc

theorem intercalate_noWs_ends (ts : List Str) (h : ∀ t ∈ ts, t ≠ [] ∧ ∀ c ∈ t, isWs c = false) :
    (∀ c, (List.intercalate [' '] ts).head? = some c → isWs c = false) ∧
    (∀ c, (List.intercalate [' '] ts).getLast? = some c → isWs c = false) := by
  induction ts with
  | nil => simp
  | cons t ts ih =>
    have ht := h t (by simp)
    have ih := ih (fun u hu => h u (by simp [hu]))
    cases ts with
    | nil =>
      rw [List.intercalate_singleton]
      exact ⟨fun c hc => ht.2 c (List.mem_of_head? hc), fun c hc => ht.2 c (List.mem_of_getLast? hc)⟩
    | cons u us =>
      rw [List.intercalate_cons_cons]
      constructor
      · intro c hc
        cases t with
        | nil => exact absurd rfl ht.1
        | cons a as => simp at hc; subst hc; exact ht.2 a (by simp)
      · intro c hc
        have hne : List.intercalate [' '] (u :: us) ≠ [] := by
          obtain ⟨j, hj, -, -⟩ := intercalate_space_cons u us
          have hu := (h u (by simp)).1
          rw [hj]; simp [hu]
        rw [List.getLast?_append] at hc
        cases hl : (List.intercalate [' '] (u :: us)).getLast? with
        | none => exact absurd (List.getLast?_eq_none_iff.mp hl) hne
        | some d => rw [hl] at hc; simp at hc; subst hc; exact ih.2 d hl

/-- `trim` of an indented token line removes exactly the indentation -/
theorem trim_replicate_intercalate (k : Nat) (ts : List Str)
    (h : ∀ t ∈ ts, t ≠ [] ∧ ∀ c ∈ t, isWs c = false) :
    trim (List.replicate k ' ' ++ " ".toList.intercalate ts) = " ".toList.intercalate ts := by
  rw [space_toList]
  exact trim_replicate_append k _ (intercalate_noWs_ends ts h).1 (intercalate_noWs_ends ts h).2

theorem splitWs_showNat_line (k : Nat) (ns : List Nat) :
    splitWs (List.replicate k ' ' ++ " ".toList.intercalate (ns.map showNat)) = ns.map showNat := by
  apply splitWs_intercalate
  intro t ht
  obtain ⟨n, -, rfl⟩ := List.mem_map.mp ht
  exact showNat_tok n

theorem splitWs_showQ_line (k : Nat) (qs : List Rat) :
    splitWs (List.replicate k ' ' ++ " ".toList.intercalate (qs.map showQ)) = qs.map showQ := by
  apply splitWs_intercalate
  intro t ht
  obtain ⟨q, -, rfl⟩ := List.mem_map.mp ht
  exact showQ_tok q

/-- reading back a printed line of indices -/
theorem readIndex_showNat_line (k : Nat) (ns : List Nat) (h : ∀ n ∈ ns, n < 2 ^ 64) :
    (splitWs (List.replicate k ' ' ++ " ".toList.intercalate (ns.map showNat))).map readIndex =
      ns.map some := by
  rw [splitWs_showNat_line, List.map_map]
  apply List.map_congr_left
  intro n hn
  simp only [Function.comp_apply]
  exact readIndex_showNat n (h n hn)

/-- reading back a printed line of rationals -/
theorem readQ_showQ_line (k : Nat) (qs : List Rat) :
    (splitWs (List.replicate k ' ' ++ " ".toList.intercalate (qs.map showQ))).map readQ =
      qs.map some := by
  rw [splitWs_showQ_line, List.map_map]
  apply List.map_congr_left
  intro q _
  simp only [Function.comp_apply]
  exact readQ_showQ q

end FeatModel.C11
