import FeatModel.Model.FETrace
import FeatModel.Lemmas.C15Subst
import Mathlib.Algebra.BigOperators.Group.Finset.Basic
import Mathlib.Algebra.BigOperators.Ring.Finset
import Mathlib.Algebra.BigOperators.Group.Finset.Sigma
import Mathlib.Algebra.BigOperators.Group.List.Basic
namespace FeatModel.FE
open FeatModel.Poly

theorem list_range_sum (n : Nat) (g : Nat → Rat) : ((List.range n).map g).sum = ∑ i ∈ Finset.range n, g i := by
  induction n with
  | zero => simp
  | succ n ih => simp [List.range_succ, Finset.sum_range_succ, ih]

theorem mapPoly_evalAt (k : Kind) (d : Nat) (V : List (List Rat)) (a : Nat) (x : List Rat) :
    evalAt x (mapPoly k d V a)
      = ((List.range (numVerts k d)).map fun i => (V.getD i []).getD a 0 * evalAt x (shapeFn k d i)).sum := by
  simp only [evalAt, mapPoly, eval_sum, List.map_map]
  congr 1
  apply List.map_congr_left
  intro i _
  simp [eval_smul]

theorem pt_map_evalAt' (l : List Poly) (s : List Rat) :
    pt (l.map (evalAt s)) = fun b => eval (pt s) (l.getD b []) := by
  funext b
  simp only [pt, List.getD_eq_getElem?_getD, List.getElem?_map]
  cases l[b]? <;> simp [evalAt, eval]

theorem evalAt_substL' (l : List Poly) (p : Poly) (s : List Rat) :
    evalAt s (substL l p) = evalAt (l.map (evalAt s)) p := by
  simp only [evalAt, substL, eval_subst, pt_map_evalAt']

def embedPt' (k : Kind) (dim d : Nat) (r : List Nat) (s : List Rat) : List Rat := (embedL k dim d r).map (evalAt s)

theorem shapeTrace_eval {k : Kind} {dim d : Nat} {r : List Nat} (h : shapeTraceOk k dim d r = true)
    {i : Nat} (hi : i < numVerts k dim) (s : List Rat) :
    evalAt (embedPt' k dim d r s) (shapeFn k dim i)
      = ∑ m ∈ Finset.range (numVerts k d), if r.getD m 0 = i then evalAt s (shapeFn k d m) else 0 := by
  simp only [shapeTraceOk, Bool.and_eq_true, List.all_eq_true, List.mem_range] at h
  have h2 := equivT_sound (h.2 i hi) (pt s)
  rw [embedPt', ← evalAt_substL']
  simp only [evalAt]
  rw [h2, eval_sum, List.map_map, list_range_sum]
  apply Finset.sum_congr rfl
  intro m _
  simp only [Function.comp]
  split <;> simp [eval, evalAt]

theorem worldDim_eq (V : List (List Rat)) : worldDim V = (V.getD 0 []).length := by
  cases V <;> simp [worldDim]

theorem getD_map_lt {α β : Type} (l : List α) (g : α → β) (m : Nat) (a : α) (b : β) (h : m < l.length) :
    (l.map g).getD m b = g (l.getD m a) := by
  simp [List.getD_eq_getElem?_getD, List.getElem?_map, List.getElem?_eq_getElem h]

theorem shapeTrace_lt {k : Kind} {dim d : Nat} {r : List Nat} (h : shapeTraceOk k dim d r = true) {m : Nat}
    (hm : m < numVerts k d) : r.getD m 0 < numVerts k dim ∧ r.length = numVerts k d := by
  simp only [shapeTraceOk, Bool.and_eq_true, List.all_eq_true, beq_iff_eq, decide_eq_true_eq] at h
  have hl := h.1.1
  have hm' : m < r.length := by omega
  refine ⟨?_, hl⟩
  have : r.getD m 0 = r[m] := by simp [List.getD_eq_getElem?_getD, List.getElem?_eq_getElem hm']
  rw [this]
  exact h.1.2 _ (List.getElem_mem hm')

/-- **embedding lemma**: the transformation of the cell, restricted to a sub-entity through the reference embedding,
    is the sub-entity's own transformation – for arbitrary vertex coordinates (affine or multilinear cells alike) -/
theorem embedding_lemma {k : Kind} {dim d : Nat} {r : List Nat} (h : shapeTraceOk k dim d r = true)
    {V : List (List Rat)} {w : Nat} (hV : uniformV V (numVerts k dim) w) (hd : 0 < numVerts k d)
    (hdim : 0 < numVerts k dim) (s : List Rat) :
    mapPoint k dim V (embedPt' k dim d r s) = mapPoint k d (r.map fun v => V.getD v []) s := by
  have hw1 : worldDim V = w := by rw [worldDim_eq]; exact hV 0 hdim
  have hr0 := shapeTrace_lt h hd
  have hw2 : worldDim (r.map fun v => V.getD v []) = w := by
    rw [worldDim_eq, getD_map_lt r (fun v => V.getD v []) 0 0 [] (by omega)]
    exact hV _ hr0.1
  simp only [mapPoint, hw1, hw2]
  apply List.map_congr_left
  intro a _
  rw [mapPoly_evalAt, mapPoly_evalAt, list_range_sum, list_range_sum]
  have h1 : ∀ i ∈ Finset.range (numVerts k dim),
      (V.getD i []).getD a 0 * evalAt (embedPt' k dim d r s) (shapeFn k dim i)
        = ∑ m ∈ Finset.range (numVerts k d),
            (if r.getD m 0 = i then (V.getD i []).getD a 0 * evalAt s (shapeFn k d m) else 0) := by
    intro i hi
    rw [shapeTrace_eval h (Finset.mem_range.mp hi) s, Finset.mul_sum]
    apply Finset.sum_congr rfl
    intro m _
    split <;> simp
  rw [Finset.sum_congr rfl h1, Finset.sum_comm]
  apply Finset.sum_congr rfl
  intro m hm
  have hm' := Finset.mem_range.mp hm
  have hlt := shapeTrace_lt h hm'
  rw [getD_map_lt r (fun v => V.getD v []) m 0 [] (by omega)]
  have : ∀ i ∈ Finset.range (numVerts k dim),
      (if r.getD m 0 = i then (V.getD i []).getD a 0 * evalAt s (shapeFn k d m) else 0)
        = if r.getD m 0 = i then (V.getD (r.getD m 0) []).getD a 0 * evalAt s (shapeFn k d m) else 0 := by
    intro i _
    split
    · next hh => rw [hh]
    · rfl
  rw [Finset.sum_congr rfl this, Finset.sum_ite_eq, if_pos (Finset.mem_range.mpr hlt.1)]

/-- the vertices of the reference cell are mapped to the vertices of the cell -/
theorem vertex_lemma {k : Kind} {dim : Nat} (h : vertexOk k dim = true) {V : List (List Rat)} {w : Nat}
    (hV : uniformV V (numVerts k dim) w) {e : Nat} (he : e < numVerts k dim) :
    mapPoint k dim V (refVertex k dim e) = V.getD e [] := by
  have hw1 : worldDim V = w := by rw [worldDim_eq]; exact hV 0 (by omega)
  simp only [vertexOk, List.all_eq_true, List.mem_range, beq_iff_eq] at h
  have hle := hV e he
  apply List.ext_getElem
  · simp only [mapPoint, hw1, List.length_map, List.length_range]; exact hle.symm
  · intro a h1 h2
    simp only [mapPoint, hw1, List.getElem_map, List.getElem_range]
    rw [mapPoly_evalAt, list_range_sum]
    have : ∀ i ∈ Finset.range (numVerts k dim),
        (V.getD i []).getD a 0 * evalAt (refVertex k dim e) (shapeFn k dim i)
          = if i = e then (V.getD e []).getD a 0 else 0 := by
      intro i hi
      rw [h e he i (Finset.mem_range.mp hi)]
      split
      · next hh => rw [hh]; simp
      · simp
    rw [Finset.sum_congr rfl this, Finset.sum_ite_eq', if_pos (Finset.mem_range.mpr he)]
    have h2' : a < (V[e]?.getD []).length := by simpa [List.getD_eq_getElem?_getD] using h2
    simp [List.getD_eq_getElem?_getD, List.getElem?_eq_getElem h2']

end FeatModel.FE
