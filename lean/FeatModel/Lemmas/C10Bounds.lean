import FeatModel.Lemmas.C10Counts
/-! C10 helper lemmas: the "all indices are in range / all index sets have the right size" clause of mesh conformity
is preserved by refinement, for every mesh size (generic argument over the structure of the generated terms). -/
namespace FeatModel.Refine
open FeatModel.Gen.Refine

/-- the trailing summand addresses one of the `mult` children of the source entity -/
def addOk (kind : Kind) (mult : Nat) : Add → Bool
  | .const k => k < mult
  | .sim cd fd _ _ => 0 < mult && (congMap kind cd fd).all fun row => row.all (· < mult)

/-- the source entity of a term is the refined entity itself or one of its `off`-dimensional faces -/
def srcOk (kind : Kind) (s off : Nat) : Option (Nat × Nat × Nat) → Bool
  | none => off == s
  | some (a, b, e) => a == s && b == off && off < s && e < faceCount kind s off

/-- structural well-formedness of one generated term of `StandardIndexRefiner<kind<s>, _, f>`: it addresses a child
    (`add < mult = refCount`) of an `off`-dimensional face of the refined entity, `f ≤ off ≤ s` -/
def termOk (kind : Kind) (s f : Nat) (t : Term) : Bool :=
  f ≤ t.off && t.off ≤ s && t.mult == refCount kind t.off f && srcOk kind s t.off t.src && addOk kind t.mult t.add

/-- every term of every generated table is structurally well-formed (re-checked whenever the tables change) -/
theorem tables_ok (kind : Kind) :
    ∀ s < 4, ∀ c < 4, ∀ f < 4,
      ((indexTable kind s c f).all fun row => row.all (termOk kind s f)) = true := by
  cases kind <;> decide

theorem shapeOk_iff (M : Mesh) : M.shapeOk = true ↔
    ∀ c, 1 ≤ c → c ≤ M.dim → ∀ f, f < c →
      (M.idx c f).length = M.num c ∧
      ∀ t ∈ M.idx c f, t.length = faceCount M.kind c f ∧ ∀ x ∈ t, x < M.num f := by
  unfold Mesh.shapeOk
  simp only [List.all_eq_true, List.mem_range'_1, List.mem_range, Bool.and_eq_true, beq_iff_eq,
    decide_eq_true_eq]
  constructor
  · intro h c hc1 hcd f hfc
    exact h c ⟨hc1, by omega⟩ f hfc
  · intro h c hc f hfc
    exact h c hc.1 (by omega) f hfc

theorem entry_lt (M : Mesh) (hM : M.shapeOk = true) (a b i e : Nat) (ha1 : 1 ≤ a) (had : a ≤ M.dim) (hba : b < a)
    (hi : i < M.num a) (he : e < faceCount M.kind a b) : M.entry a b i e < M.num b := by
  obtain ⟨hlen, hrows⟩ := (shapeOk_iff M).1 hM a ha1 had b hba
  unfold Mesh.entry Mesh.tuple
  have hi' : i < (M.idx a b).length := by omega
  simp only [List.getD_eq_getElem?_getD]
  rw [List.getElem?_eq_getElem hi']
  simp only [Option.getD_some]
  obtain ⟨hl, hx⟩ := hrows _ (List.getElem_mem hi')
  have he' : e < ((M.idx a b)[i]).length := by omega
  rw [List.getElem?_eq_getElem he']
  simp only [Option.getD_some]
  exact hx _ (List.getElem_mem he')

theorem evalSrc_lt (M : Mesh) (hM : M.shapeOk = true) (s off i : Nat) (hs : s ≤ M.dim) (hi : i < M.num s)
    (src : Option (Nat × Nat × Nat)) (h : srcOk M.kind s off src = true) : evalSrc M i src < M.num off := by
  cases src with
  | none =>
    simp only [srcOk, beq_iff_eq] at h
    subst h
    simpa [evalSrc] using hi
  | some p =>
    obtain ⟨a, b, e⟩ := p
    simp only [srcOk, Bool.and_eq_true, beq_iff_eq, decide_eq_true_eq] at h
    obtain ⟨⟨⟨ha, hb⟩, hlt⟩, he⟩ := h
    subst ha; subst hb
    simp only [evalSrc]
    exact entry_lt M hM a b i e (by omega) hs hlt hi he

theorem congLookup_lt (kind : Kind) (cd fd : Nat) (o : Int) (face mult : Nat) (h0 : 0 < mult)
    (h : ((congMap kind cd fd).all fun row => row.all (· < mult)) = true) :
    congLookup kind cd fd o face < mult := by
  unfold congLookup
  rw [List.all_eq_true] at h
  simp only [List.getD_eq_getElem?_getD]
  cases hr : (congMap kind cd fd)[o.toNat]? with
  | none => simpa using h0
  | some row =>
    simp only [Option.getD_some]
    have hrow := h row (List.mem_of_getElem? hr)
    rw [List.all_eq_true] at hrow
    cases hx : row[face]? with
    | none => simpa using h0
    | some x =>
      simp only [Option.getD_some]
      simpa using hrow x (List.mem_of_getElem? hx)

theorem evalAdd_lt (M : Mesh) (s i mult : Nat) (a : Add) (h : addOk M.kind mult a = true) :
    evalAdd M s i a < mult := by
  cases a with
  | const k => simpa [addOk, evalAdd] using h
  | sim cd fd a b =>
    simp only [addOk, Bool.and_eq_true, decide_eq_true_eq] at h
    simp only [evalAdd, simMap]
    exact congLookup_lt M.kind cd fd _ b mult h.1 h.2

/-- a well-formed term evaluates to a valid index of a fine `f`-entity -/
theorem evalTerm_lt (M : Mesh) (hM : M.shapeOk = true) (s f i : Nat) (hs : s ≤ M.dim) (hi : i < M.num s)
    (t : Term) (ht : termOk M.kind s f t = true) :
    evalTerm M s f i t < fineCount M.kind M.nums M.dim f := by
  simp only [termOk, Bool.and_eq_true, decide_eq_true_eq, beq_iff_eq] at ht
  obtain ⟨⟨⟨⟨hfo, hos⟩, hmult⟩, hsrc⟩, hadd⟩ := ht
  have h1 := evalSrc_lt M hM s t.off i hs hi t.src hsrc
  have h2 := evalAdd_lt M s i t.mult t.add hadd
  have h3 : offset M.kind M.nums f (t.off + 1) ≤ fineCount M.kind M.nums M.dim f := by
    unfold fineCount
    exact offset_mono M.kind M.nums f (by omega) (by omega)
  rw [offset_succ M.kind M.nums f t.off hfo, ← hmult] at h3
  have h4 : t.mult * (evalSrc M i t.src + 1) ≤ t.mult * M.nums.getD t.off 0 := by
    apply Nat.mul_le_mul_left
    unfold Mesh.num at h1
    omega
  unfold evalTerm
  rw [Nat.mul_add, Nat.mul_one] at h4
  omega

/-- **the size/range clause of conformity is preserved by refinement** (all mesh sizes, all six shapes) -/
theorem shapeOk_refine (M : Mesh) (hd : M.dim < 4) (hM : M.shapeOk = true) : (refine M).shapeOk = true := by
  rw [shapeOk_iff]
  intro c hc1 hcd f hfc
  have hdim : (refine M).dim = M.dim := rfl
  have hkind : (refine M).kind = M.kind := rfl
  rw [hdim] at hcd
  rw [refine_idx M c f hcd hfc, refine_num M c hcd, refine_num M f (by omega), hkind]
  refine ⟨fineIdx_length M c f hd hfc, ?_⟩
  intro row hrow
  refine ⟨fineIdx_row_length M c f hd hfc row hrow, ?_⟩
  obtain ⟨s, i, hcs, hsd, hi, r, hr, rfl⟩ := mem_fineIdx hrow
  intro x hx
  rw [List.mem_map] at hx
  obtain ⟨t, htr, rfl⟩ := hx
  have hok := tables_ok M.kind s (by omega) c (by omega) f (by omega)
  rw [List.all_eq_true] at hok
  have hrow' := hok r hr
  rw [List.all_eq_true] at hrow'
  exact evalTerm_lt M hM s f i hsd hi t (hrow' t htr)

end FeatModel.Refine
