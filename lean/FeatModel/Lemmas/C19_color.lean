import FeatModel.Model.Adjacency
/-!
Proofs for the colouring group of C19: `coloring_proper`, `coloring_bounds`,
`coloringOrdered_proper`, `partitionGraph_spec`.  Core Lean only.
-/
open FeatModel.Adj

namespace C19L.color

/-! ### generic list helpers -/

theorem zipIdx_pairwise_snd {α : Type} (l : List α) (k : Nat) :
    (l.zipIdx k).Pairwise (fun a b => a.2 < b.2) := by
  induction l generalizing k with
  | nil => simp
  | cons x xs ih =>
    rw [List.zipIdx_cons, List.pairwise_cons]
    refine ⟨?_, ih (k + 1)⟩
    intro p hp
    have := List.le_snd_of_mem_zipIdx hp
    simp only
    omega

/-- pigeonhole: a duplicate-free list contained in `m` is no longer than `m` -/
theorem nodup_subset_length_le {l m : List Nat} (hl : l.Nodup) (hs : ∀ a, a ∈ l → a ∈ m) :
    l.length ≤ m.length := by
  induction l generalizing m with
  | nil => simp
  | cons a t ih =>
    have ham : a ∈ m := hs a (by simp)
    rw [List.nodup_cons] at hl
    have hsub : ∀ b, b ∈ t → b ∈ m.erase a := by
      intro b hb
      have hne : b ≠ a := fun h => hl.1 (h ▸ hb)
      exact (List.mem_erase_of_ne hne).2 (hs b (by simp [hb]))
    have h1 := ih hl.2 hsub
    have h2 := List.length_erase_of_mem ham
    have h3 : 0 < m.length := List.length_pos_of_mem ham
    simp only [List.length_cons]
    omega

/-- a list that contains a duplicate-free list of at least its own length is duplicate-free -/
theorem nodup_of_subset_length_le {l m : List Nat} (hl : l.Nodup) (hs : ∀ a, a ∈ l → a ∈ m)
    (hlen : m.length ≤ l.length) : m.Nodup := by
  induction l generalizing m with
  | nil =>
    have : m = [] := List.eq_nil_of_length_eq_zero (by simpa using hlen)
    simp [this]
  | cons a t ih =>
    have ham : a ∈ m := hs a (by simp)
    have hl' := hl
    rw [List.nodup_cons] at hl
    have hsub : ∀ b, b ∈ t → b ∈ m.erase a := by
      intro b hb
      have hne : b ≠ a := fun h => hl.1 (h ▸ hb)
      exact (List.mem_erase_of_ne hne).2 (hs b (by simp [hb]))
    have h2 := List.length_erase_of_mem ham
    have h3 : 0 < m.length := List.length_pos_of_mem ham
    simp only [List.length_cons] at hlen
    have hnd : (m.erase a).Nodup := ih hl.2 hsub (by omega)
    have hna : a ∉ m.erase a := by
      intro hmem
      have hs' : ∀ b, b ∈ a :: t → b ∈ m.erase a := by
        intro b hb
        rcases List.mem_cons.1 hb with rfl | hb
        · exact hmem
        · exact hsub b hb
      have := nodup_subset_length_le hl' hs'
      simp only [List.length_cons] at this
      omega
    have hp : m.Perm (a :: m.erase a) := List.perm_cons_erase ham
    exact hp.nodup_iff.2 (List.nodup_cons.2 ⟨hna, hnd⟩)

/-! ### partitionGraph -/

theorem partRow_pairwise (c : Nat) (col : List Nat) :
    (col.zipIdx.filterMap fun (p : Nat × Nat) =>
        match p with | (cj, j) => if cj == c then some j else none).Pairwise (· < ·) := by
  refine List.Pairwise.filterMap _ ?_ (zipIdx_pairwise_snd col 0)
  rintro ⟨c1, j1⟩ ⟨c2, j2⟩ hlt b hb b' hb'
  simp only at hb hb' hlt
  split at hb <;> split at hb' <;> simp_all

theorem mem_partRow (c j : Nat) (col : List Nat) :
    j ∈ (col.zipIdx.filterMap fun (p : Nat × Nat) =>
        match p with | (cj, j) => if cj == c then some j else none) ↔ col[j]? = some c := by
  simp only [List.mem_filterMap]
  constructor
  · rintro ⟨⟨cj, j'⟩, hmem, hf⟩
    simp only at hf
    split at hf
    · rename_i hc
      simp only [Option.some.injEq] at hf
      subst hf
      have := List.mk_mem_zipIdx_iff_getElem?.1 hmem
      simp_all
    · simp at hf
  · intro h
    exact ⟨(c, j), List.mk_mem_zipIdx_iff_getElem?.2 h, by simp⟩

theorem partitionGraph_row (nc : Nat) (col : List Nat) (c : Nat) :
    (Coloring.partitionGraph nc col).row c =
      if c < nc then
        (col.zipIdx.filterMap fun (p : Nat × Nat) =>
          match p with | (cj, j) => if cj == c then some j else none)
      else [] := by
  unfold Coloring.partitionGraph Graph.row
  simp only [List.getD_eq_getElem?_getD, List.getElem?_map]
  by_cases hc : c < nc
  · simp [hc]
  · simp [hc]

theorem partitionGraph_spec (nc : Nat) (col : List Nat) (h : ∀ c, c ∈ col → c < nc) (j : Nat) (hj : j < col.length) :
    (∀ c, j ∈ (Coloring.partitionGraph nc col).row c ↔ col.getD j 0 = c) ∧
    (∀ c, ((Coloring.partitionGraph nc col).row c).count j ≤ 1) := by
  constructor
  · intro c
    rw [partitionGraph_row]
    have hget : col.getD j 0 = col[j] := by simp [List.getD_eq_getElem?_getD, hj]
    rw [hget]
    by_cases hc : c < nc
    · simp only [hc, if_true, mem_partRow]
      simp [hj]
    · simp only [hc, if_false, List.not_mem_nil, false_iff]
      have := h col[j] (List.getElem_mem hj)
      omega
  · intro c
    rw [partitionGraph_row]
    by_cases hc : c < nc
    · simp only [hc, if_true]
      have hp := partRow_pairwise c col
      have hnd : (col.zipIdx.filterMap fun (p : Nat × Nat) =>
          match p with | (cj, j) => if cj == c then some j else none).Nodup :=
        hp.imp (fun hlt => Nat.ne_of_lt hlt)
      exact List.nodup_iff_count.1 hnd j
    · simp [hc]

/-! ### chooseColor / colorNode -/

/-- the fold step of `chooseColor` -/
def ccStep (marked : List Nat) (colNum : Array Nat) (best : Option (Nat × Nat)) (j : Nat) :
    Option (Nat × Nat) :=
  if marked.contains j then best
  else
    let u := colNum.getD j 0
    match best with
    | none => some (u, j)
    | some (bu, _) => if u < bu then some (u, j) else best

theorem chooseColor_eq (nc : Nat) (marked : List Nat) (cn : Array Nat) :
    Coloring.chooseColor nc marked cn = ((List.range nc).foldl (ccStep marked cn) none).map (·.2) := rfl

theorem ccStep_none {marked : List Nat} {cn : Array Nat} {best : Option (Nat × Nat)} {x : Nat}
    (h : ccStep marked cn best x = none) : best = none ∧ x ∈ marked := by
  unfold ccStep at h
  by_cases hm : marked.contains x = true
  · simp only [hm, if_true] at h
    exact ⟨h, by simpa using hm⟩
  · simp only [hm] at h
    cases best with
    | none => simp at h
    | some b =>
      simp only [Bool.false_eq_true, if_false] at h
      split at h <;> simp at h

theorem ccStep_some {marked : List Nat} {cn : Array Nat} {best : Option (Nat × Nat)} {x u j : Nat}
    (h : ccStep marked cn best x = some (u, j)) : best = some (u, j) ∨ (j = x ∧ x ∉ marked) := by
  unfold ccStep at h
  by_cases hm : marked.contains x = true
  · simp only [hm, if_true] at h
    exact Or.inl h
  · have hx : x ∉ marked := by simpa using hm
    simp only [hm] at h
    cases best with
    | none =>
      simp only [Bool.false_eq_true, if_false, Option.some.injEq, Prod.mk.injEq] at h
      exact Or.inr ⟨h.2.symm, hx⟩
    | some b =>
      simp only [Bool.false_eq_true, if_false] at h
      split at h
      · simp only [Option.some.injEq, Prod.mk.injEq] at h
        exact Or.inr ⟨h.2.symm, hx⟩
      · exact Or.inl h

theorem ccFold_spec (marked : List Nat) (cn : Array Nat) (l : List Nat) (best : Option (Nat × Nat)) :
    (l.foldl (ccStep marked cn) best = none → best = none ∧ ∀ k, k ∈ l → k ∈ marked) ∧
    (∀ u j, l.foldl (ccStep marked cn) best = some (u, j) →
        best = some (u, j) ∨ (j ∈ l ∧ j ∉ marked)) := by
  induction l generalizing best with
  | nil => simp
  | cons x xs ih =>
    simp only [List.foldl_cons]
    obtain ⟨ih1, ih2⟩ := ih (ccStep marked cn best x)
    constructor
    · intro h
      obtain ⟨hb, hall⟩ := ih1 h
      obtain ⟨hb', hx⟩ := ccStep_none hb
      refine ⟨hb', ?_⟩
      intro k hk
      rcases List.mem_cons.1 hk with rfl | hk
      · exact hx
      · exact hall k hk
    · intro u j h
      rcases ih2 u j h with hb | ⟨hj, hjm⟩
      · rcases ccStep_some hb with hb' | ⟨rfl, hx⟩
        · exact Or.inl hb'
        · exact Or.inr ⟨by simp, hx⟩
      · exact Or.inr ⟨by simp [hj], hjm⟩

theorem chooseColor_some {nc : Nat} {marked : List Nat} {cn : Array Nat} {c : Nat}
    (h : Coloring.chooseColor nc marked cn = some c) : c < nc ∧ c ∉ marked := by
  rw [chooseColor_eq] at h
  cases hr : (List.range nc).foldl (ccStep marked cn) none with
  | none => simp [hr] at h
  | some b =>
    obtain ⟨u, j⟩ := b
    simp only [hr, Option.map_some, Option.some.injEq] at h
    subst h
    rcases (ccFold_spec marked cn (List.range nc) none).2 u j hr with hb | ⟨hj, hjm⟩
    · simp at hb
    · exact ⟨by simpa using hj, hjm⟩

theorem chooseColor_none {nc : Nat} {marked : List Nat} {cn : Array Nat}
    (h : Coloring.chooseColor nc marked cn = none) : ∀ k, k < nc → k ∈ marked := by
  rw [chooseColor_eq] at h
  simp only [Option.map_eq_none_iff] at h
  intro k hk
  exact ((ccFold_spec marked cn (List.range nc) none).1 h).2 k (by simpa using hk)

/-- what one `colorNode` step does, abstracting away `colNum` -/
theorem colorNode_spec (st : Coloring.St) (i : Nat) (marked : List Nat)
    (hm : ∀ m, m ∈ marked → m < st.numColors) :
    ∃ c, (Coloring.colorNode st i marked).coloring = st.coloring.setIfInBounds i c ∧
      c ∉ marked ∧ c < (Coloring.colorNode st i marked).numColors ∧
      st.numColors ≤ (Coloring.colorNode st i marked).numColors ∧
      ((Coloring.colorNode st i marked).numColors = st.numColors ∨
        ((Coloring.colorNode st i marked).numColors = st.numColors + 1 ∧
          ∀ k, k < st.numColors → k ∈ marked)) := by
  unfold Coloring.colorNode
  cases hc : Coloring.chooseColor st.numColors marked st.colNum with
  | some c =>
    obtain ⟨h1, h2⟩ := chooseColor_some hc
    exact ⟨c, rfl, h2, h1, Nat.le_refl _, Or.inl rfl⟩
  | none =>
    have h := chooseColor_none hc
    refine ⟨st.numColors, rfl, ?_, Nat.lt_succ_self _, Nat.le_succ _, Or.inr ⟨rfl, h⟩⟩
    intro hmem
    exact Nat.lt_irrefl _ (hm _ hmem)

/-! ### array / degree helpers -/

theorem getD_set_ne {a : Array Nat} {i k c d : Nat} (h : k ≠ i) :
    (a.setIfInBounds i c).getD k d = a.getD k d := by
  have h' : ¬ i = k := fun e => h e.symm
  simp [h']

theorem getD_set_eq {a : Array Nat} {i c d : Nat} (h : i < a.size) :
    (a.setIfInBounds i c).getD i d = c := by
  simp [h]

theorem foldl_max_ge (adj : List (List Nat)) (d0 : Nat) :
    d0 ≤ adj.foldl (fun d l => max d l.length) d0 ∧
    ∀ l, l ∈ adj → l.length ≤ adj.foldl (fun d l => max d l.length) d0 := by
  induction adj generalizing d0 with
  | nil => simp
  | cons x xs ih =>
    simp only [List.foldl_cons]
    obtain ⟨h1, h2⟩ := ih (max d0 x.length)
    refine ⟨by omega, ?_⟩
    intro l hl
    rcases List.mem_cons.1 hl with rfl | hl
    · omega
    · exact h2 l hl

theorem row_length_le_maxDegree (g : Graph) (i : Nat) : (g.row i).length ≤ g.maxDegree := by
  unfold Graph.row Graph.maxDegree
  by_cases hi : i < g.adj.length
  · have : g.adj.getD i [] = g.adj[i] := by simp [List.getD_eq_getElem?_getD, hi]
    rw [this]
    exact (foldl_max_ge g.adj 0).2 _ (List.getElem_mem hi)
  · have : g.adj.getD i [] = [] := by
      simp only [List.getD_eq_getElem?_getD]
      rw [List.getElem?_eq_none (by omega)]
      rfl
    rw [this]
    simp

theorem wf_row_lt {g : Graph} (hwf : g.wf = true) {i j : Nat} (hj : j ∈ g.row i) : j < g.nImg := by
  unfold Graph.wf at hwf
  unfold Graph.row at hj
  rw [List.all_eq_true] at hwf
  by_cases hi : i < g.adj.length
  · have e : g.adj.getD i [] = g.adj[i] := by simp [List.getD_eq_getElem?_getD, hi]
    rw [e] at hj
    have := hwf _ (List.getElem_mem hi)
    rw [List.all_eq_true] at this
    simpa using this j hj
  · have e : g.adj.getD i [] = [] := by
      simp only [List.getD_eq_getElem?_getD]
      rw [List.getElem?_eq_none (by omega)]
      rfl
    rw [e] at hj
    simp at hj

/-! ### greedy (index order) -/

def gMarked (g : Graph) (st : Coloring.St) (i : Nat) : List Nat :=
  (g.row i).filterMap fun k => if k < i then some (st.coloring.getD k 0) else none

def gStep (g : Graph) (st : Coloring.St) (i : Nat) : Coloring.St :=
  Coloring.colorNode st i (gMarked g st i)

def gInit (g : Graph) : Coloring.St :=
  { coloring := Array.replicate g.nDom 0, numColors := 0, colNum := Array.replicate (g.maxDegree + 1) 0 }

def gUpTo (g : Graph) (m : Nat) : Coloring.St := (List.range m).foldl (gStep g) (gInit g)

theorem greedy_eq (g : Graph) : Coloring.greedy g = gUpTo g g.nDom := rfl

theorem gUpTo_succ (g : Graph) (m : Nat) : gUpTo g (m + 1) = gStep g (gUpTo g m) m := by
  unfold gUpTo
  rw [List.range_succ, List.foldl_append]
  rfl

structure GInv (g : Graph) (m : Nat) (st : Coloring.St) : Prop where
  size : st.coloring.size = g.nDom
  ncol : st.numColors ≤ g.maxDegree + 1
  lt : ∀ k, k < m → st.coloring.getD k 0 < st.numColors
  proper : ∀ a b, b < a → a < m → b ∈ g.row a → st.coloring.getD a 0 ≠ st.coloring.getD b 0

theorem mem_gMarked {g : Graph} {st : Coloring.St} {i x : Nat} :
    x ∈ gMarked g st i ↔ ∃ k, k ∈ g.row i ∧ k < i ∧ st.coloring.getD k 0 = x := by
  unfold gMarked
  simp only [List.mem_filterMap]
  constructor
  · rintro ⟨k, hk, hf⟩
    split at hf
    · rename_i hlt
      exact ⟨k, hk, hlt, by simpa using hf⟩
    · simp at hf
  · rintro ⟨k, hk, hlt, hx⟩
    exact ⟨k, hk, by simp [hlt, hx]⟩

theorem gMarked_length_le (g : Graph) (st : Coloring.St) (i : Nat) :
    (gMarked g st i).length ≤ g.maxDegree :=
  Nat.le_trans (List.length_filterMap_le _ _) (row_length_le_maxDegree g i)

theorem GInv_step {g : Graph} {m : Nat} {st : Coloring.St} (h : GInv g m st) (hm : m < g.nDom) :
    GInv g (m + 1) (gStep g st m) := by
  have hmk : ∀ x, x ∈ gMarked g st m → x < st.numColors := by
    intro x hx
    obtain ⟨k, _, hlt, rfl⟩ := mem_gMarked.1 hx
    exact h.lt k hlt
  obtain ⟨c, hcol, hcm, hclt, hmono, hnc⟩ := colorNode_spec st m (gMarked g st m) hmk
  have hsz : m < st.coloring.size := by rw [h.size]; exact hm
  have hold : ∀ k, k < m → (gStep g st m).coloring.getD k 0 = st.coloring.getD k 0 := by
    intro k hk
    unfold gStep
    rw [hcol]
    exact getD_set_ne (by omega)
  have hnew : (gStep g st m).coloring.getD m 0 = c := by
    unfold gStep
    rw [hcol]
    exact getD_set_eq hsz
  refine ⟨?_, ?_, ?_, ?_⟩
  · unfold gStep
    rw [hcol]
    simpa using h.size
  · rcases hnc with he | ⟨he, hall⟩
    · unfold gStep; rw [he]; exact h.ncol
    · unfold gStep; rw [he]
      have h1 : (List.range st.numColors).length ≤ (gMarked g st m).length :=
        nodup_subset_length_le List.nodup_range (fun a ha => hall a (by simpa using ha))
      have h2 := gMarked_length_le g st m
      simp only [List.length_range] at h1
      omega
  · intro k hk
    by_cases hkm : k < m
    · rw [hold k hkm]
      exact Nat.lt_of_lt_of_le (h.lt k hkm) hmono
    · have : k = m := by omega
      subst this
      rw [hnew]
      exact hclt
  · intro a b hba ham hb
    by_cases ham' : a < m
    · rw [hold a ham', hold b (by omega)]
      exact h.proper a b hba ham' hb
    · have : a = m := by omega
      subst this
      rw [hnew, hold b hba]
      intro he
      exact hcm (mem_gMarked.2 ⟨b, hb, hba, he.symm⟩)

theorem GInv_upTo (g : Graph) (m : Nat) (hm : m ≤ g.nDom) : GInv g m (gUpTo g m) := by
  induction m with
  | zero =>
    refine ⟨?_, ?_, ?_, ?_⟩
    · simp [gUpTo, gInit]
    · simp [gUpTo, gInit]
    · intro k hk; omega
    · intro a b _ ha; omega
  | succ m ih =>
    rw [gUpTo_succ]
    exact GInv_step (ih (by omega)) (by omega)

set_option linter.unusedVariables false in
theorem coloring_bounds (g : Graph) (hsq : g.nImg = g.nDom) (hwf : g.wf = true) :
    (Coloring.greedy g).numColors ≤ g.maxDegree + 1 ∧
    ∀ i, i < g.nDom → (Coloring.greedy g).coloring.getD i 0 < (Coloring.greedy g).numColors := by
  rw [greedy_eq]
  have h := GInv_upTo g g.nDom (Nat.le_refl _)
  exact ⟨h.ncol, h.lt⟩

/-- the bound needs no hypothesis on the graph at all (`coloring_bounds` keeps its old signature for C17) -/
theorem coloring_bounds_free (g : Graph) :
    (Coloring.greedy g).numColors ≤ g.maxDegree + 1 ∧
    ∀ i, i < g.nDom → (Coloring.greedy g).coloring.getD i 0 < (Coloring.greedy g).numColors := by
  rw [greedy_eq]
  have h := GInv_upTo g g.nDom (Nat.le_refl _)
  exact ⟨h.ncol, h.lt⟩

/-- what the greedy constructor guarantees on ANY graph: a node differs from every out-neighbour with a smaller
index (the only ones the loop scans) -/
theorem coloring_proper_scanned (g : Graph) :
    ∀ i j, i < g.nDom → j ∈ g.row i → j < i →
      (Coloring.greedy g).coloring.getD i 0 ≠ (Coloring.greedy g).coloring.getD j 0 := by
  intro i j hi hj hlt
  rw [greedy_eq]
  exact (GInv_upTo g g.nDom (Nat.le_refl _)).proper i j hlt hi hj

/-- without symmetry adjacent nodes may share a colour: edge 0 → 1 only -/
theorem coloring_nonsymmetric_witness :
    ∃ g : Graph, g.nImg = g.nDom ∧ g.wf = true ∧ ∃ i j, i < g.nDom ∧ j ∈ g.row i ∧ j ≠ i ∧
      (Coloring.greedy g).coloring.getD i 0 = (Coloring.greedy g).coloring.getD j 0 :=
  ⟨⟨2, [[1], []]⟩, rfl, by decide, 0, 1, by decide, by decide, by decide, by decide⟩

theorem coloring_proper (g : Graph) (hsq : g.nImg = g.nDom) (hwf : g.wf = true)
    (hsym : ∀ i j, j ∈ g.row i → i ∈ g.row j) :
    ∀ i j, i < g.nDom → j ∈ g.row i → j ≠ i →
      (Coloring.greedy g).coloring.getD i 0 ≠ (Coloring.greedy g).coloring.getD j 0 := by
  intro i j hi hj hne
  rw [greedy_eq]
  have h := GInv_upTo g g.nDom (Nat.le_refl _)
  have hjn : j < g.nDom := hsq ▸ wf_row_lt hwf hj
  by_cases hlt : j < i
  · exact h.proper i j hlt hi hj
  · have hlt' : i < j := by omega
    exact fun e => h.proper j i hlt' hjn (hsym i j hj) e.symm

/-! ### greedyOrdered (given order) -/

def oMarked (g : Graph) (st : Coloring.St) (i : Nat) : List Nat :=
  (g.row i).filterMap fun k =>
    let c := st.coloring.getD k (g.nDom + 1)
    if c != g.nDom + 1 then some c else none

def oStep (g : Graph) (st : Coloring.St) (i : Nat) : Coloring.St :=
  Coloring.colorNode st i (oMarked g st i)

def oInit (g : Graph) : Coloring.St :=
  { coloring := Array.replicate g.nDom (g.nDom + 1), numColors := 0,
    colNum := Array.replicate (g.maxDegree + 1) 0 }

theorem greedyOrdered_eq (g : Graph) (order : List Nat) :
    Coloring.greedyOrdered g order = order.foldl (oStep g) (oInit g) := rfl

theorem mem_oMarked {g : Graph} {st : Coloring.St} {i x : Nat} :
    x ∈ oMarked g st i ↔
      ∃ k, k ∈ g.row i ∧ st.coloring.getD k (g.nDom + 1) ≠ g.nDom + 1 ∧
        st.coloring.getD k (g.nDom + 1) = x := by
  unfold oMarked
  simp only [List.mem_filterMap]
  constructor
  · rintro ⟨k, hk, hf⟩
    split at hf
    · rename_i hne
      exact ⟨k, hk, by simpa using hne, by simpa using hf⟩
    · simp at hf
  · rintro ⟨k, hk, hne, hx⟩
    refine ⟨k, hk, ?_⟩
    rw [if_pos (by simpa using hne), hx]

structure OInv (g : Graph) (done : List Nat) (st : Coloring.St) : Prop where
  size : st.coloring.size = g.nDom
  ncol : st.numColors ≤ done.length
  unset : ∀ k, k ∉ done → st.coloring.getD k (g.nDom + 1) = g.nDom + 1
  lt : ∀ k, k ∈ done → st.coloring.getD k (g.nDom + 1) < st.numColors
  proper : ∀ a b, a ∈ done → b ∈ done → b ∈ g.row a → a ≠ b →
    st.coloring.getD a (g.nDom + 1) ≠ st.coloring.getD b (g.nDom + 1)

theorem OInv_step {g : Graph} (hsym : ∀ i j, j ∈ g.row i → i ∈ g.row j)
    {done : List Nat} {st : Coloring.St} {i : Nat} (h : OInv g done st)
    (hdl : done.length ≤ g.nDom) (hi : i < g.nDom) (hid : i ∉ done) :
    OInv g (done ++ [i]) (oStep g st i) := by
  have hdone_of_set : ∀ k, st.coloring.getD k (g.nDom + 1) ≠ g.nDom + 1 → k ∈ done := by
    intro k hk
    by_cases hkd : k ∈ done
    · exact hkd
    · exact absurd (h.unset k hkd) hk
  have hset_of_done : ∀ k, k ∈ done → st.coloring.getD k (g.nDom + 1) ≠ g.nDom + 1 := by
    intro k hk
    have h1 := h.lt k hk
    have h2 := h.ncol
    omega
  have hmk : ∀ x, x ∈ oMarked g st i → x < st.numColors := by
    intro x hx
    obtain ⟨k, _, hne, rfl⟩ := mem_oMarked.1 hx
    exact h.lt k (hdone_of_set k hne)
  obtain ⟨c, hcol, hcm, hclt, hmono, hnc⟩ := colorNode_spec st i (oMarked g st i) hmk
  have hsz : i < st.coloring.size := by rw [h.size]; exact hi
  have hold : ∀ k, k ≠ i →
      (oStep g st i).coloring.getD k (g.nDom + 1) = st.coloring.getD k (g.nDom + 1) := by
    intro k hk
    unfold oStep
    rw [hcol]
    exact getD_set_ne hk
  have hnew : (oStep g st i).coloring.getD i (g.nDom + 1) = c := by
    unfold oStep
    rw [hcol]
    exact getD_set_eq hsz
  have hne_of_done : ∀ k, k ∈ done → k ≠ i := fun k hk e => hid (e ▸ hk)
  have hmarked_of_nbr : ∀ b, b ∈ done → b ∈ g.row i → st.coloring.getD b (g.nDom + 1) ≠ c := by
    intro b hbd hb he
    exact hcm (mem_oMarked.2 ⟨b, hb, hset_of_done b hbd, he⟩)
  refine ⟨?_, ?_, ?_, ?_, ?_⟩
  · unfold oStep
    rw [hcol]
    simpa using h.size
  · have := h.ncol
    simp only [List.length_append, List.length_singleton]
    unfold oStep
    rcases hnc with he | ⟨he, _⟩ <;> rw [he] <;> omega
  · intro k hk
    simp only [List.mem_append, List.mem_singleton, not_or] at hk
    rw [hold k hk.2]
    exact h.unset k hk.1
  · intro k hk
    simp only [List.mem_append, List.mem_singleton] at hk
    rcases hk with hk | rfl
    · rw [hold k (hne_of_done k hk)]
      exact Nat.lt_of_lt_of_le (h.lt k hk) hmono
    · rw [hnew]
      exact hclt
  · intro a b ha hb hab hne
    simp only [List.mem_append, List.mem_singleton] at ha hb
    rcases ha with ha | rfl
    · rcases hb with hb | rfl
      · rw [hold a (hne_of_done a ha), hold b (hne_of_done b hb)]
        exact h.proper a b ha hb hab hne
      · rw [hold a (hne_of_done a ha), hnew]
        exact hmarked_of_nbr a ha (hsym a b hab)
    · rcases hb with hb | rfl
      · rw [hnew, hold b (hne_of_done b hb)]
        exact fun e => hmarked_of_nbr b hb hab e.symm
      · exact absurd rfl hne

theorem OInv_fold {g : Graph} (hsym : ∀ i j, j ∈ g.row i → i ∈ g.row j)
    (l : List Nat) (done : List Nat) (st : Coloring.St) (h : OInv g done st)
    (hnd : (done ++ l).Nodup) (hlt : ∀ x, x ∈ done ++ l → x < g.nDom) :
    OInv g (done ++ l) (l.foldl (oStep g) st) := by
  induction l generalizing done st with
  | nil => simpa using h
  | cons i t ih =>
    simp only [List.foldl_cons]
    have hnd' : ((done ++ [i]) ++ t).Nodup := by simpa using hnd
    have hlt' : ∀ x, x ∈ (done ++ [i]) ++ t → x < g.nDom := by
      intro x hx; exact hlt x (by simpa using hx)
    have hdl : done.length ≤ g.nDom := by
      have hdn : done.Nodup := (List.nodup_append.1 hnd).1
      have := nodup_subset_length_le (m := List.range g.nDom) hdn
        (fun a ha => by simpa using hlt a (by simp [ha]))
      simpa using this
    have hid : i ∉ done := by
      intro hmem
      have := (List.nodup_append.1 hnd).2.2 i hmem i (by simp)
      exact this rfl
    have hstep := OInv_step hsym h hdl (hlt i (by simp)) hid
    have := ih (done ++ [i]) (oStep g st i) hstep hnd' hlt'
    simpa using this

theorem getD_default_irrel {a : Array Nat} {i : Nat} (d d' : Nat) (h : i < a.size) :
    a.getD i d = a.getD i d' := by
  simp [h]

theorem coloringOrdered_proper (g : Graph) (order : List Nat) (hsq : g.nImg = g.nDom) (hwf : g.wf = true)
    (hord : Perm.isBijection order = true) (hlen : order.length = g.nDom)
    (hsym : ∀ i j, j ∈ g.row i → i ∈ g.row j) :
    ∀ i j, i < g.nDom → j ∈ g.row i → j ≠ i →
      (Coloring.greedyOrdered g order).coloring.getD i 0 ≠ (Coloring.greedyOrdered g order).coloring.getD j 0 := by
  intro i j hi hj hne
  unfold Perm.isBijection at hord
  rw [Bool.and_eq_true, List.all_eq_true, List.all_eq_true] at hord
  obtain ⟨hall, hcont⟩ := hord
  have hmem : ∀ k, k < g.nDom → k ∈ order := by
    intro k hk
    have := hcont k (by rw [hlen]; simpa using hk)
    simpa using this
  have hlt : ∀ x, x ∈ order → x < g.nDom := by
    intro x hx
    have := hall x hx
    rw [hlen] at this
    simpa using this
  have hnd : order.Nodup :=
    nodup_of_subset_length_le (l := List.range g.nDom) List.nodup_range
      (fun a ha => hmem a (by simpa using ha)) (by simp [hlen])
  have h0 : OInv g [] (oInit g) := by
    refine ⟨?_, ?_, ?_, ?_, ?_⟩
    · simp [oInit]
    · simp [oInit]
    · intro k _
      simp only [oInit, Array.getD_eq_getD_getElem?, Array.getElem?_replicate]
      split <;> rfl
    · intro k hk; simp at hk
    · intro a b ha; simp at ha
  have hfin := OInv_fold hsym order [] (oInit g) h0 (by simpa using hnd) (by simpa using hlt)
  simp only [List.nil_append] at hfin
  rw [greedyOrdered_eq]
  have hjn : j < g.nDom := hsq ▸ wf_row_lt hwf hj
  have hp := hfin.proper i j (hmem i hi) (hmem j hjn) hj (fun e => hne e.symm)
  rw [getD_default_irrel 0 (g.nDom + 1) (by rw [hfin.size]; exact hi),
    getD_default_irrel 0 (g.nDom + 1) (by rw [hfin.size]; exact hjn)]
  exact hp

end C19L.color
