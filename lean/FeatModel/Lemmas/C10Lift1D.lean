import FeatModel.Lemmas.C10Lift3D
/-! C10 — global lift for 1-D meshes (segments, both shape families): `consistent M → consistent (refine M)`. -/
namespace FeatModel.Refine
open FeatModel.Gen.Refine

structure Ok1 (M : Mesh) : Prop where
  dim : M.dim = 1
  shape : M.shapeOk = true
  edgeNodup : ∀ E < M.num 1, M.entry 1 0 E 0 ≠ M.entry 1 0 E 1

theorem ok1_facts (M : Mesh) (h : Ok1 M) (E : Nat) (hE : E < M.num 1) :
    M.tuple 1 0 E = [M.entry 1 0 E 0, M.entry 1 0 E 1] ∧ M.entry 1 0 E 0 < M.num 0 ∧ M.entry 1 0 E 1 < M.num 0 := by
  have hf := shape_facts_g M h.shape 1 0 (by omega) (by rw [h.dim]; omega) (by omega) E hE
  have fc : faceCount M.kind 1 0 = 2 := by cases M.kind <;> rfl
  rw [fc] at hf
  exact ⟨list_len2 hf.1, hf.2 0 (by omega), hf.2 1 (by omega)⟩

theorem fineIdx1 (M : Mesh) (h : Ok1 M) :
    fineIdx M 1 0 = (List.range (M.num 1)).flatMap fun E => childRows M 1 1 0 E := by
  unfold fineIdx
  rw [h.dim]
  simp [List.range'_succ]

theorem childRows1 (M : Mesh) (E : Nat) :
    childRows M 1 1 0 E = [[M.entry 1 0 E 0, M.num 0 + E], [M.num 0 + E, M.entry 1 0 E 1]] := by
  obtain ⟨o00, o01, o02⟩ := off0 M.kind M.nums
  unfold childRows
  rw [edgeTable]
  simp [evalTerm, evalSrc, evalAdd, o00, o01, Mesh.num]

theorem fine_sizes1 (M : Mesh) (h : Ok1 M) : (refine M).num 0 = M.num 0 + M.num 1 := by
  obtain ⟨o00, o01, o02⟩ := off0 M.kind M.nums
  rw [refine_num M 0 (by omega)]
  unfold fineCount
  rw [h.dim, o02]; rfl

/-- rows of a refined 1-D mesh are determined by their vertex sets -/
theorem rows1d_inj (M : Mesh) (h : Ok1 M) (E E' : Nat) (hE : E < M.num 1) (hE' : E' < M.num 1) (x y : List Nat)
    (hx : x ∈ childRows M 1 1 0 E) (hy : y ∈ childRows M 1 1 0 E') (hs : sameSet x y = true) : E = E' ∧ x = y := by
  obtain ⟨_, a0, a1⟩ := ok1_facts M h E hE
  obtain ⟨_, b0, b1⟩ := ok1_facts M h E' hE'
  have hne := h.edgeNodup E hE
  rw [childRows1] at hx hy
  simp only [List.mem_cons, List.not_mem_nil, or_false] at hx hy
  rw [sameSet_iff] at hs
  rcases hx with rfl | rfl <;> rcases hy with rfl | rfl <;>
    simp only [List.mem_cons, List.not_mem_nil, or_false, forall_eq_or_imp, forall_eq] at hs <;>
    obtain ⟨⟨h1, h2⟩, h3, h4⟩ := hs
  · have : E = E' := by omega
    subst this
    exact ⟨rfl, rfl⟩
  · have : E = E' := by omega
    subst this
    exfalso; omega
  · have : E = E' := by omega
    subst this
    exfalso; omega
  · have : E = E' := by omega
    subst this
    exact ⟨rfl, rfl⟩

theorem distinctOk_refine1 (M : Mesh) (h : Ok1 M) : (refine M).distinctOk = true := by
  have hsh := shapeOk_refine M (by rw [h.dim]; omega) h.shape
  unfold Mesh.distinctOk
  rw [List.all_eq_true]
  intro c hc
  rw [List.mem_range'_1, refine_dim, h.dim] at hc
  have hc1 : c = 1 := by omega
  subst hc1
  have hidx := refine_idx M 1 0 (by rw [h.dim]; omega) (by omega)
  rw [hidx, fineIdx1 M h, Bool.and_eq_true]
  constructor
  · rw [List.all_eq_true]
    intro t ht
    rw [List.mem_flatMap] at ht
    obtain ⟨E, hE, ht⟩ := ht
    rw [List.mem_range] at hE
    obtain ⟨_, a0, a1⟩ := ok1_facts M h E hE
    rw [childRows1] at ht
    simp only [List.mem_cons, List.not_mem_nil, or_false] at ht
    rw [allDistinct_iff]
    rcases ht with rfl | rfl <;> simp <;> omega
  · rw [allDistinct_iff]
    apply nodup_map_of
    · apply nodup_flatMap_of
      · intro E hE
        rw [List.mem_range] at hE
        obtain ⟨_, a0, a1⟩ := ok1_facts M h E hE
        rw [childRows1]
        have hne := h.edgeNodup E hE
        simp only [List.nodup_cons, List.mem_cons, List.not_mem_nil, or_false, List.nodup_nil, and_true,
          not_false_eq_true]
        intro heq
        have := congrArg (fun l => l.getD 0 0) heq
        simp at this
        omega
      · exact List.nodup_range
      · intro E hE E' hE' b hb hb'
        rw [List.mem_range] at hE hE'
        exact (rows1d_inj M h E E' hE hE' b b hb hb' (sameSet_refl _)).1
    · intro x hx y hy hk
      rw [List.mem_flatMap] at hx hy
      obtain ⟨E, hE, hx⟩ := hx
      obtain ⟨E', hE', hy⟩ := hy
      rw [List.mem_range] at hE hE'
      have hb : ∀ z, z ∈ fineIdx M 1 0 → ∀ v ∈ z, v < (refine M).num 0 := by
        intro z hz v hv
        have := ((shapeOk_iff (refine M)).1 hsh 1 (by omega) (by rw [refine_dim, h.dim]; omega) 0 (by omega)).2 z
          (by rw [hidx]; exact hz)
        exact this.2 v hv
      have mem : ∀ F, F < M.num 1 → ∀ z ∈ childRows M 1 1 0 F, z ∈ fineIdx M 1 0 := by
        intro F hF z hz
        rw [fineIdx1 M h, List.mem_flatMap]
        exact ⟨F, by rw [List.mem_range]; exact hF, hz⟩
      have hsame := setKey_eq_sameSet _ x y (hb x (mem E hE x hx)) (hb y (mem E' hE' y hy)) hk
      exact (rows1d_inj M h E E' hE hE' x y hx hy hsame).2

theorem facetCount_refine1 (M : Mesh) (h : Ok1 M) (v : Nat) :
    (refine M).facetCount v = ((List.range (M.num 1)).map fun E =>
      (if M.entry 1 0 E 0 = v then 1 else 0) + (if M.entry 1 0 E 1 = v then 1 else 0) +
        2 * (if M.num 0 + E = v then 1 else 0)).sum := by
  unfold Mesh.facetCount
  rw [refine_dim, h.dim, refine_idx M 1 0 (by rw [h.dim]; omega) (by omega), fineIdx1 M h, sum_flatMap_count]
  congr 1
  apply List.map_congr_left
  intro E _
  rw [childRows1]
  simp [List.count_cons]
  omega

theorem facetCount_coarse1 (M : Mesh) (h : Ok1 M) (v : Nat) :
    M.facetCount v = ((List.range (M.num 1)).map fun E =>
      (if M.entry 1 0 E 0 = v then 1 else 0) + (if M.entry 1 0 E 1 = v then 1 else 0)).sum := by
  unfold Mesh.facetCount
  rw [h.dim]
  have hlen := ((shapeOk_iff M).1 h.shape 1 (by omega) (by rw [h.dim]; omega) 0 (by omega)).1
  have := idx_eq_map_tuple M 1 0
  rw [hlen] at this
  rw [show (1 : Nat) - 1 = 0 from rfl, this, List.map_map]
  congr 1
  apply List.map_congr_left
  intro E hE
  rw [List.mem_range] at hE
  simp only [Function.comp]
  rw [(ok1_facts M h E hE).1]
  simp [List.count_cons]
  omega

theorem facetsOk_refine1 (M : Mesh) (h : Ok1 M) (hf : M.facetsOk = true) : (refine M).facetsOk = true := by
  rw [facetsOk_iff] at hf ⊢
  rw [refine_dim, h.dim, show (1 : Nat) - 1 = 0 from rfl] at *
  intro v hv
  rw [fine_sizes1 M h] at hv
  rw [facetCount_refine1 M h v]
  by_cases hlo : v < M.num 0
  · have : ((List.range (M.num 1)).map fun E =>
        (if M.entry 1 0 E 0 = v then 1 else 0) + (if M.entry 1 0 E 1 = v then 1 else 0) +
          2 * (if M.num 0 + E = v then 1 else 0))
        = (List.range (M.num 1)).map fun E =>
          (if M.entry 1 0 E 0 = v then 1 else 0) + (if M.entry 1 0 E 1 = v then 1 else 0) := by
      apply List.map_congr_left
      intro E _
      rw [if_neg (by omega : ¬ M.num 0 + E = v)]
      simp
    rw [this, ← facetCount_coarse1 M h v]
    exact hf v hlo
  · obtain ⟨E0, hE0⟩ : ∃ E0, v = M.num 0 + E0 := ⟨v - M.num 0, by omega⟩
    have : ((List.range (M.num 1)).map fun E =>
        (if M.entry 1 0 E 0 = v then 1 else 0) + (if M.entry 1 0 E 1 = v then 1 else 0) +
          2 * (if M.num 0 + E = v then 1 else 0))
        = (List.range (M.num 1)).map fun E => if E = E0 then 2 else 0 := by
      apply List.map_congr_left
      intro E hE
      rw [List.mem_range] at hE
      obtain ⟨_, a0, a1⟩ := ok1_facts M h E hE
      rw [if_neg (by omega), if_neg (by omega)]
      by_cases he : E = E0
      · rw [if_pos (by omega), if_pos he]
      · rw [if_neg (by omega), if_neg he]
    rw [this, sum_indicator_range _ E0 2 (by omega)]
    right; rfl

/-- **GLOBAL LIFT, 1-D**: refinement preserves conformity of segment meshes of any size -/
theorem consistent_refine1 (M : Mesh) (hd : M.dim = 1) (h : M.consistent = true) : (refine M).consistent = true := by
  unfold Mesh.consistent at h
  simp only [Bool.and_eq_true, beq_iff_eq] at h
  obtain ⟨⟨⟨⟨⟨h1, h2⟩, _⟩, h4⟩, h5⟩, _⟩ := h
  have hn := nodupOk_of_distinctOk M h4
  have hok : Ok1 M := by
    refine ⟨hd, h2, ?_⟩
    intro E hE
    have hf := shape_facts_g M h2 1 0 (by omega) (by rw [hd]; omega) (by omega) E hE
    have fc : faceCount M.kind 1 0 = 2 := by cases M.kind <;> rfl
    rw [fc] at hf
    have hp := list_len2 hf.1
    have hlen := ((shapeOk_iff M).1 h2 1 (by omega) (by rw [hd]; omega) 0 (by omega)).1
    have := hn 1 (by omega) (by rw [hd]; omega) _ (tuple_mem_idx M 1 0 E (by omega))
    rw [hp, List.nodup_cons] at this
    intro heq
    apply this.1
    have heq' : (M.tuple 1 0 E).getD 0 0 = (M.tuple 1 0 E).getD 1 0 := heq
    rw [heq']; simp
  unfold Mesh.consistent
  simp only [Bool.and_eq_true, beq_iff_eq]
  refine ⟨⟨⟨⟨⟨?_, shapeOk_refine M (by rw [hd]; omega) h2⟩, ?_⟩, distinctOk_refine1 M hok⟩,
    facetsOk_refine1 M hok h5⟩, ?_⟩
  · show (fineNums M.kind M.nums M.dim).length = (refine M).dim + 1
    unfold fineNums; rw [refine_dim, hd]; simp
  · unfold Mesh.facesOk; rw [refine_dim, hd]; simp
  · unfold Mesh.coveredOk; rw [refine_dim, hd]; simp

end FeatModel.Refine
