import FeatModel.Lemmas.C02Repr
/-
C02: narrow - widen - narrow (`dtw`: Q -> float -> double -> float -> Q) is the single narrowing (`dt`).
-/
open FeatModel FeatModel.LA
namespace C02L

theorem mapVal_congr {α : Type} (f g : α → α) (h : ∀ x, f x = g x) (m : Mat α) : m.mapVal f = m.mapVal g := by
  have : f = g := funext h
  rw [this]

theorem dtw_eq_dtx (m : Mat Rat) : m.stepX roundDt .dtw = m.stepX roundDt .dtx := by
  cases m <;> simp only [Mat.stepX] <;>
    first
      | rfl
      | (congr 1; exact mapVal_congr _ _ (fun x => roundDt_idem x) _)

end C02L
