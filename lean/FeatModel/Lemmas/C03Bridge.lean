import FeatModel.Lemmas.C01Csr
import FeatModel.Lemmas.C03Merge
/-! Bridge from the row view of C03 (`csrRow`, `rowVal`) to the shared dense meaning `Csr.entry` of C01. -/
open Finset
namespace FeatModel.LA.MatAlg
open FeatModel.LA
variable {α : Type} [CommRing α]

theorem rowVal_map_range' (c : Nat → Nat) (v : Nat → α) (j : Nat) : ∀ (n s : Nat),
    rowVal ((List.range' s n).map fun p => (c p, v p)) j = ∑ k ∈ range n, (if c (s + k) = j then v (s + k) else 0)
  | 0, s => by simp [rowVal]
  | n + 1, s => by
    rw [List.range'_succ, List.map_cons, rowVal_cons, rowVal_map_range' c v j n (s + 1), Finset.sum_range_succ']
    have : ∀ k, s + 1 + k = s + (k + 1) := fun k => by omega
    simp only [this, Nat.add_zero]
    split <;> simp [add_comm]

/-- the dense meaning of the row view is the shared `Csr.entry` -/
theorem rowVal_csrRow_eq_entry {A : Csr α} (h : A.WF) {i : Nat} (hi : i < A.rows) (j : Nat) :
    rowVal (csrRow A i) j = A.entry i j := by
  rw [Csr.entry_eq_sum_Ico, Finset.sum_Ico_eq_sum_range]
  unfold csrRow
  rw [rowVal_map_range']
  apply Finset.sum_congr rfl
  intro k hk
  have hle := Csr.rowEnd_le h hi
  have hks : A.rowBegin i + k < A.colInd.size := by
    rw [Finset.mem_range] at hk; omega
  rw [Csr.getD_eq_of_lt _ hks 0 A.cols]

/-- column indices stored in a row of a well-formed matrix are in range -/
theorem mem_csrRow_col_lt {A : Csr α} (h : A.WF) {i : Nat} (hi : i < A.rows) {kd : Nat × α} (hk : kd ∈ csrRow A i) :
    kd.1 < A.cols := by
  unfold csrRow at hk
  obtain ⟨p, hp, rfl⟩ := List.mem_map.mp hk
  rw [List.mem_range'_1] at hp
  have hle := Csr.rowEnd_le h hi
  exact h.colLt p (by omega)

end FeatModel.LA.MatAlg

/-! ### sums over the stored entries of a row are sums over ALL columns of the dense meaning -/
namespace FeatModel.LA.MatAlg
open FeatModel.LA
variable {α : Type} [CommRing α]

theorem sum_map_range' (g : Nat → α) : ∀ (n s : Nat),
    ((List.range' s n).map g).sum = ∑ k ∈ range n, g (s + k)
  | 0, s => by simp
  | n + 1, s => by
    rw [List.range'_succ, List.map_cons, List.sum_cons, sum_map_range' g n (s + 1), Finset.sum_range_succ']
    have : ∀ k, s + 1 + k = s + (k + 1) := fun k => by omega
    simp only [this, Nat.add_zero]
    ring

theorem sum_flatMap_map {ι κ : Type} (l : List ι) (f : ι → List κ) (g : κ → α) :
    ((l.flatMap f).map g).sum = (l.map fun x => ((f x).map g).sum).sum := by
  induction l with
  | nil => simp
  | cons x t ih => simp only [List.flatMap_cons, List.map_append, List.sum_append, List.map_cons, List.sum_cons, ih]

/-- `Σ_{stored (k, d) in row i} c·d·g(k) = c · Σ_{k < cols} ⟦A⟧_ik · g(k)` -/
theorem csrRow_weighted_sum {A : Csr α} (h : A.WF) {i : Nat} (hi : i < A.rows) (c : α) (g : Nat → α) :
    ((csrRow A i).map fun kd => c * kd.2 * g kd.1).sum = c * ∑ k ∈ range A.cols, A.entry i k * g k := by
  have h1 : ((csrRow A i).map fun kd => c * kd.2 * g kd.1) = (csrRow A i).map fun kd => c * (kd.2 * g kd.1) :=
    List.map_congr_left (fun kd _ => mul_assoc _ _ _)
  rw [h1, List.sum_map_mul_left, ← Csr.sum_row_eq h g hi]
  congr 1
  unfold csrRow
  rw [List.map_map, sum_map_range', Finset.sum_Ico_eq_sum_range]
  rfl

theorem csrAddMatMat_ok_dims {allow : Bool} {alpha : α} {X D B : Csr α} {R : List (Row α)}
    (h : csrAddMatMat allow alpha X D B = .ok R) : X.rows = D.rows ∧ D.cols = B.rows ∧ B.cols = X.cols := by
  unfold csrAddMatMat at h
  split at h
  · simp at h
  · next hc => simp only [Bool.or_eq_true, bne_iff_ne, not_or, ne_eq, not_not] at hc; exact ⟨hc.1.1, hc.1.2, hc.2⟩

theorem csrAddDoubleMatMat_ok_dims {allow : Bool} {alpha : α} {X D A B : Csr α} {R : List (Row α)}
    (h : csrAddDoubleMatMat allow alpha X D A B = .ok R) :
    X.rows = D.rows ∧ D.cols = A.rows ∧ A.cols = B.rows ∧ B.cols = X.cols := by
  unfold csrAddDoubleMatMat at h
  split at h
  · simp at h
  · next hc =>
    simp only [Bool.or_eq_true, bne_iff_ne, not_or, ne_eq, not_not] at hc
    exact ⟨hc.1.1.1, hc.1.1.2, hc.1.2, hc.2⟩

theorem csrAddDoubleDiag_ok_dims {allow : Bool} {alpha : α} {X D : Csr α} {a : Array α} {B : Csr α} {R : List (Row α)}
    (h : csrAddDoubleDiag allow alpha X D a B = .ok R) :
    X.rows = D.rows ∧ D.cols = a.size ∧ a.size = B.rows ∧ B.cols = X.cols := by
  unfold csrAddDoubleDiag at h
  split at h
  · simp at h
  · next hc =>
    simp only [Bool.or_eq_true, bne_iff_ne, not_or, ne_eq, not_not] at hc
    exact ⟨hc.1.1.1, hc.1.1.2, hc.1.2, hc.2⟩

end FeatModel.LA.MatAlg
