import FeatModel.Lemmas.C01Csr
import FeatModel.Lemmas.C03Merge
/-! Bridge from the row view of C03 (`csrRow`, `rowVal`) to the shared dense meaning `Csr.entry` of C01. -/
open Finset
namespace FeatModel.LA.MatAlg
open FeatModel.LA
variable {α : Type} [CommRing α]

theorem rowVal_map_range' (c : Nat → Nat) (v : Nat → α) (j : Nat) : ∀ (n s : Nat),
    rowVal ((List.range' s n).map fun p => (c p, v p)) j = ∑ k ∈ range n, (if c (s + k) = j then v (s + k) else 0)
  | 0, s => by simp [rowVal]
  | n + 1, s => by
    rw [List.range'_succ, List.map_cons, rowVal_cons, rowVal_map_range' c v j n (s + 1), Finset.sum_range_succ']
    have : ∀ k, s + 1 + k = s + (k + 1) := fun k => by omega
    simp only [this, Nat.add_zero]
    split <;> simp [add_comm]

/-- the dense meaning of the row view is the shared `Csr.entry` -/
theorem rowVal_csrRow_eq_entry {A : Csr α} (h : A.WF) {i : Nat} (hi : i < A.rows) (j : Nat) :
    rowVal (csrRow A i) j = A.entry i j := by
  rw [Csr.entry_eq_sum_Ico, Finset.sum_Ico_eq_sum_range]
  unfold csrRow
  rw [rowVal_map_range']
  apply Finset.sum_congr rfl
  intro k hk
  have hle := Csr.rowEnd_le h hi
  have hks : A.rowBegin i + k < A.colInd.size := by
    rw [Finset.mem_range] at hk; omega
  rw [Csr.getD_eq_of_lt _ hks 0 A.cols]

/-- column indices stored in a row of a well-formed matrix are in range -/
theorem mem_csrRow_col_lt {A : Csr α} (h : A.WF) {i : Nat} (hi : i < A.rows) {kd : Nat × α} (hk : kd ∈ csrRow A i) :
    kd.1 < A.cols := by
  unfold csrRow at hk
  obtain ⟨p, hp, rfl⟩ := List.mem_map.mp hk
  rw [List.mem_range'_1] at hp
  have hle := Csr.rowEnd_le h hi
  exact h.colLt p (by omega)

end FeatModel.LA.MatAlg
