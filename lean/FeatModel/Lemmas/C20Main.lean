import FeatModel.Lemmas.C20Step4
/-! C20 helper lemmas, part 9: the step theorem, histories, and consequences of the invariant -/
namespace FeatModel.Pool

theorem inv_step {s s' : State} {op : Op} (hi : Inv s) (h : step s op = .ok s') : Inv s' := by
  cases op with
  | new a kind dt it n v => exact inv_new hi h
  | mat a kind dt it r c p v variant => exact inv_mat hi h
  | band a dt it r noff v => exact inv_band hi h
  | adopt a b => exact inv_adopt hi h
  | range a b n off => exact inv_range hi h
  | clone a b mode fill => exact inv_clone hi h
  | conv a b dt it => exact inv_conv hi h
  | xconv a b => exact inv_xconv hi h
  | move a b => exact inv_move hi h
  | clear a => exact inv_clear hi h
  | destroy a => exact inv_destroy hi h
  | format a v => exact inv_format hi h
  | write a w j i v => exact inv_write hi h
  | lay l a => exact inv_lay hi h
  | mlay a l kind dt fill => exact inv_mlay hi h
  | ldrop l => exact inv_ldrop hi h
  | mk a kind dt it n v => exact inv_mk hi h
  | copy a b full => exact inv_copy hi h
  | lmove d src => exact inv_lmove hi h
  | lvec k => exact inv_lvec hi h

theorem inv_run {ops : List Op} {s s' : State} (hi : Inv s) (h : run s ops = .ok s') : Inv s' := by
  induction ops generalizing s with
  | nil => unfold run at h; injection h with h; subst h; exact hi
  | cons op ops ih =>
    unfold run at h
    split at h
    · cases h
    · rename_i s1 hs
      exact ih (inv_step hi hs) h

theorem slotsIds_none (l : List (Option Cont)) (h : ∀ x ∈ l, x = none) : slotsIds l = [] := by
  induction l with
  | nil => rfl
  | cons x r ih =>
    have hx := h x (by simp)
    subst hx
    simp only [slotsIds, optIds, List.nil_append]
    exact ih (fun y hy => h y (by simp [hy]))

theorem laysIds_none (l : List (Option Layout)) (h : ∀ x ∈ l, x = none) : laysIds l = [] := by
  induction l with
  | nil => rfl
  | cons x r ih =>
    have hx := h x (by simp)
    subst hx
    simp only [laysIds, layIds, List.nil_append]
    exact ih (fun y hy => h y (by simp [hy]))

theorem liveChunks_zero (p : Pool) (h : ∀ j, get p j = none) : liveChunks p = 0 := by
  unfold liveChunks
  rw [List.length_eq_zero_iff, List.filter_eq_nil_iff]
  intro x hx
  obtain ⟨i, hi, hxi⟩ := List.mem_iff_getElem.mp hx
  have := h i
  unfold get at this
  rw [List.getElem?_eq_getElem hi, hxi] at this
  cases x with
  | none => simp
  | some c => simp at this

/-- no owner left ⇒ nothing left in the pool -/
theorem pool_empty_of_no_owner {s : State} (hi : Inv s) (h1 : ∀ x ∈ s.slots, x = none) (h2 : ∀ x ∈ s.lays, x = none) :
    liveChunks s.pool = 0 := by
  apply liveChunks_zero
  intro j
  have hc := hi.2 j
  unfold State.ownIds at hc
  rw [slotsIds_none _ h1, laysIds_none _ h2] at hc
  simp only [List.append_nil, List.count_nil] at hc
  cases hg : get s.pool j with
  | none => rfl
  | some c =>
    have := hi.1 j c hg
    unfold count at hc; rw [hg] at hc; simp only at hc; omega

/-- an owned chunk is in the pool -/
theorem owned_present {s : State} (hi : Inv s) {j : Nat} (h : j ∈ s.ownIds) : ∃ c, get s.pool j = some c := by
  have hc := hi.2 j
  have : 0 < (s.ownIds).count j := List.count_pos_iff.mpr h
  cases hg : get s.pool j with
  | none => unfold count at hc; rw [hg] at hc; simp only at hc; omega
  | some c => exact ⟨c, rfl⟩

theorem release_error_iff (p : Pool) (id : Nat) : (∃ e, release p (.at id 0) = .error e) ↔ get p id = none := by
  unfold release
  simp only [ne_eq, not_true_eq_false, if_false]
  cases hg : get p id with
  | none => simp
  | some c =>
    simp only
    split <;> simp

theorem release_last {p p' : Pool} {id : Nat} (h : release p (.at id 0) = .ok p') (h1 : count p id = 1) :
    get p' id = none := by
  unfold release at h
  simp only [ne_eq, not_true_eq_false, if_false] at h
  cases hg : get p id with
  | none => rw [hg] at h; cases h
  | some c =>
    rw [hg] at h
    unfold count at h1; rw [hg] at h1; simp only at h1
    simp only [h1, if_true] at h
    injection h with h; subst h
    exact get_set_self p id none (get_lt hg)

theorem release_shared {p p' : Pool} {id : Nat} (h : release p (.at id 0) = .ok p') (h2 : 2 ≤ count p id) :
    ∃ c c', get p id = some c ∧ get p' id = some c' ∧ c'.count = c.count - 1 ∧ c'.bytes = c.bytes ∧ c'.vals = c.vals := by
  unfold release at h
  simp only [ne_eq, not_true_eq_false, if_false] at h
  cases hg : get p id with
  | none => rw [hg] at h; cases h
  | some c =>
    rw [hg] at h
    unfold count at h2; rw [hg] at h2; simp only at h2
    have : ¬ c.count = 1 := by omega
    simp only [this, if_false] at h
    injection h with h; subst h
    exact ⟨c, _, rfl, get_set_self p id _ (get_lt hg), rfl, rfl, rfl⟩

theorem release_other {p p' : Pool} {q : Ptr} {id : Nat} (h : release p q = .ok p') (hne : ∀ off, q ≠ .at id off) :
    get p' id = get p id := by
  unfold release at h
  cases q with
  | null => injection h with h; subst h; rfl
  | «at» i off =>
    have hi : i ≠ id := by intro e; subst e; exact hne off rfl
    simp only at h
    split at h
    · cases h
    · split at h
      · cases h
      · split at h
        · injection h with h; subst h; exact get_set_ne p i id _ hi
        · injection h with h; subst h; exact get_set_ne p i id _ hi

/-- a write through a pointer into chunk `id` is invisible through every pointer into another chunk -/
theorem write_other_chunk (p : Pool) (id off id' off' n : Nat) (vs : List Int) (h : id ≠ id') :
    readArr (writeArr p (.at id off) vs) (.at id' off') n = readArr p (.at id' off') n := by
  unfold readArr writeArr
  simp only
  cases hg : get p id with
  | none => rfl
  | some c => simp only; rw [get_set_ne p id id' _ h]

end FeatModel.Pool

namespace FeatModel.Pool

theorem mem_idsOf {l : List Ptr} {id off : Nat} (h : Ptr.at id off ∈ l) : id ∈ idsOf l := by
  induction l with
  | nil => cases h
  | cons q r ih =>
    cases List.mem_cons.mp h with
    | inl e => subst e; simp [idsOf]
    | inr hr => cases q <;> simp [idsOf, ih hr]

theorem mem_slotsIds {l : List (Option Cont)} {a : Nat} {c : Cont} {j : Nat} (h : (l[a]?).join = some c)
    (hj : j ∈ c.ownIds) : j ∈ slotsIds l := by
  induction l generalizing a with
  | nil => simp at h
  | cons x r ih =>
    cases a with
    | zero =>
      simp only [List.getElem?_cons_zero, Option.join] at h
      subst h
      simp [slotsIds, optIds, hj]
    | succ a =>
      simp only [List.getElem?_cons_succ] at h
      simp only [slotsIds, List.mem_append]
      exact Or.inr (ih h)

/-- an array referenced by an owning (non-view) container of the state is an owner reference of the state -/
theorem mem_ownIds {s : State} {a : Nat} {c : Cont} {id off : Nat} (hs : s.slot a = some c)
    (hf : c.foreign = false) (hq : Ptr.at id off ∈ c.elems ++ c.inds) : id ∈ s.ownIds := by
  unfold State.ownIds
  apply List.mem_append.mpr
  left
  apply mem_slotsIds hs
  unfold Cont.ownIds Cont.owned
  simp only [hf, Bool.false_eq_true, if_false]
  exact mem_idsOf hq

end FeatModel.Pool
