import FeatModel.Model.LA.Rebuild
import FeatModel.Lemmas.C02ChainSpec
import FeatModel.Lemmas.C02Alias
import FeatModel.Lemmas.C02Rebuild
import FeatModel.Lemmas.C02BcsrPerm
/-!
C02: the one structural invariant.  Every producer of the op alphabet the driver executes (`Mat.step`,
`Mat.stepAlias`, `Mat.stepX`) yields structurally valid layouts (`Mat.valid`) — for the target and for the source
container it reports back.  Core Lean only.
-/
namespace C02L
open FeatModel FeatModel.LA

namespace ValidAux
variable {α : Type}

/-- the fresh-target operation of an aliased call is never a permutation, so it has no side condition -/
theorem base_okFor (f : Fmt) (a : AOp) (o : Op) (h : a.base f = some o) (r c : Nat) : o.okFor r c = true := by
  cases a with
  | trs => simp only [AOp.base, Option.some.injEq] at h; subst h; rfl
  | trt k => simp only [AOp.base, Option.some.injEq] at h; subst h; rfl
  | convs => simp only [AOp.base, Option.some.injEq] at h; subst h; rfl
  | copys => simp only [AOp.base, Option.some.injEq] at h; subst h; rfl
  | copyt k => simp only [AOp.base, Option.some.injEq] at h; subst h; rfl
  | clones m => simp [AOp.base] at h
  | clonet k m => simp only [AOp.base, Option.some.injEq] at h; subst h; rfl
  | convt k g =>
    simp only [AOp.base] at h
    split at h
    · simp only [Option.some.injEq] at h; subst h; rfl
    · cases g <;> simp at h <;> subst h <;> rfl

/-- `mapVal` leaves the index arrays alone -/
theorem idxFit_mapVal (g : α → α) (m : Mat α) (h : idxFit m) : idxFit (m.mapVal g) := by
  cases m <;> exact h

end ValidAux
open ValidAux RebuildAux

/-- the chain operations -/
theorem valid_preserved_op {α} [Zero α] [Add α] (h0 : (0 : α) + 0 = 0) (m m' : Mat α) (o : Op) (hv : m.valid = true)
    (hok : o.okFor m.rows m.cols = true) (h : m.step o = .ok m') : m'.valid = true :=
  (step_spec h0 o m m' ⟨m.rows, m.cols, m.entry⟩ ⟨hv, rfl, rfl, fun _ _ _ _ => rfl⟩ hok h).1

/-- aliased / pre-existing targets: target and source afterwards -/
theorem valid_preserved_alias {α} [Zero α] [Add α] (h0 : (0 : α) + 0 = 0) (fill : α) (m : Mat α) (a : AOp)
    (hv : m.valid = true) :
    (∀ t s, m.stepAlias fill a = .ok t s → t.valid = true ∧ s.valid = true) ∧
    (∀ t, m.stepAlias fill a = .self t → t.valid = true) := by
  obtain ⟨h1, h2⟩ := stepAlias_agrees fill m hv a
  refine ⟨fun t s h => ?_, fun t h => ?_⟩
  · obtain ⟨⟨o, ho, hs⟩, hsrc⟩ := h1 t s h
    have ht : t.valid = true := valid_preserved_op h0 m t o hv (base_okFor _ a o ho _ _) hs
    refine ⟨ht, ?_⟩
    rcases hsrc with rfl | ⟨_, rfl⟩
    · exact hv
    · exact ht
  · obtain ⟨o, ho, hs⟩ := h2 t h
    exact valid_preserved_op h0 m t o hv (base_okFor _ a o ho _ _) hs

/-- validity does not look at the values -/
theorem mapVal_valid {α} (g : α → α) (m : Mat α) : (m.mapVal g).valid = m.valid := by
  cases m with
  | csr A => exact csr_valid_congr A _ (by simp)
  | banded A => exact banded_wf_congr A _ (by simp)
  | cscr A => exact cscr_valid_congr A _ (by simp)
  | dense A => simp [Mat.mapVal, Mat.valid, Dense.wf]
  | bcsr A =>
    simp only [Mat.mapVal, Mat.valid]
    rw [bcsr_valid_congr A _ (by simp)]

/-- the extension operations: target and (if reported) source -/
theorem valid_preserved_x {α} [Zero α] [Add α] (h0 : (0 : α) + 0 = 0) (round : α → α) (m t : Mat α)
    (s : Option (Mat α)) (x : XOp) (hv : m.valid = true) (hf : sizeFit m)
    (hp : ∀ p q, x = .bperm p q → (p.size = 0 ∧ q.size = 0) ∨
      (∃ A, m = .bcsr A ∧ p.size = A.rows ∧ q.size = A.cols ∧ Csr.isPerm p = true ∧ Csr.isPerm q = true))
    (h : m.stepX round x = .ok t s) : t.valid = true ∧ (∀ src, s = some src → src.valid = true) := by
  cases x with
  | itx =>
    rw [(stepX_itx_valid round m hv hf).1] at h
    simp only [ResX.ok.injEq] at h
    obtain ⟨rfl, rfl⟩ := h
    exact ⟨hv, fun _ hh => by cases hh⟩
  | dtx =>
    have key : t = m.mapVal round ∧ s = none := by
      cases m <;> simp [Mat.stepX] at h <;> exact ⟨h.1.symm, h.2.symm⟩
    obtain ⟨rfl, rfl⟩ := key
    exact ⟨by rw [mapVal_valid]; exact hv, fun _ hh => by cases hh⟩
  | dtw =>
    have key : t = m.mapVal (fun x => round (round x)) ∧ s = none := by
      cases m <;> simp [Mat.stepX] at h <;> exact ⟨h.1.symm, h.2.symm⟩
    obtain ⟨rfl, rfl⟩ := key
    exact ⟨by rw [mapVal_valid]; exact hv, fun _ hh => by cases hh⟩
  | layoutz =>
    obtain ⟨hs, ht, _⟩ := stepX_layout_spec h0 round m hv .layoutz (Or.inl rfl) t s h
    refine ⟨ht, fun src hh => ?_⟩
    rcases hs with rfl | rfl
    · cases hh
    · cases hh; exact hv
  | layouta k =>
    obtain ⟨hs, ht, _⟩ := stepX_layout_spec h0 round m hv (.layouta k) (Or.inr ⟨k, rfl⟩) t s h
    refine ⟨ht, fun src hh => ?_⟩
    rcases hs with rfl | rfl
    · cases hh
    · cases hh; exact hv
  | graphz =>
    obtain ⟨rfl, A, rfl⟩ := graph_rebuild_src round m t s h
    obtain ⟨B, rfl, hB, _⟩ := graph_rebuild_spec h0 round A hv t none h
    exact ⟨hB, fun _ hh => by cases hh⟩
  | triDense =>
    obtain ⟨hs, rfl⟩ := stepX_triDense_eq round m hv t s h
    exact ⟨valid_preserved_op h0 m t .tri hv rfl hs, fun _ hh => by cases hh⟩
  | xclone d i =>
    simp only [Mat.stepX, ResX.ok.injEq] at h
    obtain ⟨rfl, rfl⟩ := h
    refine ⟨?_, fun _ hh => by cases hh⟩
    have hfit : idxFit m := idxFit_of_valid_all m hv hf
    have h1 : (if d = true then m.mapVal round else m).valid = true ∧
        idxFit (if d = true then m.mapVal round else m) := by
      split
      · exact ⟨by rw [mapVal_valid]; exact hv, idxFit_mapVal round m hfit⟩
      · exact ⟨hv, hfit⟩
    split
    · have := stepX_itx_eq round _ h1.2
      simp only [Mat.stepX, ResX.ok.injEq, and_true] at this
      rw [this]; exact h1.1
    · exact h1.1
  | bperm p q =>
    cases m with
    | bcsr A =>
      simp only [Mat.stepX] at h
      split at h
      · next B hB =>
        simp only [ResX.ok.injEq] at h
        obtain ⟨rfl, rfl⟩ := h
        refine ⟨?_, fun _ hh => by cases hh⟩
        have hv' := hv
        simp only [Mat.valid, Bool.and_eq_true, decide_eq_true_eq] at hv'
        rcases hp p q rfl with h00 | ⟨A', hA', hps, hqs, hpp, hqp⟩
        · unfold Bcsr.permute at hB
          rw [if_pos h00] at hB
          cases hB; exact hv
        · cases hA'
          cases hne : A.isArrayless with
          | true =>
            unfold Bcsr.permute at hB
            by_cases h00 : p.size = 0 ∧ q.size = 0
            · rw [if_pos h00] at hB; cases hB; exact hv
            · rw [if_neg h00, if_neg (by omega), hne] at hB
              simp only [if_true] at hB
              cases hB; exact hv
          | false =>
            obtain ⟨B', hB', e1, e2, _, _, hBv, _⟩ :=
              bcsr_permute_spec A p q hv'.1.1 hne hv'.1.2 hv'.2 hpp hqp hps hqs
            rw [hB'] at hB
            cases hB
            simp only [Mat.valid, Bool.and_eq_true, decide_eq_true_eq]
            exact ⟨⟨hBv, by rw [e1]; exact hv'.1.2⟩, by rw [e2]; exact hv'.2⟩
      · cases h
    | csr A => simp [Mat.stepX] at h
    | banded A => simp [Mat.stepX] at h
    | cscr A => simp [Mat.stepX] at h
    | dense A => simp [Mat.stepX] at h

/-! ### the one invariant, whatever family the operation belongs to -/

/-- the op alphabet of the driver -/
inductive AnyOp where
  | op (o : Op)
  | alias (a : AOp)
  | ext (x : XOp)

namespace AnyOp

/-- every container the step hands back: the target, and the source where the step reports one -/
def outputs {α : Type} [Zero α] (fill : α) (round : α → α) (m : Mat α) : AnyOp → List (Mat α)
  | .op o => match m.step o with
    | .ok t => [t]
    | _ => []
  | .alias a => match m.stepAlias fill a with
    | .ok t s => [t, s]
    | .self t => [t]
    | _ => []
  | .ext x => match m.stepX round x with
    | .ok t (some s) => [t, s]
    | .ok t none => [t]
    | _ => []

/-- the side conditions: permutations are bijections of the (block) index sets or both empty; for the extension
    operations every index fits 32 bits -/
def side {α : Type} (m : Mat α) : AnyOp → Prop
  | .op o => o.okFor m.rows m.cols = true
  | .alias _ => True
  | .ext x => sizeFit m ∧ ∀ p q, x = .bperm p q → (p.size = 0 ∧ q.size = 0) ∨
      (∃ A, m = .bcsr A ∧ p.size = A.rows ∧ q.size = A.cols ∧ Csr.isPerm p = true ∧ Csr.isPerm q = true)

end AnyOp

/-- the one invariant: every container any operation of the alphabet returns from a valid container is valid -/
theorem valid_preserved {α} [Zero α] [Add α] (h0 : (0 : α) + 0 = 0) (fill : α) (round : α → α) (m : Mat α)
    (hv : m.valid = true) (a : AnyOp) (hs : a.side m) :
    ∀ r, r ∈ a.outputs fill round m → r.valid = true := by
  intro r hr
  cases a with
  | op o =>
    simp only [AnyOp.outputs] at hr
    split at hr
    · next t ht =>
      simp only [List.mem_singleton] at hr
      subst hr
      exact valid_preserved_op h0 m _ o hv hs ht
    · simp at hr
  | «alias» a =>
    obtain ⟨h1, h2⟩ := valid_preserved_alias h0 fill m a hv
    simp only [AnyOp.outputs] at hr
    split at hr
    · next t s ht =>
      obtain ⟨a1, a2⟩ := h1 t s ht
      simp only [List.mem_cons, List.not_mem_nil, or_false] at hr
      rcases hr with rfl | rfl
      · exact a1
      · exact a2
    · next t ht =>
      simp only [List.mem_singleton] at hr
      subst hr
      exact h2 _ ht
    · simp at hr
  | ext x =>
    obtain ⟨hf, hp⟩ := hs
    simp only [AnyOp.outputs] at hr
    split at hr
    · next t s ht =>
      obtain ⟨a1, a2⟩ := valid_preserved_x h0 round m t (some s) x hv hf hp ht
      simp only [List.mem_cons, List.not_mem_nil, or_false] at hr
      rcases hr with rfl | rfl
      · exact a1
      · exact a2 _ rfl
    · next t ht =>
      simp only [List.mem_singleton] at hr
      subst hr
      exact (valid_preserved_x h0 round m _ none x hv hf hp ht).1
    · simp at hr

/-- along a chain of `Mat.step`s (the `run` of the driver) -/
theorem valid_preserved_run {α} [Zero α] [Add α] (h0 : (0 : α) + 0 = 0) (ops : List Op) (m m' : Mat α)
    (hv : m.valid = true) (hok : chainOk ops (⟨m.rows, m.cols, m.entry⟩ : Sem α) = true)
    (h : m.run ops = some m') : m'.valid = true :=
  (chain_spec h0 ops m m' hv hok h).1

end C02L
