import FeatModel.Lemmas.C14Refine
import FeatModel.Gen.CubatureMeta
/-! C14: the subdivision identity of the refinery child maps, monomial by monomial (kernel evaluation) -/
namespace FeatModel.Cub

set_option maxRecDepth 100000 in
theorem subdivS1 : subdivAll true 1 Gen.refMapsS1 1 39 = true := by decide +kernel

end FeatModel.Cub
