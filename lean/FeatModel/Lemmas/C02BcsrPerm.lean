/-
C02 (extension): correctness of the model of `SparseMatrixBCSR::permute` (`FeatModel.LA.Bcsr.permute`), for all sizes
and block shapes: block rows / block columns are permuted, the position inside the block is kept.
No algebraic laws on the scalars are used: both sides are the same fold.
Helper lemmas live in `C02L.BPermAux`.
-/
import FeatModel.Model.LA.Rebuild
import FeatModel.Lemmas.C02Permute
import FeatModel.Lemmas.C02Cscr
open FeatModel FeatModel.LA

namespace C02L
namespace BPermAux
open PermuteAux

/-! ### the row fold with a payload function -/
section gfold
variable {α : Type} [Add α]

/-- `Bcsr.entry` on a row list of (block column, block position) pairs; `g` reads the scalar out of the block -/
def gFold (g : Nat → α) (J : Nat) (l : List (Nat × Nat)) (init : α) : α :=
  l.foldl (fun s ck => if ck.1 = J then s + g ck.2 else s) init

theorem gFold_filter (g : Nat → α) (J : Nat) (l : List (Nat × Nat)) (init : α) :
    gFold g J (l.filter (fun ck => ck.1 = J)) init = gFold g J l init := by
  induction l generalizing init with
  | nil => rfl
  | cons x xs ih =>
    by_cases hx : x.1 = J
    · simp only [List.filter_cons, hx, decide_true, if_true]
      simp only [gFold, List.foldl_cons, hx, if_true] at ih ⊢
      exact ih _
    · simp only [List.filter_cons, hx, decide_false]
      simp only [gFold, List.foldl_cons, hx, if_false] at ih ⊢
      exact ih _

theorem gFold_isort (g : Nat → α) (J : Nat) (l : List (Nat × Nat)) (init : α) :
    gFold g J (Csr.isort l) init = gFold g J l init := by
  rw [← gFold_filter, isort_filter, gFold_filter]

theorem gFold_map (g : Nat → α) (f : Nat → Nat) (j j' : Nat) (l : List (Nat × Nat)) (init : α)
    (hf : ∀ cv ∈ l, f cv.1 = j' ↔ cv.1 = j) :
    gFold g j' (l.map fun cv => (f cv.1, cv.2)) init = gFold g j l init := by
  induction l generalizing init with
  | nil => rfl
  | cons x xs ih =>
    have hx := hf x (List.mem_cons_self ..)
    have ih' := fun init => ih init (fun cv hcv => hf cv (List.mem_cons_of_mem _ hcv))
    simp only [gFold, List.map_cons, List.foldl_cons] at ih' ⊢
    rw [ih']
    by_cases h : x.1 = j
    · rw [if_pos h, if_pos (hx.2 h)]
    · rw [if_neg h, if_neg (fun e => h (hx.1 e))]

/-- a guarded fold over the storage positions of one row of an index matrix is the payload fold of its row list -/
theorem foldRange_gFold (C : Csr Nat) (i J d : Nat) (g' g : Nat → α) (s : α)
    (h : C.rowEnd i ≤ C.colInd.size)
    (hg : ∀ k, C.rowBegin i ≤ k → k < C.rowEnd i → g' k = g (C.val.getD k 0)) :
    foldRange (C.rowBegin i) (C.rowEnd i) (fun s k => if C.colInd.getD k d = J then s + g' k else s) s
      = gFold g J (C.rowList i) s := by
  unfold Csr.rowList gFold foldRange
  rw [List.foldl_map]
  apply List.foldl_ext
  intro s k hk
  rw [List.mem_range'_1] at hk
  have hk' : k < C.colInd.size := by omega
  rw [hg k hk.1 (by omega)]
  simp [Array.getD, hk']

end gfold

/-! ### index arithmetic -/

theorem rem_lt (h w bh bw : Nat) (hh : h < bh) (hw : w < bw) : h * bw + w < bh * bw := by
  have := Nat.mul_le_mul_right bw (show h + 1 ≤ bh from hh)
  rw [Nat.succ_mul] at this
  omega

theorem idx_lt (k n h w bh bw : Nat) (hk : k < n) (hh : h < bh) (hw : w < bw) :
    k * bh * bw + h * bw + w < n * bh * bw := by
  have hr := rem_lt h w bh bw hh hw
  have h2 := Nat.mul_le_mul_right (bh * bw) (show k + 1 ≤ n from hk)
  rw [Nat.succ_mul, ← Nat.mul_assoc, ← Nat.mul_assoc] at h2
  omega

theorem idx_dec (k h w bh bw : Nat) (hh : h < bh) (hw : w < bw) :
    (k * bh * bw + h * bw + w) / (bh * bw) = k ∧ (k * bh * bw + h * bw + w) % (bh * bw) = h * bw + w := by
  have hr := rem_lt h w bh bw hh hw
  have e : k * bh * bw + h * bw + w = (h * bw + w) + bh * bw * k := by
    have : k * bh * bw = bh * bw * k := by ac_rfl
    omega
  have hpos : 0 < bh * bw := by omega
  rw [e, Nat.add_mul_div_left _ _ hpos, Nat.add_mul_mod_self_left, Nat.div_eq_of_lt hr, Nat.mod_eq_of_lt hr]
  omega

theorem lin_div_mod (a b r : Nat) (hr : r < b) : (a * b + r) / b = a ∧ (a * b + r) % b = r := by
  have hb : 0 < b := by omega
  rw [Nat.mul_comm, Nat.mul_add_div hb, Nat.mul_add_mod, Nat.div_eq_of_lt hr, Nat.mod_eq_of_lt hr]
  omega

theorem ofFn_getD {β : Type} (n : Nat) (f : Fin n → β) (d : β) (k : Nat) (hk : k < n) :
    (Array.ofFn f).getD k d = f ⟨k, hk⟩ := by
  simp [Array.getD, hk]

/-! ### the permuted rows keep the number of stored blocks -/

theorem perm_range {p : Array Nat} (hp : Csr.isPerm p = true) :
    ((List.range p.size).map (fun i => p.getD i 0)).Perm (List.range p.size) := by
  apply List.Subperm.perm_of_length_le
  · apply List.subperm_of_subset
    · apply List.Nodup.map_on _ List.nodup_range
      intro x hx y hy hxy
      exact isPerm_inj hp (List.mem_range.1 hx) (List.mem_range.1 hy) hxy
    · intro x hx
      obtain ⟨i, hi, rfl⟩ := List.mem_map.1 hx
      exact List.mem_range.2 (isPerm_lt hp (List.mem_range.1 hi))
  · simp

theorem rowLists_length {C : Csr Nat} (h : WF C) : ∀ m, m ≤ C.rows →
    (((List.range m).map C.rowList).flatten).length = C.rowPtr.getD m 0
  | 0, _ => by simp [h.first]
  | m + 1, hm => by
    rw [List.range_succ, List.map_append, List.flatten_append, List.length_append, rowLists_length h m (by omega)]
    have := h.mono m (by omega)
    simp [Csr.rowList, Csr.rowBegin, Csr.rowEnd] at this ⊢
    omega

theorem permRows_length {C : Csr Nat} (h : WF C) (p qinv : Array Nat) (hp : Csr.isPerm p = true)
    (hps : p.size = C.rows) :
    (((List.range C.rows).map (C.permRow p qinv)).flatten).length = C.val.size := by
  have e1 : ((List.range C.rows).map (C.permRow p qinv)).flatten.length
      = (((List.range C.rows).map (fun i => p.getD i 0)).map C.rowList).flatten.length := by
    rw [List.length_flatten, List.length_flatten, List.map_map, List.map_map, List.map_map]
    congr 1
    apply List.map_congr_left
    intro i _
    simp [Csr.permRow, (isort_perm _).length_eq]
  rw [e1, ← hps, ((perm_range hp).map C.rowList).flatten.length_eq, hps, rowLists_length h _ (Nat.le_refl _), h.last]

/-! ### `Csr.permute` / `Bcsr.entry` unfolded -/

theorem csr_permute_eq {α : Type} [Zero α] (S : Csr α) (p q : Array Nat) (h0 : ¬ (p.size = 0 ∧ q.size = 0))
    (hps : p.size = S.rows) (hqs : q.size = S.cols) (hne : S.isArrayless = false) :
    S.permute p q
      = some (Csr.ofRows S.rows S.cols ((List.range S.rows).map (S.permRow p (Csr.invPerm q)))) := by
  unfold Csr.permute
  rw [if_neg h0, if_neg (by omega), hne]
  simp only [Bool.false_eq_true, if_false]

/-- the scalar entry `(I*bh + h, J*bw + w)` of a blocked matrix as the payload fold over the row list of an index
    matrix `C` with the same layout arrays whose values name the block the scalar is read from -/
theorem bcsr_entry_gFold {α : Type} [Zero α] [Add α] (B : Bcsr α) (C : Csr Nat) (hbh : 0 < B.bh) (hbw : 0 < B.bw)
    (hrp : C.rowPtr = B.rowPtr) (hci : C.colInd = B.colInd) (i j I h J w : Nat)
    (hI : i / B.bh = I) (hh : i % B.bh = h) (hJ : j / B.bw = J) (hw : j % B.bw = w) (g : Nat → α)
    (hle : C.rowEnd I ≤ C.colInd.size)
    (hg : ∀ k, C.rowBegin I ≤ k → k < C.rowEnd I →
      B.val.getD (k * B.bh * B.bw + h * B.bw + w) 0 = g (C.val.getD k 0)) :
    B.entry i j = gFold g J (C.rowList I) 0 := by
  subst hI hh hJ hw
  unfold Bcsr.entry
  rw [if_neg (by omega), ← hrp, ← hci]
  exact foldRange_gFold C _ _ B.cols _ g 0 hle hg

end BPermAux
open PermuteAux BPermAux

theorem bcsr_permute_spec {α : Type} [Zero α] [Add α] (A : Bcsr α) (p q : Array Nat)
    (hA : A.valid = true) (hne : A.isArrayless = false) (hbh : 0 < A.bh) (hbw : 0 < A.bw)
    (hp : Csr.isPerm p = true) (hq : Csr.isPerm q = true) (hps : p.size = A.rows) (hqs : q.size = A.cols) :
    ∃ B, A.permute p q = some B ∧ B.bh = A.bh ∧ B.bw = A.bw ∧ B.rows = A.rows ∧ B.cols = A.cols ∧ B.valid = true ∧
      ∀ i j, i < A.rows * A.bh → j < A.cols * A.bw →
        B.entry i j = A.entry (p.getD (i / A.bh) 0 * A.bh + i % A.bh) (q.getD (j / A.bw) 0 * A.bw + j % A.bw) := by
  have hA' : A.wf = true ∧ A.sortedRows = true := by
    simpa [Bcsr.valid, hne] using hA
  obtain ⟨hAw, hAs⟩ := hA'
  unfold Bcsr.permute
  by_cases h0 : p.size = 0 ∧ q.size = 0
  · rw [if_pos h0]
    refine ⟨A, rfl, rfl, rfl, rfl, rfl, hA, ?_⟩
    intro i j hi
    rw [← hps, h0.1, Nat.zero_mul] at hi
    omega
  rw [if_neg h0, if_neg (by omega), hne]
  simp only [Bool.false_eq_true, if_false]
  -- the index matrix
  have hV : V A.pattern := CscrAux.bcsr_V A hAw hAs
  obtain ⟨hSw, hSs⟩ := V_to hV
  have hS := (wf_iff A.pattern).1 hSw
  have hSrows : A.pattern.rows = A.rows := rfl
  have hScols : A.pattern.cols = A.cols := rfl
  have hSsz : A.pattern.val.size = A.usedElements := by simp [Bcsr.pattern]
  have hSci : A.pattern.colInd.size = A.usedElements := rfl
  have hSne : A.pattern.isArrayless = false := by
    have h1 := hS.size
    have : A.pattern.rowPtr.isEmpty = false := by
      rw [Bool.eq_false_iff]
      intro h
      rw [Array.isEmpty_iff] at h
      rw [h] at h1
      simp at h1
    simp [Csr.isArrayless, this]
  have hSv : A.pattern.valid = true := by simp [Csr.valid, hSw, hSs]
  obtain ⟨T, hT, hTr, hTc, hTv, -⟩ := permute_spec A.pattern p q hSv hSne hp hq hps hqs
  rw [hSrows] at hTr
  rw [hScols] at hTc
  have hTdef := Option.some.inj (hT.symm.trans (csr_permute_eq A.pattern p q h0 hps hqs hSne))
  rw [hSrows, hScols] at hTdef
  rw [hT]
  -- facts about the permuted index matrix
  have hlen : ((List.range A.rows).map (A.pattern.permRow p (Csr.invPerm q))).length = A.rows := by simp
  have hTrp : T.rowPtr.size = A.rows + 1 := by
    rw [hTdef]
    simp only [Csr.ofRows, List.size_toArray, offsets_length, hlen]
  have hTne : T.isArrayless = false := by
    have : T.rowPtr.isEmpty = false := by
      rw [Bool.eq_false_iff]
      intro h
      rw [Array.isEmpty_iff] at h
      rw [h] at hTrp
      simp at hTrp
    simp [Csr.isArrayless, this]
  have hTv' : T.wf = true ∧ T.sortedRows = true := by
    simpa [Csr.valid, hTne] using hTv
  have hTw := (wf_iff T).1 hTv'.1
  have hTsz : T.val.size = A.usedElements := by
    have e : T.val.size = ((List.range A.rows).map (A.pattern.permRow p (Csr.invPerm q))).flatten.length := by
      rw [hTdef]
      simp only [Csr.ofRows, List.size_toArray, List.length_map]
    rw [e, ← hSsz]
    exact permRows_length hS p (Csr.invPerm q) hp hps
  have hTrow : ∀ I, I < A.rows → T.rowList I = A.pattern.permRow p (Csr.invPerm q) I := by
    intro I hI
    rw [hTdef, ofRows_rowList _ _ _ I (by rw [hlen]; exact hI)]
    simp
  have hpi : ∀ i, i < A.rows → p.getD i 0 < A.rows := fun i hi => by
    rw [← hps]; exact isPerm_lt hp (by omega)
  refine ⟨_, rfl, rfl, rfl, rfl, rfl, ?_, ?_⟩
  · -- validity
    have hsT := hTv'.2
    simp only [Csr.sortedRows, Csr.rowBegin, Csr.rowEnd] at hsT
    rw [hTr] at hsT
    have hw := hTv'.1
    simp only [Csr.wf, Bool.and_eq_true] at hw
    obtain ⟨⟨⟨⟨⟨h1, h2⟩, h3⟩, h4⟩, h5⟩, h6⟩ := hw
    rw [hTr] at h1 h3 h5
    rw [hTc] at h6
    have hwB : Bcsr.wf (⟨A.bh, A.bw, A.rows, A.cols, T.rowPtr, T.colInd,
        Array.ofFn (n := A.usedElements * A.bh * A.bw) fun idx =>
          A.val.getD (T.val.getD (idx.val / (A.bh * A.bw)) 0 * A.bh * A.bw + idx.val % (A.bh * A.bw)) 0⟩ : Bcsr α)
        = true := by
      simp only [Bcsr.wf, Bool.and_eq_true]
      refine ⟨⟨⟨⟨⟨h1, h2⟩, ?_⟩, ?_⟩, h5⟩, h6⟩
      · simp only [beq_iff_eq] at h3 h4 ⊢
        exact h3.trans h4.symm
      · simp only [beq_iff_eq]
        rw [Array.size_ofFn, hTw.colSize, hTsz]
    simp only [Bcsr.valid, Bool.or_eq_true, Bool.and_eq_true]
    exact Or.inr ⟨hwB, hsT⟩
  · -- entries
    intro i j hi hj
    have hI : i / A.bh < A.rows := Nat.div_lt_of_lt_mul (by rw [Nat.mul_comm]; exact hi)
    have hJ : j / A.bw < A.cols := Nat.div_lt_of_lt_mul (by rw [Nat.mul_comm]; exact hj)
    have hh : i % A.bh < A.bh := Nat.mod_lt _ hbh
    have hw : j % A.bw < A.bw := Nat.mod_lt _ hbw
    let g : Nat → α := fun v => A.val.getD (v * A.bh * A.bw + (i % A.bh) * A.bw + j % A.bw) 0
    -- the permuted side
    have eB := bcsr_entry_gFold (⟨A.bh, A.bw, A.rows, A.cols, T.rowPtr, T.colInd,
        Array.ofFn (n := A.usedElements * A.bh * A.bw) fun idx =>
          A.val.getD (T.val.getD (idx.val / (A.bh * A.bw)) 0 * A.bh * A.bw + idx.val % (A.bh * A.bw)) 0⟩ : Bcsr α)
        T hbh hbw rfl rfl i j (i / A.bh) (i % A.bh) (j / A.bw) (j % A.bw) rfl rfl rfl rfl g
        (rowEnd_le hTw (by rw [hTr]; exact hI)) (by
          intro k _ hk2
          have hk : k < A.usedElements := by
            have := rowEnd_le hTw (show i / A.bh < T.rows by rw [hTr]; exact hI)
            rw [hTw.colSize, hTsz] at this
            omega
          have hidx := idx_lt k A.usedElements (i % A.bh) (j % A.bw) A.bh A.bw hk hh hw
          obtain ⟨d1, d2⟩ := idx_dec k (i % A.bh) (j % A.bw) A.bh A.bw hh hw
          show (Array.ofFn (n := A.usedElements * A.bh * A.bw) fun idx =>
              A.val.getD (T.val.getD (idx.val / (A.bh * A.bw)) 0 * A.bh * A.bw + idx.val % (A.bh * A.bw)) 0).getD
                (k * A.bh * A.bw + (i % A.bh) * A.bw + j % A.bw) 0 = _
          rw [ofFn_getD _ _ _ _ hidx]
          show A.val.getD (T.val.getD ((k * A.bh * A.bw + (i % A.bh) * A.bw + j % A.bw) / (A.bh * A.bw)) 0
              * A.bh * A.bw + (k * A.bh * A.bw + (i % A.bh) * A.bw + j % A.bw) % (A.bh * A.bw)) 0 = _
          rw [d1, d2, ← Nat.add_assoc])
    -- the source side
    obtain ⟨a1, a2⟩ := lin_div_mod (p.getD (i / A.bh) 0) A.bh (i % A.bh) hh
    obtain ⟨b1, b2⟩ := lin_div_mod (q.getD (j / A.bw) 0) A.bw (j % A.bw) hw
    have eA := bcsr_entry_gFold A A.pattern hbh hbw rfl rfl
        (p.getD (i / A.bh) 0 * A.bh + i % A.bh) (q.getD (j / A.bw) 0 * A.bw + j % A.bw)
        (p.getD (i / A.bh) 0) (i % A.bh) (q.getD (j / A.bw) 0) (j % A.bw) a1 a2 b1 b2 g
        (rowEnd_le hS (hpi _ hI)) (by
          intro k _ hk2
          have hk : k < A.usedElements := by
            have := rowEnd_le hS (show p.getD (i / A.bh) 0 < A.pattern.rows from hpi _ hI)
            rw [hSci] at this
            omega
          have : A.pattern.val.getD k 0 = k := by
            show (Array.range A.usedElements).getD k 0 = k
            simp [Array.getD, hk]
          rw [this])
    rw [eB, eA, hTrow _ hI]
    unfold Csr.permRow
    rw [gFold_isort]
    refine gFold_map g (fun c => (Csr.invPerm q).getD c 0) (q.getD (j / A.bw) 0) (j / A.bw) _ 0 ?_
    intro cv hcv
    have h1 := rowList_col_lt hS (show p.getD (i / A.bh) 0 < A.pattern.rows from hpi _ hI) cv hcv
    rw [hScols, ← hqs] at h1
    rw [← hqs] at hJ
    exact invPerm_eq_iff hq h1 hJ

end C02L
