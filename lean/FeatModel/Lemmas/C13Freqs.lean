/- C13: Gate::compile frequencies = 1 / number of sharing patches. -/
import Mathlib.Algebra.CharZero.Defs
import Mathlib.Data.Nat.Cast.Basic
import FeatModel.Lemmas.C13Decomp
open FeatModel.Dist

namespace FeatModel.C13L

variable {α : Type} [Field α]

theorem val_map (l : List α) (f : α → α) (i : Nat) (hi : i < l.length) : val (l.map f) i = f (val l i) := by
  rw [val_eq_getElem _ _ (by simpa using hi), val_eq_getElem _ _ hi, List.getElem_map]

theorem val_replicate (n : Nat) (a : α) (i : Nat) (hi : i < n) : val (List.replicate n a) i = a := by
  rw [val_eq_getElem _ _ (by simpa using hi), List.getElem_replicate]

theorem sum_map_ite_eq_length {ι : Type} (l : List ι) (p : ι → Bool) :
    (l.map fun s => if p s then (1:α) else 0).sum = ((l.filter p).length : α) := by
  induction l with
  | nil => simp
  | cons x l ih =>
    rw [List.map_cons, List.sum_cons, ih, List.filter_cons]
    cases p x <;> simp [add_comm]

/-- the all-ones distributed vector -/
def ones (d : Decomp) : List (List α) := (List.range d.np).map fun s => List.replicate (d.patch s).n 1

theorem ones_getD (d : Decomp) (s : Nat) (hs : s < d.np) :
    (ones d : List (List α)).getD s [] = List.replicate (d.patch s).n 1 := by
  simp [ones, List.getD_eq_getElem?_getD, hs]

theorem counts_length (p : Patch) : (counts p : List α).length = p.n := by
  unfold counts
  rw [foldl_scatter_length p.nbrs (fun nb => nb.2) (fun nb => List.replicate nb.2.length 1)]
  simp

theorem sharedVals_ones_sum (d : Decomp) (h : d.WF) (s : Nat) (hs : s < d.np) (g : Nat) :
    (d.sharedVals (ones d : List (List α)) s g).sum = if (d.lmap s).contains g then 1 else 0 := by
  by_cases hg : g ∈ d.lmap s
  · obtain ⟨j, hj, hjg⟩ := List.getElem_of_mem hg
    have hgd : d.gdof s j = g := by simp [Decomp.gdof, List.getD_eq_getElem?_getD, hj, hjg]
    rw [sharedVals_of_index d _ s g (h.inj s hs) j hj hgd, ones_getD d s hs,
      val_replicate _ _ _ (by rw [h.size s hs]; exact hj)]
    simp [hg]
  · rw [sharedVals_nil]
    · simp [hg]
    · intro j hj he
      apply hg
      rw [← he]
      simp [Decomp.gdof, List.getD_eq_getElem?_getD, hj]

theorem counts_val (d : Decomp) (h : d.WF) (r : Nat) (hr : r < d.np) (i : Nat) (hi : i < (d.patch r).n) :
    val (counts (d.patch r) : List α) i = ((d.sharers (d.gdof r i)).length : α) := by
  unfold counts
  rw [foldl_scatter_val (d.patch r).nbrs (fun nb => nb.2) (fun nb => List.replicate nb.2.length 1) 1 _ i
    (by simpa using hi)]
  have e1 : ((d.patch r).nbrs.map fun nb => contrib nb.2 (List.replicate nb.2.length (1:α)) 1 i)
      = (d.patch r).nbrs.map fun nb => (d.sharedVals (ones d : List (List α)) nb.1 (d.gdof r i)).sum := by
    apply List.map_congr_left
    intro nb hnb
    rw [← nbr_contrib d h (ones d) r hr i hi nb hnb]
    obtain ⟨nb', _, _, hmap, hrange, hsb⟩ := sendBuf_of_nbr d h (ones d : List (List α)) r hr nb hnb
    have hlen : nb'.2.length = nb.2.length := by simpa using congrArg List.length hmap
    rw [hsb, Option.getD_some, ones_getD d _ (h.nbr r hr nb hnb).2]
    congr 1
    unfold gather
    rw [← hlen, ← List.map_const']
    apply List.map_congr_left
    intro j hj
    rw [val_replicate _ _ _ (hrange j hj)]
  have e0 : val (List.replicate (d.patch r).n (1:α)) i = val ((ones d : List (List α)).getD r []) i := by
    rw [ones_getD d r hr]
  rw [e1, e0, sum_nbrs_sharedVals d h (ones d) r hr i hi]
  rw [List.map_congr_left (fun s hs => sharedVals_ones_sum d h s (List.mem_range.1 hs) (d.gdof r i))]
  rw [sum_map_ite_eq_length]
  rfl

theorem self_mem_sharers (d : Decomp) (h : d.WF) (r : Nat) (hr : r < d.np) (i : Nat) (hi : i < (d.patch r).n) :
    r ∈ d.sharers (d.gdof r i) := by
  unfold Decomp.sharers
  rw [List.mem_filter]
  refine ⟨List.mem_range.2 hr, ?_⟩
  have hi' : i < (d.lmap r).length := by rw [← h.size r hr]; exact hi
  simp [Decomp.gdof, List.getD_eq_getElem?_getD, hi']

theorem freqs_val (d : Decomp) (h : d.WF) (r : Nat) (hr : r < d.np) (i : Nat) (hi : i < (d.patch r).n) :
    val (freqs (d.patch r) : List α) i = 1 / ((d.sharers (d.gdof r i)).length : α) := by
  unfold freqs
  rw [val_map _ _ _ (by rw [counts_length]; exact hi), counts_val d h r hr i hi]

end FeatModel.C13L
