/-
C18 helper lemmas, part 4: nestedness at the cubature points gives `N = M E`, hence `X = M⁻¹ N = E`; the weighted
scatter of local matrices that all map the coarse coefficients to the fine coefficients of the same function gives a
prolongation matrix with `P x_c = x_f` (independent of the cubature rule as long as the local inversions succeed).
-/
import FeatModel.Lemmas.C18_inv
import Mathlib.Algebra.BigOperators.Group.Finset.Sigma
open FeatModel.GT Finset

namespace C18L

theorem list_sum_map_add {α : Type} (l : List α) (f g : α → Rat) :
    (l.map fun p => f p + g p).sum = (l.map f).sum + (l.map g).sum := by
  induction l with
  | nil => simp
  | cons a l ih => simp [ih]; ring

theorem list_sum_map_mul_right {α : Type} (l : List α) (f : α → Rat) (c : Rat) :
    (l.map fun p => f p * c).sum = (l.map f).sum * c := by
  induction l with
  | nil => simp
  | cons a l ih => simp [ih]; ring

theorem list_sum_map_finset {α : Type} (l : List α) (n : Nat) (f : α → Nat → Rat) :
    (l.map fun p => ∑ m ∈ range n, f p m).sum = ∑ m ∈ range n, (l.map fun p => f p m).sum := by
  induction l with
  | nil => simp
  | cons a l ih => simp [ih, Finset.sum_add_distrib]

/-- nestedness at the cubature points: `φ^c_j(x_k) = Σ_m E_mj φ^f_m(x_k)` gives `N = M E` -/
theorem nested_mass {nfl ncl : Nat} (pts : List Pt) (E : Nat → Nat → Rat)
    (hnest : ∀ p ∈ pts, ∀ j, j < ncl → p.c.getD j 0 = ∑ m ∈ range nfl, E m j * p.f.getD m 0) :
    ∀ i j, i < nfl → j < ncl →
      FeatModel.GT.get (massFC nfl ncl pts) i j
        = ∑ m ∈ range nfl, FeatModel.GT.get (massF nfl pts) i m * E m j := by
  intro i j hi hj
  unfold massFC massF
  rw [get_tab _ hi hj, lsum_eq]
  have e1 : ∀ m ∈ range nfl, FeatModel.GT.get (tab nfl nfl fun i j =>
        lsum (pts.map fun p => p.w * p.f.getD i 0 * p.f.getD j 0)) i m * E m j
      = (pts.map fun p => p.w * p.f.getD i 0 * p.f.getD m 0 * E m j).sum := by
    intro m hm
    rw [get_tab _ hi (Finset.mem_range.1 hm), lsum_eq, ← list_sum_map_mul_right]
  rw [Finset.sum_congr rfl e1, ← list_sum_map_finset]
  congr 1
  apply List.map_congr_left
  intro p hp
  rw [hnest p hp j hj, Finset.mul_sum]
  apply Finset.sum_congr rfl
  intro m _
  ring

/-- `X = M⁻¹ (M E) = E` whenever the local solve succeeds -/
theorem localSolve_exact {n c : Nat} {m nmat x : Mat} (E : Nat → Nat → Rat)
    (h : localSolve n c m nmat = .ok x)
    (hN : ∀ i j, i < n → j < c → FeatModel.GT.get nmat i j = ∑ l ∈ range n, FeatModel.GT.get m i l * E l j) :
    ∀ i j, i < n → j < c → FeatModel.GT.get x i j = E i j := by
  intro i j hi hj
  unfold localSolve at h
  split at h
  · simp at h
  · rename_i det minv p hinv
    simp only at h
    split at h
    · simp at h
    · simp only [Except.ok.injEq] at h
      subst h
      unfold matMul
      rw [get_tab _ hi hj, sumTo_eq]
      have hL := invert_left_inverse hinv (by omega) (le_refl n)
      have e1 : ∀ k ∈ range n, FeatModel.GT.get minv i k * FeatModel.GT.get nmat k j
          = ∑ l ∈ range n, FeatModel.GT.get minv i k * FeatModel.GT.get m k l * E l j := by
        intro k hk
        rw [hN k j (Finset.mem_range.1 hk) hj, Finset.mul_sum]
        apply Finset.sum_congr rfl
        intro l _; ring
      rw [Finset.sum_congr rfl e1, Finset.sum_comm]
      have e2 : ∀ l ∈ range n, ∑ k ∈ range n, FeatModel.GT.get minv i k * FeatModel.GT.get m k l * E l j
          = (if i = l then 1 else 0) * E l j := by
        intro l hl
        rw [← Finset.sum_mul, ← sumTo_eq, hL i l hi (Finset.mem_range.1 hl)]
      rw [Finset.sum_congr rfl e2, Finset.sum_eq_single i]
      · simp
      · intro l _ hl; simp [Ne.symm hl]
      · intro hni; exact absurd (Finset.mem_range.2 hi) hni

/-- local prolongation of a child cell on which the spaces are nested: `X = E` -/
theorem localProl_exact {ncl : Nat} {ch : Child} {x : Mat} (E : Nat → Nat → Rat)
    (h : localProl ncl ch = .ok x)
    (hnest : ∀ p ∈ ch.pts, ∀ j, j < ncl → p.c.getD j 0 = ∑ m ∈ range ch.fmap.length, E m j * p.f.getD m 0) :
    ∀ i j, i < ch.fmap.length → j < ncl → FeatModel.GT.get x i j = E i j :=
  localSolve_exact E h (nested_mass ch.pts E hnest)

/-! ### weighted scatter -/

theorem dot_denseRow (nc : Nat) (cmap : List Nat) (xs : List Rat) (xc : Nat → Rat)
    (hmap : ∀ j, j < cmap.length → cmap.getD j 0 < nc) :
    ∑ s ∈ range nc, (denseRow nc cmap xs).getD s 0 * xc s
      = ∑ j ∈ range cmap.length, xs.getD j 0 * xc (cmap.getD j 0) := by
  have e1 : ∀ s ∈ range nc, (denseRow nc cmap xs).getD s 0 * xc s
      = ∑ j ∈ range cmap.length, (if cmap.getD j 0 = s then xs.getD j 0 else 0) * xc s := by
    intro s hs
    unfold denseRow
    rw [getD_vtab _ (Finset.mem_range.1 hs), sumTo_eq, Finset.sum_mul]
  rw [Finset.sum_congr rfl e1, Finset.sum_comm]
  apply Finset.sum_congr rfl
  intro j hj
  rw [Finset.sum_eq_single (cmap.getD j 0)]
  · simp
  · intro s _ hs; rw [if_neg (Ne.symm hs)]; ring
  · intro hn; exact absurd (Finset.mem_range.2 (hmap j (Finset.mem_range.1 hj))) hn

theorem getD_addRows {n : Nat} (a b : List Rat) {s : Nat} (hs : s < n) :
    (addRows n a b).getD s 0 = a.getD s 0 + b.getD s 0 := by
  unfold addRows; rw [getD_vtab _ hs]

theorem dot_foldl_addRows (n : Nat) (rows : List (List Rat)) (acc : List Rat) (xc : Nat → Rat) :
    ∑ s ∈ range n, (rows.foldl (addRows n) acc).getD s 0 * xc s
      = ∑ s ∈ range n, acc.getD s 0 * xc s + (rows.map fun row => ∑ s ∈ range n, row.getD s 0 * xc s).sum := by
  induction rows generalizing acc with
  | nil => simp
  | cons r rows ih =>
    rw [List.foldl_cons, ih]
    have : ∑ s ∈ range n, (addRows n acc r).getD s 0 * xc s
        = ∑ s ∈ range n, acc.getD s 0 * xc s + ∑ s ∈ range n, r.getD s 0 * xc s := by
      rw [← Finset.sum_add_distrib]
      apply Finset.sum_congr rfl
      intro s hs
      rw [getD_addRows _ _ (Finset.mem_range.1 hs)]; ring
    rw [this]; simp; ring

theorem dot_sumRows (n : Nat) (rows : List (List Rat)) (xc : Nat → Rat) :
    ∑ s ∈ range n, (sumRows n rows).getD s 0 * xc s
      = (rows.map fun row => ∑ s ∈ range n, row.getD s 0 * xc s).sum := by
  unfold sumRows
  rw [dot_foldl_addRows]
  have : ∑ s ∈ range n, (vtab n fun _ => (0 : Rat)).getD s 0 * xc s = 0 := by
    apply Finset.sum_eq_zero
    intro s hs
    rw [getD_vtab _ (Finset.mem_range.1 hs)]; ring
  rw [this, zero_add]

theorem list_sum_const {α : Type} (l : List α) (f : α → Rat) (c : Rat) (h : ∀ a ∈ l, f a = c) :
    (l.map f).sum = (l.length : Rat) * c := by
  induction l with
  | nil => simp
  | cons a l ih =>
    simp only [List.map_cons, List.sum_cons, List.length_cons]
    rw [h a (by simp), ih (fun b hb => h b (by simp [hb]))]
    push_cast; ring

/-- every dense row that is scattered into global row `r` maps the coarse vector to `vf r` -/
theorem contrib_dot (nc : Nat) (locs : List (List Nat × List Nat × Mat)) (xc vf : Nat → Rat) (r : Nat)
    (hmap : ∀ loc ∈ locs, ∀ j, j < loc.1.length → loc.1.getD j 0 < nc)
    (hloc : ∀ loc ∈ locs, ∀ i, i < loc.2.1.length →
      vf (loc.2.1.getD i 0) = ∑ j ∈ range loc.1.length, FeatModel.GT.get loc.2.2 i j * xc (loc.1.getD j 0)) :
    ∀ row ∈ contribRows nc locs r, ∑ s ∈ range nc, row.getD s 0 * xc s = vf r := by
  intro row hrow
  unfold contribRows at hrow
  rw [List.mem_flatMap] at hrow
  obtain ⟨⟨cmap, fmap, x⟩, hmem, hrow⟩ := hrow
  unfold childContrib at hrow
  rw [List.mem_filterMap] at hrow
  obtain ⟨i, hi, hrow⟩ := hrow
  rw [List.mem_range] at hi
  split at hrow
  · rename_i hfi
    simp only [Option.some.injEq] at hrow
    subst hrow
    rw [dot_denseRow nc cmap _ xc (hmap _ hmem), ← hfi]
    exact (hloc _ hmem i hi).symm
  · simp at hrow

/-- **prolongation is exact**: if every local matrix maps the coarse coefficients `xc` (restricted to its coarse
dof-mapping) to the coefficients `vf` (restricted to its fine dof-mapping), the assembled, weight-normalised
prolongation matrix maps `xc` to `vf` -/
theorem prolDirect_exact (d : Dump) (locs : List (List Nat × List Nat × Mat)) (pd : Mat) (xc : List Rat)
    (vf : Nat → Rat) (h : prolDirect d locs = some pd)
    (hmap : ∀ loc ∈ locs, ∀ j, j < loc.1.length → loc.1.getD j 0 < d.nc)
    (hloc : ∀ loc ∈ locs, ∀ i, i < loc.2.1.length →
      vf (loc.2.1.getD i 0) = ∑ j ∈ range loc.1.length, FeatModel.GT.get loc.2.2 i j * xc.getD (loc.1.getD j 0) 0) :
    ∀ r, r < d.nf → (matVec d.nf d.nc pd xc).getD r 0 = vf r := by
  intro r hr
  unfold prolDirect scaleRows at h
  split at h
  · simp at h
  · rename_i hw
    simp only [Option.some.injEq] at h
    subst h
    have hlen : (prolRaw d locs).length = d.nf := by simp [prolRaw]
    have hwr : ((contribRows d.nc locs r).length : Rat) ≠ 0 := by
      intro h0
      apply hw
      rw [List.any_eq_true]
      refine ⟨(prolWeights d locs).getD r 0, ?_, ?_⟩
      · unfold prolWeights vtab
        rw [List.getD_eq_getElem?_getD]
        simp [hr]
        exact ⟨r, hr, rfl⟩
      · unfold prolWeights
        rw [getD_vtab _ hr]
        simp [h0]
    unfold matVec
    rw [getD_vtab _ hr, sumTo_eq]
    have e1 : ∀ k ∈ range d.nc,
        FeatModel.GT.get ((List.range (prolRaw d locs).length).map fun r =>
          vtab d.nc fun s => FeatModel.GT.get (prolRaw d locs) r s * (1 / (prolWeights d locs).getD r 0)) r k
          * xc.getD k 0
        = (1 / ((contribRows d.nc locs r).length : Rat)) *
            ((sumRows d.nc (contribRows d.nc locs r)).getD k 0 * xc.getD k 0) := by
      intro k hk
      have hk' := Finset.mem_range.1 hk
      have g1 : FeatModel.GT.get ((List.range (prolRaw d locs).length).map fun r =>
          vtab d.nc fun s => FeatModel.GT.get (prolRaw d locs) r s * (1 / (prolWeights d locs).getD r 0)) r k
          = FeatModel.GT.get (prolRaw d locs) r k * (1 / (prolWeights d locs).getD r 0) := by
        unfold FeatModel.GT.get
        simp only [List.getD_eq_getElem?_getD, List.getElem?_map, List.getElem?_range, hlen, hr]
        simp [vtab, hk']
      have g2 : FeatModel.GT.get (prolRaw d locs) r k = (sumRows d.nc (contribRows d.nc locs r)).getD k 0 := by
        unfold FeatModel.GT.get prolRaw
        simp [List.getD_eq_getElem?_getD, hr]
      have g3 : (prolWeights d locs).getD r 0 = ((contribRows d.nc locs r).length : Rat) := by
        unfold prolWeights; rw [getD_vtab _ hr]
      rw [g1, g2, g3]; ring
    rw [Finset.sum_congr rfl e1, ← Finset.mul_sum, dot_sumRows d.nc _ (fun k => xc.getD k 0),
      list_sum_const _ _ (vf r) (contrib_dot d.nc locs (fun k => xc.getD k 0) vf r hmap hloc)]
    field_simp

theorem mapM_ok_mem {α β ε : Type} (f : α → Except ε β) (l : List α) (ys : List β)
    (h : l.mapM f = .ok ys) : ∀ y ∈ ys, ∃ x ∈ l, f x = .ok y := by
  induction l generalizing ys with
  | nil =>
    simp [List.mapM_nil, pure, Except.pure] at h
    subst h; simp
  | cons a l ih =>
    rw [List.mapM_cons] at h
    cases hfa : f a with
    | error e => simp [hfa, bind, Except.bind] at h
    | ok b =>
      cases hl : l.mapM f with
      | error e => simp [hfa, hl, bind, Except.bind] at h
      | ok bs =>
        simp [hfa, hl, bind, Except.bind, pure, Except.pure] at h
        subst h
        intro y hy
        rcases List.mem_cons.1 hy with hy | hy
        · exact ⟨a, by simp, by rw [hfa, hy]⟩
        · obtain ⟨x, hx, hfx⟩ := ih bs hl y hy
          exact ⟨x, by simp [hx], hfx⟩

theorem localProls_mem {d : Dump} {locs : List (List Nat × List Nat × Mat)} (h : localProls d = .ok locs) :
    ∀ loc ∈ locs, ∃ cell ∈ d.cells, ∃ ch ∈ cell.children,
      loc.1 = cell.cmap ∧ loc.2.1 = ch.fmap ∧ localProl cell.cmap.length ch = .ok loc.2.2 := by
  intro loc hloc
  unfold localProls at h
  obtain ⟨⟨cell, ch⟩, hmem, hf⟩ := mapM_ok_mem _ _ _ h loc hloc
  rw [List.mem_flatMap] at hmem
  obtain ⟨cell', hcell, hmem⟩ := hmem
  rw [List.mem_map] at hmem
  obtain ⟨ch', hch, heq⟩ := hmem
  simp only [Prod.mk.injEq] at heq
  obtain ⟨rfl, rfl⟩ := heq
  simp only at hf
  split at hf
  · simp at hf
  · rename_i x hx
    simp only [Except.ok.injEq] at hf
    subst hf
    exact ⟨cell', hcell, ch', hch, rfl, rfl, hx⟩

/-- the global statement: nested spaces (at the cubature points, with local embedding matrices `E`), a fine
coefficient vector `vf` that is locally `E · xc`  ⟹  `P · xc = vf` -/
theorem prolongation_exact (d : Dump) (locs : List (List Nat × List Nat × Mat)) (pd : Mat) (xc : List Rat)
    (vf : Nat → Rat) (E : Cell → Child → Nat → Nat → Rat)
    (hlocs : localProls d = .ok locs) (hpd : prolDirect d locs = some pd)
    (hmap : ∀ cell ∈ d.cells, ∀ j, j < cell.cmap.length → cell.cmap.getD j 0 < d.nc)
    (hnest : ∀ cell ∈ d.cells, ∀ ch ∈ cell.children, ∀ p ∈ ch.pts, ∀ j, j < cell.cmap.length →
      p.c.getD j 0 = ∑ m ∈ range ch.fmap.length, E cell ch m j * p.f.getD m 0)
    (hsame : ∀ cell ∈ d.cells, ∀ ch ∈ cell.children, ∀ i, i < ch.fmap.length →
      vf (ch.fmap.getD i 0) = ∑ j ∈ range cell.cmap.length, E cell ch i j * xc.getD (cell.cmap.getD j 0) 0) :
    ∀ r, r < d.nf → (matVec d.nf d.nc pd xc).getD r 0 = vf r := by
  apply prolDirect_exact d locs pd xc vf hpd
  · intro loc hloc j hj
    obtain ⟨cell, hcell, ch, hch, h1, h2, hX⟩ := localProls_mem hlocs loc hloc
    rw [h1] at hj ⊢
    exact hmap cell hcell j hj
  · intro loc hloc i hi
    obtain ⟨cell, hcell, ch, hch, h1, h2, hX⟩ := localProls_mem hlocs loc hloc
    rw [h2] at hi
    rw [h1, h2, hsame cell hcell ch hch i hi]
    apply Finset.sum_congr rfl
    intro j hj
    rw [localProl_exact (E cell ch) hX (hnest cell hcell ch hch) i j hi (Finset.mem_range.1 hj)]

theorem get_transposeDense {r c : Nat} (a : Mat) {i j : Nat} (hi : i < c) (hj : j < r) :
    FeatModel.GT.get (transposeDense r c a) i j = FeatModel.GT.get a j i := by
  unfold transposeDense; rw [get_tab _ hi hj]

end C18L
