import FeatModel.Lemmas.C20Inv
/-! C20 helper lemmas, part 5: every operation of the model preserves the reference-count invariant -/
namespace FeatModel.Pool

theorem slot_none_ids {s : State} {a : Nat} (h : (s.slot a).isSome = false) : optIds (s.slot a) = [] := by
  cases hs : s.slot a with
  | none => rfl
  | some c => rw [hs] at h; cases h

theorem inv_new {s s' : State} {a kind dt it n : Nat} {v : Int} (hi : Inv s)
    (h : step s (.new a kind dt it n v) = .ok s') : Inv s' := by
  unfold step at h
  simp only at h
  split at h
  · cases h
  · rename_i hc
    simp only [Bool.or_eq_true, decide_eq_true_eq, not_or, Nat.not_le, Bool.not_eq_true] at hc
    obtain ⟨⟨ha, hs⟩, _⟩ := hc
    have hn := slot_none_ids hs
    split at h
    · injection h with h; subst h
      have := inv_setSlot (s := s) (p' := s.pool) (a := a) (x := some (Cont.empty kind dt it [0])) hi ha
        (by rw [hn]; simp only [optIds, ownIds_empty]; exact Delta.refl _) hi.1
      exact this
    · injection h with h; subst h
      refine inv_setSlot hi ha ?_ (posAlloc _ _ _ _ hi.1)
      rw [hn]
      have := delta_alloc s.pool (if kind = 0 then n else 2 * n) (esz dt) (iota v (if kind = 0 then n else 2 * n))
      refine this.congr ?_ (fun j => rfl)
      intro j
      simp [optIds, Cont.ownIds, Cont.owned, Cont.empty, idsOf_append]

def pid : Ptr → List Nat
  | .null => []
  | .at id _ => [id]

theorem idsOf_cons (q : Ptr) (r : List Ptr) : idsOf (q :: r) = pid q ++ idsOf r := by cases q <;> rfl
theorem idsOf_nil : idsOf [] = [] := rfl

theorem delta_alloc' (p : Pool) (n esz : Nat) (vals : List Int) :
    Delta p (alloc p n esz vals).1 (pid (alloc p n esz vals).2) [] := by
  have := delta_alloc p n esz vals
  rw [idsOf_cons, idsOf_nil, List.append_nil] at this
  exact this

theorem delta_incr {p p' : Pool} {q : Ptr} (h : incr p q = .ok p') (hp : PoolPos p) :
    Delta p p' (pid q) [] ∧ PoolPos p' := by
  have h1 : incrAll p [q] = .ok p' := by simp [incrAll, h]
  have := delta_incrAll h1 hp
  rw [idsOf_cons, idsOf_nil, List.append_nil] at this
  exact this

theorem inv_setSlot2 {s : State} {p' : Pool} {a b : Nat} {x y : Option Cont} (hi : Inv s)
    (ha : a < s.slots.length) (hb : b < s.slots.length) (hab : a ≠ b)
    (hd : Delta s.pool p' (optIds x ++ optIds y) (optIds (s.slot a) ++ optIds (s.slot b))) (hp : PoolPos p') :
    Inv (({ s with pool := p' }.setSlot a x).setSlot b y) := by
  refine ⟨hp, ?_⟩
  intro j
  have h1 := own_setSlot ({ s with pool := p' } : State) a x ha j
  have h2 := own_setSlot (({ s with pool := p' } : State).setSlot a x) b y (by rw [length_setSlot]; exact hb) j
  rw [slot_setSlot_ne ({ s with pool := p' } : State) a b x hab] at h2
  have h3 := hi.2 j
  have h4 := hd j
  have e1 : ({ s with pool := p' } : State).ownIds = s.ownIds := rfl
  have e2 : ({ s with pool := p' } : State).slot a = s.slot a := rfl
  have e3 : ({ s with pool := p' } : State).slot b = s.slot b := rfl
  rw [e1, e2] at h1
  rw [e3] at h2
  simp only [List.count_append] at h4
  show count p' j = _
  omega

theorem inv_mat {s s' : State} {a kind dt it r c k : Nat} {v : Int} {variant : Nat} (hi : Inv s)
    (h : step s (.mat a kind dt it r c k v variant) = .ok s') : Inv s' := by
  unfold step at h
  simp only at h
  split at h
  · cases h
  · rename_i hc
    simp only [Bool.or_eq_true, decide_eq_true_eq, not_or, Nat.not_le, Bool.not_eq_true] at hc
    obtain ⟨⟨⟨⟨ha, hs⟩, _⟩, _⟩, _⟩ := hc
    have hn := slot_none_ids hs
    split at h
    · injection h with h; subst h
      exact inv_setSlot (s := s) (p' := s.pool) hi ha
        (by rw [hn]; simp only [optIds, ownIds_empty]; exact Delta.refl _) hi.1
    · injection h with h; subst h
      have d1 := delta_alloc' s.pool (r * k) (isz it)
        ((List.range (r * k)).map (fun i => ((i % (if k = 0 then 1 else k) : Nat) : Int)))
      have p1 := posAlloc s.pool (r * k) (isz it)
        ((List.range (r * k)).map (fun i => ((i % (if k = 0 then 1 else k) : Nat) : Int))) hi.1
      have d2 := delta_alloc' (alloc s.pool (r * k) (isz it)
        ((List.range (r * k)).map (fun i => ((i % (if k = 0 then 1 else k) : Nat) : Int)))).1 (r + 1) (isz it)
        ((List.range (r + 1)).map (fun i => ((i * k : Nat) : Int)))
      have p2 := posAlloc _ (r + 1) (isz it) ((List.range (r + 1)).map (fun i => ((i * k : Nat) : Int))) p1
      have d3 := delta_alloc' (alloc (alloc s.pool (r * k) (isz it)
        ((List.range (r * k)).map (fun i => ((i % (if k = 0 then 1 else k) : Nat) : Int)))).1 (r + 1) (isz it)
        ((List.range (r + 1)).map (fun i => ((i * k : Nat) : Int)))).1 (r * k * (if kind = 2 then 1 else 4)) (esz dt)
        (iota v (r * k * (if kind = 2 then 1 else 4)))
      have p3 := posAlloc _ (r * k * (if kind = 2 then 1 else 4)) (esz dt)
        (iota v (r * k * (if kind = 2 then 1 else 4))) p2
      refine inv_setSlot hi ha ?_ p3
      rw [hn]
      refine ((d1.trans d2).trans d3).congr ?_ (fun j => rfl)
      intro j
      simp only [optIds, Cont.ownIds, Cont.owned, Cont.empty, idsOf_append, idsOf_cons, idsOf_nil,
        List.count_append, List.count_nil, Bool.false_eq_true, if_false]
      omega

theorem inv_band {s s' : State} {a dt it r noff : Nat} {v : Int} (hi : Inv s)
    (h : step s (.band a dt it r noff v) = .ok s') : Inv s' := by
  unfold step at h
  simp only at h
  split at h
  · cases h
  · rename_i hc
    simp only [Bool.or_eq_true, decide_eq_true_eq, not_or, Nat.not_le, Bool.not_eq_true] at hc
    obtain ⟨⟨ha, hs⟩, _⟩ := hc
    have hn := slot_none_ids hs
    split at h
    · injection h with h; subst h
      exact inv_setSlot (s := s) (p' := s.pool) hi ha
        (by rw [hn]; simp only [optIds, ownIds_empty]; exact Delta.refl _) hi.1
    · injection h with h; subst h
      have d1 := delta_alloc' s.pool (r * noff) (esz dt) (iota v (r * noff))
      have p1 := posAlloc s.pool (r * noff) (esz dt) (iota v (r * noff)) hi.1
      have d2 := delta_alloc' (alloc s.pool (r * noff) (esz dt) (iota v (r * noff))).1 noff (isz it)
        (iota ((r - 1 : Nat) : Int) noff)
      have p2 := posAlloc _ noff (isz it) (iota ((r - 1 : Nat) : Int) noff) p1
      refine inv_setSlot hi ha ?_ p2
      rw [hn]
      refine (d1.trans d2).congr ?_ (fun j => rfl)
      intro j
      simp only [optIds, Cont.ownIds, Cont.owned, Cont.empty, idsOf_append, idsOf_cons, idsOf_nil,
        List.count_append, List.count_nil, Bool.false_eq_true, if_false]
      omega

end FeatModel.Pool
