import FeatModel.Model.DA.Layers
import FeatModel.Lemmas.C19_color
/-!
C17: coverage of the static work distribution of the `DomainAssembler`:
* `threaded_eq_serial`: the result of a commutative/associative accumulation does not depend on the cell order;
* `workerCells_cover_*`: the workers' cell sequences together are the element list (every cell exactly once);
* `colors_proper`: `_build_colors` rearranges the element list colour by colour, and two cells of the same
  colour block are never adjacent.
Core Lean only.
-/
open FeatModel.Adj

namespace FeatModel.DA

/-! ## 1. order independence -/

theorem threaded_eq_serial {α : Type} (op : α → α → α) (hc : ∀ a b, op a b = op b a)
    (ha : ∀ a b c, op (op a b) c = op a (op b c)) (contrib : Nat → α) (z : α)
    (order cells : List Nat) (h : order.Perm cells) :
    order.foldl (fun acc c => op acc (contrib c)) z = cells.foldl (fun acc c => op acc (contrib c)) z := by
  induction h generalizing z with
  | nil => rfl
  | cons x _ ih => simp only [List.foldl_cons]; exact ih _
  | swap x y l =>
    simp only [List.foldl_cons]
    congr 1
    rw [ha, ha, hc (contrib y)]
  | trans _ _ ih1 ih2 => exact (ih1 z).trans (ih2 z)

/-! ## 2. the workers' cell sequences tile the element list -/

theorem cov_slice_append (xs : List Nat) (a b c : Nat) (hab : a ≤ b) (hbc : b ≤ c) :
    slice xs a b ++ slice xs b c = slice xs a c := by
  unfold slice
  have e1 : c - a = (b - a) + (c - b) := by omega
  have e2 : xs.drop b = (xs.drop a).drop (b - a) := by
    rw [List.drop_drop]; congr 1; omega
  rw [e1, List.take_add, e2]

theorem cov_slice_self (xs : List Nat) (a : Nat) : slice xs a a = [] := by
  unfold slice; simp

theorem cov_slice_full (xs : List Nat) : slice xs 0 xs.length = xs := by
  unfold slice; simp

theorem cov_cut_mono (cut : Nat → Nat) (n : Nat) (hm : ∀ k, k < n → cut k ≤ cut (k + 1)) :
    cut 0 ≤ cut n := by
  induction n with
  | zero => exact Nat.le_refl _
  | succ n ih =>
    exact Nat.le_trans (ih (fun k hk => hm k (by omega))) (hm n (by omega))

/-- consecutive slices along monotone cut points tile the slice between the first and the last cut point -/
theorem cov_slices_tile_gen (xs : List Nat) (cut : Nat → Nat) (n : Nat)
    (hm : ∀ k, k < n → cut k ≤ cut (k + 1)) :
    (List.range n).flatMap (fun k => slice xs (cut k) (cut (k + 1))) = slice xs (cut 0) (cut n) := by
  induction n with
  | zero => simp [cov_slice_self]
  | succ n ih =>
    rw [List.range_succ, List.flatMap_append, ih (fun k hk => hm k (by omega))]
    simp only [List.flatMap_cons, List.flatMap_nil, List.append_nil]
    exact cov_slice_append xs _ _ _ (cov_cut_mono cut n (fun k hk => hm k (by omega))) (hm n (by omega))

/-- consecutive slices along monotone cut points tile the list -/
theorem cov_slices_tile (xs : List Nat) (cut : Nat → Nat) (n : Nat) (h0 : cut 0 = 0) (hn : cut n = xs.length)
    (hm : ∀ k, k < n → cut k ≤ cut (k + 1)) :
    (List.range n).flatMap (fun k => slice xs (cut k) (cut (k + 1))) = xs := by
  rw [cov_slices_tile_gen xs cut n hm, h0, hn, cov_slice_full]

theorem cov_flatMap_congr {α β : Type} (l : List α) (f g : α → List β) (h : ∀ a, a ∈ l → f a = g a) :
    l.flatMap f = l.flatMap g := by
  induction l with
  | nil => rfl
  | cons a t ih =>
    simp only [List.flatMap_cons]
    rw [h a (by simp), ih (fun b hb => h b (by simp [hb]))]

theorem workerCells_cover_noscatter (d : Dist) (h : 1 ≤ d.nW) :
    (List.range d.nW).flatMap (fun k => workerCells d false (k + 1)) = d.elemIdx := by
  have e : (List.range d.nW).flatMap (fun k => workerCells d false (k + 1)) =
      (List.range d.nW).flatMap (fun k => slice d.elemIdx ((fun k => k * d.elemIdx.length / d.nW) k)
        ((fun k => k * d.elemIdx.length / d.nW) (k + 1))) := by
    apply cov_flatMap_congr
    intro k hk
    have hk' : k < d.nW := List.mem_range.1 hk
    unfold workerCells
    have h1 : ¬ d.nW = 0 := by omega
    have h2 : ¬ (k + 1 = 0 ∨ d.nW < k + 1) := by omega
    simp only [h1, h2, if_false, Bool.not_false, if_true, Nat.add_sub_cancel]
  rw [e]
  apply cov_slices_tile
  · simp
  · exact Nat.mul_div_cancel_left _ (by omega)
  · intro k _
    exact Nat.div_le_div_right (Nat.mul_le_mul_right _ (by omega))

theorem workerCells_cover_layered (d : Dist) (h : 1 ≤ d.nW) (hs : d.strategy ≠ 4)
    (h0 : d.layerElems.getD (d.threadLayers.getD 0 0) 0 = 0)
    (hn : d.layerElems.getD (d.threadLayers.getD d.nW 0) 0 = d.elemIdx.length)
    (hm : ∀ w, w < d.nW → d.layerElems.getD (d.threadLayers.getD w 0) 0 ≤ d.layerElems.getD (d.threadLayers.getD (w + 1) 0) 0) :
    (List.range d.nW).flatMap (fun k => workerCells d true (k + 1)) = d.elemIdx := by
  have e : (List.range d.nW).flatMap (fun k => workerCells d true (k + 1)) =
      (List.range d.nW).flatMap (fun k => slice d.elemIdx
        ((fun w => d.layerElems.getD (d.threadLayers.getD w 0) 0) k)
        ((fun w => d.layerElems.getD (d.threadLayers.getD w 0) 0) (k + 1))) := by
    apply cov_flatMap_congr
    intro k hk
    have hk' : k < d.nW := List.mem_range.1 hk
    unfold workerCells
    have h1 : ¬ d.nW = 0 := by omega
    have h2 : ¬ (k + 1 = 0 ∨ d.nW < k + 1) := by omega
    simp only [h1, h2, hs, if_false, Bool.not_true, Nat.add_sub_cancel]
    simp
  rw [e]
  exact cov_slices_tile d.elemIdx _ d.nW h0 hn hm

theorem cov_flatMap_append_perm {α β : Type} (l : List α) (f g : α → List β) :
    (l.flatMap fun x => f x ++ g x).Perm (l.flatMap f ++ l.flatMap g) := by
  induction l with
  | nil => simp
  | cons a t ih =>
    simp only [List.flatMap_cons, List.append_assoc]
    refine List.Perm.append_left (f a) ?_
    exact ((List.Perm.append_left (g a) ih).trans (List.perm_append_comm_assoc _ _ _))

/-- the two iteration orders of a double `flatMap` yield the same multiset -/
theorem cov_flatMap_comm {α β γ : Type} (l1 : List α) (l2 : List β) (f : α → β → List γ) :
    (l1.flatMap fun a => l2.flatMap fun b => f a b).Perm (l2.flatMap fun b => l1.flatMap fun a => f a b) := by
  induction l1 with
  | nil =>
    simp only [List.flatMap_nil]
    have : (l2.flatMap fun _ => ([] : List γ)) = [] := by
      induction l2 with
      | nil => rfl
      | cons b t ih => simp [ih]
    rw [this]
  | cons a t ih =>
    simp only [List.flatMap_cons]
    exact (List.Perm.append_left _ ih).trans (cov_flatMap_append_perm l2 _ _).symm

/-- share of worker `w + 1` (`w < nW`) in the colour block `c` -/
def cov_share (d : Dist) (c w : Nat) : List Nat :=
  slice d.elemIdx
    (d.colorElems.getD c 0 + ((d.colorElems.getD (c + 1) 0 - d.colorElems.getD c 0) * w) / d.nW)
    (d.colorElems.getD c 0 + ((d.colorElems.getD (c + 1) 0 - d.colorElems.getD c 0) * (w + 1)) / d.nW)

theorem cov_workerCells_colored (d : Dist) (hs : d.strategy = 4) (k : Nat) (hk : k < d.nW) :
    workerCells d true (k + 1) = (List.range (d.colorElems.length - 1)).flatMap fun c => cov_share d c k := by
  unfold workerCells cov_share
  have h1 : ¬ d.nW = 0 := by omega
  have h2 : ¬ (k + 1 = 0 ∨ d.nW < k + 1) := by omega
  simp only [h1, h2, hs, if_false, Bool.not_true, Nat.add_sub_cancel]
  simp

/-- for every colour the workers' shares, concatenated in worker order, are the colour block -/
theorem workerCells_cover_color_block (d : Dist) (h : 1 ≤ d.nW) (c : Nat)
    (hm : d.colorElems.getD c 0 ≤ d.colorElems.getD (c + 1) 0) :
    (List.range d.nW).flatMap (fun w => cov_share d c w) =
      slice d.elemIdx (d.colorElems.getD c 0) (d.colorElems.getD (c + 1) 0) := by
  have e := cov_slices_tile_gen d.elemIdx
    (fun w => d.colorElems.getD c 0 + ((d.colorElems.getD (c + 1) 0 - d.colorElems.getD c 0) * w) / d.nW) d.nW
    (fun k _ => Nat.add_le_add_left (Nat.div_le_div_right (Nat.mul_le_mul_left _ (by omega))) _)
  simp only [Nat.mul_zero, Nat.zero_div, Nat.add_zero] at e
  rw [Nat.mul_div_cancel _ (by omega), Nat.add_sub_cancel' hm] at e
  exact e

theorem workerCells_cover_colored (d : Dist) (h : 1 ≤ d.nW) (hs : d.strategy = 4)
    (hlen : 1 ≤ d.colorElems.length) (h0 : d.colorElems.getD 0 0 = 0)
    (hn : d.colorElems.getD (d.colorElems.length - 1) 0 = d.elemIdx.length)
    (hm : ∀ c, c + 1 < d.colorElems.length → d.colorElems.getD c 0 ≤ d.colorElems.getD (c + 1) 0) :
    ((List.range d.nW).flatMap (fun k => workerCells d true (k + 1))).Perm d.elemIdx := by
  have e1 : (List.range d.nW).flatMap (fun k => workerCells d true (k + 1)) =
      (List.range d.nW).flatMap (fun k => (List.range (d.colorElems.length - 1)).flatMap fun c => cov_share d c k) :=
    cov_flatMap_congr _ _ _ (fun k hk => cov_workerCells_colored d hs k (List.mem_range.1 hk))
  have e2 : (List.range (d.colorElems.length - 1)).flatMap (fun c => (List.range d.nW).flatMap fun k => cov_share d c k) =
      d.elemIdx := by
    rw [cov_flatMap_congr _ _ (fun c => slice d.elemIdx ((fun c => d.colorElems.getD c 0) c)
      ((fun c => d.colorElems.getD c 0) (c + 1)))
      (fun c hc => workerCells_cover_color_block d h c (hm c (by have := List.mem_range.1 hc; omega)))]
    exact cov_slices_tile d.elemIdx _ _ h0 hn (fun c hc => hm c (by omega))
  rw [e1]
  have := cov_flatMap_comm (List.range d.nW) (List.range (d.colorElems.length - 1)) (fun k c => cov_share d c k)
  rw [e2] at this
  exact this

/-! ## 3. `_build_colors` -/

theorem cov_prefixSums_length (acc : Nat) (xs : List Nat) :
    (Graph.prefixSums acc xs).length = xs.length + 1 := by
  induction xs generalizing acc with
  | nil => rfl
  | cons x t ih => simp [Graph.prefixSums, ih]

theorem cov_prefixSums_head (acc : Nat) (xs : List Nat) : (Graph.prefixSums acc xs).getD 0 0 = acc := by
  cases xs <;> simp [Graph.prefixSums]

/-- position `p` with `ptr[c] ≤ p < ptr[c+1]` of the flattened list is position `p - ptr[c]` of row `c` -/
theorem cov_flatten_getD_aux (ls : List (List Nat)) : ∀ (acc c p : Nat), c < ls.length →
    (Graph.prefixSums acc (ls.map List.length)).getD c 0 ≤ p →
    p < (Graph.prefixSums acc (ls.map List.length)).getD (c + 1) 0 →
    acc ≤ (Graph.prefixSums acc (ls.map List.length)).getD c 0 ∧
    ls.flatten.getD (p - acc) 0 = (ls.getD c []).getD (p - (Graph.prefixSums acc (ls.map List.length)).getD c 0) 0 ∧
    p - (Graph.prefixSums acc (ls.map List.length)).getD c 0 < (ls.getD c []).length := by
  induction ls with
  | nil => intro acc c p hc; simp at hc
  | cons l t ih =>
    intro acc c p hc h1 h2
    simp only [List.map_cons, Graph.prefixSums] at h1 h2 ⊢
    cases c with
    | zero =>
      simp only [List.getD_cons_zero, List.getD_cons_succ, cov_prefixSums_head] at h1 h2 ⊢
      refine ⟨Nat.le_refl _, ?_, by omega⟩
      simp only [List.flatten_cons, List.getD_eq_getElem?_getD]
      rw [List.getElem?_append_left (by omega)]
    | succ c =>
      simp only [List.getD_cons_succ] at h1 h2 ⊢
      obtain ⟨g1, g2, g3⟩ := ih (acc + l.length) c p (by simpa using hc) h1 h2
      refine ⟨by omega, ?_, g3⟩
      rw [← g2]
      simp only [List.flatten_cons, List.getD_eq_getElem?_getD]
      rw [List.getElem?_append_right (by omega)]
      congr 2
      omega

theorem cov_flatten_getD (ls : List (List Nat)) (c p : Nat) (hc : c < ls.length)
    (h1 : (Graph.prefixSums 0 (ls.map List.length)).getD c 0 ≤ p)
    (h2 : p < (Graph.prefixSums 0 (ls.map List.length)).getD (c + 1) 0) :
    ls.flatten.getD p 0 = (ls.getD c []).getD (p - (Graph.prefixSums 0 (ls.map List.length)).getD c 0) 0 ∧
    p - (Graph.prefixSums 0 (ls.map List.length)).getD c 0 < (ls.getD c []).length := by
  have := cov_flatten_getD_aux ls 0 c p hc h1 h2
  simpa using this.2

theorem cov_nodup_flatten (L : List (List Nat)) (h1 : ∀ l, l ∈ L → l.Nodup)
    (h2 : L.Pairwise (fun a b => ∀ x, x ∈ a → x ∉ b)) : L.flatten.Nodup := by
  induction L with
  | nil => simp
  | cons l t ih =>
    rw [List.pairwise_cons] at h2
    simp only [List.flatten_cons]
    rw [List.nodup_append]
    refine ⟨h1 l (by simp), ih (fun m hm => h1 m (by simp [hm])) h2.2, ?_⟩
    intro a ha b hb hab
    subst hab
    obtain ⟨m, hm, hbm⟩ := List.mem_flatten.1 hb
    exact h2.1 m hm a ha hbm

theorem cov_greedy_size (g : Graph) : (Coloring.greedy g).coloring.toList.length = g.nDom := by
  rw [Array.length_toList, C19L.color.greedy_eq]
  exact (C19L.color.GInv_upTo g g.nDom (Nat.le_refl _)).size

theorem cov_greedy_get (g : Graph) (i c : Nat) (h : (Coloring.greedy g).coloring.toList[i]? = some c) :
    (Coloring.greedy g).coloring.getD i 0 = c := by
  rw [Array.getD_eq_getD_getElem?, ← Array.getElem?_toList, h]
  rfl

theorem cov_greedy_lt (g : Graph) (hsq : g.nImg = g.nDom) (hwf : g.wf = true) :
    ∀ c, c ∈ (Coloring.greedy g).coloring.toList → c < (Coloring.greedy g).numColors := by
  intro c hc
  obtain ⟨i, hi, e⟩ := List.mem_iff_getElem.1 hc
  have h1 := (C19L.color.coloring_bounds g hsq hwf).2 i (by rw [← cov_greedy_size g]; exact hi)
  have h2 := cov_greedy_get g i c (by rw [List.getElem?_eq_getElem hi, e])
  omega

/-- the colour classes -/
def cov_row (col : List Nat) (c : Nat) : List Nat :=
  col.zipIdx.filterMap fun (p : Nat × Nat) => match p with | (cj, j) => if cj == c then some j else none

theorem cov_parti_adj (nc : Nat) (col : List Nat) :
    (Coloring.partitionGraph nc col).adj = (List.range nc).map (cov_row col) := rfl

theorem cov_parti_getD (nc : Nat) (col : List Nat) (c : Nat) (hc : c < nc) :
    (Coloring.partitionGraph nc col).adj.getD c [] = cov_row col c := by
  have := C19L.color.partitionGraph_row nc col c
  simp only [hc, if_true] at this
  exact this

theorem cov_mem_loc (nc : Nat) (col : List Nat) (h : ∀ c, c ∈ col → c < nc) (j : Nat) :
    j ∈ (Coloring.partitionGraph nc col).adj.flatten ↔ j < col.length := by
  rw [cov_parti_adj, List.mem_flatten]
  constructor
  · rintro ⟨l, hl, hj⟩
    obtain ⟨c, _, rfl⟩ := List.mem_map.1 hl
    have := (C19L.color.mem_partRow c j col).1 hj
    obtain ⟨hlt, _⟩ := List.getElem?_eq_some_iff.1 this
    exact hlt
  · intro hj
    refine ⟨cov_row col col[j], List.mem_map.2 ⟨col[j], List.mem_range.2 (h _ (List.getElem_mem hj)), rfl⟩, ?_⟩
    exact (C19L.color.mem_partRow col[j] j col).2 (List.getElem?_eq_getElem hj)

theorem cov_loc_nodup (nc : Nat) (col : List Nat) : (Coloring.partitionGraph nc col).adj.flatten.Nodup := by
  rw [cov_parti_adj]
  apply cov_nodup_flatten
  · intro l hl
    obtain ⟨c, _, rfl⟩ := List.mem_map.1 hl
    exact (C19L.color.partRow_pairwise c col).imp (fun hlt => Nat.ne_of_lt hlt)
  · rw [List.pairwise_map]
    refine List.Pairwise.imp ?_ (List.pairwise_lt_range (n := nc))
    intro a b hab x hxa hxb
    have h1 := (C19L.color.mem_partRow a x col).1 hxa
    have h2 := (C19L.color.mem_partRow b x col).1 hxb
    rw [h1] at h2
    simp only [Option.some.injEq] at h2
    omega

theorem cov_loc_perm (nc : Nat) (col : List Nat) (h : ∀ c, c ∈ col → c < nc) :
    (Coloring.partitionGraph nc col).adj.flatten.Perm (List.range col.length) := by
  rw [List.perm_ext_iff_of_nodup (cov_loc_nodup nc col) List.nodup_range]
  intro a
  rw [cov_mem_loc nc col h, List.mem_range]

/-- two positions `p < q` inside the colour block `c` hold two different nodes of colour `c` -/
theorem cov_block_same_color (nc : Nat) (col : List Nat) (c p q : Nat)
    (hc : c + 1 < (Coloring.partitionGraph nc col).domainPtr.length)
    (h1 : (Coloring.partitionGraph nc col).domainPtr.getD c 0 ≤ p) (hpq : p < q)
    (h2 : q < (Coloring.partitionGraph nc col).domainPtr.getD (c + 1) 0) :
    col[(Coloring.partitionGraph nc col).adj.flatten.getD p 0]? = some c ∧
    col[(Coloring.partitionGraph nc col).adj.flatten.getD q 0]? = some c ∧
    (Coloring.partitionGraph nc col).adj.flatten.getD p 0 < (Coloring.partitionGraph nc col).adj.flatten.getD q 0 := by
  unfold Graph.domainPtr at hc h1 h2
  rw [cov_prefixSums_length, List.length_map] at hc
  have hcn : c < nc := by
    have : (Coloring.partitionGraph nc col).adj.length = nc := by rw [cov_parti_adj]; simp
    omega
  obtain ⟨ep, bp⟩ := cov_flatten_getD _ c p (by omega) h1 (by omega)
  obtain ⟨eq, bq⟩ := cov_flatten_getD _ c q (by omega) (by omega) h2
  rw [cov_parti_getD nc col c hcn] at ep eq bp bq
  rw [ep, eq]
  generalize (Graph.prefixSums 0 (List.map List.length (Coloring.partitionGraph nc col).adj)).getD c 0 = s
    at h1 bp bq
  have ea : (cov_row col c).getD (p - s) 0 = (cov_row col c)[p - s] := by
    simp [List.getD_eq_getElem?_getD, bp]
  have eb : (cov_row col c).getD (q - s) 0 = (cov_row col c)[q - s] := by
    simp [List.getD_eq_getElem?_getD, bq]
  rw [ea, eb]
  refine ⟨(C19L.color.mem_partRow c _ col).1 (List.getElem_mem bp),
    (C19L.color.mem_partRow c _ col).1 (List.getElem_mem bq), ?_⟩
  exact (List.pairwise_iff_getElem.1 (C19L.color.partRow_pairwise c col)) _ _ bp bq (by omega)

/-- `_build_colors`: the new element list is the old one rearranged colour by colour; `ce` are the colour offsets;
two different cells of the same colour block are never adjacent -/
theorem colors_proper (g : Graph) (elemIdx : List Nat) (maxW : Nat)
    (hsq : g.nImg = g.nDom) (hwf : g.wf = true) (hsym : ∀ i j, j ∈ g.row i → i ∈ g.row j) :
    ∃ loc : List Nat,
      (buildColors g elemIdx maxW).2.1 = loc.map (fun k => elemIdx.getD k 0) ∧
      loc.Perm (List.range g.nDom) ∧
      (∀ c p q, c + 1 < (buildColors g elemIdx maxW).2.2.length →
        (buildColors g elemIdx maxW).2.2.getD c 0 ≤ p → p < q → q < (buildColors g elemIdx maxW).2.2.getD (c + 1) 0 →
        loc.getD q 0 ∉ g.row (loc.getD p 0) ∧ loc.getD p 0 ∉ g.row (loc.getD q 0)) := by
  refine ⟨(Coloring.partitionGraph (Coloring.greedy g).numColors (Coloring.greedy g).coloring.toList).adj.flatten,
    rfl, ?_, ?_⟩
  · have := cov_loc_perm _ _ (cov_greedy_lt g hsq hwf)
    rw [cov_greedy_size] at this
    exact this
  · intro c p q hc h1 hpq h2
    obtain ⟨cp, cq, hlt⟩ := cov_block_same_color _ _ c p q hc h1 hpq h2
    generalize (Coloring.partitionGraph (Coloring.greedy g).numColors
      (Coloring.greedy g).coloring.toList).adj.flatten.getD p 0 = i at cp hlt
    generalize (Coloring.partitionGraph (Coloring.greedy g).numColors
      (Coloring.greedy g).coloring.toList).adj.flatten.getD q 0 = j at cq hlt
    have hi : i < g.nDom := by
      rw [← cov_greedy_size g]; exact (List.getElem?_eq_some_iff.1 cp).1
    have hj : j < g.nDom := by
      rw [← cov_greedy_size g]; exact (List.getElem?_eq_some_iff.1 cq).1
    have ci := cov_greedy_get g i c cp
    have cj := cov_greedy_get g j c cq
    constructor
    · intro hmem
      exact C19L.color.coloring_proper g hsq hwf hsym i j hi hmem (by omega) (by rw [ci, cj])
    · intro hmem
      exact C19L.color.coloring_proper g hsq hwf hsym j i hj hmem (by omega) (by rw [ci, cj])

end FeatModel.DA
