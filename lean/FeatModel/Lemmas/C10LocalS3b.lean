import FeatModel.Model.RefineSpec
/-! C10 local refinement lemma, tetrahedron, covering family part b (see `cell3`): kernel evaluation of the
generated tables. -/
namespace FeatModel.Refine
set_option maxRecDepth 100000

theorem local_tetra_b : ∀ j < 3, (refine (cell3 .simplex (j + 3))).consistent = true := by decide +kernel

theorem local_tetra_input_b : ∀ j < 3, (cell3 .simplex (j + 3)).consistent = true := by decide +kernel

end FeatModel.Refine
