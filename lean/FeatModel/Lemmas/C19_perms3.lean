import FeatModel.Model.Adjacency
import FeatModel.Model.AdjKernels
import FeatModel.Lemmas.C19_perms
import FeatModel.Lemmas.C19_perms2
/-! C19 lemmas, group `perms3` (statements fixed by Props/C19.statements) -/
open FeatModel.Adj

namespace C19L.perms3
open C19L.perms

theorem swapAt_self {α : Type} (x : Array α) (i : Nat) : Perm.swapAt x i i = x := by
  by_cases h : i < x.size
  · apply Array.ext_getElem?
    intro m
    rw [swapAt_getElem? x i i m h h]
    by_cases h1 : m = i
    · subst h1; simp
    · simp [h1]
  · simp [Perm.swapAt, h]

/-- the unconditional swap loop equals the guarded one when `i ≤ s[i]` on the list -/
theorem foldl_uncond {α : Type} (s : List Nat) (l : List Nat) (x : Array α)
    (hl : ∀ i, i ∈ l → i ≤ s.getD i 0) :
    l.foldl (fun (x : Array α) i => Perm.swapAt x i (s.getD i 0)) x = l.foldl (swapStep s) x := by
  induction l generalizing x with
  | nil => rfl
  | cons a l ih =>
    rw [List.foldl_cons, List.foldl_cons, ih _ (fun i hi => hl i (List.mem_cons_of_mem _ hi))]
    congr 1
    unfold swapStep
    have := hl a (List.mem_cons_self)
    by_cases h : s.getD a 0 > a
    · rw [if_pos h]
    · rw [if_neg h]
      have : s.getD a 0 = a := by omega
      rw [this, swapAt_self]

theorem permFromInvSwap_eq (s : List Nat)
    (hs : ∀ i, i < s.length → i ≤ s.getD i 0 ∧ s.getD i 0 < s.length) :
    Perm.permFromInvSwap s = (Perm.applySwapsInv s (Array.range s.length)).toList := by
  unfold Perm.permFromInvSwap
  rw [applySwapsInv_eq, foldl_uncond]
  intro i hi
  simp only [List.mem_reverse, List.mem_range] at hi
  exact (hs i (by omega)).1

theorem permFromSwap_length (s : List Nat) : (Perm.permFromSwap s).length = s.length := by
  simp [Perm.permFromSwap, applySwaps_eq, foldl_swapStep_size]

theorem invSwap_ctor_is_inverse (s : List Nat)
    (hs : ∀ i, i < s.length → i ≤ s.getD i 0 ∧ s.getD i 0 < s.length) :
    Perm.permFromInvSwap s = Perm.invPerm (Perm.permFromSwap s) ∧
    Perm.isBijection (Perm.permFromInvSwap s) = true ∧
    (∀ i, i < s.length → (Perm.permFromInvSwap s).getD ((Perm.permFromSwap s).getD i 0) 0 = i) ∧
    (∀ i, i < s.length → (Perm.permFromSwap s).getD ((Perm.permFromInvSwap s).getD i 0) 0 = i) := by
  have hP := permFromSwap_bijection s hs
  have hPl := permFromSwap_length s
  obtain ⟨hI1, hI2, hI3⟩ := invPerm_spec _ hP
  rw [hPl] at hI2 hI3
  have key : Perm.permFromInvSwap s = Perm.invPerm (Perm.permFromSwap s) := by
    rw [permFromInvSwap_eq s hs]
    have hQs : (Perm.applySwapsInv s (Array.range s.length)).size = s.length := by
      rw [applySwapsInv_eq, foldl_swapStep_size]; simp
    have hu := (inverse_swaps_undo s (Array.range s.length)).2
    have he := applySwaps_eq_permFromSwap s (Perm.applySwapsInv s (Array.range s.length)) 0 hQs
    rw [hu] at he
    have hQ : ∀ i, i < s.length →
        (Perm.applySwapsInv s (Array.range s.length)).toList.getD ((Perm.permFromSwap s).getD i 0) 0 = i := by
      intro i hi
      have h1 := congrArg (fun l => l.getD i 0) he
      rw [toList_getD, range_getD _ _ hi] at h1
      simp only [List.getD_eq_getElem?_getD, List.getElem?_map, hPl, hi, List.getElem?_eq_getElem,
        Option.map_some, Option.getD_some] at h1
      simp only [List.getD_eq_getElem?_getD, hPl, hi, List.getElem?_eq_getElem, Option.getD_some]
      exact h1.symm
    apply list_ext_getD
    · rw [invPerm_length, hPl]; simpa using hQs
    · intro m hm
      have hm' : m < s.length := by simpa [hQs] using hm
      obtain ⟨i, hi, rfl⟩ := isBij_surj _ hP m (by omega)
      rw [hPl] at hi
      rw [hQ i hi, hI2 i hi]
  rw [key]
  exact ⟨rfl, hI1, hI2, hI3⟩

theorem swap_ctor_spec {α : Type} [Inhabited α] (s : List Nat)
    (hs : ∀ i, i < s.length → i ≤ s.getD i 0 ∧ s.getD i 0 < s.length) (x : Array α) (hx : x.size = s.length) :
    Perm.construct 3 s = some ⟨Perm.permFromSwap s, s⟩ ∧ Perm.isBijection (Perm.permFromSwap s) = true ∧
    (Perm.applySwaps s x).toList = Perm.applyPerm (Perm.permFromSwap s) x.toList := by
  refine ⟨rfl, permFromSwap_bijection s hs, ?_⟩
  rw [applySwaps_eq_permFromSwap s x default hx]
  rfl

theorem foldl_swapStep_range {α : Type} (n : Nat) (l : List Nat) (x : Array α) :
    l.foldl (swapStep (List.range n)) x = x := by
  induction l generalizing x with
  | nil => rfl
  | cons a l ih =>
    rw [List.foldl_cons, ih]
    unfold swapStep
    have : (List.range n).getD a 0 ≤ a := by
      by_cases h : a < n
      · simp [List.getD_eq_getElem?_getD, h]
      · simp [List.getD_eq_getElem?_getD, h]
    rw [if_neg (by omega)]

theorem identity_ctor_spec {α : Type} [Inhabited α] (n : Nat) (x : Array α) (hx : x.size = n) :
    Perm.construct 1 (List.replicate n 0) = some ⟨List.range n, List.range n⟩ ∧
    Perm.applySwaps (List.range n) x = x ∧ Perm.applySwapsInv (List.range n) x = x ∧
    Perm.applyPerm (List.range n) x.toList = x.toList ∧ Perm.isBijection (List.range n) = true := by
  refine ⟨?_, ?_, ?_, ?_, ?_⟩
  · simp [Perm.construct]
  · rw [applySwaps_eq, foldl_swapStep_range]
  · rw [applySwapsInv_eq, foldl_swapStep_range]
  · unfold Perm.applyPerm
    apply List.ext_getElem
    · simp [hx]
    · intro i h1 h2
      simp at h1 h2
      simp [List.getD_eq_getElem?_getD, h2]
  · rw [isBij_iff]
    simp

theorem invPerm_ctor_spec (v : List Nat) (h : Perm.isBijection v = true) :
    ∃ sw, Perm.construct 4 v = some ⟨Perm.invPerm v, sw⟩ ∧ Perm.isBijection (Perm.invPerm v) = true ∧
      Perm.swapFromPerm (Perm.invPerm v) = some sw := by
  have hb := (invPerm_spec v h).1
  obtain ⟨sw, h1, _⟩ := swapFromPerm_terminates _ hb
  refine ⟨sw, ?_, hb, h1⟩
  simp [Perm.construct, h1]

end C19L.perms3
