import FeatModel.Model.CubatureTables
import FeatModel.Lemmas.C14Names
import FeatModel.Lemmas.C14Tensor
import FeatModel.Lemmas.C14Rat
/-! # C14: the rule a name denotes is never empty and keeps its weight sum through every number of refinements
    (the seeded `Rule::clone()` defect: `refine*k`, `k ≠ 1`, returned an empty rule that still "succeeded") -/
namespace FeatModel.Cub

theorem imono_zeros : ∀ (p : List Int) (n : Nat), imono p (List.replicate n 0) = 1
  | [], n => by cases n <;> simp [imono, List.replicate]
  | x :: xs, 0 => by simp [imono, List.replicate]
  | x :: xs, n + 1 => by simp [imono, List.replicate, ipow_eq, imono_zeros xs n]

theorem isumMono_zeros (n : Nat) : ∀ (w : List Int) (x : List (List Int)), w.length = x.length →
    isumMono w x (List.replicate n 0) = isum w
  | [], [], _ => by simp [isumMono, isum]
  | [], _ :: _, h => by simp at h
  | _ :: _, [], h => by simp at h
  | a :: w, p :: x, h => by
    simp only [isumMono, isum, imono_zeros, isumMono_zeros n w x (by simpa using h)]; ring

/-- the weight sum as a rational number -/
theorem momentQ_zeros (t : DyTable) (h : t.w.length = t.x.length) (n : Nat) :
    t.momentQ (List.replicate n 0) = (isum t.w : Rat) / (2 : Rat) ^ t.ew := by
  have he : ∀ n, esum (List.replicate n 0) = 0 := by
    intro n; induction n with
    | zero => rfl
    | succ n ih => simp [List.replicate_succ, esum, ih]
  unfold DyTable.momentQ DyTable.momentNum DyTable.momentExp
  rw [isumMono_zeros n t.w t.x h, he]; simp

theorem refine_lengths (t : DyTable) (rm : RefMaps) : ∀ k,
    (t.refine rm k).w.length = t.w.length * rm.maps.length ^ k ∧
    (t.refine rm k).x.length = t.x.length * rm.maps.length ^ k
  | 0 => by simp [DyTable.refine]
  | k + 1 => by
    obtain ⟨h1, h2⟩ := refine_lengths t rm k
    simp only [DyTable.refine, DyTable.refine1, List.length_flatMap, List.length_map, h1, h2, List.map_const',
      List.sum_replicate_nat, pow_succ]
    constructor <;> ring

theorem refine_isum (t : DyTable) (rm : RefMaps) (hc : isum (rm.maps.map (·.c)) = 2 ^ rm.ce) : ∀ k,
    isum (t.refine rm k).w = 2 ^ (rm.ce * k) * isum t.w ∧ (t.refine rm k).ew = t.ew + rm.ce * k
  | 0 => by simp [DyTable.refine]
  | k + 1 => by
    obtain ⟨ih1, ih2⟩ := refine_isum t rm hc k
    constructor
    · simp only [DyTable.refine, DyTable.refine1]
      rw [isum_refine1, hc, ih1, Nat.mul_succ, pow_add]; ring
    · simp only [DyTable.refine, DyTable.refine1, ih2]
      rw [Nat.mul_succ]; omega

/-- ANY number of refinements (k = 0 included) leaves the weight sum exactly as it is and multiplies the number of
    points by (number of children)^k -/
theorem refine_weight_sum (t : DyTable) (rm : RefMaps) (hc : isum (rm.maps.map (·.c)) = 2 ^ rm.ce)
    (h : t.w.length = t.x.length) (n k : Nat) :
    (t.refine rm k).momentQ (List.replicate n 0) = t.momentQ (List.replicate n 0) ∧
    (t.refine rm k).w.length = t.w.length * rm.maps.length ^ k ∧
    (t.refine rm k).x.length = (t.refine rm k).w.length := by
  obtain ⟨l1, l2⟩ := refine_lengths t rm k
  obtain ⟨s1, s2⟩ := refine_isum t rm hc k
  refine ⟨?_, l1, by rw [l1, l2, h]⟩
  rw [momentQ_zeros _ (by rw [l1, l2, h]) n, momentQ_zeros t h n, s1, s2, pow_add]
  push_cast
  have h1 : (2 : Rat) ^ t.ew ≠ 0 := by positivity
  have h2 : (2 : Rat) ^ (rm.ce * k) ≠ 0 := by positivity
  field_simp

/-- the table the un-refined rule `f:n` is built from: its own (driver) or the interval rule (tensor / scalar) -/
def srcTable (s : Shape) (f : Factory) (n : Nat) : Option DyTable :=
  let key := if f.variadic then n else 0
  match f.kind with
  | .driver => findTable (tablesOf s) f.name key
  | _ => findTable (tablesOf .h1) f.name key

def baseOK (s : Shape) (f : Factory) (n : Nat) : Bool :=
  match srcTable s f n with
  | none => false
  | some t =>
    t.w.length == t.x.length && decide (1 ≤ basePoints s f n) &&
    (match f.kind with
     | .driver => t.w.length == basePoints s f n
     | _ => t.w.length == n && t.wf 1)

def allBasesOK (s : Shape) : Bool :=
  (Gen.factoriesOf s).all fun f => (List.range (f.maxP - f.minP + 1)).all fun i => baseOK s f (f.minP + i)

theorem allBasesOK_all : allShapes.all allBasesOK = true := by decide +kernel

/-- tensor-product factories only exist for hypercubes, simplex-scalar factories only for Simplex<1> -/
def kindsOK (s : Shape) : Bool :=
  (Gen.factoriesOf s).all fun f =>
    (match f.kind with
     | .driver => true
     | .tensor => !s.simplex
     | .scalar => s == .s1)

theorem kindsOK_all : allShapes.all kindsOK = true := by decide +kernel

theorem refineCount_eq (s : Shape) : (Gen.refMapsOf s).maps.length = refineCount s := by cases s <;> rfl

theorem refMaps_tile (s : Shape) : isum ((Gen.refMapsOf s).maps.map (·.c)) = 2 ^ (Gen.refMapsOf s).ce := by
  cases s <;> decide +kernel

theorem tensor_lengths (t : DyTable) (h : t.w.length = t.x.length) (dim : Nat) :
    (t.tensor dim).w.length = t.w.length ^ dim ∧ (t.tensor dim).x.length = (t.tensor dim).w.length := by
  simp only [DyTable.tensor, length_tensorW, length_tensorX, scalarCoords, List.length_map, h, and_self]

end FeatModel.Cub
