import FeatModel.Lemmas.C10Lift3Dc
/-! C10 — 3-D global lift, part 4: `coveredOk` (no orphan fine edges / faces) for every hexahedral / tetrahedral mesh. -/
namespace FeatModel.Refine
open FeatModel.Gen.Refine

theorem coveredOk_iff3 (M : Mesh) (hd : M.dim = 3) : M.coveredOk = true ↔
    ∀ f, 1 ≤ f → f ≤ 2 → ∀ x < M.num f, ∃ t ∈ M.idx 3 f, x ∈ t := by
  unfold Mesh.coveredOk
  rw [hd]
  simp only [List.all_eq_true, List.mem_range'_1, List.mem_range, List.any_eq_true, List.contains_iff_mem]
  constructor
  · intro h f hf1 hf2 x hx
    exact h f ⟨hf1, by omega⟩ x hx
  · intro h f hf x hx
    exact h f hf.1 (by omega) x hx

/-- which terms occur in the tables `(3,3,1)` / `(3,3,2)` -/
theorem covered_table3 (kind : Kind) :
    (∀ e < faceCount kind 3 1, ∀ b < 2, ((indexTable kind 3 3 1).any fun row =>
      row.contains ⟨1, 2, some (3, 1, e), .sim 1 0 e b⟩) = true) ∧
    (∀ k < faceCount kind 3 2, ∀ j < faceCount kind 2 1, ((indexTable kind 3 3 1).any fun row =>
      row.contains ⟨2, refCount kind 2 1, some (3, 2, k), .sim 2 1 k j⟩) = true) ∧
    (∀ a < refCount kind 3 1, ((indexTable kind 3 3 1).any fun row =>
      row.contains ⟨3, refCount kind 3 1, none, .const a⟩) = true) ∧
    (∀ o ∈ faceCodes kind, ∀ a < refCount kind 2 1, ((List.range (faceCount kind 2 1)).any fun j =>
      congLookup kind 2 1 o j == a) = true) := by
  cases kind <;> decide

theorem off13 (kind : Kind) (nums : List Nat) :
    offset kind nums 1 1 = 0 ∧ offset kind nums 1 2 = 2 * nums.getD 1 0 ∧
    offset kind nums 1 3 = 2 * nums.getD 1 0 + refCount kind 2 1 * nums.getD 2 0 ∧ refCount kind 1 1 = 2 ∧
    0 < refCount kind 2 1 ∧ 0 < refCount kind 3 1 := by
  cases kind <;> simp [offset, refCount, List.range'_succ]

theorem fine_num1_3 (M : Mesh) (hd : M.dim = 3) :
    (refine M).num 1 = 2 * M.num 1 + refCount M.kind 2 1 * M.num 2 + refCount M.kind 3 1 * M.num 3 := by
  obtain ⟨o11, o12, o13, r11, r21, r31⟩ := off13 M.kind M.nums
  rw [refine_num M 1 (by rw [hd]; omega)]; unfold fineCount
  rw [hd, offset_succ _ _ 1 3 (by omega), o13]; simp [Mesh.num]

/-- a term listed by child cell `r` of coarse cell `i` is listed by a cell of the fine mesh -/
theorem covered_of_term3 (M : Mesh) (hd : M.dim = 3) (f i : Nat) (hf1 : 1 ≤ f) (hf2 : f ≤ 2) (hi : i < M.num 3)
    (row : List Term) (hrow : row ∈ indexTable M.kind 3 3 f) (t : Term) (ht : t ∈ row) :
    ∃ fr ∈ (refine M).idx 3 f, evalTerm M 3 f i t ∈ fr := by
  rw [refine_idx M 3 f (by rw [hd]; omega) (by omega)]
  refine ⟨row.map (evalTerm M 3 f i), ?_, List.mem_map.2 ⟨t, ht, rfl⟩⟩
  unfold fineIdx
  rw [hd, List.mem_flatMap]
  refine ⟨3, by simp [List.range'_succ], ?_⟩
  rw [List.mem_flatMap]
  refine ⟨i, by rw [List.mem_range]; exact hi, ?_⟩
  unfold childRows
  exact List.mem_map.2 ⟨row, hrow, rfl⟩

theorem mem_flatten_row {α : Type} (l : List (List α)) (t : α) (h : t ∈ l.flatten) : ∃ row ∈ l, t ∈ row := by
  rw [List.mem_flatten] at h; exact h

theorem coveredOk_refine3 (M : Mesh) (hd : M.dim = 3) (hs : M.shapeOk = true) (hc : M.coveredOk = true) :
    (refine M).coveredOk = true := by
  rw [coveredOk_iff3 _ (by rw [refine_dim]; exact hd)]
  rw [coveredOk_iff3 _ hd] at hc
  have h3 : Ok3 M := ⟨hd, hs⟩
  obtain ⟨o22, o23, o33, r22, r32, r33⟩ := off3 M.kind M.nums
  obtain ⟨o11, o12, o13, r11, r21, r31⟩ := off13 M.kind M.nums
  obtain ⟨ct1, ct2, ct3, ct4⟩ := covered_table3 M.kind
  have hn1 : M.num 1 = M.nums.getD 1 0 := rfl
  have hn2 : M.num 2 = M.nums.getD 2 0 := rfl
  rw [← hn1] at o12 o13
  rw [← hn2] at o13 o23
  -- a coarse entity of dimension d = 1, 2 is a local face of some cell
  have cov : ∀ d, 1 ≤ d → d ≤ 2 → ∀ E < M.num d, ∃ i k, i < M.num 3 ∧ k < faceCount M.kind 3 d ∧ M.entry 3 d i k = E := by
    intro d hd1 hd2 E hE
    obtain ⟨t, ht, hEt⟩ := hc d hd1 hd2 E hE
    obtain ⟨i, hi, rfl⟩ := mem_idx_tuple M 3 d t ht
    have hlen := ((shapeOk_iff M).1 hs 3 (by omega) (by rw [hd]; omega) d (by omega)).1
    rw [hlen] at hi
    obtain ⟨k, hk, hkk⟩ := mem_tuple_entry _ _ hEt
    rw [(shape_facts_g M hs 3 d (by omega) (by rw [hd]; omega) (by omega) i hi).1] at hk
    exact ⟨i, k, hi, hk, hkk⟩
  intro f hf1 hf2 x hx
  have hf : f = 1 ∨ f = 2 := by omega
  rcases hf with rfl | rfl
  · -- fine edges
    rw [fine_num1_3 M hd] at hx
    by_cases h1 : x < 2 * M.num 1
    · obtain ⟨i, e, hi, he, hE⟩ := cov 1 (by omega) (by omega) (x / 2) (by omega)
      obtain ⟨b, hb, hbm⟩ : ∃ b, b < 2 ∧ simMap M 3 1 0 i e b = x % 2 := by
        unfold simMap; exact congLookup_edge_surj M.kind _ _ _ (x % 2) (by omega)
      have hany := ct1 e he b hb
      rw [List.any_eq_true] at hany
      obtain ⟨row, hrow, hcont⟩ := hany
      obtain ⟨fr, hfr, hmem⟩ := covered_of_term3 M hd 1 i (by omega) (by omega) hi row hrow _ (by simpa using hcont)
      refine ⟨fr, hfr, ?_⟩
      have : evalTerm M 3 1 i ⟨1, 2, some (3, 1, e), .sim 1 0 e b⟩ = x := by
        simp only [evalTerm, evalSrc, evalAdd, o11, hE, hbm]; omega
      rwa [this] at hmem
    · by_cases h2 : x < 2 * M.num 1 + refCount M.kind 2 1 * M.num 2
      · obtain ⟨y, hxy⟩ : ∃ y, x = 2 * M.num 1 + y := ⟨x - 2 * M.num 1, by omega⟩
        have hy : y < refCount M.kind 2 1 * M.num 2 := by omega
        have hQ : y / refCount M.kind 2 1 < M.num 2 := Nat.div_lt_of_lt_mul hy
        have ha : y % refCount M.kind 2 1 < refCount M.kind 2 1 := Nat.mod_lt _ r21
        obtain ⟨i, k, hi, hk, hE⟩ := cov 2 (by omega) (by omega) _ hQ
        have hsur := ct4 (faceCode M i k) (compare_face_range M.kind _ _ _) _ ha
        rw [List.any_eq_true] at hsur
        obtain ⟨j, hj, hjv⟩ := hsur
        rw [List.mem_range] at hj
        have hany := ct2 k hk j hj
        rw [List.any_eq_true] at hany
        obtain ⟨row, hrow, hcont⟩ := hany
        obtain ⟨fr, hfr, hmem⟩ := covered_of_term3 M hd 1 i (by omega) (by omega) hi row hrow _ (by simpa using hcont)
        refine ⟨fr, hfr, ?_⟩
        have hsm : simMap M 3 2 1 i k j = y % refCount M.kind 2 1 := by
          have : simMap M 3 2 1 i k j = congLookup M.kind 2 1 (faceCode M i k) j := rfl
          rw [this]; simpa using hjv
        have : evalTerm M 3 1 i ⟨2, refCount M.kind 2 1, some (3, 2, k), .sim 2 1 k j⟩ = x := by
          simp only [evalTerm, evalSrc, evalAdd, o12, hE, hsm]
          have := Nat.div_add_mod y (refCount M.kind 2 1)
          omega
        rwa [this] at hmem
      · obtain ⟨y, hxy⟩ : ∃ y, x = 2 * M.num 1 + refCount M.kind 2 1 * M.num 2 + y :=
          ⟨x - (2 * M.num 1 + refCount M.kind 2 1 * M.num 2), by omega⟩
        have hy : y < refCount M.kind 3 1 * M.num 3 := by omega
        have hi : y / refCount M.kind 3 1 < M.num 3 := Nat.div_lt_of_lt_mul hy
        have ha : y % refCount M.kind 3 1 < refCount M.kind 3 1 := Nat.mod_lt _ r31
        have hany := ct3 _ ha
        rw [List.any_eq_true] at hany
        obtain ⟨row, hrow, hcont⟩ := hany
        obtain ⟨fr, hfr, hmem⟩ := covered_of_term3 M hd 1 _ (by omega) (by omega) hi row hrow _ (by simpa using hcont)
        refine ⟨fr, hfr, ?_⟩
        have : evalTerm M 3 1 (y / refCount M.kind 3 1)
            ⟨3, refCount M.kind 3 1, none, .const (y % refCount M.kind 3 1)⟩ = x := by
          simp only [evalTerm, evalSrc, evalAdd, o13]
          have := Nat.div_add_mod y (refCount M.kind 3 1)
          omega
        rwa [this] at hmem
  · -- fine faces
    rw [fine_sizes3 M h3] at hx
    have hperm := table_perm3 M.kind
    by_cases h1 : x < 4 * M.num 2
    · obtain ⟨i, k, hi, hk, hE⟩ := cov 2 (by omega) (by omega) (x / 4) (by omega)
      -- one of the four child terms of face k has the value x
      have hval : x ∈ (faceChildTerms M.kind k).map (evalTerm M 3 2 i) := by
        rw [face_child_vals, hE]
        have hp : (childVals M.kind (faceCode M i k)).Perm [0, 1, 2, 3] :=
          childVals_perm M.kind _ (compare_face_range M.kind _ _ _)
        have hm : x % 4 ∈ childVals M.kind (faceCode M i k) := by
          rw [hp.mem_iff]
          have : x % 4 = 0 ∨ x % 4 = 1 ∨ x % 4 = 2 ∨ x % 4 = 3 := by omega
          rcases this with h | h | h | h <;> rw [h] <;> simp
        exact List.mem_map.2 ⟨x % 4, hm, by omega⟩
      obtain ⟨t, ht, htv⟩ := List.mem_map.1 hval
      have htc : t ∈ canon3 M.kind := by
        unfold canon3
        rw [List.mem_append]; left
        rw [List.mem_flatMap]
        exact ⟨k, by rw [List.mem_range]; exact hk, ht⟩
      have htf : t ∈ (indexTable M.kind 3 3 2).flatten := hperm.mem_iff.2 htc
      obtain ⟨row, hrow, htr⟩ := mem_flatten_row _ _ htf
      obtain ⟨fr, hfr, hmem⟩ := covered_of_term3 M hd 2 i (by omega) (by omega) hi row hrow t htr
      exact ⟨fr, hfr, by rwa [htv] at hmem⟩
    · obtain ⟨y, hxy⟩ : ∃ y, x = 4 * M.num 2 + y := ⟨x - 4 * M.num 2, by omega⟩
      have hy : y < refCount M.kind 3 2 * M.num 3 := by omega
      have hi : y / refCount M.kind 3 2 < M.num 3 := Nat.div_lt_of_lt_mul hy
      have ha : y % refCount M.kind 3 2 < refCount M.kind 3 2 := Nat.mod_lt _ r32
      have htc : own3 M.kind (y % refCount M.kind 3 2) ∈ canon3 M.kind := by
        unfold canon3
        rw [List.mem_append]; right
        rw [List.mem_flatMap]
        exact ⟨_, by rw [List.mem_range]; exact ha, by simp⟩
      have htf := hperm.mem_iff.2 htc
      obtain ⟨row, hrow, htr⟩ := mem_flatten_row _ _ htf
      obtain ⟨fr, hfr, hmem⟩ := covered_of_term3 M hd 2 _ (by omega) (by omega) hi row hrow _ htr
      refine ⟨fr, hfr, ?_⟩
      have : evalTerm M 3 2 (y / refCount M.kind 3 2) (own3 M.kind (y % refCount M.kind 3 2)) = x := by
        simp only [own3, evalTerm, evalSrc, evalAdd, o23]
        have := Nat.div_add_mod y (refCount M.kind 3 2)
        omega
      rwa [this] at hmem

end FeatModel.Refine
