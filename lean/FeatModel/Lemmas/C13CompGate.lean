/-
C13, composite vectors: split-then-join of the Muxer, and the lifting of the gate (`csync0Patch`) to the
flat gate of the flattened patches.
-/
import FeatModel.Lemmas.C13CompMux
open FeatModel.Dist

set_option linter.unusedSectionVars false

/-- the gate of a composite vector seen on the concatenated POD arrays -/
def FeatModel.Dist.CPatch.flatten {α : Type} (p : CPatch α) : Patch :=
  { n := p.tmpl.podSize, nbrs := p.nbrs.map fun nb => (nb.1, nb.2.flatIdx p.tmpl 0) }

namespace FeatModel.C13L

variable {α : Type} [Field α]

/-! ### split then join -/

theorem val_scatter_gather_zip (z : List α) (l₁ l₂ : List Nat) (X : List α) (hl : l₁.length = l₂.length)
    (hn : l₂.Nodup) (h2 : ∀ j ∈ l₂, j < z.length) (p : Nat × Nat) (hp : p ∈ l₁.zip l₂) :
    val (scatterAxpy z l₂ (gather l₁ X) 1) p.2 = val z p.2 + val X p.1 := by
  obtain ⟨k, hk, rfl⟩ := List.mem_iff_getElem.1 hp
  have hk1 : k < l₁.length := by simp at hk; omega
  have hk2 : k < l₂.length := by omega
  rw [List.getElem_zip, scatterAxpy_val _ _ _ _ _ (h2 _ (List.getElem_mem _)),
    contrib_nodup l₂ hn (gather l₁ X) 1 k hk2 (by rw [gather_length]; exact hk1)]
  simp [gather]

theorem sum_map_const_of_forall {ι : Type} (L : List ι) (f : ι → α) (a : α) (h : ∀ p ∈ L, f p = a) :
    (L.map f).sum = (L.length : α) * a := by
  induction L with
  | nil => simp
  | cons p L ih =>
    rw [List.map_cons, List.sum_cons, h p (by simp), ih (fun q hq => h q (by simp [hq]))]
    simp; ring

theorem filter_zip_fst_length (l₁ l₂ : List Nat) (hl : l₁.length = l₂.length) (i : Nat) :
    ((l₁.zip l₂).filter (fun p => p.1 = i)).length = l₁.count i := by
  induction l₁ generalizing l₂ with
  | nil => simp
  | cons a l₁ ih =>
    cases l₂ with
    | nil => simp at hl
    | cons b l₂ =>
      have := ih l₂ (by simpa using hl)
      by_cases h : a = i
      · simp [h, this]
      · simp [h, this]

theorem sum_map_cast_mul (l : List Nat) (g : Nat → Nat) (x : α) :
    (l.map fun c => (g c : α) * x).sum = (((l.map g).sum : Nat) : α) * x := by
  induction l with
  | nil => simp
  | cons c l ih => simp [ih, add_mul]

/-- **split then join**: every parent entry comes back multiplied by the number of (child, mirror position)
pairs that address it -/
theorem muxJoin_muxSplit (B : Nat) (pm cm : List CMir) (X : CVec α) (trgs : List (CVec α))
    (hpm : ∀ c < cm.length, (pm.getD c default).wf (trgs.getD c default) = true)
    (hcm : ∀ c < cm.length, (cm.getD c default).wf X = true)
    (hsz : ∀ c < cm.length, (pm.getD c default).bufSize (trgs.getD c default) = (cm.getD c default).bufSize X
      ∧ (cm.getD c default).bufSize X ≤ B)
    (hnd : ∀ c < cm.length, ((pm.getD c default).flatIdx (trgs.getD c default) 0).Nodup)
    (i : Nat) (hi : i < X.podSize) :
    val (muxJoin B pm cm (muxSplit B pm cm X trgs) X).flat i
      = ((((List.range cm.length).map fun c => ((cm.getD c default).flatIdx X 0).count i).sum : Nat) : α)
          * val X.flat i := by
  have hS := muxSplit_flat B pm cm X trgs hpm hcm hsz
  rw [muxJoin_val B pm cm _ X
    (fun c hc => by rw [sameShape_wf _ (hS c hc).1]; exact hpm c hc) hcm
    (fun c hc => by rw [sameShape_bufSize _ (hS c hc).1]; exact hsz c hc) i hi,
    ← sum_map_cast_mul]
  congr 1
  apply List.map_congr_left
  intro c hc
  have hc' := List.mem_range.1 hc
  have hlen : ((cm.getD c default).flatIdx X 0).length = ((pm.getD c default).flatIdx (trgs.getD c default) 0).length := by
    rw [flatIdx_length _ _ (hcm c hc'), flatIdx_length _ _ (hpm c hc'), (hsz c hc').1]
  rw [sameShape_flatIdx _ (hS c hc').1, (hS c hc').2, ← filter_zip_fst_length _ _ hlen]
  apply sum_map_const_of_forall
  intro p hp
  obtain ⟨hp1, hp2⟩ := List.mem_filter.1 hp
  have hp2 : p.1 = i := by simpa using hp2
  have hlt : p.2 < (trgs.getD c default).podSize :=
    flatIdx_lt _ _ (hpm c hc') _ (List.of_mem_zip hp1).2
  have hzl : (trgs.getD c default).zero.flat.length = (trgs.getD c default).podSize := by
    rw [zero_flat, List.length_replicate]
  rw [val_scatter_gather_zip _ _ _ _ hlen (hnd c hc')
    (fun j hj => by rw [hzl]; exact flatIdx_lt _ _ (hpm c hc') j hj) p hp1,
    zero_flat, val_replicate _ _ _ hlt, zero_add, hp2]

/-! ### join then split, one child -/

theorem gather_scatter_nodup (n : Nat) (l₁ l₂ : List Nat) (X : List α) (hl : l₁.length = l₂.length)
    (hn : l₁.Nodup) (h1 : ∀ i ∈ l₁, i < n) :
    gather l₁ (scatterAxpy (List.replicate n 0) l₁ (gather l₂ X) 1) = gather l₂ X := by
  apply List.ext_getElem
  · rw [gather_length, gather_length, hl]
  · intro k hk1 hk2
    rw [gather_length] at hk1 hk2
    have hlt : l₁[k] < n := h1 _ (List.getElem_mem _)
    have : (gather l₁ (scatterAxpy (List.replicate n 0) l₁ (gather l₂ X) 1))[k]'(by rw [gather_length]; exact hk1)
        = val (scatterAxpy (List.replicate n 0) l₁ (gather l₂ X) 1) l₁[k] := by simp [gather]
    rw [this, scatterAxpy_val _ _ _ _ _ (by simpa using hlt), val_replicate _ _ _ hlt,
      contrib_nodup l₁ hn (gather l₂ X) 1 k hk1 (by rw [gather_length]; exact hk2)]
    simp

theorem val_scatter_gather_self (n : Nat) (l : List Nat) (X : List α) (hn : l.Nodup) (j : Nat) (hj : j < n) :
    val (scatterAxpy (List.replicate n 0) l (gather l X) 1) j = if j ∈ l then val X j else 0 := by
  rw [scatterAxpy_val _ _ _ _ _ (by simpa using hj), val_replicate _ _ _ hj, zero_add]
  by_cases hm : j ∈ l
  · obtain ⟨k, hk, rfl⟩ := List.mem_iff_getElem.1 hm
    rw [if_pos hm, contrib_nodup l hn _ 1 k hk (by rw [gather_length]; exact hk)]
    simp [gather]
  · rw [if_neg hm, contrib_not_mem _ _ _ _ hm]

/-- **join then split** for one child with duplicate-free mirrors: the child gets back its own entries at the
mirror positions (and zero elsewhere) -/
theorem muxSplit_muxJoin_single (B : Nat) (pm0 cm0 : CMir) (s trg : CVec α)
    (hpm : pm0.wf s = true) (hcm : cm0.wf trg = true)
    (hsz : pm0.bufSize s = cm0.bufSize trg ∧ cm0.bufSize trg ≤ B)
    (hndp : (pm0.flatIdx s 0).Nodup) (hndc : (cm0.flatIdx trg 0).Nodup) (j : Nat) (hj : j < s.podSize) :
    val ((muxSplit B [pm0] [cm0] (muxJoin B [pm0] [cm0] [s] trg) [s]).getD 0 default).flat j
      = if j ∈ pm0.flatIdx s 0 then val s.flat j else 0 := by
  have h1 : ∀ c < [cm0].length, c = 0 := by intro c hc; simpa using hc
  have hJ := muxJoin_flat B [pm0] [cm0] [s] trg
    (fun c hc => by rw [h1 c hc]; exact hpm) (fun c hc => by rw [h1 c hc]; exact hcm)
    (fun c hc => by rw [h1 c hc]; exact hsz)
  have hJf : (muxJoin B [pm0] [cm0] [s] trg).flat
      = scatterAxpy (List.replicate trg.podSize 0) (cm0.flatIdx trg 0) (gather (pm0.flatIdx s 0) s.flat) 1 := hJ.2
  have hS := muxSplit_flat B [pm0] [cm0] (muxJoin B [pm0] [cm0] [s] trg) [s]
    (fun c hc => by rw [h1 c hc]; exact hpm)
    (fun c hc => by rw [h1 c hc]; show cm0.wf _ = true; rw [sameShape_wf _ hJ.1]; exact hcm)
    (fun c hc => by rw [h1 c hc]; show pm0.bufSize s = cm0.bufSize _ ∧ cm0.bufSize _ ≤ B
                    rw [sameShape_bufSize _ hJ.1]; exact hsz) 0 (by simp)
  have hSf : ((muxSplit B [pm0] [cm0] (muxJoin B [pm0] [cm0] [s] trg) [s]).getD 0 default).flat
      = scatterAxpy s.zero.flat (pm0.flatIdx s 0)
          (gather (cm0.flatIdx (muxJoin B [pm0] [cm0] [s] trg) 0) (muxJoin B [pm0] [cm0] [s] trg).flat) 1 := hS.2
  have hlen : (cm0.flatIdx trg 0).length = (pm0.flatIdx s 0).length := by
    rw [flatIdx_length _ _ hcm, flatIdx_length _ _ hpm, hsz.1]
  rw [hSf, sameShape_flatIdx _ hJ.1, hJf,
    gather_scatter_nodup _ _ _ _ hlen hndc (flatIdx_lt _ _ hcm), zero_flat,
    val_scatter_gather_self _ _ _ hndp j hj]

/-! ### (E) the composite gate is the flat gate of the flattened patches -/

theorem getD_map_flat (vs : List (CVec α)) (s : Nat) : (vs.map CVec.flat).getD s [] = (vs.getD s default).flat := by
  by_cases h : s < vs.length
  · simp [List.getD_eq_getElem?_getD, h]
  · simp [List.getD_eq_getElem?_getD, Nat.not_lt.1 h]; rfl

theorem getD_map_flatten (ps : List (CPatch α)) (s : Nat) :
    (ps.map CPatch.flatten).getD s default = (ps.getD s default).flatten := by
  by_cases h : s < ps.length
  · simp [List.getD_eq_getElem?_getD, h]
  · simp [List.getD_eq_getElem?_getD, Nat.not_lt.1 h]; rfl

/-- gathering into a zero buffer of exactly the buffer size gives the flat gather -/
theorem cgather_exact (m : CMir) (v : CVec α) (h : m.wf v = true) :
    cgather m v (List.replicate (m.bufSize v) 0) 0 = gather (m.flatIdx v 0) v.flat := by
  rw [cgather_flat m v h _ _ (by simp), writeAt_replicate_zero, block, gather_length, flatIdx_length _ _ h]
  simp

/-- shapes and mirrors of a family of composite patches / vectors fit -/
structure CFits (ps : List (CPatch α)) (vs : List (CVec α)) : Prop where
  shape : ∀ s, s < ps.length → (vs.getD s default).sameShape (ps.getD s default).tmpl
  wf : ∀ s, s < ps.length → ∀ nb ∈ (ps.getD s default).nbrs, nb.2.wf (ps.getD s default).tmpl = true

theorem csendBuf_flat (ps : List (CPatch α)) (vs : List (CVec α)) (hf : CFits ps vs) (s r : Nat) :
    csendBuf ps vs s r = sendBuf (ps.map CPatch.flatten) (vs.map CVec.flat) s r := by
  unfold csendBuf sendBuf
  rw [getD_map_flatten, getD_map_flat]
  simp only [CPatch.flatten, List.find?_map]
  by_cases hs : s < ps.length
  · cases hfind : List.find? (fun nb => nb.1 == r) (ps.getD s default).nbrs with
    | none =>
      have : List.find? ((fun nb : Nat × List Nat => nb.1 == r) ∘ fun nb : Nat × CMir =>
          (nb.1, nb.2.flatIdx (ps.getD s default).tmpl 0)) (ps.getD s default).nbrs = none := hfind
      rw [this]; rfl
    | some nb =>
      have : List.find? ((fun nb : Nat × List Nat => nb.1 == r) ∘ fun nb : Nat × CMir =>
          (nb.1, nb.2.flatIdx (ps.getD s default).tmpl 0)) (ps.getD s default).nbrs = some nb := hfind
      rw [this]
      have hmem := List.mem_of_find?_eq_some hfind
      have hsh := hf.shape s hs
      simp only [Option.map_some]
      rw [cgather_exact _ _ (by rw [sameShape_wf _ hsh]; exact hf.wf s hs nb hmem), sameShape_flatIdx _ hsh]
  · have : ps.getD s default = default := by
      simp [List.getD_eq_getElem?_getD, Nat.not_lt.1 hs]
    rw [this]
    rfl

theorem csync0Patch_flat (ps : List (CPatch α)) (vs : List (CVec α)) (hf : CFits ps vs) (r : Nat)
    (hr : r < ps.length) (ord : List Nat) :
    (csync0Patch ps vs r ord).sameShape (ps.getD r default).tmpl ∧
    (csync0Patch ps vs r ord).flat = sync0Patch (ps.map CPatch.flatten) (vs.map CVec.flat) r ord := by
  unfold csync0Patch sync0Patch
  rw [getD_map_flat, getD_map_flatten]
  apply foldl_flat ord
    (fun k tgt => match (ps.getD r default).nbrs[k]? with
      | some nb => cscatter nb.2 tgt ((csendBuf ps vs nb.1 r).getD []) 1 0
      | none => tgt)
    (fun k tgt =>
      let nb := (ps.getD r default).flatten.nbrs.getD k (0, [])
      scatterAxpy tgt nb.2 ((sendBuf (ps.map CPatch.flatten) (vs.map CVec.flat) nb.1 r).getD []) 1)
    (ps.getD r default).tmpl ?_ _ (hf.shape r hr)
  intro k _ t ht
  by_cases hk : k < (ps.getD r default).nbrs.length
  · have h1 : (ps.getD r default).nbrs[k]? = some (ps.getD r default).nbrs[k] := List.getElem?_eq_getElem hk
    have h2 : (ps.getD r default).flatten.nbrs.getD k (0, [])
        = ((ps.getD r default).nbrs[k].1, (ps.getD r default).nbrs[k].2.flatIdx (ps.getD r default).tmpl 0) := by
      show ((ps.getD r default).nbrs.map _).getD k (0, []) = _
      rw [List.getD_eq_getElem?_getD, List.getElem?_map, h1]; rfl
    simp only [h1, h2]
    refine ⟨sameShape_trans (cscatter_sameShape _ _ _ _ _) ht, ?_⟩
    rw [cscatter_flat _ _ (by rw [sameShape_wf _ ht]; exact hf.wf r hr _ (List.getElem_mem _)),
      sameShape_flatIdx _ ht, List.drop_zero, csendBuf_flat ps vs hf]
  · have h1 : (ps.getD r default).nbrs[k]? = none := List.getElem?_eq_none (Nat.not_lt.1 hk)
    have h2 : (ps.getD r default).flatten.nbrs.getD k (0, []) = (0, []) := by
      show ((ps.getD r default).nbrs.map _).getD k (0, []) = _
      rw [List.getD_eq_getElem?_getD, List.getElem?_map, h1]; rfl
    simp only [h1, h2]
    exact ⟨ht, by simp [scatterAxpy]⟩

theorem csync0Patch_perm (ps : List (CPatch α)) (vs : List (CVec α)) (hf : CFits ps vs) (r : Nat)
    (hr : r < ps.length) {o₁ o₂ : List Nat} (h : o₁.Perm o₂) :
    csync0Patch ps vs r o₁ = csync0Patch ps vs r o₂ := by
  have h1 := csync0Patch_flat ps vs hf r hr o₁
  have h2 := csync0Patch_flat ps vs hf r hr o₂
  apply sameShape_flat_ext (sameShape_trans h1.1 (sameShape_symm h2.1))
  rw [h1.2, h2.2]
  exact sync0Patch_perm _ _ r h

end FeatModel.C13L
