import FeatModel.Gen.CubatureH1
/-! C14: every generated table of shape h1 meets its obligation (kernel evaluation of the integer moment check) -/
namespace FeatModel.Cub

set_option maxRecDepth 100000 in
theorem tabH1 : Gen.tablesH1.all (tableObligation .h1) = true := by decide +kernel

end FeatModel.Cub
