import FeatModel.Model.FEDual
/-! kernel-checked duality for Lagrange-3 on the quadrilateral, the 8 edge orientations starting with 1 -/
namespace FeatModel.FE
set_option maxRecDepth 100000 in
theorem dualL3H2_1 : ((allOrients 3).all fun l => dualOk .L3 .H 2 (1 :: l)) = true := by decide +kernel
end FeatModel.FE
