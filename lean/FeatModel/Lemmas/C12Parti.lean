import FeatModel.Lemmas.C12Basic
/-! Helper lemmas for C12: partitions (each cell exactly once) and the Parti2Lvl decision logic. -/
namespace FeatModel.Parti
open FeatModel.Adj

theorem getD_le_sum : ∀ (l : List Nat) (i : Nat), l.getD i 0 ≤ l.sum
  | [], i => by simp
  | x :: xs, 0 => by simp
  | x :: xs, i + 1 => by
    have := getD_le_sum xs i
    simp only [List.getD_cons_succ, List.sum_cons]
    omega

theorem getD_add_getD_le_sum : ∀ (l : List Nat) (i j : Nat), i < j → l.getD i 0 + l.getD j 0 ≤ l.sum
  | [], i, j, _ => by simp
  | x :: xs, 0, j + 1, _ => by
    have := getD_le_sum xs j
    simp only [List.getD_cons_zero, List.getD_cons_succ, List.sum_cons]
    omega
  | x :: xs, i + 1, j + 1, h => by
    have := getD_add_getD_le_sum xs i j (by omega)
    simp only [List.getD_cons_succ, List.sum_cons]
    omega

theorem map_range_getD {β : Type} (f : List Nat → β) (l : List (List Nat)) :
    (List.range l.length).map (fun i => f (l.getD i [])) = l.map f := by
  apply List.ext_getElem
  · simp
  · intro i h1 h2
    simp at h1
    simp [List.getD, h1]

theorem getD_map_count (L : List (List Nat)) (c i : Nat) :
    (L.map (List.count c)).getD i 0 = (L.getD i []).count c := by
  simp only [List.getD, List.getElem?_map]
  cases L[i]? <;> simp

structure IsPart (p : Parti) : Prop where
  lt : ∀ r c, c ∈ p.row r → c < p.nImg
  once : ∀ c, c < p.nImg → ((List.range p.nDom).map (fun r => (p.row r).count c)).sum = 1

theorem isPart_of_isPartition (p : Parti) (h : isPartition p = true) : IsPart p := by
  simp only [isPartition, Bool.and_eq_true, List.all_eq_true, List.mem_range, beq_iff_eq] at h
  obtain ⟨hwf, hc⟩ := h
  refine ⟨?_, ?_⟩
  · intro r c hrc
    simp only [Graph.wf, List.all_eq_true, decide_eq_true_eq] at hwf
    have hr : r < p.adj.length := by
      by_cases hr : r < p.adj.length
      · exact hr
      · simp [Graph.row, List.getD, List.getElem?_eq_none (Nat.le_of_not_lt hr)] at hrc
    have : p.row r ∈ p.adj := by simp [Graph.row, List.getD, hr]
    exact hwf _ this c hrc
  · intro c hcl
    have := hc c hcl
    rw [List.count_flatten] at this
    rw [← this]
    simp only [Graph.nDom, Graph.row]
    exact congrArg List.sum (map_range_getD (List.count c) p.adj)

theorem IsPart.disjoint {p : Parti} (hp : IsPart p) (r s c : Nat) (hrs : r ≠ s)
    (hr : c ∈ p.row r) (hs : c ∈ p.row s) : False := by
  have hc := hp.lt r c hr
  have h1 := hp.once c hc
  simp only [Graph.nDom, Graph.row] at h1
  rw [map_range_getD (List.count c) p.adj] at h1
  have hr' : 1 ≤ (p.adj.map (List.count c)).getD r 0 := by
    rw [getD_map_count]; exact List.count_pos_iff.mpr hr
  have hs' : 1 ≤ (p.adj.map (List.count c)).getD s 0 := by
    rw [getD_map_count]; exact List.count_pos_iff.mpr hs
  rcases Nat.lt_or_gt_of_ne hrs with h | h
  · have := getD_add_getD_le_sum (p.adj.map (List.count c)) r s h
    omega
  · have := getD_add_getD_le_sum (p.adj.map (List.count c)) s r h
    omega

theorem IsPart.row_nodup {p : Parti} (hp : IsPart p) (r : Nat) : (p.row r).Nodup := by
  rw [List.nodup_iff_count]
  intro c
  by_cases hc : c ∈ p.row r
  · have hlt := hp.lt r c hc
    have h1 := hp.once c hlt
    simp only [Graph.nDom, Graph.row] at h1
    rw [map_range_getD (List.count c) p.adj] at h1
    have := getD_le_sum (p.adj.map (List.count c)) r
    rw [getD_map_count] at this
    simp only [Graph.row]
    omega
  · rw [List.count_eq_zero.mpr hc]; omega

/-! ### Parti2Lvl -/

theorem p2lLoop_spec (factor ranks : Nat) : ∀ fuel count power c' p',
    p2lLoop factor ranks fuel count power = some (c', p') →
    ∃ k, c' = count * factor ^ k ∧ p' = power + k ∧ ranks ≤ c' ∧ ∀ j, j < k → count * factor ^ j < ranks
  | 0, _, _, _, _, h => by simp [p2lLoop] at h
  | fuel + 1, count, power, c', p', h => by
    simp only [p2lLoop] at h
    by_cases hc : count < ranks
    · simp only [hc, if_true] at h
      obtain ⟨k, h1, h2, h3, h4⟩ := p2lLoop_spec factor ranks fuel _ _ _ _ h
      refine ⟨k + 1, ?_, by omega, h3, ?_⟩
      · rw [h1, Nat.pow_succ, Nat.mul_assoc, Nat.mul_comm factor]
      · intro j hj
        cases j with
        | zero => simpa using hc
        | succ j =>
          have := h4 j (by omega)
          rw [Nat.pow_succ, Nat.mul_comm (factor ^ j), ← Nat.mul_assoc]
          exact this
    · simp only [hc, if_false, Option.some.injEq, Prod.mk.injEq] at h
      obtain ⟨rfl, rfl⟩ := h
      exact ⟨0, by simp, by simp, Nat.le_of_not_lt hc, by intro j hj; omega⟩

theorem p2lLoop_terminates (factor ranks : Nat) (hf : 2 ≤ factor) : ∀ fuel count power,
    1 ≤ count → 1 ≤ fuel → ranks + 1 ≤ fuel + count → p2lLoop factor ranks fuel count power ≠ none
  | 0, count, power, _, h0, _ => by omega
  | fuel + 1, count, power, hc, _, h => by
    simp only [p2lLoop]
    by_cases hlt : count < ranks
    · simp only [hlt, if_true]
      have hmul : count + 1 ≤ count * factor := by
        calc count + 1 ≤ count + count := by omega
          _ = count * 2 := by omega
          _ ≤ count * factor := Nat.mul_le_mul_left _ hf
      exact p2lLoop_terminates factor ranks hf fuel _ _ (by omega) (by omega) (by omega)
    · simp [hlt]

theorem range_drop_take (E a e : Nat) (h : a + e ≤ E) :
    ((List.range E).drop a).take e = List.range' a e := by
  rw [List.range_eq_range', List.drop_range']
  apply List.ext_getElem
  · simp; omega
  · intro i h1 h2
    simp

theorem flatten_blocks (e : Nat) : ∀ R,
    ((List.range R).map (fun i => List.range' (e * i) e)).flatten = List.range' 0 (e * R)
  | 0 => by simp
  | R + 1 => by
    rw [List.range_succ, List.map_append, List.flatten_append, flatten_blocks e R]
    simp only [List.map_cons, List.map_nil, List.flatten_cons, List.flatten_nil, List.append_nil]
    have := @List.range'_append 0 (e * R) e 1
    simp only [Nat.zero_add, Nat.one_mul] at this
    rw [this, Nat.mul_succ]

theorem p2lGraph_adj (R lvl E : Nat) (hdvd : (E / R) * R = E) :
    (p2lGraph R ⟨lvl, E⟩).adj = (List.range R).map (fun i => List.range' ((E / R) * i) (E / R)) := by
  simp only [p2lGraph]
  apply List.map_congr_left
  intro i hi
  have hi' : i < R := List.mem_range.mp hi
  apply range_drop_take
  calc E / R * i + E / R = E / R * (i + 1) := by rw [Nat.mul_succ]
    _ ≤ E / R * R := Nat.mul_le_mul_left _ hi'
    _ = E := hdvd

theorem p2lGraph_flatten (R lvl E : Nat) (hdvd : (E / R) * R = E) :
    (p2lGraph R ⟨lvl, E⟩).adj.flatten = List.range E := by
  rw [p2lGraph_adj R lvl E hdvd, flatten_blocks, hdvd, List.range_eq_range']

theorem p2lGraph_isPartition (R lvl E : Nat) (hdvd : (E / R) * R = E) :
    isPartition (p2lGraph R ⟨lvl, E⟩) = true := by
  have hfl := p2lGraph_flatten R lvl E hdvd
  simp only [isPartition, Bool.and_eq_true, List.all_eq_true, List.mem_range, beq_iff_eq, Graph.wf,
    decide_eq_true_eq]
  refine ⟨?_, ?_⟩
  · intro l hl c hc
    have : c ∈ (p2lGraph R ⟨lvl, E⟩).adj.flatten := List.mem_flatten.mpr ⟨l, hl, hc⟩
    rw [hfl] at this
    simpa [p2lGraph] using this
  · intro c hc
    rw [hfl, List.nodup_range.count]
    have : c < E := by simpa [p2lGraph] using hc
    simp [this]

theorem p2lGraph_row_length (R lvl E : Nat) (hdvd : (E / R) * R = E) (r : Nat) (hr : r < R) :
    ((p2lGraph R ⟨lvl, E⟩).row r).length = E / R := by
  simp only [Graph.row, p2lGraph_adj R lvl E hdvd, List.getD, List.getElem?_map]
  simp [hr]

end FeatModel.Parti
