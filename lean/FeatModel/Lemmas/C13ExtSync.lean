/-
C13 extensions: the second `Global::Matrix::apply` overload, type-conversion identities of `sync_0` / `sync_1`,
norms, `extract_diag` / `lump_rows`, `Global::Vector` arithmetic.
-/
import FeatModel.Lemmas.C13Dot
open FeatModel.Dist

set_option linter.unusedSectionVars false

namespace FeatModel.C13L

variable {α : Type} [Field α]

/-! ### `sharedVals` of pointwise combinations -/

theorem sum_map_mul_left' {ι : Type} (l : List ι) (f : ι → α) (a : α) :
    (l.map fun x => a * f x).sum = a * (l.map f).sum := by
  induction l with
  | nil => simp
  | cons x l ih => simp [ih, mul_add]

theorem sum_map_mul_right' {ι : Type} (l : List ι) (f : ι → α) (a : α) :
    (l.map fun x => f x * a).sum = (l.map f).sum * a := by
  induction l with
  | nil => simp
  | cons x l ih => simp [ih, add_mul]

theorem mem_filter_gdof {d : Decomp} {s g j : Nat}
    (hj : j ∈ (List.range (d.lmap s).length).filter fun j => d.gdof s j == g) :
    j < (d.lmap s).length ∧ d.gdof s j = g := by
  rw [List.mem_filter] at hj
  exact ⟨List.mem_range.1 hj.1, by simpa using hj.2⟩

/-- `w = u + a * v` on the DOFs of patch `s` that map to `g` -/
theorem sharedVals_sum_lin (d : Decomp) (ws us vs : List (List α)) (a : α) (s g : Nat)
    (h : ∀ j, j < (d.lmap s).length → d.gdof s j = g →
      val (ws.getD s []) j = val (us.getD s []) j + a * val (vs.getD s []) j) :
    (d.sharedVals ws s g).sum = (d.sharedVals us s g).sum + a * (d.sharedVals vs s g).sum := by
  unfold Decomp.sharedVals
  rw [← sum_map_mul_left', ← List.sum_map_add]
  congr 1
  apply List.map_congr_left
  intro j hj
  obtain ⟨h1, h2⟩ := mem_filter_gdof hj
  exact h j h1 h2

/-- `w = v * c` on the DOFs of patch `s` that map to `g` -/
theorem sharedVals_sum_scale (d : Decomp) (ws vs : List (List α)) (c : α) (s g : Nat)
    (h : ∀ j, j < (d.lmap s).length → d.gdof s j = g → val (ws.getD s []) j = val (vs.getD s []) j * c) :
    (d.sharedVals ws s g).sum = (d.sharedVals vs s g).sum * c := by
  unfold Decomp.sharedVals
  rw [← sum_map_mul_right']
  congr 1
  apply List.map_congr_left
  intro j hj
  obtain ⟨h1, h2⟩ := mem_filter_gdof hj
  exact h j h1 h2

theorem sum_map_add_mul {ι : Type} (l : List ι) (f g : ι → α) (a : α) :
    (l.map fun s => f s + a * g s).sum = (l.map f).sum + a * (l.map g).sum := by
  rw [List.sum_map_add, sum_map_mul_left']

theorem getD_range_map {β : Type} (n : Nat) (F : Nat → β) (dflt : β) (r : Nat) (hr : r < n) :
    ((List.range n).map F).getD r dflt = F r := by
  simp [List.getD_eq_getElem?_getD, hr]

/-! ### `sync_0` returns a type-1 vector; lengths -/

theorem sync0Patch_length (ps : List Patch) (vs : List (List α)) (r : Nat) (ord : List Nat) :
    (sync0Patch ps vs r ord).length = (vs.getD r []).length := by
  rw [sync0Patch_eq, foldl_scatter_length]

theorem sync0_getD_length (ps : List Patch) (ords : List (List Nat)) (vs : List (List α)) (r : Nat)
    (hr : r < ps.length) : ((sync0 ps ords vs).getD r []).length = (vs.getD r []).length := by
  rw [sync0_getD _ _ _ _ hr, sync0Patch_length]

theorem sync0_result_type1 (d : Decomp) (h : d.WF) (vs : List (List α))
    (hv : ∀ r, r < d.np → (vs.getD r []).length = (d.patch r).n)
    (ords : List (List Nat)) (hord : ∀ r, r < d.np → (ords.getD r []).Perm (List.range (d.patch r).nbrs.length))
    (r s i j : Nat) (hr : r < d.np) (hs : s < d.np) (hi : i < (d.patch r).n) (hj : j < (d.patch s).n)
    (hg : d.gdof r i = d.gdof s j) :
    val ((sync0 d.patches ords vs).getD r []) i = val ((sync0 d.patches ords vs).getD s []) j := by
  rw [sync0_sum d h vs hv ords hord r hr i hi, sync0_sum d h vs hv ords hord s hs j hj, hg]

theorem sync1_sync0 [CharZero α] (d : Decomp) (h : d.WF) (vs : List (List α))
    (hv : ∀ r, r < d.np → (vs.getD r []).length = (d.patch r).n)
    (ords ords' : List (List Nat))
    (hord : ∀ r, r < d.np → (ords.getD r []).Perm (List.range (d.patch r).nbrs.length))
    (hord' : ∀ r, r < d.np → (ords'.getD r []).Perm (List.range (d.patch r).nbrs.length))
    (r : Nat) (hr : r < d.np) (i : Nat) (hi : i < (d.patch r).n) :
    val ((sync1 d.patches ords' (sync0 d.patches ords vs)).getD r []) i
      = val ((sync0 d.patches ords vs).getD r []) i := by
  apply sync1_common d h _ (fun s hs => by rw [sync0_getD_length _ _ _ _ hs]; exact hv s hs) ords' hord'
    _ r hr i hi
  intro r s i j hr hs hi hj hg
  exact sync0_result_type1 d h vs hv ords hord r s i j hr hs hi hj hg

/-- the vectors `sync_1` hands to `sync_0` -/
def from1to0All (ps : List Patch) (vs : List (List α)) : List (List α) :=
  (List.range ps.length).map fun r => from1to0 (ps.getD r default) (vs.getD r [])

theorem sync1_eq (ps : List Patch) (ords : List (List Nat)) (vs : List (List α)) :
    sync1 ps ords vs = sync0 ps ords (from1to0All ps vs) := rfl

theorem from1to0All_getD (d : Decomp) (vs : List (List α)) (s : Nat) (hs : s < d.np) :
    (from1to0All d.patches vs).getD s [] = from1to0 (d.patch s) (vs.getD s []) :=
  sync1_getD_arg d.patches vs s hs

/-- general input: `sync_1` returns the mean over the sharing patches -/
theorem sync1_mean (d : Decomp) (h : d.WF) (vs : List (List α))
    (hv : ∀ r, r < d.np → (vs.getD r []).length = (d.patch r).n)
    (ords : List (List Nat)) (hord : ∀ r, r < d.np → (ords.getD r []).Perm (List.range (d.patch r).nbrs.length))
    (r : Nat) (hr : r < d.np) (i : Nat) (hi : i < (d.patch r).n) :
    val ((sync1 d.patches ords vs).getD r []) i
      = ((List.range d.np).map fun s => (d.sharedVals vs s (d.gdof r i)).sum).sum
          / ((d.sharers (d.gdof r i)).length : α) := by
  rw [sync1_eq, sync0_sum d h _ (fun s hs => by rw [from1to0All_getD d vs s hs]; exact from1to0_length _ _ (hv s hs))
    ords hord r hr i hi, div_eq_mul_one_div, ← sum_map_mul_right']
  congr 1
  apply List.map_congr_left
  intro s hs
  have hs := List.mem_range.1 hs
  apply sharedVals_sum_scale
  intro j hj hg
  have hj' : j < (d.patch s).n := by rw [h.size s hs]; exact hj
  rw [from1to0All_getD d vs s hs, from1to0_val _ _ (hv s hs) j hj', freqs_val d h s hs j hj', hg]

/-- the sum over all patches of the `from_1_to_0` images of a type-1 vector gives the vector back -/
theorem sum_sharedVals_from1to0 [CharZero α] (d : Decomp) (h : d.WF) (ys : List (List α))
    (hyl : ∀ r, r < d.np → (ys.getD r []).length = (d.patch r).n)
    (h1 : ∀ r s i j, r < d.np → s < d.np → i < (d.patch r).n → j < (d.patch s).n →
      d.gdof r i = d.gdof s j → val (ys.getD r []) i = val (ys.getD s []) j)
    (r : Nat) (hr : r < d.np) (i : Nat) (hi : i < (d.patch r).n) :
    ((List.range d.np).map fun s => (d.sharedVals (from1to0All d.patches ys) s (d.gdof r i)).sum).sum
      = val (ys.getD r []) i := by
  let ords : List (List Nat) := (List.range d.np).map fun r => List.range (d.patch r).nbrs.length
  have hord : ∀ r, r < d.np → (ords.getD r []).Perm (List.range (d.patch r).nbrs.length) := by
    intro r hr
    rw [getD_range_map _ _ _ _ hr]
  rw [← sync1_common d h ys hyl ords hord h1 r hr i hi, sync1_eq,
    sync0_sum d h _ (fun s hs => by rw [from1to0All_getD d ys s hs]; exact from1to0_length _ _ (hyl s hs))
      ords hord r hr i hi]

/-! ### `Global::Matrix::apply(r, x, y, alpha)` -/

theorem matVec_length (rows : List (List (Nat × α))) (x : List α) : (matVec rows x).length = rows.length := by
  simp [matVec]

theorem zipWith_val (f : α → α → α) (x y : List α) (i : Nat) (hx : i < x.length) (hy : i < y.length) :
    val (List.zipWith f x y) i = f (val x i) (val y i) := by
  rw [val_eq_getElem _ _ (by simp; omega), val_eq_getElem _ _ hx, val_eq_getElem _ _ hy, List.getElem_zipWith]

/-- the local vectors handed to `sync_0` by `apply(r, x, y, alpha)` -/
def apply2Local (ps : List Patch) (mats : List (List (List (Nat × α)))) (xs ys : List (List α)) (alpha : α) :
    List (List α) :=
  (List.range ps.length).map fun r =>
    matVecAxpy (mats.getD r []) (xs.getD r []) (from1to0 (ps.getD r default) (ys.getD r [])) alpha

theorem gapply2_def (ps : List Patch) (ords : List (List Nat)) (mats : List (List (List (Nat × α))))
    (xs ys : List (List α)) (alpha : α) :
    gapply2 ps ords mats xs ys alpha = sync0 ps ords (apply2Local ps mats xs ys alpha) := rfl

theorem gapply2_eq [CharZero α] (d : Decomp) (h : d.WF)
    (mats : List (List (List (Nat × α)))) (xs ys : List (List α)) (alpha : α) (Y : Nat → α)
    (hm : ∀ r, r < d.np → (mats.getD r []).length = (d.patch r).n)
    (hyl : ∀ r, r < d.np → (ys.getD r []).length = (d.patch r).n)
    (hY : ∀ r, r < d.np → ∀ i, i < (d.patch r).n → val (ys.getD r []) i = Y (d.gdof r i))
    (ords : List (List Nat))
    (hord : ∀ r, r < d.np → (ords.getD r []).Perm (List.range (d.patch r).nbrs.length))
    (r : Nat) (hr : r < d.np) (i : Nat) (hi : i < (d.patch r).n) :
    val ((gapply2 d.patches ords mats xs ys alpha).getD r []) i
      = Y (d.gdof r i) + alpha * ((List.range d.np).map fun s => (d.sharedVals
          ((List.range d.np).map fun t => matVec (mats.getD t []) (xs.getD t [])) s (d.gdof r i)).sum).sum := by
  rw [gapply2_def]
  have hw : ∀ s, s < d.np → (apply2Local d.patches mats xs ys alpha).getD s []
      = matVecAxpy (mats.getD s []) (xs.getD s []) (from1to0 (d.patch s) (ys.getD s [])) alpha :=
    fun s hs => getD_range_map _ _ _ s hs
  have hwl : ∀ s, s < d.np →
      (matVecAxpy (mats.getD s []) (xs.getD s []) (from1to0 (d.patch s) (ys.getD s [])) alpha).length
        = (d.patch s).n := by
    intro s hs
    unfold matVecAxpy
    rw [List.length_zipWith, from1to0_length _ _ (hyl s hs), matVec_length, hm s hs, Nat.min_self]
  rw [sync0_sum d h _ (fun s hs => by rw [hw s hs]; exact hwl s hs) ords hord r hr i hi]
  have e : ∀ s ∈ List.range d.np, (d.sharedVals (apply2Local d.patches mats xs ys alpha) s (d.gdof r i)).sum
      = (d.sharedVals (from1to0All d.patches ys) s (d.gdof r i)).sum + alpha * (d.sharedVals
          ((List.range d.np).map fun t => matVec (mats.getD t []) (xs.getD t [])) s (d.gdof r i)).sum := by
    intro s hs
    have hs := List.mem_range.1 hs
    apply sharedVals_sum_lin
    intro j hj _
    have hj' : j < (d.patch s).n := by rw [h.size s hs]; exact hj
    rw [hw s hs, from1to0All_getD d ys s hs, getD_range_map _ _ _ s hs]
    unfold matVecAxpy
    rw [zipWith_val _ _ _ _ (by rw [from1to0_length _ _ (hyl s hs)]; exact hj')
      (by rw [matVec_length, hm s hs]; exact hj')]
  rw [List.map_congr_left e, sum_map_add_mul,
    sum_sharedVals_from1to0 d h ys hyl
      (fun r s i j hr hs hi hj hg => by rw [hY r hr i hi, hY s hs j hj, hg]) r hr i hi, hY r hr i hi]

/-! ### norms and reductions -/

theorem allSum_eq (l : List α) : allSum l = l.sum := by
  unfold allSum; rw [foldl_add_eq_sum, zero_add]

theorem gateNorm2_eq (sqrt : α → α) (l : List α) : gateNorm2 sqrt l = sqrt ((l.map fun x => x * x).sum) := by
  unfold gateNorm2; rw [allSum_eq]

/-! ### `extract_diag` / `lump_rows` -/

theorem matDiag_length (rows : List (List (Nat × α))) : (matDiag rows).length = rows.length := by
  simp [matDiag]

theorem matLump_length (rows : List (List (Nat × α))) : (matLump rows).length = rows.length := by
  simp [matLump]

/-! ### `Global::Vector` arithmetic -/

theorem vops_val (a b : α) (y x : List α) (i : Nat) (hy : i < y.length) (hx : i < x.length) :
    val (vScale (vAxpy y x a) b) i = b * (val y i + a * val x i) := by
  unfold vScale vAxpy
  rw [val_map _ _ _ (by simp; omega), zipWith_val _ _ _ _ hy hx]

theorem vopsLocal_getD (a b : α) (ys xs : List (List α)) (r : Nat) (hy : r < ys.length) (hx : r < xs.length) :
    (vopsLocal a b ys xs).getD r [] = vScale (vAxpy (ys.getD r []) (xs.getD r []) a) b := by
  unfold vopsLocal
  simp [List.getD_eq_getElem?_getD, hy, hx]

theorem vopsLocal_val (a b : α) (ys xs : List (List α)) (r : Nat) (hy : r < ys.length) (hx : r < xs.length)
    (i : Nat) (hiy : i < (ys.getD r []).length) (hix : i < (xs.getD r []).length) :
    val ((vopsLocal a b ys xs).getD r []) i = b * (val (ys.getD r []) i + a * val (xs.getD r []) i) := by
  rw [vopsLocal_getD a b ys xs r hy hx, vops_val a b _ _ i hiy hix]

end FeatModel.C13L
