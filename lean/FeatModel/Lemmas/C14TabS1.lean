import FeatModel.Gen.CubatureS1
/-! C14: every generated table of shape s1 meets its obligation (kernel evaluation of the integer moment check) -/
namespace FeatModel.Cub

set_option maxRecDepth 100000 in
theorem tabS1 : Gen.tablesS1.all (tableObligation .s1) = true := by decide +kernel

end FeatModel.Cub
