import FeatModel.Model.FE
import Mathlib.Tactic.Ring
import Mathlib.Tactic.FieldSimp
import Mathlib.Tactic.LinearCombination
import Mathlib.Algebra.Order.Field.Rat
/-! First-order chain rule of the model of `ParametricEvaluator`: `Jᵀ · grad = ĝrad` whenever `det J ≠ 0`
    (all cells, affine or not, pointwise), from the correctness of the cofactor inverse. -/
namespace FeatModel.FE

/-- the physical gradient computed by the model from the reference gradient `rg` and the inverse Jacobian -/
def physGrad (d : Nat) (Ji : List (List Rat)) (rg : Nat → Rat) : List Rat :=
  (List.range d).map fun a => sumR ((List.range d).map fun k => rg k * mat Ji k a)

theorem physGrad_1 (Ji : List (List Rat)) (rg : Nat → Rat) : physGrad 1 Ji rg = [rg 0 * mat Ji 0 0] := by
  simp [physGrad, sumR, List.range_succ]

theorem physGrad_2 (Ji : List (List Rat)) (rg : Nat → Rat) :
    physGrad 2 Ji rg = [rg 0 * mat Ji 0 0 + rg 1 * mat Ji 1 0, rg 0 * mat Ji 0 1 + rg 1 * mat Ji 1 1] := by
  simp [physGrad, sumR, List.range_succ]

theorem physGrad_3 (Ji : List (List Rat)) (rg : Nat → Rat) :
    physGrad 3 Ji rg = [rg 0 * mat Ji 0 0 + rg 1 * mat Ji 1 0 + rg 2 * mat Ji 2 0,
      rg 0 * mat Ji 0 1 + rg 1 * mat Ji 1 1 + rg 2 * mat Ji 2 1,
      rg 0 * mat Ji 0 2 + rg 1 * mat Ji 1 2 + rg 2 * mat Ji 2 2] := by
  simp [physGrad, sumR, List.range_succ]

theorem inv1_entries (M : List (List Rat)) : mat (inv 1 M) 0 0 = 1 / mat M 0 0 := rfl

theorem inv2_entries (M : List (List Rat)) :
    mat (inv 2 M) 0 0 = mat M 1 1 / det 2 M ∧ mat (inv 2 M) 0 1 = -(mat M 0 1) / det 2 M ∧
    mat (inv 2 M) 1 0 = -(mat M 1 0) / det 2 M ∧ mat (inv 2 M) 1 1 = mat M 0 0 / det 2 M :=
  ⟨rfl, rfl, rfl, rfl⟩

theorem jacT_grad_1 (M : List (List Rat)) (rg : Nat → Rat) (hdet : det 1 M ≠ 0) :
    mat M 0 0 * (physGrad 1 (inv 1 M) rg).getD 0 0 = rg 0 := by
  have hd : mat M 0 0 ≠ 0 := hdet
  rw [physGrad_1, inv1_entries]
  simp only [List.getD_cons_zero]
  field_simp

theorem jacT_grad_2 (M : List (List Rat)) (rg : Nat → Rat) (hdet : det 2 M ≠ 0) (k' : Nat) (hk : k' < 2) :
    mat M 0 k' * (physGrad 2 (inv 2 M) rg).getD 0 0 + mat M 1 k' * (physGrad 2 (inv 2 M) rg).getD 1 0 = rg k' := by
  obtain ⟨e00, e01, e10, e11⟩ := inv2_entries M
  rw [physGrad_2, e00, e01, e10, e11]
  simp only [List.getD_cons_zero, List.getD_cons_succ]
  have hd : det 2 M = mat M 0 0 * mat M 1 1 - mat M 0 1 * mat M 1 0 := rfl
  generalize det 2 M = D at *
  have hk2 : k' = 0 ∨ k' = 1 := by omega
  rcases hk2 with rfl | rfl
  · field_simp; rw [hd]; ring
  · field_simp; rw [hd]; ring

theorem inv3_entries (M : List (List Rat)) :
    mat (inv 3 M) 0 0 = (mat M 1 1 * mat M 2 2 - mat M 1 2 * mat M 2 1) / det 3 M ∧
    mat (inv 3 M) 0 1 = -(mat M 0 1 * mat M 2 2 - mat M 0 2 * mat M 2 1) / det 3 M ∧
    mat (inv 3 M) 0 2 = (mat M 0 1 * mat M 1 2 - mat M 0 2 * mat M 1 1) / det 3 M ∧
    mat (inv 3 M) 1 0 = -(mat M 1 0 * mat M 2 2 - mat M 1 2 * mat M 2 0) / det 3 M ∧
    mat (inv 3 M) 1 1 = (mat M 0 0 * mat M 2 2 - mat M 0 2 * mat M 2 0) / det 3 M ∧
    mat (inv 3 M) 1 2 = -(mat M 0 0 * mat M 1 2 - mat M 0 2 * mat M 1 0) / det 3 M ∧
    mat (inv 3 M) 2 0 = (mat M 1 0 * mat M 2 1 - mat M 1 1 * mat M 2 0) / det 3 M ∧
    mat (inv 3 M) 2 1 = -(mat M 0 0 * mat M 2 1 - mat M 0 1 * mat M 2 0) / det 3 M ∧
    mat (inv 3 M) 2 2 = (mat M 0 0 * mat M 1 1 - mat M 0 1 * mat M 1 0) / det 3 M :=
  ⟨rfl, rfl, rfl, rfl, rfl, rfl, rfl, rfl, rfl⟩

theorem jacT_grad_3 (M : List (List Rat)) (rg : Nat → Rat) (hdet : det 3 M ≠ 0) (k' : Nat) (hk : k' < 3) :
    mat M 0 k' * (physGrad 3 (inv 3 M) rg).getD 0 0 + mat M 1 k' * (physGrad 3 (inv 3 M) rg).getD 1 0
      + mat M 2 k' * (physGrad 3 (inv 3 M) rg).getD 2 0 = rg k' := by
  obtain ⟨e00, e01, e02, e10, e11, e12, e20, e21, e22⟩ := inv3_entries M
  rw [physGrad_3, e00, e01, e02, e10, e11, e12, e20, e21, e22]
  simp only [List.getD_cons_zero, List.getD_cons_succ]
  have hd : det 3 M = mat M 0 0 * (mat M 1 1 * mat M 2 2 - mat M 1 2 * mat M 2 1)
       - mat M 0 1 * (mat M 1 0 * mat M 2 2 - mat M 1 2 * mat M 2 0)
       + mat M 0 2 * (mat M 1 0 * mat M 2 1 - mat M 1 1 * mat M 2 0) := rfl
  generalize det 3 M = D at *
  have hk3 : k' = 0 ∨ k' = 1 ∨ k' = 2 := by omega
  rcases hk3 with rfl | rfl | rfl
  · field_simp; rw [hd]; ring
  · field_simp; rw [hd]; ring
  · field_simp; rw [hd]; ring

/-- `Σ_a J[a][k'] · g[a]` -/
def jacTApply (d : Nat) (M : List (List Rat)) (g : List Rat) (k' : Nat) : Rat :=
  sumR ((List.range d).map fun a => mat M a k' * g.getD a 0)

/-- **first-order chain rule**, pointwise and for every cell geometry: `Jᵀ · grad = ĝrad` -/
theorem jacT_physGrad (d : Nat) (hd : d = 1 ∨ d = 2 ∨ d = 3) (M : List (List Rat)) (rg : Nat → Rat)
    (hdet : det d M ≠ 0) (k' : Nat) (hk : k' < d) :
    jacTApply d M (physGrad d (inv d M) rg) k' = rg k' := by
  rcases hd with rfl | rfl | rfl
  · have : k' = 0 := by omega
    subst this
    have := jacT_grad_1 M rg hdet
    simpa [jacTApply, sumR, List.range_succ] using this
  · have := jacT_grad_2 M rg hdet k' hk
    simpa [jacTApply, sumR, List.range_succ] using this
  · have := jacT_grad_3 M rg hdet k' hk
    simpa [jacTApply, sumR, List.range_succ] using this

open FeatModel.Poly in
/-- the gradient returned by the model of the evaluator (`ev` op) for local basis function `i` -/
theorem evalCell_grad {f : Fam} {m : Mesh} {c : Nat} {x : List Rat} {tab : BasisTab} {ce : CellEval}
    (ht : tabOf f m.kind m.dim = some tab) (he : evalCell f m c x = some ce) (hg : tab.hasGrad = true)
    {i : Nat} (hi : i < tab.nloc) :
    (ce.phi.getD i { value := 0, grad := [], hess := [] }).grad
      = physGrad m.dim (inv m.dim (jacMat m.kind m.dim (m.entVerts m.dim c) x))
          (fun k => ((List.range m.dim).map fun k =>
            evalAt x (tab.grad ((slotPerm f m c).getD i i) k)).getD k 0) := by
  simp only [evalCell, ht] at he
  cases he
  simp only [List.getD_eq_getElem?_getD, List.getElem?_map, List.getElem?_range hi, Option.map_some,
    Option.getD_some, hg, if_true]
  rfl

open FeatModel.Poly in
/-- **chain rule tied to the `ev` output**: with `J = calc_jac_mat` (the derivative of `map_point`,
    `C15.jac_is_derivative`) and the gradient `g` returned for basis function `i`, `Σ_a J[a][k] g[a]` is the `k`-th
    reference derivative of the basis function – i.e. `g = J⁻ᵀ ĝrad φ̂`, the gradient of `φ̂ ∘ T⁻¹` -/
theorem chain_rule_ev {f : Fam} {m : Mesh} {c : Nat} {x : List Rat} {tab : BasisTab} {ce : CellEval}
    (hd : m.dim = 1 ∨ m.dim = 2 ∨ m.dim = 3)
    (ht : tabOf f m.kind m.dim = some tab) (he : evalCell f m c x = some ce) (hg : tab.hasGrad = true)
    (hdet : det m.dim (jacMat m.kind m.dim (m.entVerts m.dim c) x) ≠ 0)
    {i : Nat} (hi : i < tab.nloc) {k : Nat} (hk : k < m.dim) :
    jacTApply m.dim (jacMat m.kind m.dim (m.entVerts m.dim c) x)
        (ce.phi.getD i { value := 0, grad := [], hess := [] }).grad k
      = evalAt x (tab.grad ((slotPerm f m c).getD i i) k) := by
  rw [evalCell_grad ht he hg hi, jacT_physGrad m.dim hd _ _ hdet k hk]
  simp [List.getD_eq_getElem?_getD, List.getElem?_map, List.getElem?_range hk]

end FeatModel.FE
