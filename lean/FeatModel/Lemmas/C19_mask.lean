import FeatModel.Model.Adjacency
import FeatModel.Model.AdjKernels
import FeatModel.Lemmas.C19_walk
import FeatModel.Lemmas.C19_renders
/-! C19 lemmas, group `mask` (statements fixed by Props/C19.statements) -/
open FeatModel.Adj

namespace C19L.mask

open C19L.walk (dedup_snoc)

/-! ### the mask sweeps for an arbitrary element type -/

theorem getD_setIfInBounds {μ : Type} (d : μ) (m : Array μ) (v k : Nat) (b : μ) :
    (m.setIfInBounds v b).getD k d = if v = k ∧ v < m.size then b else m.getD k d := by
  simp only [Array.getD_eq_getD_getElem?, Array.getElem?_setIfInBounds]
  by_cases h : v = k
  · subst h
    by_cases h2 : v < m.size
    · simp [h2]
    · simp [h2]
  · simp [h]

theorem set_sweep {σ μ : Type} [DecidableEq μ] (off on : μ) (hne : off ≠ on) (f : σ → Nat → σ) (s : σ)
    (m : Array μ) (hm : ∀ k, m.getD k off = off) (ys : List Nat) (hr : ∀ v, v ∈ ys → v < m.size) :
    ∃ m' : Array μ,
      ys.reverse.foldl (fun (st : σ × Array μ) v =>
        if st.2.getD v off = off then (f st.1 v, st.2.setIfInBounds v on) else st) (s, m)
        = ((Graph.dedup ys.reverse).foldl f s, m') ∧ m'.size = m.size ∧
      ∀ k, m'.getD k off = if k ∈ ys then on else off := by
  induction ys with
  | nil => exact ⟨m, by simp [Graph.dedup], rfl, by simpa using hm⟩
  | cons y ys ih =>
    obtain ⟨m', h1, h2, h3⟩ := ih (fun v hv => hr v (List.mem_cons_of_mem _ hv))
    rw [List.reverse_cons, List.foldl_append, h1, dedup_snoc]
    by_cases hy : y ∈ ys
    · have e : ¬ m'.getD y off = off := by rw [h3]; simp [hy]; exact fun h => hne h.symm
      refine ⟨m', ?_, h2, ?_⟩
      · simp only [List.foldl_cons, List.foldl_nil, e, if_false, List.mem_reverse, hy, if_true,
          List.append_nil]
      · intro k
        rw [h3]
        by_cases hk : k = y
        · subst hk; simp [hy]
        · simp [hk]
    · have e : m'.getD y off = off := by rw [h3]; simp [hy]
      refine ⟨m'.setIfInBounds y on, ?_, ?_, ?_⟩
      · simp only [List.foldl_cons, List.foldl_nil, e, if_true, List.mem_reverse,
          hy, if_false, List.foldl_append]
      · simp [h2]
      · intro k
        rw [getD_setIfInBounds, h3]
        have hys : y < m'.size := by rw [h2]; exact hr y (List.mem_cons_self)
        by_cases hk : y = k
        · subst hk; simp [hys]
        · have hk' : ¬ k = y := fun h => hk h.symm
          simp [hk, hk']

theorem reset_sweep {μ : Type} (off : μ) (xs : List Nat) (m : Array μ) :
    (xs.foldl (fun (m : Array μ) v => m.setIfInBounds v off) m).size = m.size ∧
    ∀ k, (xs.foldl (fun (m : Array μ) v => m.setIfInBounds v off) m).getD k off
      = if k ∈ xs then off else m.getD k off := by
  induction xs generalizing m with
  | nil => simp
  | cons x xs ih =>
    obtain ⟨h1, h2⟩ := ih (m.setIfInBounds x off)
    rw [List.foldl_cons]
    refine ⟨by rw [h1]; simp, ?_⟩
    intro k
    rw [h2, getD_setIfInBounds]
    by_cases hk : k ∈ xs
    · simp [hk]
    · by_cases hx : x = k
      · subst hx
        by_cases hs : x < m.size
        · simp [hs]
        · simp [hs, hk, Array.getD]
      · have hx' : ¬ k = x := fun h => hx h.symm
        simp [hk, hx, hx']

theorem mask_ext {μ : Type} (off : μ) (m1 m2 : Array μ) (hs : m1.size = m2.size)
    (h : ∀ k, m1.getD k off = m2.getD k off) : m1 = m2 := by
  apply Array.ext hs
  intro i h1 h2
  have := h i
  simp only [Array.getD_eq_getD_getElem?] at this
  simpa [h1, h2] using this

theorem walkM_spec {σ μ : Type} [DecidableEq μ] (off on : μ) (hne : off ≠ on) (A : Adjactor) (hA : A.Lawful)
    (i : Nat) (f : σ → Nat → σ) (s : σ) (m : Array μ) (hm : ∀ k, m.getD k off = off)
    (hr : ∀ v, v ∈ A.images i → v < m.size) :
    Kern.walkM off on A i f (s, m) = ((Graph.dedup (A.images i)).foldl f s, m) := by
  simp only [Kern.walkM]
  rw [hA (σ × Array μ), hA (Array μ)]
  obtain ⟨m', h1, h2, h3⟩ := set_sweep off on hne f s m hm (A.images i).reverse
    (fun v hv => hr v (by simpa using hv))
  rw [List.reverse_reverse] at h1
  rw [h1]
  simp only
  congr 1
  obtain ⟨r1, r2⟩ := reset_sweep off (A.images i) m'
  apply mask_ext off
  · rw [r1, h2]
  · intro k
    rw [r2, h3, hm]
    by_cases hk : k ∈ A.images i <;> simp [hk]

theorem walk_is_walkM {σ : Type} (A : Adjactor) (i : Nat) (f : σ → Nat → σ) (st : σ × Kern.Mask) :
    Kern.walk A true i f st = Kern.walkM false true A i f st := by
  have e : (fun (st : σ × Kern.Mask) v =>
        if st.2.getD v false then st else (f st.1 v, st.2.setIfInBounds v true))
      = (fun (st : σ × Array Bool) v =>
        if st.2.getD v false = false then (f st.1 v, st.2.setIfInBounds v true) else st) := by
    funext st v
    cases h : st.2.getD v false <;> simp
  simp only [Kern.walk, Kern.walkM, if_true]
  rw [e]

/-! ### the tag scheme -/

theorem tag_sweep {σ : Type} (t : Nat) (f : σ → Nat → σ) (s : σ)
    (m : Array Nat) (hm : ∀ k, m.getD k 0 ≠ t) (ys : List Nat) (hr : ∀ v, v ∈ ys → v < m.size) :
    ∃ m' : Array Nat,
      ys.reverse.foldl (fun (st : σ × Array Nat) v =>
        if st.2.getD v 0 = t then st else (f st.1 v, st.2.setIfInBounds v t)) (s, m)
        = ((Graph.dedup ys.reverse).foldl f s, m') ∧ m'.size = m.size ∧
      ∀ k, m'.getD k 0 = t ↔ k ∈ ys := by
  induction ys with
  | nil => exact ⟨m, by simp [Graph.dedup], rfl, by simpa using hm⟩
  | cons y ys ih =>
    obtain ⟨m', h1, h2, h3⟩ := ih (fun v hv => hr v (List.mem_cons_of_mem _ hv))
    rw [List.reverse_cons, List.foldl_append, h1, dedup_snoc]
    by_cases hy : y ∈ ys
    · have e : m'.getD y 0 = t := (h3 y).2 hy
      refine ⟨m', ?_, h2, ?_⟩
      · simp only [List.foldl_cons, List.foldl_nil, e, if_true, List.mem_reverse, hy, List.append_nil]
      · intro k
        rw [h3]
        by_cases hk : k = y
        · subst hk; simp [hy]
        · simp [hk]
    · have e : ¬ m'.getD y 0 = t := fun h => hy ((h3 y).1 h)
      refine ⟨m'.setIfInBounds y t, ?_, ?_, ?_⟩
      · simp only [List.foldl_cons, List.foldl_nil, e, if_false, List.mem_reverse,
          hy, List.foldl_append]
      · simp [h2]
      · intro k
        rw [getD_setIfInBounds]
        have hys : y < m'.size := by rw [h2]; exact hr y (List.mem_cons_self)
        by_cases hk : y = k
        · subst hk; simp [hys]
        · have hk' : ¬ k = y := fun h => hk h.symm
          simp only [hk, false_and, if_false]
          rw [h3]; simp [hk']

theorem walkTag_narrow_fails (w i v : Nat) (h : 2 ^ w ≤ i + 1) (m : Array Nat) (hv : v < m.size)
    (hm : m.getD v 0 ≠ i + 1) :
    (Kern.walkTag w (Adjactor.ofGraph ⟨m.size, List.replicate i [] ++ [[v, v]]⟩) i
      (fun (l : List Nat) k => l ++ [k]) ([], m)).1 = [v, v] ∧
    Graph.dedup [v, v] = [v] := by
  refine ⟨?_, by simp [Graph.dedup]⟩
  have hrow : (Graph.mk m.size (List.replicate i [] ++ [[v, v]])).row i = [v, v] := by
    simp [Graph.row, List.getD_eq_getElem?_getD]
  have hlt : (i + 1) % 2 ^ w < 2 ^ w := Nat.mod_lt _ (Nat.two_pow_pos w)
  have hne : ¬ (i + 1) % 2 ^ w = i + 1 := by omega
  simp only [Kern.walkTag, Adjactor.ofGraph, hrow, List.foldl_cons, List.foldl_nil, hm, if_false]
  have e : (m.setIfInBounds v ((i + 1) % 2 ^ w)).getD v 0 = (i + 1) % 2 ^ w := by
    rw [getD_setIfInBounds]; simp [hv]
  simp [e, hne]

theorem walkTag_wide_ok {σ : Type} (w : Nat) (A : Adjactor) (hA : A.Lawful) (i : Nat) (hw : i + 1 < 2 ^ w)
    (f : σ → Nat → σ) (s : σ) (m : Array Nat) (hm : ∀ k, m.getD k 0 ≠ i + 1)
    (hr : ∀ v, v ∈ A.images i → v < m.size) :
    (Kern.walkTag w A i f (s, m)).1 = (Graph.dedup (A.images i)).foldl f s := by
  simp only [Kern.walkTag, Nat.mod_eq_of_lt hw]
  rw [hA (σ × Array Nat)]
  obtain ⟨m', h1, _, _⟩ := tag_sweep (i + 1) f s m hm (A.images i).reverse
    (fun v hv => hr v (by simpa using hv))
  rw [List.reverse_reverse] at h1
  rw [h1]

end C19L.mask
