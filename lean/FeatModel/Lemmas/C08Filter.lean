import FeatModel.Lemmas.C08History
/-! C08: the filter clause — every kind applies its filter LAST and exactly once. -/
namespace FeatModel.Solver
open FeatModel.LA

variable {α : Type} [Zero α] [One α] [Add α] [Sub α] [Mul α] [Div α] [Neg α] [OfNat α 777]

theorem filterCor_nil (v : Array α) : filterCor ([] : List Nat) v = v := rfl

/-- for every kind except the polynomial one (which also filters inside its loop), the result of `apply` is the
    unit filter applied to the result of the same object WITHOUT filter entries -/
theorem applyCore_filter_last (tiny : α → Bool) (c : Cfg α) (A : Csr α) (st : PState α) (x : Array α)
    (hp : ∀ m, c.kind ≠ .poly m) :
    applyCore tiny c A st x = (applyCore tiny { c with fidx := [] } A st x).map (filterCor c.fidx) := by
  cases hk : c.kind
  case poly m => exact absurd hk (hp m)
  case matrix =>
    simp only [applyCore, hk, matrixApply]
    split
    · rfl
    · cases A.apply tiny x (Array.replicate A.rows 0) false <;> rfl
  case ilu p =>
    simp only [applyCore, hk]
    cases st.iluS <;> rfl
  all_goals
    simp only [applyCore, hk, jacobiApply, sorApply, ssorApply, scaleApply, diagonalApply]
    first
      | rfl
      | (split <;> rfl)

end FeatModel.Solver
