import FeatModel.Model.Xml
/-!
C11 — lemmas about the text layer (`C11Text.lean`) and `Xml::Scanner::scan_markup` (`Xml.lean`):
range of the integer parsers, and round trips "rendered markup line ↦ scanned `Markup`".
Core Lean only.
-/
namespace FeatModel.C11

/-! ### (a) range of `readIndex` / `readInt` -/

theorem readIndex_lt {s : Str} {n : Nat} (h : readIndex s = some n) : n < 2 ^ 64 := by
  unfold readIndex at h
  simp only at h
  split at h
  · exact absurd h (by simp)
  · split at h
    · exact absurd h (by simp)
    · split at h
      · exact absurd h (by simp)
      · split at h
        · exact absurd h (by simp)
        · injection h with h; omega

theorem readInt_range {s : Str} {z : Int} (h : readInt s = some z) :
    -(2 ^ 31 : Int) ≤ z ∧ z < 2 ^ 31 := by
  unfold readInt at h
  simp only at h
  split at h
  · exact absurd h (by simp)
  · split at h
    · exact absurd h (by simp)
    · split at h
      · split at h
        · exact absurd h (by simp)
        · injection h with h; omega
      · split at h
        · exact absurd h (by simp)
        · injection h with h; omega

/-! ### characters -/

theorem isAlnum_bounds {c : Char} (h : isAlnum c = true) :
    (48 ≤ c.toNat ∧ c.toNat ≤ 57) ∨ (65 ≤ c.toNat ∧ c.toNat ≤ 90) ∨ (97 ≤ c.toNat ∧ c.toNat ≤ 122) := by
  simp only [isAlnum, isAlpha, isDigit, Bool.or_eq_true, Bool.and_eq_true, decide_eq_true_eq,
    Char.le_def, UInt32.le_iff_toNat_le] at h
  simp only [Char.toNat]
  have e1 : ('a' : Char).val.toNat = 97 := rfl
  have e2 : ('z' : Char).val.toNat = 122 := rfl
  have e3 : ('A' : Char).val.toNat = 65 := rfl
  have e4 : ('Z' : Char).val.toNat = 90 := rfl
  have e5 : ('0' : Char).val.toNat = 48 := rfl
  have e6 : ('9' : Char).val.toNat = 57 := rfl
  omega

theorem xml_isWs_toNat {c : Char} (h : isWs c = true) : c.toNat ≤ 32 := by
  simp only [isWs, Bool.or_eq_true, beq_iff_eq] at h
  rcases h with ((((((h|h)|h)|h)|h)|h)|h)|h
  all_goals first | (subst h; decide) | omega

theorem isAlnum_not_ws {c : Char} (h : isAlnum c = true) : isWs c = false := by
  cases hw : isWs c with
  | false => rfl
  | true => have := xml_isWs_toNat hw; have := isAlnum_bounds h; omega

theorem isAlnum_ne {c d : Char} (h : isAlnum c = true)
    (hd : d.toNat < 48 ∨ (57 < d.toNat ∧ d.toNat < 65) ∨ (90 < d.toNat ∧ d.toNat < 97) ∨ 122 < d.toNat) : c ≠ d := by
  intro e; subst e; have := isAlnum_bounds h; omega

/-! ### generic takeWhile / dropWhile -/

theorem takeWhile_append_stop {p : Char → Bool} {l r : Str} {a : Char} (hl : ∀ c ∈ l, p c = true)
    (ha : p a = false) : (l ++ a :: r).takeWhile p = l := by
  induction l with
  | nil => simp [ha]
  | cons x xs ih =>
    have hx := hl x (by simp)
    simp only [List.cons_append, List.takeWhile_cons, hx, if_true]
    rw [ih (fun c hc => hl c (by simp [hc]))]

theorem dropWhile_append_stop {p : Char → Bool} {l r : Str} {a : Char} (hl : ∀ c ∈ l, p c = true)
    (ha : p a = false) : (l ++ a :: r).dropWhile p = a :: r := by
  induction l with
  | nil => simp [ha]
  | cons x xs ih =>
    have hx := hl x (by simp)
    simp only [List.cons_append, List.dropWhile_cons, hx, if_true]
    rw [ih (fun c hc => hl c (by simp [hc]))]

theorem takeWhile_all {p : Char → Bool} {l : Str} (hl : ∀ c ∈ l, p c = true) : l.takeWhile p = l := by
  induction l with
  | nil => rfl
  | cons x xs ih =>
    have hx := hl x (by simp)
    simp only [List.takeWhile_cons, hx, if_true]
    rw [ih (fun c hc => hl c (by simp [hc]))]

theorem dropWhile_all {p : Char → Bool} {l : Str} (hl : ∀ c ∈ l, p c = true) : l.dropWhile p = [] := by
  induction l with
  | nil => rfl
  | cons x xs ih =>
    have hx := hl x (by simp)
    simp only [List.dropWhile_cons, hx, if_true]
    exact ih (fun c hc => hl c (by simp [hc]))

/-! ### trim -/

theorem trimFront_cons {a : Char} {t : Str} (h : isWs a = false) : trimFront (a :: t) = a :: t := by
  simp [trimFront, List.dropWhile, h]

theorem trimBack_concat {b : Char} {t : Str} (h : isWs b = false) : trimBack (t ++ [b]) = t ++ [b] := by
  simp [trimBack, h]

theorem trimBack_of_getLast? {s : Str} {b : Char} (hl : s.getLast? = some b) (h : isWs b = false) :
    trimBack s = s := by
  obtain ⟨t, rfl⟩ : ∃ t, s = t ++ [b] := by
    rw [List.getLast?_eq_some_iff] at hl; exact hl
  exact trimBack_concat h

theorem trim_nil : trim [] = [] := rfl

/-- a line that neither starts nor ends with white space is its own trim -/
theorem xml_trim_eq_self {a b : Char} {t : Str} (ha : isWs a = false) (hl : (a :: t).getLast? = some b)
    (hb : isWs b = false) : trim (a :: t) = a :: t := by
  rw [trim, trimFront_cons ha, trimBack_of_getLast? hl hb]

theorem trim_eq_self_of_all {s : Str} (h : ∀ c ∈ s, isWs c = false) : trim s = s := by
  cases s with
  | nil => rfl
  | cons a t =>
    have ha := h a (by simp)
    cases hl : (a :: t).getLast? with
    | none => simp at hl
    | some b =>
      exact xml_trim_eq_self ha hl (h b (List.mem_of_getLast? hl))

/-! ### valid names -/

theorem validName_all {nm : Str} (h : validName nm = true) : ∀ c ∈ nm, isAlnum c = true := by
  cases nm with
  | nil => simp [validName] at h
  | cons a t =>
    simp only [validName, Bool.and_eq_true, List.all_eq_true] at h
    intro c hc
    rcases List.mem_cons.1 hc with rfl | hc
    · simp [isAlnum, h.1]
    · exact h.2 c hc

theorem validName_ne_nil {nm : Str} (h : validName nm = true) : nm ≠ [] := by
  rintro rfl; simp [validName] at h

theorem validName_not_ws {nm : Str} (h : validName nm = true) : ∀ c ∈ nm, isWs c = false :=
  fun c hc => isAlnum_not_ws (validName_all h c hc)

theorem trim_validName {nm : Str} (h : validName nm = true) : trim nm = nm :=
  trim_eq_self_of_all (validName_not_ws h)

theorem takeWhile_notWs_validName {nm : Str} (h : validName nm = true) :
    nm.takeWhile (fun c => !isWs c) = nm := by
  apply takeWhile_all
  intro c hc; simp [validName_not_ws h c hc]

theorem dropWhile_notWs_validName {nm : Str} (h : validName nm = true) :
    nm.dropWhile (fun c => !isWs c) = [] := by
  apply dropWhile_all
  intro c hc; simp [validName_not_ws h c hc]

theorem validName_not_mem {nm : Str} (h : validName nm = true) {d : Char}
    (hd : d.toNat < 48 ∨ (57 < d.toNat ∧ d.toNat < 65) ∨ (90 < d.toNat ∧ d.toNat < 97) ∨ 122 < d.toNat) :
    d ∉ nm := fun hm => isAlnum_ne (validName_all h d hm) hd rfl

theorem validName_getLast?_ne {nm : Str} (h : validName nm = true) {d : Char}
    (hd : d.toNat < 48 ∨ (57 < d.toNat ∧ d.toNat < 65) ∨ (90 < d.toNat ∧ d.toNat < 97) ∨ 122 < d.toNat) :
    nm.getLast? ≠ some d := fun hl => validName_not_mem h hd (List.mem_of_getLast? hl)

/-! ### `scan_markup` on a bracketed line -/

theorem startsWith_lt (t : Str) : startsWith ('<' :: t) ['<'] = true := by
  simp [startsWith, List.isPrefixOf]

theorem endsWith_gt (t : Str) : endsWith ('<' :: (t ++ ['>'])) ['>'] = true := by
  simp [endsWith, List.isPrefixOf]

theorem inner_bracket (t : Str) : (('<' :: (t ++ ['>'])).drop 1).dropLast = t := by
  simp

/-- the outcome of the part of `scan_markup` behind the name check -/
def markupTail (name rest : Str) (termin closed : Bool) : Except Unit (Option Markup) :=
  if termin then
    (if rest.isEmpty then .ok (some { name := name, attrs := [], closed := false, termin := true })
     else .error ())
  else
    match scanAttrs (rest.length + 1) rest [] with
    | none => .error ()
    | some attrs => .ok (some { name := name, attrs := attrs, closed := closed, termin := false })

/-- `scan_markup` on `<inner>`, step by step -/
theorem scanMarkup_bracket (inner sdata body name rest : Str) (termin closed : Bool)
    (h1 : trim inner = sdata) (h2 : sdata ≠ []) (h3 : '<' ∉ sdata) (h4 : '>' ∉ sdata)
    (ht : (sdata.head? == some '/') = termin) (hc : (sdata.getLast? == some '/') = closed)
    (htc : (termin && closed) = false)
    (hb : trim (if closed then (if termin then sdata.drop 1 else sdata).dropLast
                else (if termin then sdata.drop 1 else sdata)) = body)
    (hbne : body ≠ [])
    (hn : body.takeWhile (fun c => !isWs c) = name)
    (hr : trim (body.dropWhile (fun c => !isWs c)) = rest)
    (hv : validName name = true) :
    scanMarkup ('<' :: (inner ++ ['>'])) = markupTail name rest termin closed := by
  unfold scanMarkup
  have hlen : ¬ ('<' :: (inner ++ ['>'])).length < 2 := by simp
  have h2' : sdata.isEmpty = false := by cases sdata <;> simp_all
  have hb' : body.isEmpty = false := by cases body <;> simp_all
  have h3' : sdata.contains '<' = false := by simpa using h3
  have h4' : sdata.contains '>' = false := by simpa using h4
  simp only [startsWith_lt, endsWith_gt, inner_bracket, h1, hlen, h2', h3', h4', ht, hc, htc, hb, hb', hn, hr, hv,
    Bool.not_true, Bool.and_self, Bool.or_self, Bool.false_eq_true, if_false]
  rfl

/-! ### (b) terminator, (c) open markup without attributes -/

theorem notMem_cons_of {d a : Char} {t : Str} (h1 : d ≠ a) (h2 : d ∉ t) : d ∉ a :: t := by
  simp [h1, h2]

theorem scanMarkup_terminator {nm : Str} (h : validName nm = true) :
    scanMarkup ('<' :: '/' :: nm ++ ['>']) =
      .ok (some { name := nm, attrs := [], closed := false, termin := true }) := by
  have hws : ∀ c ∈ '/' :: nm, isWs c = false := by
    intro c hc
    rcases List.mem_cons.1 hc with rfl | hc
    · decide
    · exact validName_not_ws h c hc
  have hlast : (('/' :: nm).getLast? == some '/') = false := by
    cases nm with
    | nil => simp [validName] at h
    | cons a t =>
      rw [List.getLast?_cons_cons]
      have := validName_getLast?_ne h (d := '/') (by decide)
      simp [this]
  have := scanMarkup_bracket ('/' :: nm) ('/' :: nm) nm nm [] true false
    (trim_eq_self_of_all hws) (by simp)
    (notMem_cons_of (by decide) (validName_not_mem h (by decide)))
    (notMem_cons_of (by decide) (validName_not_mem h (by decide)))
    (by simp) hlast rfl (by simpa using trim_validName h) (validName_ne_nil h)
    (takeWhile_notWs_validName h) (by rw [dropWhile_notWs_validName h]; rfl) h
  simpa [markupTail] using this

theorem scanMarkup_open {nm : Str} (h : validName nm = true) :
    scanMarkup ('<' :: nm ++ ['>']) =
      .ok (some { name := nm, attrs := [], closed := false, termin := false }) := by
  have hhead : (nm.head? == some '/') = false := by
    cases nm with
    | nil => simp [validName] at h
    | cons a t =>
      have : a ≠ '/' := isAlnum_ne (validName_all h a (by simp)) (by decide)
      simp [this]
  have hlast : (nm.getLast? == some '/') = false := by
    have := validName_getLast?_ne h (d := '/') (by decide)
    simp [this]
  have := scanMarkup_bracket nm nm nm nm [] false false
    (trim_validName h) (validName_ne_nil h)
    (validName_not_mem h (by decide)) (validName_not_mem h (by decide))
    hhead hlast rfl (by simpa using trim_validName h) (validName_ne_nil h)
    (takeWhile_notWs_validName h) (by rw [dropWhile_notWs_validName h]; rfl) h
  simpa [markupTail, scanAttrs] using this

/-! ### (d) content lines -/

theorem scanMarkup_content {s : Str} (h1 : startsWith s ['<'] = false) (h2 : endsWith s ['>'] = false) :
    scanMarkup s = .ok none := by
  simp [scanMarkup, h1, h2]

theorem isPrefixOf_single (a : Char) (s : Str) : [a].isPrefixOf s = true ↔ s.head? = some a := by
  cases s with
  | nil => simp [List.isPrefixOf]
  | cons b t =>
    simp only [List.isPrefixOf, List.head?_cons, Option.some.injEq, Bool.and_true, beq_iff_eq]
    exact eq_comm

theorem startsWith_lt_iff (s : Str) : startsWith s ['<'] = true ↔ s.head? = some '<' :=
  isPrefixOf_single '<' s

theorem endsWith_gt_iff (s : Str) : endsWith s ['>'] = true ↔ s.getLast? = some '>' := by
  rw [List.getLast?_eq_head?_reverse]
  exact isPrefixOf_single '>' s.reverse

/-- a line that neither starts with `<` nor ends with `>` is passed through as content -/
theorem scanMarkup_content' {s : Str} (h1 : s.head? ≠ some '<') (h2 : s.getLast? ≠ some '>') :
    scanMarkup s = .ok none := by
  apply scanMarkup_content
  · rw [← Bool.not_eq_true, startsWith_lt_iff]; exact h1
  · rw [← Bool.not_eq_true, endsWith_gt_iff]; exact h2

/-- exactly one of the two brackets is a syntax error -/
theorem scanMarkup_half_bracket {s : Str} (h : startsWith s ['<'] ≠ endsWith s ['>']) :
    scanMarkup s = .error () := by
  unfold scanMarkup
  cases h1 : startsWith s ['<'] <;> cases h2 : endsWith s ['>'] <;> simp_all

/-! ### closed markup without attributes -/

theorem scanMarkup_closed {nm : Str} (h : validName nm = true) :
    scanMarkup ('<' :: nm ++ ['/', '>']) =
      .ok (some { name := nm, attrs := [], closed := true, termin := false }) := by
  have hne := validName_ne_nil h
  have hhead : ((nm ++ ['/']).head? == some '/') = false := by
    cases nm with
    | nil => simp [validName] at h
    | cons a t =>
      have : a ≠ '/' := isAlnum_ne (validName_all h a (by simp)) (by decide)
      simp [this]
  have htrim : trim (nm ++ ['/']) = nm ++ ['/'] := by
    apply trim_eq_self_of_all
    intro c hc
    rcases List.mem_append.1 hc with hc | hc
    · exact validName_not_ws h c hc
    · simp at hc; subst hc; decide
  have hnm : ∀ d : Char, d ≠ '/' → d ∉ nm → d ∉ nm ++ ['/'] := by
    intro d h1 h2; simp [h1, h2]
  have := scanMarkup_bracket (nm ++ ['/']) (nm ++ ['/']) nm nm [] false true
    htrim (by simp)
    (hnm _ (by decide) (validName_not_mem h (by decide)))
    (hnm _ (by decide) (validName_not_mem h (by decide)))
    hhead (by simp) rfl (by simpa using trim_validName h) hne
    (takeWhile_notWs_validName h) (by rw [dropWhile_notWs_validName h]; rfl) h
  have e : '<' :: nm ++ ['/', '>'] = '<' :: ((nm ++ ['/']) ++ ['>']) := by simp
  rw [e, this]
  simp [markupTail, scanAttrs]

/-! ### (e) one attribute -/

theorem splitAtChar_append {c : Char} {l r : Str} (h : c ∉ l) :
    splitAtChar c (l ++ c :: r) = some (l, r) := by
  induction l with
  | nil => simp [splitAtChar]
  | cons x xs ih =>
    have hx : (x == c) = false := by
      simp only [List.mem_cons, not_or] at h
      simpa using fun e => h.1 e.symm
    have := ih (fun hm => h (List.mem_cons_of_mem _ hm))
    simp [splitAtChar, hx, this]

theorem scanMarkup_one_attr {nm k v : Str} (hnm : validName nm = true) (hk : validName k = true)
    (hv : ∀ c ∈ v, c ≠ '"' ∧ c ≠ '<' ∧ c ≠ '>') (htv : trim v = v) :
    scanMarkup ('<' :: (nm ++ ' ' :: (k ++ '=' :: '"' :: (v ++ ['"', '>'])))) =
      .ok (some { name := nm, attrs := [(k, v)], closed := false, termin := false }) := by
  -- the pieces
  let val : Str := '"' :: (v ++ ['"'])
  let rest : Str := k ++ '=' :: val
  let inner : Str := nm ++ ' ' :: rest
  have e : '<' :: (nm ++ ' ' :: (k ++ '=' :: '"' :: (v ++ ['"', '>']))) = '<' :: (inner ++ ['>']) := by
    simp [inner, rest, val]
  obtain ⟨a, t, rfl⟩ : ∃ a t, nm = a :: t := by
    cases nm with
    | nil => simp [validName] at hnm
    | cons a t => exact ⟨a, t, rfl⟩
  obtain ⟨b, u, rfl⟩ : ∃ b u, k = b :: u := by
    cases k with
    | nil => simp [validName] at hk
    | cons b u => exact ⟨b, u, rfl⟩
  have ha : isWs a = false := validName_not_ws hnm a (by simp)
  have hb : isWs b = false := validName_not_ws hk b (by simp)
  have hq : isWs '"' = false := by decide
  have hlast_inner : inner.getLast? = some '"' := by
    simp [inner, rest, val, List.getLast?_eq_head?_reverse]
  have hlast_rest : rest.getLast? = some '"' := by simp [rest, val, List.getLast?_eq_head?_reverse]
  have hlast_val : val.getLast? = some '"' := by simp [val, List.getLast?_eq_head?_reverse]
  have htrim_inner : trim inner = inner := xml_trim_eq_self ha hlast_inner hq
  have htrim_rest : trim rest = rest := xml_trim_eq_self hb hlast_rest hq
  have htrim_val : trim val = val := xml_trim_eq_self hq hlast_val hq
  have hnotin : ∀ d : Char, d ∉ (a :: t) → d ≠ ' ' → d ∉ (b :: u) → d ≠ '=' → d ≠ '"' → d ∉ v → d ∉ inner := by
    intro d h1 h2 h3 h4 h5 h6
    simp only [List.mem_cons, not_or] at h1 h3
    simp [inner, rest, val, h1, h2, h3, h4, h5, h6]
  have hlt : '<' ∉ inner :=
    hnotin _ (validName_not_mem hnm (by decide)) (by decide) (validName_not_mem hk (by decide)) (by decide)
      (by decide) (fun hm => (hv _ hm).2.1 rfl)
  have hgt : '>' ∉ inner :=
    hnotin _ (validName_not_mem hnm (by decide)) (by decide) (validName_not_mem hk (by decide)) (by decide)
      (by decide) (fun hm => (hv _ hm).2.2 rfl)
  have hhead : (inner.head? == some '/') = false := by
    have : a ≠ '/' := isAlnum_ne (validName_all hnm a (by simp)) (by decide)
    simp [inner, this]
  have hclosed : (inner.getLast? == some '/') = false := by rw [hlast_inner]; decide
  have htake : inner.takeWhile (fun c => !isWs c) = a :: t :=
    takeWhile_append_stop (fun c hc => by simp [validName_not_ws hnm c hc]) (by decide)
  have hdrop : trim (inner.dropWhile (fun c => !isWs c)) = rest := by
    have : inner.dropWhile (fun c => !isWs c) = ' ' :: rest :=
      dropWhile_append_stop (fun c hc => by simp [validName_not_ws hnm c hc]) (by decide)
    rw [this]
    have : trim (' ' :: rest) = trim rest := by
      simp [trim, trimFront, List.dropWhile, isWs]
    rw [this, htrim_rest]
  have := scanMarkup_bracket inner inner inner (a :: t) rest false false
    htrim_inner (by simp [inner]) hlt hgt hhead hclosed rfl (by simpa using htrim_inner) (by simp [inner])
    htake hdrop hnm
  rw [e, this]
  -- the attribute loop
  have hsplit1 : splitAtChar '=' rest = some (b :: u, val) :=
    splitAtChar_append (validName_not_mem hk (by decide))
  have hsplit2 : splitAtChar '"' (v ++ ['"']) = some (v, []) :=
    splitAtChar_append (fun hm => (hv _ hm).1 rfl)
  have hrest_ne : rest.isEmpty = false := by simp [rest]
  have hlen : rest.length = (u.length + 1 + val.length) + 1 := by
    simp [rest]; omega
  have hval : val = '"' :: (v ++ ['"']) := rfl
  simp only [markupTail, Bool.false_eq_true, if_false]
  rw [hlen]
  simp only [scanAttrs, hrest_ne, Bool.false_eq_true, if_false, hsplit1, trim_validName hk, hk, Bool.not_true,
    htrim_val]
  rw [hval]
  simp only [hsplit2, trim_nil, htv, mapInsert]
  simp

/-- the same statement with the line written left-associated, as it is rendered -/
theorem scanMarkup_one_attr' {nm k v : Str} (hnm : validName nm = true) (hk : validName k = true)
    (hv : ∀ c ∈ v, c ≠ '"' ∧ c ≠ '<' ∧ c ≠ '>') (htv : trim v = v) :
    scanMarkup ('<' :: nm ++ ' ' :: k ++ '=' :: '"' :: v ++ ['"', '>']) =
      .ok (some { name := nm, attrs := [(k, v)], closed := false, termin := false }) := by
  have e : '<' :: nm ++ ' ' :: k ++ '=' :: '"' :: v ++ ['"', '>']
      = '<' :: (nm ++ ' ' :: (k ++ '=' :: '"' :: (v ++ ['"', '>']))) := by simp
  rw [e]; exact scanMarkup_one_attr hnm hk hv htv

end FeatModel.C11
