import FeatModel.Model.RefineCover
/-! C10 local refinement lemma, tetrahedron, pairwise covering family, configurations 35..41 (kernel evaluation). -/
namespace FeatModel.Refine
set_option maxRecDepth 100000

theorem cover_tetra_05 : ∀ j < 7, (refine (cell3c .simplex (j + 35))).consistent = true := by decide +kernel

end FeatModel.Refine
