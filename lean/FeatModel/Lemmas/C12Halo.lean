import FeatModel.Lemmas.C12Basic
/-! Helper lemmas for C12: target sets, neighbour ranks and halos of the extracted patches. -/
namespace FeatModel.Parti
open FeatModel.Adj

/-- the propositional content of `Mesh.consistent` -/
structure Mesh.Cons (m : Mesh) : Prop where
  dim_pos : 0 < m.dim
  bound : ∀ d, d < m.dim → ∀ c b, b ∈ m.sub m.dim d c → b < m.numOf d
  chain : ∀ d, d + 1 < m.dim → ∀ c b,
    (b ∈ m.sub m.dim d c ↔ ∃ e, e ∈ m.sub m.dim (d + 1) c ∧ b ∈ m.sub (d + 1) d e)

theorem sub_eq_nil_of_ge (m : Mesh) (hi lo c : Nat) (h : (m.idx hi lo).length ≤ c) : m.sub hi lo c = [] := by
  simp [Mesh.sub, List.getD, List.getElem?_eq_none h]

theorem mem_sub_lt (m : Mesh) (hi lo c b : Nat) (h : b ∈ m.sub hi lo c) : c < (m.idx hi lo).length := by
  by_cases hc : c < (m.idx hi lo).length
  · exact hc
  · rw [sub_eq_nil_of_ge m hi lo c (Nat.le_of_not_lt hc)] at h
    simp at h

theorem sub_mem_idx (m : Mesh) (hi lo c b : Nat) (h : b ∈ m.sub hi lo c) : m.sub hi lo c ∈ m.idx hi lo := by
  have hc := mem_sub_lt m hi lo c b h
  simp [Mesh.sub, List.getD, hc]

theorem cons_of_consistent (m : Mesh) (h : m.consistent = true) : m.Cons := by
  unfold Mesh.consistent at h
  simp only [Bool.and_eq_true, decide_eq_true_eq, List.all_eq_true, List.mem_range, beq_iff_eq,
    Bool.or_eq_true, Bool.not_eq_true', decide_eq_false_iff_not, List.any_eq_true, List.contains_iff_mem] at h
  obtain ⟨hpos, hall⟩ := h
  refine ⟨hpos, ?_, ?_⟩
  · intro d hd c b hb
    obtain ⟨⟨_, hb2⟩, _⟩ := hall d hd
    exact hb2 _ (sub_mem_idx m _ _ c b hb) b hb
  · intro d hd c b
    have hd' : d < m.dim := by omega
    obtain ⟨⟨hlen, _⟩, hch⟩ := hall d hd'
    obtain ⟨⟨hlen1, _⟩, _⟩ := hall (d + 1) hd
    rcases hch with hch | hch
    · exact absurd hd hch
    · by_cases hc : c < m.numCells
      · obtain ⟨h1, h2⟩ := hch c hc
        constructor
        · intro hb
          obtain ⟨e, he, hbe⟩ := h1 b hb
          exact ⟨e, he, hbe⟩
        · rintro ⟨e, he, hbe⟩
          exact h2 e he b hbe
      · have hc' : m.numCells ≤ c := Nat.le_of_not_lt hc
        rw [sub_eq_nil_of_ge m m.dim d c (by omega), sub_eq_nil_of_ge m m.dim (d + 1) c (by omega)]
        simp

/-! ### target sets -/

theorem mem_deductStep (m : Mesh) (d : Nat) (above : List Nat) (i : Nat) :
    i ∈ m.deductStep d above ↔ i < m.numOf d ∧ ∃ e, e ∈ above ∧ i ∈ m.sub (d + 1) d e := by
  simp [Mesh.deductStep, List.mem_filter]

theorem target_dim (m : Mesh) (cells : List Nat) : m.target cells m.dim = cells := by
  simp [Mesh.target, Mesh.targetDown]

theorem target_succ (m : Mesh) (cells : List Nat) (d : Nat) (hd : d < m.dim) :
    m.target cells d = m.deductStep d (m.target cells (d + 1)) := by
  have h1 : m.dim - d = (m.dim - (d + 1)) + 1 := by omega
  have h2 : m.dim - ((m.dim - (d + 1)) + 1) = d := by omega
  simp only [Mesh.target]
  rw [h1, Mesh.targetDown, h2]

theorem target_pairwise (m : Mesh) (cells : List Nat) (d : Nat) (hd : d < m.dim) :
    (m.target cells d).Pairwise (· < ·) := by
  rw [target_succ m cells d hd]
  exact filter_range_pairwise _ _

/-- under consistency the patch part of dimension `d < dim` consists of the `d`-entities of the patch cells -/
theorem mem_target (m : Mesh) (hm : m.Cons) (cells : List Nat) (b : Nat) :
    ∀ j d, d + (j + 1) = m.dim → (b ∈ m.target cells d ↔ ∃ c, c ∈ cells ∧ b ∈ m.sub m.dim d c)
  | 0, d, hd => by
    have hd1 : d + 1 = m.dim := by omega
    rw [target_succ m cells d (by omega), mem_deductStep, hd1, target_dim]
    constructor
    · rintro ⟨_, c, hc, hb⟩
      exact ⟨c, hc, hb⟩
    · rintro ⟨c, hc, hb⟩
      exact ⟨hm.bound d (by omega) c b hb, c, hc, hb⟩
  | j + 1, d, hd => by
    have ih := fun e => mem_target m hm cells e j (d + 1) (by omega)
    rw [target_succ m cells d (by omega), mem_deductStep]
    constructor
    · rintro ⟨_, e, he, hb⟩
      obtain ⟨c, hc, hec⟩ := (mem_target m hm cells e j (d + 1) (by omega)).mp he
      exact ⟨c, hc, (hm.chain d (by omega) c b).mpr ⟨e, hec, hb⟩⟩
    · rintro ⟨c, hc, hb⟩
      obtain ⟨e, hec, hbe⟩ := (hm.chain d (by omega) c b).mp hb
      exact ⟨hm.bound d (by omega) c b hb, e,
        (mem_target m hm cells e j (d + 1) (by omega)).mpr ⟨c, hc, hec⟩, hbe⟩

theorem mem_target' (m : Mesh) (hm : m.Cons) (cells : List Nat) (b d : Nat) (hd : d < m.dim) :
    b ∈ m.target cells d ↔ ∃ c, c ∈ cells ∧ b ∈ m.sub m.dim d c :=
  mem_target m hm cells b (m.dim - d - 1) d (by omega)

/-! ### ranks at element, neighbour ranks -/

theorem mem_ranksAtElem (p : Parti) (c r : Nat) :
    r ∈ (ranksAtElem p).row c ↔ c < p.nImg ∧ c ∈ p.row r := by
  simp [ranksAtElem, mem_row_transpose]

theorem wf_row_lt (p : Parti) (hp : p.wf = true) (r c : Nat) (h : c ∈ p.row r) : c < p.nImg := by
  simp only [Graph.wf, List.all_eq_true, decide_eq_true_eq] at hp
  have hr : r < p.adj.length := by
    by_cases hr : r < p.adj.length
    · exact hr
    · simp [Graph.row, List.getD, List.getElem?_eq_none (Nat.le_of_not_lt hr)] at h
  have : p.row r ∈ p.adj := by simp [Graph.row, List.getD, hr]
  exact hp _ this c h

theorem mem_ranksAtRank (m : Mesh) (p : Parti) (r s : Nat) :
    s ∈ (ranksAtRank m p).row r ↔
      r < p.nDom ∧ ∃ v, v < m.numOf 0 ∧
        (∃ c, v ∈ m.sub m.dim 0 c ∧ c < p.nImg ∧ c ∈ p.row r) ∧
        (∃ c, v ∈ m.sub m.dim 0 c ∧ c < p.nImg ∧ c ∈ p.row s) := by
  unfold ranksAtRank
  simp only [mem_row_compose_injectify, mem_row_transpose, mem_ranksAtElem]
  simp only [Graph.injectify, Graph.compose, Graph.transpose, Graph.row, Mesh.sub]
  constructor
  · rintro ⟨v, ⟨hr, c, ⟨hv, hvc⟩, hc, hcr⟩, c', ⟨_, hvc'⟩, hc', hcs⟩
    exact ⟨by simpa [ranksAtElem, Graph.transpose, Graph.nDom] using hr, v, hv, ⟨c, hvc, hc, hcr⟩, ⟨c', hvc', hc', hcs⟩⟩
  · rintro ⟨hr, v, hv, ⟨c, hvc, hc, hcr⟩, ⟨c', hvc', hc', hcs⟩⟩
    exact ⟨v, ⟨by simpa [ranksAtElem, Graph.transpose, Graph.nDom] using hr, c, ⟨hv, hvc⟩, hc, hcr⟩, c', ⟨hv, hvc'⟩, hc', hcs⟩

/-! ### halos -/

theorem hasRank_lt (m : Mesh) (p : Parti) (d b s : Nat) (hd : d < m.dim) :
    hasRank m p d b s = true ↔ ∃ c, b ∈ m.sub m.dim d c ∧ c < p.nImg ∧ c ∈ p.row s := by
  have hne : d ≠ m.dim := by omega
  simp [hasRank, hne, mem_transposeRow, mem_ranksAtElem, Mesh.sub]

theorem hasRank_dim (m : Mesh) (p : Parti) (b s : Nat) :
    hasRank m p m.dim b s = true ↔ b < p.nImg ∧ b ∈ p.row s := by
  simp [hasRank, mem_ranksAtElem]

theorem haloBase_eq_filter (m : Mesh) (p : Parti) (r s d : Nat) :
    haloBase m p r s d = (m.target (p.row r) d).filter (fun b => hasRank m p d b s) := by
  have h := zipIdx_filterMap_getD (fun b => hasRank m p d b s) (m.target (p.row r) d) []
  simp only [List.length_nil, List.nil_append] at h
  unfold haloBase halo toBase
  exact h

end FeatModel.Parti

namespace FeatModel.Parti
/-- example values for the satisfiability `example`s of `Props/C12.lean`:
two quadrilaterals sharing the edge (1,4): 6 vertices, 7 edges, 2 cells -/
def exMesh : Mesh :=
  { dim := 2, num := [6, 7, 2],
    sets := [((1, 0), [[0, 1], [1, 2], [3, 4], [4, 5], [0, 3], [1, 4], [2, 5]]),
             ((2, 0), [[0, 1, 3, 4], [1, 2, 4, 5]]),
             ((2, 1), [[0, 2, 4, 5], [1, 3, 5, 6]])] }
/-- rank 0 owns cell 1, rank 1 owns cell 0 -/
def exParti : Parti := { nImg := 2, adj := [[1], [0]] }
end FeatModel.Parti
