import FeatModel.Model.Cubature
/-! # C14 helper lemmas: the monomial enumeration is complete and sound, the Boolean table check decides `ExactTo` -/
namespace FeatModel.Cub

theorem esum_cons (k : Nat) (ks : List Nat) : esum (k :: ks) = k + esum ks := rfl

theorem mem_monos : ∀ (dim d : Nat) (e : List Nat), e.length = dim → esum e ≤ d → e ∈ monos dim d
  | 0, d, e, hl, _ => by
    cases e with
    | nil => simp [monos]
    | cons a as => simp at hl
  | dim + 1, d, e, hl, hs => by
    cases e with
    | nil => simp at hl
    | cons k ks =>
      simp only [esum_cons] at hs
      simp only [monos, List.mem_flatMap, List.mem_range, List.mem_map]
      refine ⟨k, by omega, ks, mem_monos dim (d - k) ks (by simpa using hl) (by omega), rfl⟩

theorem of_mem_monos : ∀ (dim d : Nat) (e : List Nat), e ∈ monos dim d → e.length = dim ∧ esum e ≤ d
  | 0, d, e, h => by
    simp only [monos, List.mem_singleton] at h
    subst h; simp [esum]
  | dim + 1, d, e, h => by
    simp only [monos, List.mem_flatMap, List.mem_range, List.mem_map] at h
    obtain ⟨k, hk, ks, hks, rfl⟩ := h
    have ih := of_mem_monos dim (d - k) ks hks
    refine ⟨by simp [ih.1], ?_⟩
    simp only [esum_cons]
    omega

theorem check_iff (t : DyTable) (s : Bool) (dim d : Nat) : t.check s dim d = true ↔ t.ExactTo s dim d := by
  unfold DyTable.check DyTable.ExactTo
  rw [List.all_eq_true]
  constructor
  · intro h e hl hs
    have := h e (mem_monos dim d e hl hs)
    simpa [DyTable.checkMono] using this
  · intro h e he
    have := of_mem_monos dim d e he
    simpa [DyTable.checkMono] using h e this.1 this.2

theorem check_false_iff (t : DyTable) (s : Bool) (dim d : Nat) : t.check s dim d = false ↔ ¬ t.ExactTo s dim d := by
  rw [← check_iff]; simp

/-- the per-table obligation, read as a proposition -/
theorem tableObligation_spec (s : Shape) (t : DyTable) (h : tableObligation s t = true) :
    t.wf s.dim = true ∧ ∃ d, nominal t.fac t.n = some d ∧ t.ExactTo s.simplex s.dim d := by
  unfold tableObligation at h
  rw [Bool.and_eq_true] at h
  refine ⟨h.1, ?_⟩
  have h2 := h.2
  cases hn : nominal t.fac t.n with
  | none => simp [hn] at h2
  | some d =>
    simp only [hn] at h2
    exact ⟨d, rfl, (check_iff _ _ _ _).1 h2⟩

end FeatModel.Cub
