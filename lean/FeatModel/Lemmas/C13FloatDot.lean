/-
C13, float clause for the global dot product: `triple_dot` with three roundings per entry, then the allreduce in
an arbitrary order.
-/
import FeatModel.Lemmas.C13Float
import FeatModel.Lemmas.C13ExtAsync
open FeatModel.Dist

set_option linter.unusedSectionVars false

namespace FeatModel.C13L

section Exact
variable {α : Type} [Field α]

/-- the exact summands of `tripleDot` -/
def tripleTerms (f x y : List α) : List α :=
  List.zipWith (fun a b => a * b) (List.zipWith (fun a b => a * b) f x) y

/-- the zipped triples `tripleDotFl` runs over -/
def tripleZip (f x y : List α) : List ((α × α) × α) :=
  List.zipWith (fun a b => (a, b)) (List.zipWith (fun a b => (a, b)) f x) y

theorem tripleDot_eq_sum (f x y : List α) : tripleDot f x y = (tripleTerms f x y).sum := by
  unfold tripleDot tripleTerms
  rw [foldl_add_eq_sum, zero_add]

theorem tripleZip_terms (f x y : List α) :
    (tripleZip f x y).map (fun t => t.1.1 * t.1.2 * t.2) = tripleTerms f x y := by
  unfold tripleZip tripleTerms
  induction f generalizing x y with
  | nil => simp
  | cons a f ih =>
    cases x with
    | nil => simp
    | cons b x =>
      cases y with
      | nil => simp
      | cons c y => simp [ih]

theorem tripleDotFl_eq_flSum (fl : α → α) (f x y : List α) :
    tripleDotFl fl f x y = flSum fl 0 ((tripleZip f x y).map fun t => fl (fl (t.1.1 * t.1.2) * t.2)) := by
  unfold tripleDotFl flSum tripleZip
  rw [List.foldl_map]

theorem flSum_id (c0 : α) (cs : List α) : flSum (fun x => x) c0 cs = c0 + cs.sum := by
  unfold flSum
  exact foldl_add_eq_sum cs c0

theorem tripleDotFl_id (f x y : List α) : tripleDotFl (fun x => x) f x y = tripleDot f x y := by
  rw [tripleDotFl_eq_flSum, flSum_id, zero_add, tripleDot_eq_sum, ← tripleZip_terms]

theorem gdotFl_eq_flSum (fl : α → α) (ps : List Patch) (xs ys : List (List α)) (order : List Nat) :
    gdotFl fl ps xs ys order
      = flSum fl 0 (order.map fun r => tripleDotFl fl (freqs (ps.getD r default)) (xs.getD r []) (ys.getD r [])) :=
  rfl

theorem gdotAsync_eq_sum (ps : List Patch) (xs ys : List (List α)) :
    gdotAsync none ps xs ys
      = ((List.range ps.length).map fun r =>
          tripleDot (freqs (ps.getD r default)) (xs.getD r []) (ys.getD r [])).sum := by
  unfold gdotAsync
  simp only []
  rw [allSum_eq]
  rfl

theorem gdotFl_id (ps : List Patch) (xs ys : List (List α)) :
    gdotFl (fun x => x) ps xs ys (List.range ps.length) = gdotAsync none ps xs ys := by
  rw [gdotFl_eq_flSum, flSum_id, zero_add, gdotAsync_eq_sum]
  congr 1
  apply List.map_congr_left
  intro r _
  exact tripleDotFl_id _ _ _

end Exact

section Order
variable {α : Type} [Field α] [LinearOrder α] [IsStrictOrderedRing α]

/-- rounded sum of perturbed summands: `t` computed, `e` exact, `s ≥ |e|` the size, `|t - e| ≤ (K - 1) s` -/
theorem perturbed_sums (K : α) (_hK : 1 ≤ K) (L : List (α × α × α))
    (hL : ∀ p ∈ L, |p.1 - p.2.1| ≤ (K - 1) * p.2.2 ∧ |p.2.1| ≤ p.2.2) :
    |(L.map (·.1)).sum - (L.map (·.2.1)).sum| ≤ (K - 1) * (L.map (·.2.2)).sum
    ∧ ((L.map (·.1)).map fun c => |c|).sum ≤ K * (L.map (·.2.2)).sum
    ∧ |(L.map (·.2.1)).sum| ≤ (L.map (·.2.2)).sum := by
  induction L with
  | nil => simp
  | cons p L ih =>
    obtain ⟨i1, i2, i3⟩ := ih (fun q hq => hL q (by simp [hq]))
    obtain ⟨h1, h2⟩ := hL p (by simp)
    simp only [List.map_cons, List.sum_cons]
    have ht : |p.1| ≤ K * p.2.2 := by
      have := abs_add_le (p.1 - p.2.1) p.2.1
      simp only [sub_add_cancel] at this
      nlinarith
    refine ⟨?_, ?_, ?_⟩
    · have := abs_add_le (p.1 - p.2.1) ((L.map (·.1)).sum - (L.map (·.2.1)).sum)
      have e : p.1 - p.2.1 + ((L.map (·.1)).sum - (L.map (·.2.1)).sum)
          = p.1 + (L.map (·.1)).sum - (p.2.1 + (L.map (·.2.1)).sum) := by ring
      rw [e] at this
      nlinarith
    · nlinarith
    · have := abs_add_le p.2.1 (L.map (·.2.1)).sum
      linarith

theorem flSum_perturbed (fl : α → α) (u : α) (hu : 0 ≤ u) (hfl : ∀ x, |fl x - x| ≤ u * |x|)
    (K : α) (hK : 1 ≤ K) (L : List (α × α × α))
    (hL : ∀ p ∈ L, |p.1 - p.2.1| ≤ (K - 1) * p.2.2 ∧ |p.2.1| ≤ p.2.2) :
    |flSum fl 0 (L.map (·.1)) - (L.map (·.2.1)).sum| ≤ ((1 + u) ^ L.length * K - 1) * (L.map (·.2.2)).sum := by
  obtain ⟨i1, i2, i3⟩ := perturbed_sums K hK L hL
  have hb := flSum_bound fl u hu hfl 0 (L.map (·.1))
  rw [zero_add, abs_zero, zero_add, List.length_map] at hb
  have hE : 1 ≤ (1 + u) ^ L.length := one_le_pow₀ (by linarith)
  have hS : 0 ≤ (L.map (·.2.2)).sum := le_trans (abs_nonneg _) i3
  have htri := abs_add_le (flSum fl 0 (L.map (·.1)) - (L.map (·.1)).sum) ((L.map (·.1)).sum - (L.map (·.2.1)).sum)
  have e : flSum fl 0 (L.map (·.1)) - (L.map (·.1)).sum + ((L.map (·.1)).sum - (L.map (·.2.1)).sum)
      = flSum fl 0 (L.map (·.1)) - (L.map (·.2.1)).sum := by ring
  rw [e] at htri
  have k1 : ((1 + u) ^ L.length - 1) * ((L.map (·.1)).map fun c => |c|).sum
      ≤ ((1 + u) ^ L.length - 1) * (K * (L.map (·.2.2)).sum) :=
    mul_le_mul_of_nonneg_left i2 (by linarith)
  nlinarith

/-- one entry of `triple_dot`: two rounded multiplications -/
theorem fl_mul2 (fl : α → α) (u : α) (hu : 0 ≤ u) (hfl : ∀ x, |fl x - x| ≤ u * |x|) (a y : α) :
    |fl (fl a * y) - a * y| ≤ ((1 + u) ^ 2 - 1) * |a * y| := by
  have h1 := hfl a
  have h2 := hfl (fl a * y)
  have hfa : |fl a| ≤ (1 + u) * |a| := by
    have := abs_add_le (fl a - a) a
    simp only [sub_add_cancel] at this
    linarith
  have hy := abs_nonneg y
  have e1 : |fl a * y - a * y| ≤ u * |a| * |y| := by
    rw [← sub_mul, abs_mul]
    exact mul_le_mul_of_nonneg_right h1 hy
  have e2 : |fl a * y| ≤ (1 + u) * |a| * |y| := by
    rw [abs_mul]
    exact mul_le_mul_of_nonneg_right hfa hy
  have htri := abs_add_le (fl (fl a * y) - fl a * y) (fl a * y - a * y)
  have e : fl (fl a * y) - fl a * y + (fl a * y - a * y) = fl (fl a * y) - a * y := by ring
  rw [e] at htri
  have e3 : u * |fl a * y| ≤ u * ((1 + u) * |a| * |y|) := mul_le_mul_of_nonneg_left e2 hu
  rw [abs_mul a y]
  nlinarith

/-- (a) the rounded local triple product against the exact one -/
theorem tripleDotFl_bound (fl : α → α) (u : α) (hu : 0 ≤ u) (hfl : ∀ x, |fl x - x| ≤ u * |x|) (f x y : List α) :
    |tripleDotFl fl f x y - tripleDot f x y|
      ≤ ((1 + u) ^ ((tripleTerms f x y).length + 2) - 1) * ((tripleTerms f x y).map fun c => |c|).sum := by
  have key := flSum_perturbed fl u hu hfl ((1 + u) ^ 2) (one_le_pow₀ (by linarith))
    ((tripleZip f x y).map fun t =>
      (fl (fl (t.1.1 * t.1.2) * t.2), t.1.1 * t.1.2 * t.2, |t.1.1 * t.1.2 * t.2|))
    (by
      intro p hp
      obtain ⟨t, _, rfl⟩ := List.mem_map.1 hp
      exact ⟨fl_mul2 fl u hu hfl (t.1.1 * t.1.2) t.2, le_refl _⟩)
  simp only [List.map_map, List.length_map] at key
  have e1 : (tripleZip f x y).map ((fun p : α × α × α => p.1) ∘ fun t =>
      (fl (fl (t.1.1 * t.1.2) * t.2), t.1.1 * t.1.2 * t.2, |t.1.1 * t.1.2 * t.2|))
      = (tripleZip f x y).map fun t => fl (fl (t.1.1 * t.1.2) * t.2) := rfl
  have e2 : (tripleZip f x y).map ((fun p : α × α × α => p.2.1) ∘ fun t =>
      (fl (fl (t.1.1 * t.1.2) * t.2), t.1.1 * t.1.2 * t.2, |t.1.1 * t.1.2 * t.2|))
      = tripleTerms f x y := tripleZip_terms f x y
  have e3 : (tripleZip f x y).map ((fun p : α × α × α => p.2.2) ∘ fun t =>
      (fl (fl (t.1.1 * t.1.2) * t.2), t.1.1 * t.1.2 * t.2, |t.1.1 * t.1.2 * t.2|))
      = (tripleTerms f x y).map fun c => |c| := by
    rw [← tripleZip_terms, List.map_map]; rfl
  have e4 : (tripleZip f x y).length = (tripleTerms f x y).length := by
    rw [← tripleZip_terms, List.length_map]
  rw [e1, e2, e3, e4, ← tripleDotFl_eq_flSum, ← tripleDot_eq_sum, ← pow_add] at key
  exact key

theorem abs_sum_le (l : List α) : |l.sum| ≤ (l.map fun c => |c|).sum := by
  induction l with
  | nil => simp
  | cons a l ih =>
    simp only [List.sum_cons, List.map_cons]
    exact le_trans (abs_add_le _ _) (by linarith)

/-- (b) the rounded global dot product, for every reduction order -/
theorem gdotFl_bound (fl : α → α) (u : α) (hu : 0 ≤ u) (hfl : ∀ x, |fl x - x| ≤ u * |x|)
    (ps : List Patch) (xs ys : List (List α)) (order : List Nat) (hperm : order.Perm (List.range ps.length))
    (n : Nat)
    (hn : ∀ r, r < ps.length →
      (tripleTerms (freqs (ps.getD r default)) (xs.getD r []) (ys.getD r [])).length ≤ n) :
    |gdotFl fl ps xs ys order - gdotAsync none ps xs ys|
      ≤ ((1 + u) ^ (n + 2 + ps.length) - 1)
        * ((List.range ps.length).map fun r =>
            ((tripleTerms (freqs (ps.getD r default)) (xs.getD r []) (ys.getD r [])).map fun c => |c|).sum).sum := by
  have h1u : (1 : α) ≤ 1 + u := by linarith
  have key := flSum_perturbed fl u hu hfl ((1 + u) ^ (n + 2)) (one_le_pow₀ h1u)
    (order.map fun r =>
      (tripleDotFl fl (freqs (ps.getD r default)) (xs.getD r []) (ys.getD r []),
       tripleDot (freqs (ps.getD r default)) (xs.getD r []) (ys.getD r []),
       ((tripleTerms (freqs (ps.getD r default)) (xs.getD r []) (ys.getD r [])).map fun c => |c|).sum))
    (by
      intro p hp
      obtain ⟨r, hr, rfl⟩ := List.mem_map.1 hp
      have hr' : r < ps.length := List.mem_range.1 (hperm.subset hr)
      refine ⟨?_, ?_⟩
      · refine le_trans (tripleDotFl_bound fl u hu hfl _ _ _) ?_
        apply mul_le_mul_of_nonneg_right _ (sum_abs_nonneg _)
        have := pow_le_pow_right₀ h1u (Nat.add_le_add_right (hn r hr') 2)
        linarith
      · show |tripleDot _ _ _| ≤ _
        rw [tripleDot_eq_sum]; exact abs_sum_le _)
  simp only [List.map_map, List.length_map] at key
  have e1 : order.map ((fun p : α × α × α => p.1) ∘ fun r =>
      (tripleDotFl fl (freqs (ps.getD r default)) (xs.getD r []) (ys.getD r []),
       tripleDot (freqs (ps.getD r default)) (xs.getD r []) (ys.getD r []),
       ((tripleTerms (freqs (ps.getD r default)) (xs.getD r []) (ys.getD r [])).map fun c => |c|).sum))
      = order.map fun r => tripleDotFl fl (freqs (ps.getD r default)) (xs.getD r []) (ys.getD r []) := rfl
  have e2 : (order.map ((fun p : α × α × α => p.2.1) ∘ fun r =>
      (tripleDotFl fl (freqs (ps.getD r default)) (xs.getD r []) (ys.getD r []),
       tripleDot (freqs (ps.getD r default)) (xs.getD r []) (ys.getD r []),
       ((tripleTerms (freqs (ps.getD r default)) (xs.getD r []) (ys.getD r [])).map fun c => |c|).sum))).sum
      = gdotAsync none ps xs ys := by
    rw [gdotAsync_eq_sum]
    exact (hperm.map _).sum_eq
  have e3 : (order.map ((fun p : α × α × α => p.2.2) ∘ fun r =>
      (tripleDotFl fl (freqs (ps.getD r default)) (xs.getD r []) (ys.getD r []),
       tripleDot (freqs (ps.getD r default)) (xs.getD r []) (ys.getD r []),
       ((tripleTerms (freqs (ps.getD r default)) (xs.getD r []) (ys.getD r [])).map fun c => |c|).sum))).sum
      = ((List.range ps.length).map fun r =>
          ((tripleTerms (freqs (ps.getD r default)) (xs.getD r []) (ys.getD r [])).map fun c => |c|).sum).sum :=
    (hperm.map _).sum_eq
  have e4 : order.length = ps.length := by rw [hperm.length_eq, List.length_range]
  rw [e1, e2, e3, e4, ← gdotFl_eq_flSum, ← pow_add, Nat.add_comm ps.length] at key
  exact key

end Order

end FeatModel.C13L
