import FeatModel.Model.LA.Filter
/-! helper lemmas for the C06 unit-filter theorems: the write loop `scatter`, the last-writer function, the
`SparseVector` normalisation -/
namespace FeatModel.LA.Filter

variable {α : Type}

theorem lastWrite_nil (i : Nat) : lastWrite ([] : List (Nat × α)) i = none := rfl

theorem lastWrite_cons (e : Nat × α) (t : List (Nat × α)) (i : Nat) :
    lastWrite (e :: t) i = match lastWrite t i with
      | some x => some x
      | none => if e.1 = i then some e.2 else none := rfl

theorem scatter_nil (v : List α) : scatter [] v = v := rfl

theorem scatter_cons (e : Nat × α) (t : List (Nat × α)) (v : List α) :
    scatter (e :: t) v = scatter t (v.set e.1 e.2) := rfl

theorem scatter_append (a b : List (Nat × α)) (v : List α) : scatter (a ++ b) v = scatter b (scatter a v) := by
  simp [scatter, List.foldl_append]

theorem length_scatter (es : List (Nat × α)) (v : List α) : (scatter es v).length = v.length := by
  induction es generalizing v with
  | nil => rfl
  | cons e t ih => rw [scatter_cons, ih, List.length_set]

/-- the write loop, read position-wise: position `i` holds the value of the last entry that writes `i`,
    otherwise it is unchanged (positions outside the vector are never created) -/
theorem getElem?_scatter (es : List (Nat × α)) (v : List α) (i : Nat) :
    (scatter es v)[i]? = (v[i]?).map (fun x => (lastWrite es i).getD x) := by
  induction es generalizing v with
  | nil => simp [scatter_nil, lastWrite]
  | cons e t ih =>
    rw [scatter_cons, ih, List.getElem?_set]
    simp only [lastWrite_cons]
    cases hl : lastWrite t i with
    | some y =>
      by_cases h : e.1 = i
      · subst h
        by_cases hlt : e.1 < v.length
        · simp [hlt]
        · have : v[e.1]? = none := by simp; omega
          simp [hlt, this]
      · simp [h]
    | none =>
      by_cases h : e.1 = i
      · subst h
        by_cases hlt : e.1 < v.length
        · simp [hlt]
        · have : v[e.1]? = none := by simp; omega
          simp [hlt, this]
      · simp [h]

theorem lastWrite_eq_none (es : List (Nat × α)) (i : Nat) (h : ∀ e ∈ es, e.1 ≠ i) : lastWrite es i = none := by
  induction es with
  | nil => rfl
  | cons e t ih =>
    simp only [lastWrite_cons]
    rw [ih (fun e he => h e (List.mem_cons_of_mem _ he))]
    simp [h e (List.mem_cons_self)]

theorem lastWrite_eq_none_iff_aux (es : List (Nat × α)) (i : Nat) (h : lastWrite es i = none) :
    ∀ e ∈ es, e.1 ≠ i := by
  induction es with
  | nil => simp
  | cons e t ih =>
    simp only [lastWrite_cons] at h
    cases hl : lastWrite t i with
    | some y => rw [hl] at h; simp at h
    | none =>
      rw [hl] at h
      intro e' he'
      rcases List.mem_cons.mp he' with hh | hh
      · subst hh
        intro heq
        simp [heq] at h
      · exact ih hl e' hh

theorem lastWrite_isSome_mem (es : List (Nat × α)) (i : Nat) (x : α) (h : lastWrite es i = some x) :
    (i, x) ∈ es := by
  induction es with
  | nil => simp [lastWrite] at h
  | cons e t ih =>
    simp only [lastWrite_cons] at h
    cases hl : lastWrite t i with
    | some y =>
      rw [hl] at h
      simp at h
      subst h
      exact List.mem_cons_of_mem _ (ih hl)
    | none =>
      rw [hl] at h
      by_cases he : e.1 = i
      · simp [he] at h
        subst h; subst he
        exact List.mem_cons_self
      · simp [he] at h

/-- with pairwise different indices every entry is the last writer of its index -/
theorem lastWrite_of_mem_nodup (es : List (Nat × α)) (hn : (es.map Prod.fst).Nodup) (i : Nat) (x : α)
    (hm : (i, x) ∈ es) : lastWrite es i = some x := by
  induction es with
  | nil => simp at hm
  | cons e t ih =>
    simp only [List.map_cons, List.nodup_cons] at hn
    simp only [lastWrite_cons]
    rcases List.mem_cons.mp hm with h | h
    · subst h
      have : lastWrite t i = none := by
        apply lastWrite_eq_none
        intro e' he' heq
        exact hn.1 (List.mem_map.mpr ⟨e', he', heq⟩)
      simp [this]
    · rw [ih hn.2 h]

theorem lastWrite_map_const (es : List (Nat × α)) (c : α) (i : Nat) :
    lastWrite (es.map fun e => (e.1, c)) i = (lastWrite es i).map (fun _ => c) := by
  induction es with
  | nil => rfl
  | cons e t ih =>
    simp only [List.map_cons]
    simp only [lastWrite_cons]
    rw [ih]
    cases lastWrite t i <;> by_cases h : e.1 = i <;> simp [h]

/-- writing the same entries a second time changes nothing (no assumption on the indices) -/
theorem scatter_idem (es : List (Nat × α)) (v : List α) : scatter es (scatter es v) = scatter es v := by
  apply List.ext_getElem?
  intro i
  rw [getElem?_scatter, getElem?_scatter]
  cases v[i]? with
  | none => rfl
  | some x => cases h : lastWrite es i <;> simp [h]

/-! ### normalisation (`add` + stable last-wins sort) -/

variable {β : Type}

theorem lastWrite_insertEntry (e : Nat × β) (l : List (Nat × β)) (hs : (l.map Prod.fst).Pairwise (· < ·)) (i : Nat) :
    lastWrite (insertEntry e l) i = if e.1 = i then some e.2 else lastWrite l i := by
  induction l with
  | nil => simp [insertEntry, lastWrite]
  | cons h t ih =>
    simp only [List.map_cons, List.pairwise_cons] at hs
    unfold insertEntry
    by_cases h1 : h.1 < e.1
    · simp only [h1, if_true]
      simp only [lastWrite_cons]
      rw [ih hs.2]
      by_cases hei : e.1 = i
      · simp [hei]
      · simp [hei]
    · simp only [h1, if_false]
      by_cases h2 : h.1 = e.1
      · simp only [h2, if_true]
        simp only [lastWrite_cons]
        by_cases hei : e.1 = i
        · have : lastWrite t i = none := by
            apply lastWrite_eq_none
            intro e' he' heq
            have := hs.1 e'.1 (List.mem_map.mpr ⟨e', he', rfl⟩)
            omega
          simp [hei, this]
        · have : h.1 ≠ i := by omega
          simp [hei, this]
      · simp only [h2, if_false]
        by_cases hei : e.1 = i
        · have hn : lastWrite (h :: t) i = none := by
            apply lastWrite_eq_none
            intro e' he' heq
            rcases List.mem_cons.mp he' with hh | hh
            · subst hh; omega
            · have := hs.1 e'.1 (List.mem_map.mpr ⟨e', hh, rfl⟩)
              omega
          simp [lastWrite_cons e (h :: t), hn, hei]
        · simp only [lastWrite_cons e (h :: t)]
          cases lastWrite (h :: t) i <;> simp [hei]

theorem sorted_insertEntry (e : Nat × β) (l : List (Nat × β)) (hs : (l.map Prod.fst).Pairwise (· < ·)) :
    ((insertEntry e l).map Prod.fst).Pairwise (· < ·) ∧
      ∀ k ∈ (insertEntry e l).map Prod.fst, k = e.1 ∨ k ∈ l.map Prod.fst := by
  induction l with
  | nil => simp [insertEntry]
  | cons h t ih =>
    simp only [List.map_cons, List.pairwise_cons] at hs
    unfold insertEntry
    by_cases h1 : h.1 < e.1
    · simp only [h1, if_true, List.map_cons, List.pairwise_cons]
      obtain ⟨ih1, ih2⟩ := ih hs.2
      refine ⟨⟨?_, ih1⟩, ?_⟩
      · intro k hk
        rcases ih2 k hk with hh | hh
        · omega
        · exact hs.1 k hh
      · intro k hk
        rcases List.mem_cons.mp hk with hh | hh
        · right; simp [hh]
        · rcases ih2 k hh with h3 | h3
          · left; exact h3
          · right; simp [h3]
    · simp only [h1, if_false]
      by_cases h2 : h.1 = e.1
      · simp only [h2, if_true, List.map_cons, List.pairwise_cons]
        refine ⟨⟨?_, hs.2⟩, ?_⟩
        · intro k hk
          have := hs.1 k hk
          omega
        · intro k hk
          rcases List.mem_cons.mp hk with hh | hh
          · left; exact hh
          · right; simp [hh]
      · simp only [h2, if_false, List.map_cons, List.pairwise_cons]
        refine ⟨⟨?_, hs.1, hs.2⟩, ?_⟩
        · intro k hk
          rcases List.mem_cons.mp hk with hh | hh
          · omega
          · have := hs.1 k hh
            omega
        · intro k hk
          rcases List.mem_cons.mp hk with hh | hh
          · left; exact hh
          · right; exact hh

theorem normalize_spec_aux (adds : List (Nat × β)) (l : List (Nat × β)) (hs : (l.map Prod.fst).Pairwise (· < ·)) :
    ((adds.foldl (fun l e => insertEntry e l) l).map Prod.fst).Pairwise (· < ·) ∧
      ∀ i, lastWrite (adds.foldl (fun l e => insertEntry e l) l) i = (lastWrite adds i).orElse (fun _ => lastWrite l i) := by
  induction adds generalizing l with
  | nil => exact ⟨hs, fun i => by simp [lastWrite]⟩
  | cons e t ih =>
    simp only [List.foldl_cons]
    obtain ⟨h1, h2⟩ := ih (insertEntry e l) (sorted_insertEntry e l hs).1
    refine ⟨h1, fun i => ?_⟩
    rw [h2 i, lastWrite_insertEntry e l hs i]
    simp only [lastWrite_cons]
    cases lastWrite t i with
    | some y => simp
    | none => by_cases hei : e.1 = i <;> simp [hei]

end FeatModel.LA.Filter
