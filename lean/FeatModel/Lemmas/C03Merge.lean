import FeatModel.Model.LA.MatAlg
import Mathlib.Tactic.Ring
import Mathlib.Tactic.Linarith
import Mathlib.Algebra.BigOperators.Group.List.Basic
import Mathlib.Algebra.BigOperators.Ring.List
/-! Lemmas about the sorted-merge loop `mergeRow` and the loops around it (property C03). -/
namespace FeatModel.LA.MatAlg

/-- strictly increasing column indices (what every FEAT assembly produces for a CSR row) -/
def SortedCols {β : Type} (r : Row β) : Prop := (rowCols r).Pairwise (· < ·)

section Generic
variable {β γ : Type}

theorem rowCols_cons (c : Nat) (v : β) (t : Row β) : rowCols ((c, v) :: t) = c :: rowCols t := rfl

theorem sorted_tail {c : Nat} {v : β} {t : Row β} (h : SortedCols ((c, v) :: t)) : SortedCols t := by
  unfold SortedCols at *
  rw [rowCols_cons] at h
  exact (List.pairwise_cons.mp h).2

theorem sorted_head_lt {c : Nat} {v : β} {t : Row β} (h : SortedCols ((c, v) :: t)) {j : Nat} (hj : j ∈ rowCols t) :
    c < j := by
  unfold SortedCols at h
  rw [rowCols_cons] at h
  exact (List.pairwise_cons.mp h).1 j hj

/-- the merge never changes the pattern of `X_i` -/
theorem mergeRow_cols (allow : Bool) (f : β → γ → β) (xs : Row β) (bs : Row γ) :
    ∀ r, mergeRow allow f xs bs = .ok r → rowCols r = rowCols xs := by
  induction xs, bs using mergeRow.induct allow f with
  | case1 xs => intro r h; simp [mergeRow] at h; rw [h]
  | case2 b bs ha => intro r h; simp [mergeRow, ha] at h; rw [← h]
  | case3 b bs ha => intro r h; simp [mergeRow, ha] at h
  | case4 vx xs cb vb bs r' h' ih =>
    intro r h
    rw [mergeRow.eq_3, if_pos rfl, h'] at h
    simp only [Except.ok.injEq] at h
    rw [← h, rowCols_cons, rowCols_cons, ih r' h']
  | case5 vx xs cb vb bs e h' ih => intro r h; rw [mergeRow.eq_3, if_pos rfl, h'] at h; simp at h
  | case6 cx vx xs cb vb bs hne hlt r' h' ih =>
    intro r h
    rw [mergeRow.eq_3, if_neg hne, if_pos hlt, h'] at h
    simp only [Except.ok.injEq] at h
    rw [← h, rowCols_cons, rowCols_cons, ih r' h']
  | case7 cx vx xs cb vb bs hne hlt e h' ih =>
    intro r h; rw [mergeRow.eq_3, if_neg hne, if_pos hlt, h'] at h; simp at h
  | case8 cx vx xs cb vb bs hne hnlt ha ih =>
    intro r h
    rw [mergeRow.eq_3, if_neg hne, if_neg hnlt, if_pos ha] at h
    exact ih r h
  | case9 cx vx xs cb vb bs hne hnlt ha =>
    intro r h; rw [mergeRow.eq_3, if_neg hne, if_neg hnlt, if_neg ha] at h; simp at h

/-- with `allow_incomplete = true` the merge never aborts -/
theorem mergeRow_allow_ok (f : β → γ → β) (xs : Row β) (bs : Row γ) : ∃ r, mergeRow true f xs bs = .ok r := by
  induction xs, bs using mergeRow.induct true f with
  | case1 xs => exact ⟨xs, by simp [mergeRow]⟩
  | case2 b bs ha => exact ⟨[], by simp [mergeRow]⟩
  | case3 b bs ha => exact absurd rfl ha
  | case4 vx xs cb vb bs r' h' ih => exact ⟨_, by rw [mergeRow.eq_3, if_pos rfl, h']⟩
  | case5 vx xs cb vb bs e h' ih => obtain ⟨r, hr⟩ := ih; rw [hr] at h'; simp at h'
  | case6 cx vx xs cb vb bs hne hlt r' h' ih => exact ⟨_, by rw [mergeRow.eq_3, if_neg hne, if_pos hlt, h']⟩
  | case7 cx vx xs cb vb bs hne hlt e h' ih => obtain ⟨r, hr⟩ := ih; rw [hr] at h'; simp at h'
  | case8 cx vx xs cb vb bs hne hnlt ha ih =>
    obtain ⟨r, hr⟩ := ih
    exact ⟨r, by rw [mergeRow.eq_3, if_neg hne, if_neg hnlt, if_pos ha]; exact hr⟩
  | case9 cx vx xs cb vb bs hne hnlt ha => exact absurd rfl ha

/-- "reported, never silent": with `allow_incomplete = false` a normal return implies that every column index of
    `B_l` exists in `X_i` (no sortedness needed) -/
theorem mergeRow_strict_ok_subset (f : β → γ → β) (xs : Row β) (bs : Row γ) :
    ∀ r, mergeRow false f xs bs = .ok r → ∀ c ∈ rowCols bs, c ∈ rowCols xs := by
  induction xs, bs using mergeRow.induct false f with
  | case1 xs => intro r _ c hc; simp [rowCols] at hc
  | case2 b bs ha => simp at ha
  | case3 b bs ha => intro r h; simp [mergeRow] at h
  | case4 vx xs cb vb bs r' h' ih =>
    intro r _ c hc
    rw [rowCols_cons] at hc ⊢
    rcases List.mem_cons.mp hc with hc | hc
    · rw [hc]; exact List.mem_cons_self
    · exact List.mem_cons_of_mem _ (ih r' h' c hc)
  | case5 vx xs cb vb bs e h' ih => intro r h; rw [mergeRow.eq_3, if_pos rfl, h'] at h; simp at h
  | case6 cx vx xs cb vb bs hne hlt r' h' ih =>
    intro r _ c hc
    rw [rowCols_cons]
    exact List.mem_cons_of_mem _ (ih r' h' c hc)
  | case7 cx vx xs cb vb bs hne hlt e h' ih =>
    intro r h; rw [mergeRow.eq_3, if_neg hne, if_pos hlt, h'] at h; simp at h
  | case8 cx vx xs cb vb bs hne hnlt ha ih => simp at ha
  | case9 cx vx xs cb vb bs hne hnlt ha =>
    intro r h; rw [mergeRow.eq_3, if_neg hne, if_neg hnlt] at h; simp at h

/-- a complete pattern is never reported: sorted rows with `cols(B_l) ⊆ cols(X_i)` merge normally, whatever the flag -/
theorem mergeRow_complete_ok (allow : Bool) (f : β → γ → β) (xs : Row β) (bs : Row γ) :
    SortedCols xs → SortedCols bs → (∀ c ∈ rowCols bs, c ∈ rowCols xs) → ∃ r, mergeRow allow f xs bs = .ok r := by
  induction xs, bs using mergeRow.induct allow f with
  | case1 xs => intro _ _ _; exact ⟨xs, by simp [mergeRow]⟩
  | case2 b bs ha => intro _ _ _; exact ⟨[], by simp [mergeRow, ha]⟩
  | case3 b bs ha =>
    intro _ _ hsub
    have := hsub b.1 (by simp [rowCols])
    simp [rowCols] at this
  | case4 vx xs cb vb bs r' h' ih => intro _ _ _; exact ⟨_, by rw [mergeRow.eq_3, if_pos rfl, h']⟩
  | case5 vx xs cb vb bs e h' ih =>
    intro hx hb hsub
    have : ∀ c ∈ rowCols bs, c ∈ rowCols xs := by
      intro c hc
      have h1 := hsub c (by rw [rowCols_cons]; exact List.mem_cons_of_mem _ hc)
      rw [rowCols_cons] at h1
      rcases List.mem_cons.mp h1 with h1 | h1
      · have := sorted_head_lt hb hc; omega
      · exact h1
    obtain ⟨r, hr⟩ := ih (sorted_tail hx) (sorted_tail hb) this
    rw [hr] at h'; simp at h'
  | case6 cx vx xs cb vb bs hne hlt r' h' ih =>
    intro _ _ _; exact ⟨_, by rw [mergeRow.eq_3, if_neg hne, if_pos hlt, h']⟩
  | case7 cx vx xs cb vb bs hne hlt e h' ih =>
    intro hx hb hsub
    have : ∀ c ∈ rowCols ((cb, vb) :: bs), c ∈ rowCols xs := by
      intro c hc
      have h1 := hsub c hc
      rw [rowCols_cons] at h1
      rcases List.mem_cons.mp h1 with h1 | h1
      · rw [rowCols_cons] at hc
        rcases List.mem_cons.mp hc with hc | hc
        · omega
        · have := sorted_head_lt hb hc; omega
      · exact h1
    obtain ⟨r, hr⟩ := ih (sorted_tail hx) hb this
    rw [hr] at h'; simp at h'
  | case8 cx vx xs cb vb bs hne hnlt ha ih =>
    intro hx hb hsub
    exfalso
    have h1 := hsub cb (by rw [rowCols_cons]; exact List.mem_cons_self)
    rw [rowCols_cons] at h1
    rcases List.mem_cons.mp h1 with h1 | h1
    · exact hne h1.symm
    · have := sorted_head_lt hx h1; omega
  | case9 cx vx xs cb vb bs hne hnlt ha =>
    intro hx hb hsub
    exfalso
    have h1 := hsub cb (by rw [rowCols_cons]; exact List.mem_cons_self)
    rw [rowCols_cons] at h1
    rcases List.mem_cons.mp h1 with h1 | h1
    · exact hne h1.symm
    · have := sorted_head_lt hx h1; omega

end Generic

section Scalar
variable {α : Type} [CommRing α]

theorem rowVal_nil (j : Nat) : rowVal ([] : Row α) j = 0 := rfl

theorem rowVal_cons (c : Nat) (v : α) (t : Row α) (j : Nat) :
    rowVal ((c, v) :: t) j = if c = j then v + rowVal t j else rowVal t j := rfl

theorem rowVal_of_not_mem (r : Row α) (j : Nat) (h : j ∉ rowCols r) : rowVal r j = 0 := by
  induction r with
  | nil => rfl
  | cons p t ih =>
    obtain ⟨c, v⟩ := p
    rw [rowCols_cons] at h
    have h1 : c ≠ j := fun e => h (e ▸ List.mem_cons_self)
    have h2 : j ∉ rowCols t := fun e => h (List.mem_cons_of_mem _ e)
    rw [rowVal_cons, if_neg h1, ih h2]

/-- **merge_spec**: on sorted rows a normally returning merge adds `omega * B_lj` exactly onto the entries of `X_i`
    whose column exists in `X_i` (the other entries of `B_l` are dropped) -/
theorem mergeRow_spec (allow : Bool) (omega : α) (xs bs : Row α) :
    SortedCols xs → SortedCols bs → ∀ r, mergeRow allow (updS omega) xs bs = .ok r →
      ∀ j, rowVal r j = rowVal xs j + omega * (if j ∈ rowCols xs then rowVal bs j else 0) := by
  induction xs, bs using mergeRow.induct allow (updS omega) with
  | case1 xs => intro _ _ r h j; simp [mergeRow] at h; subst h; simp [rowVal_nil]
  | case2 b bs ha => intro _ _ r h j; simp [mergeRow, ha] at h; subst h; simp [rowVal_nil, rowCols]
  | case3 b bs ha => intro _ _ r h; simp [mergeRow, ha] at h
  | case4 vx xs cb vb bs r' h' ih =>
    intro hx hb r h j
    rw [mergeRow.eq_3, if_pos rfl, h'] at h
    simp only [Except.ok.injEq] at h
    have ihj := ih (sorted_tail hx) (sorted_tail hb) r' h' j
    rw [← h, rowVal_cons, rowVal_cons, rowVal_cons, rowCols_cons, ihj]
    by_cases hj : cb = j
    · subst hj
      have h1 : cb ∉ rowCols xs := fun e => by have := sorted_head_lt hx e; omega
      have h2 : cb ∉ rowCols bs := fun e => by have := sorted_head_lt hb e; omega
      simp only [if_true, if_neg h1, List.mem_cons_self, rowVal_of_not_mem bs cb h2, updS]
      ring
    · have h3 : (j ∈ cb :: rowCols xs) ↔ j ∈ rowCols xs := by
        constructor
        · intro e; rcases List.mem_cons.mp e with e | e
          · exact absurd e.symm hj
          · exact e
        · exact List.mem_cons_of_mem _
      simp only [if_neg hj, h3]
  | case5 vx xs cb vb bs e h' ih => intro _ _ r h; rw [mergeRow.eq_3, if_pos rfl, h'] at h; simp at h
  | case6 cx vx xs cb vb bs hne hlt r' h' ih =>
    intro hx hb r h j
    rw [mergeRow.eq_3, if_neg hne, if_pos hlt, h'] at h
    simp only [Except.ok.injEq] at h
    have ihj := ih (sorted_tail hx) hb r' h' j
    rw [← h, rowVal_cons, rowVal_cons, rowCols_cons, ihj]
    by_cases hj : cx = j
    · subst hj
      have h1 : cx ∉ rowCols xs := fun e => by have := sorted_head_lt hx e; omega
      have h2 : cx ∉ rowCols ((cb, vb) :: bs) := by
        intro e
        rw [rowCols_cons] at e
        rcases List.mem_cons.mp e with e | e
        · omega
        · have := sorted_head_lt hb e; omega
      simp only [if_true, if_neg h1, List.mem_cons_self, rowVal_of_not_mem _ cx h2]
      ring
    · have h3 : (j ∈ cx :: rowCols xs) ↔ j ∈ rowCols xs := by
        constructor
        · intro e; rcases List.mem_cons.mp e with e | e
          · exact absurd e.symm hj
          · exact e
        · exact List.mem_cons_of_mem _
      simp only [if_neg hj, h3]
  | case7 cx vx xs cb vb bs hne hlt e h' ih =>
    intro _ _ r h; rw [mergeRow.eq_3, if_neg hne, if_pos hlt, h'] at h; simp at h
  | case8 cx vx xs cb vb bs hne hnlt ha ih =>
    intro hx hb r h j
    rw [mergeRow.eq_3, if_neg hne, if_neg hnlt, if_pos ha] at h
    rw [ih hx (sorted_tail hb) r h j]
    by_cases hm : j ∈ rowCols ((cx, vx) :: xs)
    · have hcb : cb ≠ j := by
        rw [rowCols_cons] at hm
        rcases List.mem_cons.mp hm with e | e
        · omega
        · have := sorted_head_lt hx e; omega
      simp only [if_pos hm, rowVal_cons cb vb bs j, if_neg hcb]
    · simp only [if_neg hm]
  | case9 cx vx xs cb vb bs hne hnlt ha =>
    intro _ _ r h; rw [mergeRow.eq_3, if_neg hne, if_neg hnlt, if_neg ha] at h; simp at h

/-- with `allow_incomplete = false` a normal return is the *unrestricted* update `X_i + omega * B_l` -/
theorem mergeRow_spec_strict (omega : α) (xs bs : Row α) (hx : SortedCols xs) (hb : SortedCols bs) (r : Row α)
    (h : mergeRow false (updS omega) xs bs = .ok r) (j : Nat) :
    rowVal r j = rowVal xs j + omega * rowVal bs j := by
  rw [mergeRow_spec false omega xs bs hx hb r h j]
  by_cases hm : j ∈ rowCols xs
  · rw [if_pos hm]
  · have : j ∉ rowCols bs := fun e => hm (mergeRow_strict_ok_subset _ xs bs r h j e)
    rw [if_neg hm, rowVal_of_not_mem bs j this]

/-! ### the loops around the merge -/

/-- weights and rows merged onto one row of X -/
def terms (ws : List (α × Row α)) : List ((α → α → α) × Row α) := ws.map fun w => (updS w.1, w.2)

theorem mergeMany_spec (allow : Bool) (ws : List (α × Row α)) :
    ∀ (xs : Row α), SortedCols xs → (∀ w ∈ ws, SortedCols w.2) → ∀ r, mergeMany allow xs (terms ws) = .ok r →
      rowCols r = rowCols xs ∧
      ∀ j, rowVal r j = rowVal xs j + (ws.map fun w => w.1 * (if j ∈ rowCols xs then rowVal w.2 j else 0)).sum := by
  induction ws with
  | nil => intro xs _ _ r h; simp [terms, mergeMany] at h; subst h; simp
  | cons w ws ih =>
    intro xs hx hw r h
    simp only [terms, List.map_cons, mergeMany] at h
    cases h1 : mergeRow allow (updS w.1) xs w.2 with
    | error e => rw [h1] at h; simp at h
    | ok r1 =>
      rw [h1] at h
      have hc := mergeRow_cols allow _ xs w.2 r1 h1
      have hs1 : SortedCols r1 := by unfold SortedCols; rw [hc]; exact hx
      obtain ⟨hc2, hv⟩ := ih r1 hs1 (fun w' hw' => hw w' (List.mem_cons_of_mem _ hw')) r h
      refine ⟨hc2.trans hc, fun j => ?_⟩
      rw [hv j, mergeRow_spec allow w.1 xs w.2 hx (hw w List.mem_cons_self) r1 h1 j, hc]
      simp only [List.map_cons, List.sum_cons]
      ring

theorem mergeMany_spec_strict (ws : List (α × Row α)) :
    ∀ (xs : Row α), SortedCols xs → (∀ w ∈ ws, SortedCols w.2) → ∀ r, mergeMany false xs (terms ws) = .ok r →
      ∀ j, rowVal r j = rowVal xs j + (ws.map fun w => w.1 * rowVal w.2 j).sum := by
  induction ws with
  | nil => intro xs _ _ r h; simp [terms, mergeMany] at h; subst h; simp
  | cons w ws ih =>
    intro xs hx hw r h j
    simp only [terms, List.map_cons, mergeMany] at h
    cases h1 : mergeRow false (updS w.1) xs w.2 with
    | error e => rw [h1] at h; simp at h
    | ok r1 =>
      rw [h1] at h
      have hc := mergeRow_cols false _ xs w.2 r1 h1
      have hs1 : SortedCols r1 := by unfold SortedCols; rw [hc]; exact hx
      rw [ih r1 hs1 (fun w' hw' => hw w' (List.mem_cons_of_mem _ hw')) r h j,
        mergeRow_spec_strict w.1 xs w.2 hx (hw w List.mem_cons_self) r1 h1 j]
      simp only [List.map_cons, List.sum_cons]
      ring

/-- with `allow_incomplete = true` the loops never abort -/
theorem mergeMany_allow_ok {β γ : Type} (ts : List ((β → γ → β) × Row γ)) : ∀ xs : Row β, ∃ r, mergeMany true xs ts = .ok r := by
  induction ts with
  | nil => intro xs; exact ⟨xs, rfl⟩
  | cons t ts ih =>
    intro xs
    obtain ⟨f, br⟩ := t
    obtain ⟨r1, h1⟩ := mergeRow_allow_ok f xs br
    obtain ⟨r, h⟩ := ih r1
    exact ⟨r, by simp only [mergeMany, h1]; exact h⟩

/-- some merge of the sequence meets a column of `B_l` that `X_i` lacks ⇒ reported (`allow_incomplete = false`) -/
theorem mergeMany_strict_ok_subset {β γ : Type} (ts : List ((β → γ → β) × Row γ)) :
    ∀ (xs r : Row β), mergeMany false xs ts = .ok r → ∀ t ∈ ts, ∀ c ∈ rowCols t.2, c ∈ rowCols xs := by
  induction ts with
  | nil => intro xs r _ t ht; simp at ht
  | cons t0 ts ih =>
    intro xs r h t ht c hc
    obtain ⟨f, br⟩ := t0
    simp only [mergeMany] at h
    cases h1 : mergeRow false f xs br with
    | error e => rw [h1] at h; simp at h
    | ok r1 =>
      rw [h1] at h
      rcases List.mem_cons.mp ht with e | e
      · subst e; exact mergeRow_strict_ok_subset f xs br r1 h1 c hc
      · have := ih r1 r h t e c hc
        rwa [mergeRow_cols false f xs br r1 h1] at this

end Scalar

/-! ### `forRows` -/
theorem forRows_ok {β : Type} (f : Nat → Except Abort β) :
    ∀ (l : List Nat) (rs : List β), forRows f l = .ok rs →
      rs.length = l.length ∧ ∀ k (hk : k < l.length), ∃ r, rs[k]? = some r ∧ f l[k] = .ok r := by
  intro l
  induction l with
  | nil => intro rs h; simp [forRows] at h; subst h; simp
  | cons i t ih =>
    intro rs h
    simp only [forRows] at h
    cases h1 : f i with
    | error e => rw [h1] at h; simp at h
    | ok r =>
      rw [h1] at h
      cases h2 : forRows f t with
      | error e => rw [h2] at h; simp at h
      | ok rs' =>
        rw [h2] at h
        simp only [Except.ok.injEq] at h
        subst h
        obtain ⟨hl, hk⟩ := ih rs' h2
        refine ⟨by simp [hl], fun k hk' => ?_⟩
        cases k with
        | zero => exact ⟨r, by simp, by simpa using h1⟩
        | succ k =>
          obtain ⟨r2, hr2, hf⟩ := hk k (by simpa using hk')
          exact ⟨r2, by simpa using hr2, by simpa using hf⟩

theorem forRows_error {β : Type} (f : Nat → Except Abort β) (l : List Nat) (i : Nat) (hi : i ∈ l) (e : Abort)
    (h : f i = .error e) : ∃ e', forRows f l = .error e' := by
  induction l with
  | nil => simp at hi
  | cons i0 t ih =>
    simp only [forRows]
    cases h1 : f i0 with
    | error e1 => exact ⟨e1, rfl⟩
    | ok r =>
      rcases List.mem_cons.mp hi with e0 | e0
      · subst e0; rw [h] at h1; simp at h1
      · obtain ⟨e', he'⟩ := ih e0
        rw [he']; exact ⟨e', rfl⟩

theorem forRows_all_ok {β : Type} (f : Nat → Except Abort β) (l : List Nat) (h : ∀ i ∈ l, ∃ r, f i = .ok r) :
    ∃ rs, forRows f l = .ok rs := by
  induction l with
  | nil => exact ⟨[], rfl⟩
  | cons i0 t ih =>
    obtain ⟨r, hr⟩ := h i0 List.mem_cons_self
    obtain ⟨rs, hrs⟩ := ih (fun i hi => h i (List.mem_cons_of_mem _ hi))
    exact ⟨r :: rs, by simp only [forRows, hr, hrs]⟩

end FeatModel.LA.MatAlg

namespace FeatModel.LA.MatAlg

/-- the only abort the merge loop can raise is "Incomplete output matrix structure" -/
theorem mergeRow_error_incomplete {β γ : Type} (allow : Bool) (f : β → γ → β) (xs : Row β) (bs : Row γ) :
    ∀ e, mergeRow allow f xs bs = .error e → e = .incomplete := by
  induction xs, bs using mergeRow.induct allow f with
  | case1 xs => intro e h; simp [mergeRow] at h
  | case2 b bs ha => intro e h; simp [mergeRow, ha] at h
  | case3 b bs ha => intro e h; simp [mergeRow, ha] at h; exact h.symm
  | case4 vx xs cb vb bs r' h' ih => intro e h; rw [mergeRow.eq_3, if_pos rfl, h'] at h; simp at h
  | case5 vx xs cb vb bs e' h' ih =>
    intro e h; rw [mergeRow.eq_3, if_pos rfl, h'] at h
    simp only [Except.error.injEq] at h
    rw [← h]; exact ih e' h'
  | case6 cx vx xs cb vb bs hne hlt r' h' ih =>
    intro e h; rw [mergeRow.eq_3, if_neg hne, if_pos hlt, h'] at h; simp at h
  | case7 cx vx xs cb vb bs hne hlt e' h' ih =>
    intro e h; rw [mergeRow.eq_3, if_neg hne, if_pos hlt, h'] at h
    simp only [Except.error.injEq] at h
    rw [← h]; exact ih e' h'
  | case8 cx vx xs cb vb bs hne hnlt ha ih =>
    intro e h; rw [mergeRow.eq_3, if_neg hne, if_neg hnlt, if_pos ha] at h; exact ih e h
  | case9 cx vx xs cb vb bs hne hnlt ha =>
    intro e h; rw [mergeRow.eq_3, if_neg hne, if_neg hnlt, if_neg ha] at h
    simp only [Except.error.injEq] at h
    exact h.symm

end FeatModel.LA.MatAlg

/-! ### algebra-free characterisation of the merge (any update function, e.g. block arithmetic) -/
namespace FeatModel.LA.MatAlg

/-- the first stored value of a row at column `j` -/
def rowGet {γ : Type} : Row γ → Nat → Option γ
  | [], _ => none
  | (c, v) :: t, j => if c = j then some v else rowGet t j

/-- one entry of `X_i` after the merge with row `bs`: updated iff `bs` stores its column -/
def applyAt {β γ : Type} (f : β → γ → β) (bs : Row γ) (p : Nat × β) : Nat × β :=
  (p.1, (rowGet bs p.1).elim p.2 (fun vb => f p.2 vb))

/-- one entry of `X_i` after the whole sequence of merges, in the order of the loops -/
def applyMany {β γ : Type} (ts : List ((β → γ → β) × Row γ)) (p : Nat × β) : Nat × β :=
  ts.foldl (fun q t => applyAt t.1 t.2 q) p

section GenericMap
variable {β γ : Type}

theorem rowGet_none_of_not_mem (r : Row γ) (j : Nat) (h : j ∉ rowCols r) : rowGet r j = none := by
  induction r with
  | nil => rfl
  | cons p t ih =>
    obtain ⟨c, v⟩ := p
    rw [rowCols_cons] at h
    have h1 : c ≠ j := fun e => h (e ▸ List.mem_cons_self)
    have h2 : j ∉ rowCols t := fun e => h (List.mem_cons_of_mem _ e)
    simp only [rowGet, if_neg h1, ih h2]

theorem rowGet_cons_ne (c : Nat) (v : γ) (t : Row γ) (j : Nat) (h : c ≠ j) : rowGet ((c, v) :: t) j = rowGet t j := by
  simp only [rowGet, if_neg h]

theorem applyAt_nil (f : β → γ → β) (p : Nat × β) : applyAt f [] p = p := by
  simp [applyAt, rowGet]

theorem applyAt_cons_ne (f : β → γ → β) (c : Nat) (v : γ) (t : Row γ) (p : Nat × β) (h : c ≠ p.1) :
    applyAt f ((c, v) :: t) p = applyAt f t p := by
  simp only [applyAt, rowGet_cons_ne c v t p.1 h]

/-- **merge_spec, generic form**: on sorted rows a normally returning merge is the entry-wise map "update the entry
    iff row `B_l` stores its column" — for *any* update function -/
theorem mergeRow_eq_map (allow : Bool) (f : β → γ → β) (xs : Row β) (bs : Row γ) :
    SortedCols xs → SortedCols bs → ∀ r, mergeRow allow f xs bs = .ok r → r = xs.map (applyAt f bs) := by
  induction xs, bs using mergeRow.induct allow f with
  | case1 xs =>
    intro _ _ r h; simp [mergeRow] at h; subst h
    rw [List.map_congr_left (fun p _ => applyAt_nil f p), List.map_id']
  | case2 b bs ha => intro _ _ r h; simp [mergeRow, ha] at h; subst h; rfl
  | case3 b bs ha => intro _ _ r h; simp [mergeRow, ha] at h
  | case4 vx xs cb vb bs r' h' ih =>
    intro hx hb r h
    rw [mergeRow.eq_3, if_pos rfl, h'] at h
    simp only [Except.ok.injEq] at h
    rw [← h, ih (sorted_tail hx) (sorted_tail hb) r' h', List.map_cons]
    congr 1
    · simp [applyAt, rowGet]
    · apply List.map_congr_left
      intro p hp
      have : cb < p.1 := sorted_head_lt hx (List.mem_map_of_mem (f := Prod.fst) hp)
      exact (applyAt_cons_ne f cb vb bs p (by omega)).symm
  | case5 vx xs cb vb bs e h' ih => intro _ _ r h; rw [mergeRow.eq_3, if_pos rfl, h'] at h; simp at h
  | case6 cx vx xs cb vb bs hne hlt r' h' ih =>
    intro hx hb r h
    rw [mergeRow.eq_3, if_neg hne, if_pos hlt, h'] at h
    simp only [Except.ok.injEq] at h
    rw [← h, ih (sorted_tail hx) hb r' h', List.map_cons]
    congr 1
    have h2 : cx ∉ rowCols ((cb, vb) :: bs) := by
      intro e
      rw [rowCols_cons] at e
      rcases List.mem_cons.mp e with e | e
      · omega
      · have := sorted_head_lt hb e; omega
    simp [applyAt, rowGet_none_of_not_mem _ cx h2]
  | case7 cx vx xs cb vb bs hne hlt e h' ih =>
    intro _ _ r h; rw [mergeRow.eq_3, if_neg hne, if_pos hlt, h'] at h; simp at h
  | case8 cx vx xs cb vb bs hne hnlt ha ih =>
    intro hx hb r h
    rw [mergeRow.eq_3, if_neg hne, if_neg hnlt, if_pos ha] at h
    rw [ih hx (sorted_tail hb) r h]
    apply List.map_congr_left
    intro p hp
    have hge : cx ≤ p.1 := by
      rcases List.mem_cons.mp hp with e | e
      · rw [e]
      · exact Nat.le_of_lt (sorted_head_lt hx (List.mem_map_of_mem (f := Prod.fst) e))
    exact (applyAt_cons_ne f cb vb bs p (by omega)).symm
  | case9 cx vx xs cb vb bs hne hnlt ha =>
    intro _ _ r h; rw [mergeRow.eq_3, if_neg hne, if_neg hnlt, if_neg ha] at h; simp at h

theorem mergeMany_eq_map (allow : Bool) (ts : List ((β → γ → β) × Row γ)) :
    ∀ xs : Row β, SortedCols xs → (∀ t ∈ ts, SortedCols t.2) → ∀ r, mergeMany allow xs ts = .ok r →
      r = xs.map (applyMany ts) := by
  induction ts with
  | nil =>
    intro xs _ _ r h; simp [mergeMany] at h; subst h
    exact (List.map_id' _).symm
  | cons t ts ih =>
    intro xs hx hs r h
    obtain ⟨f, br⟩ := t
    simp only [mergeMany] at h
    cases h1 : mergeRow allow f xs br with
    | error e => rw [h1] at h; simp at h
    | ok r1 =>
      rw [h1] at h
      have hc := mergeRow_cols allow f xs br r1 h1
      have hs1 : SortedCols r1 := by unfold SortedCols; rw [hc]; exact hx
      rw [ih r1 hs1 (fun t ht => hs t (List.mem_cons_of_mem _ ht)) r h,
        mergeRow_eq_map allow f xs br hx (hs _ List.mem_cons_self) r1 h1, List.map_map]
      apply List.map_congr_left
      intro p _
      simp [applyMany]

theorem applyMany_fst (ts : List ((β → γ → β) × Row γ)) (p : Nat × β) : (applyMany ts p).1 = p.1 := by
  unfold applyMany
  induction ts generalizing p with
  | nil => rfl
  | cons t ts ih => rw [List.foldl_cons, ih]; rfl

/-- the value of an entry after all merges: fold of the updates whose row stores the entry's column -/
theorem applyMany_snd (ts : List ((β → γ → β) × Row γ)) (p : Nat × β) :
    (applyMany ts p).2 = ts.foldl (fun acc t => (rowGet t.2 p.1).elim acc (fun vb => t.1 acc vb)) p.2 := by
  unfold applyMany
  induction ts generalizing p with
  | nil => rfl
  | cons t ts ih =>
    rw [List.foldl_cons, List.foldl_cons, ih]
    rfl

end GenericMap
end FeatModel.LA.MatAlg
