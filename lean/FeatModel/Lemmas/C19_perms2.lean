import FeatModel.Model.Adjacency
import FeatModel.Model.AdjKernels
import FeatModel.Lemmas.C19_perms
/-! C19 lemmas, group `perms2` (statements fixed by Props/C19.statements; proofs to be filled in) -/
open FeatModel.Adj

namespace C19L.perms2
open C19L.perms

theorem inverse_inverse (p : List Nat) (h : Perm.isBijection p = true) :
    Perm.invPerm (Perm.invPerm p) = p := by
  obtain ⟨hq, h1, h2⟩ := invPerm_spec p h
  obtain ⟨_, g1, g2⟩ := invPerm_spec (Perm.invPerm p) hq
  have hl := invPerm_length p
  apply list_ext_getD
  · rw [invPerm_length, invPerm_length]
  · intro m hm
    rw [invPerm_length, invPerm_length] at hm
    have hk := h2 m hm
    have hlt : p.getD m 0 < p.length := isBij_getD_lt p h m hm
    have := g1 (p.getD m 0) (by rw [hl]; exact hlt)
    rw [h1 m hm] at this
    exact this

theorem concat_inverse (p : List Nat) (h : Perm.isBijection p = true) :
    (p.map fun k => (Perm.invPerm p).getD k 0) = List.range p.length ∧
    ((Perm.invPerm p).map fun k => p.getD k 0) = List.range p.length := by
  obtain ⟨hq, h1, h2⟩ := invPerm_spec p h
  have hl := invPerm_length p
  constructor
  · apply list_ext_getD
    · simp
    · intro m hm
      have hm' : m < p.length := by simpa using hm
      have := h1 m hm'
      simp only [List.getD_eq_getElem?_getD, hm', List.getElem?_map, List.getElem?_eq_getElem,
        Option.map_some, Option.getD_some, List.getElem?_range] at this ⊢
      exact this
  · apply list_ext_getD
    · simp [hl]
    · intro m hm
      have hm' : m < p.length := by simpa [hl] using hm
      have hm2 : m < (Perm.invPerm p).length := by omega
      have := h2 m hm'
      simp only [List.getD_eq_getElem?_getD, hm', hm2, List.getElem?_map, List.getElem?_eq_getElem,
        Option.map_some, Option.getD_some, List.getElem?_range] at this ⊢
      exact this

theorem self_concat {α : Type} [Inhabited α] (p : List Nat) (x : List α) (h : Perm.isBijection p = true)
    (hx : x.length = p.length) :
    Perm.isBijection (p.map fun k => p.getD k 0) = true ∧
    Perm.applyPerm (p.map fun k => p.getD k 0) x = Perm.applyPerm p (Perm.applyPerm p x) :=
  concat_composes p p x h h rfl hx

theorem random_ctor_bijection (s : List Nat) (hn : 0 < s.length)
    (hs : ∀ i, i + 1 < s.length → i ≤ s.getD i 0 ∧ s.getD i 0 < s.length) (hl : s.getD (s.length - 1) 0 = s.length - 1) :
    Perm.isBijection (Perm.permFromSwap s) = true := by
  apply permFromSwap_bijection
  intro i hi
  by_cases c : i + 1 < s.length
  · exact hs i c
  · have : i = s.length - 1 := by omega
    subst this
    rw [hl]; omega

theorem graph_permuted_spec (g : Graph) (dp ip : List Nat) (hd : Perm.isBijection dp = true)
    (hlen : dp.length = g.nDom) (i : Nat) (hi : i < g.nDom) :
    (g.permuted dp ip).nDom = g.nDom ∧ (g.permuted dp ip).nImg = g.nImg ∧
    (g.permuted dp ip).row i = (g.row (dp.getD i 0)).map fun k => ip.getD k 0 := by
  have _ := hd
  refine ⟨?_, rfl, ?_⟩
  · simp [Graph.permuted, Graph.nDom, hlen] at *
  · have hi' : i < dp.length := by omega
    simp [Graph.permuted, Graph.row, List.getD_eq_getElem?_getD, hi']

end C19L.perms2
