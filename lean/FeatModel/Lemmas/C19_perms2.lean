import FeatModel.Model.Adjacency
import FeatModel.Model.AdjKernels
import FeatModel.Lemmas.C19_perms
/-! C19 lemmas, group `perms2` (statements fixed by Props/C19.statements; proofs to be filled in) -/
open FeatModel.Adj

namespace C19L.perms2
open C19L.perms

theorem inverse_inverse (p : List Nat) (h : Perm.isBijection p = true) :
    Perm.invPerm (Perm.invPerm p) = p := by
  obtain ⟨hq, h1, h2⟩ := invPerm_spec p h
  obtain ⟨_, g1, g2⟩ := invPerm_spec (Perm.invPerm p) hq
  have hl := invPerm_length p
  apply list_ext_getD
  · rw [invPerm_length, invPerm_length]
  · intro m hm
    rw [invPerm_length, invPerm_length] at hm
    have hk := h2 m hm
    have hlt : p.getD m 0 < p.length := isBij_getD_lt p h m hm
    have := g1 (p.getD m 0) (by rw [hl]; exact hlt)
    rw [h1 m hm] at this
    exact this

theorem concat_inverse (p : List Nat) (h : Perm.isBijection p = true) :
    (p.map fun k => (Perm.invPerm p).getD k 0) = List.range p.length ∧
    ((Perm.invPerm p).map fun k => p.getD k 0) = List.range p.length := by
  obtain ⟨hq, h1, h2⟩ := invPerm_spec p h
  have hl := invPerm_length p
  constructor
  · apply list_ext_getD
    · simp
    · intro m hm
      have hm' : m < p.length := by simpa using hm
      have := h1 m hm'
      simp only [List.getD_eq_getElem?_getD, hm', List.getElem?_map, List.getElem?_eq_getElem,
        Option.map_some, Option.getD_some, List.getElem?_range] at this ⊢
      exact this
  · apply list_ext_getD
    · simp [hl]
    · intro m hm
      have hm' : m < p.length := by simpa [hl] using hm
      have hm2 : m < (Perm.invPerm p).length := by omega
      have := h2 m hm'
      simp only [List.getD_eq_getElem?_getD, hm', hm2, List.getElem?_map, List.getElem?_eq_getElem,
        Option.map_some, Option.getD_some, List.getElem?_range] at this ⊢
      exact this

theorem self_concat {α : Type} [Inhabited α] (p : List Nat) (x : List α) (h : Perm.isBijection p = true)
    (hx : x.length = p.length) :
    Perm.isBijection (p.map fun k => p.getD k 0) = true ∧
    Perm.applyPerm (p.map fun k => p.getD k 0) x = Perm.applyPerm p (Perm.applyPerm p x) :=
  concat_composes p p x h h rfl hx

def caStep (c : Array Nat) (a : Array Nat) (i : Nat) : Array Nat := a.setIfInBounds i (c.getD (a.getD i 0) 0)

theorem caStep_size (c a : Array Nat) (i : Nat) : (caStep c a i).size = a.size := by
  simp [caStep]

theorem caStep_getD (c a : Array Nat) (i j : Nat) (hi : i < a.size) :
    (caStep c a i).getD j 0 = if j = i then c.getD (a.getD i 0) 0 else a.getD j 0 := by
  unfold caStep
  simp only [Array.getD_eq_getD_getElem?, Array.getElem?_setIfInBounds]
  by_cases h : i = j
  · subst h; simp [hi]
  · have h' : ¬ j = i := fun e => h e.symm
    simp [h, h']

/-- the aliased in-place loop after `k` steps: entries below `k` are composed, the rest untouched -/
theorem concatAliased_loop (p : List Nat) : ∀ k, k ≤ p.length →
    ((List.range k).foldl (caStep p.toArray) p.toArray).size = p.length ∧
    ∀ j, ((List.range k).foldl (caStep p.toArray) p.toArray).getD j 0 =
      if j < k then p.getD (p.getD j 0) 0 else p.getD j 0 := by
  intro k
  induction k with
  | zero =>
    intro _
    refine ⟨by simp, ?_⟩
    intro j
    simp [Array.getD_eq_getD_getElem?, List.getD_eq_getElem?_getD]
  | succ k ih =>
    intro hk
    obtain ⟨hs, hg⟩ := ih (by omega)
    rw [List.range_succ, List.foldl_append]
    simp only [List.foldl_cons, List.foldl_nil]
    refine ⟨by rw [caStep_size, hs], ?_⟩
    intro j
    rw [caStep_getD _ _ _ _ (by omega)]
    have hk' := hg k
    simp only [Nat.lt_irrefl, if_false] at hk'
    rw [hk']
    by_cases hjk : j = k
    · subst hjk
      simp [Array.getD_eq_getD_getElem?, List.getD_eq_getElem?_getD]
    · rw [if_neg hjk, hg j]
      by_cases c : j < k
      · have : j < k + 1 := by omega
        simp [c, this]
      · have : ¬ j < k + 1 := by omega
        simp [c, this]

theorem concatAliased_eq (p : List Nat) : Perm.concatAliased p = p.map fun k => p.getD k 0 := by
  have hdef : Perm.concatAliased p = ((List.range p.length).foldl (caStep p.toArray) p.toArray).toList := rfl
  rw [hdef]
  obtain ⟨hs, hg⟩ := concatAliased_loop p p.length (Nat.le_refl _)
  apply list_ext_getD
  · rw [Array.length_toList, hs, List.length_map]
  · intro m hm
    rw [Array.length_toList, hs] at hm
    have h1 := hg m
    rw [if_pos hm] at h1
    have h2 : ((List.range p.length).foldl (caStep p.toArray) p.toArray).toList.getD m 0 =
        ((List.range p.length).foldl (caStep p.toArray) p.toArray).getD m 0 := by
      simp [Array.getD_eq_getD_getElem?, List.getD_eq_getElem?_getD]
    rw [h2, h1]
    simp [List.getD_eq_getElem?_getD, hm]

theorem self_concat_aliased {α : Type} [Inhabited α] (p : List Nat) (x : List α) (h : Perm.isBijection p = true)
    (hx : x.length = p.length) :
    Perm.concatAliased p = (p.map fun k => p.getD k 0) ∧
    Perm.isBijection (Perm.concatAliased p) = true ∧
    Perm.applyPerm (Perm.concatAliased p) x = Perm.applyPerm p (Perm.applyPerm p x) ∧
    Perm.applyPermInv (Perm.concatAliased p) (Perm.applyPerm (Perm.concatAliased p) x) = x := by
  have he := concatAliased_eq p
  have hc := concat_composes p p x h h rfl hx
  refine ⟨he, ?_, ?_, ?_⟩
  · rw [he]; exact hc.1
  · rw [he]; exact hc.2
  · rw [he]
    exact (applyPermInv_undoes _ hc.1 x (by simpa using hx)).1

theorem random_ctor_bijection (s : List Nat)
    (hs : ∀ i, i + 1 < s.length → i ≤ s.getD i 0 ∧ s.getD i 0 < s.length) (hl : s.getD (s.length - 1) 0 = s.length - 1) :
    Perm.isBijection (Perm.permFromSwap s) = true := by
  apply permFromSwap_bijection
  intro i hi
  by_cases c : i + 1 < s.length
  · exact hs i c
  · have : i = s.length - 1 := by omega
    subst this
    rw [hl]; omega

theorem graph_permuted_spec (g : Graph) (dp ip : List Nat) (hlen : dp.length = g.nDom) (i : Nat) (hi : i < g.nDom) :
    (g.permuted dp ip).nDom = g.nDom ∧ (g.permuted dp ip).nImg = g.nImg ∧
    (g.permuted dp ip).row i = (g.row (dp.getD i 0)).map fun k => ip.getD k 0 := by
  refine ⟨?_, rfl, ?_⟩
  · simp [Graph.permuted, Graph.nDom, hlen] at *
  · have hi' : i < dp.length := by omega
    simp [Graph.permuted, Graph.row, List.getD_eq_getElem?_getD, hi']

end C19L.perms2
