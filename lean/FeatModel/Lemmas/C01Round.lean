import Mathlib.Algebra.Order.Field.Rat
import Mathlib.Algebra.Order.Ring.Abs
import Mathlib.Algebra.Order.BigOperators.Group.Finset
import Mathlib.Tactic.Linarith
import Mathlib.Tactic.Ring
import FeatModel.Lemmas.C01Csr
import FeatModel.Model.LA.Bcsr
/-!
Tier B: the "up to rounding" clause as a theorem about an abstract floating-point arithmetic.
`FlModel` is the standard model (Higham): `fl(a ∘ b) = (a ∘ b)(1 + δ)`, `|δ| ≤ u`, for `∘ ∈ {+, ·}`.
`FlNum M` carries these operations as its `Add` / `Mul` instances, so the *same* model function `Csr.rowSum`
that the driver runs at ℚ is, at the scalar type `FlNum M`, the floating-point kernel loop.
-/
namespace FeatModel.LA

structure FlModel where
  u : Rat
  u_nonneg : 0 ≤ u
  add : Rat → Rat → Rat
  mul : Rat → Rat → Rat
  add_spec : ∀ a b, ∃ d, |d| ≤ u ∧ add a b = (a + b) * (1 + d)
  mul_spec : ∀ a b, ∃ d, |d| ≤ u ∧ mul a b = (a * b) * (1 + d)

/-- a number of the floating-point arithmetic `M` (its value as a rational) -/
structure FlNum (M : FlModel) where
  val : Rat

instance (M : FlModel) : Zero (FlNum M) := ⟨⟨0⟩⟩
instance (M : FlModel) : One (FlNum M) := ⟨⟨1⟩⟩
instance (M : FlModel) : Add (FlNum M) := ⟨fun a b => ⟨M.add a.val b.val⟩⟩
instance (M : FlModel) : Mul (FlNum M) := ⟨fun a b => ⟨M.mul a.val b.val⟩⟩

/-- one step `ŝ' = fl(ŝ + fl(a·b))` of the dot-product recurrence: the error constant `c` grows to `(1+u)(c+1) - 1` -/
theorem fl_step (M : FlModel) (sh s A c a b : Rat) (hc : M.u ≤ c) (hA : 0 ≤ A) (hs : |s| ≤ A)
    (he : |sh - s| ≤ c * A) :
    |M.add sh (M.mul a b) - (s + a * b)| ≤ ((1 + M.u) * (c + 1) - 1) * (A + |a * b|) ∧ |s + a * b| ≤ A + |a * b| := by
  obtain ⟨d1, hd1, e1⟩ := M.mul_spec a b
  obtain ⟨d2, hd2, e2⟩ := M.add_spec sh (a * b * (1 + d1))
  have hu := M.u_nonneg
  have hc0 : 0 ≤ c := le_trans hu hc
  refine ⟨?_, le_trans (abs_add_le _ _) (add_le_add hs (le_refl _))⟩
  rw [e1, e2]
  have hid : (sh + a * b * (1 + d1)) * (1 + d2) - (s + a * b)
      = (sh - s) * (1 + d2) + s * d2 + (a * b) * (d1 + d2 + d1 * d2) := by ring
  rw [hid]
  have h1 : |(sh - s) * (1 + d2)| ≤ c * A * (1 + M.u) := by
    rw [abs_mul]
    have : |1 + d2| ≤ 1 + M.u := le_trans (abs_add_le _ _) (by rw [abs_one]; linarith)
    exact mul_le_mul he this (abs_nonneg _) (mul_nonneg hc0 hA)
  have h2 : |s * d2| ≤ A * M.u := by
    rw [abs_mul]
    exact mul_le_mul hs hd2 (abs_nonneg _) hA
  have h3 : |(a * b) * (d1 + d2 + d1 * d2)| ≤ |a * b| * (2 * M.u + M.u * M.u) := by
    rw [abs_mul]
    apply mul_le_mul_of_nonneg_left _ (abs_nonneg _)
    have : |d1 * d2| ≤ M.u * M.u := by rw [abs_mul]; exact mul_le_mul hd1 hd2 (abs_nonneg _) hu
    calc |d1 + d2 + d1 * d2| ≤ |d1 + d2| + |d1 * d2| := abs_add_le _ _
      _ ≤ |d1| + |d2| + |d1 * d2| := by linarith [abs_add_le d1 d2]
      _ ≤ 2 * M.u + M.u * M.u := by linarith
  have habs : 0 ≤ |a * b| := abs_nonneg _
  have key : c * A * (1 + M.u) + A * M.u + |a * b| * (2 * M.u + M.u * M.u)
      ≤ ((1 + M.u) * (c + 1) - 1) * (A + |a * b|) := by
    have : |a * b| * (M.u * (1 + M.u)) ≤ |a * b| * (c * (1 + M.u)) :=
      mul_le_mul_of_nonneg_left (mul_le_mul_of_nonneg_right hc (by linarith)) habs
    nlinarith [this]
  calc |(sh - s) * (1 + d2) + s * d2 + (a * b) * (d1 + d2 + d1 * d2)|
      ≤ |(sh - s) * (1 + d2)| + |s * d2| + |(a * b) * (d1 + d2 + d1 * d2)| := by
        linarith [abs_add_le ((sh - s) * (1 + d2) + s * d2) ((a * b) * (d1 + d2 + d1 * d2)),
          abs_add_le ((sh - s) * (1 + d2)) (s * d2)]
    _ ≤ c * A * (1 + M.u) + A * M.u + |a * b| * (2 * M.u + M.u * M.u) := by linarith
    _ ≤ _ := key

/-- the floating-point dot-product loop over an index list: after `n` terms the error is at most
    `((1+u)^n (c+1) - 1) · Σ|a_k b_k|` -/
theorem fl_fold (M : FlModel) (a b : Nat → Rat) : ∀ (L : List Nat) (sh s A c : Rat), M.u ≤ c → 0 ≤ A → |s| ≤ A →
    |sh - s| ≤ c * A →
    |L.foldl (fun acc k => M.add acc (M.mul (a k) (b k))) sh - (s + (L.map fun k => a k * b k).sum)|
      ≤ ((1 + M.u) ^ L.length * (c + 1) - 1) * (A + (L.map fun k => |a k * b k|).sum)
  | [], sh, s, A, c, _, _, _, he => by simpa using he
  | k :: L, sh, s, A, c, hc, hA, hs, he => by
    obtain ⟨g1, g2⟩ := fl_step M sh s A c (a k) (b k) hc hA hs he
    have hu := M.u_nonneg
    have hc' : M.u ≤ (1 + M.u) * (c + 1) - 1 := by nlinarith
    have ih := fl_fold M a b L (M.add sh (M.mul (a k) (b k))) (s + a k * b k) (A + |a k * b k|)
      ((1 + M.u) * (c + 1) - 1) hc' (add_nonneg hA (abs_nonneg _)) g2 g1
    simp only [List.foldl_cons, List.map_cons, List.sum_cons, List.length_cons]
    have e1 : s + (a k * b k + (L.map fun k => a k * b k).sum) = s + a k * b k + (L.map fun k => a k * b k).sum := by ring
    have e2 : A + (|a k * b k| + (L.map fun k => |a k * b k|).sum) = A + |a k * b k| + (L.map fun k => |a k * b k|).sum := by ring
    have e3 : (1 + M.u) ^ (L.length + 1) * (c + 1) - 1 = (1 + M.u) ^ L.length * ((1 + M.u) * (c + 1) - 1 + 1) - 1 := by ring
    rw [e1, e2, e3]
    exact ih

/-- **`fl_dot_error`**, lifted to a CSR row: the row loop of `csr_generic` run in the floating-point arithmetic `M`
    (`Csr.rowSum` at the scalar type `FlNum M`, i.e. `sum = fl(sum + fl(val[k]·x[col[k]]))` from `sum = 0`) differs from
    the exact row sum by at most `((1+u)^(n+1) - 1) · Σ_k |val_k|·|x_{col k}|`, `n` = number of stored entries of the row.
    (`(1+u)^(n+1) - 1 ≤ γ_{n+1} = (n+1)u / (1 - (n+1)u)`; the `+1` is the addition onto the initial 0, which IEEE performs
    exactly but the abstract model may round.) -/
theorem fl_rowSum_error (M : FlModel) (A : Csr (FlNum M)) (x : Array (FlNum M)) (i : Nat) :
    let ks := List.range' (A.rowBegin i) (A.rowEnd i - A.rowBegin i)
    |(A.rowSum x i).val - (ks.map fun k => (A.val.getD k 0).val * (x.getD (A.colInd.getD k 0) 0).val).sum|
      ≤ ((1 + M.u) ^ (ks.length + 1) - 1)
          * (ks.map fun k => |(A.val.getD k 0).val * (x.getD (A.colInd.getD k 0) 0).val|).sum := by
  intro ks
  have hfold : ∀ (L : List Nat) (acc : FlNum M),
      (L.foldl (fun sum k => sum + A.val.getD k 0 * x.getD (A.colInd.getD k 0) 0) acc).val
        = L.foldl (fun acc k => M.add acc (M.mul (A.val.getD k 0).val (x.getD (A.colInd.getD k 0) 0).val)) acc.val := by
    intro L
    induction L with
    | nil => intro acc; rfl
    | cons k L ih => intro acc; rw [List.foldl_cons, List.foldl_cons, ih]; rfl
  have h := fl_fold M (fun k => (A.val.getD k 0).val) (fun k => (x.getD (A.colInd.getD k 0) 0).val) ks 0 0 0 M.u
    (le_refl _) (le_refl _) (by simp) (by simp)
  have hrs : (A.rowSum x i).val
      = ks.foldl (fun acc k => M.add acc (M.mul (A.val.getD k 0).val (x.getD (A.colInd.getD k 0) 0).val)) 0 := by
    unfold Csr.rowSum foldRange
    rw [hfold]; rfl
  rw [hrs]
  have e : (1 + M.u) ^ ks.length * (M.u + 1) - 1 = (1 + M.u) ^ (ks.length + 1) - 1 := by ring
  simpa [e] using h

/-! ### the generic form: arbitrary term error `τ`, the bound `γ_n = n u / (1 - n u)` -/

/-- `γ_n = n u / (1 - n u)` -/
def gammaFl (u : Rat) (n : Nat) : Rat := n * u / (1 - n * u)

theorem pow_mul_le_one (u : Rat) (hu : 0 ≤ u) : ∀ n : Nat, (n : Rat) * u < 1 → (1 + u) ^ n * (1 - n * u) ≤ 1
  | 0, _ => by simp
  | n + 1, h => by
    have hn : (n : Rat) * u < 1 := by
      have : (n : Rat) * u ≤ ((n + 1 : Nat) : Rat) * u := by
        apply mul_le_mul_of_nonneg_right _ hu
        exact_mod_cast Nat.le_succ n
      linarith
    have ih := pow_mul_le_one u hu n hn
    have hp : 0 ≤ (1 + u) ^ n := pow_nonneg (by linarith) n
    have hcast : ((n + 1 : Nat) : Rat) = (n : Rat) + 1 := by push_cast; ring
    rw [hcast] at h ⊢
    have key : (1 + u) * (1 - ((n : Rat) + 1) * u) ≤ 1 - (n : Rat) * u := by nlinarith [mul_nonneg hu hu, mul_nonneg (Nat.cast_nonneg (α := Rat) n) (mul_nonneg hu hu)]
    calc (1 + u) ^ (n + 1) * (1 - ((n : Rat) + 1) * u) = (1 + u) ^ n * ((1 + u) * (1 - ((n : Rat) + 1) * u)) := by ring
      _ ≤ (1 + u) ^ n * (1 - (n : Rat) * u) := mul_le_mul_of_nonneg_left key hp
      _ ≤ 1 := ih

/-- `(1+u)^n - 1 ≤ γ_n` whenever `n u < 1` -/
theorem pow_sub_one_le_gamma (u : Rat) (hu : 0 ≤ u) (n : Nat) (h : (n : Rat) * u < 1) :
    (1 + u) ^ n - 1 ≤ gammaFl u n := by
  unfold gammaFl
  have hd : 0 < 1 - (n : Rat) * u := by linarith
  rw [le_div_iff₀ hd]
  have := pow_mul_le_one u hu n h
  nlinarith

/-- one step with a term that was computed with relative error at most `τ` -/
theorem fl_step_gen (M : FlModel) (sh s A c t th τ : Rat) (hτ : |th - t| ≤ τ * |t|) (hτ0 : 0 ≤ τ) (hc : τ ≤ c)
    (hA : 0 ≤ A) (hs : |s| ≤ A) (he : |sh - s| ≤ c * A) :
    |M.add sh th - (s + t)| ≤ ((1 + M.u) * (c + 1) - 1) * (A + |t|) ∧ |s + t| ≤ A + |t| := by
  obtain ⟨d2, hd2, e2⟩ := M.add_spec sh th
  have hu := M.u_nonneg
  have hc0 : 0 ≤ c := le_trans hτ0 hc
  refine ⟨?_, le_trans (abs_add_le _ _) (add_le_add hs (le_refl _))⟩
  rw [e2]
  have hid : (sh + th) * (1 + d2) - (s + t) = (sh - s) * (1 + d2) + s * d2 + ((th - t) * (1 + d2) + t * d2) := by ring
  rw [hid]
  have h12 : |1 + d2| ≤ 1 + M.u := le_trans (abs_add_le _ _) (by rw [abs_one]; linarith)
  have h1 : |(sh - s) * (1 + d2)| ≤ c * A * (1 + M.u) := by
    rw [abs_mul]; exact mul_le_mul he h12 (abs_nonneg _) (mul_nonneg hc0 hA)
  have h2 : |s * d2| ≤ A * M.u := by
    rw [abs_mul]; exact mul_le_mul hs hd2 (abs_nonneg _) hA
  have habs : 0 ≤ |t| := abs_nonneg _
  have h3 : |(th - t) * (1 + d2) + t * d2| ≤ |t| * (τ * (1 + M.u) + M.u) := by
    have a1 : |(th - t) * (1 + d2)| ≤ τ * |t| * (1 + M.u) := by
      rw [abs_mul]; exact mul_le_mul hτ h12 (abs_nonneg _) (mul_nonneg hτ0 habs)
    have a2 : |t * d2| ≤ |t| * M.u := by
      rw [abs_mul]; exact mul_le_mul_of_nonneg_left hd2 habs
    calc |(th - t) * (1 + d2) + t * d2| ≤ |(th - t) * (1 + d2)| + |t * d2| := abs_add_le _ _
      _ ≤ τ * |t| * (1 + M.u) + |t| * M.u := by linarith
      _ = |t| * (τ * (1 + M.u) + M.u) := by ring
  have key : c * A * (1 + M.u) + A * M.u + |t| * (τ * (1 + M.u) + M.u) ≤ ((1 + M.u) * (c + 1) - 1) * (A + |t|) := by
    have : |t| * (τ * (1 + M.u)) ≤ |t| * (c * (1 + M.u)) :=
      mul_le_mul_of_nonneg_left (mul_le_mul_of_nonneg_right hc (by linarith)) habs
    nlinarith [this]
  calc |(sh - s) * (1 + d2) + s * d2 + ((th - t) * (1 + d2) + t * d2)|
      ≤ |(sh - s) * (1 + d2)| + |s * d2| + |(th - t) * (1 + d2) + t * d2| := by
        linarith [abs_add_le ((sh - s) * (1 + d2) + s * d2) ((th - t) * (1 + d2) + t * d2),
          abs_add_le ((sh - s) * (1 + d2)) (s * d2)]
    _ ≤ c * A * (1 + M.u) + A * M.u + |t| * (τ * (1 + M.u) + M.u) := by linarith
    _ ≤ _ := key

/-- **the generic accumulation lemma** shared by every kernel loop: `acc ← fl(acc + t̂_k)` over any index list, where the
    term `t̂_k` approximates `t_k` with relative error `τ`: after `n` terms the error is `≤ ((1+u)^n (c+1) - 1)·Σ|t_k|` -/
theorem fl_fold_gen (M : FlModel) {ι : Type} (t th : ι → Rat) (τ : Rat) (hτ0 : 0 ≤ τ)
    (hτ : ∀ k, |th k - t k| ≤ τ * |t k|) : ∀ (L : List ι) (sh s A c : Rat), τ ≤ c → 0 ≤ A → |s| ≤ A →
    |sh - s| ≤ c * A →
    |L.foldl (fun acc k => M.add acc (th k)) sh - (s + (L.map t).sum)|
      ≤ ((1 + M.u) ^ L.length * (c + 1) - 1) * (A + (L.map fun k => |t k|).sum)
  | [], sh, s, A, c, _, _, _, he => by simpa using he
  | k :: L, sh, s, A, c, hc, hA, hs, he => by
    obtain ⟨g1, g2⟩ := fl_step_gen M sh s A c (t k) (th k) τ (hτ k) hτ0 hc hA hs he
    have hu := M.u_nonneg
    have hc' : τ ≤ (1 + M.u) * (c + 1) - 1 := by nlinarith [le_trans hτ0 hc]
    have ih := fl_fold_gen M t th τ hτ0 hτ L (M.add sh (th k)) (s + t k) (A + |t k|)
      ((1 + M.u) * (c + 1) - 1) hc' (add_nonneg hA (abs_nonneg _)) g2 g1
    simp only [List.foldl_cons, List.map_cons, List.sum_cons, List.length_cons]
    have e1 : s + (t k + (L.map t).sum) = s + t k + (L.map t).sum := by ring
    have e2 : A + (|t k| + (L.map fun k => |t k|).sum) = A + |t k| + (L.map fun k => |t k|).sum := by ring
    have e3 : (1 + M.u) ^ (L.length + 1) * (c + 1) - 1 = (1 + M.u) ^ L.length * ((1 + M.u) * (c + 1) - 1 + 1) - 1 := by ring
    rw [e1, e2, e3]
    exact ih

theorem mul_term_error (M : FlModel) (a b : Rat) : |M.mul a b - a * b| ≤ M.u * |a * b| := by
  obtain ⟨d, hd, e⟩ := M.mul_spec a b
  rw [e]
  have : a * b * (1 + d) - a * b = a * b * d := by ring
  rw [this, abs_mul, mul_comm]
  exact mul_le_mul_of_nonneg_right hd (abs_nonneg _)

/-- the row loop `sum = 0; for k in [s, e): sum += a_k * b_k` that the CSR, CSCR, dense and banded kernels share, run in the
    floating-point arithmetic `M`: **`|fl(Σ a_k b_k) − Σ a_k b_k| ≤ γ_{n+1}·Σ|a_k||b_k|`**, `n = e − s`, `(n+1)u < 1` -/
theorem fl_foldRange_error (M : FlModel) (a b : Nat → FlNum M) (s e : Nat) (hn : ((e - s + 1 : Nat) : Rat) * M.u < 1) :
    |(foldRange s e (fun sum k => sum + a k * b k) 0).val - ∑ k ∈ Finset.Ico s e, (a k).val * (b k).val|
      ≤ gammaFl M.u (e - s + 1) * ∑ k ∈ Finset.Ico s e, |(a k).val| * |(b k).val| := by
  have hfold : ∀ (L : List Nat) (acc : FlNum M),
      (L.foldl (fun sum k => sum + a k * b k) acc).val
        = L.foldl (fun acc k => M.add acc (M.mul (a k).val (b k).val)) acc.val := by
    intro L
    induction L with
    | nil => intro acc; rfl
    | cons k L ih => intro acc; rw [List.foldl_cons, List.foldl_cons, ih]; rfl
  have h := fl_fold_gen M (fun k => (a k).val * (b k).val) (fun k => M.mul (a k).val (b k).val) M.u M.u_nonneg
    (fun k => mul_term_error M _ _) (List.range' s (e - s)) 0 0 0 M.u (le_refl _) (le_refl _) (by simp) (by simp)
  have hsum : ∀ (f : Nat → Rat), ((List.range' s (e - s)).map f).sum = ∑ k ∈ Finset.Ico s e, f k := by
    intro f
    have := foldl_range'_add f (e - s) s 0
    rw [zero_add, ← Finset.sum_Ico_eq_sum_range] at this
    rw [← this]
    generalize List.range' s (e - s) = L
    have : ∀ (L : List Nat) (acc : Rat), L.foldl (fun acc k => acc + f k) acc = acc + (L.map f).sum := by
      intro L
      induction L with
      | nil => intro acc; simp
      | cons k L ih => intro acc; rw [List.foldl_cons, ih, List.map_cons, List.sum_cons]; ring
    rw [this L 0, zero_add]
  unfold foldRange
  rw [hfold]
  simp only [List.length_range', zero_add] at h
  rw [hsum, hsum] at h
  have e1 : (1 + M.u) ^ (e - s) * (M.u + 1) - 1 = (1 + M.u) ^ (e - s + 1) - 1 := by ring
  rw [e1] at h
  have hg := pow_sub_one_le_gamma M.u M.u_nonneg (e - s + 1) hn
  have hnn : 0 ≤ ∑ k ∈ Finset.Ico s e, |(a k).val * (b k).val| := Finset.sum_nonneg (fun _ _ => abs_nonneg _)
  have habs : ∑ k ∈ Finset.Ico s e, |(a k).val * (b k).val| = ∑ k ∈ Finset.Ico s e, |(a k).val| * |(b k).val| :=
    Finset.sum_congr rfl (fun k _ => abs_mul _ _)
  rw [← habs]
  exact le_trans h (mul_le_mul_of_nonneg_right hg hnn)

/-- without the first-addition slack: if the arithmetic adds onto 0 exactly (`fl(0 + b) = b`, true for IEEE), the row loop
    over `n = e - s ≥ 1` terms satisfies the textbook bound with **`γ_n`** -/
theorem fl_foldRange_error_exact0 (M : FlModel) (h0 : ∀ b, M.add 0 b = b) (a b : Nat → FlNum M) (s e : Nat) (hse : s < e)
    (hn : ((e - s : Nat) : Rat) * M.u < 1) :
    |(foldRange s e (fun sum k => sum + a k * b k) 0).val - ∑ k ∈ Finset.Ico s e, (a k).val * (b k).val|
      ≤ gammaFl M.u (e - s) * ∑ k ∈ Finset.Ico s e, |(a k).val| * |(b k).val| := by
  have hfold : ∀ (L : List Nat) (acc : FlNum M),
      (L.foldl (fun sum k => sum + a k * b k) acc).val
        = L.foldl (fun acc k => M.add acc (M.mul (a k).val (b k).val)) acc.val := by
    intro L
    induction L with
    | nil => intro acc; rfl
    | cons k L ih => intro acc; rw [List.foldl_cons, List.foldl_cons, ih]; rfl
  obtain ⟨n, hn'⟩ : ∃ n, e - s = n + 1 := ⟨e - s - 1, by omega⟩
  have hsum : ∀ (f : Nat → Rat), ((List.range' s (e - s)).map f).sum = ∑ k ∈ Finset.Ico s e, f k := by
    intro f
    have := foldl_range'_add f (e - s) s 0
    rw [zero_add, ← Finset.sum_Ico_eq_sum_range] at this
    rw [← this]
    generalize List.range' s (e - s) = L
    have : ∀ (L : List Nat) (acc : Rat), L.foldl (fun acc k => acc + f k) acc = acc + (L.map f).sum := by
      intro L
      induction L with
      | nil => intro acc; simp
      | cons k L ih => intro acc; rw [List.foldl_cons, ih, List.map_cons, List.sum_cons]; ring
    rw [this L 0, zero_add]
  have h := fl_fold_gen M (fun k => (a k).val * (b k).val) (fun k => M.mul (a k).val (b k).val) M.u M.u_nonneg
    (fun k => mul_term_error M _ _) (List.range' (s + 1) n) (M.mul (a s).val (b s).val) ((a s).val * (b s).val)
    |(a s).val * (b s).val| M.u (le_refl _) (abs_nonneg _) (le_refl _) (mul_term_error M _ _)
  unfold foldRange
  rw [hfold]
  have hsplit : List.range' s (e - s) = s :: List.range' (s + 1) n := by rw [hn', List.range'_succ]
  have hlist : ∀ (f : Nat → Rat), f s + ((List.range' (s + 1) n).map f).sum = ∑ k ∈ Finset.Ico s e, f k := by
    intro f
    rw [← hsum f, hsplit, List.map_cons, List.sum_cons]
  rw [hsplit, List.foldl_cons]
  have e0 : M.add (0 : FlNum M).val (M.mul (a s).val (b s).val) = M.mul (a s).val (b s).val := h0 _
  rw [e0]
  simp only [List.length_range'] at h
  rw [hlist (fun k => (a k).val * (b k).val), hlist (fun k => |(a k).val * (b k).val|)] at h
  have e1 : (1 + M.u) ^ n * (M.u + 1) - 1 = (1 + M.u) ^ (e - s) - 1 := by rw [hn']; ring
  rw [e1] at h
  have hg := pow_sub_one_le_gamma M.u M.u_nonneg (e - s) hn
  have hnn : 0 ≤ ∑ k ∈ Finset.Ico s e, |(a k).val * (b k).val| := Finset.sum_nonneg (fun _ _ => abs_nonneg _)
  have habs : ∑ k ∈ Finset.Ico s e, |(a k).val * (b k).val| = ∑ k ∈ Finset.Ico s e, |(a k).val| * |(b k).val| :=
    Finset.sum_congr rfl (fun k _ => abs_mul _ _)
  rw [← habs]
  exact le_trans h (mul_le_mul_of_nonneg_right hg hnn)

theorem mul1_term_error (M : FlModel) (v x : Rat) :
    |M.mul (M.mul 1 v) x - v * x| ≤ (2 * M.u + M.u * M.u) * |v * x| := by
  obtain ⟨d1, hd1, e1⟩ := M.mul_spec 1 v
  obtain ⟨d2, hd2, e2⟩ := M.mul_spec (M.mul 1 v) x
  have hu := M.u_nonneg
  rw [e2, e1]
  have : 1 * v * (1 + d1) * x * (1 + d2) - v * x = v * x * (d1 + d2 + d1 * d2) := by ring
  rw [this, abs_mul, mul_comm]
  apply mul_le_mul_of_nonneg_right _ (abs_nonneg _)
  have h12 : |d1 * d2| ≤ M.u * M.u := by rw [abs_mul]; exact mul_le_mul hd1 hd2 (abs_nonneg _) hu
  calc |d1 + d2 + d1 * d2| ≤ |d1 + d2| + |d1 * d2| := abs_add_le _ _
    _ ≤ |d1| + |d2| + |d1 * d2| := by linarith [abs_add_le d1 d2]
    _ ≤ 2 * M.u + M.u * M.u := by linarith

/-- the block-row loop of `bcsr_generic` (`Bcsr.blockRowSum`: `Tiny` `add_mat_vec_mult` with its `alpha = 1` factor, i.e.
    two multiplications per term, accumulated over all blocks of the row and all `bw` components) in floating point:
    `|fl − exact| ≤ γ_{N+2}·Σ|a||x|`, `N = (blocks of the row)·bw` -/
theorem fl_bcsr_blockRow_error (M : FlModel) (A : Bcsr (FlNum M)) (x : Array (FlNum M)) (row h : Nat)
    (hn : ((((A.rowPtr.getD (row + 1) 0 - A.rowPtr.getD row 0) * A.bw + 2 : Nat)) : Rat) * M.u < 1) :
    let ks := (List.range' (A.rowPtr.getD row 0) (A.rowPtr.getD (row + 1) 0 - A.rowPtr.getD row 0)).flatMap
      fun i => (List.range' 0 (A.bw - 0)).map fun w => (i, w)
    let t := fun (p : Nat × Nat) => (A.val.getD (p.1 * A.bh * A.bw + h * A.bw + p.2) 0).val
      * (x.getD (A.colInd.getD p.1 0 * A.bw + p.2) 0).val
    |(A.blockRowSum x row h).val - (ks.map t).sum|
      ≤ gammaFl M.u ((A.rowPtr.getD (row + 1) 0 - A.rowPtr.getD row 0) * A.bw + 2) * (ks.map fun p => |t p|).sum := by
  intro ks t
  let th := fun (p : Nat × Nat) => M.mul (M.mul 1 (A.val.getD (p.1 * A.bh * A.bw + h * A.bw + p.2) 0).val)
      (x.getD (A.colInd.getD p.1 0 * A.bw + p.2) 0).val
  have hu := M.u_nonneg
  have hτ0 : 0 ≤ 2 * M.u + M.u * M.u := by nlinarith
  have hfold : (A.blockRowSum x row h).val = ks.foldl (fun acc p => M.add acc (th p)) 0 := by
    unfold Bcsr.blockRowSum foldRange
    have inner : ∀ (L : List Nat) (i : Nat) (acc : FlNum M),
        (L.foldl (fun sum w => sum + 1 * A.val.getD (i * A.bh * A.bw + h * A.bw + w) 0
          * x.getD (A.colInd.getD i 0 * A.bw + w) 0) acc).val
          = (L.map fun w => (i, w)).foldl (fun acc p => M.add acc (th p)) acc.val := by
      intro L i
      induction L with
      | nil => intro acc; rfl
      | cons w L ih => intro acc; rw [List.foldl_cons, List.map_cons, List.foldl_cons, ih]; rfl
    have outer : ∀ (L : List Nat) (acc : FlNum M),
        (L.foldl (fun sum i => (List.range' 0 (A.bw - 0)).foldl (fun sum w => sum + 1 * A.val.getD (i * A.bh * A.bw + h * A.bw + w) 0
          * x.getD (A.colInd.getD i 0 * A.bw + w) 0) sum) acc).val
          = (L.flatMap fun i => (List.range' 0 (A.bw - 0)).map fun w => (i, w)).foldl (fun acc p => M.add acc (th p)) acc.val := by
      intro L
      induction L with
      | nil => intro acc; rfl
      | cons i L ih =>
        intro acc
        rw [List.foldl_cons, ih, List.flatMap_cons, List.foldl_append, inner]
    exact outer _ 0
  have hlen : ks.length = (A.rowPtr.getD (row + 1) 0 - A.rowPtr.getD row 0) * A.bw := by
    have : ∀ (L : List Nat), (L.flatMap fun i => (List.range' 0 (A.bw - 0)).map fun w => (i, w)).length = L.length * A.bw := by
      intro L
      induction L with
      | nil => simp
      | cons i L ih => rw [List.flatMap_cons, List.length_append, ih]; simp; ring
    rw [this]; simp
  have h := fl_fold_gen M t th (2 * M.u + M.u * M.u) hτ0 (fun p => mul1_term_error M _ _) ks 0 0 0
    (2 * M.u + M.u * M.u) (le_refl _) (le_refl _) (by simp) (by simp)
  rw [hfold]
  simp only [zero_add] at h
  have e1 : (1 + M.u) ^ ks.length * (2 * M.u + M.u * M.u + 1) - 1 = (1 + M.u) ^ (ks.length + 2) - 1 := by ring
  rw [e1, hlen] at h
  have hg := pow_sub_one_le_gamma M.u hu _ hn
  have hnn : 0 ≤ (ks.map fun p => |t p|).sum := by
    apply List.sum_nonneg
    intro v hv
    obtain ⟨p, _, rfl⟩ := List.mem_map.mp hv
    exact abs_nonneg _
  exact le_trans h (mul_le_mul_of_nonneg_right hg hnn)

/-- the final step of every non-transposed kernel, `r_i = fl(fl(beta·r_i) + fl(alpha·ŝ))`, where the computed row sum `ŝ`
    carries the error `E` of the row loop: `|r̂_i − (beta·r_i + alpha·s)| ≤ (2u+u²)(|beta r_i| + |alpha s|) + (1+u)²|alpha|·E` -/
theorem fl_final_step (M : FlModel) (beta ri alpha sh s E : Rat) (hE : |sh - s| ≤ E) :
    |M.add (M.mul beta ri) (M.mul alpha sh) - (beta * ri + alpha * s)|
      ≤ (2 * M.u + M.u * M.u) * (|beta * ri| + |alpha * s|) + (1 + M.u) * (1 + M.u) * (|alpha| * E) := by
  obtain ⟨d1, hd1, e1⟩ := M.mul_spec beta ri
  obtain ⟨d2, hd2, e2⟩ := M.mul_spec alpha sh
  obtain ⟨d3, hd3, e3⟩ := M.add_spec (M.mul beta ri) (M.mul alpha sh)
  have hu := M.u_nonneg
  rw [e3, e1, e2]
  have hid : (beta * ri * (1 + d1) + alpha * sh * (1 + d2)) * (1 + d3) - (beta * ri + alpha * s)
      = beta * ri * (d1 + d3 + d1 * d3) + alpha * s * (d2 + d3 + d2 * d3) + alpha * (sh - s) * ((1 + d2) * (1 + d3)) := by
    ring
  rw [hid]
  have th : ∀ a b : Rat, |a| ≤ M.u → |b| ≤ M.u → |a + b + a * b| ≤ 2 * M.u + M.u * M.u := by
    intro a b ha hb
    have hab : |a * b| ≤ M.u * M.u := by rw [abs_mul]; exact mul_le_mul ha hb (abs_nonneg _) hu
    calc |a + b + a * b| ≤ |a + b| + |a * b| := abs_add_le _ _
      _ ≤ |a| + |b| + |a * b| := by linarith [abs_add_le a b]
      _ ≤ 2 * M.u + M.u * M.u := by linarith
  have h1 : |beta * ri * (d1 + d3 + d1 * d3)| ≤ |beta * ri| * (2 * M.u + M.u * M.u) := by
    rw [abs_mul]; exact mul_le_mul_of_nonneg_left (th d1 d3 hd1 hd3) (abs_nonneg _)
  have h2 : |alpha * s * (d2 + d3 + d2 * d3)| ≤ |alpha * s| * (2 * M.u + M.u * M.u) := by
    rw [abs_mul]; exact mul_le_mul_of_nonneg_left (th d2 d3 hd2 hd3) (abs_nonneg _)
  have h12 : ∀ d : Rat, |d| ≤ M.u → |1 + d| ≤ 1 + M.u := fun d hd =>
    le_trans (abs_add_le _ _) (by rw [abs_one]; linarith)
  have h3 : |alpha * (sh - s) * ((1 + d2) * (1 + d3))| ≤ |alpha| * E * ((1 + M.u) * (1 + M.u)) := by
    rw [abs_mul, abs_mul, abs_mul]
    have hE0 : 0 ≤ E := le_trans (abs_nonneg _) hE
    apply mul_le_mul
    · exact mul_le_mul_of_nonneg_left hE (abs_nonneg _)
    · exact mul_le_mul (h12 d2 hd2) (h12 d3 hd3) (abs_nonneg _) (by linarith)
    · exact mul_nonneg (abs_nonneg _) (abs_nonneg _)
    · exact mul_nonneg (abs_nonneg _) hE0
  calc |beta * ri * (d1 + d3 + d1 * d3) + alpha * s * (d2 + d3 + d2 * d3) + alpha * (sh - s) * ((1 + d2) * (1 + d3))|
      ≤ |beta * ri * (d1 + d3 + d1 * d3)| + |alpha * s * (d2 + d3 + d2 * d3)| + |alpha * (sh - s) * ((1 + d2) * (1 + d3))| := by
        linarith [abs_add_le (beta * ri * (d1 + d3 + d1 * d3) + alpha * s * (d2 + d3 + d2 * d3)) (alpha * (sh - s) * ((1 + d2) * (1 + d3))),
          abs_add_le (beta * ri * (d1 + d3 + d1 * d3)) (alpha * s * (d2 + d3 + d2 * d3))]
    _ ≤ _ := by nlinarith [h1, h2, h3]

/-- dropping `alpha·(A x)_i` for `|alpha| < eps` stays inside `eps·(|A||x|)_i` -/
theorem tiny_envelope (al eps yi : Rat) (hal : |al| < eps) (e xv : Nat → Rat) (n : Nat) :
    |(yi + al * ∑ k ∈ Finset.range n, e k * xv k) - yi| ≤ eps * ∑ k ∈ Finset.range n, |e k| * |xv k| := by
  rw [add_sub_cancel_left, abs_mul]
  have h1 : |∑ k ∈ Finset.range n, e k * xv k| ≤ ∑ k ∈ Finset.range n, |e k| * |xv k| := by
    refine le_trans (Finset.abs_sum_le_sum_abs _ _) (le_of_eq ?_)
    apply Finset.sum_congr rfl
    intro k _
    exact abs_mul _ _
  exact mul_le_mul (le_of_lt hal) h1 (abs_nonneg _) (le_of_lt (lt_of_le_of_lt (abs_nonneg _) hal))

end FeatModel.LA
