import Mathlib.Algebra.Order.Field.Rat
import Mathlib.Algebra.Order.Ring.Abs
import Mathlib.Algebra.Order.BigOperators.Group.Finset
import Mathlib.Tactic.Linarith
import Mathlib.Tactic.Ring
import FeatModel.Lemmas.C01Csr
/-!
Tier B: the "up to rounding" clause as a theorem about an abstract floating-point arithmetic.
`FlModel` is the standard model (Higham): `fl(a ∘ b) = (a ∘ b)(1 + δ)`, `|δ| ≤ u`, for `∘ ∈ {+, ·}`.
`FlNum M` carries these operations as its `Add` / `Mul` instances, so the *same* model function `Csr.rowSum`
that the driver runs at ℚ is, at the scalar type `FlNum M`, the floating-point kernel loop.
-/
namespace FeatModel.LA

structure FlModel where
  u : Rat
  u_nonneg : 0 ≤ u
  add : Rat → Rat → Rat
  mul : Rat → Rat → Rat
  add_spec : ∀ a b, ∃ d, |d| ≤ u ∧ add a b = (a + b) * (1 + d)
  mul_spec : ∀ a b, ∃ d, |d| ≤ u ∧ mul a b = (a * b) * (1 + d)

/-- a number of the floating-point arithmetic `M` (its value as a rational) -/
structure FlNum (M : FlModel) where
  val : Rat

instance (M : FlModel) : Zero (FlNum M) := ⟨⟨0⟩⟩
instance (M : FlModel) : Add (FlNum M) := ⟨fun a b => ⟨M.add a.val b.val⟩⟩
instance (M : FlModel) : Mul (FlNum M) := ⟨fun a b => ⟨M.mul a.val b.val⟩⟩

/-- one step `ŝ' = fl(ŝ + fl(a·b))` of the dot-product recurrence: the error constant `c` grows to `(1+u)(c+1) - 1` -/
theorem fl_step (M : FlModel) (sh s A c a b : Rat) (hc : M.u ≤ c) (hA : 0 ≤ A) (hs : |s| ≤ A)
    (he : |sh - s| ≤ c * A) :
    |M.add sh (M.mul a b) - (s + a * b)| ≤ ((1 + M.u) * (c + 1) - 1) * (A + |a * b|) ∧ |s + a * b| ≤ A + |a * b| := by
  obtain ⟨d1, hd1, e1⟩ := M.mul_spec a b
  obtain ⟨d2, hd2, e2⟩ := M.add_spec sh (a * b * (1 + d1))
  have hu := M.u_nonneg
  have hc0 : 0 ≤ c := le_trans hu hc
  refine ⟨?_, le_trans (abs_add_le _ _) (add_le_add hs (le_refl _))⟩
  rw [e1, e2]
  have hid : (sh + a * b * (1 + d1)) * (1 + d2) - (s + a * b)
      = (sh - s) * (1 + d2) + s * d2 + (a * b) * (d1 + d2 + d1 * d2) := by ring
  rw [hid]
  have h1 : |(sh - s) * (1 + d2)| ≤ c * A * (1 + M.u) := by
    rw [abs_mul]
    have : |1 + d2| ≤ 1 + M.u := le_trans (abs_add_le _ _) (by rw [abs_one]; linarith)
    exact mul_le_mul he this (abs_nonneg _) (mul_nonneg hc0 hA)
  have h2 : |s * d2| ≤ A * M.u := by
    rw [abs_mul]
    exact mul_le_mul hs hd2 (abs_nonneg _) hA
  have h3 : |(a * b) * (d1 + d2 + d1 * d2)| ≤ |a * b| * (2 * M.u + M.u * M.u) := by
    rw [abs_mul]
    apply mul_le_mul_of_nonneg_left _ (abs_nonneg _)
    have : |d1 * d2| ≤ M.u * M.u := by rw [abs_mul]; exact mul_le_mul hd1 hd2 (abs_nonneg _) hu
    calc |d1 + d2 + d1 * d2| ≤ |d1 + d2| + |d1 * d2| := abs_add_le _ _
      _ ≤ |d1| + |d2| + |d1 * d2| := by linarith [abs_add_le d1 d2]
      _ ≤ 2 * M.u + M.u * M.u := by linarith
  have habs : 0 ≤ |a * b| := abs_nonneg _
  have key : c * A * (1 + M.u) + A * M.u + |a * b| * (2 * M.u + M.u * M.u)
      ≤ ((1 + M.u) * (c + 1) - 1) * (A + |a * b|) := by
    have : |a * b| * (M.u * (1 + M.u)) ≤ |a * b| * (c * (1 + M.u)) :=
      mul_le_mul_of_nonneg_left (mul_le_mul_of_nonneg_right hc (by linarith)) habs
    nlinarith [this]
  calc |(sh - s) * (1 + d2) + s * d2 + (a * b) * (d1 + d2 + d1 * d2)|
      ≤ |(sh - s) * (1 + d2)| + |s * d2| + |(a * b) * (d1 + d2 + d1 * d2)| := by
        linarith [abs_add_le ((sh - s) * (1 + d2) + s * d2) ((a * b) * (d1 + d2 + d1 * d2)),
          abs_add_le ((sh - s) * (1 + d2)) (s * d2)]
    _ ≤ c * A * (1 + M.u) + A * M.u + |a * b| * (2 * M.u + M.u * M.u) := by linarith
    _ ≤ _ := key

/-- the floating-point dot-product loop over an index list: after `n` terms the error is at most
    `((1+u)^n (c+1) - 1) · Σ|a_k b_k|` -/
theorem fl_fold (M : FlModel) (a b : Nat → Rat) : ∀ (L : List Nat) (sh s A c : Rat), M.u ≤ c → 0 ≤ A → |s| ≤ A →
    |sh - s| ≤ c * A →
    |L.foldl (fun acc k => M.add acc (M.mul (a k) (b k))) sh - (s + (L.map fun k => a k * b k).sum)|
      ≤ ((1 + M.u) ^ L.length * (c + 1) - 1) * (A + (L.map fun k => |a k * b k|).sum)
  | [], sh, s, A, c, _, _, _, he => by simpa using he
  | k :: L, sh, s, A, c, hc, hA, hs, he => by
    obtain ⟨g1, g2⟩ := fl_step M sh s A c (a k) (b k) hc hA hs he
    have hu := M.u_nonneg
    have hc' : M.u ≤ (1 + M.u) * (c + 1) - 1 := by nlinarith
    have ih := fl_fold M a b L (M.add sh (M.mul (a k) (b k))) (s + a k * b k) (A + |a k * b k|)
      ((1 + M.u) * (c + 1) - 1) hc' (add_nonneg hA (abs_nonneg _)) g2 g1
    simp only [List.foldl_cons, List.map_cons, List.sum_cons, List.length_cons]
    have e1 : s + (a k * b k + (L.map fun k => a k * b k).sum) = s + a k * b k + (L.map fun k => a k * b k).sum := by ring
    have e2 : A + (|a k * b k| + (L.map fun k => |a k * b k|).sum) = A + |a k * b k| + (L.map fun k => |a k * b k|).sum := by ring
    have e3 : (1 + M.u) ^ (L.length + 1) * (c + 1) - 1 = (1 + M.u) ^ L.length * ((1 + M.u) * (c + 1) - 1 + 1) - 1 := by ring
    rw [e1, e2, e3]
    exact ih

/-- **`fl_dot_error`**, lifted to a CSR row: the row loop of `csr_generic` run in the floating-point arithmetic `M`
    (`Csr.rowSum` at the scalar type `FlNum M`, i.e. `sum = fl(sum + fl(val[k]·x[col[k]]))` from `sum = 0`) differs from
    the exact row sum by at most `((1+u)^(n+1) - 1) · Σ_k |val_k|·|x_{col k}|`, `n` = number of stored entries of the row.
    (`(1+u)^(n+1) - 1 ≤ γ_{n+1} = (n+1)u / (1 - (n+1)u)`; the `+1` is the addition onto the initial 0, which IEEE performs
    exactly but the abstract model may round.) -/
theorem fl_rowSum_error (M : FlModel) (A : Csr (FlNum M)) (x : Array (FlNum M)) (i : Nat) :
    let ks := List.range' (A.rowBegin i) (A.rowEnd i - A.rowBegin i)
    |(A.rowSum x i).val - (ks.map fun k => (A.val.getD k 0).val * (x.getD (A.colInd.getD k 0) 0).val).sum|
      ≤ ((1 + M.u) ^ (ks.length + 1) - 1)
          * (ks.map fun k => |(A.val.getD k 0).val * (x.getD (A.colInd.getD k 0) 0).val|).sum := by
  intro ks
  have hfold : ∀ (L : List Nat) (acc : FlNum M),
      (L.foldl (fun sum k => sum + A.val.getD k 0 * x.getD (A.colInd.getD k 0) 0) acc).val
        = L.foldl (fun acc k => M.add acc (M.mul (A.val.getD k 0).val (x.getD (A.colInd.getD k 0) 0).val)) acc.val := by
    intro L
    induction L with
    | nil => intro acc; rfl
    | cons k L ih => intro acc; rw [List.foldl_cons, List.foldl_cons, ih]; rfl
  have h := fl_fold M (fun k => (A.val.getD k 0).val) (fun k => (x.getD (A.colInd.getD k 0) 0).val) ks 0 0 0 M.u
    (le_refl _) (le_refl _) (by simp) (by simp)
  have hrs : (A.rowSum x i).val
      = ks.foldl (fun acc k => M.add acc (M.mul (A.val.getD k 0).val (x.getD (A.colInd.getD k 0) 0).val)) 0 := by
    unfold Csr.rowSum foldRange
    rw [hfold]; rfl
  rw [hrs]
  have e : (1 + M.u) ^ ks.length * (M.u + 1) - 1 = (1 + M.u) ^ (ks.length + 1) - 1 := by ring
  simpa [e] using h

end FeatModel.LA
