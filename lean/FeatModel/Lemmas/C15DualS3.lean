import FeatModel.Model.FEDual
/-! kernel-checked duality on the reference tetrahedron (canonical orientation) -/
namespace FeatModel.FE
set_option maxRecDepth 100000 in
theorem dualS3 : dualKeysS3.all (fun key => dualOk key.1 key.2.1 key.2.2 []) = true := by decide +kernel
end FeatModel.FE
