import FeatModel.Lemmas.C08Sweeps
import FeatModel.Model.Solver.Blocked
import Mathlib.Algebra.Module.Defs
import Mathlib.Algebra.Module.BigOperators
/-! C08: the square-blocked (BCSR) SOR / SSOR sweeps solve the block-triangular systems, for blocks in an arbitrary
(non-commutative) ring `R` acting on a module `V`, scalars in a field `K` whose action commutes with the blocks. -/
open Finset
namespace FeatModel.Solver.Blk
open FeatModel.LA FeatModel.Solver

/-! ### fold lemmas of C01Sum / C01Csr, re-proved without multiplication -/
section monoid
variable {M : Type} [AddCommMonoid M]

theorem foldl_range'_add' (f : Nat → M) : ∀ (n s : Nat) (init : M),
    (List.range' s n).foldl (fun acc k => acc + f k) init = init + ∑ k ∈ range n, f (s + k)
  | 0, s, init => by simp
  | n + 1, s, init => by
    rw [List.range'_succ, List.foldl_cons, foldl_range'_add' f n (s + 1) (init + f s), Finset.sum_range_succ']
    have : ∀ k, f (s + 1 + k) = f (s + (k + 1)) := fun k => by congr 1; omega
    simp only [this, Nat.add_zero]
    rw [add_assoc, add_comm (f s)]

theorem foldRange_add' (f : Nat → M) (s e : Nat) (init : M) :
    foldRange s e (fun acc k => acc + f k) init = init + ∑ k ∈ Ico s e, f k := by
  unfold foldRange
  rw [foldl_range'_add', Finset.sum_Ico_eq_sum_range]

theorem foldRange_add_if' (p : Nat → Prop) [DecidablePred p] (f : Nat → M) (s e : Nat) (init : M) :
    foldRange s e (fun acc k => if p k then acc + f k else acc) init
      = init + ∑ k ∈ Ico s e, (if p k then f k else 0) := by
  rw [← foldRange_add']
  congr 1
  funext acc k
  split <;> simp

theorem entry_eq_sum_Ico' (A : Csr M) (i j : Nat) :
    A.entry i j
      = ∑ k ∈ Ico (A.rowBegin i) (A.rowEnd i), (if A.colInd.getD k A.cols = j then A.val.getD k 0 else 0) := by
  unfold Csr.entry
  rw [foldRange_add_if', zero_add]

end monoid

variable {K R V : Type} [Field K] [Ring R] [AddCommGroup V] [Module K V] [Module R V] [SMulCommClass K R V]

/-- the block operations of a module; `inv` is the block inversion routine -/
def modOps (inv : R → R) : Ops K R V :=
  { zero := 0, zeroB := 0, add := (· + ·), sub := (· - ·), act := (· • ·), inv := inv, smul := (· • ·) }

set_option linter.unusedSectionVars false in
/-- the blocked filter zeroes exactly the listed blocks -/
theorem filterCor_getD (inv : R → R) (fidx : List Nat) (v : Array V) (i : Nat) :
    (filterCor (modOps (K := K) inv) fidx v).getD i 0 = if i ∈ fidx then 0 else v.getD i 0 :=
  FeatModel.Solver.filterCor_getD fidx v i

set_option linter.unusedSectionVars false in
theorem filterCor_size (inv : R → R) (fidx : List Nat) (v : Array V) :
    (filterCor (modOps (K := K) inv) fidx v).size = v.size :=
  FeatModel.Solver.filterCor_size fidx v

/-! ### the scans -/
section scans

omit [SMulCommClass K R V] in
theorem scanLower_eq (inv : R → R) (A : Csr R) (out : Array V) (i p : Nat) (hp : ¬ A.colInd.getD p A.cols < i) :
    ∀ (f col : Nat) (d : V), col ≤ p → p - col < f →
      (∀ k, col ≤ k → k < p → A.colInd.getD k A.cols < i) →
      scanLower (modOps (K := K) inv) A out i f col d
        = (p, d + ∑ k ∈ Ico col p, A.val.getD k 0 • out.getD (A.colInd.getD k 0) 0)
  | 0, col, d, _, hf, _ => by omega
  | f + 1, col, d, hc, hf, hlt => by
    rcases Nat.lt_or_ge col p with hcp | hcp
    · rw [scanLower, if_pos (hlt col (Nat.le_refl _) hcp),
        scanLower_eq inv A out i p hp f (col + 1) _ (by omega) (by omega) (fun k hk1 hk2 => hlt k (by omega) hk2),
        Finset.sum_eq_sum_Ico_succ_bot hcp, ← add_assoc]
      rfl
    · have : col = p := by omega
      subst this
      rw [scanLower, if_neg hp]
      simp

omit [SMulCommClass K R V] in
theorem scanUpper_eq (inv : R → R) (A : Csr R) (out : Array V) (i p : Nat) (hp : ¬ i < A.colInd.getD p 0) :
    ∀ (f col : Nat) (d : V), p ≤ col → col - p < f →
      (∀ k, p < k → k ≤ col → i < A.colInd.getD k 0) →
      scanUpper (modOps (K := K) inv) A out i f col d
        = (p, d + ∑ k ∈ Ico (p + 1) (col + 1), A.val.getD k 0 • out.getD (A.colInd.getD k 0) 0)
  | 0, col, d, _, hf, _ => by omega
  | f + 1, col, d, hc, hf, hlt => by
    rcases Nat.lt_or_ge p col with hcp | hcp
    · rw [scanUpper, if_pos (hlt col hcp (Nat.le_refl _)),
        scanUpper_eq inv A out i p hp f (col - 1) _ (by omega) (by omega) (fun k hk1 hk2 => hlt k hk1 (by omega)),
        Finset.sum_Ico_succ_top (by omega : p + 1 ≤ col)]
      have : col - 1 + 1 = col := by omega
      rw [this, add_comm (∑ k ∈ Ico (p + 1) col, _), ← add_assoc]
      rfl
    · have : col = p := by omega
      subst this
      rw [scanUpper, if_neg hp]
      simp

end scans

/-! ### stored row sums against the dense block meaning -/
section sums

/-- a sum over the stored blocks of row `i` is the sum over the dense block row -/
theorem sum_row_eq {A : Csr R} (h : A.WF) (f : Nat → V) {i : Nat} (hi : i < A.rows) :
    ∑ k ∈ Ico (A.rowBegin i) (A.rowEnd i), A.val.getD k 0 • f (A.colInd.getD k 0)
      = ∑ j ∈ range A.cols, A.entry i j • f j := by
  simp only [entry_eq_sum_Ico', Finset.sum_smul, ite_smul, zero_smul]
  rw [Finset.sum_comm]
  apply Finset.sum_congr rfl
  intro k hk
  rw [Finset.mem_Ico] at hk
  have hks : k < A.colInd.size := Nat.lt_of_lt_of_le hk.2 (Csr.rowEnd_le h hi)
  have hc : A.colInd.getD k A.cols = A.colInd.getD k 0 := Csr.getD_eq_of_lt _ hks _ _
  rw [hc, Finset.sum_ite_eq, if_pos (Finset.mem_range.mpr (h.colLt k hks))]

theorem sum_row_filter {A : Csr R} (h : A.WF) (P : Nat → Prop) [DecidablePred P] (y : Nat → V) {i : Nat}
    (hi : i < A.rows) :
    ∑ k ∈ Ico (A.rowBegin i) (A.rowEnd i),
        (if P (A.colInd.getD k 0) then A.val.getD k 0 • y (A.colInd.getD k 0) else 0)
      = ∑ j ∈ range A.cols, if P j then A.entry i j • y j else 0 := by
  have := sum_row_eq h (fun j => if P j then y j else 0) hi
  simpa only [smul_ite, smul_zero] using this

/-- stored blocks left of the diagonal position = strictly lower part of the dense block row -/
theorem sum_lower {A : Csr R} (h : SortedDiag A) {i p : Nat} (hi : i < A.rows)
    (hp1 : A.rowBegin i ≤ p) (hp2 : p < A.rowEnd i) (hp3 : A.colInd.getD p 0 = i)
    (hlo : ∀ k, A.rowBegin i ≤ k → k < p → A.colInd.getD k 0 < i)
    (hup : ∀ k, p < k → k < A.rowEnd i → i < A.colInd.getD k 0) (y : Nat → V) :
    ∑ k ∈ Ico (A.rowBegin i) p, A.val.getD k 0 • y (A.colInd.getD k 0) = ∑ j ∈ range i, A.entry i j • y j := by
  have h1 := sum_row_filter h.wf (· < i) y hi
  rw [← Finset.sum_Ico_consecutive _ hp1 (Nat.le_of_lt hp2)] at h1
  have h2 : ∑ k ∈ Ico p (A.rowEnd i),
      (if A.colInd.getD k 0 < i then A.val.getD k 0 • y (A.colInd.getD k 0) else 0) = 0 := by
    apply Finset.sum_eq_zero
    intro k hk
    rw [Finset.mem_Ico] at hk
    apply if_neg
    rcases Nat.lt_or_ge p k with hlt | hge
    · have := hup k hlt hk.2; omega
    · have : k = p := by omega
      subst this; omega
  have h3 : ∑ k ∈ Ico (A.rowBegin i) p,
      (if A.colInd.getD k 0 < i then A.val.getD k 0 • y (A.colInd.getD k 0) else 0)
      = ∑ k ∈ Ico (A.rowBegin i) p, A.val.getD k 0 • y (A.colInd.getD k 0) := by
    apply Finset.sum_congr rfl
    intro k hk
    rw [Finset.mem_Ico] at hk
    exact if_pos (hlo k hk.1 hk.2)
  have h4 : (range A.cols).filter (· < i) = range i := by
    ext j
    simp only [Finset.mem_filter, Finset.mem_range]
    have := h.sq
    omega
  rw [h2, h3, add_zero, ← Finset.sum_filter, h4] at h1
  exact h1

/-- stored blocks right of the diagonal position = strictly upper part of the dense block row -/
theorem sum_upper {A : Csr R} (h : SortedDiag A) {i p : Nat} (hi : i < A.rows)
    (hp1 : A.rowBegin i ≤ p) (hp2 : p < A.rowEnd i) (hp3 : A.colInd.getD p 0 = i)
    (hlo : ∀ k, A.rowBegin i ≤ k → k < p → A.colInd.getD k 0 < i)
    (hup : ∀ k, p < k → k < A.rowEnd i → i < A.colInd.getD k 0) (y : Nat → V) :
    ∑ k ∈ Ico (p + 1) (A.rowEnd i), A.val.getD k 0 • y (A.colInd.getD k 0)
      = ∑ j ∈ Ico (i + 1) A.rows, A.entry i j • y j := by
  have h1 := sum_row_filter h.wf (i < ·) y hi
  rw [← Finset.sum_Ico_consecutive _ (by omega : A.rowBegin i ≤ p + 1) (by omega : p + 1 ≤ A.rowEnd i)] at h1
  have h2 : ∑ k ∈ Ico (A.rowBegin i) (p + 1),
      (if i < A.colInd.getD k 0 then A.val.getD k 0 • y (A.colInd.getD k 0) else 0) = 0 := by
    apply Finset.sum_eq_zero
    intro k hk
    rw [Finset.mem_Ico] at hk
    apply if_neg
    rcases Nat.lt_or_ge k p with hlt | hge
    · have := hlo k hk.1 hlt; omega
    · have : k = p := by omega
      subst this; omega
  have h3 : ∑ k ∈ Ico (p + 1) (A.rowEnd i),
      (if i < A.colInd.getD k 0 then A.val.getD k 0 • y (A.colInd.getD k 0) else 0)
      = ∑ k ∈ Ico (p + 1) (A.rowEnd i), A.val.getD k 0 • y (A.colInd.getD k 0) := by
    apply Finset.sum_congr rfl
    intro k hk
    rw [Finset.mem_Ico] at hk
    exact if_pos (hup k (by omega) hk.2)
  have h4 : (range A.cols).filter (i < ·) = Ico (i + 1) A.rows := by
    ext j
    simp only [Finset.mem_filter, Finset.mem_range, Finset.mem_Ico]
    have := h.sq
    omega
  rw [h2, h3, zero_add, ← Finset.sum_filter, h4] at h1
  exact h1

/-- the dense diagonal block is the block stored at the diagonal position -/
theorem entry_diag {A : Csr R} (h : SortedDiag A) {i p : Nat} (hi : i < A.rows)
    (hp1 : A.rowBegin i ≤ p) (hp2 : p < A.rowEnd i) (hp3 : A.colInd.getD p 0 = i)
    (hlo : ∀ k, A.rowBegin i ≤ k → k < p → A.colInd.getD k 0 < i)
    (hup : ∀ k, p < k → k < A.rowEnd i → i < A.colInd.getD k 0) :
    A.entry i i = A.val.getD p 0 := by
  rw [entry_eq_sum_Ico', Finset.sum_eq_single p]
  · rw [h.getD_cols hi hp2, if_pos hp3]
  · intro k hk hkp
    rw [Finset.mem_Ico] at hk
    rw [h.getD_cols hi hk.2]
    apply if_neg
    rcases Nat.lt_or_ge k p with hlt | hge
    · have := hlo k hk.1 hlt; omega
    · have := hup k (by omega) hk.2; omega
  · intro hn
    exact absurd (Finset.mem_Ico.mpr ⟨hp1, hp2⟩) hn

omit [SMulCommClass K R V] in
/-- the lower scan of block row `i`: strictly lower dense block row times `out`, stops at the diagonal -/
theorem scanLower_row (inv : R → R) {A : Csr R} (h : SortedDiag A) {i : Nat} (hi : i < A.rows) (out : Array V) :
    (scanLower (modOps (K := K) inv) A out i (A.colInd.size - A.rowBegin i) (A.rowBegin i) 0).2
        = ∑ j ∈ range i, A.entry i j • out.getD j 0 ∧
    A.val.getD (scanLower (modOps (K := K) inv) A out i (A.colInd.size - A.rowBegin i) (A.rowBegin i) 0).1 0
        = A.entry i i := by
  obtain ⟨p, hp1, hp2, hp3, hlo, hup⟩ := h.pos hi
  have hle := Csr.rowEnd_le h.wf hi
  rw [scanLower_eq inv A out i p (by rw [h.getD_cols hi hp2]; omega) _ _ _ hp1 (by omega)
    (fun k hk1 hk2 => by rw [h.getD_cols hi (by omega)]; exact hlo k hk1 hk2)]
  refine ⟨?_, (entry_diag h hi hp1 hp2 hp3 hlo hup).symm⟩
  rw [zero_add]
  exact sum_lower h hi hp1 hp2 hp3 hlo hup (fun j => out.getD j 0)

omit [SMulCommClass K R V] in
/-- the upper scan of block row `i`: strictly upper dense block row times `out`, stops at the diagonal -/
theorem scanUpper_row (inv : R → R) {A : Csr R} (h : SortedDiag A) {i : Nat} (hi : i < A.rows) (out : Array V) :
    (scanUpper (modOps (K := K) inv) A out i (A.rowEnd i) (A.rowEnd i - 1) 0).2
        = ∑ j ∈ Ico (i + 1) A.rows, A.entry i j • out.getD j 0 ∧
    A.val.getD (scanUpper (modOps (K := K) inv) A out i (A.rowEnd i) (A.rowEnd i - 1) 0).1 0 = A.entry i i := by
  obtain ⟨p, hp1, hp2, hp3, hlo, hup⟩ := h.pos hi
  rw [scanUpper_eq inv A out i p (by omega) _ _ _ (by omega) (by omega)
    (fun k hk1 hk2 => hup k hk1 (by omega))]
  refine ⟨?_, (entry_diag h hi hp1 hp2 hp3 hlo hup).symm⟩
  have : A.rowEnd i - 1 + 1 = A.rowEnd i := by omega
  rw [zero_add, this]
  exact sum_upper h hi hp1 hp2 hp3 hlo hup (fun j => out.getD j 0)

end sums

set_option linter.unusedSectionVars false in
/-- blocked SOR: `(D/ω + L) y = x` block row by block row -/
theorem sorSweep_spec (inv : R → R) (ω : K) (hω : ω ≠ 0) (A : Csr R) (hA : sortedDiag A = true)
    (hinv : ∀ i, i < A.rows → A.entry i i * inv (A.entry i i) = 1) (x : Array V) (hx : x.size = A.rows) :
    (sorSweep (modOps inv) ω A x).size = A.rows ∧
    ∀ i, i < A.rows →
      A.entry i i • (ω⁻¹ • (sorSweep (modOps inv) ω A x).getD i 0)
        + ∑ j ∈ range i, A.entry i j • (sorSweep (modOps inv) ω A x).getD j 0 = x.getD i 0 := by
  have h := SortedDiag.of_bool hA
  have hex : ∃ y, sorSweep (modOps inv) ω A x = y ∧ y.size = A.rows ∧ ∀ i, i < A.rows → y.getD i 0
      = ω • (inv (A.val.getD
            (scanLower (modOps (K := K) inv) A y i (A.colInd.size - A.rowBegin i) (A.rowBegin i) 0).1 0)
          • (x.getD i 0
            - (scanLower (modOps (K := K) inv) A y i (A.colInd.size - A.rowBegin i) (A.rowBegin i) 0).2)) := by
    refine ⟨_, rfl, fwd_fold A.rows
      (fun out i => ω • (inv (A.val.getD
            (scanLower (modOps (K := K) inv) A out i (A.colInd.size - A.rowBegin i) (A.rowBegin i) 0).1 0)
          • (x.getD i 0
            - (scanLower (modOps (K := K) inv) A out i (A.colInd.size - A.rowBegin i) (A.rowBegin i) 0).2)))
      x hx ?_⟩
    intro out out' i hi hag
    obtain ⟨e1, e2⟩ := scanLower_row (K := K) inv h hi out
    obtain ⟨e1', e2'⟩ := scanLower_row (K := K) inv h hi out'
    simp only [e1, e2, e1', e2']
    congr 3
    exact Finset.sum_congr rfl (fun j hj => by rw [hag j (Finset.mem_range.mp hj)])
  obtain ⟨y, hy, hsz, hval⟩ := hex
  rw [hy]
  refine ⟨hsz, fun i hi => ?_⟩
  have hv := hval i hi
  obtain ⟨e1, e2⟩ := scanLower_row (K := K) inv h hi y
  rw [e1, e2] at hv
  rw [hv, smul_smul, inv_mul_cancel₀ hω, one_smul, smul_smul, hinv i hi, one_smul, sub_add_cancel]

set_option linter.unusedSectionVars false in
/-- blocked SSOR forward insertion: `(D + ωL) y = x` -/
theorem ssorFwd_spec (inv : R → R) (ω : K) (A : Csr R) (hA : sortedDiag A = true)
    (hinv : ∀ i, i < A.rows → A.entry i i * inv (A.entry i i) = 1) (x : Array V) (hx : x.size = A.rows) :
    (ssorFwd (modOps inv) ω A x).size = A.rows ∧
    ∀ i, i < A.rows →
      A.entry i i • (ssorFwd (modOps inv) ω A x).getD i 0
        + ω • ∑ j ∈ range i, A.entry i j • (ssorFwd (modOps inv) ω A x).getD j 0 = x.getD i 0 := by
  have h := SortedDiag.of_bool hA
  have hex : ∃ y, ssorFwd (modOps inv) ω A x = y ∧ y.size = A.rows ∧ ∀ i, i < A.rows → y.getD i 0
      = inv (A.val.getD
            (scanLower (modOps (K := K) inv) A y i (A.colInd.size - A.rowBegin i) (A.rowBegin i) 0).1 0)
          • (x.getD i 0
            - ω • (scanLower (modOps (K := K) inv) A y i (A.colInd.size - A.rowBegin i) (A.rowBegin i) 0).2) := by
    refine ⟨_, rfl, fwd_fold A.rows
      (fun out i => inv (A.val.getD
            (scanLower (modOps (K := K) inv) A out i (A.colInd.size - A.rowBegin i) (A.rowBegin i) 0).1 0)
          • (x.getD i 0
            - ω • (scanLower (modOps (K := K) inv) A out i (A.colInd.size - A.rowBegin i) (A.rowBegin i) 0).2))
      x hx ?_⟩
    intro out out' i hi hag
    obtain ⟨e1, e2⟩ := scanLower_row (K := K) inv h hi out
    obtain ⟨e1', e2'⟩ := scanLower_row (K := K) inv h hi out'
    simp only [e1, e2, e1', e2']
    congr 3
    exact Finset.sum_congr rfl (fun j hj => by rw [hag j (Finset.mem_range.mp hj)])
  obtain ⟨y, hy, hsz, hval⟩ := hex
  rw [hy]
  refine ⟨hsz, fun i hi => ?_⟩
  have hv := hval i hi
  obtain ⟨e1, e2⟩ := scanLower_row (K := K) inv h hi y
  rw [e1, e2] at hv
  rw [hv, smul_smul, hinv i hi, one_smul, sub_add_cancel]

/-- blocked SSOR backward insertion: `(D + ωU) z = D y` -/
theorem ssorBwd_spec (inv : R → R) (ω : K) (A : Csr R) (hA : sortedDiag A = true)
    (hinv : ∀ i, i < A.rows → A.entry i i * inv (A.entry i i) = 1) (y : Array V) (hy : y.size = A.rows) :
    (ssorBwd (modOps inv) ω A y).size = A.rows ∧
    ∀ i, i < A.rows →
      A.entry i i • (ssorBwd (modOps inv) ω A y).getD i 0
        + ω • ∑ j ∈ Ico (i + 1) A.rows, A.entry i j • (ssorBwd (modOps inv) ω A y).getD j 0
        = A.entry i i • y.getD i 0 := by
  have h := SortedDiag.of_bool hA
  have hex : ∃ z, ssorBwd (modOps inv) ω A y = z ∧ z.size = A.rows ∧ ∀ i, i < A.rows → z.getD i 0
      = y.getD i 0 - ω • (inv (A.val.getD
            (scanUpper (modOps (K := K) inv) A z i (A.rowEnd i) (A.rowEnd i - 1) 0).1 0)
          • (scanUpper (modOps (K := K) inv) A z i (A.rowEnd i) (A.rowEnd i - 1) 0).2) := by
    refine ⟨_, rfl, bwd_fold A.rows
      (fun c out i => c - ω • (inv (A.val.getD
            (scanUpper (modOps (K := K) inv) A out i (A.rowEnd i) (A.rowEnd i - 1) 0).1 0)
          • (scanUpper (modOps (K := K) inv) A out i (A.rowEnd i) (A.rowEnd i - 1) 0).2)) y hy ?_⟩
    intro c out out' i hi hag
    obtain ⟨e1, e2⟩ := scanUpper_row (K := K) inv h hi out
    obtain ⟨e1', e2'⟩ := scanUpper_row (K := K) inv h hi out'
    simp only [e1, e2, e1', e2']
    congr 3
    exact Finset.sum_congr rfl (fun j hj => by rw [hag j (by have := Finset.mem_Ico.mp hj; omega)])
  obtain ⟨z, hz, hsz, hval⟩ := hex
  rw [hz]
  refine ⟨hsz, fun i hi => ?_⟩
  have hv := hval i hi
  obtain ⟨e1, e2⟩ := scanUpper_row (K := K) inv h hi z
  rw [e1, e2] at hv
  rw [hv, smul_sub, ← smul_comm ω (A.entry i i), smul_smul, hinv i hi, one_smul, sub_add_cancel]

end FeatModel.Solver.Blk
