/-
C18 helper lemmas, part 15: the refined cubature rule reproduces the coarse mass matrix, derived from exactness of the
rule (C16's `local_exact` = linearity over monomials, C14's reference integrals) and the change of variables
`∫_ref p = Σ_c |det A_c| ∫_ref p ∘ A_c` (kernel-evaluated for the finitely many mass integrands).
-/
import FeatModel.Model.TransferNested
import FeatModel.Lemmas.C16_local
import FeatModel.Lemmas.C18_nested
open FeatModel.GT FeatModel.Poly FeatModel.FE FeatModel.LocalFE Finset

namespace C18L

/-- change of variables for all mass integrands of the family (decidable) -/
def covB (t : BasisTab) (k : Kind) (simplex : Bool) (d : Nat) : Bool :=
  (List.range t.nloc).all fun l => (List.range t.nloc).all fun j =>
    polyInt simplex d (massPoly t d l j)
      == ((List.range (numChildren k d)).map fun c =>
            (1 / (numChildren k d : Nat) : Rat) * polyInt simplex d (childMassPoly t k d c l j)).sum

/-- all mass integrands (coarse and seen from the children) only contain monomials of the list -/
def monosB (t : BasisTab) (k : Kind) (d : Nat) (ms : List Mono) : Bool :=
  (List.range t.nloc).all fun l => (List.range t.nloc).all fun j =>
    monosIn (massPoly t d l j) ms &&
    (List.range (numChildren k d)).all fun c => monosIn (childMassPoly t k d c l j) ms

/-- the refined rule (children `c`, weights `w_q / nch`, points `A_c ξ_q`) integrates the coarse mass integrands like
the unrefined rule — whenever the rule is exact on the monomials of these integrands -/
theorem refined_rule_reproduces (t : BasisTab) (k : Kind) (simplex : Bool) (d : Nat) (r : Rule) (ms : List Mono)
    (hex : r.exactOn simplex d ms = true) (hm : monosB t k d ms = true) (hcov : covB t k simplex d = true)
    {l j : Nat} (hl : l < t.nloc) (hj : j < t.nloc) :
    ((List.range (numChildren k d)).map fun c =>
        localEntry r (1 / (numChildren k d : Nat) : Rat) (childMassPoly t k d c l j)).sum
      = localEntry r 1 (massPoly t d l j) := by
  unfold monosB at hm
  unfold covB at hcov
  simp only [List.all_eq_true, List.mem_range, Bool.and_eq_true, beq_iff_eq] at hm hcov
  obtain ⟨hm0, hmc⟩ := hm l hl j hj
  rw [C16L.local_exact r simplex d ms 1 _ hex hm0]
  unfold cellInt
  rw [one_mul, hcov l hl j hj]
  congr 1
  apply List.map_congr_left
  intro c hc
  rw [C16L.local_exact r simplex d ms _ _ hex (hmc c (List.mem_range.1 hc))]
  rfl

/-! the table: exact rational rules of kernel/cubature × Lagrange-1/2 on the line, the square and the triangle -/

theorem repro_L1_H1 : ((ruleOf false 1 "simpson").map fun r =>
    r.exactOn false 1 (boxMonos 1 3) && monosB FeatModel.Gen.BasisH1.l1 .H 1 (boxMonos 1 3) &&
      covB FeatModel.Gen.BasisH1.l1 .H false 1) = some true := by decide +kernel
theorem repro_L2_H1 : ((ruleOf false 1 "newton-cotes-closed:5").map fun r =>
    r.exactOn false 1 (boxMonos 1 5) && monosB FeatModel.Gen.BasisH1.l2 .H 1 (boxMonos 1 5) &&
      covB FeatModel.Gen.BasisH1.l2 .H false 1) = some true := by decide +kernel
theorem repro_L1_H2 : ((ruleOf false 2 "simpson").map fun r =>
    r.exactOn false 2 (boxMonos 2 3) && monosB FeatModel.Gen.BasisH2.l1 .H 2 (boxMonos 2 3) &&
      covB FeatModel.Gen.BasisH2.l1 .H false 2) = some true := by decide +kernel
theorem repro_L1_S2 : ((ruleOf true 2 "lauffer-degree-2").map fun r =>
    r.exactOn true 2 (FeatModel.Cub.monos 2 2) && monosB FeatModel.Gen.BasisS2.l1 .S 2 (FeatModel.Cub.monos 2 2) &&
      covB FeatModel.Gen.BasisS2.l1 .S true 2) = some true := by decide +kernel

end C18L
