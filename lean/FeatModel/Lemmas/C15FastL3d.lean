import FeatModel.Model.FEDual
/-! kernel-checked: samples 48.. of the real 3-D Lagrange-3 evaluator are products of 1-D evaluations -/
namespace FeatModel.FE
open FeatModel.Poly FeatModel.Gen
set_option maxRecDepth 100000 in
theorem fast_l3_3 : fastSamplesOk BasisH1.l3 3 true true BasisH3.l3_idx (((BasisH3.l3_samples.drop 16).drop 16).drop 16) = true := by decide +kernel
end FeatModel.FE
