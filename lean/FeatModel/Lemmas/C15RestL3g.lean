import FeatModel.Model.FEDual
/-! kernel-checked: the gradient polynomials of the Lagrange-3 hexahedron table are the formal derivatives of its value polynomials -/
namespace FeatModel.FE
open FeatModel.Poly FeatModel.Gen
set_option maxRecDepth 100000 in
theorem grad_l3h3 : BasisH3.l3.gradOk = true := by decide +kernel
end FeatModel.FE
