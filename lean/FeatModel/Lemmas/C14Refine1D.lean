import FeatModel.Lemmas.C14Rat
import FeatModel.Gen.CubatureMeta
import Mathlib.Tactic.LinearCombination
/-! # C14: refinement keeps EVERY degree on the one-dimensional shapes (no degree bound): the subdivision identity
    of the interval refineries for all monomials, via the antiderivative identity
    `Σ_i C(k,i) b^i y^(k-i+1)/(k-i+1) = ((b+y)^(k+1) - b^(k+1))/(k+1)` -/
namespace FeatModel.Cub

/-- every term is homogeneous of degree `n` in `dim + 1` variables -/
def TermsShape (dim n : Nat) (p : IPoly) : Prop :=
  ∀ t ∈ p, ∃ g0 g, t.2 = g0 :: g ∧ g.length = dim ∧ g0 + esum g = n

theorem applyTerms_cast_shape (S : List Nat → Int) (ew ec dim n : Nat) : ∀ (p : IPoly), TermsShape dim n p →
    ((applyTerms S ((2 : Int) ^ ec) p : Int) : Rat) =
      (2 : Rat) ^ (ew + ec * n) * applyQ (fun f => (S f : Rat) / (2 : Rat) ^ (ew + ec * esum f)) p
  | [], _ => by simp [applyTerms, applyQ]
  | t :: p, h => by
    obtain ⟨g0, g, hg, _, hn⟩ := h t List.mem_cons_self
    have ih := applyTerms_cast_shape S ew ec dim n p (fun s hs => h s (List.mem_cons_of_mem _ hs))
    simp only [applyTerms, applyQ, hg, homMoment, List.tail_cons]
    push_cast
    rw [ih]
    have h2 : (2 : Rat) ^ (ew + ec * n) = ((2 : Rat) ^ ec) ^ g0 * (2 : Rat) ^ (ew + ec * esum g) := by
      rw [← pow_mul, ← pow_add, ← hn]; congr 1; ring
    have hpos : (2 : Rat) ^ (ew + ec * esum g) ≠ 0 := by positivity
    rw [h2]; field_simp

theorem refMoment_cast_shape (S : List Nat → Int) (ew ec dim n : Nat) (e : List Nat) : ∀ (ms : List RefMap),
    (∀ m ∈ ms, TermsShape dim n (expandAll m.rows e)) →
    ((refMoment S ((2 : Int) ^ ec) ms e : Int) : Rat) =
      (2 : Rat) ^ (ew + ec * n) * mapsQ (fun f => (S f : Rat) / (2 : Rat) ^ (ew + ec * esum f)) ms e
  | [], _ => by simp [refMoment, mapsQ]
  | m :: ms, h => by
    have ih := refMoment_cast_shape S ew ec dim n e ms (fun q hq => h q (List.mem_cons_of_mem _ hq))
    rw [refMoment_cons, mapsQ_cons]
    push_cast
    rw [ih, applyTerms_cast_shape S ew ec dim n _ (h m List.mem_cons_self)]
    ring

theorem applyQ_congr (F G : List Nat → Rat) (dim n : Nat)
    (hFG : ∀ g : List Nat, g.length = dim → esum g ≤ n → F g = G g) : ∀ (p : IPoly), TermsShape dim n p →
    applyQ F p = applyQ G p
  | [], _ => rfl
  | t :: p, h => by
    obtain ⟨g0, g, hg, hl, hn⟩ := h t List.mem_cons_self
    simp only [applyQ, hg, List.tail_cons, hFG g hl (by omega),
      applyQ_congr F G dim n hFG p (fun s hs => h s (List.mem_cons_of_mem _ hs))]

theorem mapsQ_congr (F G : List Nat → Rat) (dim n : Nat) (e : List Nat)
    (hFG : ∀ g : List Nat, g.length = dim → esum g ≤ n → F g = G g) : ∀ (ms : List RefMap),
    (∀ m ∈ ms, TermsShape dim n (expandAll m.rows e)) → mapsQ F ms e = mapsQ G ms e
  | [], _ => rfl
  | m :: ms, h => by
    rw [mapsQ_cons, mapsQ_cons, applyQ_congr F G dim n hFG _ (h m List.mem_cons_self),
      mapsQ_congr F G dim n e hFG ms (fun q hq => h q (List.mem_cons_of_mem _ hq))]

/-- ONE refinement step, exact arithmetic, no finite check: from the shape of the expansion and the subdivision
    identity for the monomial `e` -/
theorem refine1_exact_core (simplex : Bool) (dim : Nat) (rm : RefMaps) (e : List Nat) (t : DyTable)
    (ht : t.wf dim = true) (hrm : rm.wf dim = true)
    (hsh : ∀ m ∈ rm.maps, TermsShape dim (esum e) (expandAll m.rows e))
    (hI : mapsQ (refIntQ simplex) rm.maps e = refIntQ simplex e * (2 : Rat) ^ (rm.ce + rm.ae * esum e))
    (H : ∀ f : List Nat, f.length = dim → esum f ≤ esum e → t.momentQ f = refIntQ simplex f) :
    (t.refine1 rm).momentQ e = refIntQ simplex e := by
  set n := esum e
  have hB : (2 : Rat) ^ (rm.ce + rm.ae * n) ≠ 0 := by positivity
  have h1 : (2 : Rat) ^ (t.ew + t.ec * n) ≠ 0 := by positivity
  unfold DyTable.momentQ
  rw [momentNum_refine1 t rm dim ht hrm e, refMoment_cast_shape t.momentNum t.ew t.ec dim n e _ hsh]
  have : (t.refine1 rm).momentExp e = (t.ew + t.ec * n) + (rm.ce + rm.ae * n) := by
    simp only [DyTable.momentExp, DyTable.refine1]; ring
  rw [this, show (2 : Rat) ^ (t.ew + t.ec * n + (rm.ce + rm.ae * n)) =
    (2 : Rat) ^ (t.ew + t.ec * n) * (2 : Rat) ^ (rm.ce + rm.ae * n) from pow_add _ _ _, mul_div_mul_left _ _ h1,
    mapsQ_congr _ (refIntQ simplex) dim n e
      (fun g hl hs => by simpa [DyTable.momentQ, DyTable.momentExp] using H g hl hs) _ hsh, hI]
  field_simp

/-! ## the expansion of `(b·h + x)^k` and its integrals -/

/-- `Σ coef · F(exponents)` (all exponents, scale variable included) -/
def fullQ (F : List Nat → Rat) : IPoly → Rat
  | [] => 0
  | t :: p => (t.1 : Rat) * F t.2 + fullQ F p

theorem applyQ_append (F : List Nat → Rat) : ∀ (p q : IPoly), applyQ F (p ++ q) = applyQ F p + applyQ F q
  | [], q => by simp [applyQ]
  | t :: p, q => by simp only [List.cons_append, applyQ, applyQ_append F p q]; ring

theorem fullQ_append (F : List Nat → Rat) : ∀ (p q : IPoly), fullQ F (p ++ q) = fullQ F p + fullQ F q
  | [], q => by simp [fullQ]
  | t :: p, q => by simp only [List.cons_append, fullQ, fullQ_append F p q]; ring

theorem applyQ_flatMap (F : List Nat → Rat) (f : Nat → IPoly) : ∀ (l : List Nat),
    applyQ F (l.flatMap f) = (l.map fun k => applyQ F (f k)).sum
  | [] => by simp [applyQ]
  | a :: l => by simp [List.flatMap_cons, applyQ_append, applyQ_flatMap F f l]

theorem fullQ_flatMap (F : List Nat → Rat) (f : Nat → IPoly) : ∀ (l : List Nat),
    fullQ F (l.flatMap f) = (l.map fun k => fullQ F (f k)).sum
  | [] => by simp [fullQ]
  | a :: l => by simp [List.flatMap_cons, fullQ_append, fullQ_flatMap F f l]

theorem applyQ_map_cons (F : List Nat → Rat) (c : Int) (i : Nat) : ∀ (p : IPoly),
    applyQ F (p.map fun t => (c * t.1, i :: t.2)) = (c : Rat) * fullQ F p
  | [] => by simp [applyQ, fullQ]
  | t :: p => by
    simp only [List.map_cons, applyQ, fullQ, List.tail_cons, applyQ_map_cons F c i p]; push_cast; ring

theorem fullQ_map_cons (F : List Nat → Rat) (c : Int) (i : Nat) : ∀ (p : IPoly),
    fullQ F (p.map fun t => (c * t.1, i :: t.2)) = (c : Rat) * fullQ (fun g => F (i :: g)) p
  | [] => by simp [fullQ]
  | t :: p => by
    simp only [List.map_cons, fullQ, fullQ_map_cons F c i p]; push_cast; ring

theorem gadd_nil (g : List Nat) : gadd g [] = g := by cases g <;> rfl

theorem pmul_one : ∀ (p : IPoly), pmul p [(1, [])] = p
  | [] => rfl
  | t :: p => by
    have ih := pmul_one p
    unfold pmul at ih ⊢
    simp only [List.flatMap_cons, List.map_cons, List.map_nil, mul_one, gadd_nil, List.singleton_append] at ih ⊢
    rw [ih]

theorem applyQ_pmul_one (F : List Nat → Rat) (p : IPoly) : applyQ F (pmul p [(1, [])]) = applyQ F p := by
  rw [pmul_one]

theorem sum_range_last (g : Nat → Rat) (m : Nat) (h : ∀ j, j < m → g j = 0) :
    ((List.range (m + 1)).map g).sum = g m := by
  rw [List.range_succ, List.map_append, List.sum_append]
  have : (List.map g (List.range m)).sum = 0 := by
    apply List.sum_eq_zero
    intro x hx
    obtain ⟨j, hj, rfl⟩ := List.mem_map.1 hx
    exact h j (List.mem_range.1 hj)
  simp [this]

/-- `x^m` as a one-variable expansion: the single term `x^m` -/
theorem fullQ_expandPow_one (F : List Nat → Rat) (m : Nat) : fullQ F (expandPow [1] m) = F [m] := by
  unfold expandPow
  rw [if_neg (by decide), fullQ_flatMap]
  have hg : ∀ j, fullQ F ((expandPow [] (m - j)).map fun t => ((binom m j : Int) * ipow 1 j * t.1, j :: t.2)) =
      if m - j = 0 then (binom m j : Rat) * F [j] else 0 := by
    intro j
    rw [fullQ_map_cons]
    unfold expandPow
    split
    · simp [fullQ, ipow_eq]
    · simp [fullQ]
  simp only [hg]
  rw [sum_range_last _ m (fun j hj => by rw [if_neg (by omega)])]
  simp [binom_eq (le_refl m)]

/-- the moments of the pulled-back monomial `(b·h + x)^k` of the one-dimensional child map -/
theorem applyQ_expandAll_1d (F : List Nat → Rat) (b : Int) (k : Nat) :
    applyQ F (expandAll [[b, 1]] [k]) =
      if b = 0 then F [k] else ((List.range (k + 1)).map fun i => (k.choose i : Rat) * (b : Rat) ^ i * F [k - i]).sum := by
  simp only [expandAll]
  rw [applyQ_pmul_one]
  unfold expandPow
  split
  · rename_i hb
    rw [applyQ_map_cons, fullQ_expandPow_one]; simp
  · rw [applyQ_flatMap]
    congr 1
    apply List.map_congr_left
    intro i hi
    have hik : i ≤ k := by have := List.mem_range.1 hi; omega
    rw [applyQ_map_cons, fullQ_expandPow_one, binom_eq hik, ipow_eq]
    push_cast; ring

theorem finset_sum_range_eq_listQ (f : Nat → Rat) : ∀ n, ∑ m ∈ Finset.range n, f m = ((List.range n).map f).sum
  | 0 => by simp
  | n + 1 => by
    rw [Finset.sum_range_succ, finset_sum_range_eq_listQ f n, List.range_succ, List.map_append, List.sum_append]
    simp

/-- antiderivative identity (binomial theorem, one degree up) -/
theorem antiderivative_sum (k : Nat) (b y : Rat) :
    ((List.range (k + 1)).map fun i => (k.choose i : Rat) * b ^ i * (y ^ (k - i + 1) / ((k - i + 1 : Nat) : Rat))).sum =
      ((b + y) ^ (k + 1) - b ^ (k + 1)) / ((k + 1 : Nat) : Rat) := by
  rw [← finset_sum_range_eq_listQ, eq_div_iff (by positivity), Finset.sum_mul]
  have hR : (b + y) ^ (k + 1) - b ^ (k + 1) =
      ∑ i ∈ Finset.range (k + 1), b ^ i * y ^ (k + 1 - i) * ((k + 1).choose i : Rat) := by
    rw [add_pow, Finset.sum_range_succ]; simp
  rw [hR]
  apply Finset.sum_congr rfl
  intro i hi
  have hik : i < k + 1 := Finset.mem_range.1 hi
  have key : (k.choose i : Rat) * ((k + 1 : Nat) : Rat) = ((k + 1).choose i : Rat) * ((k - i + 1 : Nat) : Rat) := by
    have := Nat.choose_mul_succ_eq k i
    have h2 : k + 1 - i = k - i + 1 := by omega
    rw [h2] at this
    exact_mod_cast this
  have hne : ((k - i + 1 : Nat) : Rat) ≠ 0 := by positivity
  have h3 : k + 1 - i = k - i + 1 := by omega
  rw [h3]
  field_simp
  linear_combination (b ^ i * y ^ (k - i + 1)) * key

/-! ## shape of the expansion -/

theorem expandPow_shape : ∀ (row : List Int) (n : Nat) (t : Int × List Nat), t ∈ expandPow row n →
    t.2.length = row.length ∧ esum t.2 = n
  | [], n, t, h => by
    unfold expandPow at h
    split at h
    · rename_i h0; subst h0
      simp only [List.mem_singleton] at h; subst h; simp [esum]
    · simp at h
  | a :: as, n, t, h => by
    unfold expandPow at h
    split at h
    · obtain ⟨s, hs, rfl⟩ := List.mem_map.1 h
      have := expandPow_shape as n s hs
      simp [esum, this.1, this.2]
    · obtain ⟨i, hi, ht⟩ := List.mem_flatMap.1 h
      obtain ⟨s, hs, rfl⟩ := List.mem_map.1 ht
      have := expandPow_shape as (n - i) s hs
      have hin : i < n + 1 := List.mem_range.1 hi
      simp only [List.length_cons, esum, this.1, this.2, true_and]
      omega

theorem termsShape_1d (b : Int) (k : Nat) : TermsShape 1 (esum [k]) (expandAll [[b, 1]] [k]) := by
  intro t ht
  simp only [expandAll] at ht
  rw [pmul_one] at ht
  have := expandPow_shape [b, 1] k t ht
  match h2 : t.2, this with
  | [g0, g1], hh =>
    exact ⟨g0, [g1], rfl, rfl, by simpa [esum] using hh.2⟩

/-! ## the subdivision identities of the two interval refineries, for every degree -/

theorem refIntQ_s1 (j : Nat) : refIntQ true [j] = 1 / ((j + 1 : Nat) : Rat) := by
  simp only [refIntQ, refNum, refDen, simplexNum, esum, List.length_singleton, if_true, Nat.mul_one, Nat.add_zero]
  have hf : (fact j : Rat) ≠ 0 := by exact_mod_cast (fact_pos j).ne'
  simp only [fact]
  push_cast
  field_simp

theorem refIntQ_h1 (j : Nat) :
    refIntQ false [j] = ((1 : Rat) ^ (j + 1) - (-1) ^ (j + 1)) / ((j + 1 : Nat) : Rat) := by
  simp only [refIntQ, refNum, refDen, cubeNum, cubeDen, Bool.false_eq_true, if_false, Nat.mul_one, one_pow]
  rcases Nat.even_or_odd j with he | ho
  · have : j % 2 = 0 := Nat.even_iff.1 he
    rw [if_pos this, (he.add_one : Odd (j + 1)).neg_one_pow]
    push_cast; ring
  · have : ¬ j % 2 = 0 := by have := Nat.odd_iff.1 ho; omega
    rw [if_neg this, (ho.add_one : Even (j + 1)).neg_one_pow]
    push_cast; ring

theorem sum_sub_list (u v : Nat → Rat) (n : Nat) :
    ((List.range n).map fun i => u i - v i).sum = ((List.range n).map u).sum - ((List.range n).map v).sum := by
  rw [← finset_sum_range_eq_listQ, ← finset_sum_range_eq_listQ, ← finset_sum_range_eq_listQ, Finset.sum_sub_distrib]

/-- `Σ_i C(k,i) b^i ∫_{-1}^{1} x^(k-i) dx = ((b+1)^(k+1) − (b−1)^(k+1))/(k+1)` -/
theorem sum_choose_refIntQ_h1 (k : Nat) (b : Rat) :
    ((List.range (k + 1)).map fun i => (k.choose i : Rat) * b ^ i * refIntQ false [k - i]).sum =
      ((b + 1) ^ (k + 1) - b ^ (k + 1)) / ((k + 1 : Nat) : Rat) - ((b + -1) ^ (k + 1) - b ^ (k + 1)) / ((k + 1 : Nat) : Rat) := by
  rw [← antiderivative_sum k b 1, ← antiderivative_sum k b (-1), ← sum_sub_list]
  congr 1; apply List.map_congr_left; intro i _
  rw [refIntQ_h1]; ring

theorem subdiv_s1 (k : Nat) : mapsQ (refIntQ true) Gen.refMapsS1.maps [k] =
    refIntQ true [k] * (2 : Rat) ^ (Gen.refMapsS1.ce + Gen.refMapsS1.ae * esum [k]) := by
  have hrows : Gen.refMapsS1.maps.map RefMap.rows = [[[0, 1]], [[1, 1]]] := by decide
  simp only [mapsQ, Gen.refMapsS1, List.map_cons, List.map_nil, List.sum_cons, List.sum_nil] at hrows ⊢
  simp only [List.cons.injEq, and_true] at hrows
  rw [hrows.1, hrows.2, applyQ_expandAll_1d, applyQ_expandAll_1d, if_pos rfl, if_neg (by decide)]
  have hA := antiderivative_sum k 1 1
  simp only [refIntQ_s1, esum]
  have : ((List.range (k + 1)).map fun i => (k.choose i : Rat) * ((1 : Int) : Rat) ^ i * (1 / ((k - i + 1 : Nat) : Rat))).sum =
      ((1 + 1 : Rat) ^ (k + 1) - 1 ^ (k + 1)) / ((k + 1 : Nat) : Rat) := by
    rw [← hA]; congr 1; apply List.map_congr_left; intro i _; simp
  rw [this]
  have hk : ((k + 1 : Nat) : Rat) ≠ 0 := by positivity
  field_simp
  ring

theorem subdiv_h1 (k : Nat) : mapsQ (refIntQ false) Gen.refMapsH1.maps [k] =
    refIntQ false [k] * (2 : Rat) ^ (Gen.refMapsH1.ce + Gen.refMapsH1.ae * esum [k]) := by
  have hrows : Gen.refMapsH1.maps.map RefMap.rows = [[[-1, 1]], [[1, 1]]] := by decide
  simp only [mapsQ, Gen.refMapsH1, List.map_cons, List.map_nil, List.sum_cons, List.sum_nil] at hrows ⊢
  simp only [List.cons.injEq, and_true] at hrows
  rw [hrows.1, hrows.2, applyQ_expandAll_1d, applyQ_expandAll_1d, if_neg (by decide), if_neg (by decide)]
  have hsum : ∀ b : Rat, ((List.range (k + 1)).map fun i => (k.choose i : Rat) * b ^ i * refIntQ false [k - i]).sum =
      ((b + 1) ^ (k + 1) - b ^ (k + 1)) / ((k + 1 : Nat) : Rat) - ((b + -1) ^ (k + 1) - b ^ (k + 1)) / ((k + 1 : Nat) : Rat) := by
    intro b
    rw [← antiderivative_sum k b 1, ← antiderivative_sum k b (-1), ← sum_sub_list]
    congr 1; apply List.map_congr_left; intro i _
    rw [refIntQ_h1]; ring
  have h1 := hsum (-1)
  have h2 := hsum 1
  simp only [Int.cast_neg, Int.cast_one] at h1 h2 ⊢
  rw [h1, h2, refIntQ_h1]
  simp only [esum]
  have hk : ((k + 1 : Nat) : Rat) ≠ 0 := by positivity
  have hm : (-1 + -1 : Rat) ^ (k + 1) = (-1) ^ (k + 1) * 2 ^ (k + 1) := by
    rw [show (-1 + -1 : Rat) = -1 * 2 by norm_num, mul_pow]
  have hz : (-1 + 1 : Rat) ^ (k + 1) = 0 := by simp
  have hz' : (1 + -1 : Rat) ^ (k + 1) = 0 := by simp
  have h2' : (1 + 1 : Rat) ^ (k + 1) = 2 ^ (k + 1) := by norm_num
  rw [hm, hz, hz', h2']
  field_simp
  ring

/-! ## refinement keeps every degree on the interval shapes -/

theorem wf_refine' (t : DyTable) (rm : RefMaps) (dim : Nat) (ht : t.wf dim = true) (hrm : rm.wf dim = true) :
    ∀ k, (t.refine rm k).wf dim = true
  | 0 => ht
  | k + 1 => wf_refine1 _ rm dim (wf_refine' t rm dim ht hrm k) hrm

theorem shape_1d_s1 (k : Nat) : ∀ m ∈ Gen.refMapsS1.maps, TermsShape 1 (esum [k]) (expandAll m.rows [k]) := by
  have hrows : Gen.refMapsS1.maps.map RefMap.rows = [[[0, 1]], [[1, 1]]] := by decide
  intro m hm
  have : m.rows ∈ Gen.refMapsS1.maps.map RefMap.rows := List.mem_map_of_mem hm
  rw [hrows] at this
  simp only [List.mem_cons, List.not_mem_nil, or_false] at this
  rcases this with h | h <;> rw [h] <;> exact termsShape_1d _ k

theorem shape_1d_h1 (k : Nat) : ∀ m ∈ Gen.refMapsH1.maps, TermsShape 1 (esum [k]) (expandAll m.rows [k]) := by
  have hrows : Gen.refMapsH1.maps.map RefMap.rows = [[[-1, 1]], [[1, 1]]] := by decide
  intro m hm
  have : m.rows ∈ Gen.refMapsH1.maps.map RefMap.rows := List.mem_map_of_mem hm
  rw [hrows] at this
  simp only [List.mem_cons, List.not_mem_nil, or_false] at this
  rcases this with h | h <;> rw [h] <;> exact termsShape_1d _ k

/-- exactness (tolerance 0) up to ANY degree `d` survives any number of refinements on `[0,1]` and `[-1,1]` -/
theorem refine_exact_1d (simplex : Bool) (rm : RefMaps) (hrm : rm.wf 1 = true)
    (hsh : ∀ k, ∀ m ∈ rm.maps, TermsShape 1 (esum [k]) (expandAll m.rows [k]))
    (hI : ∀ k, mapsQ (refIntQ simplex) rm.maps [k] = refIntQ simplex [k] * (2 : Rat) ^ (rm.ce + rm.ae * esum [k]))
    (t : DyTable) (ht : t.wf 1 = true) (d : Nat)
    (H : ∀ e : List Nat, e.length = 1 → esum e ≤ d → t.momentQ e = refIntQ simplex e) :
    ∀ (r : Nat) (e : List Nat), e.length = 1 → esum e ≤ d → (t.refine rm r).momentQ e = refIntQ simplex e
  | 0, e, hl, hs => H e hl hs
  | r + 1, e, hl, hs => by
    match e, hl with
    | [k], _ =>
      exact refine1_exact_core simplex 1 rm [k] (t.refine rm r) (wf_refine' t rm 1 ht hrm r) hrm (hsh k) (hI k)
        (fun f hfl hfs => refine_exact_1d simplex rm hrm hsh hI t ht d H r f hfl (le_trans hfs hs))

end FeatModel.Cub
