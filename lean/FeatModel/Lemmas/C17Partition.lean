import FeatModel.Lemmas.C17Cover
import FeatModel.Lemmas.C17Bfs
import FeatModel.Lemmas.C17ThreadLayers
import FeatModel.Lemmas.C17Neighbours
/-!
C17: the output of `compile` — for every strategy, every requested worker count and every selection (including the
empty one and the master-only case): the cells prepared by the master and the workers together are exactly the
selected cells, each once.  Core Lean only.
-/
open FeatModel.Adj

namespace FeatModel.DA

/-! ### shape of the `compile` output -/

/-- the four ways `compile` produces its result -/
theorem pt_compile_shape (strategy maxW nvt : Nat) (cells : List (List Nat)) (sel : List Nat)
    (d : Dist) (h : compile strategy maxW nvt cells sel = some d) :
    (sel = [] ∧ d = ⟨strategy, 0, [], [], [], [], 0⟩) ∨
    (sel ≠ [] ∧ d.nW = 0 ∧ d.elemIdx = sel) ∨
    (sel ≠ [] ∧ maxW ≠ 0 ∧ d.strategy ≠ 4 ∧ ∃ rev sorted nW,
      buildLayers (neighbours nvt (sel.map fun c => cells.getD c [])) sel rev sorted = some (d.elemIdx, d.layerElems) ∧
      buildThreadLayers maxW d.elemIdx.length d.layerElems = some (nW, d.threadLayers) ∧
      d.nW = (if nW ≤ 1 then 0 else nW)) ∨
    (sel ≠ [] ∧ maxW ≠ 0 ∧ d.strategy = 4 ∧
      d.nW = (if (buildColors (neighbours nvt (sel.map fun c => cells.getD c [])) sel maxW).1 ≤ 1 then 0
        else (buildColors (neighbours nvt (sel.map fun c => cells.getD c [])) sel maxW).1) ∧
      d.elemIdx = (buildColors (neighbours nvt (sel.map fun c => cells.getD c [])) sel maxW).2.1 ∧
      d.colorElems = (buildColors (neighbours nvt (sel.map fun c => cells.getD c [])) sel maxW).2.2) := by
  unfold compile at h
  split at h
  · rename_i he
    left
    refine ⟨List.isEmpty_iff.1 he, ?_⟩
    exact (Option.some.inj h).symm
  · rename_i he
    have hne : sel ≠ [] := fun e => he (List.isEmpty_iff.2 e)
    simp only [] at h
    generalize (if strategy = 0 then (if maxW ≤ 1 then 1 else 2) else strategy) = s' at h
    split at h
    · right; left
      have := Option.some.inj h
      subst this
      exact ⟨hne, rfl, rfl⟩
    · rename_i hm
      split at h
      · right; right; left
        split at h
        · exact absurd h (by simp)
        · rename_i ei le hbl
          split at h
          · exact absurd h (by simp)
          · rename_i nW tl hbt
            have := Option.some.inj h
            subst this
            exact ⟨hne, hm, by simp, _, _, nW, hbl, hbt, rfl⟩
      · right; right; left
        split at h
        · exact absurd h (by simp)
        · rename_i ei le hbl
          split at h
          · exact absurd h (by simp)
          · rename_i nW tl hbt
            have := Option.some.inj h
            subst this
            exact ⟨hne, hm, by simp, _, _, nW, hbl, hbt, rfl⟩
      · right; right; right
        have := Option.some.inj h
        subst this
        exact ⟨hne, hm, rfl, rfl, rfl, rfl⟩
      · right; left
        have := Option.some.inj h
        subst this
        exact ⟨hne, rfl, rfl⟩

/-! ### worker ranges -/

theorem pt_workerCells_zero (d : Dist) (ns : Bool) :
    workerCells d ns 0 = if d.nW = 0 then d.elemIdx else [] := by
  unfold workerCells
  by_cases h : d.nW = 0 <;> simp [h]

/-- master + workers: the master's list when there are no workers, otherwise the workers' lists -/
theorem pt_range_split (d : Dist) (ns : Bool) :
    (List.range (d.nW + 1)).flatMap (fun w => workerCells d ns w) =
      if d.nW = 0 then d.elemIdx else (List.range d.nW).flatMap (fun k => workerCells d ns (k + 1)) := by
  rw [List.range_succ_eq_map, List.flatMap_cons, pt_workerCells_zero, List.flatMap_map]
  by_cases h : d.nW = 0
  · simp [h]
  · simp only [h, if_false, List.nil_append]

theorem pt_partition_of (d : Dist) (ns : Bool) (sel : List Nat) (hperm : d.elemIdx.Perm sel)
    (hcov : 1 ≤ d.nW → ((List.range d.nW).flatMap (fun k => workerCells d ns (k + 1))).Perm d.elemIdx) :
    ((List.range (d.nW + 1)).flatMap (fun w => workerCells d ns w)).Perm sel := by
  rw [pt_range_split]
  by_cases h : d.nW = 0
  · simp only [h, if_true]; exact hperm
  · simp only [h, if_false]; exact (hcov (by omega)).trans hperm

/-! ### layered strategies -/

theorem pt_btl (maxW numElems : Nat) (le : List Nat) (nW : Nat) (tl : List Nat)
    (h : buildThreadLayers maxW numElems le = some (nW, tl)) :
    nW ≤ maxW ∧ (1 ≤ nW → 3 ≤ le.length ∧ tl.getD 0 0 = 0 ∧ tl.getD nW 0 = le.length - 1 ∧
      ∀ i, i < nW → tl.getD i 0 + 2 ≤ tl.getD (i + 1) 0) := by
  by_cases h1 : 1 ≤ numWorkersLayered maxW le
  · obtain ⟨tl', e1, _, e3, e4, e5⟩ := buildThreadLayers_spec maxW numElems le h1
    rw [e1] at h
    have h' := Option.some.inj h
    have hn : numWorkersLayered maxW le = nW := congrArg Prod.fst h'
    have ht : tl' = tl := congrArg Prod.snd h'
    subst hn; subst ht
    have h3 : 3 ≤ le.length := by
      unfold numWorkersLayered at h1
      have := Nat.div_mul_le_self le.length 3
      omega
    refine ⟨?_, fun _ => ⟨h3, e3, e4, e5⟩⟩
    unfold numWorkersLayered
    exact Nat.min_le_left _ _
  · unfold buildThreadLayers at h
    simp only [] at h
    rw [if_pos (by omega)] at h
    have h' := Option.some.inj h
    have hn : 0 = nW := congrArg Prod.fst h'
    subst hn
    exact ⟨Nat.zero_le _, fun h0 => absurd h0 (by omega)⟩

theorem pt_tl_le (tl : List Nat) (n : Nat) (hg : ∀ i, i < n → tl.getD i 0 + 2 ≤ tl.getD (i + 1) 0) :
    ∀ k i, i + k = n → tl.getD i 0 ≤ tl.getD n 0 := by
  intro k
  induction k with
  | zero => intro i hi; have : i = n := by omega
            subst this; exact Nat.le_refl _
  | succ k ih =>
    intro i hi
    have h1 := hg i (by omega)
    have h2 := ih (i + 1) (by omega)
    omega

theorem pt_cover_layered (d : Dist) (ns : Bool) (h : 1 ≤ d.nW) (hs : d.strategy ≠ 4)
    (h3 : 3 ≤ d.layerElems.length)
    (l0 : d.layerElems.getD 0 0 = 0) (l1 : d.layerElems.getD (d.layerElems.length - 1) 0 = d.elemIdx.length)
    (lm : ∀ i j, i < j → j < d.layerElems.length → d.layerElems.getD i 0 < d.layerElems.getD j 0)
    (t0 : d.threadLayers.getD 0 0 = 0) (t1 : d.threadLayers.getD d.nW 0 = d.layerElems.length - 1)
    (tg : ∀ i, i < d.nW → d.threadLayers.getD i 0 + 2 ≤ d.threadLayers.getD (i + 1) 0) :
    (List.range d.nW).flatMap (fun k => workerCells d ns (k + 1)) = d.elemIdx := by
  cases ns with
  | false => exact workerCells_cover_noscatter d h
  | true =>
    refine workerCells_cover_layered d h hs (by rw [t0, l0]) (by rw [t1, l1]) ?_
    intro w hw
    have g1 := tg w hw
    have g2 := pt_tl_le d.threadLayers d.nW tg (d.nW - (w + 1)) (w + 1) (by omega)
    exact Nat.le_of_lt (lm _ _ (by omega) (by omega))

/-! ### colored strategy -/

theorem pt_colors (g : Graph) (sel : List Nat) (maxW : Nat) (hsq : g.nImg = g.nDom) (hwf : g.wf = true)
    (hlen : sel.length = g.nDom) :
    (buildColors g sel maxW).1 ≤ maxW ∧
    (buildColors g sel maxW).2.1.Perm sel ∧ 1 ≤ (buildColors g sel maxW).2.2.length ∧
    (buildColors g sel maxW).2.2.getD 0 0 = 0 ∧
    (buildColors g sel maxW).2.2.getD ((buildColors g sel maxW).2.2.length - 1) 0 = (buildColors g sel maxW).2.1.length ∧
    (∀ c, c + 1 < (buildColors g sel maxW).2.2.length →
      (buildColors g sel maxW).2.2.getD c 0 ≤ (buildColors g sel maxW).2.2.getD (c + 1) 0) := by
  unfold buildColors
  simp only []
  generalize hp : Coloring.partitionGraph (Coloring.greedy g).numColors (Coloring.greedy g).coloring.toList = parti
  have hperm : parti.adj.flatten.Perm (List.range g.nDom) := by
    have := cov_loc_perm _ _ (cov_greedy_lt g hsq hwf)
    rw [cov_greedy_size, hp] at this
    exact this
  unfold Graph.imageIdx Graph.domainPtr
  refine ⟨Nat.min_le_left _ _, ?_, ?_, ?_, ?_, ?_⟩
  · have := hperm.map (fun k => sel.getD k 0)
    rw [← hlen, bfs_map_getD_range] at this
    exact this
  · rw [bfs_ps_length]; omega
  · exact cov_prefixSums_head _ _
  · rw [bfs_ps_length, Nat.add_sub_cancel, bfs_ps_get_last, List.length_map, List.length_flatten]
    omega
  · intro c hc
    exact bfs_ps_mono _ 0 c (c + 1) (by omega) hc

/-! ### the theorems -/

theorem pt_vertex_bound (nvt : Nat) (cells : List (List Nat)) (sel : List Nat)
    (hsel : ∀ c, c ∈ sel → ∀ v, v ∈ cells.getD c [] → v < nvt) :
    ∀ l, l ∈ sel.map (fun c => cells.getD c []) → ∀ v, v ∈ l → v < nvt := by
  intro l hl v hv
  obtain ⟨c, hc, rfl⟩ := List.mem_map.1 hl
  exact hsel c hc v hv

/-- `compile` output: the cells the master (w = 0, only if nW = 0) and the workers 1..nW prepare, taken together, are
    exactly the selected cells, each once; for jobs with scatter (`ns = true`) and without -/
theorem compile_workers_partition (strategy maxW nvt : Nat) (cells : List (List Nat)) (sel : List Nat)
    (hsel : ∀ c, c ∈ sel → ∀ v, v ∈ cells.getD c [] → v < nvt)
    (d : Dist) (h : compile strategy maxW nvt cells sel = some d) (ns : Bool) :
    ((List.range (d.nW + 1)).flatMap (fun w => workerCells d ns w)).Perm sel := by
  have hv := pt_vertex_bound nvt cells sel hsel
  obtain ⟨hsq, hnd, hwf, hsym, _⟩ := neighbours_wf nvt _ hv
  rw [List.length_map] at hnd
  rcases pt_compile_shape strategy maxW nvt cells sel d h with
    ⟨he, hd⟩ | ⟨_, hn, hei⟩ | ⟨hne, _, hs, rev, sorted, nW, hbl, hbt, hn⟩ | ⟨hne, _, hs, hn, hei, hce⟩
  · subst he; subst hd
    exact pt_partition_of _ ns [] (List.Perm.refl _) (fun h1 => absurd h1 (Nat.not_succ_le_zero 0))
  · exact pt_partition_of d ns sel (hei ▸ List.Perm.refl _) (fun h1 => absurd h1 (by omega))
  · have hpos : 0 < (neighbours nvt (sel.map fun c => cells.getD c [])).nDom := by
      rw [hnd]; exact List.length_pos_iff.2 hne
    obtain ⟨p1, p2, p3, p4⟩ := bfs_layers_partition _ sel rev sorted hsq hwf hnd.symm hpos _ _ hbl
    obtain ⟨_, q⟩ := pt_btl _ _ _ _ _ hbt
    refine pt_partition_of d ns sel p1 (fun h1 => ?_)
    have e : d.nW = nW := by
      rw [hn]; split
      · rename_i h'; rw [hn, if_pos h'] at h1; omega
      · rfl
    obtain ⟨q0, q1, q2, q3⟩ := q (by omega)
    rw [← e] at q2 q3
    rw [pt_cover_layered d ns h1 hs q0 p2 p3 p4 q1 q2 q3]
  · obtain ⟨_, c1, c2, c3, c4, c5⟩ := pt_colors _ sel maxW hsq hwf hnd.symm
    rw [← hei] at c1 c4
    rw [← hce] at c2 c3 c4 c5
    refine pt_partition_of d ns sel c1 (fun h1 => ?_)
    cases ns with
    | false => rw [workerCells_cover_noscatter d h1]
    | true => exact workerCells_cover_colored d h1 hs c2 c3 c4 c5

/-- the resolved worker count is never 1 and never exceeds the request -/
theorem compile_nW (strategy maxW nvt : Nat) (cells : List (List Nat)) (sel : List Nat)
    (d : Dist) (h : compile strategy maxW nvt cells sel = some d) : d.nW ≠ 1 ∧ d.nW ≤ maxW := by
  rcases pt_compile_shape strategy maxW nvt cells sel d h with
    ⟨_, hd⟩ | ⟨_, hn, _⟩ | ⟨_, _, _, rev, sorted, nW, _, hbt, hn⟩ | ⟨_, _, _, hn, _, _⟩
  · subst hd; exact ⟨by simp, Nat.zero_le _⟩
  · rw [hn]; exact ⟨by decide, Nat.zero_le _⟩
  · have := (pt_btl _ _ _ _ _ hbt).1
    rw [hn]; split <;> omega
  · have : (buildColors (neighbours nvt (sel.map fun c => cells.getD c [])) sel maxW).1 ≤ maxW := by
      unfold buildColors; exact Nat.min_le_left _ _
    rw [hn]; split <;> omega

/-- no cells selected: nothing to do, no workers, no fences -/
theorem compile_empty (strategy maxW nvt : Nat) (cells : List (List Nat)) :
    compile strategy maxW nvt cells [] = some ⟨strategy, 0, [], [], [], [], 0⟩ := rfl

end FeatModel.DA
