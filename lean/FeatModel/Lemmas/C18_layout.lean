/-
C18 helper lemmas, part 16: the CSR layout produced by the symbolic 2-level assembly (`injectify_sorted` of the dof
adjacency, C16's `symbolicGraph2`) is structurally valid (`LA.Csr.valid`: monotone row pointer, in-range and strictly
increasing column indices), whatever values are stored.  This discharges the hypothesis of
`C18.restriction_is_transpose` for the prolongation matrix of every `fe` case.
-/
import FeatModel.Model.TransferNested
import FeatModel.Lemmas.C19_renders
import FeatModel.Lemmas.C16_assembly
import FeatModel.Lemmas.C16_identities
import FeatModel.Lemmas.C18_tp
import FeatModel.Lemmas.C02Transpose
open FeatModel.GT FeatModel.Adj FeatModel.LA

namespace C18L

theorem arr_getD (l : List Nat) (i : Nat) : l.toArray.getD i 0 = l.getD i 0 := by
  simp [Array.getD, List.getD_eq_getElem?_getD]
  split <;> simp_all

theorem getD_of_lt (l : List Nat) {i : Nat} (h : i < l.length) : l.getD i 0 = l[i] := by
  simp [List.getD_eq_getElem?_getD, h]

theorem getD_flatten_row (g : Graph) {i k : Nat} (hi : i < g.nDom)
    (h1 : g.domainPtr.getD i 0 ≤ k) (h2 : k < g.domainPtr.getD (i + 1) 0) :
    g.imageIdx.getD k 0 = (g.row i).getD (k - g.domainPtr.getD i 0) 0 ∧
    k - g.domainPtr.getD i 0 < (g.row i).length := by
  have hrow := (C19L.renders.arrays_faithful g i hi).2
  have hlen : (g.row i).length = g.domainPtr.getD (i + 1) 0 - g.domainPtr.getD i 0 := by
    have := C16L.prefixSums_getD_succ 0 (g.adj.map List.length) i (by simpa [Graph.nDom] using hi)
    unfold Graph.domainPtr
    rw [this]
    simp [Graph.row, List.getD_eq_getElem?_getD, List.getElem?_map]
    cases h : g.adj[i]? <;> simp
  constructor
  · rw [hrow]
    simp only [List.getD_eq_getElem?_getD, List.getElem?_take, List.getElem?_drop]
    have : k - g.domainPtr.getD i 0 < g.domainPtr.getD (i + 1) 0 - g.domainPtr.getD i 0 := by omega
    simp only [List.getD_eq_getElem?_getD] at this
    rw [if_pos this]
    congr 2
    simp only [List.getD_eq_getElem?_getD] at h1
    omega
  · rw [hlen]; omega

/-- a graph with in-range, strictly increasing rows gives a valid CSR layout -/
theorem graph_layout_valid (g : Graph) (vals : Array Rat) (hv : vals.size = g.imageIdx.length)
    (hcol : ∀ i, i < g.nDom → ∀ c ∈ g.row i, c < g.nImg)
    (hsort : ∀ i, i < g.nDom → (g.row i).Pairwise (· < ·)) :
    (⟨g.nDom, g.nImg, g.domainPtr.toArray, g.imageIdx.toArray, vals⟩ : Csr Rat).valid = true := by
  have hlenptr : g.domainPtr.length = g.nDom + 1 := by
    simp [Graph.domainPtr, Graph.nDom, C19L.renders.prefixSums_length]
  have hmono : ∀ i, i < g.nDom → g.domainPtr.getD i 0 ≤ g.domainPtr.getD (i + 1) 0 := by
    intro i hi
    have := C16L.prefixSums_getD_succ 0 (g.adj.map List.length) i (by simpa [Graph.nDom] using hi)
    unfold Graph.domainPtr
    rw [this]; omega
  have hlast : g.domainPtr.getD g.nDom 0 = g.imageIdx.length := by
    have := C16L.prefixSums_getD_last 0 (g.adj.map List.length)
    simp only [List.length_map] at this
    unfold Graph.domainPtr Graph.imageIdx Graph.nDom
    rw [this, List.length_flatten]; simp
  -- every storage position lies in some row
  have hwhich : ∀ k, k < g.imageIdx.length → ∃ i, i < g.nDom ∧ g.domainPtr.getD i 0 ≤ k ∧ k < g.domainPtr.getD (i + 1) 0 := by
    intro k hk
    by_contra hcon
    push_neg at hcon
    have : ∀ i, i ≤ g.nDom → g.domainPtr.getD i 0 ≤ k := by
      intro i
      induction i with
      | zero => intro _; rw [show g.domainPtr.getD 0 0 = 0 from C19L.renders.prefixSums_getD_zero 0 _]; omega
      | succ i ih =>
        intro hi
        have h1 := ih (by omega)
        exact hcon i (by omega) h1
    have := this g.nDom (le_refl _)
    omega
  have hV : C02L.V (⟨g.nDom, g.nImg, g.domainPtr.toArray, g.imageIdx.toArray, vals⟩ : Csr Rat) := by
    refine ⟨by simp [hlenptr], ?_, ?_, by simp [hv], ?_, ?_, ?_⟩
    · show g.domainPtr.toArray.getD 0 0 = 0
      rw [arr_getD]; exact C19L.renders.prefixSums_getD_zero 0 _
    · show g.domainPtr.toArray.getD g.nDom 0 = vals.size
      rw [arr_getD, hlast, hv]
    · intro i hi
      show g.domainPtr.toArray.getD i 0 ≤ g.domainPtr.toArray.getD (i + 1) 0
      rw [arr_getD, arr_getD]; exact hmono i hi
    · intro k hk
      show g.imageIdx.toArray.getD k 0 < g.nImg
      rw [arr_getD]
      obtain ⟨i, hi, h1, h2⟩ := hwhich k (by rw [← hv]; exact hk)
      obtain ⟨e, hl⟩ := getD_flatten_row g hi h1 h2
      rw [e]
      apply hcol i hi
      rw [getD_of_lt _ hl]
      exact List.getElem_mem hl
    · intro i hi k h1 h2
      show g.imageIdx.toArray.getD k 0 < g.imageIdx.toArray.getD (k + 1) 0
      rw [arr_getD, arr_getD]
      have h1 : g.domainPtr.getD i 0 ≤ k := by have := h1; simpa only [arr_getD] using this
      have h2 : k + 1 < g.domainPtr.getD (i + 1) 0 := by have := h2; simpa only [arr_getD] using this
      obtain ⟨e1, l1⟩ := getD_flatten_row g hi h1 (by omega)
      obtain ⟨e2, l2⟩ := getD_flatten_row g hi (by omega : g.domainPtr.getD i 0 ≤ k + 1) h2
      rw [e1, e2]
      have hp := hsort i hi
      rw [List.pairwise_iff_getElem] at hp
      have := hp (k - g.domainPtr.getD i 0) (k + 1 - g.domainPtr.getD i 0) l1 l2 (by omega)
      rw [getD_of_lt _ l1, getD_of_lt _ l2]
      exact this
  have := C02L.V_to hV
  simp [Csr.valid, this.1, this.2]

/-- the rows of an `injectify_sorted` composite are strictly increasing, and their entries are entries of `b` -/
theorem render3_rows (a b g : Graph) (hg : Graph.renderComposite 3 a b = some g) (i : Nat) :
    (g.row i).Pairwise (· < ·) ∧ (∀ c ∈ g.row i, ∃ j, c ∈ b.row j) ∧ g.nImg = b.nImg := by
  unfold Graph.renderComposite at hg
  split at hg
  · cases hg
  · simp only [Graph.render, Option.some.injEq] at hg
    subst hg
    obtain ⟨hperm, hle⟩ := C19L.renders.sortIndices_spec (Graph.compose a b).injectify i
    obtain ⟨hnd, hmem, _, _, _⟩ := C19L.renders.injectify_spec (Graph.compose a b) i
    refine ⟨?_, ?_, ?_⟩
    · have hnd' : ((Graph.compose a b).injectify.sortIndices.row i).Nodup := hperm.nodup_iff.2 hnd
      rw [List.pairwise_iff_getElem] at hle ⊢
      intro p q hp hq hpq
      have h1 := hle p q hp hq hpq
      have h2 : ((Graph.compose a b).injectify.sortIndices.row i)[p]
          ≠ ((Graph.compose a b).injectify.sortIndices.row i)[q] := by
        intro he
        have := (List.Nodup.getElem_inj_iff hnd').1 he
        omega
      omega
    · intro c hc
      have hc1 : c ∈ (Graph.compose a b).injectify.row i := hperm.mem_iff.1 hc
      have hc2 := (hmem c).1 hc1
      obtain ⟨j, _, hj⟩ := ((C19L.renders.compose_spec a b i).2 c).1 hc2
      exact ⟨j, hj⟩
    · simp [Graph.sortIndices, Graph.injectify, Graph.compose]

/-- **the 2-level layout is valid**: for every case with in-range coarse dof-mappings, the layout computed by the
symbolic 2-level assembly carries a valid CSR container, whatever values are stored in it -/
theorem layout2lvl_valid (d : Dump) (g : Graph) (hg : layout2lvl d = some g) (hmaps : mapsB d = true) (m : Mat) :
    (csrOfDense d.nf d.nc g.domainPtr g.imageIdx m).valid = true ∧
    (csrOfDense d.nf d.nc g.domainPtr g.imageIdx m).rows = d.nf ∧
    (csrOfDense d.nf d.nc g.domainPtr g.imageIdx m).cols = d.nc := by
  unfold layout2lvl at hg
  have hunf := C16L.symbolic2_unfold _ _ _ _ g hg
  have hdims := C16L.symbolic_dims ⟨d.nf, _⟩ ⟨d.nc, _⟩ g hunf
  have hcmaps := (mapsB_spec hmaps).1
  have hrows : ∀ i, (g.row i).Pairwise (· < ·) ∧ ∀ c ∈ g.row i, c < g.nImg := by
    intro i
    obtain ⟨h1, h2, h3⟩ := render3_rows _ _ g hunf i
    refine ⟨h1, ?_⟩
    intro c hc
    obtain ⟨j, hj⟩ := h2 c hc
    rw [h3]
    -- c is an entry of the coarse dof-mapping of some (cell, child) pair
    simp only [Graph.row, List.getD_eq_getElem?_getD, List.getElem?_map] at hj
    cases hp : (d.cells.flatMap fun cell => cell.children.map fun ch => (ch.fmap, cell.cmap))[j]? with
    | none => simp [hp] at hj
    | some pr =>
      simp only [hp, Option.map_some, Option.getD_some] at hj
      have hmem := List.mem_of_getElem? hp
      rw [List.mem_flatMap] at hmem
      obtain ⟨cell, hcell, hpr⟩ := hmem
      rw [List.mem_map] at hpr
      obtain ⟨ch, _, rfl⟩ := hpr
      simp only at hj
      obtain ⟨q, hq, rfl⟩ := List.getElem_of_mem hj
      have := hcmaps cell hcell q hq
      rw [getD_of_lt _ hq] at this
      exact this
  have hval : (⟨g.nDom, g.nImg, g.domainPtr.toArray, g.imageIdx.toArray,
      (csrOfDense d.nf d.nc g.domainPtr g.imageIdx m).val⟩ : Csr Rat).valid = true := by
    apply graph_layout_valid g _ ?_ (fun i _ => (hrows i).2) (fun i _ => (hrows i).1)
    -- number of stored values = number of column indices
    unfold csrOfDense
    simp only [List.size_toArray, List.length_flatMap, List.length_map, List.length_range']
    have hl : g.imageIdx.length = g.domainPtr.getD g.nDom 0 := by
      have := C16L.prefixSums_getD_last 0 (g.adj.map List.length)
      simp only [List.length_map] at this
      unfold Graph.domainPtr Graph.imageIdx Graph.nDom
      rw [this, List.length_flatten]; simp
    have hnd : g.nDom = d.nf := hdims.1
    rw [hl, ← hnd]
    have tele : ∀ n, n ≤ g.nDom → ((List.range n).map fun i =>
        g.domainPtr.getD (i + 1) 0 - g.domainPtr.getD i 0).sum = g.domainPtr.getD n 0 := by
      intro n
      induction n with
      | zero =>
        intro _
        rw [show g.domainPtr.getD 0 0 = 0 from C19L.renders.prefixSums_getD_zero 0 _]
        rfl
      | succ n ih =>
        intro hn
        rw [List.range_succ, List.map_append, List.sum_append, ih (by omega)]
        have hn' : n < (g.adj.map List.length).length := by
          have : n + 1 ≤ g.adj.length := by simpa [Graph.nDom] using hn
          rw [List.length_map]; omega
        have := C16L.prefixSums_getD_succ 0 (g.adj.map List.length) n hn'
        unfold Graph.domainPtr at *
        simp only [List.map_cons, List.map_nil, List.sum_cons, List.sum_nil]
        rw [this]; omega
    exact tele g.nDom (le_refl _)
  refine ⟨?_, rfl, rfl⟩
  have e : csrOfDense d.nf d.nc g.domainPtr g.imageIdx m
      = ⟨g.nDom, g.nImg, g.domainPtr.toArray, g.imageIdx.toArray,
          (csrOfDense d.nf d.nc g.domainPtr g.imageIdx m).val⟩ := by
    have hnd : g.nDom = d.nf := hdims.1
    have hni : g.nImg = d.nc := hdims.2
    unfold csrOfDense
    simp only [hnd, hni]
  rw [e]
  exact hval

end C18L
