import FeatModel.Model.FEDual
/-! kernel-checked: the generated tables of `keysH2a` reproduce all samples of the real FEAT evaluators and their
    gradient / Hessian polynomials are the formal derivatives of the value polynomials -/
namespace FeatModel.FE
set_option maxRecDepth 100000 in
theorem tabs_keysH2a : keysH2a.all okKey = true := by decide +kernel
end FeatModel.FE
