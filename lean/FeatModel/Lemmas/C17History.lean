import FeatModel.Lemmas.C17Repeat
import FeatModel.Lemmas.C17NoScatter
/-
C17: (A) history independence of repeated jobs on one assembler: what a job does and leaves behind does not depend
on what the previous jobs left in `_thread_fences`;
(B) the error path of jobs without scatter (`NESt`): mutual exclusion of `combine()`, deadlock-freedom,
conservativity over the error-free machine, termination.
-/
namespace FeatModel.DA

/-! ## A: history independence -/

theorem LCfg.startJob_indep (c : LCfg) (fs1 fs2 : List Bool) : c.startJob fs1 = c.startJob fs2 := by
  rw [LCfg.startJob_eq, LCfg.startJob_eq]

theorem CCfg.startJob_indep (c : CCfg) (fs1 fs2 : List Bool) : c.startJob fs1 = c.startJob fs2 := by
  rw [CCfg.startJob_eq, CCfg.startJob_eq]

theorem NCfg.startJob_indep (c : NCfg) (fs1 fs2 : List Bool) : c.startJob fs1 = c.startJob fs2 := by
  rw [NCfg.startJob_eq, NCfg.startJob_eq]

/-- what a job can leave behind depends only on the job, not on what the previous jobs left -/
theorem Job.leaves_indep (j : Job) (fs1 fs2 fs' : List Bool) (hl : fs1.length = fs2.length) :
    j.leaves fs1 fs' ↔ j.leaves fs2 fs' := by
  cases j with
  | layered c => simp only [Job.leaves, LCfg.startJob_eq, hl]
  | colored c => simp only [Job.leaves, CCfg.startJob_eq, hl]
  | nosc c => simp only [Job.leaves, NCfg.startJob_eq, resetAll_eq, hl]

/-- hence: in any two sessions of the same assembler (same number of fences), the same next job has the same runs
    and leaves the same fence vectors -/
theorem Session.next_job_indep {nF : Nat} {fs1 fs2 : List Bool} (h1 : Session nF fs1) (h2 : Session nF fs2)
    (j : Job) (fs' : List Bool) : j.leaves fs1 fs' ↔ j.leaves fs2 fs' :=
  Job.leaves_indep j fs1 fs2 fs' (by rw [h1.length, h2.length])

/-! ## B: the error path of jobs without scatter — the transition relation in explicit form -/

inductive NEStep (c : NCfg) (s : NESt) : NESt → Prop
  | mopen : s.base.mph = .front →
      NEStep c s { s with base := { s.base with front := true, mph := .back } }
  | join : s.base.mph = .back → c.allDone s.base = true →
      NEStep c s { s with base := { s.base with mph := .done } }
  | center (t : Nat) : 1 ≤ t → t ≤ c.n → s.failing t = false → s.exited t = false →
      s.base.ph t = .preComb → s.base.mutex = false →
      NEStep c s { s with base := { s.base with ph := updP s.base.ph t .inComb, mutex := true } }
  | cleave (t : Nat) : 1 ≤ t → t ≤ c.n → s.failing t = false → s.exited t = false →
      s.base.ph t = .inComb →
      NEStep c s { s with base := { s.base with ph := updP s.base.ph t .done, mutex := false } }
  | failC (t : Nat) : 1 ≤ t → t ≤ c.n → s.failing t = false → s.exited t = false →
      s.base.ph t = .inComb →
      NEStep c s { s with failing := updB s.failing t true, base := { s.base with mutex := false } }
  | failO (t : Nat) : 1 ≤ t → t ≤ c.n → s.failing t = false → s.exited t = false →
      (s.base.ph t = .preComb ∨ (s.base.ph t = .done ∧ c.comb = false)) →
      NEStep c s { s with failing := updB s.failing t true }
  | fopenF (t : Nat) : 1 ≤ t → t ≤ c.n → s.failing t = true →
      NEStep c s { base := { s.base with ph := updP s.base.ph t .done }, failing := updB s.failing t false,
                   exited := updB s.exited t true }

theorem hi_ok_parts {c : NCfg} {s s' : NESt} {e : Ev} (h : c.estep s (.ok e) = some s') :
    (e.thread = 0 ∨ (s.failing e.thread = false ∧ s.exited e.thread = false)) ∧
    ∃ b, c.step s.base e = some b ∧ s' = { s with base := b } := by
  simp only [NCfg.estep] at h
  split at h
  · cases h
  · next hg =>
    refine ⟨?_, ?_⟩
    · by_cases h0 : e.thread = 0
      · exact Or.inl h0
      · refine Or.inr ⟨?_, ?_⟩
        · cases hf : s.failing e.thread
          · rfl
          · exact absurd ⟨h0, Or.inl hf⟩ hg
        · cases hx : s.exited e.thread
          · rfl
          · exact absurd ⟨h0, Or.inr hx⟩ hg
    · cases hb : c.step s.base e with
      | none => rw [hb] at h; cases h
      | some b =>
        rw [hb] at h
        refine ⟨b, rfl, ?_⟩
        simp only [Option.map_some, Option.some.injEq] at h
        exact h.symm

theorem hi_estep_NEStep {c : NCfg} {s s' : NESt} {e : EEv} (h : c.estep s e = some s') : NEStep c s s' := by
  cases e with
  | ok e =>
    obtain ⟨hg, b, hb, rfl⟩ := hi_ok_parts h
    obtain ⟨hn, hen, rfl⟩ := ns_step_parts hb
    by_cases ht : e.thread = 0
    · rw [ht] at hn
      rcases ns_next_zero hn with ⟨hp, rfl⟩ | ⟨hp, rfl⟩
      · simpa [NCfg.apply] using NEStep.mopen (c := c) hp
      · simpa [NCfg.apply] using NEStep.join hp (by simpa [NCfg.enabled] using hen)
    · have hg' : s.failing e.thread = false ∧ s.exited e.thread = false := by
        rcases hg with h0 | h0
        · exact absurd h0 ht
        · exact h0
      generalize hteq : e.thread = t at hn ht hg'
      obtain ⟨hle, hcases⟩ := ns_next_worker ht hn
      have h1 : 1 ≤ t := by omega
      rcases hcases with ⟨hp, rfl⟩ | ⟨hp, rfl⟩
      · simpa [NCfg.apply] using
          NEStep.center _ h1 hle hg'.1 hg'.2 hp (by simpa [NCfg.enabled] using hen)
      · simpa [NCfg.apply] using NEStep.cleave _ h1 hle hg'.1 hg'.2 hp
  | fail t =>
    simp only [NCfg.estep] at h
    split at h
    · next hc =>
      obtain ⟨h1, h2, hf, hx, hp⟩ := hc
      injection h with h
      subst h
      by_cases hi : s.base.ph t = .inComb
      · simpa [hi] using NEStep.failC _ h1 h2 hf hx hi
      · have hp' : s.base.ph t = .preComb ∨ (s.base.ph t = .done ∧ c.comb = false) := by
          rcases hp with hp | hp | hp
          · exact Or.inl hp
          · exact absurd hp hi
          · exact Or.inr hp
        simpa [hi] using NEStep.failO _ h1 h2 hf hx hp'
    · cases h
  | fopenF t f =>
    simp only [NCfg.estep] at h
    split at h
    · next hc =>
      obtain ⟨h1, h2, hf, _⟩ := hc
      injection h with h
      subst h
      exact NEStep.fopenF _ h1 h2 hf
    · cases h
  | fwaitF t f =>
    simp only [NCfg.estep] at h
    cases h

theorem hi_reach_induct {c : NCfg} {P : NESt → Prop} (h0 : P c.einit)
    (hstep : ∀ s s', P s → NEStep c s s' → P s') : ∀ s, c.EReach s → P s := by
  intro s hs
  induction hs with
  | init => exact h0
  | step e _ h ih => exact hstep _ _ ih (hi_estep_NEStep h)

/-! ## the invariant -/

set_option linter.unusedSimpArgs false

structure NEInv (c : NCfg) (s : NESt) : Prop where
  phs : ∀ w, s.base.ph w = .preComb ∨ s.base.ph w = .inComb ∨ s.base.ph w = .done
  m1 : ∀ a, s.base.ph a = .inComb → s.failing a = false → s.base.mutex = true
  m2 : ∀ a b, s.base.ph a = .inComb → s.failing a = false → s.base.ph b = .inComb → s.failing b = false → a = b
  mutK : s.base.mutex = true → ∃ v, 1 ≤ v ∧ v ≤ c.n ∧ s.base.ph v = .inComb ∧ s.failing v = false
  mast : s.base.mph = .front ∨ s.base.mph = .back ∨ s.base.mph = .done
  exD : ∀ w, s.exited w = true → s.base.ph w = .done
  exF : ∀ w, s.failing w = true → s.exited w = false

theorem NEInv_init (c : NCfg) : NEInv c c.einit := by
  obtain ⟨n, comb⟩ := c
  cases comb <;> constructor <;> simp [NCfg.einit, NCfg.init]

theorem NEInv_step {c : NCfg} {s s' : NESt} (hi : NEInv c s) (hst : NEStep c s s') : NEInv c s' := by
  obtain ⟨phs, m1, m2, mutK, mast, exD, exF⟩ := hi
  cases hst
  all_goals
    constructor
    · intro w
      simp only [updP, updB]
      grind
    · intro a
      simp only [updP, updB]
      grind
    · intro a b
      simp only [updP, updB]
      grind
    · simp only [updP, updB]
      grind
    · grind
    · intro w
      simp only [updP, updB]
      grind
    · intro w
      simp only [updP, updB]
      grind

theorem NEInv_reach {c : NCfg} {s : NESt} (hs : c.EReach s) : NEInv c s :=
  hi_reach_induct (NEInv_init c) (fun _ _ hi hst => NEInv_step hi hst) s hs

/-- at most one worker is inside combine() (a worker whose combine() threw has released the mutex: its model
phase stays `inComb` until its `open(false)`, but it is `failing`) -/
theorem noscatter_err_combine_mutex (c : NCfg) (s : NESt) (hs : c.EReach s) (a b : Nat)
    (ha : 1 ≤ a ∧ a ≤ c.n) (hb : 1 ≤ b ∧ b ≤ c.n)
    (hA : s.base.ph a = .inComb ∧ s.failing a = false) (hB : s.base.ph b = .inComb ∧ s.failing b = false) :
    a = b :=
  have _ := ha
  have _ := hb
  (NEInv_reach hs).m2 a b hA.1 hA.2 hB.1 hB.2

/-! ## deadlock-freedom (without using `fail` events) -/

theorem hi_ok_step {c : NCfg} {s : NESt} (e : Ev)
    (hg : e.thread = 0 ∨ (s.failing e.thread = false ∧ s.exited e.thread = false))
    (hn : c.next s.base e.thread = some e) (hen : c.enabled s.base e = true) :
    ∃ e' s', c.estep s e' = some s' ∧ ∀ t, e' ≠ .fail t := by
  refine ⟨.ok e, { s with base := c.apply s.base e }, ?_, fun t h => by cases h⟩
  have hb : c.step s.base e = some (c.apply s.base e) := by simp [NCfg.step, hn, hen]
  have hng : ¬ (e.thread ≠ 0 ∧ (s.failing e.thread = true ∨ s.exited e.thread = true)) := by
    rcases hg with h0 | ⟨h1, h2⟩
    · exact fun h => h.1 h0
    · rw [h1, h2]; simp
  simp only [NCfg.estep, if_neg hng, hb, Option.map_some]

theorem hi_worker_step {c : NCfg} {s : NESt} (inv : NEInv c s)
    (w : Nat) (h1 : 1 ≤ w) (h2 : w ≤ c.n) (hnd : s.base.ph w ≠ .done) :
    ∃ e s', c.estep s e = some s' ∧ ∀ t, e ≠ .fail t := by
  have hw0 : w ≠ 0 := by omega
  have hwn : ¬ c.n < w := by omega
  have hx : s.exited w = false := by
    cases hx : s.exited w
    · rfl
    · exact absurd (inv.exD w hx) hnd
  cases hfl : s.failing w
  · rcases inv.phs w with h | h | h
    · by_cases hm : s.base.mutex = true
      · obtain ⟨v, hv1, hv2, hv, hvf⟩ := inv.mutK hm
        have hvx : s.exited v = false := by
          cases hvx : s.exited v
          · rfl
          · have := inv.exD v hvx; rw [hv] at this; cases this
        exact hi_ok_step (c := c) (s := s) (.cleave v) (Or.inr ⟨hvf, hvx⟩)
          (by simp [NCfg.next, Ev.thread, hv, show v ≠ 0 by omega, show ¬ c.n < v by omega])
          (by simp [NCfg.enabled])
      · exact hi_ok_step (c := c) (s := s) (.center w) (Or.inr ⟨hfl, hx⟩)
          (by simp [NCfg.next, Ev.thread, h, hw0, hwn])
          (by simpa [NCfg.enabled] using hm)
    · exact hi_ok_step (c := c) (s := s) (.cleave w) (Or.inr ⟨hfl, hx⟩)
        (by simp [NCfg.next, Ev.thread, h, hw0, hwn])
        (by simp [NCfg.enabled])
    · exact absurd h hnd
  · refine ⟨.fopenF w w,
      { base := { s.base with ph := updP s.base.ph w .done }, failing := updB s.failing w false,
        exited := updB s.exited w true }, ?_, fun t h => by cases h⟩
    simp only [NCfg.estep]
    exact if_pos ⟨h1, h2, hfl, trivial⟩

theorem hi_workers_step {c : NCfg} {s : NESt} (inv : NEInv c s) :
    ∀ k, k ≤ c.n → (∀ v, k < v → v ≤ c.n → s.base.ph v = .done) →
      (∃ e s', c.estep s e = some s' ∧ ∀ t, e ≠ .fail t) ∨ (∀ w, 1 ≤ w → w ≤ c.n → s.base.ph w = .done) := by
  intro k
  induction k with
  | zero => intro _ h; exact Or.inr (fun w h1 h2 => h w (by omega) h2)
  | succ k ih =>
    intro hk h
    by_cases hd : s.base.ph (k + 1) = .done
    · refine ih (by omega) (fun v hv1 hv2 => ?_)
      by_cases e : v = k + 1
      · subst e; exact hd
      · exact h v (by omega) hv2
    · exact Or.inl (hi_worker_step inv (k + 1) (by omega) hk hd)

/-- no deadlock, strong form: every reachable non-final state has an enabled transition that is not a `fail`
(so progress never depends on a task throwing) -/
theorem noscatter_err_no_deadlock_nofail (c : NCfg) (s : NESt) (hs : c.EReach s)
    (hf : NCfg.efinal s = false) : ∃ e s', c.estep s e = some s' ∧ ∀ t, e ≠ .fail t := by
  have inv := NEInv_reach hs
  have hnd : s.base.mph ≠ .done := by simpa [NCfg.efinal, NCfg.final] using hf
  rcases inv.mast with h | h | h
  · exact hi_ok_step (c := c) (s := s) (.fopen 0 0) (Or.inl rfl) (by simp [NCfg.next, Ev.thread, h])
      (by simp [NCfg.enabled])
  · rcases hi_workers_step inv c.n (Nat.le_refl _) (fun v h1 h2 => by omega) with hst | hall
    · exact hst
    · exact hi_ok_step (c := c) (s := s) .join (Or.inl rfl) (by simp [NCfg.next, Ev.thread, h])
        (by simpa [NCfg.enabled] using (ns_allDone_iff c s.base).2 hall)
  · exact absurd h hnd

/-- no deadlock: every reachable non-final state has an enabled transition -/
theorem noscatter_err_no_deadlock (c : NCfg) (s : NESt) (hs : c.EReach s) (hf : NCfg.efinal s = false) :
    ∃ e s', c.estep s e = some s' := by
  obtain ⟨e, s', h, _⟩ := noscatter_err_no_deadlock_nofail c s hs hf
  exact ⟨e, s', h⟩

/-! ## conservativity -/

/-- every run of the error-free machine is a run of the error machine (no failing, no exited worker) -/
theorem noscatter_err_conservative (c : NCfg) (s : NSt) (hs : c.Reach s) :
    ∃ es : NESt, c.EReach es ∧ es.base = s ∧ (∀ t, es.failing t = false) ∧ (∀ t, es.exited t = false) := by
  induction hs with
  | init => exact ⟨c.einit, .init, rfl, fun _ => rfl, fun _ => rfl⟩
  | step e _ hst ih =>
    obtain ⟨es, hr, rfl, hfl, hx⟩ := ih
    refine ⟨{ es with base := _ }, .step (.ok e) hr ?_, rfl, hfl, hx⟩
    have hng : ¬ (e.thread ≠ 0 ∧ (es.failing e.thread = true ∨ es.exited e.thread = true)) := by
      rw [hfl, hx]; simp
    simp only [NCfg.estep, if_neg hng, hst, Option.map_some]

/-! ## termination -/

/-- executes a list of events of the error machine -/
def NCfg.erun (c : NCfg) : NESt → List EEv → Option NESt
  | s, [] => some s
  | s, e :: es => match c.estep s e with | some s' => NCfg.erun c s' es | none => none

/-- remaining work of the master -/
def hi_mm (s : NSt) : Nat := match s.mph with | .front => 2 | .back => 1 | _ => 0

/-- remaining work of worker `w`: a worker that has returned through the error path has nothing left; a failing
worker has its `open(false)` to do; otherwise lock (4) / unlock (3); a `done` worker counts 2 because (without
combine) its last `finish()` can still throw (then `open(false)` follows) -/
def hi_wm (s : NESt) (w : Nat) : Nat :=
  if s.exited w = true then 0
  else if s.failing w = true then 1
  else match s.base.ph w with | .preComb => 4 | .inComb => 3 | _ => 2

def hi_sum (f : Nat → Nat) : Nat → Nat
  | 0 => 0
  | n + 1 => hi_sum f n + f (n + 1)

/-- the variant: at most `2 + 4 n` -/
def NCfg.emeasure (c : NCfg) (s : NESt) : Nat := hi_mm s.base + hi_sum (hi_wm s) c.n

theorem hi_sum_congr (f g : Nat → Nat) : ∀ n, (∀ w, 1 ≤ w → w ≤ n → g w = f w) → hi_sum g n = hi_sum f n := by
  intro n
  induction n with
  | zero => intro _; rfl
  | succ n ih =>
    intro h
    simp only [hi_sum]
    rw [ih (fun w h1 h2 => h w h1 (by omega)), h (n + 1) (by omega) (Nat.le_refl _)]

theorem hi_sum_lt (f g : Nat → Nat) (t : Nat) (h1 : 1 ≤ t) (hother : ∀ w, w ≠ t → g w = f w) (hlt : g t < f t) :
    ∀ n, t ≤ n → hi_sum g n < hi_sum f n := by
  intro n
  induction n with
  | zero => intro h; omega
  | succ n ih =>
    intro h
    simp only [hi_sum]
    by_cases ht : t = n + 1
    · subst ht
      have := hi_sum_congr f g n (fun w _ hw => hother w (by omega))
      omega
    · have := ih (by omega)
      have := hother (n + 1) (fun h => ht h.symm)
      omega

theorem hi_emeasure_le (c : NCfg) (s : NESt) : c.emeasure s ≤ 2 + 4 * c.n := by
  have hm : hi_mm s.base ≤ 2 := by unfold hi_mm; split <;> omega
  have hw : ∀ w, hi_wm s w ≤ 4 := by
    intro w; unfold hi_wm; split
    · omega
    · split
      · omega
      · split <;> omega
  have hs : ∀ n, hi_sum (hi_wm s) n ≤ 4 * n := by
    intro n
    induction n with
    | zero => simp [hi_sum]
    | succ n ih => simp only [hi_sum]; have := hw (n + 1); omega
  have := hs c.n
  unfold NCfg.emeasure; omega

theorem hi_master_dec {c : NCfg} {s s' : NESt} (hw : ∀ w, hi_wm s' w = hi_wm s w)
    (hlt : hi_mm s'.base < hi_mm s.base) : c.emeasure s' < c.emeasure s := by
  unfold NCfg.emeasure
  have := hi_sum_congr (hi_wm s) (hi_wm s') c.n (fun w _ _ => hw w)
  omega

theorem hi_worker_dec {c : NCfg} {s s' : NESt} (t : Nat) (h1 : 1 ≤ t) (h2 : t ≤ c.n)
    (hm : hi_mm s'.base = hi_mm s.base) (hother : ∀ w, w ≠ t → hi_wm s' w = hi_wm s w)
    (hlt : hi_wm s' t < hi_wm s t) : c.emeasure s' < c.emeasure s := by
  unfold NCfg.emeasure
  have := hi_sum_lt (hi_wm s) (hi_wm s') t h1 hother hlt c.n h2
  omega

theorem hi_step_dec {c : NCfg} {s s' : NESt} (inv : NEInv c s) (hst : NEStep c s s') :
    c.emeasure s' < c.emeasure s := by
  cases hst with
  | mopen h => exact hi_master_dec (fun w => rfl) (by simp [hi_mm, h])
  | join h _ => exact hi_master_dec (fun w => rfl) (by simp [hi_mm, h])
  | center t h1 h2 hf hx hp _ =>
    refine hi_worker_dec t h1 h2 rfl (fun w hw => ?_) ?_
    · simp [hi_wm, updP, hw]
    · simp [hi_wm, updP, hf, hx, hp]
  | cleave t h1 h2 hf hx hp =>
    refine hi_worker_dec t h1 h2 rfl (fun w hw => ?_) ?_
    · simp [hi_wm, updP, hw]
    · simp [hi_wm, updP, hf, hx, hp]
  | failC t h1 h2 hf hx hp =>
    refine hi_worker_dec t h1 h2 rfl (fun w hw => ?_) ?_
    · simp [hi_wm, updB, hw]
    · simp [hi_wm, updB, hf, hx, hp]
  | failO t h1 h2 hf hx hp =>
    refine hi_worker_dec t h1 h2 rfl (fun w hw => ?_) ?_
    · simp [hi_wm, updB, hw]
    · rcases hp with hp | ⟨hp, _⟩ <;> simp [hi_wm, updB, hf, hx, hp]
  | fopenF t h1 h2 hf =>
    have hx := inv.exF t hf
    refine hi_worker_dec t h1 h2 rfl (fun w hw => ?_) ?_
    · simp [hi_wm, updB, updP, hw]
    · simp [hi_wm, updB, hf, hx]

theorem hi_erun_reach {c : NCfg} : ∀ (es : List EEv) (s s' : NESt), c.EReach s → c.erun s es = some s' →
    c.EReach s' := by
  intro es
  induction es with
  | nil => intro s s' hs h; simp only [NCfg.erun, Option.some.injEq] at h; exact h ▸ hs
  | cons e es ih =>
    intro s s' hs h
    simp only [NCfg.erun] at h
    split at h
    · next s1 h1 => exact ih s1 s' (.step e hs h1) h
    · cases h

/-- every run is bounded by the variant -/
theorem noscatter_err_runs_bounded (c : NCfg) : ∀ (es : List EEv) (s s' : NESt), c.EReach s →
    c.erun s es = some s' → es.length + c.emeasure s' ≤ c.emeasure s := by
  intro es
  induction es with
  | nil => intro s s' _ h; simp only [NCfg.erun, Option.some.injEq] at h; subst h; simp
  | cons e es ih =>
    intro s s' hs h
    simp only [NCfg.erun] at h
    split at h
    · next s1 h1 =>
      have := ih s1 s' (.step e hs h1) h
      have := hi_step_dec (NEInv_reach hs) (hi_estep_NEStep h1)
      simp only [List.length_cons]; omega
    · cases h

theorem hi_terminates (c : NCfg) : ∀ (m : Nat) (s : NESt), c.EReach s → c.emeasure s ≤ m →
    ∃ es s', c.erun s es = some s' ∧ NCfg.efinal s' = true := by
  intro m
  induction m with
  | zero =>
    intro s hs hm
    cases hf : NCfg.efinal s
    · obtain ⟨e, s1, h1⟩ := noscatter_err_no_deadlock c s hs hf
      have := hi_step_dec (NEInv_reach hs) (hi_estep_NEStep h1)
      omega
    · exact ⟨[], s, rfl, hf⟩
  | succ m ih =>
    intro s hs hm
    cases hf : NCfg.efinal s
    · obtain ⟨e, s1, h1⟩ := noscatter_err_no_deadlock c s hs hf
      have hd := hi_step_dec (NEInv_reach hs) (hi_estep_NEStep h1)
      obtain ⟨es, s2, hr, hfin⟩ := ih s1 (.step e hs h1) (by omega)
      exact ⟨e :: es, s2, by simp [NCfg.erun, h1, hr], hfin⟩
    · exact ⟨[], s, rfl, hf⟩

/-- termination: the variant decreases with every step, and from every reachable state a final state can be
reached -/
theorem noscatter_err_terminates (c : NCfg) (s : NESt) (hs : c.EReach s) :
    (∀ e s', c.estep s e = some s' → c.emeasure s' < c.emeasure s) ∧
    (∃ es s', c.erun s es = some s' ∧ NCfg.efinal s' = true) :=
  ⟨fun _ _ h => hi_step_dec (NEInv_reach hs) (hi_estep_NEStep h),
   hi_terminates c (c.emeasure s) s hs (Nat.le_refl _)⟩

end FeatModel.DA
