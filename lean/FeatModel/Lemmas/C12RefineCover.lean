import FeatModel.Lemmas.C12RefineK
import FeatModel.Lemmas.C12Parti
/-! C12 helper lemmas: refined patch parts stay injective and keep covering every refined cell exactly once. -/
namespace FeatModel.Parti
open FeatModel.Adj FeatModel.Refine FeatModel.Gen.Refine

theorem nodup_flatMap_of {α β : Type} : ∀ (l : List α) (f : α → List β),
    (∀ a ∈ l, (f a).Nodup) → l.Pairwise (fun a b => ∀ x, x ∈ f a → x ∈ f b → False) → (l.flatMap f).Nodup
  | [], _, _, _ => by simp
  | a :: as, f, h1, h2 => by
    rw [List.pairwise_cons] at h2
    rw [List.flatMap_cons, List.nodup_append]
    refine ⟨h1 a (by simp), nodup_flatMap_of as f (fun b hb => h1 b (by simp [hb])) h2.2, ?_⟩
    intro x hx y hy hxy
    subst hxy
    obtain ⟨b, hb, hxb⟩ := List.mem_flatMap.mp hy
    exact h2.1 b hb x hx hxb

theorem childList_eq (o t rc : Nat) :
    ((List.range rc).map fun j => o + t * rc + j) = List.range' (o + t * rc) rc := by
  rw [List.range'_eq_map_range]

theorem mem_stBlock (M : Refine.Mesh) (P : Part) (c s x : Nat) :
    x ∈ stBlock M P c s ↔ ∃ t, t ∈ P.target s ∧
      offset M.kind M.nums c s + t * refCount M.kind s c ≤ x ∧
      x < offset M.kind M.nums c s + t * refCount M.kind s c + refCount M.kind s c := by
  unfold stBlock
  simp only [List.mem_flatMap, childList_eq, List.mem_range'_1]

theorem stBlock_nodup (M : Refine.Mesh) (P : Part) (c s : Nat) (hn : (P.target s).Nodup) :
    (stBlock M P c s).Nodup := by
  unfold stBlock
  apply nodup_flatMap_of
  · intro t _
    rw [childList_eq]
    exact List.nodup_range' 1
  · refine hn.imp ?_
    intro t t' hne x hx hx'
    rw [childList_eq, List.mem_range'_1] at hx hx'
    rcases Nat.lt_or_gt_of_ne hne with h | h
    · have : (t + 1) * refCount M.kind s c ≤ t' * refCount M.kind s c := Nat.mul_le_mul_right _ h
      rw [Nat.succ_mul] at this
      omega
    · have : (t' + 1) * refCount M.kind s c ≤ t * refCount M.kind s c := Nat.mul_le_mul_right _ h
      rw [Nat.succ_mul] at this
      omega

theorem stBlock_bounds (M : Refine.Mesh) (P : Part) (c s x : Nat) (hcs : c ≤ s)
    (hb : ∀ t ∈ P.target s, t < M.nums.getD s 0) (hx : x ∈ stBlock M P c s) :
    offset M.kind M.nums c s ≤ x ∧ x < offset M.kind M.nums c (s + 1) := by
  obtain ⟨t, ht, h1, h2⟩ := (mem_stBlock M P c s x).1 hx
  have h3 : (t + 1) * refCount M.kind s c ≤ M.nums.getD s 0 * refCount M.kind s c :=
    Nat.mul_le_mul_right _ (hb t ht)
  rw [Nat.succ_mul, Nat.mul_comm (M.nums.getD s 0)] at h3
  rw [offset_succ M.kind M.nums c s hcs]
  omega

/-- the simple target refiner keeps target sets duplicate-free -/
theorem simpleTargets_nodup (M : Refine.Mesh) (P : Part) (c : Nat) (hn : ∀ s, (P.target s).Nodup)
    (hb : ∀ s, ∀ t ∈ P.target s, t < M.nums.getD s 0) : (simpleTargets M P c).Nodup := by
  have hst : simpleTargets M P c = (List.range' c (M.dim + 1 - c)).flatMap (stBlock M P c) := rfl
  rw [hst]
  apply nodup_flatMap_of
  · intro s _
    exact stBlock_nodup M P c s (hn s)
  · have hp : (List.range' c (M.dim + 1 - c)).Pairwise (fun a b => c ≤ a ∧ a < b) := by
      have h1 := @List.pairwise_lt_range' c (M.dim + 1 - c) 1 (by omega)
      rw [List.pairwise_iff_forall_sublist] at h1 ⊢
      intro a b hab
      refine ⟨?_, h1 hab⟩
      have : a ∈ List.range' c (M.dim + 1 - c) := hab.subset (by simp)
      rw [List.mem_range'_1] at this
      exact this.1
    refine hp.imp ?_
    intro s s' hss x hx hx'
    have h1 := stBlock_bounds M P c s x hss.1 (hb s) hx
    have h2 := stBlock_bounds M P c s' x (by omega) (hb s') hx'
    have h3 := offset_mono M.kind M.nums c (show c ≤ s + 1 by omega) (show s + 1 ≤ s' by omega)
    omega

/-- invariant of a refined patch part: duplicate-free, targets inside the mesh -/
structure PartOk (M : Refine.Mesh) (P : Part) : Prop where
  nodup : ∀ s, (P.target s).Nodup
  bound : ∀ s, ∀ t ∈ P.target s, t < M.nums.getD s 0

theorem partOk_step (M : Refine.Mesh) (P : Part) (h : PartOk M P) : PartOk (refine M) (simplePart M P) := by
  refine ⟨?_, ?_⟩
  · intro s
    rw [simplePart_target]
    by_cases hs : s ≤ M.dim
    · rw [if_pos hs]; exact simpleTargets_nodup M P s h.nodup h.bound
    · rw [if_neg hs]; exact List.nodup_nil
  · intro s t ht
    rw [simplePart_target] at ht
    by_cases hs : s ≤ M.dim
    · rw [if_pos hs] at ht
      rw [refine_nums_getD M s hs]
      exact mem_simpleTargets_lt M P s t h.bound ht
    · rw [if_neg hs] at ht
      simp at ht

theorem partOk_steps : ∀ (k : Nat) (M : Refine.Mesh) (P : Part), PartOk M P →
    PartOk (partSteps k (M, P)).1 (partSteps k (M, P)).2
  | 0, _, _, h => h
  | k + 1, M, P, h => partOk_steps k (refine M) (simplePart M P) (partOk_step M P h)

theorem partSteps_fst : ∀ (k : Nat) (M : Refine.Mesh) (P Q : Part),
    (partSteps k (M, P)).1 = (partSteps k (M, Q)).1
  | 0, _, _, _ => rfl
  | k + 1, M, P, Q => partSteps_fst k (refine M) (simplePart M P) (simplePart M Q)

theorem partSteps_kind_dim : ∀ (k : Nat) (M : Refine.Mesh) (P : Part),
    (partSteps k (M, P)).1.kind = M.kind ∧ (partSteps k (M, P)).1.dim = M.dim
  | 0, _, _ => ⟨rfl, rfl⟩
  | k + 1, M, P => partSteps_kind_dim k (refine M) (simplePart M P)

/-! ### cover once -/

theorem count_children (rc : Nat) (hrc : 0 < rc) (x : Nat) : ∀ T : List Nat,
    (T.flatMap fun t => (List.range rc).map fun j => 0 + t * rc + j).count x = T.count (x / rc)
  | [] => by simp
  | t :: ts => by
    rw [List.flatMap_cons, List.count_append, count_children rc hrc x ts, List.count_cons, childList_eq,
      (List.nodup_range' 1).count, Nat.add_comm]
    congr 1
    simp only [List.mem_range'_1, Nat.zero_add, beq_iff_eq]
    by_cases h : t = x / rc
    · have h1 := Nat.div_add_mod x rc
      have h2 := Nat.mod_lt x hrc
      have h3 : t * rc = rc * (x / rc) := by rw [h, Nat.mul_comm]
      rw [if_pos h, if_pos ⟨by omega, by omega⟩]
    · rw [if_neg h, if_neg]
      rintro ⟨h1, h2⟩
      apply h
      exact (Nat.div_eq_of_lt_le h1 (by rw [Nat.succ_mul]; exact h2)).symm

theorem refCount_top_pos (kind : Kind) : ∀ d, d ≤ 3 → 0 < refCount kind d d := by
  intro d hd
  have : d = 0 ∨ d = 1 ∨ d = 2 ∨ d = 3 := by omega
  rcases this with rfl | rfl | rfl | rfl <;> cases kind <;> decide

/-- every cell `x` of `M` lies in exactly one of the parts `F 0 … F (R-1)` -/
def Cover (M : Refine.Mesh) (F : Nat → Part) (R : Nat) : Prop :=
  ∀ x, x < M.nums.getD M.dim 0 → ((List.range R).map fun r => ((F r).target M.dim).count x).sum = 1

theorem cover_step (M : Refine.Mesh) (F : Nat → Part) (R : Nat) (hd : M.dim ≤ 3) (h : Cover M F R) :
    Cover (refine M) (fun r => simplePart M (F r)) R := by
  intro x hx
  have hrc := refCount_top_pos M.kind M.dim hd
  rw [refine_dim] at hx ⊢
  rw [refine_nums_getD M M.dim (Nat.le_refl _), offset_succ M.kind M.nums M.dim M.dim (Nat.le_refl _),
    offset_self, Nat.zero_add] at hx
  have hx' : x / refCount M.kind M.dim M.dim < M.nums.getD M.dim 0 := Nat.div_lt_of_lt_mul hx
  rw [← h _ hx']
  congr 1
  apply List.map_congr_left
  intro r _
  rw [simplePart_target, if_pos (Nat.le_refl _)]
  have hst : simpleTargets M (F r) M.dim = stBlock M (F r) M.dim M.dim := by
    unfold simpleTargets stBlock
    have : M.dim + 1 - M.dim = 1 := by omega
    rw [this]
    simp
  rw [hst]
  unfold stBlock
  rw [offset_self]
  exact count_children _ hrc x _

theorem cover_steps : ∀ (k : Nat) (M : Refine.Mesh) (F : Nat → Part) (R : Nat), M.dim ≤ 3 → Cover M F R →
    Cover (partSteps k (M, F 0)).1 (fun r => (partSteps k (M, F r)).2) R
  | 0, _, _, _, _, h => h
  | k + 1, M, F, R, hd, h => by
    have ih := cover_steps k (refine M) (fun r => simplePart M (F r)) R hd (cover_step M F R hd h)
    exact ih

end FeatModel.Parti
