import FeatModel.Model.RefineSpec
/-! C10 local refinement lemma, 2-D, complete: the refinement of one triangle / quadrilateral whose edges carry ANY
combination of orientations (and any rotation of the edge numbering) is a conforming mesh.  Kernel evaluation of the
generated tables (`decide +kernel`), re-checked whenever `Gen/RefineTables.lean` changes. -/
namespace FeatModel.Refine
set_option maxRecDepth 100000

theorem local_quad : ∀ o < 16, ∀ r < 4, (refine (cell2 .hypercube o r)).consistent = true := by decide +kernel

theorem local_tria : ∀ o < 8, ∀ r < 3, (refine (cell2 .simplex o r)).consistent = true := by decide +kernel

theorem local_quad_input : ∀ o < 16, ∀ r < 4, (cell2 .hypercube o r).consistent = true := by decide +kernel

theorem local_tria_input : ∀ o < 8, ∀ r < 3, (cell2 .simplex o r).consistent = true := by decide +kernel

end FeatModel.Refine
