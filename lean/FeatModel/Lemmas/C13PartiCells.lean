/-
C13 / C12 bridge, cell dimension: DOFs sitting on the cells (dimension `m.dim`) of a partitioned mesh.
-/
import FeatModel.Lemmas.C13Parti
open FeatModel.Dist FeatModel.Parti FeatModel.Adj

namespace FeatModel.C13L

/-- cell DOFs (`d = m.dim`, e.g. the discontinuous pressure): every mirror is empty and no DOF is shared, because a
partition has no cell in two patches -/
theorem WF_of_partition_cells (m : Mesh) (p : Parti) (hm : m.consistent = true) (hp : isPartition p = true) :
    (decompOfPartiDim m p m.dim).WF := by
  obtain ⟨d, hdef⟩ : ∃ d, d = m.dim := ⟨_, rfl⟩
  rw [← hdef]
  have hwf := wf_of_isPartition p hp
  have hnb : ∀ r s, s ∈ commRanks m p r → s ≠ r ∧ s < p.nDom := by
    intro r s hs
    obtain ⟨hne, v, c1, c2, h1, h2, _, _⟩ := (C12.neighbour_complete m p hm hwf r s).1 hs
    exact ⟨hne, mem_row_lt p s c2 h2⟩
  refine ⟨?_, ?_, ?_, ?_, ?_, ?_, ?_, ?_, ?_⟩
  · simp [decompOfPartiDim]
  · intro r hr
    rw [dop_np] at hr
    rw [dop_patch m p d r hr, dop_lmap m p d r hr]
  · intro r hr
    rw [dop_np] at hr
    rw [dop_lmap m p d r hr]
    exact C12.patch_injective m p hp r d (Nat.le_of_eq hdef)
  · intro r hr
    rw [dop_np] at hr
    rw [dop_patch m p d r hr]
    simp only [List.map_map]
    have : ((fun x : Nat × List Nat => x.1) ∘ fun s => (s, halo m p r s d)) = id := rfl
    rw [this, List.map_id]
    exact C12.neighbours_nodup m p r
  · intro r hr nb hnbm
    rw [dop_np] at hr ⊢
    rw [dop_patch m p d r hr] at hnbm
    obtain ⟨s, hs, rfl⟩ := List.mem_map.1 hnbm
    exact hnb r s hs
  · intro r hr nb hnbm
    rw [dop_np] at hr
    rw [dop_patch m p d r hr] at hnbm
    obtain ⟨s, hs, rfl⟩ := List.mem_map.1 hnbm
    exact nodup_of_pairwise_lt (C12.halo_ascending m p r s d).1
  · intro r hr nb hnbm i hi
    rw [dop_np] at hr
    rw [dop_patch m p d r hr] at hnbm ⊢
    obtain ⟨s, hs, rfl⟩ := List.mem_map.1 hnbm
    exact halo_lt m p r s d i hi
  · intro r hr nb hnbm
    rw [dop_np] at hr
    rw [dop_patch m p d r hr] at hnbm
    obtain ⟨s, hs, rfl⟩ := List.mem_map.1 hnbm
    obtain ⟨hne, hsn⟩ := hnb r s hs
    have hrs : r ∈ commRanks m p s := (C12.neighbour_symm m p hm hwf r s).1 hs
    refine ⟨(r, halo m p s r d), ?_, rfl, ?_, ?_⟩
    · show _ ∈ ((decompOfPartiDim m p d).patch s).nbrs
      rw [dop_patch m p d s hsn]
      exact List.mem_map.2 ⟨r, hrs, rfl⟩
    · show (halo m p s r d).map ((decompOfPartiDim m p d).gdof s) = (halo m p r s d).map ((decompOfPartiDim m p d).gdof r)
      have e1 : (halo m p s r d).map ((decompOfPartiDim m p d).gdof s) = haloBase m p s r d := by
        unfold haloBase
        apply List.map_congr_left
        intro i _
        exact dop_gdof m p d s i hsn
      have e2 : (halo m p r s d).map ((decompOfPartiDim m p d).gdof r) = haloBase m p r s d := by
        unfold haloBase
        apply List.map_congr_left
        intro i _
        exact dop_gdof m p d r i hr
      rw [e1, e2]
      exact (C12.halo_agree m p hm hp r s d (fun h => hne h.symm) (Nat.le_of_eq hdef)).symm
    · intro j hj
      show j < ((decompOfPartiDim m p d).patch s).n
      rw [dop_patch m p d s hsn]
      exact halo_lt m p s r d j hj
  · intro r hr s hs hsr i hi j hj hg
    rw [dop_np] at hr hs
    rw [dop_patch m p d r hr] at hi
    rw [dop_patch m p d s hs] at hj
    rw [dop_gdof m p d r i hr, dop_gdof m p d s j hs] at hg
    have hi' : i < (m.target (p.row r) d).length := hi
    have hj' : j < (m.target (p.row s) d).length := hj
    have hbr : toBase m p r d i ∈ m.target (p.row r) d := by
      simp [toBase, List.getD_eq_getElem?_getD, hi']
    have hbs : toBase m p r d i ∈ m.target (p.row s) d := by
      rw [hg]; simp [toBase, List.getD_eq_getElem?_getD, hj']
    subst hdef
    exact (C12.patches_disjoint m p hp r s _ (fun h => hsr h.symm) hbr hbs).elim

end FeatModel.C13L
