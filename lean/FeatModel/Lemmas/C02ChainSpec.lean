/-
C02: a chain of operations (`Mat.run`) on a valid container of any format yields a valid container whose dense
meaning is the textbook meaning (`semRun`) of the chain.  Composition of the per-operation theorems of
C02Transpose / C02Permute / C02Convert / C02Banded / C02Cscr; what was missing there (validity, i.e. sortedness,
of the results of bcsr→csr, csr→cscr, cscr→csr and the array-less sources) is proved in `C02L.ChainAux`.
-/
import FeatModel.Model.LA.Chain
import FeatModel.Lemmas.C02Transpose
import FeatModel.Lemmas.C02Permute
import FeatModel.Lemmas.C02Convert
import FeatModel.Lemmas.C02Banded
import FeatModel.Lemmas.C02Cscr
open FeatModel FeatModel.LA

namespace C02L
namespace ChainAux

variable {α : Type}

/-! ### BCSR → CSR -/

theorem bcsr_sorted_lt (A : Bcsr α) (hs : A.sortedRows = true) {orow : Nat} (ho : orow < A.rows) {k1 k2 : Nat}
    (h1 : A.rowPtr.getD orow 0 ≤ k1) (h12 : k1 < k2) (h2 : k2 < A.rowPtr.getD (orow + 1) 0) :
    A.colInd.getD k1 0 < A.colInd.getD k2 0 := by
  simp only [Bcsr.sortedRows, List.all_eq_true, List.mem_range, List.mem_range'_1, decide_eq_true_eq] at hs
  exact PermuteAux.chain_to_pairwise (fun k => A.colInd.getD k 0) (A.rowPtr.getD orow 0) (A.rowPtr.getD (orow + 1) 0)
    (fun k hk1 hk2 => hs orow ho k ⟨hk1, by omega⟩) k1 h1 k2 h12 h2

/-- the scalar rows of a block matrix with sorted block rows are sorted -/
theorem podRow_sorted [Zero α] (A : Bcsr α) (hs : A.sortedRows = true) (orow : Nat) (ho : orow < A.rows) (row : Nat) :
    ((A.podRow orow row).map Prod.fst).Pairwise (· < ·) := by
  unfold Bcsr.podRow
  rw [List.map_flatten, List.map_map, List.pairwise_flatten]
  constructor
  · intro l hl
    obtain ⟨ocol, _, rfl⟩ := List.mem_map.1 hl
    simp only [Function.comp, List.map_map]
    rw [List.pairwise_map]
    refine List.pairwise_lt_range.imp ?_
    intro a b hab
    show A.colInd.getD ocol 0 * A.bw + a < A.colInd.getD ocol 0 * A.bw + b
    omega
  · rw [List.pairwise_map]
    have hp : (List.range' (A.rowPtr.getD orow 0) (A.rowPtr.getD (orow + 1) 0 - A.rowPtr.getD orow 0)).Pairwise
        (· < ·) := List.pairwise_lt_range'
    refine hp.imp_of_mem ?_
    intro k1 k2 hk1 hk2 hlt x hx y hy
    rw [List.mem_range'_1] at hk1 hk2
    have hc := bcsr_sorted_lt A hs ho hk1.1 hlt (by omega)
    simp only [Function.comp, List.map_map] at hx hy
    obtain ⟨c1, hc1, rfl⟩ := List.mem_map.1 hx
    obtain ⟨c2, hc2, rfl⟩ := List.mem_map.1 hy
    have hc1' : c1 < A.bw := List.mem_range.1 hc1
    show A.colInd.getD k1 0 * A.bw + c1 < A.colInd.getD k2 0 * A.bw + c2
    have := Nat.mul_le_mul_right A.bw (show A.colInd.getD k1 0 + 1 ≤ A.colInd.getD k2 0 from hc)
    rw [Nat.succ_mul] at this
    omega

theorem bcsr_toCsr_full [Zero α] [Add α] (A : Bcsr α) (h : A.valid = true) (hbh : 0 < A.bh) (hbw : 0 < A.bw) :
    A.toCsr.rows = A.rows * A.bh ∧ A.toCsr.cols = A.cols * A.bw ∧ A.toCsr.valid = true ∧
    ∀ i j, i < A.rows * A.bh → j < A.cols * A.bw → A.toCsr.entry i j = A.entry i j := by
  simp only [Bcsr.valid, Bool.or_eq_true, Bool.and_eq_true] at h
  rcases h with ha | ⟨hwf, hs⟩
  · -- no arrays at all
    simp only [Bcsr.isArrayless, Bool.and_eq_true, Array.isEmpty_iff] at ha
    obtain ⟨⟨hrp, hci⟩, _⟩ := ha
    have hz : A.usedElements * A.bh * A.bw = 0 := by simp [Bcsr.usedElements, hci]
    have e : A.toCsr = Csr.entryFree (A.rows * A.bh) (A.cols * A.bw) := by
      unfold Bcsr.toCsr; rw [if_pos hz]
    rw [e]
    refine ⟨rfl, rfl, entryFree_valid _ _, ?_⟩
    intro i j _ _
    rw [entryFree_entry]
    unfold Bcsr.entry
    rw [if_neg (by omega)]
    simp only [hrp]
    exact (foldRange_ge _ _ _ _ (by simp)).symm
  · obtain ⟨d1, d2, d3, d4⟩ := Conv.bcsr_toCsr_spec A hwf hbh hbw
    refine ⟨d1, d2, ?_, d4⟩
    by_cases hz : A.usedElements * A.bh * A.bw = 0
    · have e : A.toCsr = Csr.entryFree (A.rows * A.bh) (A.cols * A.bw) := by
        unfold Bcsr.toCsr; rw [if_pos hz]
      rw [e]; exact entryFree_valid _ _
    · rcases d3 with d3 | d3
      · simp [Csr.valid, d3]
      · have e : A.toCsr = Csr.ofRows (A.rows * A.bh) (A.cols * A.bw)
            ((List.range (A.rows * A.bh)).map fun i => A.podRow (i / A.bh) (i % A.bh)) := by
          unfold Bcsr.toCsr; rw [if_neg hz, Conv.flatten_uniform _ _ hbh]
        have hsort : A.toCsr.sortedRows = true := by
          rw [e]
          apply PermuteAux.sortedRows_of_pairwise
          intro i hi
          change i < A.rows * A.bh at hi
          rw [PermuteAux.ofRows_rowList _ _ _ i (by simpa using hi)]
          simp only [List.getElem_map, List.getElem_range]
          exact podRow_sorted A hs _ ((Nat.div_lt_iff_lt_mul hbh).mpr hi) _
        simp [Csr.valid, d3, hsort]

/-! ### CSR → CSCR -/

theorem csr_toCscr_full [Zero α] [Add α] (A : Csr α) (h : A.valid = true) :
    A.toCscr.rows = A.rows ∧ A.toCscr.cols = A.cols ∧ A.toCscr.valid = true ∧
    ∀ i j, i < A.rows → j < A.cols → A.toCscr.entry i j = A.entry i j := by
  by_cases h0 : A.usedElements = 0
  · -- the entry-free source (with or without arrays) gives the array-less CSCR container
    have eT : A.toCscr = ⟨A.rows, A.cols, #[], #[], #[], #[]⟩ := if_pos h0
    rw [eT]
    refine ⟨rfl, rfl, rfl, ?_⟩
    intro i j hi _
    have hz : A.entry i j = 0 := by
      rcases valid_cases h with ha | hv
      · exact arrayless_entry ha i j
      · exact empty_entry hv h0 hi j
    rw [hz]
    rfl
  · have h' := h
    simp only [Csr.valid, Bool.or_eq_true, Bool.and_eq_true] at h'
    rcases h' with ha | ⟨hwf, hs⟩
    · exact absurd (arrayless_usedElements ha) h0
    obtain ⟨d1, d2, d3, d4⟩ := csr_toCscr_spec A hwf
    refine ⟨d1, d2, ?_, d4⟩
    rcases d3 with d3 | d3
    · simp [Cscr.valid, d3]
    have hA := (PermuteAux.wf_iff A).1 hwf
    let used := (List.range A.rows).filter fun i => A.rowBegin i < A.rowEnd i
    let rs := used.map A.rowList
    let C : Csr α := Csr.ofRows used.length A.cols rs
    have hlen : rs.length = used.length := by simp [rs]
    have hsC : C.sortedRows = true := by
      apply PermuteAux.sortedRows_of_pairwise
      intro i hi
      change i < used.length at hi
      rw [PermuteAux.ofRows_rowList _ _ rs i (by omega)]
      have e1 : rs[i]'(by omega) = A.rowList used[i] := by simp [rs]
      rw [e1]
      have hm : used[i] ∈ used := List.getElem_mem hi
      have hlt : used[i] < A.rows := by
        have := (List.mem_filter.1 hm).1
        exact List.mem_range.1 this
      exact PermuteAux.sortedRows_pairwise hs hlt
    have eT : A.toCscr = ⟨A.rows, A.cols, C.rowPtr, C.colInd, C.val, used.toArray⟩ := if_neg h0
    have hsT : A.toCscr.sortedRows = C.sortedRows := by rw [eT]; rfl
    simp [Cscr.valid, d3, hsT, hsC]

/-! ### CSCR → CSR -/

theorem cscr_toCsr_full [Zero α] [Add α] (A : Cscr α) (h : A.valid = true) (B : Csr α) (hB : A.toCsr = some B) :
    B.rows = A.rows ∧ B.cols = A.cols ∧ B.valid = true ∧
    ∀ i j, i < A.rows → j < A.cols → B.entry i j = A.entry i j := by
  simp only [Cscr.valid, Bool.or_eq_true, Bool.and_eq_true] at h
  rcases h with ha | ⟨hwf, hs⟩
  · exfalso
    simp only [Cscr.isArrayless, Bool.and_eq_true, Array.isEmpty_iff] at ha
    have : A.usedElements = 0 := by simp [Cscr.usedElements, ha.1.2]
    unfold Cscr.toCsr at hB
    rw [if_pos this] at hB
    exact absurd hB (by simp)
  · obtain ⟨d1, d2, d3, d4⟩ := cscr_toCsr_spec A hwf B hB
    refine ⟨d1, d2, ?_, d4⟩
    unfold Cscr.toCsr at hB
    split at hB
    · exact absurd hB (by simp)
    have hB' := (Option.some.inj hB).symm
    have hsB : B.sortedRows = true := by
      subst hB'
      apply PermuteAux.sortedRows_of_pairwise
      intro i hi
      change i < A.rows at hi
      rw [PermuteAux.ofRows_rowList _ _ _ i (by simpa using hi)]
      simp only [List.getElem_map, List.getElem_range]
      exact CscrAux.rowOf_sorted hs i
    simp [Csr.valid, d3, hsB]

/-! ### the relation "container `m` represents the textbook state `s`" -/

def Rel [Zero α] [Add α] (m : Mat α) (s : Sem α) : Prop :=
  m.valid = true ∧ m.rows = s.rows ∧ m.cols = s.cols ∧
  ∀ i j, i < s.rows → j < s.cols → m.entry i j = s.f i j

/-- a result with the same dimensions and entries as the source represents the same state -/
theorem rel_same [Zero α] [Add α] {m m1 : Mat α} {s : Sem α} (hR : Rel m s) (hv : m1.valid = true)
    (hr : m1.rows = m.rows) (hc : m1.cols = m.cols)
    (he : ∀ i j, i < m.rows → j < m.cols → m1.entry i j = m.entry i j) : Rel m1 s := by
  obtain ⟨_, r, c, e⟩ := hR
  refine ⟨hv, hr.trans r, hc.trans c, ?_⟩
  intro i j hi hj
  rw [he i j (by omega) (by omega)]
  exact e i j hi hj

/-- a result that is the transpose of the source represents the transposed state -/
theorem rel_tr [Zero α] [Add α] {m m1 : Mat α} {s : Sem α} (hR : Rel m s) (hv : m1.valid = true)
    (hr : m1.rows = m.cols) (hc : m1.cols = m.rows)
    (he : ∀ i j, i < m.rows → j < m.cols → m1.entry j i = m.entry i j) :
    Rel m1 ⟨s.cols, s.rows, fun i j => s.f j i⟩ := by
  obtain ⟨_, r, c, e⟩ := hR
  refine ⟨hv, hr.trans c, hc.trans r, ?_⟩
  intro i j hi hj
  change i < s.cols at hi
  change j < s.rows at hj
  rw [he j i (by omega) (by omega)]
  exact e j i hj hi

end ChainAux
open ChainAux

/-- one operation: the result is valid and represents the textbook meaning of the operation -/
theorem step_spec {α : Type} [Zero α] [Add α] (h0 : (0 : α) + 0 = 0) (o : Op) (m m1 : Mat α) (s : Sem α)
    (hR : Rel m s) (hok : o.okFor s.rows s.cols = true) (hstep : m.step o = .ok m1) : Rel m1 (o.sem s) := by
  have hR' := hR
  obtain ⟨hv, hr, hc, he⟩ := hR'
  cases o with
  | tocsr =>
    cases m with
    | csr A => cases hstep; exact hR
    | banded B =>
      cases hstep
      obtain ⟨d1, d2, d3, d4⟩ := banded_toCsr_spec B hv
      exact rel_same hR d3 d1 d2 d4
    | bcsr B =>
      cases hstep
      simp only [Mat.valid, Bool.and_eq_true, decide_eq_true_eq] at hv
      obtain ⟨d1, d2, d3, d4⟩ := bcsr_toCsr_full B hv.1.1 hv.1.2 hv.2
      exact rel_same hR d3 d1 d2 d4
    | cscr B =>
      simp only [Mat.step] at hstep
      split at hstep
      · rename_i A hA
        cases hstep
        obtain ⟨d1, d2, d3, d4⟩ := cscr_toCsr_full B hv A hA
        exact rel_same hR d3 d1 d2 d4
      · cases hstep
    | dense A => cases hstep
  | tobanded =>
    cases m with
    | csr A =>
      simp only [Mat.step] at hstep
      split at hstep
      · rename_i B hB
        cases hstep
        have hnz : 0 < A.usedElements := by
          rcases Nat.eq_zero_or_pos A.usedElements with hz | hz
          · unfold Csr.toBanded at hB
            rw [if_pos hz] at hB
            exact absurd hB (by simp)
          · exact hz
        obtain ⟨B', e, d1, d2, d3, d4⟩ := Conv.csr_toBanded_spec A hv hnz h0
        rw [hB] at e
        cases e
        exact rel_same hR d3 d1 d2 d4
      · cases hstep
    | banded B => cases hstep; exact hR
    | cscr A => cases hstep
    | dense A => cases hstep
    | bcsr A => cases hstep
  | tocscr =>
    cases m with
    | csr A =>
      cases hstep
      obtain ⟨d1, d2, d3, d4⟩ := csr_toCscr_full A hv
      exact rel_same hR d3 d1 d2 d4
    | cscr A => cases hstep; exact hR
    | banded A => cases hstep
    | dense A => cases hstep
    | bcsr A => cases hstep
  | clone md => cases hstep; exact hR
  | layout =>
    cases m with
    | dense A => cases hstep
    | csr A => cases hstep; exact hR
    | banded A => cases hstep; exact hR
    | cscr A => cases hstep; exact hR
    | bcsr A => cases hstep; exact hR
  | graph =>
    cases m with
    | csr A => cases hstep; exact hR
    | dense A => cases hstep
    | banded A => cases hstep
    | cscr A => cases hstep
    | bcsr A => cases hstep
  | tr =>
    cases m with
    | csr A =>
      cases hstep
      obtain ⟨d1, d2, d3, d4⟩ := transpose_spec A hv
      exact rel_tr hR d3 d1 d2 d4
    | dense A =>
      cases hstep
      obtain ⟨d1, d2, d3, d4⟩ := Conv.dense_transpose_spec A hv
      exact rel_tr hR d3 d1 d2 d4
    | bcsr A =>
      cases hstep
      simp only [Mat.valid, Bool.and_eq_true, decide_eq_true_eq] at hv
      obtain ⟨b1, b2, d1, d2, d3, d4⟩ := bcsr_transpose_spec A hv.1.1 hv.1.2 hv.2
      refine rel_tr hR ?_ ?_ ?_ d4
      · simp only [Mat.valid, Bool.and_eq_true, decide_eq_true_eq]
        exact ⟨⟨d3, by rw [b1]; exact hv.2⟩, by rw [b2]; exact hv.1.2⟩
      · show A.transpose.rows * A.transpose.bh = A.cols * A.bw
        rw [d1, b1]
      · show A.transpose.cols * A.transpose.bw = A.rows * A.bh
        rw [d2, b2]
    | banded A => cases hstep
    | cscr A => cases hstep
  | tri =>
    cases m with
    | csr A =>
      cases hstep
      obtain ⟨d1, d2, d3, d4⟩ := transpose_spec A hv
      exact rel_tr hR d3 d1 d2 d4
    | dense A =>
      cases hstep
      obtain ⟨d1, d2, d3, d4⟩ := Conv.dense_transpose_spec A hv
      exact rel_tr hR d3 d1 d2 d4
    | bcsr A => cases hstep
    | banded A => cases hstep
    | cscr A => cases hstep
  | perm p q =>
    cases m with
    | csr A =>
      simp only [Mat.step] at hstep
      split at hstep
      · rename_i B hB
        cases hstep
        change A.rows = s.rows at hr
        change A.cols = s.cols at hc
        by_cases hz : p.size = 0 ∧ q.size = 0
        · have e : A.permute p q = some A := by unfold Csr.permute; rw [if_pos hz]
          rw [hB] at e
          cases e
          simp only [Op.sem, if_pos hz]
          exact hR
        · simp only [Op.sem, if_neg hz]
          simp only [Op.okFor, Bool.or_eq_true, Bool.and_eq_true, beq_iff_eq] at hok
          rcases hok with hok | ⟨⟨⟨hps, hqs⟩, hp⟩, hq⟩
          · exact absurd hok hz
          · rw [← hr] at hps
            rw [← hc] at hqs
            have hpi : ∀ i, i < s.rows → p.getD i 0 < s.rows := fun i hi => by
              rw [← hr, ← hps]; exact PermuteAux.isPerm_lt hp (by omega)
            have hqi : ∀ j, j < s.cols → q.getD j 0 < s.cols := fun j hj => by
              rw [← hc, ← hqs]; exact PermuteAux.isPerm_lt hq (by omega)
            cases hne : A.isArrayless with
            | true =>
              have e : A.permute p q = some A := by
                unfold Csr.permute
                rw [if_neg hz, if_neg (by omega), hne]
                rfl
              rw [hB] at e
              cases e
              refine ⟨hv, hr, hc, ?_⟩
              intro i j hi hj
              have e1 : (Mat.csr A).entry i j = (0 : α) := arrayless_entry hne i j
              rw [e1, ← he _ _ (hpi i hi) (hqi j hj)]
              exact (arrayless_entry hne _ _).symm
            | false =>
              obtain ⟨B', e, d1, d2, d3, d4⟩ := permute_spec A p q hv hne hp hq hps hqs
              rw [hB] at e
              cases e
              refine ⟨d3, d1.trans hr, d2.trans hc, ?_⟩
              intro i j hi hj
              change i < s.rows at hi
              change j < s.cols at hj
              show B.entry i j = s.f (p.getD i 0) (q.getD j 0)
              rw [d4 i j (by omega) (by omega)]
              exact he _ _ (hpi i hi) (hqi j hj)
      · cases hstep
    | dense A => cases hstep
    | banded A => cases hstep
    | cscr A => cases hstep
    | bcsr A => cases hstep
  | it => cases hstep; exact hR
  | dt =>
    cases m with
    | csr A => cases hstep; exact hR
    | dense A => cases hstep; exact hR
    | banded A => cases hstep; exact hR
    | cscr A => cases hstep
    | bcsr A => cases hstep

/-- the generalised induction: `m` represents `s`, then `m.run ops` represents `semRun ops s` -/
theorem chain_spec_aux {α : Type} [Zero α] [Add α] (h0 : (0 : α) + 0 = 0) (ops : List Op) :
    ∀ (m m' : Mat α) (s : Sem α), m.valid = true → m.rows = s.rows → m.cols = s.cols →
      (∀ i j, i < s.rows → j < s.cols → m.entry i j = s.f i j) →
      chainOk ops s = true → m.run ops = some m' →
      m'.valid = true ∧ m'.rows = (semRun ops s).rows ∧ m'.cols = (semRun ops s).cols ∧
      ∀ i j, i < m'.rows → j < m'.cols → m'.entry i j = (semRun ops s).f i j := by
  induction ops with
  | nil =>
    intro m m' s hv hr hc he _ hrun
    cases hrun
    exact ⟨hv, hr, hc, fun i j hi hj => he i j (by rw [← hr]; exact hi) (by rw [← hc]; exact hj)⟩
  | cons o os ih =>
    intro m m' s hv hr hc he hok hrun
    simp only [chainOk, Bool.and_eq_true] at hok
    simp only [Mat.run] at hrun
    split at hrun
    · rename_i m1 hm1
      obtain ⟨v1, r1, c1, e1⟩ := step_spec h0 o m m1 s ⟨hv, hr, hc, he⟩ hok.1 hm1
      exact ih m1 m' (o.sem s) v1 r1 c1 e1 hok.2 hrun
    · exact absurd hrun (by simp)

/-- **C02 chain theorem**: running a chain of operations on a valid container (whose side conditions hold along the
    chain) yields a valid container with the dimensions and the entries of the textbook meaning of the chain. -/
theorem chain_spec {α : Type} [Zero α] [Add α] (h0 : (0 : α) + 0 = 0) (ops : List Op) (m m' : Mat α)
    (hv : m.valid = true) (hok : chainOk ops (⟨m.rows, m.cols, m.entry⟩ : Sem α) = true)
    (hrun : m.run ops = some m') :
    m'.valid = true ∧
    m'.rows = (semRun ops ⟨m.rows, m.cols, m.entry⟩).rows ∧ m'.cols = (semRun ops ⟨m.rows, m.cols, m.entry⟩).cols ∧
    ∀ i j, i < m'.rows → j < m'.cols → m'.entry i j = (semRun ops ⟨m.rows, m.cols, m.entry⟩).f i j :=
  chain_spec_aux h0 ops m m' ⟨m.rows, m.cols, m.entry⟩ hv rfl rfl (fun _ _ _ _ => rfl) hok hrun

end C02L
