import FeatModel.Props.C01
import FeatModel.Lemmas.C08Sweeps
import FeatModel.Model.Solver.Expand
/-!
# C08 — the BCSR → scalar CSR expansion is exact

`expandCsr bs A` (pure model of the driver's expansion step) has the dense meaning of the C01 BCSR model
(`expandCsr_entry`), is well formed (`expandCsr_wf`), its `apply` equals the BCSR `apply` (`expand_apply_commutes`),
and its stored diagonal is the pointwise diagonal of the diagonal blocks (`expandCsr_diag`).
-/
open Finset
namespace FeatModel.Solver
open FeatModel.LA

variable {α β : Type}

/-! ## lists: lookup in a `flatMap` over a range -/

theorem flatMap_range_getElem? (g : Nat → List β) : ∀ (n r t : Nat), r < n → t < (g r).length →
    ((List.range n).flatMap g)[((List.range r).map fun q => (g q).length).sum + t]? = (g r)[t]?
  | 0, _, _, hr, _ => absurd hr (Nat.not_lt_zero _)
  | n + 1, r, t, hr, ht => by
    rw [List.range_succ, List.flatMap_append, List.flatMap_singleton]
    rcases Nat.lt_or_ge r n with h | h
    · have ih := flatMap_range_getElem? g n r t h ht
      have hlt : ((List.range r).map fun q => (g q).length).sum + t < ((List.range n).flatMap g).length := by
        by_contra hc
        rw [List.getElem?_eq_none (Nat.le_of_not_lt hc), List.getElem?_eq_getElem ht] at ih
        cases ih
      rw [List.getElem?_append_left hlt, ih]
    · have hrn : r = n := by omega
      subst hrn
      have hlen : ((List.range r).flatMap g).length = ((List.range r).map fun q => (g q).length).sum :=
        List.length_flatMap
      rw [List.getElem?_append_right (by omega), hlen, Nat.add_sub_cancel_left]

/-! ## the arrays of the expansion -/

theorem expandStart_succ (bs : Nat) (A : Csr α) (r : Nat) :
    expandStart bs A (r + 1) = expandStart bs A r + expandCnt A (r / bs) * bs := by
  simp [expandStart, List.range_succ]

theorem expandRow_length (bs : Nat) (A : Csr α) (f : Nat → Nat → Nat → β) (r : Nat) :
    (expandRow bs A f r).length = expandCnt A (r / bs) * bs := by
  simp [expandRow]

theorem expandList_length (bs : Nat) (A : Csr α) (f : Nat → Nat → Nat → β) :
    (expandList bs A f).length = expandStart bs A (A.rows * bs) := by
  simp [expandList, expandStart, List.length_flatMap, expandRow_length]

/-- position `t` of scalar row `r` -/
theorem expandList_getElem? (bs : Nat) (A : Csr α) (f : Nat → Nat → Nat → β) {r t : Nat} (hr : r < A.rows * bs)
    (ht : t < expandCnt A (r / bs) * bs) :
    (expandList bs A f)[expandStart bs A r + t]? = some (f (r % bs) (A.rowPtr.getD (r / bs) 0 + t / bs) (t % bs)) := by
  have h := flatMap_range_getElem? (expandRow bs A f) (A.rows * bs) r t hr (by rw [expandRow_length]; exact ht)
  simp only [expandRow_length] at h
  unfold expandList expandStart
  rw [h]
  simp [expandRow, ht]

theorem expandList_lt (bs : Nat) (A : Csr α) (f : Nat → Nat → Nat → β) {r t : Nat} (hr : r < A.rows * bs)
    (ht : t < expandCnt A (r / bs) * bs) : expandStart bs A r + t < (expandList bs A f).length := by
  by_contra hc
  have := expandList_getElem? bs A f hr ht
  rw [List.getElem?_eq_none (Nat.le_of_not_lt hc)] at this
  cases this

theorem expandVals_size [Zero α] (bs : Nat) (A : Csr α) (v : Array α) :
    (expandVals bs A v).size = expandStart bs A (A.rows * bs) := by
  simp [expandVals, expandList_length]

theorem expandVals_getD [Zero α] (bs : Nat) (A : Csr α) (v : Array α) {r t : Nat} (hr : r < A.rows * bs)
    (ht : t < expandCnt A (r / bs) * bs) (d : α) :
    (expandVals bs A v).getD (expandStart bs A r + t) d
      = v.getD ((A.rowPtr.getD (r / bs) 0 + t / bs) * bs * bs + r % bs * bs + t % bs) 0 := by
  rw [Array.getD_eq_getD_getElem?]
  unfold expandVals
  rw [List.getElem?_toArray, expandList_getElem? bs A _ hr ht]
  rfl

theorem expandCsr_colInd_getD [Zero α] (bs : Nat) (A : Csr α) {r t : Nat} (hr : r < A.rows * bs)
    (ht : t < expandCnt A (r / bs) * bs) (d : Nat) :
    (expandCsr bs A).colInd.getD (expandStart bs A r + t) d
      = A.colInd.getD (A.rowPtr.getD (r / bs) 0 + t / bs) 0 * bs + t % bs := by
  rw [Array.getD_eq_getD_getElem?]
  unfold expandCsr
  simp only []
  rw [List.getElem?_toArray, expandList_getElem? bs A _ hr ht]
  rfl

theorem expandCsr_rowPtr_getD [Zero α] (bs : Nat) (A : Csr α) {r : Nat} (hr : r ≤ A.rows * bs) :
    (expandCsr bs A).rowPtr.getD r 0 = expandStart bs A r := by
  unfold expandCsr
  simp only []
  rw [getD_ofFn _ r (by omega)]

theorem expandCsr_rowBegin [Zero α] (bs : Nat) (A : Csr α) {r : Nat} (hr : r < A.rows * bs) :
    (expandCsr bs A).rowBegin r = expandStart bs A r := by
  unfold Csr.rowBegin
  exact expandCsr_rowPtr_getD bs A (by omega)

theorem expandCsr_rowEnd [Zero α] (bs : Nat) (A : Csr α) {r : Nat} (hr : r < A.rows * bs) :
    (expandCsr bs A).rowEnd r = expandStart bs A r + expandCnt A (r / bs) * bs := by
  unfold Csr.rowEnd
  rw [expandCsr_rowPtr_getD bs A (by omega), expandStart_succ]

/-! ## closed form of the row starts under well-formedness -/

theorem asBcsr_wf_csr (bs : Nat) (A : Csr α) (hB : (asBcsr bs A).wf = true) :
    ∀ i, i < A.rows → A.rowPtr.getD i 0 ≤ A.rowPtr.getD (i + 1) 0 :=
  ((Bcsr.wf_iff _).mp hB).mono

/-- `start (i·bs + a) = (rowPtr[i]·bs + a·(rowPtr[i+1] - rowPtr[i]))·bs` -/
theorem expandStart_closed (bs : Nat) (A : Csr α) (hB : (asBcsr bs A).wf = true) :
    ∀ r, r ≤ A.rows * bs → (0 < bs ∨ r = 0) →
      expandStart bs A r = (A.rowPtr.getD (r / bs) 0 * bs + r % bs * expandCnt A (r / bs)) * bs := by
  have hW := (Bcsr.wf_iff _).mp hB
  intro r
  induction r with
  | zero =>
    intro _ _
    have h0 : A.rowPtr.getD 0 0 = 0 := hW.first
    simp [expandStart, h0]
  | succ r ih =>
    intro hr hbs
    have hbs : 0 < bs := by omega
    rw [expandStart_succ, ih (by omega) (Or.inl hbs)]
    have hi : r / bs < A.rows := by rw [Nat.div_lt_iff_lt_mul hbs]; omega
    have hm : A.rowPtr.getD (r / bs) 0 ≤ A.rowPtr.getD (r / bs + 1) 0 := hW.mono _ hi
    have hlt : r % bs < bs := Nat.mod_lt _ hbs
    rcases Nat.lt_or_ge (r % bs + 1) bs with h | h
    · have hd : (r + 1) / bs = r / bs := by
        have := Nat.div_add_mod r bs
        have e : r + 1 = bs * (r / bs) + (r % bs + 1) := by omega
        rw [e, Nat.mul_add_div hbs, Nat.div_eq_of_lt h, Nat.add_zero]
      have hmod : (r + 1) % bs = r % bs + 1 := by
        have := Nat.div_add_mod r bs
        have e : r + 1 = bs * (r / bs) + (r % bs + 1) := by omega
        rw [e, Nat.mul_add_mod, Nat.mod_eq_of_lt h]
      rw [hd, hmod]
      ring
    · have hb : r % bs + 1 = bs := by omega
      have hd : (r + 1) / bs = r / bs + 1 := by
        have := Nat.div_add_mod r bs
        have e : r + 1 = bs * (r / bs + 1) + 0 := by rw [Nat.mul_add]; omega
        rw [e, Nat.mul_add_div hbs, Nat.zero_div, Nat.add_zero]
      have hmod : (r + 1) % bs = 0 := by
        have := Nat.div_add_mod r bs
        have e : r + 1 = bs * (r / bs + 1) + 0 := by rw [Nat.mul_add]; omega
        rw [e, Nat.mul_add_mod, Nat.zero_mod]
      rw [hd, hmod]
      have hc : A.rowPtr.getD (r / bs + 1) 0 = A.rowPtr.getD (r / bs) 0 + expandCnt A (r / bs) := by
        unfold expandCnt; omega
      rw [hc]
      generalize expandCnt A (r / bs) = c
      generalize expandCnt A (r / bs + 1) = c'
      generalize A.rowPtr.getD (r / bs) 0 = q
      have hb' : r % bs = bs - 1 := by omega
      rw [hb']
      obtain ⟨m, rfl⟩ : ∃ m, bs = m + 1 := ⟨bs - 1, by omega⟩
      simp only [Nat.add_sub_cancel]
      ring

/-- the total number of stored scalar entries is `nnz·bs·bs` -/
theorem expandStart_total (bs : Nat) (A : Csr α) (hB : (asBcsr bs A).wf = true) (hbs : 0 < bs) :
    expandStart bs A (A.rows * bs) = A.colInd.size * bs * bs := by
  have hW := (Bcsr.wf_iff _).mp hB
  rw [expandStart_closed bs A hB _ (Nat.le_refl _) (Or.inl hbs), Nat.mul_div_cancel _ hbs, Nat.mul_mod_left]
  have : A.rowPtr.getD A.rows 0 = A.colInd.size := hW.last
  rw [this]
  ring

/-! ## dense meaning -/

section meaning
variable [CommSemiring α]

theorem expandCsr_entry_sum (bs : Nat) (A : Csr α) {p : Nat} (hp : p < A.rows * bs) (c : Nat) :
    (expandCsr bs A).entry p c = ∑ j ∈ range (expandCnt A (p / bs)), ∑ b ∈ range bs,
      (if A.colInd.getD (A.rowPtr.getD (p / bs) 0 + j) 0 * bs + b = c
        then A.val.getD ((A.rowPtr.getD (p / bs) 0 + j) * bs * bs + p % bs * bs + b) 0 else 0) := by
  rw [Csr.entry_eq_sum_Ico, expandCsr_rowBegin bs A hp, expandCsr_rowEnd bs A hp, Finset.sum_Ico_eq_sum_range,
    Nat.add_sub_cancel_left]
  have hbs : 0 < bs := by
    rcases Nat.eq_zero_or_pos bs with h | h
    · subst h; simp at hp
    · exact h
  rw [sum_range_mul]
  apply Finset.sum_congr rfl
  intro j hj
  rw [Finset.mem_range] at hj
  apply Finset.sum_congr rfl
  intro b hb
  rw [Finset.mem_range] at hb
  have ht : j * bs + b < expandCnt A (p / bs) * bs := by
    calc j * bs + b < j * bs + bs := by omega
      _ = (j + 1) * bs := by ring
      _ ≤ expandCnt A (p / bs) * bs := Nat.mul_le_mul_right bs hj
  have hv : (expandCsr bs A).val = expandVals bs A A.val := rfl
  rw [expandCsr_colInd_getD bs A hp ht, hv, expandVals_getD bs A A.val hp ht,
    (Bcsr.divmod_block hbs j b hb).1, (Bcsr.divmod_block hbs j b hb).2]

/-- the expansion has the dense meaning of the BCSR matrix -/
theorem expandCsr_entry (bs : Nat) (A : Csr α) (hB : (asBcsr bs A).wf = true) (hbs : 0 < bs) :
    ∀ p c, p < A.rows * bs → c < A.cols * bs → (expandCsr bs A).entry p c = (asBcsr bs A).entry p c := by
  intro p c hp _
  have hW := (Bcsr.wf_iff _).mp hB
  have hi : p / bs < A.rows := by rw [Nat.div_lt_iff_lt_mul hbs]; exact hp
  have hm : A.rowPtr.getD (p / bs) 0 ≤ A.rowPtr.getD (p / bs + 1) 0 := hW.mono _ hi
  have hend : A.rowPtr.getD (p / bs + 1) 0 ≤ A.colInd.size := Bcsr.rowEnd_le hW hi
  rw [expandCsr_entry_sum bs A hp c, Bcsr.entry_eq_sum (asBcsr bs A) hbs hbs p c]
  show _ = ∑ k ∈ Ico (A.rowPtr.getD (p / bs) 0) (A.rowPtr.getD (p / bs + 1) 0),
      (if A.colInd.getD k A.cols = c / bs then A.val.getD (k * bs * bs + p % bs * bs + c % bs) 0 else 0)
  rw [Finset.sum_Ico_eq_sum_range]
  apply Finset.sum_congr rfl
  intro j hj
  rw [Finset.mem_range] at hj
  have hk : A.rowPtr.getD (p / bs) 0 + j < A.colInd.size := by unfold expandCnt at hj; omega
  rw [Bcsr.sum_block_hit hbs, Csr.getD_eq_of_lt _ hk A.cols 0]

end meaning

/-! ## well-formedness -/

theorem expandCsr_wf [Zero α] (bs : Nat) (A : Csr α) (hB : (asBcsr bs A).wf = true) (hbs : 0 < bs) :
    (expandCsr bs A).wf = true := by
  have hW := (Bcsr.wf_iff _).mp hB
  rw [Csr.wf_iff]
  have hvs : (expandCsr bs A).val.size = expandStart bs A (A.rows * bs) := expandVals_size bs A A.val
  have hcs : (expandCsr bs A).colInd.size = expandStart bs A (A.rows * bs) := by
    unfold expandCsr
    simp [expandList_length]
  refine ⟨by simp [expandCsr], ?_, ?_, by rw [hvs, hcs], ?_, ?_⟩
  · rw [expandCsr_rowPtr_getD bs A (Nat.zero_le _)]; simp [expandStart]
  · rw [hvs]; exact expandCsr_rowPtr_getD bs A (Nat.le_refl _)
  · intro r hr
    have hr' : r < A.rows * bs := hr
    rw [expandCsr_rowPtr_getD bs A (by omega), expandCsr_rowPtr_getD bs A (by omega), expandStart_succ]
    omega
  · -- every stored column index is `< cols·bs`: locate the scalar row of position `k`
    have key : ∀ n, n ≤ A.rows * bs → ∀ k, k < expandStart bs A n →
        (expandCsr bs A).colInd.getD k 0 < A.cols * bs := by
      intro n
      induction n with
      | zero => intro _ k hk; simp [expandStart] at hk
      | succ n ih =>
        intro hn k hk
        rcases Nat.lt_or_ge k (expandStart bs A n) with h | h
        · exact ih (by omega) k h
        · rw [expandStart_succ] at hk
          have hn' : n < A.rows * bs := by omega
          obtain ⟨t, rfl⟩ : ∃ t, k = expandStart bs A n + t := ⟨k - expandStart bs A n, by omega⟩
          have ht : t < expandCnt A (n / bs) * bs := by omega
          rw [expandCsr_colInd_getD bs A hn' ht]
          have hi : n / bs < A.rows := by rw [Nat.div_lt_iff_lt_mul hbs]; exact hn'
          have hend : A.rowPtr.getD (n / bs + 1) 0 ≤ A.colInd.size := Bcsr.rowEnd_le hW hi
          have htd : t / bs < expandCnt A (n / bs) := by rw [Nat.div_lt_iff_lt_mul hbs]; exact ht
          have hk' : A.rowPtr.getD (n / bs) 0 + t / bs < A.colInd.size := by
            unfold expandCnt at htd
            generalize t / bs = m at htd ⊢
            omega
          have hc : A.colInd.getD (A.rowPtr.getD (n / bs) 0 + t / bs) 0 < A.cols := hW.colLt _ hk'
          have hmod : t % bs < bs := Nat.mod_lt _ hbs
          calc A.colInd.getD (A.rowPtr.getD (n / bs) 0 + t / bs) 0 * bs + t % bs
              < A.colInd.getD (A.rowPtr.getD (n / bs) 0 + t / bs) 0 * bs + bs := by omega
            _ = (A.colInd.getD (A.rowPtr.getD (n / bs) 0 + t / bs) 0 + 1) * bs := by ring
            _ ≤ A.cols * bs := Nat.mul_le_mul_right bs hc
    intro k hk
    rw [hcs] at hk
    show (expandCsr bs A).colInd.getD k 0 < A.cols * bs
    exact key _ (Nat.le_refl _) k hk

/-! ## the matrix preconditioner: `apply` commutes with the expansion -/

/-- `expandCsr bs A` applied to the pod vector equals the BCSR `apply` on the pod arrays: both never abort on
    matching sizes and return the exact product with the dense meaning of the BCSR matrix -/
theorem expand_apply_commutes [Field α] (tiny : α → Bool) (ht0 : tiny 0 = true) (bs : Nat) (A : Csr α)
    (hB : (asBcsr bs A).wf = true) (hbs : 0 < bs) (x r : Array α) (hr : r.size = A.rows * bs)
    (hx : x.size = A.cols * bs) :
    ∃ r₁ r₂, (expandCsr bs A).apply tiny x r false = some r₁ ∧ (asBcsr bs A).apply tiny x r false = some r₂ ∧
      r₁.size = A.rows * bs ∧ r₂.size = A.rows * bs ∧
      ∀ p, p < A.rows * bs →
        r₁.getD p 0 = ∑ c ∈ range (A.cols * bs), (asBcsr bs A).entry p c * x.getD c 0 ∧
        r₂.getD p 0 = ∑ c ∈ range (A.cols * bs), (asBcsr bs A).entry p c * x.getD c 0 := by
  have hW := (Bcsr.wf_iff _).mp hB
  obtain ⟨r₁, h1, hs1, he1⟩ := C01.csr_apply_spec tiny ht0 (expandCsr bs A) (expandCsr_wf bs A hB hbs) x r hr hx
  have h2 : ∃ r₂, (asBcsr bs A).apply tiny x r false = some r₂ ∧ r₂.size = A.rows * bs ∧
      ∀ p, p < A.rows * bs → r₂.getD p 0 = ∑ c ∈ range (A.cols * bs), (asBcsr bs A).entry p c * x.getD c 0 := by
    by_cases h0 : (asBcsr bs A).usedElements = 0
    · refine ⟨Array.replicate r.size 0, ?_, by simp [hr], ?_⟩
      · have h0' : A.colInd.size = 0 := h0
        simp [Bcsr.apply, asBcsr, Bcsr.usedElements, hr, hx, h0']
      · intro p hp
        rw [getD_replicate _ _ (by rw [hr]; exact hp)]
        simp [Bcsr.entry_eq_zero_of_empty hW h0]
    · refine ⟨(asBcsr bs A).kernel tiny 1 0 x r r true, ?_, ?_, ?_⟩
      · have h0' : ¬ A.colInd.size = 0 := h0
        simp [Bcsr.apply, asBcsr, Bcsr.usedElements, hr, hx, h0']
      · simp [Bcsr.kernel, asBcsr]
      · intro p hp
        have := C01.bcsr_kernel_eq tiny (asBcsr bs A) hB hbs hbs 1 0 x r r true p hp
        rw [this, ht0]
        simp [asBcsr]
  obtain ⟨r₂, h2, hs2, he2⟩ := h2
  refine ⟨r₁, r₂, h1, h2, hs1, hs2, ?_⟩
  intro p hp
  refine ⟨?_, he2 p hp⟩
  rw [he1 p hp]
  apply Finset.sum_congr rfl
  intro c hc
  rw [Finset.mem_range] at hc
  rw [expandCsr_entry bs A hB hbs p c hp hc]

/-- the two results agree at every index -/
theorem expand_apply_eq [Field α] (tiny : α → Bool) (ht0 : tiny 0 = true) (bs : Nat) (A : Csr α)
    (hB : (asBcsr bs A).wf = true) (hbs : 0 < bs) (x r : Array α) (hr : r.size = A.rows * bs)
    (hx : x.size = A.cols * bs) :
    (expandCsr bs A).apply tiny x r false = (asBcsr bs A).apply tiny x r false := by
  obtain ⟨r₁, r₂, h1, h2, hs1, hs2, he⟩ := expand_apply_commutes tiny ht0 bs A hB hbs x r hr hx
  rw [h1, h2]
  congr 1
  apply Array.ext (by rw [hs1, hs2])
  intro i hi1 hi2
  have h := he i (by rw [← hs1]; exact hi1)
  have e1 : r₁.getD i 0 = r₁[i] := by simp [Array.getD, hi1]
  have e2 : r₂.getD i 0 = r₂[i] := by simp [Array.getD, hi2]
  rw [← e1, ← e2, h.1, h.2]

/-! ## the diagonal (blocked Jacobi: pointwise diagonal of the diagonal blocks) -/

/-- if block row `i` stores its diagonal block at position `k`, scalar row `p = i·bs + a` of the expansion stores
    the entry `(p, p)` at position `start p + (k - rowPtr[i])·bs + a`, with the value `(a, a)` of that block -/
theorem expandCsr_diag_stored [Zero α] (bs : Nat) (A : Csr α) {i a k : Nat} (hi : i < A.rows) (ha : a < bs)
    (hk1 : A.rowPtr.getD i 0 ≤ k) (hk2 : k < A.rowPtr.getD (i + 1) 0) (hc : A.colInd.getD k 0 = i) (d : Nat) :
    (expandCsr bs A).rowBegin (i * bs + a) ≤ expandStart bs A (i * bs + a) + ((k - A.rowPtr.getD i 0) * bs + a) ∧
    expandStart bs A (i * bs + a) + ((k - A.rowPtr.getD i 0) * bs + a) < (expandCsr bs A).rowEnd (i * bs + a) ∧
    (expandCsr bs A).colInd.getD (expandStart bs A (i * bs + a) + ((k - A.rowPtr.getD i 0) * bs + a)) d
      = i * bs + a ∧
    (expandCsr bs A).val.getD (expandStart bs A (i * bs + a) + ((k - A.rowPtr.getD i 0) * bs + a)) 0
      = A.val.getD (k * bs * bs + a * bs + a) 0 := by
  have hbs : 0 < bs := by omega
  have hp : i * bs + a < A.rows * bs := by
    calc i * bs + a < i * bs + bs := by omega
      _ = (i + 1) * bs := by ring
      _ ≤ A.rows * bs := Nat.mul_le_mul_right bs hi
  obtain ⟨hd, hm⟩ := Bcsr.divmod_block hbs i a ha
  obtain ⟨hd', hm'⟩ := Bcsr.divmod_block hbs (k - A.rowPtr.getD i 0) a ha
  have hj : k - A.rowPtr.getD i 0 < expandCnt A i := by unfold expandCnt; omega
  have ht : (k - A.rowPtr.getD i 0) * bs + a < expandCnt A ((i * bs + a) / bs) * bs := by
    rw [hd]
    calc (k - A.rowPtr.getD i 0) * bs + a < (k - A.rowPtr.getD i 0) * bs + bs := by omega
      _ = (k - A.rowPtr.getD i 0 + 1) * bs := by ring
      _ ≤ expandCnt A i * bs := Nat.mul_le_mul_right bs hj
  have hk : A.rowPtr.getD i 0 + (k - A.rowPtr.getD i 0) = k := by omega
  have hv : (expandCsr bs A).val = expandVals bs A A.val := rfl
  refine ⟨?_, ?_, ?_, ?_⟩
  · rw [expandCsr_rowBegin bs A hp]; omega
  · rw [expandCsr_rowEnd bs A hp]; omega
  · rw [expandCsr_colInd_getD bs A hp ht, hd, hd', hm', hk, hc]
  · rw [hv, expandVals_getD bs A A.val hp ht, hd, hm, hd', hm', hk]

/-- with a single stored diagonal block per block row, the dense diagonal is the pointwise diagonal of that block -/
theorem asBcsr_entry_diag [CommSemiring α] (bs : Nat) (A : Csr α) (hB : (asBcsr bs A).wf = true) {i a k : Nat}
    (hi : i < A.rows) (ha : a < bs) (hk1 : A.rowPtr.getD i 0 ≤ k) (hk2 : k < A.rowPtr.getD (i + 1) 0)
    (hc : A.colInd.getD k 0 = i)
    (huniq : ∀ k', A.rowPtr.getD i 0 ≤ k' → k' < A.rowPtr.getD (i + 1) 0 → A.colInd.getD k' 0 = i → k' = k) :
    (asBcsr bs A).entry (i * bs + a) (i * bs + a) = A.val.getD (k * bs * bs + a * bs + a) 0 := by
  have hW := (Bcsr.wf_iff _).mp hB
  have hbs : 0 < bs := by omega
  obtain ⟨hd, hm⟩ := Bcsr.divmod_block hbs i a ha
  have hend : A.rowPtr.getD (i + 1) 0 ≤ A.colInd.size := Bcsr.rowEnd_le hW hi
  rw [Bcsr.entry_eq_sum (asBcsr bs A) hbs hbs]
  show ∑ k' ∈ Ico (A.rowPtr.getD ((i * bs + a) / bs) 0) (A.rowPtr.getD ((i * bs + a) / bs + 1) 0),
      (if A.colInd.getD k' A.cols = (i * bs + a) / bs
        then A.val.getD (k' * bs * bs + (i * bs + a) % bs * bs + (i * bs + a) % bs) 0 else 0) = _
  rw [hd, hm, Finset.sum_eq_single k]
  · rw [Csr.getD_eq_of_lt _ (by omega) A.cols 0, if_pos hc]
  · intro k' hk' hne
    rw [Finset.mem_Ico] at hk'
    rw [Csr.getD_eq_of_lt _ (by omega) A.cols 0, if_neg]
    intro he
    exact hne (huniq k' hk'.1 hk'.2 he)
  · intro hn
    exact absurd (Finset.mem_Ico.mpr ⟨hk1, hk2⟩) hn

/-- the stored diagonal value of the expansion is the dense diagonal of the BCSR matrix (and of the expansion) -/
theorem expandCsr_diag [CommSemiring α] (bs : Nat) (A : Csr α) (hB : (asBcsr bs A).wf = true) {i a k : Nat}
    (hi : i < A.rows) (ha : a < bs) (hk1 : A.rowPtr.getD i 0 ≤ k) (hk2 : k < A.rowPtr.getD (i + 1) 0)
    (hc : A.colInd.getD k 0 = i)
    (huniq : ∀ k', A.rowPtr.getD i 0 ≤ k' → k' < A.rowPtr.getD (i + 1) 0 → A.colInd.getD k' 0 = i → k' = k) :
    (expandCsr bs A).val.getD (expandStart bs A (i * bs + a) + ((k - A.rowPtr.getD i 0) * bs + a)) 0
      = (asBcsr bs A).entry (i * bs + a) (i * bs + a) := by
  rw [asBcsr_entry_diag bs A hB hi ha hk1 hk2 hc huniq]
  exact (expandCsr_diag_stored bs A hi ha hk1 hk2 hc 0).2.2.2

/-! ## sorted block rows with stored diagonal blocks: `extract_diag` of the expansion -/

theorem succ_divmod {bs : Nat} (hbs : 0 < bs) (t : Nat) :
    (t % bs + 1 < bs → (t + 1) / bs = t / bs ∧ (t + 1) % bs = t % bs + 1) ∧
    (t % bs + 1 = bs → (t + 1) / bs = t / bs + 1 ∧ (t + 1) % bs = 0) := by
  have h0 := Nat.div_add_mod t bs
  constructor
  · intro h
    have e : t + 1 = bs * (t / bs) + (t % bs + 1) := by omega
    constructor
    · rw [e, Nat.mul_add_div hbs, Nat.div_eq_of_lt h, Nat.add_zero]
    · rw [e, Nat.mul_add_mod, Nat.mod_eq_of_lt h]
  · intro h
    have e : t + 1 = bs * (t / bs + 1) + 0 := by rw [Nat.mul_add]; omega
    constructor
    · rw [e, Nat.mul_add_div hbs, Nat.zero_div, Nat.add_zero]
    · rw [e, Nat.mul_add_mod, Nat.zero_mod]

/-- block rows with strictly increasing block columns and a stored diagonal block expand to scalar rows with strictly
    increasing columns and a stored diagonal entry: the expansion satisfies the precondition `sortedDiag` of the
    scalar Jacobi / SOR models -/
theorem expandCsr_sortedDiag [Zero α] (bs : Nat) (A : Csr α) (hB : (asBcsr bs A).wf = true) (hbs : 0 < bs)
    (hsq : A.rows = A.cols)
    (hsorted : ∀ i, i < A.rows → ∀ k, A.rowPtr.getD i 0 ≤ k → k + 1 < A.rowPtr.getD (i + 1) 0 →
      A.colInd.getD k 0 < A.colInd.getD (k + 1) 0)
    (hdiag : ∀ i, i < A.rows → ∃ k, A.rowPtr.getD i 0 ≤ k ∧ k < A.rowPtr.getD (i + 1) 0 ∧ A.colInd.getD k 0 = i) :
    sortedDiag (expandCsr bs A) = true := by
  simp only [sortedDiag, Bool.and_eq_true, beq_iff_eq, List.all_eq_true, List.any_eq_true, List.mem_range,
    List.mem_range'_1, decide_eq_true_eq]
  refine ⟨⟨expandCsr_wf bs A hB hbs, ?_⟩, ?_⟩
  · show A.rows * bs = A.cols * bs
    rw [hsq]
  · intro p hp
    have hp : p < A.rows * bs := hp
    have hi : p / bs < A.rows := by rw [Nat.div_lt_iff_lt_mul hbs]; exact hp
    rw [expandCsr_rowBegin bs A hp, expandCsr_rowEnd bs A hp]
    constructor
    · intro k hk hk1
      obtain ⟨t, rfl⟩ : ∃ t, k = expandStart bs A p + t := ⟨k - expandStart bs A p, by omega⟩
      have ht1 : t + 1 < expandCnt A (p / bs) * bs := by omega
      rw [Nat.add_assoc, expandCsr_colInd_getD bs A hp (by omega : t < _), expandCsr_colInd_getD bs A hp ht1]
      have hm : t % bs < bs := Nat.mod_lt _ hbs
      rcases Nat.lt_or_ge (t % bs + 1) bs with h | h
      · obtain ⟨e1, e2⟩ := (succ_divmod hbs t).1 h
        rw [e1, e2]
        omega
      · obtain ⟨e1, e2⟩ := (succ_divmod hbs t).2 (by omega)
        rw [e1, e2]
        have hj : t / bs + 1 < expandCnt A (p / bs) := by
          rw [← e1, Nat.div_lt_iff_lt_mul hbs]; exact ht1
        have hlt := hsorted _ hi (A.rowPtr.getD (p / bs) 0 + t / bs) (Nat.le_add_right _ _)
          (by unfold expandCnt at hj; generalize t / bs = m at hj ⊢; omega)
        rw [← Nat.add_assoc]
        calc A.colInd.getD (A.rowPtr.getD (p / bs) 0 + t / bs) 0 * bs + t % bs
            < A.colInd.getD (A.rowPtr.getD (p / bs) 0 + t / bs) 0 * bs + bs := by omega
          _ = (A.colInd.getD (A.rowPtr.getD (p / bs) 0 + t / bs) 0 + 1) * bs := by ring
          _ ≤ A.colInd.getD (A.rowPtr.getD (p / bs) 0 + t / bs + 1) 0 * bs := Nat.mul_le_mul_right bs hlt
          _ = _ := by omega
    · obtain ⟨k, hk1, hk2, hc⟩ := hdiag _ hi
      have ha := Nat.mod_lt p hbs
      have hpe : p / bs * bs + p % bs = p := by rw [Nat.mul_comm]; exact Nat.div_add_mod p bs
      have h := expandCsr_diag_stored bs A hi ha hk1 hk2 hc 0
      rw [hpe, expandCsr_rowBegin bs A hp, expandCsr_rowEnd bs A hp] at h
      exact ⟨_, ⟨h.1, by omega⟩, h.2.2.1⟩

/-- `extract_diag` of the expansion (what the scalar Jacobi / polynomial models invert) is the pointwise diagonal of
    the BCSR matrix -/
theorem expandCsr_extractDiag [Field α] (bs : Nat) (A : Csr α) (hB : (asBcsr bs A).wf = true) (hbs : 0 < bs)
    (hsq : A.rows = A.cols)
    (hsorted : ∀ i, i < A.rows → ∀ k, A.rowPtr.getD i 0 ≤ k → k + 1 < A.rowPtr.getD (i + 1) 0 →
      A.colInd.getD k 0 < A.colInd.getD (k + 1) 0)
    (hdiag : ∀ i, i < A.rows → ∃ k, A.rowPtr.getD i 0 ≤ k ∧ k < A.rowPtr.getD (i + 1) 0 ∧ A.colInd.getD k 0 = i)
    (p : Nat) (hp : p < A.rows * bs) :
    (extractDiag (expandCsr bs A)).getD p 0 = (asBcsr bs A).entry p p := by
  rw [extractDiag_getD _ (expandCsr_sortedDiag bs A hB hbs hsq hsorted hdiag) p hp,
    expandCsr_entry bs A hB hbs p p hp (by rw [← hsq]; exact hp)]

/-! ## the driver's instances -/

/-- the `update` step: expanding a matrix with new block values = replacing the value array by `expandVals` -/
theorem expandCsr_update [Zero α] (bs : Nat) (A : Csr α) (v : Array α) :
    expandCsr bs { A with val := v } = { expandCsr bs A with val := expandVals bs A v } := rfl

/-- at ℚ with the harness eps (`applyQ` is what the driver runs) -/
theorem expand_applyQ_eq (bs : Nat) (A : Csr Rat) (hB : (asBcsr bs A).wf = true) (hbs : 0 < bs) (x r : Array Rat)
    (hr : r.size = A.rows * bs) (hx : x.size = A.cols * bs) :
    (expandCsr bs A).applyQ x r false = (asBcsr bs A).applyQ x r false :=
  expand_apply_eq (tinyRat epsQ) C01.tinyRat_zero_one.1 bs A hB hbs x r hr hx

end FeatModel.Solver
