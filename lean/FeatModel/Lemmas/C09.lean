import FeatModel.Model.MG
/-!
# C09 helper lemmas, control layer (core Lean only)

* the W-cycle counter loop visits the peak levels in ruler order (all level counts, all sub-ranges);
* the loop-based cycle drivers equal the textbook recursions as instruction lists;
* coarse-solve counts and peak sequences of the recursions.
-/
namespace FeatModel.MG

/-! ## the `_apply_rest` / `_apply_prol` loops -/

theorem restSeq_self (last : Nat) (s : Bool) : restSeq last last s = [] := by
  simp [restSeq]

theorem prolSeq_self (last : Nat) (s : Bool) : prolSeq last last s = [] := by
  simp [prolSeq]

theorem restSeq_cons (last cur : Nat) (s : Bool) (h : cur < last) :
    restSeq last cur s = Instr.rest cur s :: restSeq last (cur + 1) true := by
  unfold restSeq
  have h1 : last - cur = (last - (cur + 1)) + 1 := by omega
  rw [h1, List.range'_succ]
  simp only [List.map_cons, Nat.lt_irrefl, decide_false, Bool.or_false, List.cons.injEq, true_and]
  apply List.map_congr_left
  intro i hi
  have : cur < i := by
    have := (List.mem_range'_1.mp hi).1
    omega
  simp [this]

theorem prolSeq_snoc (last cur : Nat) (s : Bool) (h : cur < last) :
    prolSeq last cur s = prolSeq last (cur + 1) true ++ [Instr.prol cur s] := by
  unfold prolSeq
  have h1 : last - cur = (last - (cur + 1)) + 1 := by omega
  rw [h1, List.range'_succ]
  simp only [List.reverse_cons, List.map_append, List.map_cons, List.map_nil, Nat.lt_irrefl, decide_false,
    Bool.or_false]
  congr 1
  apply List.map_congr_left
  intro i hi
  have : cur < i := by
    have := (List.mem_range'_1.mp (List.mem_reverse.mp hi)).1
    omega
  simp [this]

/-! ## W-cycle counters -/

theorem wRun_append (last top m n : Nat) (c : Nat → Nat) :
    wRun last top (m + n) c =
      ((wRun last top m c).1 ++ (wRun last top n (wRun last top m c).2).1,
       (wRun last top n (wRun last top m c).2).2) := by
  induction m generalizing c with
  | zero => simp [wRun]
  | succ m ih =>
    have : m + 1 + n = (m + n) + 1 := by omega
    rw [this]
    simp only [wRun]
    rw [ih]
    simp

/-- the downward scan stops at the first (highest-index) zero counter -/
theorem wScan_of_ones (c : Nat → Nat) (top k p : Nat) (hp : top ≤ p) (hk : p < top + k) (h0 : c p = 0)
    (h1 : ∀ j, p < j → j < top + k → c j ≠ 0) : wScan c top k = p := by
  induction k with
  | zero => omega
  | succ k ih =>
    unfold wScan
    by_cases hik : top + k = p
    · subst hik; simp [h0]
    · have : c (top + k) ≠ 0 := h1 (top + k) (by omega) (by omega)
      simp only [this, if_false]
      exact ih (by omega) (fun j a b => h1 j a (by omega))

/-- main lemma: from counters that are 0 on the `d` levels next to the coarse level, `2^d - 1` iterations visit the
    peak levels in ruler order, leave those counters at 1 and do not touch the levels above -/
theorem wRun_ruler (last top d : Nat) (hd : d ≤ last - top) (c : Nat → Nat)
    (hz : ∀ j, last - d ≤ j → j < last → c j = 0) :
    (wRun last top (2 ^ d - 1) c).1 = ruler last d ∧
    (∀ j, last - d ≤ j → j < last → (wRun last top (2 ^ d - 1) c).2 j = 1) ∧
    (∀ j, j < last - d → (wRun last top (2 ^ d - 1) c).2 j = c j) := by
  induction d generalizing c with
  | zero =>
    simp only [Nat.pow_zero, Nat.sub_self, wRun, ruler, true_and]
    exact ⟨fun j h1 h2 => by omega, fun _ _ => trivial⟩
  | succ d ih =>
    have hsplit : 2 ^ (d + 1) - 1 = (2 ^ d - 1) + (1 + (2 ^ d - 1)) := by
      have : 0 < 2 ^ d := Nat.two_pow_pos d
      rw [Nat.pow_succ]; omega
    rw [hsplit, wRun_append]
    obtain ⟨h1, h2, h3⟩ := ih (by omega) c (fun j a b => hz j (by omega) b)
    generalize hc1 : (wRun last top (2 ^ d - 1) c).2 = c1 at h2 h3 ⊢
    rw [wRun_append]
    have hk : last - (d + 1) < last := by omega
    have hscan : wScan c1 top (last - top) = last - (d + 1) := by
      apply wScan_of_ones c1 top (last - top) (last - (d + 1)) (by omega) (by omega)
      · rw [h3 _ (by omega)]; exact hz _ (by omega) hk
      · intro j a b; rw [h2 j (by omega) (by omega)]; omega
    have hstep : wRun last top 1 c1 =
        ([last - (d + 1)], fun i => if i = last - (d + 1) then c1 (last - (d + 1)) + 1
          else if last - (d + 1) < i ∧ i < last then 0 else c1 i) := by
      simp [wRun, wStep, hscan]
    rw [hstep]
    simp only
    generalize hc2 : (fun i => if i = last - (d + 1) then c1 (last - (d + 1)) + 1
          else if last - (d + 1) < i ∧ i < last then 0 else c1 i : Nat → Nat) = c2
    obtain ⟨g1, g2, g3⟩ := ih (by omega) c2 (fun j a b => by
      subst hc2
      have e1 : j ≠ last - (d + 1) := by omega
      have e2 : last - (d + 1) < j ∧ j < last := by omega
      simp [e1, e2])
    refine ⟨?_, ?_, ?_⟩
    · simp only [h1, g1, ruler]; simp
    · intro j a b
      by_cases hj : last - d ≤ j
      · exact g2 j hj b
      · have hj' : j = last - (d + 1) := by omega
        rw [g3 j (by omega)]
        subst hc2; subst hj'
        simp only [if_true]
        rw [h3 _ (by omega)]
        rw [hz _ (by omega) hk]
    · intro j a
      rw [g3 j (by omega)]
      subst hc2
      have e1 : j ≠ last - (d + 1) := by omega
      have e2 : ¬ (last - (d + 1) < j ∧ j < last) := by omega
      simp only [e1, e2, if_false]
      exact h3 j (by omega)

theorem wRun_full (last top : Nat) (h : top ≤ last) (c0 : Nat → Nat) :
    (wRun last top (2 ^ (last - top) - 1) (wInit last top c0)).1 = ruler last (last - top) ∧
    (∀ j, top ≤ j → j < last → (wRun last top (2 ^ (last - top) - 1) (wInit last top c0)).2 j = 1) := by
  obtain ⟨h1, h2, _⟩ := wRun_ruler last top (last - top) (Nat.le_refl _) (wInit last top c0)
    (fun j a b => by
      have : top ≤ j ∧ j ≤ last := by omega
      simp [wInit, this])
  exact ⟨h1, fun j a b => h2 j (by omega) b⟩

theorem cycleW_eq (last top : Nat) (h : top ≤ last) (c0 : Nat → Nat) :
    (cycleW last top c0).1 =
      some (restSeq last top true ++ [Instr.coarse] ++ (ruler last (last - top)).flatMap (wBody last)
        ++ prolSeq last top true) := by
  obtain ⟨h1, h2⟩ := wRun_full last top h c0
  have hs : wSane last top (wRun last top (2 ^ (last - top) - 1) (wInit last top c0)).2 = true := by
    unfold wSane
    rw [List.all_eq_true]
    intro i hi
    have := List.mem_range'_1.mp hi
    simp [h2 i this.1 (by omega)]
  simp only [cycleW, hs, if_true, h1]

/-! ## loops = recursions -/

theorem cycleV_eq_rec (last d : Nat) (hd : d ≤ last) : cycleV last (last - d) = recV last d := by
  induction d with
  | zero => simp [cycleV, recV, restSeq_self, prolSeq_self]
  | succ d ih =>
    have hl : last - (d + 1) < last := by omega
    have e : last - (d + 1) + 1 = last - d := by omega
    have ih' := ih (by omega)
    unfold cycleV at ih' ⊢
    rw [restSeq_cons _ _ _ hl, prolSeq_snoc _ _ _ hl, e, recV, ← ih']
    simp [List.append_assoc]

/-- the loop form of the W-cycle, as a function of the number `d` of levels above the coarse level -/
def wLoopForm (last d : Nat) : List Instr :=
  restSeq last (last - d) true ++ [Instr.coarse] ++ (ruler last d).flatMap (wBody last)
    ++ prolSeq last (last - d) true

theorem wLoopForm_eq_rec (last d : Nat) (hd : d ≤ last) : wLoopForm last d = recW last d := by
  induction d with
  | zero => simp [wLoopForm, recW, ruler, restSeq_self, prolSeq_self]
  | succ d ih =>
    have hl : last - (d + 1) < last := by omega
    have e : last - (d + 1) + 1 = last - d := by omega
    have ih' := ih (by omega)
    unfold wLoopForm at ih' ⊢
    rw [recW, ← ih']
    simp only [ruler, List.flatMap_append, List.flatMap_cons, List.flatMap_nil, wBody]
    rw [restSeq_cons _ _ true hl, restSeq_cons _ _ false hl, prolSeq_snoc _ _ true hl, prolSeq_snoc _ _ false hl, e]
    simp [List.append_assoc]

/-- F-cycle peak levels `last-1, last-2, …, last-d` -/
def fpk (last d : Nat) : List Nat := (List.range' (last - d) d).reverse

theorem fpk_succ (last d : Nat) (hd : d + 1 ≤ last) : fpk last (d + 1) = fpk last d ++ [last - (d + 1)] := by
  unfold fpk
  have e : last - (d + 1) + 1 = last - d := by omega
  rw [List.range'_succ, e]
  simp

/-- the loop form of the inner F-cycle -/
def fLoopForm (last d : Nat) : List Instr :=
  restSeq last (last - d) true ++ (fpk last d).flatMap (fBody last) ++ [Instr.coarse]
    ++ prolSeq last (last - d) true

theorem fLoopForm_eq_rec (last d : Nat) (hd : d ≤ last) : fLoopForm last d = recFin last d := by
  induction d with
  | zero => simp [fLoopForm, recFin, fpk, restSeq_self, prolSeq_self]
  | succ d ih =>
    have hl : last - (d + 1) < last := by omega
    have e : last - (d + 1) + 1 = last - d := by omega
    have ih' := ih (by omega)
    have hv := cycleV_eq_rec last d (by omega)
    unfold fLoopForm at ih' ⊢
    unfold cycleV at hv
    rw [recFin, ← ih', ← hv, fpk_succ last d hd]
    simp only [List.flatMap_append, List.flatMap_cons, List.flatMap_nil, fBody]
    rw [restSeq_cons _ _ true hl, restSeq_cons _ _ false hl, prolSeq_snoc _ _ true hl, prolSeq_snoc _ _ false hl, e]
    simp [List.append_assoc]

theorem fPeaks_eq (last d : Nat) (hd : d + 1 ≤ last) : fPeaks last (last - (d + 1)) = fpk last d := by
  unfold fPeaks fpk
  have h0 : 0 < last := by omega
  have e1 : last - (d + 1) + 1 = last - d := by omega
  have e2 : last - 1 - (last - (d + 1)) = d := by omega
  simp [h0, e1, e2]

theorem cycleF_eq_rec (last d : Nat) (hd : d ≤ last) : cycleF last (last - d) = recF last d := by
  cases d with
  | zero =>
    have : fPeaks last last = [] := by
      unfold fPeaks
      have : last - 1 - last = 0 := by omega
      simp [this]
    simp [cycleF, recF, restSeq_self, prolSeq_self, this]
  | succ d =>
    have hl : last - (d + 1) < last := by omega
    have e : last - (d + 1) + 1 = last - d := by omega
    have hf := fLoopForm_eq_rec last d (by omega)
    unfold fLoopForm at hf
    unfold cycleF
    rw [recF, ← hf, fPeaks_eq last d hd, restSeq_cons _ _ true hl, prolSeq_snoc _ _ true hl, e]
    simp [List.append_assoc]

/-! ## counting on the recursions -/

theorem countCoarse_append (a b : List Instr) : countCoarse (a ++ b) = countCoarse a + countCoarse b := by
  simp [countCoarse, List.count_append]

theorem peaksOf_append (a b : List Instr) : peaksOf (a ++ b) = peaksOf a ++ peaksOf b := by
  induction a with
  | nil => simp [peaksOf]
  | cons x t ih => cases x <;> simp [peaksOf, ih]

theorem countCoarse_recV (last d : Nat) : countCoarse (recV last d) = 1 := by
  induction d with
  | zero => simp [recV, countCoarse]
  | succ d ih =>
    simp only [recV, countCoarse_append, ih]
    simp [countCoarse]

theorem countCoarse_recW (last d : Nat) : countCoarse (recW last d) = 2 ^ d := by
  induction d with
  | zero => simp [recW, countCoarse]
  | succ d ih =>
    simp only [recW, countCoarse_append, ih]
    simp [countCoarse, Nat.pow_succ]
    omega

theorem countCoarse_recFin (last d : Nat) : countCoarse (recFin last d) = d + 1 := by
  induction d with
  | zero => simp [recFin, countCoarse]
  | succ d ih =>
    simp only [recFin, countCoarse_append, ih, countCoarse_recV]
    simp [countCoarse]

theorem countCoarse_recF (last d : Nat) : countCoarse (recF last (d + 1)) = d + 1 := by
  simp only [recF, countCoarse_append, countCoarse_recFin]
  simp [countCoarse]

theorem peaksOf_recV (last d : Nat) : peaksOf (recV last d) = [] := by
  induction d with
  | zero => simp [recV, peaksOf]
  | succ d ih => simp [recV, peaksOf_append, ih, peaksOf]

theorem peaksOf_recW (last d : Nat) : peaksOf (recW last d) = ruler last d := by
  induction d with
  | zero => simp [recW, peaksOf, ruler]
  | succ d ih => simp [recW, peaksOf_append, ih, peaksOf, ruler]

theorem peaksOf_recFin (last d : Nat) (hd : d ≤ last) : peaksOf (recFin last d) = fpk last d := by
  induction d with
  | zero => simp [recFin, peaksOf, fpk]
  | succ d ih =>
    rw [fpk_succ last d hd]
    simp [recFin, peaksOf_append, ih (by omega), peaksOf, peaksOf_recV]

theorem peaksOf_recF (last d : Nat) (hd : d + 1 ≤ last) : peaksOf (recF last (d + 1)) = fpk last d := by
  simp [recF, peaksOf_append, peaksOf, peaksOf_recFin last d (by omega)]

/-- the peak levels of the F-cycle are strictly decreasing level indices, i.e. ascend from the level next to the
    coarse level to the level below the top level, one visit each -/
theorem fpk_get (last d i : Nat) (hd : d ≤ last) (hi : i < d) : (fpk last d)[i]? = some (last - 1 - i) := by
  unfold fpk
  rw [List.getElem?_reverse (by simpa using hi)]
  simp only [List.length_range']
  rw [List.getElem?_range' (by omega)]
  congr 1
  omega

/-- closed form of the ruler sequence: it has `2^d - 1` entries -/
theorem ruler_length (last d : Nat) : (ruler last d).length = 2 ^ d - 1 := by
  induction d with
  | zero => simp [ruler]
  | succ d ih =>
    have : 0 < 2 ^ d := Nat.two_pow_pos d
    simp [ruler, ih, Nat.pow_succ]
    omega

end FeatModel.MG
