import FeatModel.Lemmas.C08Sweeps
import Mathlib.Algebra.BigOperators.Intervals
import Mathlib.Algebra.BigOperators.Ring.Finset
/-! C08: the polynomial preconditioner is the truncated Neumann series
`F Σ_{k ≤ m} (I - M⁻¹ F A)^k M⁻¹ x` with `M⁻¹ = diag(invD)` and `F` the unit filter. -/
open Finset
namespace FeatModel.Solver
open FeatModel.LA

variable {α : Type} [Field α]

/-- the iteration operator `u ↦ u - M⁻¹ F (A u)` on vectors seen as functions of the index -/
def polyOp (fidx : List Nat) (A : Csr α) (invD : Array α) (u : Nat → α) : Nat → α :=
  fun i => u i - invD.getD i 0 * (if i ∈ fidx then 0 else ∑ j ∈ range A.cols, A.entry i j * u j)

/-- `k`-th term of the Neumann series: `(I - M⁻¹ F A)^k M⁻¹ x` -/
def neumannTerm (fidx : List Nat) (A : Csr α) (invD x : Array α) : Nat → Nat → α
  | 0 => fun i => invD.getD i 0 * x.getD i 0
  | k + 1 => polyOp fidx A invD (neumannTerm fidx A invD x k)

/-- `SparseMatrixCSR::apply(r, x)` on matching sizes (the instance of `C01.csr_apply_spec` used here) -/
theorem poly_csr_apply (tiny : α → Bool) (ht0 : tiny 0 = true) (A : Csr α) (hA : A.wf = true)
    (x r : Array α) (hr : r.size = A.rows) (hx : x.size = A.cols) :
    ∃ r', A.apply tiny x r false = some r' ∧ r'.size = A.rows ∧
      ∀ i, i < A.rows → r'.getD i 0 = ∑ j ∈ range A.cols, A.entry i j * x.getD j 0 := by
  have h := (Csr.wf_iff A).mp hA
  by_cases h0 : A.usedElements = 0
  · refine ⟨Array.replicate r.size 0, by simp [Csr.apply, hr, hx, h0], by simp [hr], ?_⟩
    intro i hi
    rw [getD_replicate _ _ (by rw [hr]; exact hi)]
    simp [Csr.entry_eq_zero_of_empty h h0 hi]
  · refine ⟨A.kernel tiny 1 0 x r r true false, by simp [Csr.apply, hr, hx, h0], by simp [Csr.kernel], ?_⟩
    intro i hi
    simp only [Csr.kernel, Bool.false_eq_true, if_false]
    rw [getD_ofFn _ i hi, Csr.rowSum_eq h x hi, initR_getD _ _ _ _ _ _ _ hi]
    simp [ht0]

omit [Field α] in
theorem compProd_size [Zero α] [Mul α] (n : Nat) (d x : Array α) : (compProd n d x).size = n := by
  simp [compProd]

theorem compProd_getD (n : Nat) (d x : Array α) (i : Nat) (hi : i < n) :
    (compProd n d x).getD i 0 = d.getD i 0 * x.getD i 0 := by
  unfold compProd
  rw [getD_ofFn _ i hi]

/-- one pass of the loop: `cor ← cor + c0 - M⁻¹ F (A cor)` -/
theorem polyStep_spec (tiny : α → Bool) (ht0 : tiny 0 = true) (fidx : List Nat) (A : Csr α)
    (hA : A.wf = true) (hsq : A.rows = A.cols) (invD aux3 cor : Array α) (hc : cor.size = A.rows) :
    ∃ c', polyStep tiny fidx A invD aux3 cor = some c' ∧ c'.size = A.rows ∧
      ∀ i, i < A.rows → c'.getD i 0 = cor.getD i 0 + aux3.getD i 0
        - invD.getD i 0 * (if i ∈ fidx then 0 else ∑ j ∈ range A.cols, A.entry i j * cor.getD j 0) := by
  obtain ⟨r', h1, _, h3⟩ := poly_csr_apply tiny ht0 A hA cor (Array.replicate A.rows 0) (by simp)
    (by rw [hc, hsq])
  unfold polyStep
  rw [h1]
  refine ⟨_, rfl, by simp, ?_⟩
  intro i hi
  rw [getD_ofFn _ i hi]
  simp only
  rw [getD_ofFn _ i hi, compProd_getD _ _ _ _ hi, filterCor_getD, h3 i hi]
  ring

/-- partial Neumann sum -/
def neumannSum (fidx : List Nat) (A : Csr α) (invD x : Array α) (k : Nat) (i : Nat) : α :=
  ∑ t ∈ range (k + 1), neumannTerm fidx A invD x t i

theorem neumannSum_succ (fidx : List Nat) (A : Csr α) (invD x : Array α) (k i : Nat) :
    neumannSum fidx A invD x (k + 1) i
      = neumannSum fidx A invD x k i + invD.getD i 0 * x.getD i 0
        - invD.getD i 0 * (if i ∈ fidx then 0
            else ∑ j ∈ range A.cols, A.entry i j * neumannSum fidx A invD x k j) := by
  unfold neumannSum
  rw [Finset.sum_range_succ' _ (k + 1)]
  simp only [neumannTerm, polyOp]
  rw [Finset.sum_sub_distrib, ← Finset.mul_sum]
  by_cases hi : i ∈ fidx
  · simp [hi]
  · simp only [hi, if_false]
    have : ∑ t ∈ range (k + 1), ∑ j ∈ range A.cols, A.entry i j * neumannTerm fidx A invD x t j
        = ∑ j ∈ range A.cols, A.entry i j * ∑ t ∈ range (k + 1), neumannTerm fidx A invD x t j := by
      rw [Finset.sum_comm]
      exact Finset.sum_congr rfl (fun j _ => (Finset.mul_sum _ _ _).symm)
    rw [this]
    ring

theorem polyLoop_spec (tiny : α → Bool) (ht0 : tiny 0 = true) (fidx : List Nat) (A : Csr α)
    (hA : A.wf = true) (hsq : A.rows = A.cols) (invD x : Array α) :
    ∀ (n k : Nat) (cor : Array α), cor.size = A.rows →
      (∀ i, i < A.rows → cor.getD i 0 = neumannSum fidx A invD x k i) →
      ∃ r, polyLoop tiny fidx A invD (compProd A.rows invD x) n cor = some r ∧ r.size = A.rows ∧
        ∀ i, i < A.rows → r.getD i 0 = neumannSum fidx A invD x (k + n) i
  | 0, k, cor, hs, hv => ⟨cor, rfl, hs, hv⟩
  | n + 1, k, cor, hs, hv => by
    obtain ⟨c', h1, h2, h3⟩ := polyStep_spec tiny ht0 fidx A hA hsq invD (compProd A.rows invD x) cor hs
    obtain ⟨r, e1, e2, e3⟩ := polyLoop_spec tiny ht0 fidx A hA hsq invD x n (k + 1) c' h2 (by
      intro i hi
      rw [h3 i hi, neumannSum_succ, compProd_getD _ _ _ _ hi, hv i hi]
      congr 2
      split
      · rfl
      · exact Finset.sum_congr rfl (fun j hj => by
          rw [hv j (by rw [hsq]; exact Finset.mem_range.mp hj)]))
    refine ⟨r, ?_, e2, ?_⟩
    · rw [polyLoop, h1]
      exact e1
    · intro i hi
      rw [e3 i hi]
      congr 1
      omega

/-- `PolynomialPrecond::apply` never aborts on matching sizes and returns the filtered Neumann sum of order `m` -/
theorem polyApply_spec (tiny : α → Bool) (ht0 : tiny 0 = true) (m : Nat) (fidx : List Nat) (A : Csr α)
    (hA : A.wf = true) (hsq : A.rows = A.cols) (invD x : Array α) :
    ∃ r, polyApply tiny m fidx A invD x = some r ∧ r.size = A.rows ∧
      ∀ i, i < A.rows →
        r.getD i 0 = if i ∈ fidx then 0 else ∑ k ∈ range (m + 1), neumannTerm fidx A invD x k i := by
  obtain ⟨r, e1, e2, e3⟩ := polyLoop_spec tiny ht0 fidx A hA hsq invD x m 0 (compProd A.rows invD x)
    (compProd_size _ _ _) (by
      intro i hi
      rw [compProd_getD _ _ _ _ hi]
      simp [neumannSum, neumannTerm])
  refine ⟨filterCor fidx r, ?_, by rw [filterCor_size, e2], ?_⟩
  · unfold polyApply
    simp only
    rw [e1]
  · intro i hi
    rw [filterCor_getD, e3 i hi, Nat.zero_add]
    rfl

end FeatModel.Solver
