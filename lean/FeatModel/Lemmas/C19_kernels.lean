import FeatModel.Model.Adjacency
import FeatModel.Model.AdjKernels
import FeatModel.Lemmas.C19_walk
import FeatModel.Lemmas.C19_rowk
import FeatModel.Lemmas.C19_colk
import FeatModel.Lemmas.C19_renders
/-! C19 lemmas, group `kernels` (statements fixed by Props/C19.statements; proofs to be filled in) -/
open FeatModel.Adj

namespace C19L.kernels

/-- the eight render kernels on a lawful adjactor compute the arrays of the list-level render of the
relation the adjactor denotes -/
theorem render_adjactor (rt : Nat) (A : Adjactor) (hA : A.Lawful) (hwf : A.toGraph.wf = true) :
    Kern.render rt A = (A.toGraph.render rt).map Arrays.ofGraph := by
  have hr := fun inj => C19L.rowk.renderRows_spec A hA hwf inj
  have hc := fun inj => C19L.colk.renderCols_spec A hA hwf inj
  have hrf := hr false
  have hrt := hr true
  have hcf := hc false
  have hct := hc true
  simp only [Bool.false_eq_true, if_false, if_true] at hrf hrt hcf hct
  rcases rt with _ | _ | _ | _ | _ | _ | _ | _ | n
  · simp only [Kern.render, Graph.render, Graph.asIs, Option.map_some, hrf]
  · simp only [Kern.render, Graph.render, Graph.asIs, Option.map_some, hrf,
      C19L.rowk.sortSegments_spec]
  · simp only [Kern.render, Graph.render, Option.map_some, hrt]
  · simp only [Kern.render, Graph.render, Option.map_some, hrt, C19L.rowk.sortSegments_spec]
  · simp only [Kern.render, Graph.render, Option.map_some, hcf]
  · simp only [Kern.render, Graph.render, Option.map_some, hcf]
  · simp only [Kern.render, Graph.render, Option.map_some, hct]
  · simp only [Kern.render, Graph.render, Option.map_some, hct]
  · simp [Kern.render, Graph.render]

theorem kernel_render_eq (rt : Nat) (g : Graph) (hwf : g.wf = true) :
    Kern.render rt (Adjactor.ofGraph g) = (g.render rt).map Arrays.ofGraph := by
  obtain ⟨hA, hg, _⟩ := C19L.walk.adjactor_ofGraph_spec g
  have h := render_adjactor rt (Adjactor.ofGraph g) hA (by rw [hg]; exact hwf)
  rw [hg] at h
  exact h

theorem kernel_render2_eq (rt : Nat) (a b : Graph) (hb : b.wf = true) :
    Kern.render2 rt a b = (Graph.renderComposite rt a b).map Arrays.ofGraph := by
  obtain ⟨hA, hg, _⟩ := C19L.walk.adjactor_composite_spec a b
  have h := render_adjactor rt (Adjactor.composite a b) hA
    (by rw [hg]; exact C19L.walk.compose_wf a b hb)
  rw [hg] at h
  simp only [Kern.render2, Graph.renderComposite]
  by_cases hn : (a.nImg != b.nDom) = true
  · simp [hn]
  · simp only [hn, if_false, Bool.false_eq_true]
    exact h

end C19L.kernels
