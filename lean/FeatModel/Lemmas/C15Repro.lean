import FeatModel.Model.FEDual
import FeatModel.Lemmas.C15Poly
/-! Reproduction: on the reference cell (any checked orientation) interpolating a linear combination of the local basis
    functions returns its coefficients — from duality and the linearity of the (point-evaluation) node functionals. -/
namespace FeatModel.FE
open FeatModel.Poly

/-- the physical nodal points in the order of the global DOF numbering -/
def nodeList (f : Fam) (m : Mesh) : List (List Rat) :=
  (List.range (m.dim + 1)).flatMap fun d => (List.range (m.n d)).flatMap fun e =>
    (List.range (dpd f m d)).map fun j => nodePoint f m d e j

theorem interpolate_eq_map (f : Fam) (m : Mesh) (p : Poly) :
    interpolate f m p = (nodeList f m).map fun y => evalAt y p := by
  simp [interpolate, nodeList, List.map_flatMap, Function.comp_def]

/-- `Σ_j c_j φ_j` -/
def linComb : List Rat → List Poly → Poly
  | c :: cs, p :: ps => add (smul c p) (linComb cs ps)
  | _, _ => []

def dot : List Rat → List Rat → Rat
  | a :: as, b :: bs => a * b + dot as bs
  | _, _ => 0

theorem evalAt_linComb (y : List Rat) (c : List Rat) (φ : List Poly) :
    evalAt y (linComb c φ) = dot c (φ.map (evalAt y)) := by
  induction c generalizing φ with
  | nil => cases φ <;> simp [linComb, dot, evalAt, eval]
  | cons a as ih =>
    cases φ with
    | nil => simp [linComb, dot, evalAt, eval]
    | cons p ps =>
      have := ih ps
      simp only [evalAt] at this ⊢
      simp only [linComb, eval_add, eval_smul, List.map_cons, dot, this]
      rfl

/-- the local basis of cell 0 of the reference mesh (model of the evaluator incl. the orientation permutation) -/
def localBasis (f : Fam) (m : Mesh) (tab : BasisTab) : List Poly :=
  (List.range tab.nloc).map fun j => tab.val ((slotPerm f m 0).getD j j)

theorem reproduces {f : Fam} {k : Kind} {dim : Nat} {o : List Nat} {tab : BasisTab}
    (ht : tabOf f k dim = some tab) (h : dualOk f k dim o = true) (hpos : 0 < tab.nloc) (c : List Rat) :
    interpolate f (refMesh k dim o) (linComb c (localBasis f (refMesh k dim o) tab))
      = (List.range (numDofs f (refMesh k dim o))).map fun g =>
          dot c ((List.range tab.nloc).map fun j => if g = (localDofs f (refMesh k dim o) 0).getD j 0 then 1 else 0) := by
  simp only [dualOk, ht, Bool.and_eq_true, beq_iff_eq, List.all_eq_true, List.mem_range] at h
  obtain ⟨hn, hall⟩ := h
  have hj : ∀ j, j < tab.nloc → (nodeList f (refMesh k dim o)).map
      (fun y => evalAt y (tab.val ((slotPerm f (refMesh k dim o) 0).getD j j)))
      = (List.range (numDofs f (refMesh k dim o))).map
          fun g => if g = (localDofs f (refMesh k dim o) 0).getD j 0 then (1 : Rat) else 0 := by
    intro j hjl
    rw [← interpolate_eq_map]
    exact hall j hjl
  have hlen : (nodeList f (refMesh k dim o)).length = numDofs f (refMesh k dim o) := by
    have := congrArg List.length (hj 0 hpos)
    simpa using this
  rw [interpolate_eq_map]
  apply List.ext_getElem
  · simp [hlen]
  · intro g h1 h2
    simp only [List.getElem_map, List.getElem_range, evalAt_linComb, localBasis, List.map_map]
    congr 1
    apply List.ext_getElem
    · simp
    · intro j hj1 hj2
      simp only [List.getElem_map, List.getElem_range, Function.comp]
      have hjl : j < tab.nloc := by simpa using hj1
      have hg : g < (nodeList f (refMesh k dim o)).length := by simpa using h1
      have := congrArg (fun l => l[g]?) (hj j hjl)
      simp only [List.getElem?_map, List.getElem?_eq_getElem hg, Option.map_some] at this
      have hg2 : g < (List.range (numDofs f (refMesh k dim o))).length := by simpa [hlen] using hg
      rw [List.getElem?_eq_getElem hg2] at this
      simpa using this

end FeatModel.FE
