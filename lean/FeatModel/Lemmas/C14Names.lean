import FeatModel.Model.Cubature
import FeatModel.Gen.CubatureMeta
/-! # C14 helper lemmas about the rule-name grammar (`DynamicFactory::create`) -/
namespace FeatModel.Cub

theorem createBase_sound {pfx : Bool} : ∀ {facs : List Factory} {name : Str} {f : Factory} {n : Nat},
    createBase pfx facs name = some (f, n) → f ∈ facs ∧ f.accepts pfx name = some n
  | [], _, _, _, h => by simp [createBase] at h
  | g :: gs, name, f, n, h => by
    unfold createBase at h
    cases hg : g.accepts pfx name with
    | some k =>
      simp only [hg, Option.some.injEq, Prod.mk.injEq] at h
      obtain ⟨rfl, rfl⟩ := h
      exact ⟨List.mem_cons_self, hg⟩
    | none =>
      simp only [hg] at h
      have := createBase_sound (facs := gs) h
      exact ⟨List.mem_cons_of_mem _ this.1, this.2⟩

/-- what an accepted name looks like: after alias mapping it spells the factory's own name (trimmed, any case)
    and, for parametrised rules, a number inside the factory's range -/
def Factory.Spells (f : Factory) (name : Str) (n : Nat) : Prop :=
  if f.variadic then
    ∃ head tail, splitFirst ':' (f.aliasMap name) = some (head, tail) ∧ eqNoCase (trim head) f.name = true ∧
      parseInt (trim tail) = some (n : Int) ∧ f.minP ≤ n ∧ n ≤ f.maxP
  else eqNoCase (trim (f.aliasMap name)) f.name = true ∧ n = f.minP

theorem acceptsCore_spells {f : Factory} {name : Str} {n : Nat} (h : f.acceptsCore name = some n) :
    f.Spells name n := by
  unfold Factory.acceptsCore at h
  unfold Factory.Spells
  cases hv : f.variadic with
  | false =>
    simp only [hv, Bool.not_false, if_true] at h
    simp only [Bool.false_eq_true, if_false]
    split at h
    · rename_i he
      exact ⟨he, by simpa using h.symm⟩
    · simp at h
  | true =>
    simp only [hv, Bool.not_true, Bool.false_eq_true, if_false] at h
    simp only [if_true]
    split at h
    · simp at h
    · rename_i head tail hs
      split at h
      · rename_i he
        split at h
        · rename_i k hk
          split at h
          · rename_i hr
            simp only [Option.some.injEq] at h
            have hk0 : 0 ≤ k := by have := hr.1; omega
            have hkn : (n : Int) = k := by rw [← h]; exact Int.toNat_of_nonneg hk0
            refine ⟨head, tail, hs, he, by rw [hkn]; exact hk, ?_, ?_⟩ <;> omega
          · simp at h
        · simp at h
      · simp at h

/-- with the prefix configuration the tensor / simplex-scalar factories additionally demand their prefix -/
theorem accepts_spells {pfx : Bool} {f : Factory} {name : Str} {n : Nat} (h : f.accepts pfx name = some n) :
    ∃ core, f.Spells core n ∧
      (core = name ∨ ∃ hd tl, splitFirst ':' name = some (hd, tl) ∧ eqNoCase (trim hd) f.kind.prefixStr = true ∧
        core = trim tl) := by
  unfold Factory.accepts at h
  split at h
  · split at h
    · simp at h
    · rename_i hd tl hs
      split at h
      · rename_i he
        exact ⟨trim tl, acceptsCore_spells h, Or.inr ⟨hd, tl, hs, he, rfl⟩⟩
      · simp at h
  · exact ⟨name, acceptsCore_spells h, Or.inl rfl⟩

/-- soundness of `create`: an accepted name is the (auto-alias-mapped) spelling of a factory of the shape's list,
    possibly behind exactly one `refine[*k]:` head whose count is the number of refinements -/
theorem create_ok_sound {pfx : Bool} {s : Shape} {facs : List Factory} {name : Str} {d : Desc}
    (h : create pfx s facs name = .ok d) :
    d.fac ∈ facs ∧
      ((d.refines = 0 ∧ d.fac.accepts pfx (autoMap pfx s name) = some d.n) ∨
       (∃ inner, parseRefine (autoMap pfx s name) = some (d.refines, inner) ∧
          d.fac.accepts pfx inner = some d.n)) := by
  unfold create at h
  simp only at h
  split at h
  · rename_i f n hb
    simp only [Outcome.ok.injEq] at h
    subst h
    have := createBase_sound hb
    exact ⟨this.1, Or.inl ⟨rfl, this.2⟩⟩
  · split at h
    · simp at h
    · rename_i k inner hp
      split at h
      · rename_i f n hb
        simp only [Outcome.ok.injEq] at h
        subst h
        have := createBase_sound hb
        exact ⟨this.1, Or.inr ⟨inner, hp, this.2⟩⟩
      · simp at h

/-! ## numeric tokens: `String::parse` accepts numerals only -/

def isDigitC (c : Char) : Bool := (digitVal c).isSome

/-- optional sign (`+`, or `-` where allowed) followed by at least one decimal digit — and nothing else -/
def IsNumeral (allowMinus : Bool) (s : Str) : Prop :=
  ∃ pre ds, s = pre ++ ds ∧ (pre = [] ∨ pre = ['+'] ∨ (allowMinus = true ∧ pre = ['-'])) ∧ ds ≠ [] ∧
    ∀ c ∈ ds, isDigitC c = true

theorem takeDigits_all : ∀ (l : Str) (acc cnt v c : Nat), takeDigits l acc cnt = (v, c, []) →
    (∀ ch ∈ l, isDigitC ch = true) ∧ c = cnt + l.length
  | [], acc, cnt, v, c, h => by
    simp only [takeDigits, Prod.mk.injEq] at h
    exact ⟨by simp, by simp [h.2.1]⟩
  | ch :: cs, acc, cnt, v, c, h => by
    unfold takeDigits at h
    cases hd : digitVal ch with
    | none => simp [hd] at h
    | some d =>
      simp only [hd] at h
      have ih := takeDigits_all cs (acc * 10 + d) (cnt + 1) v c h
      refine ⟨?_, by simp [ih.2]; omega⟩
      intro x hx
      rcases List.mem_cons.1 hx with rfl | hx
      · simp [isDigitC, hd]
      · exact ih.1 x hx

theorem digits_of_takeDigits {rest : Str} {v cnt : Nat} {unread : Str}
    (ht : takeDigits rest 0 0 = (v, cnt, unread)) (hc : ¬ (cnt = 0 ∨ unread.isEmpty = false)) :
    rest ≠ [] ∧ ∀ c ∈ rest, isDigitC c = true := by
  have hu : unread = [] := by
    cases unread with
    | nil => rfl
    | cons a b => exact absurd (Or.inr rfl) hc
  subst hu
  have := takeDigits_all rest 0 0 v cnt ht
  refine ⟨?_, this.1⟩
  intro hr
  subst hr
  simp at this
  exact hc (Or.inl this)

/-- what `scanInt` (= the fixed `String::parse` for integers) accepts: the whole trimmed token is a numeral -/
theorem scanInt_numeral {s : Str} {neg : Bool} {v : Nat} (h : scanInt s = some (neg, v)) :
    ∃ pre ds, trim s = pre ++ ds ∧ ((pre = [] ∧ neg = false) ∨ (pre = ['+'] ∧ neg = false) ∨ (pre = ['-'] ∧ neg = true)) ∧
      ds ≠ [] ∧ ∀ c ∈ ds, isDigitC c = true := by
  unfold scanInt at h
  simp only at h
  split at h
  · rename_i r heq
    cases htd : takeDigits r 0 0 with
    | mk v' p =>
      cases p with
      | mk cnt unread =>
        simp only [htd, Bool.or_eq_true, decide_eq_true_eq, Bool.not_eq_true'] at h
        split at h
        · simp at h
        · rename_i hc
          simp only [Option.some.injEq, Prod.mk.injEq] at h
          have := digits_of_takeDigits htd hc
          exact ⟨['-'], r, by simpa using heq, Or.inr (Or.inr ⟨rfl, h.1.symm⟩), this.1, this.2⟩
  · rename_i r heq
    cases htd : takeDigits r 0 0 with
    | mk v' p =>
      cases p with
      | mk cnt unread =>
        simp only [htd, Bool.or_eq_true, decide_eq_true_eq, Bool.not_eq_true'] at h
        split at h
        · simp at h
        · rename_i hc
          simp only [Option.some.injEq, Prod.mk.injEq] at h
          have := digits_of_takeDigits htd hc
          exact ⟨['+'], r, by simpa using heq, Or.inr (Or.inl ⟨rfl, h.1.symm⟩), this.1, this.2⟩
  · cases htd : takeDigits (trim s) 0 0 with
    | mk v' p =>
      cases p with
      | mk cnt unread =>
        simp only [htd, Bool.or_eq_true, decide_eq_true_eq, Bool.not_eq_true'] at h
        split at h
        · simp at h
        · rename_i hc
          simp only [Option.some.injEq, Prod.mk.injEq] at h
          have := digits_of_takeDigits htd hc
          exact ⟨[], trim s, by simp, Or.inl ⟨rfl, h.1.symm⟩, this.1, this.2⟩

theorem parseInt_numeral {s : Str} {v : Int} (h : parseInt s = some v) : IsNumeral true (trim s) := by
  unfold parseInt at h
  cases hs : scanInt s with
  | none => simp [hs] at h
  | some p =>
    obtain ⟨neg, m⟩ := p
    obtain ⟨pre, ds, h1, h2, h3, h4⟩ := scanInt_numeral hs
    refine ⟨pre, ds, h1, ?_, h3, h4⟩
    rcases h2 with h2 | h2 | h2
    · exact Or.inl h2.1
    · exact Or.inr (Or.inl h2.1)
    · exact Or.inr (Or.inr ⟨rfl, h2.1⟩)

/-- unsigned parameters (refinement count, auto-degree): no minus sign either -/
theorem parseIndex_numeral {s : Str} {v : Nat} (h : parseIndex s = some v) : IsNumeral false (trim s) := by
  unfold parseIndex at h
  cases hs : scanInt s with
  | none => simp [hs] at h
  | some p =>
    obtain ⟨neg, m⟩ := p
    simp only [hs] at h
    obtain ⟨pre, ds, h1, h2, h3, h4⟩ := scanInt_numeral hs
    refine ⟨pre, ds, h1, ?_, h3, h4⟩
    rcases h2 with h2 | h2 | h2
    · exact Or.inl h2.1
    · exact Or.inr (Or.inl h2.1)
    · rw [h2.2] at h; simp at h

/-- the refinement head: without `*` one refinement, with `*` the count token must be an unsigned numeral -/
theorem parseRefine_count {m inner : Str} {k : Nat} (h : parseRefine m = some (k, inner)) :
    ∃ head tail, splitFirst ':' m = some (head, tail) ∧ inner = trim tail ∧
      ((splitFirst '*' head = none ∧ k = 1 ∧ eqNoCase (trim head) "refine".toList = true) ∨
       ∃ hd cnt, splitFirst '*' head = some (hd, cnt) ∧ parseIndex cnt = some k ∧ IsNumeral false (trim cnt) ∧
         eqNoCase (trim hd) "refine".toList = true) := by
  unfold parseRefine at h
  split at h
  · simp at h
  · rename_i head tail hs
    refine ⟨head, tail, hs, ?_⟩
    cases hst : splitFirst '*' head with
    | none =>
      simp only [hst] at h
      split at h
      · rename_i he
        simp only [Option.some.injEq, Prod.mk.injEq] at h
        exact ⟨h.2.symm, Or.inl ⟨rfl, h.1.symm, he⟩⟩
      · simp at h
    | some p =>
      obtain ⟨hd, cnt⟩ := p
      simp only [hst] at h
      cases hpi : parseIndex cnt with
      | none => simp [hpi] at h
      | some k' =>
        simp only [hpi, Option.map_some] at h
        split at h
        · rename_i he
          simp only [Option.some.injEq, Prod.mk.injEq] at h
          obtain ⟨rfl, rfl⟩ := h
          exact ⟨rfl, Or.inr ⟨hd, cnt, rfl, hpi, parseIndex_numeral hpi, he⟩⟩
        · simp at h

/-! ## finite checks over the generated factory lists (kernel evaluation) -/

/-- every canonical rule name `name[:n]` resolves to exactly that factory, that `n`, un-refined -/
def canonResolves (pfx : Bool) (s : Shape) : Bool :=
  (Gen.factoriesOf s).all fun f => (List.range (f.maxP - f.minP + 1)).all fun i =>
    let n := f.minP + i
    match create pfx s (Gen.factoriesOf s) (f.ruleName pfx n) with
    | .ok d => d.fac.name == f.name && decide (d.fac.kind = f.kind) && d.n == n && d.refines == 0
    | _ => false

/-- the hand-written `autoChoose` reproduces what the real `AutoAlias::map("auto-degree:d")` returned in the dump -/
def autoMatchesDump (s : Shape) : Bool :=
  (Gen.autoOf s).all fun p => autoChoose Gen.prefixConfig s p.1 == p.2

/-- `auto-degree:d`, `d ≤ max_auto_degree`, names an existing rule of nominal degree ≥ d -/
def autoSufficient (s : Shape) : Bool :=
  (List.range (Gen.maxAutoOf s + 1)).all fun d =>
    match createBase false (Gen.factoriesOf s) (autoChoose false s d) with
    | some (f, n) =>
      (match nominal f.name n with
       | some k => decide (d ≤ k)
       | none => false)
    | none => false

def allShapes : List Shape := [.s1, .s2, .s3, .h1, .h2, .h3]

theorem canonResolves_all : (allShapes.all fun s => canonResolves false s && canonResolves true s) = true := by
  decide +kernel

theorem autoMatchesDump_all : allShapes.all autoMatchesDump = true := by decide +kernel

theorem autoSufficient_all : allShapes.all autoSufficient = true := by decide +kernel

/-- every generated factory advertises a non-empty range (fixed-size rules: min = max = number of points) -/
theorem factoryRanges_all :
    (allShapes.all fun s => (Gen.factoriesOf s).all fun f => decide (f.minP ≤ f.maxP)) = true := by decide +kernel

/-- an accepted spelling carries a count inside the factory's range -/
theorem Factory.Spells.range {f : Factory} {name : Str} {n : Nat} (h : f.Spells name n) (hf : f.minP ≤ f.maxP) :
    f.minP ≤ n ∧ n ≤ f.maxP := by
  unfold Factory.Spells at h
  split at h
  · obtain ⟨_, _, _, _, _, h1, h2⟩ := h
    exact ⟨h1, h2⟩
  · obtain ⟨_, rfl⟩ := h
    exact ⟨Nat.le_refl _, hf⟩

/-! ## the auto-degree alias is a total function onto existing rules -/

/-- every name `AutoDegree::choose` can return, for ANY requested degree, is one of its values on 0..40 -/
def autoTargets (pfx : Bool) (s : Shape) : List Str := (List.range 41).map (autoChoose pfx s)

theorem autoChoose_gl_clamp (pfx : Bool) (pre : String) (d : Nat) :
    ((if pfx then pre.toList else []) ++ "gauss-legendre:".toList ++ natStr (min (max (d / 2 + 1) 1) 20)) =
    ((if pfx then pre.toList else []) ++ "gauss-legendre:".toList ++ natStr (min (max (min d 38 / 2 + 1) 1) 20)) := by
  have : min (max (d / 2 + 1) 1) 20 = min (max (min d 38 / 2 + 1) 1) 20 := by omega
  rw [this]

theorem autoChoose_mem_targets (pfx : Bool) (s : Shape) (d : Nat) : autoChoose pfx s d ∈ autoTargets pfx s := by
  unfold autoTargets
  cases s
  · exact List.mem_map.2 ⟨min d 38, List.mem_range.2 (by omega), (autoChoose_gl_clamp pfx "scalar:" d).symm⟩
  · -- triangles: the result only depends on the 32-bit value of the degree
    show (match toInt32 d with
      | 0 | 1 => "barycentre".toList
      | 2 => "dunavant:".toList ++ natStr 2
      | 3 | 4 => "dunavant:".toList ++ natStr 4
      | 5 => "dunavant:".toList ++ natStr 5
      | 6 => "dunavant:".toList ++ natStr 6
      | 7 | 8 => "dunavant:".toList ++ natStr 8
      | 9 => "dunavant:".toList ++ natStr 9
      | 10 => "dunavant:".toList ++ natStr 10
      | 11 | 12 => "dunavant:".toList ++ natStr 12
      | 13 => "dunavant:".toList ++ natStr 13
      | 14 => "dunavant:".toList ++ natStr 14
      | 15 | 16 | 17 => "dunavant:".toList ++ natStr 17
      | _ => "dunavant:".toList ++ natStr 19) ∈ _
    split <;> (cases pfx <;> decide +kernel)
  · -- tetrahedra
    have h : autoChoose pfx .s3 d = autoChoose pfx .s3 (min d 8) := by
      unfold autoChoose
      simp only
      by_cases h1 : d ≤ 1
      · have : min d 8 = d := by omega
        rw [this]
      · by_cases h2 : d ≤ 2
        · have : min d 8 = d := by omega
          rw [this]
        · by_cases h3 : d ≤ 3
          · have : min d 8 = d := by omega
            rw [this]
          · by_cases h5 : d ≤ 5
            · have : min d 8 = d := by omega
              rw [this]
            · by_cases h7 : d ≤ 7
              · have : min d 8 = d := by omega
                rw [this]
              · have a1 : ¬ min d 8 ≤ 1 := by omega
                have a2 : ¬ min d 8 ≤ 2 := by omega
                have a3 : ¬ min d 8 ≤ 3 := by omega
                have a5 : ¬ min d 8 ≤ 5 := by omega
                have a7 : ¬ min d 8 ≤ 7 := by omega
                simp only [h1, h2, h3, h5, h7, a1, a2, a3, a5, a7, if_false]
    rw [h]
    exact List.mem_map.2 ⟨min d 8, List.mem_range.2 (by omega), rfl⟩
  · exact List.mem_map.2 ⟨min d 38, List.mem_range.2 (by omega), (autoChoose_gl_clamp pfx "tensor:" d).symm⟩
  · exact List.mem_map.2 ⟨min d 38, List.mem_range.2 (by omega), (autoChoose_gl_clamp pfx "tensor:" d).symm⟩
  · exact List.mem_map.2 ⟨min d 38, List.mem_range.2 (by omega), (autoChoose_gl_clamp pfx "tensor:" d).symm⟩

/-- every possible auto-degree target is an existing rule of the shape, in both configurations -/
def autoTargetsExist (pfx : Bool) (s : Shape) : Bool :=
  (autoTargets pfx s).all fun nm =>
    match createBase pfx (Gen.factoriesOf s) nm with
    | some (f, n) => (nominal f.name n).isSome
    | none => false

theorem autoTargetsExist_all :
    (allShapes.all fun s => autoTargetsExist false s && autoTargetsExist true s) = true := by decide +kernel

theorem mem_allShapes (s : Shape) : s ∈ allShapes := by cases s <;> simp [allShapes]

end FeatModel.Cub
