import FeatModel.Lemmas.C12Iter
/-! C12: general facts about the PartiIterative core model (sizes, the per-cell view of the assignment loop). -/
namespace FeatModel.Parti
open FeatModel.Adj

theorem relaxNeighbors_size (nbrs : List Int) (node : Nat) : ∀ (st : Array Nat × PQ),
    (relaxNeighbors nbrs node st).1.size = st.1.size := by
  unfold relaxNeighbors
  induction nbrs with
  | nil => intro st; rfl
  | cons o os ih =>
    intro st
    simp only [List.foldl_cons]
    rw [ih]
    split
    · rfl
    · split
      · rfl
      · split <;> simp

theorem distLoop_size (nb : List (List Int)) (thr : Nat) : ∀ (fuel : Nat) (st : Array Nat × PQ),
    (distLoop nb thr fuel st).size = st.1.size
  | 0, st => rfl
  | fuel + 1, st => by
    unfold distLoop
    split
    · rfl
    · simp only
      split
      · rfl
      · rw [distLoop_size nb thr fuel, relaxNeighbors_size]

theorem iterDistance_length (nb : List (List Int)) (n thr start : Nat) :
    (iterDistance nb n thr start).length = n := by
  unfold iterDistance
  simp [distLoop_size]

/-- what the loop over the centres does to ONE cell `i` -/
def cellStep (nb : List (List Int)) (n thr i : Nat) (it : Nat × Option Nat) (cp : Nat × Nat) : Nat × Option Nat :=
  if (iterDistance nb n thr cp.1).getD i 0 < it.1 then ((iterDistance nb n thr cp.1).getD i 0, some cp.2) else it

theorem zip_map_range {α β : Type} (n : Nat) (h : Nat → α) (dl : List Nat) (f : α × Nat → β) (hl : dl.length = n) :
    (((List.range n).map h).zip dl).map f = (List.range n).map (fun i => f (h i, dl.getD i 0)) := by
  apply List.ext_getElem
  · simp [hl]
  · intro i h1 h2
    simp only [List.length_map, List.length_range] at h2
    simp [List.getD, hl, h2]

theorem assign_fold_eq (nb : List (List Int)) (n thr : Nat) : ∀ (cs : List (Nat × Nat)) (h : Nat → Nat × Option Nat),
    cs.foldl (fun items (cp : Nat × Nat) =>
        let dl := iterDistance nb n thr cp.1
        (items.zip dl).map fun (x : (Nat × Option Nat) × Nat) =>
          if x.2 < x.1.1 then (x.2, some cp.2) else (x.1.1, x.1.2))
      ((List.range n).map h) =
    (List.range n).map (fun i => cs.foldl (cellStep nb n thr i) (h i))
  | [], h => by simp
  | cp :: cs, h => by
    simp only [List.foldl_cons]
    rw [zip_map_range n h _ _ (iterDistance_length nb n thr cp.1)]
    rw [assign_fold_eq nb n thr cs]
    apply List.map_congr_left
    intro i _
    congr 1

/-- per-cell view of `assignItems` -/
theorem assignItems_eq (nb : List (List Int)) (n thr : Nat) (centres : List Nat) :
    assignItems nb n thr centres =
      (List.range n).map (fun i => centres.zipIdx.foldl (cellStep nb n thr i) (idxMax, none)) := by
  unfold assignItems
  exact assign_fold_eq nb n thr centres.zipIdx (fun _ => (idxMax, none))

end FeatModel.Parti

namespace FeatModel.Parti

/-- a cell stays without patch exactly while no processed centre has a distance below `Index(max)` to it -/
theorem cell_fold_none (nb : List (List Int)) (n thr i : Nat) : ∀ (cs : List (Nat × Nat)) (it : Nat × Option Nat),
    (it.2 = none → it.1 = idxMax) →
    ((cs.foldl (cellStep nb n thr i) it).2 = none ↔
        it.2 = none ∧ ∀ cp ∈ cs, ¬ (iterDistance nb n thr cp.1).getD i 0 < idxMax) ∧
      ((cs.foldl (cellStep nb n thr i) it).2 = none → (cs.foldl (cellStep nb n thr i) it).1 = idxMax)
  | [], it, h => by simp; exact h
  | cp :: cs, it, h => by
    simp only [List.foldl_cons, List.mem_cons, forall_eq_or_imp]
    by_cases hlt : (iterDistance nb n thr cp.1).getD i 0 < it.1
    · have hstep : cellStep nb n thr i it cp = ((iterDistance nb n thr cp.1).getD i 0, some cp.2) := by
        unfold cellStep; rw [if_pos hlt]
      have ih := cell_fold_none nb n thr i cs (cellStep nb n thr i it cp) (by rw [hstep]; simp)
      rw [hstep] at ih ⊢
      refine ⟨⟨fun hn => absurd (ih.1.1 hn).1 (by simp), ?_⟩, ih.2⟩
      rintro ⟨hnone, hcp, _⟩
      have := h hnone
      rw [this] at hlt
      exact absurd hlt hcp
    · have hstep : cellStep nb n thr i it cp = it := by unfold cellStep; rw [if_neg hlt]
      have ih := cell_fold_none nb n thr i cs it h
      rw [hstep]
      refine ⟨⟨fun hn => ?_, ?_⟩, ih.2⟩
      · obtain ⟨h1, h2⟩ := ih.1.1 hn
        refine ⟨h1, ?_, h2⟩
        rw [← h h1]; exact hlt
      · rintro ⟨h1, _, h2⟩
        exact ih.1.2 ⟨h1, h2⟩

theorem mem_zipIdx_of_mem (l : List Nat) (c : Nat) (h : c ∈ l) : ∃ k, (c, k) ∈ l.zipIdx := by
  obtain ⟨k, hk, rfl⟩ := List.getElem_of_mem h
  exact ⟨k, List.mem_zipIdx_iff_getElem?.mpr (by simp [hk])⟩

theorem fst_mem_of_mem_zipIdx' : ∀ (l : List Nat) (k : Nat) (x : Nat × Nat), x ∈ l.zipIdx k → x.1 ∈ l
  | [], _, _, h => by simp at h
  | a :: as, k, x, h => by
    simp only [List.zipIdx_cons, List.mem_cons] at h
    rcases h with rfl | h
    · simp
    · exact List.mem_cons_of_mem _ (fst_mem_of_mem_zipIdx' as (k + 1) x h)

/-- **precondition of finding F1, in general**: cell `i` keeps an uninitialised patch index exactly when its distance
from EVERY centre is `Index(max)` (beyond the exploration threshold of all centres / in a component without centre) -/
theorem mem_unassigned_iff (nb : List (List Int)) (n thr : Nat) (centres : List Nat) (i : Nat) :
    i ∈ unassigned (assignItems nb n thr centres) ↔
      i < n ∧ ∀ c ∈ centres, ¬ (iterDistance nb n thr c).getD i 0 < idxMax := by
  rw [assignItems_eq]
  unfold unassigned
  simp only [List.mem_filterMap, Prod.exists, List.mem_zipIdx_iff_getElem?, List.getElem?_map]
  have key := fun (hi : i < n) => (cell_fold_none nb n thr i centres.zipIdx (idxMax, none) (fun _ => rfl)).1
  constructor
  · rintro ⟨d, pp, j, hget, hsome⟩
    by_cases hp : pp.isNone = true
    · rw [if_pos hp, Option.some.injEq] at hsome
      subst hsome
      by_cases hj : j < n
      · rw [List.getElem?_range hj, Option.map_some, Option.some.injEq] at hget
        have hnone : (centres.zipIdx.foldl (cellStep nb n thr j) (idxMax, none)).2 = none := by
          rw [hget]; simpa using hp
        refine ⟨hj, fun c hc => ?_⟩
        obtain ⟨k, hk⟩ := mem_zipIdx_of_mem centres c hc
        exact ((key hj).1 hnone).2 (c, k) hk
      · rw [List.getElem?_eq_none (by simp; omega)] at hget
        simp at hget
    · rw [if_neg hp] at hsome
      simp at hsome
  · rintro ⟨hi, hall⟩
    have hnone := (key hi).2 ⟨rfl, fun cp hcp => hall cp.1 (fst_mem_of_mem_zipIdx' centres 0 cp hcp)⟩
    refine ⟨(centres.zipIdx.foldl (cellStep nb n thr i) (idxMax, none)).1,
      (centres.zipIdx.foldl (cellStep nb n thr i) (idxMax, none)).2, i, ?_, ?_⟩
    · rw [List.getElem?_range hi, Option.map_some]
    · simp [hnone]

end FeatModel.Parti

namespace FeatModel.Parti
open FeatModel.Adj

theorem mem_insertSorted (x y : Nat) : ∀ l : List Nat, y ∈ Graph.insertSorted x l ↔ y = x ∨ y ∈ l
  | [] => by simp [Graph.insertSorted]
  | z :: zs => by
    unfold Graph.insertSorted
    split
    · simp
    · simp only [List.mem_cons, mem_insertSorted x y zs]
      constructor
      · rintro (h | h | h)
        · exact Or.inr (Or.inl h)
        · exact Or.inl h
        · exact Or.inr (Or.inr h)
      · rintro (h | h | h)
        · exact Or.inr (Or.inl h)
        · exact Or.inl h
        · exact Or.inr (Or.inr h)

theorem mem_sortList (y : Nat) : ∀ l : List Nat, y ∈ Graph.sortList l ↔ y ∈ l
  | [] => by simp [Graph.sortList]
  | x :: xs => by
    simp only [Graph.sortList, mem_insertSorted, mem_sortList y xs, List.mem_cons]

end FeatModel.Parti
