import FeatModel.Lemmas.C04
import FeatModel.Lemmas.C04Sparse
import Mathlib.Data.List.Range
import Mathlib.Data.List.Perm.Subperm
/-! the fixed sparse min/max members (scan of the stored scalars + implicit zeros) equal the dense kernels on
the denoted vector -/
namespace FeatModel.Vec
open SVec

variable {β : Type}

/-! ### more about `lookupLast` on strictly sorted entries -/

theorem lookupLast_mem (l : List (Nat × β)) (i : Nat) (v : β) (h : lookupLast l i = some v) : (i, v) ∈ l := by
  induction l with
  | nil => simp [lookupLast] at h
  | cons p t ih =>
    obtain ⟨k, w⟩ := p
    simp only [lookupLast] at h
    cases ht : lookupLast t i with
    | some u =>
      rw [ht] at h
      simp only [Option.some_or, Option.some.injEq] at h
      subst h
      exact List.mem_cons_of_mem _ (ih ht)
    | none =>
      rw [ht] at h
      simp only [Option.none_or] at h
      by_cases hk : k = i
      · simp only [hk, if_true, Option.some.injEq] at h
        subst h; subst hk; simp
      · simp [hk] at h

theorem lookupLast_of_mem_strict (l : List (Nat × β)) (hs : (keys l).Pairwise (· < ·)) (i : Nat) (v : β)
    (h : (i, v) ∈ l) : lookupLast l i = some v := by
  induction l with
  | nil => simp at h
  | cons p t ih =>
    obtain ⟨k, w⟩ := p
    simp only [keys, List.map_cons, List.pairwise_cons] at hs
    rcases List.mem_cons.mp h with h | h
    · obtain ⟨rfl, rfl⟩ := Prod.mk.inj h
      have hn : lookupLast t i = none := by
        apply lookupLast_eq_none
        intro q hq
        have := hs.1 q.1 (List.mem_map.mpr ⟨q, hq, rfl⟩)
        omega
      simp [lookupLast, hn]
    · simp [lookupLast, ih hs.2 h]

/-! ### pigeonhole on duplicate-free index lists -/

theorem nodup_length_le (l : List Nat) (n : Nat) (hd : l.Nodup) (hl : ∀ a ∈ l, a < n) : l.length ≤ n := by
  have hsub : l ⊆ List.range n := fun a ha => List.mem_range.mpr (hl a ha)
  simpa using (List.subperm_of_subset hd hsub).length_le

theorem exists_missing (l : List Nat) (n : Nat) (h : l.length < n) : ∃ i, i < n ∧ i ∉ l := by
  by_contra hc
  have hall : ∀ i, i < n → i ∈ l := by
    intro i hi
    by_contra hni
    exact hc ⟨i, hi, hni⟩
  have hsub : List.range n ⊆ l := fun a ha => hall a (List.mem_range.mp ha)
  have := (List.subperm_of_subset List.nodup_range hsub).length_le
  simp at this
  omega

theorem all_present (l : List Nat) (n : Nat) (hd : l.Nodup) (hl : ∀ a ∈ l, a < n) (h : l.length = n) :
    ∀ i, i < n → i ∈ l := by
  intro i hi
  have hsub : l ⊆ List.range n := fun a ha => List.mem_range.mpr (hl a ha)
  have hp : l.Perm (List.range n) :=
    (List.subperm_of_subset hd hsub).perm_of_length_le (by simp [h])
  exact hp.mem_iff.mpr (List.mem_range.mpr hi)

/-! ### uniqueness of an attained bound -/

theorem IsExt_unique {α : Type} (le : α → α → Prop) (hanti : ∀ a b, le a b → le b a → a = b) (key : α → α)
    (l : List α) (a b : α) (ha : IsExt le key l a) (hb : IsExt le key l b) : a = b := by
  obtain ⟨ha1, ua, hua, rfl⟩ := ha
  obtain ⟨hb1, ub, hub, rfl⟩ := hb
  exact hanti _ _ (hb1 ua hua) (ha1 ub hub)

/-! ### the core statement on entry lists -/
section Core
set_option linter.unusedSectionVars false
variable {α : Type} [AddCommGroup α] [LinearOrder α] [IsOrderedAddMonoid α]

/-- the denoted dense vector, flattened to scalars -/
def denseFlat (flat : β → List α) (zero : β) (size : Nat) (E : List (Nat × β)) : List α :=
  ((List.range size).map fun i => flat ((lookupLast E i).getD zero)).flatten

/-- the stored scalars -/
def storedFlat (flat : β → List α) (E : List (Nat × β)) : List α := (E.map fun p => flat p.2).flatten

structure CoreHyp (flat : β → List α) (zero : β) (size : Nat) (E : List (Nat × β)) : Prop where
  size_pos : 0 < size
  z_ne : flat zero ≠ []
  z_zero : ∀ x ∈ flat zero, x = 0
  strict : (keys E).Pairwise (· < ·)
  key_lt : ∀ p ∈ E, p.1 < size
  val_ne : ∀ p ∈ E, flat p.2 ≠ []

variable {flat : β → List α} {zero : β} {size : Nat} {E : List (Nat × β)}

theorem mem_denseFlat (v : α) :
    v ∈ denseFlat flat zero size E ↔ ∃ i, i < size ∧ v ∈ flat ((lookupLast E i).getD zero) := by
  simp only [denseFlat, List.mem_flatten, List.mem_map, List.mem_range]
  constructor
  · rintro ⟨l, ⟨i, hi, rfl⟩, hv⟩; exact ⟨i, hi, hv⟩
  · rintro ⟨i, hi, hv⟩; exact ⟨_, ⟨i, hi, rfl⟩, hv⟩

theorem mem_storedFlat (v : α) : v ∈ storedFlat flat E ↔ ∃ p ∈ E, v ∈ flat p.2 := by
  simp only [storedFlat, List.mem_flatten, List.mem_map]
  constructor
  · rintro ⟨l, ⟨p, hp, rfl⟩, hv⟩; exact ⟨p, hp, hv⟩
  · rintro ⟨p, hp, hv⟩; exact ⟨_, ⟨p, hp, rfl⟩, hv⟩

theorem keys_nodup (H : CoreHyp flat zero size E) : (keys E).Nodup :=
  H.strict.imp (fun h => Nat.ne_of_lt h)

theorem length_le_size (H : CoreHyp flat zero size E) : E.length ≤ size := by
  have := nodup_length_le (keys E) size (keys_nodup H) (by
    intro a ha
    obtain ⟨p, hp, rfl⟩ := List.mem_map.mp ha
    exact H.key_lt p hp)
  simpa [keys] using this

theorem stored_sub_dense (H : CoreHyp flat zero size E) (v : α) (hv : v ∈ storedFlat flat E) :
    v ∈ denseFlat flat zero size E := by
  obtain ⟨⟨k, val⟩, hp, hv⟩ := (mem_storedFlat v).mp hv
  refine (mem_denseFlat v).mpr ⟨k, H.key_lt _ hp, ?_⟩
  rw [lookupLast_of_mem_strict E H.strict k val hp]
  exact hv

theorem dense_cases (H : CoreHyp flat zero size E) (v : α) (hv : v ∈ denseFlat flat zero size E) :
    v ∈ storedFlat flat E ∨ (v = 0 ∧ E.length < size) := by
  obtain ⟨i, hi, hv⟩ := (mem_denseFlat v).mp hv
  cases hl : lookupLast E i with
  | some val =>
    left
    rw [hl] at hv
    exact (mem_storedFlat v).mpr ⟨(i, val), lookupLast_mem E i val hl, hv⟩
  | none =>
    right
    rw [hl] at hv
    refine ⟨H.z_zero v hv, ?_⟩
    have hle := length_le_size H
    by_contra hc
    have heq : (keys E).length = size := by simp [keys]; omega
    have hmem := all_present (keys E) size (keys_nodup H) (by
      intro a ha
      obtain ⟨p, hp, rfl⟩ := List.mem_map.mp ha
      exact H.key_lt p hp) heq i hi
    obtain ⟨p, hp, hpi⟩ := List.mem_map.mp hmem
    have := (lookupLast_isSome E i).mpr ⟨p, hp, hpi⟩
    rw [hl] at this
    simp at this

theorem zero_mem_dense (H : CoreHyp flat zero size E) (h : E.length < size) : (0 : α) ∈ denseFlat flat zero size E := by
  obtain ⟨i, hi, hni⟩ := exists_missing (keys E) size (by simpa [keys] using h)
  have hl : lookupLast E i = none := by
    apply lookupLast_eq_none
    intro p hp hpi
    exact hni (List.mem_map.mpr ⟨p, hp, hpi⟩)
  obtain ⟨x, t, hx⟩ := List.exists_cons_of_ne_nil H.z_ne
  have hx0 : x = 0 := H.z_zero x (by rw [hx]; simp)
  refine (mem_denseFlat 0).mpr ⟨i, hi, ?_⟩
  rw [hl]
  simp only [Option.getD_none, hx, ← hx0]
  simp

theorem dense_ne_nil (H : CoreHyp flat zero size E) : denseFlat flat zero size E ≠ [] := by
  by_cases h : E.length < size
  · intro e
    have := zero_mem_dense H h
    rw [e] at this
    simp at this
  · have hle := length_le_size H
    have hpos : 0 < E.length := by have := H.size_pos; omega
    obtain ⟨p, t, hp⟩ := List.exists_cons_of_ne_nil (List.ne_nil_of_length_pos hpos)
    obtain ⟨x, u, hx⟩ := List.exists_cons_of_ne_nil (H.val_ne p (by rw [hp]; simp))
    have : x ∈ storedFlat flat E := (mem_storedFlat x).mpr ⟨p, by rw [hp]; simp, by rw [hx]; simp⟩
    intro e
    have h2 := stored_sub_dense H x this
    rw [e] at h2
    simp at h2

theorem stored_ne_nil (H : CoreHyp flat zero size E) (h : 0 < E.length) : storedFlat flat E ≠ [] := by
  obtain ⟨p, t, hp⟩ := List.exists_cons_of_ne_nil (List.ne_nil_of_length_pos h)
  obtain ⟨x, u, hx⟩ := List.exists_cons_of_ne_nil (H.val_ne p (by rw [hp]; simp))
  have : x ∈ storedFlat flat E := (mem_storedFlat x).mpr ⟨p, by rw [hp]; simp, by rw [hx]; simp⟩
  intro e
  rw [e] at this
  simp at this

theorem stored_nil_of_length_zero (h : E.length = 0) : storedFlat flat E = [] := by
  have : E = [] := List.length_eq_zero_iff.mp h
  simp [storedFlat, this]

/-- a leaf kernel returns `some` on a non-empty list -/
theorem leaf_some (kind : ExtKind) (l : List α) (h : l ≠ []) : ∃ m, kind.leaf l = some m := by
  have he : l.isEmpty = false := by cases l <;> simp_all
  cases kind <;> simp [ExtKind.leaf, maxAbsElemK, minAbsElemK, maxElemK, minElemK, he]

/-- the specification each kind meets on any list (from the dense-kernel lemmas) -/
def ExtKind.le : ExtKind → α → α → Prop
  | .maxAbs => (· ≤ ·) | .max => (· ≤ ·)
  | .minAbs => fun u w => w ≤ u | .min => fun u w => w ≤ u
def ExtKind.key : ExtKind → α → α
  | .maxAbs => absK | .minAbs => absK
  | .max => id | .min => id

theorem leaf_spec (kind : ExtKind) (l : List α) (m : α) (h : kind.leaf l = some m) :
    IsExt (ExtKind.le kind) (ExtKind.key kind) l m := by
  cases kind
  · exact maxAbsElemK_spec l m h
  · exact minAbsElemK_spec l m h
  · exact maxElemK_spec l m h
  · exact minElemK_spec l m h

theorem le_anti (kind : ExtKind) (a b : α) (h1 : ExtKind.le kind a b) (h2 : ExtKind.le kind b a) : a = b := by
  cases kind <;> simp only [ExtKind.le] at h1 h2
  · exact le_antisymm h1 h2
  · exact le_antisymm h2 h1
  · exact le_antisymm h1 h2
  · exact le_antisymm h2 h1

theorem absK_zero : absK (0 : α) = 0 := by simp [absK]

/-- the value the fixed member computes is an attained bound of the denoted dense vector -/
theorem extremeValue_isExt (kind : ExtKind) (H : CoreHyp flat zero size E) (w : Nat) (hw : 0 < w) :
    IsExt (ExtKind.le kind) (ExtKind.key kind) (denseFlat flat zero size E)
      (extremeValue kind (E.length * w) (size * w) (storedFlat flat E)) := by
  have hle := length_le_size H
  have hpos : (0 < E.length * w) ↔ 0 < E.length := by
    constructor
    · intro h; exact Nat.pos_of_mul_pos_right h |> fun _ => by
        by_contra hc; have : E.length = 0 := by omega
        rw [this] at h; simp at h
    · intro h; exact Nat.mul_pos h hw
  have heq : (E.length * w = size * w) ↔ E.length = size :=
    ⟨fun h => Nat.eq_of_mul_eq_mul_right hw h, fun h => by rw [h]⟩
  have hlt : (E.length * w < size * w) ↔ E.length < size :=
    ⟨fun h => Nat.lt_of_mul_lt_mul_right h, fun h => Nat.mul_lt_mul_of_pos_right h hw⟩
  by_cases hu : 0 < E.length
  · -- some stored entries
    have hsne := stored_ne_nil H hu
    obtain ⟨m, hm⟩ := leaf_some kind (storedFlat flat E) hsne
    have hsp := leaf_spec kind _ m hm
    obtain ⟨hb, u, hu1, hu2⟩ := hsp
    cases kind with
    | maxAbs =>
      simp only [ExtKind.leaf] at hm
      simp only [extremeValue, hpos.mpr hu, if_true, hm, Option.getD_some, ExtKind.le, ExtKind.key] at hb hu2 ⊢
      refine ⟨fun v hv => ?_, u, stored_sub_dense H u hu1, hu2⟩
      rcases dense_cases H v hv with h | ⟨rfl, _⟩
      · exact hb v h
      · rw [absK_zero, hu2, absK_eq_abs]; exact abs_nonneg _
    | minAbs =>
      simp only [ExtKind.leaf] at hm
      simp only [ExtKind.le, ExtKind.key] at hb hu2 ⊢
      by_cases hfull : E.length = size
      · have hc : 0 < E.length * w ∧ E.length * w = size * w := ⟨hpos.mpr hu, heq.mpr hfull⟩
        simp only [extremeValue]
        rw [if_pos hc, hm, Option.getD_some]
        refine ⟨fun v hv => ?_, u, stored_sub_dense H u hu1, hu2⟩
        rcases dense_cases H v hv with h | ⟨_, hlt'⟩
        · exact hb v h
        · omega
      · have hn : ¬ (0 < E.length * w ∧ E.length * w = size * w) := fun h => hfull (heq.mp h.2)
        simp only [extremeValue, hn, if_false]
        have hlt' : E.length < size := by omega
        refine ⟨fun v _ => ?_, 0, zero_mem_dense H hlt', absK_zero.symm⟩
        rw [absK_eq_abs]; exact abs_nonneg _
    | max =>
      simp only [ExtKind.leaf] at hm
      simp only [ExtKind.le, ExtKind.key, id] at hb hu2 ⊢
      simp only [extremeValue, hpos.mpr hu, if_true, hm, Option.getD_some]
      by_cases hc : E.length * w < size * w ∧ m < 0
      · simp only [hc, and_self, if_true]
        have hlt' := hlt.mp hc.1
        refine ⟨fun v hv => ?_, 0, zero_mem_dense H hlt', rfl⟩
        rcases dense_cases H v hv with h | ⟨rfl, _⟩
        · exact le_of_lt (lt_of_le_of_lt (hb v h) hc.2)
        · exact le_refl _
      · simp only [hc, if_false]
        refine ⟨fun v hv => ?_, u, stored_sub_dense H u hu1, hu2⟩
        rcases dense_cases H v hv with h | ⟨rfl, hlt'⟩
        · exact hb v h
        · have : ¬ m < 0 := fun hm0 => hc ⟨hlt.mpr hlt', hm0⟩
          exact not_lt.mp this
    | min =>
      simp only [ExtKind.leaf] at hm
      simp only [ExtKind.le, ExtKind.key, id] at hb hu2 ⊢
      simp only [extremeValue, hpos.mpr hu, if_true, hm, Option.getD_some]
      by_cases hc : E.length * w < size * w ∧ 0 < m
      · simp only [hc, and_self, if_true]
        have hlt' := hlt.mp hc.1
        refine ⟨fun v hv => ?_, 0, zero_mem_dense H hlt', rfl⟩
        rcases dense_cases H v hv with h | ⟨rfl, _⟩
        · exact le_of_lt (lt_of_lt_of_le hc.2 (hb v h))
        · exact le_refl _
      · simp only [hc, if_false]
        refine ⟨fun v hv => ?_, u, stored_sub_dense H u hu1, hu2⟩
        rcases dense_cases H v hv with h | ⟨rfl, hlt'⟩
        · exact hb v h
        · have : ¬ 0 < m := fun hm0 => hc ⟨hlt.mpr hlt', hm0⟩
          exact not_lt.mp this
  · -- no stored entry: the result is 0 and the denoted vector is all zero
    have h0 : E.length = 0 := by omega
    have hlt' : E.length < size := by have := H.size_pos; omega
    have hn : ¬ 0 < E.length * w := by rw [h0]; simp
    have hall : ∀ v ∈ denseFlat flat zero size E, v = 0 := by
      intro v hv
      rcases dense_cases H v hv with h | ⟨h, _⟩
      · rw [stored_nil_of_length_zero h0] at h; simp at h
      · exact h
    have hval : extremeValue kind (E.length * w) (size * w) (storedFlat flat E) = 0 := by
      cases kind <;> simp [extremeValue, hn]
    rw [hval]
    cases kind <;> simp only [ExtKind.le, ExtKind.key, id]
    · exact ⟨fun v hv => by rw [hall v hv, absK_zero], 0, zero_mem_dense H hlt', absK_zero.symm⟩
    · exact ⟨fun v hv => by rw [hall v hv, absK_zero], 0, zero_mem_dense H hlt', absK_zero.symm⟩
    · exact ⟨fun v hv => by rw [hall v hv]; exact le_refl (0 : α), 0, zero_mem_dense H hlt', rfl⟩
    · exact ⟨fun v hv => by rw [hall v hv]; exact le_refl (0 : α), 0, zero_mem_dense H hlt', rfl⟩

/-- hence the dense kernel on the denoted vector returns exactly that value -/
theorem leaf_dense_eq (kind : ExtKind) (H : CoreHyp flat zero size E) (w : Nat) (hw : 0 < w) :
    kind.leaf (denseFlat flat zero size E) =
      some (extremeValue kind (E.length * w) (size * w) (storedFlat flat E)) := by
  obtain ⟨m, hm⟩ := leaf_some kind _ (dense_ne_nil H)
  rw [hm]
  congr 1
  exact IsExt_unique (ExtKind.le kind) (le_anti kind) (ExtKind.key kind) _ _ _ (leaf_spec kind _ m hm)
    (extremeValue_isExt kind H w hw)

end Core

/-! ### the container level -/
section Container
variable {α : Type} [AddCommGroup α] [LinearOrder α] [IsOrderedAddMonoid α]

/-- states reachable through the public interface: well-formed, every stored index below the size, every stored
value has scalars -/
structure SOK (flat : β → List α) (s : SVec β) : Prop where
  wf : SWF s
  key_lt : ∀ p ∈ s.entries, p.1 < s.size
  val_ne : ∀ p ∈ s.entries, flat p.2 ≠ []

omit [AddCommGroup α] [LinearOrder α] [IsOrderedAddMonoid α] in
theorem sok_empty (flat : β → List α) (size : Nat) (h : 0 < size) : SOK flat (SVec.empty size : SVec β) :=
  ⟨swf_empty size h, by simp [SVec.empty, entries], by simp [SVec.empty, entries]⟩

omit [AddCommGroup α] [LinearOrder α] [IsOrderedAddMonoid α] in
theorem sok_write (flat : β → List α) (fillv : β) (s : SVec β) (h : SOK flat s) (i : Nat) (v : β)
    (hi : i < s.size) (hmax : s.size ≤ idxMax) (hv : flat v ≠ []) : SOK flat (s.write fillv i v) := by
  have he := (entries_write fillv s h.wf i v).1
  refine ⟨swf_write fillv s h.wf i v (by omega), ?_, ?_⟩
  · intro p hp
    rw [he] at hp
    rw [write_size]
    rcases List.mem_append.mp hp with hp | hp
    · exact h.key_lt p hp
    · simp at hp; subst hp; exact hi
  · intro p hp
    rw [he] at hp
    rcases List.mem_append.mp hp with hp | hp
    · exact h.val_ne p hp
    · simp at hp; subst hp; exact hv

omit [AddCommGroup α] [LinearOrder α] [IsOrderedAddMonoid α] in
/-- sorting only drops overwritten entries -/
theorem sort_entries_sub (s : SVec β) (h : SWF s) : ∀ p ∈ s.sort.entries, p ∈ s.entries := by
  obtain ⟨h1, h2, h3, _⟩ := sort_spec s h
  intro p hp
  obtain ⟨k, v⟩ := p
  have := lookupLast_of_mem_strict _ (h1.strict h2) k v hp
  have h4 : s.lookup k = some v := by rw [← h3 k]; exact this
  exact lookupLast_mem _ k v h4

omit [AddCommGroup α] [LinearOrder α] [IsOrderedAddMonoid α] in
theorem sok_sort (flat : β → List α) (s : SVec β) (h : SOK flat s) : SOK flat s.sort := by
  obtain ⟨h1, _, _, h4⟩ := sort_spec s h.wf
  exact ⟨h1, fun p hp => by rw [h4]; exact h.key_lt p (sort_entries_sub s h.wf p hp),
    fun p hp => h.val_ne p (sort_entries_sub s h.wf p hp)⟩

omit [AddCommGroup α] [LinearOrder α] [IsOrderedAddMonoid α] in
theorem sok_get (flat : β → List α) (zero : β) (s : SVec β) (h : SOK flat s) (i : Nat) : SOK flat (s.get zero i).2 := by
  unfold SVec.get
  split
  · exact h
  · exact sok_sort flat s h

omit [AddCommGroup α] [LinearOrder α] [IsOrderedAddMonoid α] in
theorem sok_format (flat : β → List α) (setv : β → β) (hset : ∀ v, flat v ≠ [] → flat (setv v) ≠ []) (s : SVec β)
    (h : SOK flat s) : SOK flat (s.format setv) := by
  obtain ⟨g1, _, g3⟩ := format_spec setv s h.wf
  have he : (s.format setv).entries = s.entries.map fun p => (p.1, setv p.2) := by
    simp [format, entries, List.map_take]
  refine ⟨g1, ?_, ?_⟩
  · intro p hp
    rw [he] at hp
    obtain ⟨q, hq, rfl⟩ := List.mem_map.mp hp
    rw [g3]; exact h.key_lt q hq
  · intro p hp
    rw [he] at hp
    obtain ⟨q, hq, rfl⟩ := List.mem_map.mp hp
    exact hset _ (h.val_ne q hq)

/-- THE FIXED MEMBERS MEET THEIR SPECIFICATION: for every reachable sparse vector of size > 0 the coded
`max_abs_element` / `min_abs_element` / `max_element` / `min_element` (scan of the stored scalars plus the
implicit-zero rules) equals the dense kernel on the denoted, flattened vector -/
theorem extremeCoded_eq_spec (kind : ExtKind) (flat : β → List α) (w : Nat) (hw : 0 < w) (zero : β)
    (hz0 : flat zero ≠ []) (hz : ∀ x ∈ flat zero, x = 0) (s : SVec β) (h : SOK flat s) (hsize : 0 < s.size) :
    s.extremeSpec kind.leaf flat zero = some (s.extremeCoded kind flat w).1 ∧ SOK flat (s.extremeCoded kind flat w).2 := by
  obtain ⟨h1, h2, h3, h4⟩ := sort_spec s h.wf
  have hs' := sok_sort flat s h
  refine ⟨?_, hs'⟩
  have H : CoreHyp flat zero s.size s.sort.entries :=
    ⟨hsize, hz0, hz, h1.strict h2, fun p hp => by rw [← h4]; exact hs'.key_lt p hp, hs'.val_ne⟩
  have hlen : s.sort.entries.length = s.sort.used := by
    simp only [entries, List.length_take]; exact Nat.min_eq_left h1.used_le
  have hd : ((s.dense zero).map flat).flatten = denseFlat flat zero s.size s.sort.entries := by
    simp only [dense, denseFlat, List.map_map]
    congr 1
    apply List.map_congr_left
    intro i _
    simp only [Function.comp]
    rw [← h3 i]; rfl
  unfold extremeSpec extremeCoded
  rw [hd, leaf_dense_eq kind H w hw, hlen]
  rfl

end Container

omit β in
/-- size 0: nothing can be stored; the coded members return 0 while the dense kernel has no result on the
empty vector (the operation is not defined there) -/
theorem extremeCoded_size_zero {β α : Type} [LT α] [DecidableLT α] [Neg α] [Zero α] (kind : ExtKind)
    (flat : β → List α) (w : Nat) (zero : β) :
    ((SVec.empty 0 : SVec β).extremeCoded kind flat w).1 = (0 : α) ∧
    (SVec.empty 0 : SVec β).extremeSpec (kind.leaf (α := α)) flat zero = none := by
  constructor
  · cases kind <;> simp [extremeCoded, extremeValue, SVec.empty, sort]
  · cases kind <;> simp [extremeSpec, dense, SVec.empty, ExtKind.leaf, maxAbsElemK, minAbsElemK, maxElemK, minElemK]

end FeatModel.Vec
