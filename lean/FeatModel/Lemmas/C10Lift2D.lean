import FeatModel.Lemmas.C10Bounds
import FeatModel.Lemmas.C10Parts
/-! C10 — GLOBAL lift of conformity for 2-D meshes of any size (triangles and quadrilaterals): infrastructure and the
`facesOk` clause.  The argument is generic over the generated 2-D tables: a symbolic table check (`decide`) plus the
semantic lemma "the child `sim.map(e,b)` of edge `e` is the one that contains the cell's local vertex `FIM[e][b]`". -/
namespace FeatModel.Refine
open FeatModel.Gen.Refine

/-! ### small list facts -/

theorem sameSet_iff (a b : List Nat) : sameSet a b = true ↔ (∀ x ∈ a, x ∈ b) ∧ (∀ x ∈ b, x ∈ a) := by
  simp [sameSet, List.all_eq_true]

theorem sameSet_trans {a b c : List Nat} (h1 : sameSet a b = true) (h2 : sameSet b c = true) :
    sameSet a c = true := by
  rw [sameSet_iff] at *
  exact ⟨fun x hx => h2.1 x (h1.1 x hx), fun x hx => h1.2 x (h2.2 x hx)⟩

theorem sameSet_symm {a b : List Nat} (h : sameSet a b = true) : sameSet b a = true := by
  rw [sameSet_iff] at *; exact ⟨h.2, h.1⟩

/-- set equality of term lists -/
def sameTerms (a b : List Term) : Bool := a.all (b.contains ·) && b.all (a.contains ·)

theorem sameSet_map_of_sameTerms (g : Term → Nat) {a b : List Term} (h : sameTerms a b = true) :
    sameSet (a.map g) (b.map g) = true := by
  simp only [sameTerms, Bool.and_eq_true, List.all_eq_true, List.contains_iff_mem] at h
  rw [sameSet_iff]
  constructor
  · intro x hx
    obtain ⟨t, ht, rfl⟩ := List.mem_map.1 hx
    exact List.mem_map.2 ⟨t, h.1 t ht, rfl⟩
  · intro x hx
    obtain ⟨t, ht, rfl⟩ := List.mem_map.1 hx
    exact List.mem_map.2 ⟨t, h.2 t ht, rfl⟩

theorem getD_of_getElem? {α : Type} {l : List α} {i : Nat} {x d : α} (h : l[i]? = some x) : l.getD i d = x := by
  simp [List.getD_eq_getElem?_getD, h]

/-! ### 2-D meshes -/

/-- the hypotheses of the 2-D lift that do not mention conformity -/
structure Ok2 (M : Mesh) : Prop where
  dim : M.dim = 2
  shape : M.shapeOk = true

theorem off2 (kind : Kind) (nums : List Nat) :
    offset kind nums 0 0 = 0 ∧ offset kind nums 0 1 = nums.getD 0 0 ∧
    offset kind nums 0 2 = nums.getD 0 0 + nums.getD 1 0 ∧
    offset kind nums 1 1 = 0 ∧ offset kind nums 1 2 = 2 * nums.getD 1 0 ∧ offset kind nums 2 2 = 0 := by
  cases kind <;> simp [offset, refCount, List.range'_succ]

/-- tuple `x = offset c s + t·cnt + j` of the refined index set `<c,f>` is the `j`-th child row of `(s,t)` -/
theorem refine_tuple_child (M : Mesh) (hd : M.dim ≤ 3) (c f s t j : Nat) (hfc : f < c) (hcs : c ≤ s)
    (hsd : s ≤ M.dim) (ht : t < M.num s) (hj : j < refCount M.kind s c) :
    (refine M).tuple c f (offset M.kind M.nums c s + t * refCount M.kind s c + j)
      = ((indexTable M.kind s c f).getD j []).map (evalTerm M s f t) := by
  unfold Mesh.tuple
  rw [refine_idx M c f (by omega) hfc]
  have h := fineIdx_child M (by omega) c f s t j hfc hcs hsd ht hj
  have hlen : j < (indexTable M.kind s c f).length := by
    rw [table_rows M.kind s (by omega) c (by omega) f (by omega) hfc hcs]; exact hj
  have h2 : (childRows M s c f t)[j]? = some (((indexTable M.kind s c f).getD j []).map (evalTerm M s f t)) := by
    unfold childRows
    rw [List.getElem?_map, List.getElem?_eq_getElem hlen]
    simp [List.getD_eq_getElem?_getD, List.getElem?_eq_getElem hlen]
  rw [h2] at h
  exact getD_of_getElem? h

theorem edge_orient_pure (kind : Kind) (ev0 ev1 s0 s1 b : Nat) (hne : ev0 ≠ ev1)
    (hs : sameSet [ev0, ev1] [s0, s1] = true) (hb : b < 2) :
    [ev0, ev1].getD (congLookup kind 1 0 (FeatModel.Refine.compare kind 1 s0 s1 [ev0, ev1]) b) 0 = [s0, s1].getD b 0 := by
  rw [sameSet_iff] at hs
  simp only [List.mem_cons, List.not_mem_nil, or_false, forall_eq_or_imp, forall_eq] at hs
  obtain ⟨⟨h0, h1⟩, h2, h3⟩ := hs
  have hb' : b = 0 ∨ b = 1 := by omega
  unfold FeatModel.Refine.compare congLookup trgAt
  by_cases c0 : s0 = ev0
  · have : ev1 = s1 := by
      rcases h1 with h | h
      · exact absurd (h.trans c0) (Ne.symm hne)
      · exact h
    rcases hb' with rfl | rfl <;> cases kind <;> simp [c0, this, congMap]
  · have c1 : s0 = ev1 := by
      rcases h2 with h | h
      · exact absurd h c0
      · exact h
    have : ev0 = s1 := by
      rcases h0 with h | h
      · exact absurd h.symm c0
      · exact h
    have hx : ¬ ev1 = s1 := fun h => hne (this.trans h.symm)
    have hy : ¬ s1 = ev1 := fun h => hx h.symm
    rcases hb' with rfl | rfl <;> cases kind <;> simp [c1, this, congMap, hx]

theorem list_len2 {l : List Nat} (h : l.length = 2) : l = [l.getD 0 0, l.getD 1 0] := by
  match l, h with
  | [a, b], _ => rfl

theorem edgeTable (kind : Kind) : indexTable kind 1 1 0 =
    [[⟨0, 1, some (1, 0, 0), .const 0⟩, ⟨1, 1, none, .const 0⟩],
     [⟨1, 1, none, .const 0⟩, ⟨0, 1, some (1, 0, 1), .const 0⟩]] := by
  cases kind <;> rfl

theorem fim2_len (kind : Kind) : ∀ e < faceCount kind 2 1, ((faceIndexMap kind 2 1 0).getD e []).length = 2 := by
  cases kind <;> decide

theorem fim2_lt (kind : Kind) : ∀ e < faceCount kind 2 1, ∀ b < 2,
    ((faceIndexMap kind 2 1 0).getD e []).getD b 0 < faceCount kind 2 0 := by
  cases kind <;> decide

theorem facesOk_iff2 (M : Mesh) (hd : M.dim = 2) : M.facesOk = true ↔
    ∀ i < M.num 2, ∀ e < faceCount M.kind 2 1,
      sameSet (M.tuple 1 0 (M.entry 2 1 i e)) (M.localFace 2 1 i e) = true := by
  unfold Mesh.facesOk
  rw [hd]
  simp [List.all_eq_true, List.range'_succ]

/-- conformity hypotheses used by the 2-D lift -/
structure Conf2 (M : Mesh) : Prop extends Ok2 M where
  faces : ∀ i < M.num 2, ∀ e < faceCount M.kind 2 1,
      sameSet (M.tuple 1 0 (M.entry 2 1 i e)) (M.localFace 2 1 i e) = true
  edgeNodup : ∀ E < M.num 1, M.entry 1 0 E 0 ≠ M.entry 1 0 E 1

theorem shape_facts (M : Mesh) (h : Ok2 M) (c f : Nat) (hc1 : 1 ≤ c) (hc : c ≤ 2) (hfc : f < c) (i : Nat)
    (hi : i < M.num c) :
    (M.tuple c f i).length = faceCount M.kind c f ∧ ∀ j < faceCount M.kind c f, M.entry c f i j < M.num f := by
  obtain ⟨hlen, hrows⟩ := (shapeOk_iff M).1 h.shape c hc1 (by rw [h.dim]; exact hc) f hfc
  have hi' : i < (M.idx c f).length := by omega
  have hmem : M.tuple c f i ∈ M.idx c f := by
    unfold Mesh.tuple
    rw [List.getD_eq_getElem?_getD, List.getElem?_eq_getElem hi']
    exact List.getElem_mem hi'
  refine ⟨(hrows _ hmem).1, fun j hj => ?_⟩
  exact entry_lt M h.shape c f i j hc1 (by rw [h.dim]; exact hc) hfc hi hj

theorem edge_pair (M : Mesh) (h : Ok2 M) (E : Nat) (hE : E < M.num 1) :
    M.tuple 1 0 E = [M.entry 1 0 E 0, M.entry 1 0 E 1] := by
  have hl := (shape_facts M h 1 0 (by omega) (by omega) (by omega) E hE).1
  have : faceCount M.kind 1 0 = 2 := by cases M.kind <;> rfl
  rw [this] at hl
  exact list_len2 hl

theorem localFace_pair (M : Mesh) (i e : Nat) (he : e < faceCount M.kind 2 1) :
    M.localFace 2 1 i e =
      [M.entry 2 0 i (((faceIndexMap M.kind 2 1 0).getD e []).getD 0 0),
       M.entry 2 0 i (((faceIndexMap M.kind 2 1 0).getD e []).getD 1 0)] := by
  unfold Mesh.localFace
  have hl := fim2_len M.kind e he
  rw [if_neg (by omega), list_len2 hl]
  simp

/-- semantic lemma: the child `sim.map(e,b)` of the cell's `e`-th edge is the one that contains the cell's local
    vertex `FIM[e][b]` -/
theorem sim_child (M : Mesh) (h : Conf2 M) (i e b : Nat) (hi : i < M.num 2) (he : e < faceCount M.kind 2 1)
    (hb : b < 2) :
    simMap M 2 1 0 i e b < 2 ∧
    M.entry 1 0 (M.entry 2 1 i e) (simMap M 2 1 0 i e b)
      = M.entry 2 0 i (((faceIndexMap M.kind 2 1 0).getD e []).getD b 0) := by
  have hE : M.entry 2 1 i e < M.num 1 :=
    (shape_facts M h.toOk2 2 1 (by omega) (by omega) (by omega) i hi).2 e he
  have hp := edge_pair M h.toOk2 _ hE
  have hf := h.faces i hi e he
  rw [localFace_pair M i e he, hp] at hf
  have hne := h.edgeNodup _ hE
  have key := edge_orient_pure M.kind _ _ _ _ b hne hf hb
  have hsm : simMap M 2 1 0 i e b = congLookup M.kind 1 0
      (FeatModel.Refine.compare M.kind 1 (M.entry 2 0 i (((faceIndexMap M.kind 2 1 0).getD e []).getD 0 0))
        (M.entry 2 0 i (((faceIndexMap M.kind 2 1 0).getD e []).getD 1 0))
        [M.entry 1 0 (M.entry 2 1 i e) 0, M.entry 1 0 (M.entry 2 1 i e) 1]) b := by
    unfold simMap
    simp only [← hp]
    rfl
  have hlt : simMap M 2 1 0 i e b < 2 := by
    rw [hsm]
    apply congLookup_lt M.kind 1 0 _ b 2 (by omega)
    cases M.kind <;> decide
  refine ⟨hlt, ?_⟩
  rw [hsm]
  have hb' : b = 0 ∨ b = 1 := by omega
  have hm : ∀ m, m < 2 → M.entry 1 0 (M.entry 2 1 i e) m
      = [M.entry 1 0 (M.entry 2 1 i e) 0, M.entry 1 0 (M.entry 2 1 i e) 1].getD m 0 := by
    intro m hm
    have : m = 0 ∨ m = 1 := by omega
    rcases this with rfl | rfl <;> rfl
  rw [hsm] at hlt
  rw [hm _ hlt, key]
  rcases hb' with rfl | rfl <;> rfl


theorem sameSet_refl (a : List Nat) : sameSet a a = true := by
  rw [sameSet_iff]; exact ⟨fun _ h => h, fun _ h => h⟩

theorem getD_map_nat {α : Type} (l : List α) (g : α → Nat) (k : Nat) (d : α) (hk : k < l.length) :
    (l.map g).getD k 0 = g (l.getD k d) := by
  simp [List.getD_eq_getElem?_getD, List.getElem?_eq_getElem hk]

/-- vertex terms (context: the refined cell) of the fine edge addressed by a term of table `(2,2,1)` -/
def edgeVerts (kind : Kind) (t : Term) : List Term :=
  match t.src, t.add with
  | none, .const a => (indexTable kind 2 1 0).getD a []
  | some (_, _, e), .sim _ _ _ b =>
    [⟨0, 1, some (2, 0, ((faceIndexMap kind 2 1 0).getD e []).getD b 0), .const 0⟩,
     ⟨1, 1, some (2, 1, e), .const 0⟩]
  | _, _ => []

/-- the two kinds of terms of table `(2,2,1)`: an own inner edge, or a child of one of the cell's edges -/
def edgeTermOk (kind : Kind) (t : Term) : Bool :=
  match t.src, t.add with
  | none, .const a => t.off == 2 && t.mult == refCount kind 2 1 && a < refCount kind 2 1
  | some (a', b', e), .sim cd fd e' b =>
    a' == 2 && b' == 1 && t.off == 1 && t.mult == 2 && cd == 1 && fd == 0 && e' == e &&
      e < faceCount kind 2 1 && b < 2
  | _, _ => false

/-- symbolic local check over the generated 2-D tables: for every child `r` and local edge `k`, the fine edge listed
    at `<2,1>[r][k]` has (symbolically) the vertices of local edge `k` of the child's vertex row `<2,0>[r]` -/
theorem faces2_table (kind : Kind) : ∀ r < 4, ∀ k < faceCount kind 2 1,
    edgeTermOk kind (((indexTable kind 2 2 1).getD r []).getD k default) = true ∧
    sameTerms (edgeVerts kind (((indexTable kind 2 2 1).getD r []).getD k default))
      (((faceIndexMap kind 2 1 0).getD k []).map fun j => ((indexTable kind 2 2 0).getD r []).getD j default) = true := by
  cases kind <;> decide

theorem rc2 (kind : Kind) : refCount kind 1 1 = 2 ∧ refCount kind 2 2 = 4 ∧ refCount kind 1 0 = 1 ∧
    faceCount kind 1 0 = 2 ∧ 0 < refCount kind 2 1 := by
  cases kind <;> decide

theorem edgeVerts_sound (M : Mesh) (h : Conf2 M) (i : Nat) (hi : i < M.num 2) (t : Term)
    (ht : edgeTermOk M.kind t = true) :
    sameSet ((refine M).tuple 1 0 (evalTerm M 2 1 i t)) ((edgeVerts M.kind t).map (evalTerm M 2 0 i)) = true := by
  obtain ⟨off, mult, src, add⟩ := t
  have hd3 : M.dim ≤ 3 := by rw [h.dim]; omega
  have hd2 : (2 : Nat) ≤ M.dim := by rw [h.dim]; omega
  obtain ⟨o00, o01, o02, o11, o12, o22⟩ := off2 M.kind M.nums
  obtain ⟨r11, r22, r10, f10, r21⟩ := rc2 M.kind
  cases src with
  | none =>
    cases add with
    | sim _ _ _ _ => simp [edgeTermOk] at ht
    | const a =>
      simp only [edgeTermOk, Bool.and_eq_true, beq_iff_eq, decide_eq_true_eq] at ht
      obtain ⟨⟨rfl, rfl⟩, ha⟩ := ht
      have e1 : evalTerm M 2 1 i ⟨2, refCount M.kind 2 1, none, .const a⟩
          = offset M.kind M.nums 1 2 + i * refCount M.kind 2 1 + a := by
        simp [evalTerm, evalSrc, evalAdd, Nat.mul_comm]
      rw [e1, refine_tuple_child M hd3 1 0 2 i a (by omega) (by omega) hd2 hi ha]
      simp only [edgeVerts]
      exact sameSet_refl _
  | some p =>
    obtain ⟨a', b', e⟩ := p
    cases add with
    | const _ => simp [edgeTermOk] at ht
    | sim cd fd e' b =>
      simp only [edgeTermOk, Bool.and_eq_true, beq_iff_eq, decide_eq_true_eq] at ht
      obtain ⟨⟨⟨⟨⟨⟨⟨⟨rfl, rfl⟩, rfl⟩, rfl⟩, rfl⟩, rfl⟩, rfl⟩, he⟩, hb⟩ := ht
      obtain ⟨hm, hv⟩ := sim_child M h i e' b hi he hb
      have hE : M.entry 2 1 i e' < M.num 1 :=
        (shape_facts M h.toOk2 2 1 (by omega) (by omega) (by omega) i hi).2 e' he
      have e1 : evalTerm M 2 1 i ⟨1, 2, some (2, 1, e'), .sim 1 0 e' b⟩
          = offset M.kind M.nums 1 1 + M.entry 2 1 i e' * refCount M.kind 1 1 + simMap M 2 1 0 i e' b := by
        simp [evalTerm, evalSrc, evalAdd, Nat.mul_comm, r11]
      rw [e1, refine_tuple_child M hd3 1 0 1 (M.entry 2 1 i e') _ (by omega) (by omega) (by omega) hE
        (by rw [r11]; exact hm), edgeTable]
      have hm' : simMap M 2 1 0 i e' b = 0 ∨ simMap M 2 1 0 i e' b = 1 := by omega
      rw [sameSet_iff]
      rcases hm' with h0 | h0 <;> rw [h0] at hv <;>
        simp [h0, edgeVerts, evalTerm, evalSrc, evalAdd, o00, o01, hv]

theorem fim2_mem_lt (kind : Kind) : ∀ k < faceCount kind 2 1,
    (((faceIndexMap kind 2 1 0).getD k []).all fun j => j < faceCount kind 2 0) = true := by
  cases kind <;> decide

theorem refine_dim (M : Mesh) : (refine M).dim = M.dim := rfl
theorem refine_kind (M : Mesh) : (refine M).kind = M.kind := rfl

/-- fine cell `e'` of a refined 2-D mesh is child `e' % 4` of coarse cell `e' / 4` -/
theorem fine_cell_rows (M : Mesh) (h : Ok2 M) (e' : Nat) (he : e' < (refine M).num 2) (f : Nat) (hf : f < 2) :
    e' / 4 < M.num 2 ∧
    (refine M).tuple 2 f e' = ((indexTable M.kind 2 2 f).getD (e' % 4) []).map (evalTerm M 2 f (e' / 4)) := by
  have hd3 : M.dim ≤ 3 := by rw [h.dim]; omega
  have hd2 : (2 : Nat) ≤ M.dim := by rw [h.dim]; omega
  obtain ⟨o00, o01, o02, o11, o12, o22⟩ := off2 M.kind M.nums
  obtain ⟨r11, r22, r10, f10, r21⟩ := rc2 M.kind
  rw [refine_num M 2 hd2] at he
  have hfc : fineCount M.kind M.nums M.dim 2 = 4 * M.num 2 := by
    unfold fineCount
    rw [h.dim, offset_succ _ _ 2 2 (by omega), o22, r22]; simp [Mesh.num]
  rw [hfc] at he
  have hi : e' / 4 < M.num 2 := by omega
  refine ⟨hi, ?_⟩
  have := refine_tuple_child M hd3 2 f 2 (e' / 4) (e' % 4) (by omega) (by omega) hd2 hi (by rw [r22]; omega)
  rw [o22, r22] at this
  have e : 0 + e' / 4 * 4 + e' % 4 = e' := by omega
  rw [e] at this
  exact this

theorem facesOk_refine2 (M : Mesh) (h : Conf2 M) : (refine M).facesOk = true := by
  rw [facesOk_iff2 _ (by rw [refine_dim]; exact h.dim)]
  intro e' he' k hk
  rw [refine_kind] at hk
  obtain ⟨hi, hrow1⟩ := fine_cell_rows M h.toOk2 e' he' 1 (by omega)
  obtain ⟨_, hrow0⟩ := fine_cell_rows M h.toOk2 e' he' 0 (by omega)
  have hr : e' % 4 < 4 := by omega
  obtain ⟨htok, hsame⟩ := faces2_table M.kind (e' % 4) hr k hk
  have hlen1 : ((indexTable M.kind 2 2 1).getD (e' % 4) []).length = faceCount M.kind 2 1 := by
    have hl : e' % 4 < (indexTable M.kind 2 2 1).length := by
      rw [table_rows M.kind 2 (by omega) 2 (by omega) 1 (by omega) (by omega) (by omega), (rc2 M.kind).2.1]; exact hr
    rw [List.getD_eq_getElem?_getD, List.getElem?_eq_getElem hl]
    exact table_cols M.kind 2 (by omega) 2 (by omega) 1 (by omega) (by omega) (by omega) _ (List.getElem_mem hl)
  have hlen0 : ((indexTable M.kind 2 2 0).getD (e' % 4) []).length = faceCount M.kind 2 0 := by
    have hl : e' % 4 < (indexTable M.kind 2 2 0).length := by
      rw [table_rows M.kind 2 (by omega) 2 (by omega) 0 (by omega) (by omega) (by omega), (rc2 M.kind).2.1]; exact hr
    rw [List.getD_eq_getElem?_getD, List.getElem?_eq_getElem hl]
    exact table_cols M.kind 2 (by omega) 2 (by omega) 0 (by omega) (by omega) (by omega) _ (List.getElem_mem hl)
  -- the listed edge
  have hentry : (refine M).entry 2 1 e' k
      = evalTerm M 2 1 (e' / 4) (((indexTable M.kind 2 2 1).getD (e' % 4) []).getD k default) := by
    unfold Mesh.entry
    rw [hrow1]
    exact getD_map_nat _ _ k default (by rw [hlen1]; exact hk)
  -- the local face of the fine cell
  have hlocal : (refine M).localFace 2 1 e' k
      = (((faceIndexMap M.kind 2 1 0).getD k []).map fun j =>
          ((indexTable M.kind 2 2 0).getD (e' % 4) []).getD j default).map (evalTerm M 2 0 (e' / 4)) := by
    unfold Mesh.localFace
    rw [if_neg (by omega), refine_kind, List.map_map]
    apply List.map_congr_left
    intro j hj
    have hjl := fim2_mem_lt M.kind k hk
    rw [List.all_eq_true] at hjl
    have hj' : j < faceCount M.kind 2 0 := by simpa using hjl j hj
    unfold Mesh.entry
    rw [hrow0]
    simp only [Function.comp]
    exact getD_map_nat _ _ j default (by rw [hlen0]; exact hj')
  rw [hentry, hlocal]
  exact sameSet_trans (edgeVerts_sound M h (e' / 4) hi _ htok) (sameSet_map_of_sameTerms _ hsame)

end FeatModel.Refine
