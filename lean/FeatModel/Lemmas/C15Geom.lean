import FeatModel.Model.FETrace
/-! kernel-checked: every stored sub-entity row of the reference configurations passes the shape-function trace check -/
namespace FeatModel.FE
set_option maxRecDepth 100000 in
theorem geom2 : ([Kind.S, Kind.H].all fun k => (allOrients (numFaces k 2 1)).all fun o => geomOk (refMesh k 2 o)) = true := by
  decide +kernel
set_option maxRecDepth 100000 in
theorem geom13 : (geomOk (refMesh .H 1 []) && geomOk (refMesh .S 3 []) && geomOk (refMesh .H 3 [])) = true := by
  decide +kernel
end FeatModel.FE
