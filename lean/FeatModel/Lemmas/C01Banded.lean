import FeatModel.Lemmas.C01Sum
import FeatModel.Model.LA.Banded
/-!
Banded product: the (i, j) row windows of `apply_banded_generic` tile `[0, rows)`; every row is updated exactly once,
with the sum over exactly the bands that pass through it.
-/
open Finset
namespace FeatModel.LA

section generic
variable {α : Type} [CommSemiring α]

/-- `for (l = lo; l < hi; ++l) r[l] = F l r[l]` seen from component `l` -/
theorem foldl_range'_update (F : Nat → α → α) (l : Nat) : ∀ (n s : Nat) (r : Array α), l < r.size →
    ((List.range' s n).foldl (fun r m => r.setIfInBounds m (F m (r.getD m 0))) r).getD l 0
      = if s ≤ l ∧ l < s + n then F l (r.getD l 0) else r.getD l 0
  | 0, s, r, _ => by
    simp
  | n + 1, s, r, hl => by
    rw [List.range'_succ, List.foldl_cons,
      foldl_range'_update F l n (s + 1) _ (by rw [Array.size_setIfInBounds]; exact hl)]
    have hget : (r.setIfInBounds s (F s (r.getD s 0))).getD l 0 = if s = l then F s (r.getD s 0) else r.getD l 0 := by
      have hl' : l < (r.setIfInBounds s (F s (r.getD s 0))).size := by rw [Array.size_setIfInBounds]; exact hl
      rw [Array.getD_eq_getD_getElem?, Array.getElem?_eq_getElem hl', Array.getElem_setIfInBounds hl]
      split
      · simp
      · simp
    rw [hget]
    by_cases h1 : s = l
    · subst h1
      have c1 : ¬(s + 1 ≤ s ∧ s < s + 1 + n) := by omega
      have c2 : s ≤ s ∧ s < s + (n + 1) := by omega
      rw [if_neg c1, if_pos rfl, if_pos c2]
    · by_cases h2 : s + 1 ≤ l ∧ l < s + 1 + n
      · have c2 : s ≤ l ∧ l < s + (n + 1) := by omega
        rw [if_pos h2, if_neg h1, if_pos c2]
      · have c2 : ¬(s ≤ l ∧ l < s + (n + 1)) := by omega
        rw [if_neg h2, if_neg h1, if_neg c2]

theorem foldRange_update (F : Nat → α → α) (lo hi l : Nat) (r : Array α) (hl : l < r.size) :
    (foldRange lo hi (fun r m => r.setIfInBounds m (F m (r.getD m 0))) r).getD l 0
      = if lo ≤ l ∧ l < hi then F l (r.getD l 0) else r.getD l 0 := by
  unfold foldRange
  rw [foldl_range'_update F l _ _ r hl]
  by_cases h : lo ≤ l ∧ l < hi
  · have : lo ≤ l ∧ l < lo + (hi - lo) := by omega
    rw [if_pos h, if_pos this]
  · have : ¬(lo ≤ l ∧ l < lo + (hi - lo)) := by omega
    rw [if_neg h, if_neg this]

omit [CommSemiring α] in
theorem foldRange_update_size [Zero α] (F : Nat → α → α) (lo hi : Nat) (r : Array α) :
    (foldRange lo hi (fun r m => r.setIfInBounds m (F m (r.getD m 0))) r).size = r.size := by
  apply foldRange_size
  intro r i
  exact Array.size_setIfInBounds ..

omit [CommSemiring α] in
theorem antitone_chain (e : Nat → Nat) (n : Nat) (hmono : ∀ t, t < n → e (t + 1) ≤ e t) :
    ∀ a b, a ≤ b → b ≤ n → e b ≤ e a := by
  intro a b hab hb
  induction b with
  | zero => have : a = 0 := by omega
            subst this; exact Nat.le_refl _
  | succ b ih =>
    rcases Nat.lt_or_ge a (b + 1) with h | h
    · exact Nat.le_trans (hmono b (by omega)) (ih (by omega) (by omega))
    · have : a = b + 1 := by omega
      subst this; exact Nat.le_refl _

/-- A descending loop `for (j = n; j > 0;) { --j; r = H j r }` whose step `j` only touches the rows of the window
    `[e (j+1), e j)` of a non-increasing boundary sequence `e`, and maps `r[l]` to `T r[l]` there, maps every row
    `l ∈ [e n, e 0)` exactly once. -/
theorem tiling_fold (e : Nat → Nat) (l : Nat) (H : Nat → Array α → Array α) (T : α → α)
    (hsz : ∀ j r, (H j r).size = r.size) :
    ∀ (n : Nat), (∀ t, t < n → e (t + 1) ≤ e t) →
      (∀ j, j < n → ¬(e (j + 1) ≤ l ∧ l < e j) → ∀ r, l < r.size → (H j r).getD l 0 = r.getD l 0) →
      (∀ j, j < n → e (j + 1) ≤ l → l < e j → ∀ r, l < r.size → (H j r).getD l 0 = T (r.getD l 0)) →
      ∀ (r : Array α), l < r.size →
        (((List.range n).reverse.foldl (fun r j => H j r) r).size = r.size) ∧
        (l < e n → ((List.range n).reverse.foldl (fun r j => H j r) r).getD l 0 = r.getD l 0) ∧
        (e n ≤ l → l < e 0 → ((List.range n).reverse.foldl (fun r j => H j r) r).getD l 0 = T (r.getD l 0))
  | 0, _, _, _, r, _ => by
    refine ⟨by simp, by simp, ?_⟩
    intro h1 h2; omega
  | n + 1, hmono, hout, hin, r, hl => by
    have ih := tiling_fold e l H T hsz n (fun t ht => hmono t (by omega)) (fun j hj => hout j (by omega))
      (fun j hj => hin j (by omega)) (H n r) (by rw [hsz]; exact hl)
    have hrw : (List.range (n + 1)).reverse.foldl (fun r j => H j r) r
        = (List.range n).reverse.foldl (fun r j => H j r) (H n r) := by
      rw [List.range_succ, List.reverse_append]; rfl
    rw [hrw]
    obtain ⟨ih1, ih2, ih3⟩ := ih
    have hm := hmono n (by omega)
    refine ⟨by rw [ih1, hsz], ?_, ?_⟩
    · intro h
      rw [ih2 (by omega), hout n (by omega) (by omega) r hl]
    · intro h1 h2
      by_cases hc : l < e n
      · rw [ih2 hc, hin n (by omega) h1 hc r hl]
      · rw [ih3 (by omega) h2, hout n (by omega) (by omega) r hl]

end generic

namespace Banded
variable {α : Type}

/-- `Banded.wf` spelled out -/
structure WF (A : Banded α) : Prop where
  valSize : A.val.size = A.rows * A.noo
  offLe : ∀ k, k < A.noo → A.offsets.getD k 0 + 2 ≤ A.rows + A.cols
  sorted : ∀ k, k + 1 < A.noo → A.offsets.getD k 0 < A.offsets.getD (k + 1) 0

theorem wf_iff (A : Banded α) : A.wf = true ↔ A.WF := by
  constructor
  · intro h
    simp only [wf, Bool.and_eq_true, beq_iff_eq, List.all_eq_true, List.mem_range, decide_eq_true_eq,
      Array.all_eq_true] at h
    obtain ⟨⟨h1, h2⟩, h3⟩ := h
    refine ⟨h1, ?_, fun k hk => h3 k (by omega)⟩
    intro k hk
    have hk' : k < A.offsets.size := hk
    have := h2 k hk'
    simpa [Array.getD, hk'] using this
  · intro h
    simp only [wf, Bool.and_eq_true, beq_iff_eq, List.all_eq_true, List.mem_range, decide_eq_true_eq,
      Array.all_eq_true]
    refine ⟨⟨h.valSize, ?_⟩, fun k hk => h.sorted k (by omega)⟩
    intro k hk
    have := h.offLe k hk
    simpa [Array.getD, hk] using this

theorem off_mono {A : Banded α} (h : A.WF) : ∀ b a, a ≤ b → b < A.noo → A.offsets.getD a 0 ≤ A.offsets.getD b 0
  | 0, a, hab, _ => by
    have : a = 0 := by omega
    subst this; exact Nat.le_refl _
  | b + 1, a, hab, hb => by
    rcases Nat.lt_or_ge a (b + 1) with hlt | hge
    · exact Nat.le_trans (off_mono h b a (by omega) (by omega)) (Nat.le_of_lt (h.sorted b hb))
    · have : a = b + 1 := by omega
      subst this; exact Nat.le_refl _

theorem startOff_lt {A : Banded α} {k : Nat} (hk : k < A.noo) :
    A.startOff (some k) = max (A.cols + 1) (A.rows + A.cols - A.offsets.getD k 0) - A.cols - 1 := by
  simp [startOff, Nat.ne_of_lt hk]

theorem endOffP1_lt {A : Banded α} {k : Nat} (hk : k < A.noo) :
    A.endOffP1 (some k) = min A.rows (A.cols + A.rows - A.offsets.getD k 0 - 1) := by
  simp [endOffP1, Nat.ne_of_lt hk]

theorem startOff_noo (A : Banded α) : A.startOff (some A.noo) = 0 := by simp [startOff]
theorem endOffP1_noo (A : Banded α) : A.endOffP1 (some A.noo) = 0 := by simp [endOffP1]

theorem predIdx_succ (t : Nat) : predIdx (t + 1) = some t := by simp [predIdx]
theorem predIdx_zero : predIdx 0 = none := by simp [predIdx]

/-- the band-end boundaries `rows = e 0 ≥ e 1 = end(0)+1 ≥ … ≥ e (noo+1) = 0` -/
theorem endOffP1_antitone {A : Banded α} (h : A.WF) (t : Nat) (ht : t < A.noo + 1) :
    A.endOffP1 (predIdx (t + 1)) ≤ A.endOffP1 (predIdx t) := by
  rw [predIdx_succ]
  cases t with
  | zero =>
    rw [predIdx_zero]
    by_cases h0 : 0 < A.noo
    · rw [endOffP1_lt h0]; simp only [endOffP1]; omega
    · have : A.noo = 0 := by omega
      rw [← this, endOffP1_noo]; exact Nat.zero_le _
  | succ t =>
    rw [predIdx_succ]
    by_cases h1 : t + 1 < A.noo
    · rw [endOffP1_lt h1, endOffP1_lt (by omega : t < A.noo)]
      have := h.sorted t h1
      omega
    · have : t + 1 = A.noo := by omega
      rw [this, endOffP1_noo]; exact Nat.zero_le _

/-- the band-start boundaries `rows = σ 0 ≥ σ 1 = start(0) ≥ … ≥ σ (noo+1) = 0` -/
theorem startOff_antitone {A : Banded α} (h : A.WF) (t : Nat) (ht : t < A.noo + 1) :
    A.startOff (predIdx (t + 1)) ≤ A.startOff (predIdx t) := by
  rw [predIdx_succ]
  cases t with
  | zero =>
    rw [predIdx_zero]
    by_cases h0 : 0 < A.noo
    · rw [startOff_lt h0]; simp only [startOff]; omega
    · have : A.noo = 0 := by omega
      rw [← this, startOff_noo]; exact Nat.zero_le _
  | succ t =>
    rw [predIdx_succ]
    by_cases h1 : t + 1 < A.noo
    · rw [startOff_lt h1, startOff_lt (by omega : t < A.noo)]
      have := h.sorted t h1
      omega
    · have : t + 1 = A.noo := by omega
      rw [this, startOff_noo]; exact Nat.zero_le _

/-- prefix version of the `while (k < noo && offsets[k] + 1 < rows) ++k` search -/
theorem firstUpper_aux (A : Banded α) : ∀ m,
    let k := (List.range m).foldl (fun k c => if k = c ∧ A.offsets.getD c 0 + 1 < A.rows then c + 1 else k) 0
    k ≤ m ∧ (k < m → ¬(A.offsets.getD k 0 + 1 < A.rows))
  | 0 => by simp
  | m + 1 => by
    have ih := firstUpper_aux A m
    simp only [List.range_succ, List.foldl_append, List.foldl_cons, List.foldl_nil] at ih ⊢
    generalize (List.range m).foldl (fun k c => if k = c ∧ A.offsets.getD c 0 + 1 < A.rows then c + 1 else k) 0 = k at ih ⊢
    obtain ⟨ih1, ih2⟩ := ih
    by_cases hc : k = m ∧ A.offsets.getD m 0 + 1 < A.rows
    · rw [if_pos hc]; omega
    · rw [if_neg hc]
      refine ⟨by omega, ?_⟩
      intro hk
      by_cases hkm : k < m
      · exact ih2 hkm
      · have : k = m := by omega
        subst this
        intro hlt; exact hc ⟨rfl, hlt⟩

theorem startOff_firstUpper {A : Banded α} : A.firstUpper ≤ A.noo ∧ A.startOff (some A.firstUpper) = 0 := by
  have := firstUpper_aux A A.noo
  change A.firstUpper ≤ A.noo ∧ (A.firstUpper < A.noo → ¬(A.offsets.getD A.firstUpper 0 + 1 < A.rows)) at this
  obtain ⟨h1, h2⟩ := this
  refine ⟨h1, ?_⟩
  by_cases hk : A.firstUpper < A.noo
  · have := h2 hk
    rw [startOff_lt hk]
    omega
  · have : A.firstUpper = A.noo := by
      have : A.firstUpper ≤ A.noo := h1
      omega
    rw [this, startOff_noo]

theorem predIdx_pos {i : Nat} (hi : i ≠ 0) : predIdx i = some (i - 1) := by simp [predIdx, hi]

variable [CommSemiring α]

theorem entry_eq_sum (A : Banded α) (l c : Nat) :
    A.entry l c = ∑ k ∈ Ico 0 A.noo,
      (if l + A.offsets.getD k 0 + 1 = c + A.rows then A.val.getD (k * A.rows + l) 0 else 0) := by
  unfold entry
  rw [foldRange_add_if, zero_add]

/-- row `l` of the dense product, regrouped by bands: band `k` contributes iff it passes through row `l` -/
theorem rowdot_eq_sum_bands (A : Banded α) (x : Array α) (l : Nat) :
    ∑ c ∈ range A.cols, A.entry l c * x.getD c 0
      = ∑ k ∈ Ico 0 A.noo,
          (if A.rows ≤ l + A.offsets.getD k 0 + 1 ∧ l + A.offsets.getD k 0 + 1 - A.rows < A.cols
           then A.val.getD (k * A.rows + l) 0 * x.getD (l + A.offsets.getD k 0 + 1 - A.rows) 0 else 0) := by
  simp only [entry_eq_sum, Finset.sum_mul, ite_mul, zero_mul]
  rw [Finset.sum_comm]
  apply Finset.sum_congr rfl
  intro k _
  by_cases hv : A.rows ≤ l + A.offsets.getD k 0 + 1 ∧ l + A.offsets.getD k 0 + 1 - A.rows < A.cols
  · rw [if_pos hv, Finset.sum_eq_single (l + A.offsets.getD k 0 + 1 - A.rows)]
    · rw [if_pos (by omega)]
    · intro c _ hc
      rw [if_neg (by omega)]
    · intro hc
      exact absurd (Finset.mem_range.mpr hv.2) hc
  · rw [if_neg hv]
    apply Finset.sum_eq_zero
    intro c hc
    rw [Finset.mem_range] at hc
    rw [if_neg]
    intro heq
    exact hv ⟨by omega, by omega⟩

/-- inside the (i, j) window exactly the bands `i ≤ a < j` pass through row `l` -/
theorem cell_sum {A : Banded α} (h : A.WF) (x : Array α) {l i j : Nat} (hl : l < A.rows) (hi : i ≤ A.noo) (hj : j ≤ A.noo)
    (hI1 : A.startOff (some i) ≤ l) (hI2 : l < A.startOff (predIdx i))
    (hJ1 : A.endOffP1 (some j) ≤ l) (hJ2 : l < A.endOffP1 (predIdx j)) :
    foldRange i j (fun s a => s + A.val.getD (a * A.rows + l) 0 * x.getD (l + A.offsets.getD a 0 + 1 - A.rows) 0) 0
      = ∑ c ∈ range A.cols, A.entry l c * x.getD c 0 := by
  rw [foldRange_add, zero_add, rowdot_eq_sum_bands, ← Finset.sum_filter]
  apply Finset.sum_congr ?_ (fun _ _ => rfl)
  ext k
  simp only [Finset.mem_filter, Finset.mem_Ico]
  constructor
  · rintro ⟨hik, hkj⟩
    have hk : k < A.noo := by omega
    have hle := h.offLe k hk
    refine ⟨⟨Nat.zero_le _, hk⟩, ?_⟩
    have hi' : i < A.noo := by omega
    have h1 := off_mono h k i hik hk
    rw [startOff_lt hi'] at hI1
    have hj0 : j ≠ 0 := by omega
    rw [predIdx_pos hj0, endOffP1_lt (by omega : j - 1 < A.noo)] at hJ2
    have h2 := off_mono h (j - 1) k (by omega) (by omega)
    omega
  · rintro ⟨⟨_, hk⟩, hv⟩
    have hle := h.offLe k hk
    constructor
    · by_contra hc
      have hi0 : i ≠ 0 := by omega
      rw [predIdx_pos hi0, startOff_lt (by omega : i - 1 < A.noo)] at hI2
      have h1 := off_mono h (i - 1) k (by omega) (by omega)
      omega
    · by_contra hc
      have hj' : j < A.noo := by omega
      rw [endOffP1_lt hj'] at hJ1
      have h2 := off_mono h k j (by omega) hk
      omega

/-- the body of the `l` loop of cell `(i, j)` -/
def cellStep (A : Banded α) (alpha beta : α) (x : Array α) (i j : Nat) (r : Array α) : Array α :=
  foldRange (max (A.startOff (some i)) (A.endOffP1 (some j))) (min (A.startOff (predIdx i)) (A.endOffP1 (predIdx j)))
    (fun r l =>
      r.setIfInBounds l (beta * r.getD l 0 + alpha *
        foldRange i j (fun s a => s + A.val.getD (a * A.rows + l) 0 * x.getD (l + A.offsets.getD a 0 + 1 - A.rows) 0) 0)) r

theorem bandedLoop_eq (A : Banded α) (alpha beta : α) (x r : Array α) :
    A.bandedLoop alpha beta x r
      = (List.range (A.firstUpper + 1)).reverse.foldl (fun r i =>
          (List.range (A.noo + 1)).reverse.foldl (fun r j => cellStep A alpha beta x i j r) r) r := rfl

theorem cellStep_size (A : Banded α) (alpha beta : α) (x : Array α) (i j : Nat) (r : Array α) :
    (cellStep A alpha beta x i j r).size = r.size :=
  foldRange_update_size (fun l v => beta * v + alpha *
    foldRange i j (fun s a => s + A.val.getD (a * A.rows + l) 0 * x.getD (l + A.offsets.getD a 0 + 1 - A.rows) 0) 0) _ _ r

theorem cellStep_getD (A : Banded α) (alpha beta : α) (x : Array α) (i j l : Nat) (r : Array α) (hl : l < r.size) :
    (cellStep A alpha beta x i j r).getD l 0
      = if (A.startOff (some i) ≤ l ∧ l < A.startOff (predIdx i)) ∧ (A.endOffP1 (some j) ≤ l ∧ l < A.endOffP1 (predIdx j))
        then beta * r.getD l 0 + alpha *
          foldRange i j (fun s a => s + A.val.getD (a * A.rows + l) 0 * x.getD (l + A.offsets.getD a 0 + 1 - A.rows) 0) 0
        else r.getD l 0 := by
  unfold cellStep
  rw [foldRange_update (fun l v => beta * v + alpha *
    foldRange i j (fun s a => s + A.val.getD (a * A.rows + l) 0 * x.getD (l + A.offsets.getD a 0 + 1 - A.rows) 0) 0) _ _ l r hl]
  by_cases hc : (A.startOff (some i) ≤ l ∧ l < A.startOff (predIdx i)) ∧ (A.endOffP1 (some j) ≤ l ∧ l < A.endOffP1 (predIdx j))
  · rw [if_pos hc, if_pos (by omega)]
  · rw [if_neg hc, if_neg (by omega)]

/-- the `j` loop for a fixed `i`: row `l` is updated (once) iff it lies in the `i` window -/
theorem innerLoop_getD {A : Banded α} (h : A.WF) (alpha beta : α) (x : Array α) {i l : Nat} (hi : i ≤ A.noo)
    (hl : l < A.rows) (r : Array α) (hlr : l < r.size) :
    (((List.range (A.noo + 1)).reverse.foldl (fun r j => cellStep A alpha beta x i j r) r).size = r.size) ∧
    ((List.range (A.noo + 1)).reverse.foldl (fun r j => cellStep A alpha beta x i j r) r).getD l 0
      = if A.startOff (some i) ≤ l ∧ l < A.startOff (predIdx i)
        then beta * r.getD l 0 + alpha * ∑ c ∈ range A.cols, A.entry l c * x.getD c 0
        else r.getD l 0 := by
  by_cases hI : A.startOff (some i) ≤ l ∧ l < A.startOff (predIdx i)
  · have key := tiling_fold (fun t => A.endOffP1 (predIdx t)) l (fun j r => cellStep A alpha beta x i j r)
      (fun v => beta * v + alpha * ∑ c ∈ range A.cols, A.entry l c * x.getD c 0)
      (fun j r => cellStep_size A alpha beta x i j r) (A.noo + 1)
      (fun t ht => endOffP1_antitone h t ht)
      (fun j _ hnot r hr => by
        rw [cellStep_getD A alpha beta x i j l r hr, if_neg]
        rintro ⟨_, hJ⟩
        rw [predIdx_succ] at hnot
        exact hnot hJ)
      (fun j hj h1 h2 r hr => by
        rw [predIdx_succ] at h1
        rw [cellStep_getD A alpha beta x i j l r hr, if_pos ⟨hI, h1, h2⟩,
          cell_sum h x hl hi (by omega) hI.1 hI.2 h1 h2])
      r hlr
    refine ⟨key.1, ?_⟩
    rw [if_pos hI]
    apply key.2.2
    · rw [predIdx_succ, endOffP1_noo]; exact Nat.zero_le _
    · rw [predIdx_zero]; exact hl
  · have key := tiling_fold (fun t => A.endOffP1 (predIdx t)) l (fun j r => cellStep A alpha beta x i j r)
      (fun v => v)
      (fun j r => cellStep_size A alpha beta x i j r) (A.noo + 1)
      (fun t ht => endOffP1_antitone h t ht)
      (fun j _ _ r hr => by
        rw [cellStep_getD A alpha beta x i j l r hr, if_neg]
        rintro ⟨hI', _⟩
        exact hI hI')
      (fun j _ _ _ r hr => by
        rw [cellStep_getD A alpha beta x i j l r hr, if_neg]
        rintro ⟨hI', _⟩
        exact hI hI')
      r hlr
    refine ⟨key.1, ?_⟩
    rw [if_neg hI]
    apply key.2.2
    · rw [predIdx_succ, endOffP1_noo]; exact Nat.zero_le _
    · rw [predIdx_zero]; exact hl

/-- `apply_banded_generic`: every row is visited exactly once and receives `beta·r_l + alpha·(A x)_l` -/
theorem bandedLoop_getD {A : Banded α} (h : A.WF) (alpha beta : α) (x r : Array α) {l : Nat} (hl : l < A.rows)
    (hr : r.size = A.rows) :
    (A.bandedLoop alpha beta x r).getD l 0
      = beta * r.getD l 0 + alpha * ∑ c ∈ range A.cols, A.entry l c * x.getD c 0 := by
  rw [bandedLoop_eq]
  obtain ⟨hk, hk0⟩ := startOff_firstUpper (A := A)
  have key := tiling_fold (fun t => A.startOff (predIdx t)) l
      (fun i r => (List.range (A.noo + 1)).reverse.foldl (fun r j => cellStep A alpha beta x i j r) r)
      (fun v => beta * v + alpha * ∑ c ∈ range A.cols, A.entry l c * x.getD c 0)
      (fun i r => by
        have : ∀ (L : List Nat) (r : Array α), (L.foldl (fun r j => cellStep A alpha beta x i j r) r).size = r.size := by
          intro L
          induction L with
          | nil => intro r; rfl
          | cons a L ih => intro r; rw [List.foldl_cons, ih, cellStep_size]
        exact this _ r)
      (A.firstUpper + 1)
      (fun t ht => startOff_antitone h t (by omega))
      (fun i hi hnot r hr' => by
        rw [predIdx_succ] at hnot
        rw [(innerLoop_getD h alpha beta x (by omega) hl r hr').2, if_neg hnot])
      (fun i hi h1 h2 r hr' => by
        rw [predIdx_succ] at h1
        rw [(innerLoop_getD h alpha beta x (by omega) hl r hr').2, if_pos ⟨h1, h2⟩])
      r (by rw [hr]; exact hl)
  apply key.2.2
  · rw [predIdx_succ, hk0]; exact Nat.zero_le _
  · rw [predIdx_zero]; exact hl

theorem foldl_add_eq_sum (t : Nat → Nat) : ∀ (L : List Nat) (a : Nat),
    L.foldl (fun s o => s + t o) a = a + (L.map t).sum
  | [], a => by simp
  | o :: L, a => by
    rw [List.foldl_cons, foldl_add_eq_sum t L, List.map_cons, List.sum_cons]; omega

theorem sum_map_eq_zero (t : Nat → Nat) : ∀ (L : List Nat), (L.map t).sum = 0 → ∀ o, o ∈ L → t o = 0
  | [], _, o, ho => by simp at ho
  | a :: L, hs, o, ho => by
    rw [List.map_cons, List.sum_cons] at hs
    rcases List.mem_cons.mp ho with h | h
    · subst h; omega
    · exact sum_map_eq_zero t L (by omega) o h

omit [CommSemiring α] in
/-- `used_elements() == 0`: no band has a row inside the matrix -/
theorem band_empty_of_usedElements_zero {A : Banded α} (h0 : A.usedElements = 0) {k : Nat} (hk : k < A.noo) :
    A.cols + min A.rows (A.cols + A.rows - A.offsets.getD k 0 - 1) - max (A.cols + A.rows - A.offsets.getD k 0 - 1) A.cols = 0 := by
  unfold usedElements at h0
  rw [← Array.foldl_toList, foldl_add_eq_sum (fun o => A.cols + min A.rows (A.cols + A.rows - o - 1)
    - max (A.cols + A.rows - o - 1) A.cols), Nat.zero_add] at h0
  have hk' : k < A.offsets.size := hk
  have hm : A.offsets.getD k 0 ∈ A.offsets.toList := by
    have : A.offsets.getD k 0 = A.offsets[k] := by simp [Array.getD, hk']
    rw [this, Array.mem_toList_iff]
    exact Array.getElem_mem hk'
  exact sum_map_eq_zero _ _ h0 _ hm

/-- a banded matrix with `used_elements() == 0` represents the zero matrix -/
theorem rowdot_eq_zero_of_empty {A : Banded α} (h : A.WF) (h0 : A.usedElements = 0) (x : Array α) (l : Nat)
    (hl : l < A.rows) : ∑ c ∈ range A.cols, A.entry l c * x.getD c 0 = 0 := by
  rw [rowdot_eq_sum_bands]
  apply Finset.sum_eq_zero
  intro k hk
  rw [Finset.mem_Ico] at hk
  have h1 := band_empty_of_usedElements_zero h0 hk.2
  have h2 := h.offLe k hk.2
  rw [if_neg]
  intro hv
  omega

end Banded
end FeatModel.LA
