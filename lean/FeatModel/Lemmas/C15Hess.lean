import FeatModel.Lemmas.C15Chain
import Mathlib.Algebra.BigOperators.Group.Finset.Basic
import Mathlib.Algebra.BigOperators.Ring.Finset
import Mathlib.Algebra.BigOperators.Group.Finset.Sigma
import Mathlib.Algebra.BigOperators.Group.List.Basic
/-! Second-order chain rule of the model of `ParametricEvaluator` (pointwise, every cell geometry). -/
namespace FeatModel.FE
open Finset

theorem sum4_swap (d : ℕ) (f : ℕ → ℕ → ℕ → ℕ → ℚ) :
    ∑ a ∈ range d, ∑ b ∈ range d, ∑ k ∈ range d, ∑ l ∈ range d, f a b k l
      = ∑ k ∈ range d, ∑ l ∈ range d, ∑ a ∈ range d, ∑ b ∈ range d, f a b k l := by
  calc ∑ a ∈ range d, ∑ b ∈ range d, ∑ k ∈ range d, ∑ l ∈ range d, f a b k l
      = ∑ a ∈ range d, ∑ k ∈ range d, ∑ b ∈ range d, ∑ l ∈ range d, f a b k l :=
        sum_congr rfl fun _ _ => sum_comm
    _ = ∑ k ∈ range d, ∑ a ∈ range d, ∑ b ∈ range d, ∑ l ∈ range d, f a b k l := sum_comm
    _ = ∑ k ∈ range d, ∑ a ∈ range d, ∑ l ∈ range d, ∑ b ∈ range d, f a b k l :=
        sum_congr rfl fun _ _ => sum_congr rfl fun _ _ => sum_comm
    _ = ∑ k ∈ range d, ∑ l ∈ range d, ∑ a ∈ range d, ∑ b ∈ range d, f a b k l :=
        sum_congr rfl fun _ _ => sum_comm

/-- `Jᵀ (Bᵀ F B) J = F` when `B J = 1` -/
theorem two_sided_collapse (d : ℕ) (J B : ℕ → ℕ → ℚ) (F : ℕ → ℕ → ℚ)
    (hBJ : ∀ k, k < d → ∀ p, p < d → ∑ a ∈ range d, B k a * J a p = if k = p then 1 else 0)
    (p q : ℕ) (hp : p < d) (hq : q < d) :
    ∑ a ∈ range d, ∑ b ∈ range d, J a p * (∑ k ∈ range d, ∑ l ∈ range d, F k l * B k a * B l b) * J b q
      = F p q := by
  have h1 : ∀ a b, J a p * (∑ k ∈ range d, ∑ l ∈ range d, F k l * B k a * B l b) * J b q
      = ∑ k ∈ range d, ∑ l ∈ range d, J a p * (F k l * B k a * B l b) * J b q := by
    intro a b
    rw [mul_sum, sum_mul]
    apply sum_congr rfl; intro k _
    rw [mul_sum, sum_mul]
  simp only [h1]
  rw [sum4_swap]
  have h2 : ∀ k, k ∈ range d → ∀ l, l ∈ range d →
      ∑ a ∈ range d, ∑ b ∈ range d, J a p * (F k l * B k a * B l b) * J b q
        = F k l * (if k = p then 1 else 0) * (if l = q then 1 else 0) := by
    intro k hk l hl
    rw [← hBJ k (mem_range.mp hk) p hp, ← hBJ l (mem_range.mp hl) q hq, mul_assoc, sum_mul_sum, mul_sum]
    apply sum_congr rfl; intro a _
    rw [mul_sum]
    apply sum_congr rfl; intro b _
    ring
  rw [sum_congr rfl fun k hk => sum_congr rfl fun l hl => h2 k hk l hl]
  simp only [mul_ite, mul_one, mul_zero, sum_ite_eq', mem_range, hq, hp, if_true]

theorem aux1 (d : ℕ) (B : ℕ → ℕ → ℚ) (rg X : ℕ → ℚ) :
    ∑ k ∈ range d, rg k * (-(∑ m ∈ range d, B k m * X m))
      = -(∑ m ∈ range d, (∑ k ∈ range d, rg k * B k m) * X m) := by
  simp only [mul_neg, sum_neg_distrib, mul_sum, sum_mul]
  rw [sum_comm]
  congr 1
  apply sum_congr rfl; intro m _
  apply sum_congr rfl; intro k _
  ring

theorem aux2 (d : ℕ) (G : ℕ → ℚ) (Y : ℕ → ℕ → ℕ → ℚ) (u v : ℕ → ℚ) :
    -(∑ m ∈ range d, G m * ∑ p' ∈ range d, ∑ q' ∈ range d, Y m p' q' * u p' * v q')
      = ∑ p' ∈ range d, ∑ q' ∈ range d, (-(∑ m ∈ range d, G m * Y m p' q')) * u p' * v q' := by
  have hR : ∀ p' q', (-(∑ m ∈ range d, G m * Y m p' q')) * u p' * v q'
      = -(∑ m ∈ range d, G m * (Y m p' q' * u p' * v q')) := by
    intro p' q'
    rw [neg_mul, neg_mul, sum_mul, sum_mul]
    congr 1
    apply sum_congr rfl; intro m _
    ring
  simp only [hR, sum_neg_distrib]
  congr 1
  have hLm : ∀ m, G m * ∑ p' ∈ range d, ∑ q' ∈ range d, Y m p' q' * u p' * v q'
      = ∑ p' ∈ range d, ∑ q' ∈ range d, G m * (Y m p' q' * u p' * v q') := by
    intro m
    rw [mul_sum]
    apply sum_congr rfl; intro p' _
    rw [mul_sum]
  simp only [hLm]
  rw [sum_comm]
  apply sum_congr rfl; intro p' _
  rw [sum_comm]

/-- the part of the Hessian coming from the curvature of the transformation is again of the form `Bᵀ F₂ B` -/
theorem curvature_term (d : ℕ) (B : ℕ → ℕ → ℚ) (rg : ℕ → ℚ) (HT : ℕ → ℕ → ℕ → ℚ) (a b : ℕ) :
    ∑ k ∈ range d, rg k * (-(∑ m ∈ range d, B k m *
        ∑ p' ∈ range d, ∑ q' ∈ range d, HT m p' q' * B p' a * B q' b))
      = ∑ p' ∈ range d, ∑ q' ∈ range d,
          (-(∑ m ∈ range d, (∑ k ∈ range d, rg k * B k m) * HT m p' q')) * B p' a * B q' b := by
  rw [aux1 d B rg (fun m => ∑ p' ∈ range d, ∑ q' ∈ range d, HT m p' q' * B p' a * B q' b)]
  exact aux2 d (fun m => ∑ k ∈ range d, rg k * B k m) HT (fun p' => B p' a) (fun q' => B q' b)

/-- **second-order chain rule**, abstractly: with `B J = 1`,
    `Jᵀ · (Bᵀ Ĥ B + Σ_k ĝ_k · hess_inv_k) · J + Σ_m g_m · HessT_m = Ĥ`, where `g = Bᵀ ĝ` is the real gradient and
    `hess_inv_k = - Σ_m B_km · Bᵀ HessT_m B` -/
theorem hess_chain_abstract (d : ℕ) (J B : ℕ → ℕ → ℚ) (Hh : ℕ → ℕ → ℚ) (rg : ℕ → ℚ) (HT : ℕ → ℕ → ℕ → ℚ)
    (hBJ : ∀ k, k < d → ∀ p, p < d → ∑ a ∈ range d, B k a * J a p = if k = p then 1 else 0)
    (p q : ℕ) (hp : p < d) (hq : q < d) :
    (∑ a ∈ range d, ∑ b ∈ range d, J a p *
        ((∑ k ∈ range d, ∑ l ∈ range d, Hh k l * B k a * B l b)
          + ∑ k ∈ range d, rg k * (-(∑ m ∈ range d, B k m *
              ∑ p' ∈ range d, ∑ q' ∈ range d, HT m p' q' * B p' a * B q' b))) * J b q)
      + ∑ m ∈ range d, (∑ k ∈ range d, rg k * B k m) * HT m p q
      = Hh p q := by
  have hcomb : ∀ a b, (∑ k ∈ range d, ∑ l ∈ range d, Hh k l * B k a * B l b)
        + ∑ k ∈ range d, rg k * (-(∑ m ∈ range d, B k m *
            ∑ p' ∈ range d, ∑ q' ∈ range d, HT m p' q' * B p' a * B q' b))
      = ∑ k ∈ range d, ∑ l ∈ range d,
          (Hh k l + -(∑ m ∈ range d, (∑ k' ∈ range d, rg k' * B k' m) * HT m k l)) * B k a * B l b := by
    intro a b
    rw [curvature_term, ← sum_add_distrib]
    apply sum_congr rfl; intro k _
    rw [← sum_add_distrib]
    apply sum_congr rfl; intro l _
    ring
  simp only [hcomb]
  rw [two_sided_collapse d J B _ hBJ p q hp hq]
  ring

/-! ### from lists to finite sums -/

theorem foldl_add (l : List ℚ) (a : ℚ) : l.foldl (· + ·) a = a + l.sum := by
  induction l generalizing a with
  | nil => simp
  | cons x xs ih => simp only [List.foldl_cons, List.sum_cons, ih]; ring

theorem sumR_range (d : ℕ) (g : ℕ → ℚ) : sumR ((List.range d).map g) = ∑ i ∈ range d, g i := by
  rw [sumR, foldl_add, zero_add]
  induction d with
  | zero => simp
  | succ n ih => simp [List.range_succ, sum_range_succ, ih]

theorem sum_flatMap' (l : List ℕ) (g : ℕ → List ℚ) : (l.flatMap g).sum = (l.map fun a => (g a).sum).sum := by
  induction l with
  | nil => simp
  | cons a l ih => simp [List.flatMap_cons, ih]

theorem sumR_range2 (d : ℕ) (g : ℕ → ℕ → ℚ) :
    sumR ((List.range d).flatMap fun p => (List.range d).map fun q => g p q)
      = ∑ p ∈ range d, ∑ q ∈ range d, g p q := by
  rw [sumR, foldl_add, zero_add, sum_flatMap']
  have : ∀ p, ((List.range d).map fun q => g p q).sum = ∑ q ∈ range d, g p q := by
    intro p
    have := sumR_range d (g p)
    rwa [sumR, foldl_add, zero_add] at this
  simp only [this]
  have := sumR_range d (fun p => ∑ q ∈ range d, g p q)
  rwa [sumR, foldl_add, zero_add] at this

theorem mat_table (d : ℕ) (F : ℕ → ℕ → ℚ) (a b : ℕ) (ha : a < d) (hb : b < d) :
    mat ((List.range d).map fun a => (List.range d).map fun b => F a b) a b = F a b := by
  simp [mat, List.getD_eq_getElem?_getD, List.getElem?_map, List.getElem?_range ha, List.getElem?_range hb]

theorem getD_table (d : ℕ) (F : ℕ → ℚ) (a : ℕ) (ha : a < d) : ((List.range d).map F).getD a 0 = F a := by
  simp [List.getD_eq_getElem?_getD, List.getElem?_map, List.getElem?_range ha]

/-- the inverse computed by the model is a left inverse: `inv(M) · M = 1` -/
theorem inv_mul_entry (d : ℕ) (hd : d = 1 ∨ d = 2 ∨ d = 3) (M : List (List ℚ)) (hdet : det d M ≠ 0)
    (k p : ℕ) (hk : k < d) (hp : p < d) :
    ∑ a ∈ range d, mat (inv d M) k a * mat M a p = if k = p then 1 else 0 := by
  -- take the reference gradient `e_k` in `jacT_physGrad`
  have h := jacT_physGrad d hd M (fun i => if i = k then 1 else 0) hdet p hp
  simp only [jacTApply, sumR_range] at h
  have hg : ∀ a, a ∈ range d → (physGrad d (inv d M) (fun i => if i = k then (1 : ℚ) else 0)).getD a 0
      = mat (inv d M) k a := by
    intro a ha
    rw [physGrad, getD_table d _ a (mem_range.mp ha), sumR_range]
    simp [ite_mul, sum_ite_eq', hk]
  rw [sum_congr rfl fun a ha => by rw [hg a ha]] at h
  have hsym : (if k = p then (1 : ℚ) else 0) = if p = k then 1 else 0 := by
    by_cases hh : k = p
    · subst hh; simp
    · have : ¬ p = k := fun h' => hh h'.symm
      simp [hh, this]
  rw [hsym, ← h]
  apply sum_congr rfl; intro a _
  ring

/-- the physical Hessian computed by the model from reference gradient `rg`, reference Hessian `rh`, the inverse
    Jacobian `Ji` and the Hessian tensor `HT` of the transformation (second-order chain rule of `ParametricEvaluator`) -/
def physHess (d : ℕ) (Ji : List (List ℚ)) (HT : List (List (List ℚ))) (rg : ℕ → ℚ) (rh : ℕ → ℕ → ℚ) :
    List (List ℚ) :=
  let rng := List.range d
  rng.map fun a => rng.map fun b =>
    sumR (rng.flatMap fun k => rng.map fun l => rh k l * mat Ji k a * mat Ji l b)
      + sumR (rng.map fun k => rg k *
          -(sumR (rng.map fun mm => mat Ji k mm * sumR (rng.flatMap fun p => rng.map fun q =>
              (((HT.getD mm []).getD p []).getD q 0) * mat Ji p a * mat Ji q b))))

/-- `(Jᵀ H J)[p][q] + Σ_m g[m] · HT[m][p][q]` -/
def hessPullback (d : ℕ) (J H : List (List ℚ)) (g : List ℚ) (HT : List (List (List ℚ))) (p q : ℕ) : ℚ :=
  sumR ((List.range d).flatMap fun a => (List.range d).map fun b => mat J a p * mat H a b * mat J b q)
    + sumR ((List.range d).map fun mm => g.getD mm 0 * (((HT.getD mm []).getD p []).getD q 0))

/-- **second-order chain rule** of the model, pointwise and for every cell geometry -/
theorem hess_pullback_physHess (d : ℕ) (hd : d = 1 ∨ d = 2 ∨ d = 3) (J : List (List ℚ)) (HT : List (List (List ℚ)))
    (rg : ℕ → ℚ) (rh : ℕ → ℕ → ℚ) (hdet : det d J ≠ 0) (p q : ℕ) (hp : p < d) (hq : q < d) :
    hessPullback d J (physHess d (inv d J) HT rg rh) (physGrad d (inv d J) rg) HT p q = rh p q := by
  have hBJ := inv_mul_entry d hd J hdet
  rw [← hess_chain_abstract d (fun a k => mat J a k) (fun k a => mat (inv d J) k a) rh rg
    (fun m p' q' => ((HT.getD m []).getD p' []).getD q' 0) (fun k hk p hp => hBJ k p hk hp) p q hp hq]
  unfold hessPullback
  rw [sumR_range2, sumR_range]
  congr 1
  · apply sum_congr rfl; intro a ha
    apply sum_congr rfl; intro b hb
    unfold physHess
    rw [mat_table d _ a b (mem_range.mp ha) (mem_range.mp hb), sumR_range2, sumR_range]
    congr 2
    congr 1
    apply sum_congr rfl; intro k _
    rw [sumR_range]
    congr 2
    apply sum_congr rfl; intro m _
    rw [sumR_range2]
  · apply sum_congr rfl; intro m hm
    rw [physGrad, getD_table d _ m (mem_range.mp hm), sumR_range]

open FeatModel.Poly in
/-- the Hessian returned by the model of the evaluator (`ev` / `evcfg` ops) for local basis function `i`: it depends on
    the reference Hessian **and** the reference gradient, the inverse Jacobian and the Hessian tensor of the trafo -/
theorem evalCell_hess {f : Fam} {m : Mesh} {c : Nat} {x : List Rat} {tab : BasisTab} {ce : CellEval}
    (ht : tabOf f m.kind m.dim = some tab) (he : evalCell f m c x = some ce) (hh : tab.hasHess = true)
    {i : Nat} (hi : i < tab.nloc) :
    (ce.phi.getD i { value := 0, grad := [], hess := [] }).hess
      = physHess m.dim (inv m.dim (jacMat m.kind m.dim (m.entVerts m.dim c) x))
          (hessTen m.kind m.dim (m.entVerts m.dim c) x)
          (fun k => ((List.range m.dim).map fun k =>
            evalAt x (tab.grad ((slotPerm f m c).getD i i) k)).getD k 0)
          (fun k l => evalAt x (tab.hes ((slotPerm f m c).getD i i) k l)) := by
  simp only [evalCell, ht] at he
  cases he
  simp only [List.getD_eq_getElem?_getD, List.getElem?_map, List.getElem?_range hi, Option.map_some,
    Option.getD_some, hh, if_true]
  rfl

open FeatModel.Poly in
/-- **second-order chain rule tied to the `ev` output**: with the returned Jacobian `J`, Hessian tensor `HT` of the
    transformation, gradient `g` and Hessian `H` of basis function `i`:
    `(Jᵀ H J)[p][q] + Σ_m g[m] · HT[m][p][q] = ∂²φ̂_i/∂x̂_p∂x̂_q (x̂)` – the Hessian of `φ̂_i ∘ T⁻¹` -/
theorem hess_chain_rule_ev {f : Fam} {m : Mesh} {c : Nat} {x : List Rat} {tab : BasisTab} {ce : CellEval}
    (hd : m.dim = 1 ∨ m.dim = 2 ∨ m.dim = 3)
    (ht : tabOf f m.kind m.dim = some tab) (he : evalCell f m c x = some ce) (hg : tab.hasGrad = true)
    (hh : tab.hasHess = true)
    (hdet : det m.dim (jacMat m.kind m.dim (m.entVerts m.dim c) x) ≠ 0)
    {i : Nat} (hi : i < tab.nloc) {p q : Nat} (hp : p < m.dim) (hq : q < m.dim) :
    hessPullback m.dim (jacMat m.kind m.dim (m.entVerts m.dim c) x)
        (ce.phi.getD i { value := 0, grad := [], hess := [] }).hess
        (ce.phi.getD i { value := 0, grad := [], hess := [] }).grad
        (hessTen m.kind m.dim (m.entVerts m.dim c) x) p q
      = evalAt x (tab.hes ((slotPerm f m c).getD i i) p q) := by
  rw [evalCell_hess ht he hh hi, evalCell_grad ht he hg hi,
    hess_pullback_physHess m.dim hd _ _ _ _ hdet p q hp hq]

end FeatModel.FE
