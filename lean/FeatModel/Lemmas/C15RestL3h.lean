import FeatModel.Model.FEDual
/-! kernel-checked: Hessian polynomials of the Lagrange-3 hexahedron table = formal derivatives of the gradient polynomials (basis functions 0..31) -/
namespace FeatModel.FE
open FeatModel.Poly FeatModel.Gen
set_option maxRecDepth 100000 in
theorem hess_l3h3_a : hessOkPart BasisH3.l3 (List.range' 0 32) = true := by decide +kernel
end FeatModel.FE
