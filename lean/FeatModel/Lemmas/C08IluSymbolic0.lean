import FeatModel.Lemmas.C08IluFactorAux
import FeatModel.Lemmas.C08Sweeps
import FeatModel.Lemmas.C08IluOffs
/-! C08: the symbolic ILU, level 0: for every matrix with sorted rows and stored diagonal, `set_struct_csr` succeeds and
`factorize_symbolic(p)` yields, for EVERY `p`, a well-shaped (`wf`), sorted (hence duplicate-free) structure that
contains the pattern of the matrix. -/
namespace FeatModel.Solver
open FeatModel.LA

variable {α : Type}

namespace Sym0
open Offs

/-! ### Prop form back to the Boolean checks -/

/-- converse of `IluSym.WFP.of_bool` -/
theorem wf_sorted_of_WFP {s : IluSym} (w : s.WFP) : s.wf = true ∧ s.sorted = true := by
  constructor
  · simp only [IluSym.wf, Bool.and_eq_true, beq_iff_eq, List.all_eq_true, List.mem_range, List.mem_range'_1,
      decide_eq_true_eq, Array.all_eq_true]
    refine ⟨⟨⟨⟨⟨⟨⟨⟨w.szL, w.szU⟩, w.firstL⟩, w.firstU⟩, w.lastL⟩, w.lastU⟩, ?_⟩, ?_⟩, ?_⟩
    · intro k hk
      have := w.colL k hk
      simpa [Array.getD, hk] using this
    · intro k hk
      have := w.colU k hk
      simpa [Array.getD, hk] using this
    · intro i hi
      refine ⟨⟨⟨w.monoL i hi, w.monoU i hi⟩, ?_⟩, ?_⟩
      · intro k hk
        have hks : k < s.ciL.size := by have := w.endL_le hi; omega
        rw [Csr.getD_eq_of_lt _ hks s.n 0]
        exact w.lowL i hi k hk.1 (by omega)
      · intro k hk
        have hks : k < s.ciU.size := by have := w.endU_le hi; omega
        rw [Csr.getD_eq_of_lt _ hks s.n 0]
        exact ⟨w.uppU i hi k hk.1 (by omega), w.colU k hks⟩
  · simp only [IluSym.sorted, Bool.and_eq_true, List.all_eq_true, List.mem_range, List.mem_range'_1,
      decide_eq_true_eq]
    intro i hi
    exact ⟨fun k hk hk2 => w.sortL i hi k hk.1 hk2, fun k hk hk2 => w.sortU i hi k hk.1 hk2⟩

/-! ### pushing a range of a source array -/

/-- `for (j = b; j < b + k; ++j) a.push_back(src[j]);` -/
def pushR (src a : Array Nat) (b k : Nat) : Array Nat :=
  (List.range' b k).foldl (fun a j => a.push (src.getD j 0)) a

theorem pushR_zero (src a : Array Nat) (b : Nat) : pushR src a b 0 = a := rfl

theorem pushR_succ (src a : Array Nat) (b k : Nat) :
    pushR src a b (k + 1) = (pushR src a b k).push (src.getD (b + k) 0) := by
  unfold pushR
  rw [List.range'_concat, List.foldl_append]
  simp only [List.foldl_cons, List.foldl_nil, Nat.one_mul]

theorem pushR_cons (src a : Array Nat) (b k : Nat) :
    pushR src a b (k + 1) = pushR src (a.push (src.getD b 0)) (b + 1) k := by
  unfold pushR
  rw [List.range'_succ, List.foldl_cons]

theorem pushR_size (src a : Array Nat) (b : Nat) : ∀ k, (pushR src a b k).size = a.size + k
  | 0 => rfl
  | k + 1 => by rw [pushR_succ, Array.size_push, pushR_size src a b k]; omega

theorem pushR_getD_lt (src a : Array Nat) (b : Nat) {t : Nat} (ht : t < a.size) :
    ∀ k, (pushR src a b k).getD t 0 = a.getD t 0
  | 0 => rfl
  | k + 1 => by
    rw [pushR_succ, getD_push_lt _ _ _ (by rw [pushR_size]; omega), pushR_getD_lt src a b ht k]

theorem pushR_getD_new (src a : Array Nat) (b : Nat) :
    ∀ k t, t < k → (pushR src a b k).getD (a.size + t) 0 = src.getD (b + t) 0
  | 0, t, ht => absurd ht (Nat.not_lt_zero _)
  | k + 1, t, ht => by
    rw [pushR_succ]
    rcases Nat.lt_or_ge t k with hlt | hge
    · rw [getD_push_lt _ _ _ (by rw [pushR_size]; omega)]
      exact pushR_getD_new src a b k t hlt
    · have : t = k := by omega
      subst this
      have h := getD_push_eq (pushR src a b t) (src.getD (b + t) 0)
      rw [pushR_size] at h
      exact h

theorem pushR_col (src a : Array Nat) (b k n : Nat) (ha : ∀ t, t < a.size → a.getD t 0 < n)
    (hs : ∀ j, b ≤ j → j < b + k → src.getD j 0 < n) :
    ∀ t, t < (pushR src a b k).size → (pushR src a b k).getD t 0 < n := by
  intro t ht
  rw [pushR_size] at ht
  rcases Nat.lt_or_ge t a.size with hlt | hge
  · rw [pushR_getD_lt src a b hlt]
    exact ha t hlt
  · have h := pushR_getD_new src a b k (t - a.size) (by omega)
    rw [show a.size + (t - a.size) = t by omega] at h
    rw [h]
    exact hs _ (by omega) (by omega)

/-! ### the `L` scan -/

theorem scanStructL_eq (colInd : Array Nat) (i jend p : Nat) (hp : p < jend) (hpi : ¬ colInd.getD p 0 < i) :
    ∀ (f j : Nat) (ciL : Array Nat), j ≤ p → p - j ≤ f → (∀ k, j ≤ k → k < p → colInd.getD k 0 < i) →
      scanStructL colInd i jend f j ciL = (p, pushR colInd ciL j (p - j))
  | 0, j, ciL, hj, hf, _ => by
    have : j = p := by omega
    subst this
    rw [Nat.sub_self]
    rfl
  | f + 1, j, ciL, hj, hf, hlo => by
    rw [scanStructL]
    rcases Nat.lt_or_ge j p with hlt | hge
    · have hc : (decide (j < jend) && decide (colInd.getD j 0 < i)) = true := by
        simp only [Bool.and_eq_true, decide_eq_true_eq]
        exact ⟨by omega, hlo j (Nat.le_refl _) hlt⟩
      rw [if_pos hc, scanStructL_eq colInd i jend p hp hpi f (j + 1) _ (by omega) (by omega)
        (fun k hk1 hk2 => hlo k (by omega) hk2)]
      rw [show p - j = (p - (j + 1)) + 1 by omega, pushR_cons]
    · have : j = p := by omega
      subst this
      have hc : ¬ (decide (j < jend) && decide (colInd.getD j 0 < i)) = true := by
        simp only [Bool.and_eq_true, decide_eq_true_eq]
        exact fun h => hpi h.2
      rw [if_neg hc, Nat.sub_self]
      rfl

/-! ### the row invariant -/

/-- row `i` of the split structure mirrors row `i` of `A`: diagonal at `p`, the part before `p` is the `L` row, the
    part behind `p` is the `U` row -/
def RowOk (A : Csr α) (rpL ciL rpU ciU : Array Nat) (i : Nat) : Prop :=
  ∃ p, A.rowBegin i ≤ p ∧ p < A.rowEnd i ∧ A.colInd.getD p 0 = i ∧
    (∀ k, A.rowBegin i ≤ k → k < p → A.colInd.getD k 0 < i) ∧
    (∀ k, p < k → k < A.rowEnd i → i < A.colInd.getD k 0) ∧
    rpL.getD (i + 1) 0 = rpL.getD i 0 + (p - A.rowBegin i) ∧
    (∀ k, A.rowBegin i ≤ k → k < p → ciL.getD (rpL.getD i 0 + (k - A.rowBegin i)) 0 = A.colInd.getD k 0) ∧
    rpU.getD (i + 1) 0 = rpU.getD i 0 + (A.rowEnd i - (p + 1)) ∧
    (∀ k, p < k → k < A.rowEnd i → ciU.getD (rpU.getD i 0 + (k - (p + 1))) 0 = A.colInd.getD k 0)

theorem RowOk.mono {A : Csr α} {rpL ciL rpU ciU rpL' ciL' rpU' ciU' : Array Nat} {i : Nat}
    (h : RowOk A rpL ciL rpU ciU i)
    (l1 : rpL'.getD i 0 = rpL.getD i 0) (l2 : rpL'.getD (i + 1) 0 = rpL.getD (i + 1) 0)
    (l3 : ∀ x, x < rpL.getD (i + 1) 0 → ciL'.getD x 0 = ciL.getD x 0)
    (u1 : rpU'.getD i 0 = rpU.getD i 0) (u2 : rpU'.getD (i + 1) 0 = rpU.getD (i + 1) 0)
    (u3 : ∀ x, x < rpU.getD (i + 1) 0 → ciU'.getD x 0 = ciU.getD x 0) :
    RowOk A rpL' ciL' rpU' ciU' i := by
  obtain ⟨p, h1, h2, h3, h4, h5, h6, h7, h8, h9⟩ := h
  refine ⟨p, h1, h2, h3, h4, h5, by rw [l1, l2]; exact h6, ?_, by rw [u1, u2]; exact h8, ?_⟩
  · intro k hk1 hk2
    rw [l1, l3 _ (by omega)]
    exact h7 k hk1 hk2
  · intro k hk1 hk2
    rw [u1, u3 _ (by omega)]
    exact h9 k hk1 hk2

/-- state after `m` rows -/
structure Inv (A : Csr α) (m : Nat) (t : IluSym) : Prop where
  n : t.n = A.rows
  offL : OffInv t.rpL m t.ciL.size
  offU : OffInv t.rpU m t.ciU.size
  colL : ∀ k, k < t.ciL.size → t.ciL.getD k 0 < A.rows
  colU : ∀ k, k < t.ciU.size → t.ciU.getD k 0 < A.rows
  rows : ∀ i, i < m → RowOk A t.rpL t.ciL t.rpU t.ciU i

theorem offInv_le_last {rp : Array Nat} {m sz : Nat} (h : OffInv rp m sz) {i : Nat} (hi : i ≤ m) :
    rp.getD i 0 ≤ sz := by
  have := rp_mono rp m h.mono m i hi (Nat.le_refl _)
  rw [h.last] at this
  exact this

/-- the body of the row loop of `set_struct_csr` -/
def rowStep (n : Nat) (rowPtr colInd : Array Nat) (s : IluSym) (i : Nat) : Option IluSym :=
  let j0 := rowPtr.getD i 0
  let jend := rowPtr.getD (i + 1) 0
  let r := scanStructL colInd i jend (jend - j0) j0 s.ciL
  if colInd.getD r.1 n != i then none
  else
    let ciU := (List.range' (r.1 + 1) (jend - (r.1 + 1))).foldl (fun a k => a.push (colInd.getD k 0)) s.ciU
    some { s with ciL := r.2, ciU := ciU, rpL := s.rpL.push r.2.size, rpU := s.rpU.push ciU.size }

theorem setStructCsr_eq (n : Nat) (rowPtr colInd : Array Nat) :
    setStructCsr n rowPtr colInd = (List.range n).foldlM (rowStep n rowPtr colInd)
      { n := n, rpL := #[0], ciL := #[], rpU := #[0], ciU := #[] } := rfl

/-- appending a row to a proper offset structure: the old rows are untouched -/
theorem push_old {rp ci : Array Nat} {m : Nat} (ho : OffInv rp m ci.size) (src : Array Nat) (b k v : Nat)
    {i : Nat} (hi : i < m) :
    (rp.push v).getD i 0 = rp.getD i 0 ∧ (rp.push v).getD (i + 1) 0 = rp.getD (i + 1) 0 ∧
    ∀ x, x < rp.getD (i + 1) 0 → (pushR src ci b k).getD x 0 = ci.getD x 0 := by
  refine ⟨getD_push_lt _ _ _ (by rw [ho.size]; omega), getD_push_lt _ _ _ (by rw [ho.size]; omega), ?_⟩
  intro x hx
  have := offInv_le_last ho (i := i + 1) (by omega)
  exact pushR_getD_lt src ci b (by omega) k

/-- appending a row: the new row -/
theorem push_new {rp ci : Array Nat} {m : Nat} (ho : OffInv rp m ci.size) (src : Array Nat) (b k : Nat) :
    (rp.push (pushR src ci b k).size).getD m 0 = ci.size ∧
    (rp.push (pushR src ci b k).size).getD (m + 1) 0 = ci.size + k := by
  constructor
  · rw [getD_push_lt _ _ _ (by rw [ho.size]; omega)]
    exact ho.last
  · have := getD_push_eq rp (pushR src ci b k).size
    rw [ho.size] at this
    rw [this, pushR_size]

theorem rowStep_inv {A : Csr α} (h : SortedDiag A) (m : Nat) (hm : m < A.rows) (t : IluSym) (ht : Inv A m t) :
    ∃ t', rowStep A.rows A.rowPtr A.colInd t m = some t' ∧ Inv A (m + 1) t' := by
  obtain ⟨p, hp1, hp2, hp3, hlo, hup⟩ := h.pos hm
  have hend := Csr.rowEnd_le h.wf hm
  have hscan : scanStructL A.colInd m (A.rowPtr.getD (m + 1) 0) (A.rowPtr.getD (m + 1) 0 - A.rowPtr.getD m 0)
      (A.rowPtr.getD m 0) t.ciL = (p, pushR A.colInd t.ciL (A.rowBegin m) (p - A.rowBegin m)) :=
    scanStructL_eq A.colInd m (A.rowEnd m) p hp2 (by omega) _ (A.rowBegin m) t.ciL hp1
      (by show p - A.rowBegin m ≤ A.rowEnd m - A.rowBegin m; omega) hlo
  have hd : A.colInd.getD p A.rows = m := by
    rw [Csr.getD_eq_of_lt _ (by omega) A.rows 0]
    exact hp3
  refine ⟨{ t with ciL := pushR A.colInd t.ciL (A.rowBegin m) (p - A.rowBegin m),
                   ciU := pushR A.colInd t.ciU (p + 1) (A.rowEnd m - (p + 1)),
                   rpL := t.rpL.push (pushR A.colInd t.ciL (A.rowBegin m) (p - A.rowBegin m)).size,
                   rpU := t.rpU.push (pushR A.colInd t.ciU (p + 1) (A.rowEnd m - (p + 1))).size }, ?_, ?_⟩
  · unfold rowStep
    simp only [hscan, hd, bne_self_eq_false, Bool.false_eq_true, if_false]
    rfl
  · have hcols : ∀ j, j < A.rowEnd m → A.colInd.getD j 0 < A.rows := by
      intro j hj
      rw [h.sq]
      exact h.wf.colLt j (by omega)
    obtain ⟨nL1, nL2⟩ := push_new ht.offL A.colInd (A.rowBegin m) (p - A.rowBegin m)
    obtain ⟨nU1, nU2⟩ := push_new ht.offU A.colInd (p + 1) (A.rowEnd m - (p + 1))
    refine ⟨ht.n, ht.offL.push _ (by rw [pushR_size]; omega), ht.offU.push _ (by rw [pushR_size]; omega), ?_, ?_, ?_⟩
    · exact pushR_col _ _ _ _ _ ht.colL (fun j hj1 hj2 => hcols j (by omega))
    · exact pushR_col _ _ _ _ _ ht.colU (fun j hj1 hj2 => hcols j (by omega))
    · intro i hi
      rcases Nat.lt_or_ge i m with hlt | hge
      · obtain ⟨l1, l2, l3⟩ := push_old ht.offL A.colInd (A.rowBegin m) (p - A.rowBegin m)
          (pushR A.colInd t.ciL (A.rowBegin m) (p - A.rowBegin m)).size hlt
        obtain ⟨u1, u2, u3⟩ := push_old ht.offU A.colInd (p + 1) (A.rowEnd m - (p + 1))
          (pushR A.colInd t.ciU (p + 1) (A.rowEnd m - (p + 1))).size hlt
        exact (ht.rows i hlt).mono l1 l2 l3 u1 u2 u3
      · have : i = m := by omega
        subst this
        refine ⟨p, hp1, hp2, hp3, hlo, hup, ?_, ?_, ?_, ?_⟩
        · show (t.rpL.push _).getD (i + 1) 0 = (t.rpL.push _).getD i 0 + _
          rw [nL1, nL2]
        · intro k hk1 hk2
          show (pushR _ _ _ _).getD ((t.rpL.push _).getD i 0 + _) 0 = _
          rw [nL1, pushR_getD_new _ _ _ _ _ (by omega)]
          congr 1
          omega
        · show (t.rpU.push _).getD (i + 1) 0 = (t.rpU.push _).getD i 0 + _
          rw [nU1, nU2]
        · intro k hk1 hk2
          show (pushR _ _ _ _).getD ((t.rpU.push _).getD i 0 + _) 0 = _
          rw [nU1, pushR_getD_new _ _ _ _ _ (by omega)]
          congr 1
          omega

/-- a `foldlM` in `Option` whose steps all succeed under the invariant succeeds and keeps the invariant -/
theorem foldlM_range'_some {σ : Type} (P : Nat → σ → Prop) (f : σ → Nat → Option σ) (e : Nat)
    (hstep : ∀ m s, m < e → P m s → ∃ s', f s m = some s' ∧ P (m + 1) s') :
    ∀ k a s, a + k ≤ e → P a s → ∃ s', (List.range' a k).foldlM f s = some s' ∧ P (a + k) s'
  | 0, a, s, _, h => ⟨s, rfl, h⟩
  | k + 1, a, s, hk, h => by
    obtain ⟨s1, hf, h1⟩ := hstep a s (by omega) h
    obtain ⟨s', hs', h'⟩ := foldlM_range'_some P f e hstep k (a + 1) s1 (by omega) h1
    refine ⟨s', ?_, by rwa [show a + 1 + k = a + (k + 1) by omega] at h'⟩
    rw [List.range'_succ, List.foldlM_cons, hf]
    simpa using hs'

theorem inv_base (A : Csr α) : Inv A 0 { n := A.rows, rpL := #[0], ciL := #[], rpU := #[0], ciU := #[] } :=
  ⟨rfl, OffInv.base, OffInv.base, fun _ hk => absurd hk (Nat.not_lt_zero _),
    fun _ hk => absurd hk (Nat.not_lt_zero _), fun _ hi => absurd hi (Nat.not_lt_zero _)⟩

theorem setStructCsr_inv {A : Csr α} (h : SortedDiag A) :
    ∃ s, setStructCsr A.rows A.rowPtr A.colInd = some s ∧ Inv A A.rows s := by
  rw [setStructCsr_eq, List.range_eq_range']
  have := foldlM_range'_some (Inv A) (rowStep A.rows A.rowPtr A.colInd) A.rows
    (fun m s hm hs => rowStep_inv h m hm s hs) A.rows 0 _ (by omega) (inv_base A)
  rwa [Nat.zero_add] at this

/-! ### the shape facts from the invariant -/

theorem Inv.wfp {A : Csr α} (h : SortedDiag A) {s : IluSym} (hs : Inv A A.rows s) : s.WFP := by
  have hn := hs.n
  have oL := hs.offL
  have oU := hs.offU
  rw [← hn] at oL oU
  refine ⟨oL.size, oU.size, oL.first, oU.first, oL.last, oU.last, ?_, ?_, oL.mono, oU.mono, ?_, ?_, ?_, ?_⟩
  · intro k hk; rw [hn]; exact hs.colL k hk
  · intro k hk; rw [hn]; exact hs.colU k hk
  · intro i hi k hk1 hk2
    obtain ⟨p, h1, h2, h3, h4, h5, h6, h7, h8, h9⟩ := hs.rows i (by omega)
    have e := h7 (A.rowBegin i + (k - s.rpL.getD i 0)) (by omega) (by omega)
    rw [show s.rpL.getD i 0 + (A.rowBegin i + (k - s.rpL.getD i 0) - A.rowBegin i) = k by omega] at e
    rw [e]
    exact h4 _ (by omega) (by omega)
  · intro i hi k hk1 hk2
    obtain ⟨p, h1, h2, h3, h4, h5, h6, h7, h8, h9⟩ := hs.rows i (by omega)
    have e := h9 (p + 1 + (k - s.rpU.getD i 0)) (by omega) (by omega)
    rw [show s.rpU.getD i 0 + (p + 1 + (k - s.rpU.getD i 0) - (p + 1)) = k by omega] at e
    rw [e]
    exact h5 _ (by omega) (by omega)
  · intro i hi k hk1 hk2
    obtain ⟨p, h1, h2, h3, h4, h5, h6, h7, h8, h9⟩ := hs.rows i (by omega)
    have e := h7 (A.rowBegin i + (k - s.rpL.getD i 0)) (by omega) (by omega)
    rw [show s.rpL.getD i 0 + (A.rowBegin i + (k - s.rpL.getD i 0) - A.rowBegin i) = k by omega] at e
    have e' := h7 (A.rowBegin i + (k - s.rpL.getD i 0) + 1) (by omega) (by omega)
    rw [show s.rpL.getD i 0 + (A.rowBegin i + (k - s.rpL.getD i 0) + 1 - A.rowBegin i) = k + 1 by omega] at e'
    rw [e, e']
    exact h.sorted i (by omega) _ (by omega) (by omega)
  · intro i hi k hk1 hk2
    obtain ⟨p, h1, h2, h3, h4, h5, h6, h7, h8, h9⟩ := hs.rows i (by omega)
    have e := h9 (p + 1 + (k - s.rpU.getD i 0)) (by omega) (by omega)
    rw [show s.rpU.getD i 0 + (p + 1 + (k - s.rpU.getD i 0) - (p + 1)) = k by omega] at e
    have e' := h9 (p + 1 + (k - s.rpU.getD i 0) + 1) (by omega) (by omega)
    rw [show s.rpU.getD i 0 + (p + 1 + (k - s.rpU.getD i 0) + 1 - (p + 1)) = k + 1 by omega] at e'
    rw [e, e']
    exact h.sorted i (by omega) _ (by omega) (by omega)

theorem findPos_isSome (idx : Array Nat) (b e c k : Nat) (hk1 : b ≤ k) (hk2 : k < e) (hk : idx.getD k 0 = c) :
    (findPos idx b e c).isSome = true := by
  cases hf : findPos idx b e c with
  | some q => rfl
  | none => exact absurd hk (findPos_none idx b e c hf k hk1 hk2)

theorem Inv.covers {A : Csr α} {s : IluSym} (hs : Inv A A.rows s) : s.covers A = true := by
  simp only [IluSym.covers, List.all_eq_true, List.mem_range, List.mem_range'_1, Bool.or_eq_true, beq_iff_eq]
  intro i hi k hk
  rw [hs.n] at hi
  obtain ⟨p, h1, h2, h3, h4, h5, h6, h7, h8, h9⟩ := hs.rows i hi
  rcases Nat.lt_trichotomy k p with hlt | heq | hgt
  · left; right
    exact findPos_isSome _ _ _ _ (s.rpL.getD i 0 + (k - A.rowBegin i)) (by omega) (by omega) (h7 k hk.1 hlt)
  · left; left
    rw [heq]; exact h3
  · right
    exact findPos_isSome _ _ _ _ (s.rpU.getD i 0 + (k - (p + 1))) (by omega) (by omega) (h9 k hgt (by omega))

end Sym0

/-- level-0 structure: `set_struct_csr` never throws on a matrix with stored diagonal and splits its pattern into the
    strictly lower and strictly upper parts -/
theorem setStructCsr_spec (A : Csr α) (hA : sortedDiag A = true) :
    ∃ s0, setStructCsr A.rows A.rowPtr A.colInd = some s0 ∧ s0.n = A.rows ∧ s0.wf = true ∧ s0.sorted = true
      ∧ s0.covers A = true := by
  have h := SortedDiag.of_bool hA
  obtain ⟨s, hs, hinv⟩ := Sym0.setStructCsr_inv h
  obtain ⟨hw, hso⟩ := Sym0.wf_sorted_of_WFP (hinv.wfp h)
  exact ⟨s, hs, hinv.n, hw, hso, hinv.covers⟩

end FeatModel.Solver
