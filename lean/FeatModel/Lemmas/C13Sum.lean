/- Helper lemmas for C13.sync0_sum: generic list lemmas, one scatter through a duplicate-free mirror. -/
import Mathlib.Data.List.Nodup
import Mathlib.Data.List.Perm.Basic
import FeatModel.Lemmas.C13Sync
open FeatModel.Dist

namespace FeatModel.C13L

variable {α : Type} [Field α]

/-! ### generic list lemmas -/

theorem sum_range_indicator (n r : Nat) (hr : r < n) (a : α) :
    ((List.range n).map fun s => if s = r then a else 0).sum = a := by
  induction n with
  | zero => omega
  | succ n ih =>
    rw [List.range_succ, List.map_append, List.sum_append]
    by_cases h : r = n
    · subst h
      have : ((List.range r).map fun s => if s = r then a else (0:α)) = (List.range r).map fun _ => 0 := by
        apply List.map_congr_left
        intro s hs
        have := List.mem_range.1 hs
        rw [if_neg (by omega)]
      rw [this]; simp
    · rw [ih (by omega)]; simp [Ne.symm h]

theorem map_getD_range {β γ : Type} (l : List β) (d : β) (f : β → γ) :
    (List.range l.length).map (fun k => f (l.getD k d)) = l.map f := by
  apply List.ext_getElem
  · simp
  · intro i h1 h2
    simp at h1
    simp [List.getD_eq_getElem?_getD, h1]

theorem find?_fst_of_nodup {β : Type} (l : List (Nat × β)) (hn : (l.map (·.1)).Nodup) (nb : Nat × β)
    (hm : nb ∈ l) (s : Nat) (hs : nb.1 = s) : l.find? (fun x => x.1 == s) = some nb := by
  induction l with
  | nil => cases hm
  | cons x l ih =>
    rw [List.map_cons, List.nodup_cons] at hn
    rw [List.find?_cons]
    rcases List.mem_cons.1 hm with h | h
    · subst h; simp [hs]
    · have : x.1 ≠ s := by
        intro hx
        apply hn.1
        rw [hx, ← hs]
        exact List.mem_map_of_mem h
      have hb : (x.1 == s) = false := by simpa using this
      simp only [hb, ih hn.2 h]

theorem find?_fst_none {β : Type} (l : List (Nat × β)) (s : Nat) (hs : s ∉ l.map (·.1)) :
    l.find? (fun x => x.1 == s) = none := by
  rw [List.find?_eq_none]
  intro x hx
  simp only [beq_iff_eq]
  intro h
  exact hs (h ▸ List.mem_map_of_mem hx)

/-- reindexing a sum over neighbours by rank -/
theorem sum_reindex_find {β : Type} (l : List (Nat × β)) (n : Nat) (hn : (l.map (·.1)).Nodup)
    (hlt : ∀ nb ∈ l, nb.1 < n) (f : Nat × β → α) :
    (l.map f).sum = ((List.range n).map fun s => ((l.find? (fun x => x.1 == s)).map f).getD 0).sum := by
  induction l with
  | nil => simp
  | cons x l ih =>
    rw [List.map_cons, List.nodup_cons] at hn
    have hx : x.1 < n := hlt x List.mem_cons_self
    have key : ∀ s, (((x :: l).find? (fun y => y.1 == s)).map f).getD 0
        = (if s = x.1 then f x else 0) + ((l.find? (fun y => y.1 == s)).map f).getD 0 := by
      intro s
      rw [List.find?_cons]
      by_cases h : s = x.1
      · subst h
        simp [find?_fst_none l _ hn.1]
      · have hb : (x.1 == s) = false := by simpa using Ne.symm h
        simp only [hb, if_neg h, zero_add]
    simp only [key]
    rw [List.map_cons, List.sum_cons, List.sum_map_add, sum_range_indicator n _ hx,
      ih hn.2 (fun nb h => hlt nb (List.mem_cons_of_mem _ h))]

/-- the only index of a duplicate-free list holding `g` -/
theorem filter_range_getD_eq {l : List Nat} (hn : l.Nodup) (j : Nat) (hj : j < l.length) (g : Nat)
    (hg : l.getD j 0 = g) :
    (List.range l.length).filter (fun j' => l.getD j' 0 == g) = [j] := by
  apply List.perm_singleton.1
  apply (List.perm_ext_iff_of_nodup (List.nodup_range.filter _) (List.nodup_singleton j)).2
  intro k
  simp only [List.mem_filter, List.mem_range, beq_iff_eq, List.mem_singleton]
  constructor
  · rintro ⟨hk, hkg⟩
    rw [← hg] at hkg
    simp only [List.getD_eq_getElem?_getD, List.getElem?_eq_getElem hk, List.getElem?_eq_getElem hj,
      Option.getD_some] at hkg
    exact (hn.getElem_inj_iff).1 hkg
  · rintro rfl; exact ⟨hj, hg⟩

theorem filter_range_getD_nil {l : List Nat} (g : Nat) (hg : ∀ j, j < l.length → l.getD j 0 ≠ g) :
    (List.range l.length).filter (fun j' => l.getD j' 0 == g) = [] := by
  rw [List.filter_eq_nil_iff]
  intro k hk
  simpa using hg k (List.mem_range.1 hk)

/-! ### one scatter through a duplicate-free mirror -/

theorem contrib_not_mem (m : List Nat) (buf : List α) (a : α) (i : Nat) (hi : i ∉ m) : contrib m buf a i = 0 := by
  unfold contrib
  rw [List.filter_eq_nil_iff.2]
  · simp
  · intro p hp
    have := (List.of_mem_zip hp).1
    simp only [decide_eq_true_eq]
    rintro rfl; exact hi this

theorem contrib_nodup (m : List Nat) (hn : m.Nodup) (buf : List α) (a : α) (k : Nat) (hk : k < m.length)
    (hb : k < buf.length) : contrib m buf a m[k] = a * buf[k] := by
  induction m generalizing buf k with
  | nil => simp at hk
  | cons x m ih =>
    cases buf with
    | nil => simp at hb
    | cons b buf =>
      rw [List.nodup_cons] at hn
      cases k with
      | zero =>
        have := contrib_not_mem m buf a x hn.1
        unfold contrib at this ⊢
        simp [this]
      | succ k =>
        have hk' : k < m.length := by simpa using hk
        have hne : x ≠ m[k] := by
          intro h; apply hn.1; rw [h]; exact List.getElem_mem _
        have := ih hn.2 buf k (by simpa using hk) (by simpa using hb)
        unfold contrib at this ⊢
        simp [hne, this]

end FeatModel.C13L
