import FeatModel.Model.Burgers
import FeatModel.Lemmas.C16_identities
import Mathlib.Algebra.Field.Defs
/-!
Helper lemmas for C16, part 5: the per-cell streamline-diffusion parameter of the Burgers routes does not depend on the
state left by the previous cell.
-/
namespace C16L
open FeatModel.Asm FeatModel.Burgers

section core
variable {α : Type} [Add α] [Mul α] [Div α] [OfNat α 0] [OfNat α 1] [OfNat α 2] [LT α] [DecidableLT α]

theorem sdLocal_prepare (p : Params α) (prev nv h : α) (m : Nat → Nat → α) :
    sdLocal p (prepareDelta p prev nv h) m = sdLocal p (localDelta p nv h) m := by
  unfold sdLocal prepareDelta
  cases hs : p.needSD <;> simp

theorem sdCalls_eq_map (p : Params α) (prev : α) (cells : List (Cell α)) :
    sdCalls p prev cells = cells.map (sdCellCall p) := by
  induction cells generalizing prev with
  | nil => rfl
  | cons c t ih =>
    simp only [sdCalls, List.map_cons, sdCellCall, sdLocal_prepare, ih]

theorem deltaSeq_eq_map (p : Params α) (prev : α) (l : List (α × α)) (hs : p.needSD = true) :
    deltaSeq p prev l = l.map fun q => localDelta p q.1 q.2 := by
  induction l generalizing prev with
  | nil => rfl
  | cons c t ih =>
    obtain ⟨nv, h⟩ := c
    simp only [deltaSeq, List.map_cons, prepareDelta, hs, if_true, ih]

end core
end C16L
