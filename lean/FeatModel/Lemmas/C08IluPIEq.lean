import FeatModel.Lemmas.C08IluPIAux
/-! C08 (partial-inverse port): the index-faithful `factorize_numeric_il_du` (merge pointers `pl`, `pu`, `k`, early
`break`) equals the find-based formulation `factorizeNumericS` on every well-shaped sorted pattern, over a
`Ring` with an arbitrary `Div` (no law on `/` is needed here).  The generic loop / `findPos` / `mergeSub` lemmas are algebra-free and imported from `C08IluNumEq`. -/
namespace FeatModel.Solver.PI
open FeatModel.LA FeatModel.Solver

variable {α : Type} [Ring α]

/-- `mergeSub_find` of `C08IluNumEq`, restated in this module (the `match` of the statement is elaborated here, so that
    it is syntactically the one of `elimEntry_low` / `elimEntry_upp` below) -/
theorem mergeSub_find_pi (idx : Array Nat) (b q ck : Nat) (t : α)
    (hmono : ∀ k k', b ≤ k → k < k' → k' < q → idx.getD k 0 < idx.getD k' 0)
    (a : Array α) (p : Nat) (hbp : b ≤ p) (hpq : p ≤ q) (hlt : ∀ r, b ≤ r → r < p → idx.getD r 0 < ck) :
    (mergeSub idx q ck t (q - p) a p).1 =
        (match findPos idx b q ck with
          | some r => a.setIfInBounds r (a.getD r 0 - t)
          | none => a) ∧
      p ≤ (mergeSub idx q ck t (q - p) a p).2 ∧ (mergeSub idx q ck t (q - p) a p).2 ≤ q ∧
      ∀ r, b ≤ r → r < (mergeSub idx q ck t (q - p) a p).2 → idx.getD r 0 ≤ ck :=
  mergeSub_find idx b q ck t hmono a p hbp hpq hlt

/-! ### the three cases of `elimEntry` on an explicit state -/

theorem elimEntry_low (s : IluSym) (i : Nat) (lij : α) (dl du dd : Array α) (k : Nat) (h : s.ciU.getD k 0 < i) :
    elimEntry s i lij ⟨dl, du, dd⟩ k =
      ⟨(match findPos s.ciL (s.rpL.getD i 0) (s.rpL.getD (i + 1) 0) (s.ciU.getD k 0) with
          | some r => dl.setIfInBounds r (dl.getD r 0 - lij * du.getD k 0)
          | none => dl), du, dd⟩ := by
  unfold elimEntry
  simp only []
  rw [if_pos h]
  cases findPos s.ciL (s.rpL.getD i 0) (s.rpL.getD (i + 1) 0) (s.ciU.getD k 0) <;> rfl

theorem elimEntry_diag (s : IluSym) (i : Nat) (lij : α) (dl du dd : Array α) (k : Nat) (h : s.ciU.getD k 0 = i) :
    elimEntry s i lij ⟨dl, du, dd⟩ k = ⟨dl, du, dd.setIfInBounds i (dd.getD i 0 - lij * du.getD k 0)⟩ := by
  unfold elimEntry
  simp only []
  rw [if_neg (by omega), if_pos h]

theorem elimEntry_upp (s : IluSym) (i : Nat) (lij : α) (dl du dd : Array α) (k : Nat) (h : i < s.ciU.getD k 0) :
    elimEntry s i lij ⟨dl, du, dd⟩ k =
      ⟨dl, (match findPos s.ciU (s.rpU.getD i 0) (s.rpU.getD (i + 1) 0) (s.ciU.getD k 0) with
          | some r => du.setIfInBounds r (du.getD r 0 - lij * du.getD k 0)
          | none => du), dd⟩ := by
  unfold elimEntry
  simp only []
  rw [if_neg (by omega), if_neg (by omega)]
  cases findPos s.ciU (s.rpU.getD i 0) (s.rpU.getD (i + 1) 0) (s.ciU.getD k 0) <;> rfl

/-! ### the two `k` loops -/

/-- first loop: consumes the entries of row `cj` of `U` with column `< i` -/
theorem elimLow_spec {s : IluSym} (w : s.WFP) {i : Nat} (hi : i < s.n) {cj : Nat} (hcj : cj < s.n) (lij : α)
    (du dd : Array α) :
    ∀ (f : Nat) (dl : Array α) (pl k : Nat), s.rpU.getD cj 0 ≤ k → k ≤ s.rpU.getD (cj + 1) 0 →
      s.rpU.getD (cj + 1) 0 - k ≤ f → s.rpL.getD i 0 ≤ pl → pl ≤ s.rpL.getD (i + 1) 0 →
      (k < s.rpU.getD (cj + 1) 0 → ∀ r, s.rpL.getD i 0 ≤ r → r < pl → s.ciL.getD r 0 < s.ciU.getD k 0) →
      foldRange k (s.rpU.getD (cj + 1) 0) (elimEntry s i lij) ⟨dl, du, dd⟩ =
          foldRange (elimLow s i (s.rpL.getD (i + 1) 0) (s.rpU.getD (cj + 1) 0) lij du f dl pl k).2.2
            (s.rpU.getD (cj + 1) 0) (elimEntry s i lij)
            ⟨(elimLow s i (s.rpL.getD (i + 1) 0) (s.rpU.getD (cj + 1) 0) lij du f dl pl k).1, du, dd⟩ ∧
        k ≤ (elimLow s i (s.rpL.getD (i + 1) 0) (s.rpU.getD (cj + 1) 0) lij du f dl pl k).2.2 ∧
        (elimLow s i (s.rpL.getD (i + 1) 0) (s.rpU.getD (cj + 1) 0) lij du f dl pl k).2.2 ≤ s.rpU.getD (cj + 1) 0 ∧
        ((elimLow s i (s.rpL.getD (i + 1) 0) (s.rpU.getD (cj + 1) 0) lij du f dl pl k).2.2 < s.rpU.getD (cj + 1) 0 →
          i ≤ s.ciU.getD (elimLow s i (s.rpL.getD (i + 1) 0) (s.rpU.getD (cj + 1) 0) lij du f dl pl k).2.2 0)
  | 0, dl, pl, k, hk0, hk1, hf, hp0, hp1, hinv => by
    have : elimLow s i (s.rpL.getD (i + 1) 0) (s.rpU.getD (cj + 1) 0) lij du 0 dl pl k = (dl, pl, k) := rfl
    rw [this]
    exact ⟨rfl, Nat.le_refl _, hk1, fun h => absurd (show k < s.rpU.getD (cj + 1) 0 from h) (by omega)⟩
  | f + 1, dl, pl, k, hk0, hk1, hf, hp0, hp1, hinv => by
    by_cases hk : k < s.rpU.getD (cj + 1) 0
    · by_cases hck : s.ciU.getD k 0 ≥ i
      · have : elimLow s i (s.rpL.getD (i + 1) 0) (s.rpU.getD (cj + 1) 0) lij du (f + 1) dl pl k = (dl, pl, k) := by
          rw [elimLow, if_pos hk]
          simp only []
          rw [if_pos hck]
        rw [this]
        exact ⟨rfl, Nat.le_refl _, hk1, fun _ => hck⟩
      · have hlt : s.ciU.getD k 0 < i := by omega
        have hmono : ∀ a a', s.rpL.getD i 0 ≤ a → a < a' → a' < s.rpL.getD (i + 1) 0 →
            s.ciL.getD a 0 < s.ciL.getD a' 0 := fun a a' h1 h2 h3 => w.monoInL hi h1 h2 h3
        obtain ⟨m1, m2, m3, m4⟩ := mergeSub_find_pi s.ciL (s.rpL.getD i 0) (s.rpL.getD (i + 1) 0) (s.ciU.getD k 0)
          (lij * du.getD k 0) hmono dl pl hp0 hp1 (hinv hk)
        have hstep : elimLow s i (s.rpL.getD (i + 1) 0) (s.rpU.getD (cj + 1) 0) lij du (f + 1) dl pl k =
            elimLow s i (s.rpL.getD (i + 1) 0) (s.rpU.getD (cj + 1) 0) lij du f
              (mergeSub s.ciL (s.rpL.getD (i + 1) 0) (s.ciU.getD k 0) (lij * du.getD k 0)
                (s.rpL.getD (i + 1) 0 - pl) dl pl).1
              (mergeSub s.ciL (s.rpL.getD (i + 1) 0) (s.ciU.getD k 0) (lij * du.getD k 0)
                (s.rpL.getD (i + 1) 0 - pl) dl pl).2 (k + 1) := by
          rw [elimLow, if_pos hk]
          simp only []
          rw [if_neg hck]
        rw [hstep]
        obtain ⟨e1, e2, e3, e4⟩ := elimLow_spec w hi hcj lij du dd f _ _ (k + 1) (by omega) (by omega) (by omega)
          (Nat.le_trans hp0 m2) m3 (by
            intro hk' r hr1 hr2
            have hs := w.sortU cj hcj k hk0 hk'
            have := m4 r hr1 hr2
            omega)
        refine ⟨?_, by omega, e3, e4⟩
        rw [foldRange_succ_left _ _ _ _ hk, elimEntry_low s i lij dl du dd k hlt, ← m1]
        exact e1
    · have : elimLow s i (s.rpL.getD (i + 1) 0) (s.rpU.getD (cj + 1) 0) lij du (f + 1) dl pl k = (dl, pl, k) := by
        rw [elimLow, if_neg hk]
      rw [this]
      exact ⟨rfl, Nat.le_refl _, hk1, fun h => absurd h hk⟩

/-- last loop: all remaining entries of row `cj` of `U` have column `> i` -/
theorem elimUpp_spec {s : IluSym} (w : s.WFP) {i : Nat} (hi : i < s.n) {cj : Nat} (hcj : cj < s.n) (lij : α)
    (dl dd : Array α) :
    ∀ (f : Nat) (du : Array α) (pu k : Nat), s.rpU.getD cj 0 ≤ k → k ≤ s.rpU.getD (cj + 1) 0 →
      s.rpU.getD (cj + 1) 0 - k ≤ f → s.rpU.getD i 0 ≤ pu → pu ≤ s.rpU.getD (i + 1) 0 →
      (k < s.rpU.getD (cj + 1) 0 → ∀ r, s.rpU.getD i 0 ≤ r → r < pu → s.ciU.getD r 0 < s.ciU.getD k 0) →
      (k < s.rpU.getD (cj + 1) 0 → i < s.ciU.getD k 0) →
      foldRange k (s.rpU.getD (cj + 1) 0) (elimEntry s i lij) ⟨dl, du, dd⟩ =
        ⟨dl, elimUpp s (s.rpU.getD (i + 1) 0) (s.rpU.getD (cj + 1) 0) lij f du pu k, dd⟩
  | 0, du, pu, k, hk0, hk1, hf, hp0, hp1, hinv, hup => by
    have hk : k = s.rpU.getD (cj + 1) 0 := by omega
    rw [← hk, foldRange_self]
    rfl
  | f + 1, du, pu, k, hk0, hk1, hf, hp0, hp1, hinv, hup => by
    by_cases hk : k < s.rpU.getD (cj + 1) 0
    · have hmono : ∀ a a', s.rpU.getD i 0 ≤ a → a < a' → a' < s.rpU.getD (i + 1) 0 →
          s.ciU.getD a 0 < s.ciU.getD a' 0 :=
        fun a a' h1 h2 h3 => idx_strictMono s.ciU _ _ (w.sortU i hi) a' a h1 h2 h3
      obtain ⟨m1, m2, m3, m4⟩ := mergeSub_find_pi s.ciU (s.rpU.getD i 0) (s.rpU.getD (i + 1) 0) (s.ciU.getD k 0)
        (lij * du.getD k 0) hmono du pu hp0 hp1 (hinv hk)
      have hstep : elimUpp s (s.rpU.getD (i + 1) 0) (s.rpU.getD (cj + 1) 0) lij (f + 1) du pu k =
          elimUpp s (s.rpU.getD (i + 1) 0) (s.rpU.getD (cj + 1) 0) lij f
            (mergeSub s.ciU (s.rpU.getD (i + 1) 0) (s.ciU.getD k 0) (lij * du.getD k 0)
              (s.rpU.getD (i + 1) 0 - pu) du pu).1
            (mergeSub s.ciU (s.rpU.getD (i + 1) 0) (s.ciU.getD k 0) (lij * du.getD k 0)
              (s.rpU.getD (i + 1) 0 - pu) du pu).2 (k + 1) := by
        rw [elimUpp, if_pos hk]
      rw [hstep, foldRange_succ_left _ _ _ _ hk, elimEntry_upp s i lij dl du dd k (hup hk), ← m1]
      apply elimUpp_spec w hi hcj lij dl dd f _ _ (k + 1) (by omega) (by omega) (by omega)
        (Nat.le_trans hp0 m2) m3
      · intro hk' r hr1 hr2
        have hs := w.sortU cj hcj k hk0 hk'
        have := m4 r hr1 hr2
        omega
      · intro hk'
        have hs := w.sortU cj hcj k hk0 hk'
        have := hup hk
        omega
    · have hk : k = s.rpU.getD (cj + 1) 0 := by omega
      have : elimUpp s (s.rpU.getD (i + 1) 0) (s.rpU.getD (cj + 1) 0) lij (f + 1) du pu k = du := by
        rw [elimUpp, if_neg (by omega)]
      rw [this, ← hk, foldRange_self]

/-! ### one `L` entry, one row, all rows -/

theorem elimLM_eq_elimL {s : IluSym} (w : s.WFP) {i : Nat} (hi : i < s.n) (d : IluNum α) (hd : d.Sz s) {j : Nat}
    (hj1 : s.rpL.getD i 0 ≤ j) (hj2 : j < s.rpL.getD (i + 1) 0) : elimLM s i d j = elimL s i d j := by
  have hcji : s.ciL.getD j 0 < i := w.lowL i hi j hj1 hj2
  have hjs : j < d.dataL.size := by have := w.endL_le hi; have := hd.1; omega
  have hlij : (d.dataL.setIfInBounds j (d.dataL.getD j 0 * d.dataD.getD (s.ciL.getD j 0) 0)).getD j 0 =
      d.dataL.getD j 0 * d.dataD.getD (s.ciL.getD j 0) 0 := by
    rw [getD_setIfInBounds, if_pos ⟨rfl, hjs⟩]
  have hinv0 : s.rpU.getD (s.ciL.getD j 0) 0 < s.rpU.getD (s.ciL.getD j 0 + 1) 0 → ∀ r, s.rpL.getD i 0 ≤ r → r < j →
      s.ciL.getD r 0 < s.ciU.getD (s.rpU.getD (s.ciL.getD j 0) 0) 0 := by
    intro hk r hr1 hr2
    have h1 := w.monoInL hi hr1 hr2 hj2
    have h2 := w.uppU (s.ciL.getD j 0) (by omega) _ (Nat.le_refl _) hk
    omega
  unfold elimLM elimL
  simp only []
  rw [hlij]
  generalize hcj : s.ciL.getD j 0 = cj at *
  have hcjn : cj < s.n := by omega
  generalize d.dataL.getD j 0 * d.dataD.getD cj 0 = lij
  generalize d.dataL.setIfInBounds j lij = dl0
  obtain ⟨e1, e2, e3, e4⟩ := elimLow_spec w hi hcjn lij d.dataU d.dataD
    (s.rpU.getD (cj + 1) 0 - s.rpU.getD cj 0) dl0 j (s.rpU.getD cj 0) (Nat.le_refl _) (w.monoU cj hcjn)
    (Nat.le_refl _) hj1 (Nat.le_of_lt hj2) hinv0
  generalize elimLow s i (s.rpL.getD (i + 1) 0) (s.rpU.getD (cj + 1) 0) lij d.dataU
    (s.rpU.getD (cj + 1) 0 - s.rpU.getD cj 0) dl0 j (s.rpU.getD cj 0) = r at e1 e2 e3 e4 ⊢
  obtain ⟨dl', pl', k'⟩ := r
  simp only [] at e1 e2 e3 e4 ⊢
  rw [e1]
  have hvac : ∀ k, (k < s.rpU.getD (cj + 1) 0 → ∀ r, s.rpU.getD i 0 ≤ r → r < s.rpU.getD i 0 →
      s.ciU.getD r 0 < s.ciU.getD k 0) := fun k _ r h1 h2 => by omega
  by_cases hhit : k' < s.rpU.getD (cj + 1) 0 ∧ s.ciU.getD k' 0 = i
  · have hb : (decide (k' < s.rpU.getD (cj + 1) 0) && s.ciU.getD k' 0 == i) = true := by
      rw [Bool.and_eq_true, decide_eq_true_eq, beq_iff_eq]
      exact hhit
    rw [hb, if_pos rfl, if_pos rfl, foldRange_succ_left _ _ _ _ hhit.1, elimEntry_diag s i lij _ _ _ k' hhit.2]
    refine (elimUpp_spec w hi hcjn lij dl' _ _ d.dataU (s.rpU.getD i 0) (k' + 1) (by omega) (by omega)
      (Nat.le_refl _) (Nat.le_refl _) (w.monoU i hi) (hvac _) ?_).symm
    intro hk'
    have := w.sortU cj hcjn k' e2 hk'
    omega
  · have hb : (decide (k' < s.rpU.getD (cj + 1) 0) && s.ciU.getD k' 0 == i) = false := by
      rw [Bool.eq_false_iff]
      intro h
      rw [Bool.and_eq_true, decide_eq_true_eq, beq_iff_eq] at h
      exact hhit h
    rw [hb, if_neg (by decide), if_neg (by decide)]
    refine (elimUpp_spec w hi hcjn lij dl' _ _ d.dataU (s.rpU.getD i 0) k' e2 e3
      (Nat.le_refl _) (Nat.le_refl _) (w.monoU i hi) (hvac _) ?_).symm
    intro hk'
    have := e4 hk'
    have : s.ciU.getD k' 0 ≠ i := fun h => hhit ⟨hk', h⟩
    omega

theorem factorRowM_eq_S [Div α] {s : IluSym} (w : s.WFP) {i : Nat} (hi : i < s.n) (d : IluNum α) (hd : d.Sz s) :
    factorRowM s d i = factorRowS s d i ∧ (factorRowS s d i).Sz s := by
  obtain ⟨h1, h2⟩ := foldRange_congr_inv (fun y : IluNum α => y.Sz s) (elimLM s i) (elimL s i)
    (s.rpL.getD i 0) (s.rpL.getD (i + 1) 0) d (w.monoL i hi) hd
    (fun m y hm1 hm2 hy => ⟨elimLM_eq_elimL w hi y hy hm1 hm2, (elimL_spec w hi y hy hm1 hm2 _ rfl _ rfl).1⟩)
  unfold factorRowM factorRowS
  simp only []
  rw [h1]
  refine ⟨rfl, h2.1, h2.2.1, ?_⟩
  show (Array.setIfInBounds _ _ _).size = s.n
  rw [Array.size_setIfInBounds]
  exact h2.2.2

theorem factorizeNumeric_eq_S_pi [Div α] (s : IluSym) (hs : s.wf = true) (hso : s.sorted = true) (d : IluNum α) (hd : d.Sz s) :
    factorizeNumeric s d = factorizeNumericS s d := by
  have w := IluSym.WFP.of_bool s hs hso
  unfold factorizeNumeric factorizeNumericS
  exact foldl_congr_inv (fun y : IluNum α => y.Sz s) _ _ _ d hd
    (fun i hi y hy => factorRowM_eq_S w (List.mem_range.mp hi) y hy)

end FeatModel.Solver.PI
