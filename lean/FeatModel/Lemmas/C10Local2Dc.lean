import FeatModel.Model.RefineSpec
/-! C10 local refinement lemma, triangle, two refinement steps: kernel evaluation of the generated tables. -/
namespace FeatModel.Refine
set_option maxRecDepth 100000

theorem local_tria_twice : ∀ o < 8, (refine (refine (cell2 .simplex o 1))).consistent = true := by decide +kernel

end FeatModel.Refine
