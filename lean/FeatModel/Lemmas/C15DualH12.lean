import FeatModel.Model.FEDual
/-! kernel-checked duality on the reference segment / quadrilateral (Q1, Q2, P0), all 16 edge orientations -/
namespace FeatModel.FE
set_option maxRecDepth 100000 in
theorem dualH12 : dualKeysH12.all (fun key => dualAll key.1 key.2.1 key.2.2) = true := by decide +kernel
end FeatModel.FE
