/-
C13 extensions: block expansion of a decomposition (`Decomp.expand`) preserves well-formedness.
-/
import FeatModel.Lemmas.C13Comp
open FeatModel.Dist

set_option linter.unusedSectionVars false

namespace FeatModel.C13L

/-! ### `expand` -/

theorem mem_expand_iff {bs : Nat} {idx : List Nat} {j : Nat} :
    j ∈ expand bs idx ↔ ∃ i ∈ idx, ∃ k < bs, j = i * bs + k := by
  simp only [expand, List.mem_flatMap, List.mem_map, List.mem_range]
  constructor
  · rintro ⟨i, hi, k, hk, rfl⟩; exact ⟨i, hi, k, hk, rfl⟩
  · rintro ⟨i, hi, k, hk, rfl⟩; exact ⟨i, hi, k, hk, rfl⟩

theorem expand_cons (bs i : Nat) (l : List Nat) :
    expand bs (i :: l) = ((List.range bs).map fun k => i * bs + k) ++ expand bs l := by
  simp [expand]

theorem expand_nil (bs : Nat) : expand bs [] = [] := rfl

theorem expand_one (l : List Nat) : expand 1 l = l := by
  induction l with
  | nil => rfl
  | cons i l ih => rw [expand_cons, ih]; simp [List.range_succ]

theorem block_index_inj {bs i k i' k' : Nat} (hk : k < bs) (hk' : k' < bs) (h : i * bs + k = i' * bs + k') :
    i = i' ∧ k = k' := by
  have hbs : 0 < bs := by omega
  have h1 : (i * bs + k) / bs = i := by
    rw [Nat.mul_comm, Nat.mul_add_div hbs, Nat.div_eq_of_lt hk]; rfl
  have h2 : (i' * bs + k') / bs = i' := by
    rw [Nat.mul_comm, Nat.mul_add_div hbs, Nat.div_eq_of_lt hk']; rfl
  have hi : i = i' := by rw [← h1, ← h2, h]
  subst hi
  exact ⟨rfl, by omega⟩

theorem expand_nodup (bs : Nat) {l : List Nat} (hn : l.Nodup) : (expand bs l).Nodup := by
  induction l with
  | nil => simp [expand]
  | cons i l ih =>
    rw [List.nodup_cons] at hn
    rw [expand_cons, List.nodup_append]
    refine ⟨?_, ih hn.2, ?_⟩
    · apply List.Nodup.map _ List.nodup_range
      intro a b hab; simpa using hab
    · intro a ha b hb hab
      obtain ⟨k, hk, rfl⟩ := List.mem_map.1 ha
      obtain ⟨i', hi', k', hk', rfl⟩ := mem_expand_iff.1 hb
      have := (block_index_inj (List.mem_range.1 hk) hk' hab).1
      exact hn.1 (this ▸ hi')

/-- entry `i*bs + k` of the expansion -/
theorem getElem?_expand (bs : Nat) (l : List Nat) (i k : Nat) (hi : i < l.length) (hk : k < bs) :
    (expand bs l)[i * bs + k]? = some (l.getD i 0 * bs + k) := by
  induction l generalizing i with
  | nil => simp at hi
  | cons a l ih =>
    rw [expand_cons]
    cases i with
    | zero =>
      rw [List.getElem?_append_left (by simpa using hk)]
      simp [hk]
    | succ i =>
      have : (i + 1) * bs + k = ((List.range bs).map fun k => a * bs + k).length + (i * bs + k) := by
        simp [Nat.succ_mul]; omega
      rw [this, List.getElem?_append_right (by omega), Nat.add_sub_cancel_left, ih i (by simpa using hi)]
      simp

theorem getD_expand (bs : Nat) (l : List Nat) (i k : Nat) (hi : i < l.length) (hk : k < bs) :
    (expand bs l).getD (i * bs + k) 0 = l.getD i 0 * bs + k := by
  rw [List.getD_eq_getElem?_getD, getElem?_expand bs l i k hi hk]; rfl

/-- mapping an expanded mirror through an expanded local-to-global map -/
theorem map_getD_expand (bs : Nat) (m l : List Nat) (hl : ∀ i ∈ l, i < m.length) :
    (expand bs l).map (fun j => (expand bs m).getD j 0) = expand bs (l.map fun i => m.getD i 0) := by
  unfold expand
  rw [List.map_flatMap, List.flatMap_map]
  apply List.flatMap_congr
  intro i hi
  rw [List.map_map]
  apply List.map_congr_left
  intro k hk
  exact getD_expand bs m i k (hl i hi) (List.mem_range.1 hk)

/-- every index below `n*bs` is `i*bs + k` -/
theorem block_index_split {bs n j : Nat} (hj : j < n * bs) : ∃ i k, i < n ∧ k < bs ∧ j = i * bs + k := by
  have hbs : 0 < bs := by
    rcases Nat.eq_zero_or_pos bs with h | h
    · subst h; simp at hj
    · exact h
  refine ⟨j / bs, j % bs, ?_, Nat.mod_lt _ hbs, ?_⟩
  · exact (Nat.div_lt_iff_lt_mul hbs).2 hj
  · rw [Nat.mul_comm]; exact (Nat.div_add_mod j bs).symm

/-! ### bookkeeping of `Decomp.expand` -/

theorem expand_np (d : Decomp) (bs : Nat) : (d.expand bs).np = d.np := by
  simp [Decomp.expand, Decomp.np]

theorem expand_patch (d : Decomp) (bs : Nat) (r : Nat) : (d.expand bs).patch r = (d.patch r).expand bs := by
  unfold Decomp.patch Decomp.expand
  by_cases hr : r < d.patches.length
  · simp [List.getD_eq_getElem?_getD, hr]
  · simp [List.getD_eq_getElem?_getD, Nat.not_lt.1 hr]
    show (default : Patch) = Patch.expand bs default
    show (⟨0, []⟩ : Patch) = ⟨0 * bs, [].map _⟩
    simp

theorem expand_lmap (d : Decomp) (bs : Nat) (r : Nat) : (d.expand bs).lmap r = expand bs (d.lmap r) := by
  unfold Decomp.lmap Decomp.expand
  by_cases hr : r < d.maps.length
  · simp [List.getD_eq_getElem?_getD, hr]
  · simp [List.getD_eq_getElem?_getD, Nat.not_lt.1 hr, expand]

theorem expand_gdof (d : Decomp) (bs : Nat) (r i k : Nat) (hi : i < (d.lmap r).length) (hk : k < bs) :
    (d.expand bs).gdof r (i * bs + k) = d.gdof r i * bs + k := by
  unfold Decomp.gdof
  rw [expand_lmap, getD_expand bs _ i k hi hk]

theorem patch_expand_one (p : Patch) : p.expand 1 = p := by
  cases p with
  | mk n nbrs =>
    simp only [Patch.expand, Nat.mul_one, expand_one]
    congr 1
    induction nbrs with
    | nil => rfl
    | cons nb nbrs ih => rw [List.map_cons, ih]

theorem expand_nbrs (p : Patch) (bs : Nat) :
    (p.expand bs).nbrs = p.nbrs.map fun nb => (nb.1, expand bs nb.2) := rfl

theorem expand_n (p : Patch) (bs : Nat) : (p.expand bs).n = p.n * bs := rfl

/-- **block expansion preserves well-formedness** -/
theorem WF_expand (d : Decomp) (h : d.WF) (bs : Nat) : (d.expand bs).WF := by
  have hgd : ∀ r, r < d.np → ∀ l : List Nat, (∀ i ∈ l, i < (d.patch r).n) →
      (expand bs l).map ((d.expand bs).gdof r) = expand bs (l.map (d.gdof r)) := by
    intro r hr l hl
    have := map_getD_expand bs (d.lmap r) l (fun i hi => by rw [← h.size r hr]; exact hl i hi)
    unfold Decomp.gdof
    rw [expand_lmap]
    exact this
  refine ⟨?_, ?_, ?_, ?_, ?_, ?_, ?_, ?_, ?_⟩
  · simp [Decomp.expand, h.len]
  · intro r hr
    rw [expand_np] at hr
    rw [expand_patch, expand_lmap, expand_n, expand_length, h.size r hr]
  · intro r hr
    rw [expand_np] at hr
    rw [expand_lmap]; exact expand_nodup bs (h.inj r hr)
  · intro r hr
    rw [expand_np] at hr
    rw [expand_patch, expand_nbrs, List.map_map]
    exact h.ranks r hr
  · intro r hr nb hnb
    rw [expand_np] at hr ⊢
    rw [expand_patch, expand_nbrs] at hnb
    obtain ⟨nb0, hnb0, rfl⟩ := List.mem_map.1 hnb
    exact h.nbr r hr nb0 hnb0
  · intro r hr nb hnb
    rw [expand_np] at hr
    rw [expand_patch, expand_nbrs] at hnb
    obtain ⟨nb0, hnb0, rfl⟩ := List.mem_map.1 hnb
    exact expand_nodup bs (h.mirNodup r hr nb0 hnb0)
  · intro r hr nb hnb j hj
    rw [expand_np] at hr
    rw [expand_patch] at hnb ⊢
    rw [expand_nbrs] at hnb
    obtain ⟨nb0, hnb0, rfl⟩ := List.mem_map.1 hnb
    obtain ⟨i, hi, k, hk, rfl⟩ := mem_expand_iff.1 hj
    have := h.mirRange r hr nb0 hnb0 i hi
    rw [expand_n]
    calc i * bs + k < i * bs + bs := by omega
      _ = (i + 1) * bs := by rw [Nat.succ_mul]
      _ ≤ (d.patch r).n * bs := Nat.mul_le_mul_right bs this
  · intro r hr nb hnb
    rw [expand_np] at hr
    rw [expand_patch, expand_nbrs] at hnb
    obtain ⟨nb0, hnb0, rfl⟩ := List.mem_map.1 hnb
    obtain ⟨nb1, hnb1, h1, hmap, hrange⟩ := h.sym r hr nb0 hnb0
    have hlt := (h.nbr r hr nb0 hnb0).2
    refine ⟨(nb1.1, expand bs nb1.2), ?_, h1, ?_, ?_⟩
    · show _ ∈ ((d.expand bs).patch nb0.1).nbrs
      rw [expand_patch, expand_nbrs]
      exact List.mem_map.2 ⟨nb1, hnb1, rfl⟩
    · show (expand bs nb1.2).map ((d.expand bs).gdof nb0.1) = (expand bs nb0.2).map ((d.expand bs).gdof r)
      rw [hgd nb0.1 hlt nb1.2 hrange, hgd r hr nb0.2 (h.mirRange r hr nb0 hnb0), hmap]
    · intro j hj
      show j < ((d.expand bs).patch nb0.1).n
      obtain ⟨i, hi, k, hk, rfl⟩ := mem_expand_iff.1 hj
      have := hrange i hi
      rw [expand_patch, expand_n]
      calc i * bs + k < i * bs + bs := by omega
        _ = (i + 1) * bs := by rw [Nat.succ_mul]
        _ ≤ (d.patch nb0.1).n * bs := Nat.mul_le_mul_right bs this
  · intro r hr s hs hsr i' hi' j' hj' hg
    rw [expand_np] at hr hs
    rw [expand_patch, expand_n] at hi' hj'
    obtain ⟨i, k, hi, hk, rfl⟩ := block_index_split hi'
    obtain ⟨j, k', hj, hk', rfl⟩ := block_index_split hj'
    rw [expand_gdof d bs r i k (by rw [← h.size r hr]; exact hi) hk,
      expand_gdof d bs s j k' (by rw [← h.size s hs]; exact hj) hk'] at hg
    obtain ⟨hg1, rfl⟩ := block_index_inj hk hk' hg
    obtain ⟨nb, hnb, hnbs, hmem⟩ := h.complete r hr s hs hsr i hi j hj hg1
    refine ⟨(nb.1, expand bs nb.2), ?_, hnbs, mem_expand_iff.2 ⟨i, hmem, k, hk, rfl⟩⟩
    rw [expand_patch, expand_nbrs]
    exact List.mem_map.2 ⟨nb, hnb, rfl⟩

end FeatModel.C13L
