import FeatModel.Model.RefineSpec
/-! C10 local refinement lemma, tetrahedron, covering family part a (see `cell3`): kernel evaluation of the
generated tables. -/
namespace FeatModel.Refine
set_option maxRecDepth 100000

theorem local_tetra_a : ∀ j < 3, (refine (cell3 .simplex (j + 0))).consistent = true := by decide +kernel

theorem local_tetra_input_a : ∀ j < 3, (cell3 .simplex (j + 0)).consistent = true := by decide +kernel

end FeatModel.Refine
