import FeatModel.Lemmas.C20Delta
/-! C20 helper lemmas, part 3: every container-level lifetime operation changes the counters by exactly
    (+ references owned by the result − references owned before). -/
namespace FeatModel.Pool

/-- chunk ids (with multiplicity) a container owns: nothing for a range view -/
def Cont.ownIds (c : Cont) : List Nat := idsOf c.owned

theorem ownIds_nonforeign (c : Cont) (h : c.foreign = false) : c.ownIds = idsOf c.elems ++ idsOf c.inds := by
  unfold Cont.ownIds Cont.owned; simp [h, idsOf_append]

theorem ownIds_foreign (c : Cont) (h : c.foreign = true) : c.ownIds = [] := by
  unfold Cont.ownIds Cont.owned; simp [h, idsOf]

theorem ownIds_empty (k d i : Nat) (s : List Nat) : (Cont.empty k d i s).ownIds = [] := by
  unfold Cont.ownIds Cont.owned Cont.empty; simp [idsOf]

theorem delta_releaseOwn {p p' : Pool} {c : Cont} (h : c.releaseOwn p = .ok p') (hp : PoolPos p) :
    Delta p p' [] c.ownIds ∧ PoolPos p' := delta_releaseAll h hp

theorem delta_clear {p p' : Pool} {c c' : Cont} (h : Cont.clear p c = .ok (p', c')) (hp : PoolPos p) :
    Delta p p' c'.ownIds c.ownIds ∧ PoolPos p' := by
  unfold Cont.clear at h
  split at h
  · cases h
  · rename_i p0 hr
    injection h with h; injection h with h1 h2; subst h1; subst h2
    rw [ownIds_empty]
    exact delta_releaseOwn hr hp

theorem delta_cloneFrom {p p' : Pool} {self other c' : Cont} {so : Bool} {mode : Nat}
    (h : Cont.cloneFrom p self other so mode = .ok (p', c')) (hp : PoolPos p) :
    Delta p p' c'.ownIds self.ownIds ∧ PoolPos p' := by
  unfold Cont.cloneFrom at h
  split at h
  · cases h
  · split at h
    · cases h
    · split at h
      · cases h
      · rename_i p0 hr
        obtain ⟨d0, hp0⟩ := delta_releaseOwn hr hp
        dsimp only at h
        split at h
        · -- Deep / Allocate
          injection h with h; injection h with h1 h2; subst h1; subst h2
          have ⟨dA, hpA⟩ := delta_allocAll (l := other.inds.zip other.indsSize) (isz self.it) (decide (mode = 3)) hp0
          have ⟨dB, hpB⟩ := delta_allocAll (l := other.elems.zip other.elemsSize) (esz self.dt) (decide (mode = 3)) hpA
          refine ⟨?_, hpB⟩
          intro j
          have := d0 j; have := dA j; have := dB j
          simp only [Cont.ownIds, Cont.owned, idsOf_append, List.count_append, List.count_nil,
            Bool.false_eq_true, if_false] at *
          omega
        · split at h
          · cases h
          · rename_i p1 hi
            obtain ⟨d1, hp1⟩ := delta_incrAll hi hp0
            split at h
            · split at h
              · cases h
              · rename_i p2 he
                obtain ⟨d2, hp2⟩ := delta_incrAll he hp1
                injection h with h; injection h with h1 h2; subst h1; subst h2
                refine ⟨?_, hp2⟩
                intro j
                have := d0 j; have := d1 j; have := d2 j
                simp only [Cont.ownIds, Cont.owned, idsOf_append, List.count_append, List.count_nil,
                  Bool.false_eq_true, if_false] at *
                omega
            · injection h with h; injection h with h1 h2; subst h1; subst h2
              have ⟨dB, hpB⟩ := delta_allocAll (l := other.elems.zip other.elemsSize) (esz self.dt) (decide (mode = 2)) hp1
              refine ⟨?_, hpB⟩
              intro j
              have := d0 j; have := d1 j; have := dB j
              simp only [Cont.ownIds, Cont.owned, idsOf_append, List.count_append, List.count_nil,
                Bool.false_eq_true, if_false] at *
              omega

theorem delta_shareOrConvert {p p' : Pool} {same : Bool} {esz : Nat} {ptrs rs : List Ptr} {sizes : List Nat}
    (h : shareOrConvert p same esz ptrs sizes = .ok (p', rs)) (hp : PoolPos p) :
    Delta p p' (idsOf rs) [] ∧ PoolPos p' := by
  unfold shareOrConvert at h
  split at h
  · split at h
    · cases h
    · rename_i p1 hi
      injection h with h; injection h with h1 h2; subst h1; subst h2
      exact delta_incrAll hi hp
  · injection h with h
    have := delta_allocAll (l := ptrs.zip sizes) esz true hp
    rw [h] at this
    exact this

theorem delta_assign {p p' : Pool} {self other c' : Cont} {so : Bool}
    (h : Cont.assign p self other so = .ok (p', c')) (hp : PoolPos p) :
    Delta p p' c'.ownIds self.ownIds ∧ PoolPos p' := by
  unfold Cont.assign at h
  split at h
  · injection h with h; injection h with h1 h2; subst h1; subst h2
    exact ⟨fun j => rfl, hp⟩
  · split at h
    · cases h
    · split at h
      · cases h
      · rename_i p0 hr
        obtain ⟨d0, hp0⟩ := delta_releaseOwn hr hp
        split at h
        · cases h
        · rename_i p1 es h1
          obtain ⟨d1, hp1⟩ := delta_shareOrConvert h1 hp0
          split at h
          · cases h
          · rename_i p2 is h2
            obtain ⟨d2, hp2⟩ := delta_shareOrConvert h2 hp1
            injection h with h; injection h with e1 e2; subst e1; subst e2
            refine ⟨?_, hp2⟩
            intro j
            have := d0 j; have := d1 j; have := d2 j
            simp only [Cont.ownIds, Cont.owned, idsOf_append, List.count_append, List.count_nil,
              Bool.false_eq_true, if_false] at *
            omega

theorem delta_cloneCross {p p' : Pool} {self other c' : Cont} {mode : Nat}
    (h : Cont.cloneCross p self other mode = .ok (p', c')) (hp : PoolPos p) :
    Delta p p' c'.ownIds self.ownIds ∧ PoolPos p' := by
  unfold Cont.cloneCross at h
  dsimp only at h
  split at h
  · cases h
  · rename_i p1 t1 ha
    obtain ⟨d1, hp1⟩ := delta_assign ha hp
    split at h
    · cases h
    · rename_i p2 s hc
      obtain ⟨d2, hp2⟩ := delta_cloneFrom hc hp1
      split at h
      · cases h
      · rename_i p3 hr
        obtain ⟨d3, hp3⟩ := delta_releaseOwn hr hp2
        injection h with h; injection h with e1 e2; subst e1; subst e2
        refine ⟨?_, hp3⟩
        intro j
        have := d1 j; have := d2 j; have := d3 j
        rw [ownIds_empty] at *
        simp only [List.count_nil] at *
        omega

theorem ownIds_movedFrom (c : Cont) : c.movedFrom.ownIds = [] := by
  unfold Cont.ownIds Cont.owned Cont.movedFrom
  split <;> simp [idsOf]

theorem delta_moveAssign {p p' : Pool} {self other c1 c2 : Cont}
    (h : Cont.moveAssign p self other = .ok (p', c1, c2)) (hp : PoolPos p) :
    Delta p p' (c1.ownIds ++ c2.ownIds) (self.ownIds ++ other.ownIds) ∧ PoolPos p' := by
  unfold Cont.moveAssign at h
  split at h
  · cases h
  · rename_i p0 hr
    obtain ⟨d0, hp0⟩ := delta_releaseOwn hr hp
    injection h with h; injection h with e1 e2; injection e2 with e2 e3; subst e1; subst e2; subst e3
    refine ⟨?_, hp0⟩
    intro j
    have := d0 j
    rw [ownIds_movedFrom]
    simp only [Cont.ownIds, Cont.owned, List.count_append, List.count_nil] at *
    omega

theorem delta_convertFrom {p p' : Pool} {self other c' : Cont} {so : Bool}
    (h : Cont.convertFrom p self other so = .ok (p', c')) (hp : PoolPos p) :
    Delta p p' c'.ownIds self.ownIds ∧ PoolPos p' := by
  unfold Cont.convertFrom at h
  split at h
  · unfold Cont.svConvert at h
    split at h
    · exact delta_cloneFrom h hp
    · exact delta_cloneCross h hp
  · exact delta_assign h hp

end FeatModel.Pool
