import FeatModel.Model.Cubature
import Mathlib.Tactic.Ring
/-! # C14 helper lemmas: the moments of a tensor-product rule are the products of the scalar moments (exact),
    and refinement multiplies the weight sum by the sum of the child factors -/
namespace FeatModel.Cub

/-- scalar moment numerator `Σ_i w_i x_i^k` -/
def smom : List Int → List Int → Nat → Int
  | w :: ws, x :: xs, k => w * ipow x k + smom ws xs k
  | _, _, _ => 0

def iprod : List Int → Int
  | [] => 1
  | a :: as => a * iprod as

theorem isumMono_append : ∀ (a : List Int) (a' : List (List Int)) (b : List Int) (b' : List (List Int)) (e : List Nat),
    a.length = a'.length → isumMono (a ++ b) (a' ++ b') e = isumMono a a' e + isumMono b b' e
  | [], [], b, b', e, _ => by simp [isumMono]
  | [], _ :: _, _, _, _, h => by simp at h
  | _ :: _, [], _, _, _, h => by simp at h
  | w :: ws, p :: ps, b, b', e, h => by
    have ih := isumMono_append ws ps b b' e (by simpa using h)
    simp only [List.cons_append, isumMono, ih]
    ring

theorem isumMono_map_cons (wi xi : Int) (k : Nat) (ks : List Nat) :
    ∀ (t : List Int) (tx : List (List Int)), t.length = tx.length →
      isumMono (t.map (wi * ·)) (tx.map (xi :: ·)) (k :: ks) = wi * ipow xi k * isumMono t tx ks
  | [], [], _ => by simp [isumMono]
  | [], _ :: _, h => by simp at h
  | _ :: _, [], h => by simp at h
  | w :: ws, p :: ps, h => by
    have ih := isumMono_map_cons wi xi k ks ws ps (by simpa using h)
    simp only [List.map_cons, isumMono, imono, ih]
    ring

theorem isumMono_flatMap (t : List Int) (tx : List (List Int)) (ht : t.length = tx.length) (k : Nat) (ks : List Nat) :
    ∀ (w xs : List Int), w.length = xs.length →
      isumMono (w.flatMap (fun wi => t.map (wi * ·))) (xs.flatMap (fun xi => tx.map (xi :: ·))) (k :: ks)
        = smom w xs k * isumMono t tx ks
  | [], [], _ => by simp [isumMono, smom]
  | [], _ :: _, h => by simp at h
  | _ :: _, [], h => by simp at h
  | wi :: ws, xi :: xs, h => by
    have ih := isumMono_flatMap t tx ht k ks ws xs (by simpa using h)
    simp only [List.flatMap_cons]
    rw [isumMono_append _ _ _ _ _ (by simp [ht]), isumMono_map_cons wi xi k ks t tx ht, ih]
    simp only [smom]
    ring

theorem length_tensorW : ∀ (d : Nat) (w : List Int), (tensorW d w).length = w.length ^ d
  | 0, _ => by simp [tensorW]
  | d + 1, w => by
    have ih := length_tensorW d w
    simp only [tensorW, List.length_flatMap, List.length_map, ih]
    rw [List.map_const', List.sum_replicate_nat, Nat.pow_succ, Nat.mul_comm]

theorem length_tensorX : ∀ (d : Nat) (x : List Int), (tensorX d x).length = x.length ^ d
  | 0, _ => by simp [tensorX]
  | d + 1, x => by
    have ih := length_tensorX d x
    simp only [tensorX, List.length_flatMap, List.length_map, ih]
    rw [List.map_const', List.sum_replicate_nat, Nat.pow_succ, Nat.mul_comm]

/-- moments of the tensor-product rule factorise (exact arithmetic, every dimension, every point count) -/
theorem isumMono_tensor (w xs : List Int) (h : w.length = xs.length) :
    ∀ (dim : Nat) (e : List Nat), e.length = dim →
      isumMono (tensorW dim w) (tensorX dim xs) e = iprod (e.map (smom w xs))
  | 0, e, he => by
    cases e with
    | nil => simp [tensorW, tensorX, isumMono, imono, iprod]
    | cons a as => simp at he
  | dim + 1, e, he => by
    cases e with
    | nil => simp at he
    | cons k ks =>
      have ih := isumMono_tensor w xs h dim ks (by simpa using he)
      have hl : (tensorW dim w).length = (tensorX dim xs).length := by
        rw [length_tensorW, length_tensorX, h]
      simp only [tensorW, tensorX]
      rw [isumMono_flatMap _ _ hl k ks w xs h, ih]
      simp [iprod]

/-- a one-dimensional table: the scalar moments are its moments -/
theorem smom_scalarCoords : ∀ (w : List Int) (x : List (List Int)) (k : Nat), (∀ p ∈ x, p.length = 1) →
    smom w (x.map (fun p => p.headD 0)) k = isumMono w x [k]
  | [], _, _, _ => by simp [smom, isumMono]
  | _ :: _, [], _, _ => by simp [smom, isumMono]
  | w :: ws, p :: ps, k, h => by
    have ih := smom_scalarCoords ws ps k (fun q hq => h q (List.mem_cons_of_mem _ hq))
    have hp := h p List.mem_cons_self
    match p, hp with
    | [c], _ =>
      simp only [List.map_cons, smom, isumMono, imono, List.headD_cons, ih]
      ring

/-! ## refinement and the weight sum -/

def isum : List Int → Int
  | [] => 0
  | a :: as => a + isum as

theorem isum_append : ∀ (a b : List Int), isum (a ++ b) = isum a + isum b
  | [], b => by simp [isum]
  | x :: xs, b => by simp only [List.cons_append, isum, isum_append xs b]; ring

theorem isum_map_mul (c : Int) : ∀ (l : List Int), isum (l.map (fun w => c * w)) = c * isum l
  | [] => by simp [isum]
  | x :: xs => by simp only [List.map_cons, isum, isum_map_mul c xs]; ring

theorem isum_refine1 (w : List Int) : ∀ (maps : List RefMap),
    isum (maps.flatMap (fun m => w.map (fun wi => m.c * wi))) = isum (maps.map (·.c)) * isum w
  | [] => by simp [isum]
  | m :: ms => by
    simp only [List.flatMap_cons, List.map_cons, isum, isum_append, isum_map_mul, isum_refine1 w ms]
    ring

end FeatModel.Cub
