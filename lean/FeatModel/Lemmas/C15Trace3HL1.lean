import FeatModel.Model.FETrace
/-! kernel-checked trace conformity of Q1 on the hexahedron, every face in every stored order -/
namespace FeatModel.FE
set_option maxRecDepth 100000 in
theorem trace3H_L1 : traceAll3 .L1 .H = true := by decide +kernel
end FeatModel.FE
