import FeatModel.Lemmas.C04
import Mathlib.Data.List.Induction
/-! lemmas for the `*_blocked` members of `DenseVectorBlocked` and for `component_copy(_to)`:
`column b j l` is component `j` of every block, i.e. its `i`-th entry is `l[i*b + j]` -/
namespace FeatModel.Vec

variable {α : Type}

theorem column_append_singleton (b j : Nat) (l : List α) (x : α) :
    column b j (l ++ [x]) = column b j l ++ (if l.length % b = j then [x] else []) := by
  unfold column
  rw [List.zipIdx_append]
  simp only [List.filter_append, List.map_append, List.zipIdx_cons, List.zipIdx_nil, Nat.zero_add]
  congr 1
  by_cases h : l.length % b = j
  · simp [h]
  · simp [h]

theorem mul_add_lt_of_lt {b j i q : Nat} (hj : j < b) (h : i < q) : i * b + j < q * b + j := by
  have : (i + 1) * b ≤ q * b := Nat.mul_le_mul_right b h
  rw [Nat.add_mul, Nat.one_mul] at this
  omega

/-- entry `i` of column `j` is the entry `i*b + j` of the pod array (for every length, also a ragged tail) -/
theorem column_getElem? (b j : Nat) (hj : j < b) (l : List α) (i : Nat) :
    (column b j l)[i]? = l[i * b + j]? := by
  induction l using List.reverseRecOn generalizing i with
  | nil => simp [column]
  | append_singleton l x ih =>
    rw [column_append_singleton]
    by_cases hn : l.length % b = j
    · -- the new entry belongs to this column: its position is the quotient
      have hq : l.length = (l.length / b) * b + j := by
        have := Nat.div_add_mod l.length b
        rw [hn] at this
        rw [Nat.mul_comm]; omega
      set q := l.length / b with hqd
      have hlen : (column b j l).length = q := by
        apply Nat.le_antisymm
        · have h1 := ih q
          rw [← hq] at h1
          rw [List.getElem?_eq_none (Nat.le_refl _)] at h1
          exact List.getElem?_eq_none_iff.mp h1
        · by_cases hq0 : q = 0
          · omega
          · obtain ⟨q', hq'⟩ : ∃ q', q = q' + 1 := Nat.exists_eq_succ_of_ne_zero hq0
            have h1 := ih q'
            have hlt : q' * b + j < l.length := by
              rw [hq, hq']; exact mul_add_lt_of_lt hj (Nat.lt_succ_self _)
            rw [List.getElem?_eq_getElem hlt] at h1
            have : q' < (column b j l).length := by
              by_contra hc
              rw [List.getElem?_eq_none (Nat.le_of_not_lt hc)] at h1
              cases h1
            omega
      simp only [hn, if_true]
      rcases Nat.lt_trichotomy i q with hi | hi | hi
      · have hlt : i * b + j < l.length := by rw [hq]; exact mul_add_lt_of_lt hj hi
        rw [List.getElem?_append_left (by omega), List.getElem?_append_left hlt]
        exact ih i
      · subst hi
        rw [List.getElem?_append_right (by omega), hlen, ← hq, List.getElem?_append_right (Nat.le_refl _)]
        simp
      · have hgt : l.length + 1 ≤ i * b + j := by
          have := @mul_add_lt_of_lt b j q i hj hi
          omega
        rw [List.getElem?_eq_none (by simp; omega), List.getElem?_eq_none (by simp; omega)]
    · simp only [hn, if_false, List.append_nil]
      rw [ih i]
      by_cases hlt : i * b + j < l.length
      · rw [List.getElem?_append_left hlt]
      · have hne : i * b + j ≠ l.length := by
          intro e
          apply hn
          rw [← e, Nat.mul_comm, Nat.mul_add_mod, Nat.mod_eq_of_lt hj]
        rw [List.getElem?_eq_none (by omega), List.getElem?_eq_none (by simp; omega)]

/-- a column of a non-empty array with at least `j+1` scalars is not empty -/
theorem column_ne_nil (b j : Nat) (hj : j < b) (l : List α) (h : j < l.length) : column b j l ≠ [] := by
  intro e
  have := column_getElem? b j hj l 0
  rw [e] at this
  simp at this
  omega

/-! ### element-wise meaning of the blocked update kernels -/

theorem axpyBlockedK_getElem? [Add α] [Mul α] [Zero α] (b : Nat) (a r x : List α) (k : Nat)
    (hr : k < r.length) (hx : k < x.length) :
    (axpyBlockedK b a r x)[k]? = some (r[k] + a.getD (k % b) 0 * x[k]) := by
  unfold axpyBlockedK
  simp [List.getElem?_map, List.getElem?_zipIdx, List.getElem?_zipWith, List.getElem?_eq_getElem hr,
    List.getElem?_eq_getElem hx]

theorem axpyBlockedK_length [Add α] [Mul α] [Zero α] (b : Nat) (a r x : List α) (h : r.length = x.length) :
    (axpyBlockedK b a r x).length = r.length := by
  simp [axpyBlockedK, h]

theorem scaleBlockedK_getElem? [Mul α] [Zero α] (al : Bool) (b : Nat) (s r x : List α) (k : Nat)
    (hr : k < r.length) (hx : k < x.length) (hal : al = true → x = r) :
    (scaleBlockedK al b s r x)[k]? = some (x[k] * s.getD (k % b) 0) := by
  unfold scaleBlockedK
  cases al with
  | true =>
    have := hal rfl
    subst this
    simp [List.getElem?_map, List.getElem?_zipIdx, List.getElem?_eq_getElem hr]
  | false =>
    simp [List.getElem?_map, List.getElem?_zipIdx, List.getElem?_zipWith, List.getElem?_eq_getElem hr,
      List.getElem?_eq_getElem hx]

/-! ### `component_copy(_to)` -/

theorem foldl_set_getElem? (b block : Nat) (hb : block < b) (x : List α) (d : α) (m : Nat) (r : List α) (k : Nat)
    (hk : k < r.length) :
    ((List.range m).foldl (fun acc i => acc.set (i * b + block) (x.getD i d)) r)[k]? =
      if k % b = block ∧ k / b < m then some (x.getD (k / b) d) else r[k]? := by
  induction m with
  | zero => simp
  | succ m ih =>
    rw [List.range_succ, List.foldl_append]
    simp only [List.foldl_cons, List.foldl_nil]
    rw [List.getElem?_set]
    have hlen : ∀ m, ((List.range m).foldl (fun acc i => acc.set (i * b + block) (x.getD i d)) r).length = r.length := by
      intro m
      induction m with
      | zero => simp
      | succ m ihm => rw [List.range_succ, List.foldl_append]; simpa using ihm
    by_cases hkm : m * b + block = k
    · have h1 : k % b = block := by rw [← hkm, Nat.mul_comm, Nat.mul_add_mod, Nat.mod_eq_of_lt hb]
      have h2 : k / b = m := by
        rw [← hkm, Nat.mul_comm, Nat.mul_add_div (by omega), Nat.div_eq_of_lt hb]; simp
      have hl := hlen m
      simp only [hkm, h1, h2, if_true, true_and, Nat.lt_succ_self]
      rw [if_pos (by rw [hl]; exact hk)]
    · have hne : ¬ (k % b = block ∧ k / b = m) := by
        rintro ⟨h1, h2⟩
        apply hkm
        have := Nat.div_add_mod k b
        rw [h1, h2] at this
        rw [Nat.mul_comm]; exact this
      simp only [hkm, if_false, ih]
      by_cases h1 : k % b = block
      · have h2 : k / b ≠ m := fun e => hne ⟨h1, e⟩
        by_cases h3 : k / b < m
        · simp [h1, h3, Nat.lt_succ_of_lt h3]
        · have : ¬ k / b < m + 1 := by omega
          simp [h1, h3, this]
      · simp [h1]

/-! ### blocked index kernels -/

theorem extremeBlockedK_spec [Zero α] (le : α → α → Prop) (hrefl : ∀ a, le a a)
    (htrans : ∀ a b c, le a b → le b c → le a c) (key : α → α) (better : α → α → Bool)
    (hT : ∀ v m, better v m = true → le m v) (hF : ∀ v m, better v m = false → le v m)
    (b : Nat) (x : List α) (hb : b ≤ x.length) (m : List α) (h : extremeBlockedK key better b x = some m)
    (j : Nat) (hj : j < b) :
    ∃ mj, m[j]? = some mj ∧ IsExt le key (column b j x) mj := by
  unfold extremeBlockedK at h
  split at h
  · cases h
  · simp only [Option.some.injEq] at h
    subst h
    refine ⟨key ((column b j x).getD (argLoop key better (column b j x) 0 (key ((column b j x).headD 0)) 0) 0),
      by simp [List.getElem?_map, List.getElem?_range hj], ?_⟩
    exact argLoop_elem le hrefl htrans key better hT hF (column b j x) 0 _
      (column_ne_nil b j hj x (by omega)) (fun _ => by rw [headD_eq_getD]; exact hrefl _)

end FeatModel.Vec
