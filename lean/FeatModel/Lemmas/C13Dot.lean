/- C13: Gate::dot of two consistent vectors = the global dot product. -/
import Mathlib.Data.List.Dedup
import FeatModel.Lemmas.C13Sync1
open FeatModel.Dist

namespace FeatModel.C13L

variable {α : Type} [Field α]

theorem foldl_add_eq_sum (l : List α) (a : α) : l.foldl (· + ·) a = a + l.sum := by
  induction l generalizing a with
  | nil => simp
  | cons x l ih => rw [List.foldl_cons, ih, List.sum_cons, add_assoc]

theorem zipWith_eq_map_range (f : α → α → α) (x y : List α) (n : Nat) (hx : x.length = n) (hy : y.length = n) :
    List.zipWith f x y = (List.range n).map fun i => f (val x i) (val y i) := by
  apply List.ext_getElem
  · simp [hx, hy]
  · intro i h1 h2
    simp only [List.length_zipWith, hx, hy, Nat.min_self] at h1
    rw [List.getElem_zipWith, List.getElem_map, List.getElem_range,
      val_eq_getElem _ _ (by omega), val_eq_getElem _ _ (by omega)]

theorem sum_map_sum_comm {ι κ : Type} (l : List ι) (m : List κ) (f : ι → κ → α) :
    (l.map fun r => (m.map fun g => f r g).sum).sum = (m.map fun g => (l.map fun r => f r g).sum).sum := by
  induction l with
  | nil => simp
  | cons x l ih => simp only [List.map_cons, List.sum_cons, List.sum_map_add, ih]

theorem sum_map_ite_filter {ι : Type} (l : List ι) (p : ι → Bool) (f : ι → α) :
    (l.map fun g => if p g then f g else 0).sum = ((l.filter p).map f).sum := by
  induction l with
  | nil => simp
  | cons x l ih =>
    rw [List.map_cons, List.sum_cons, ih, List.filter_cons]
    cases p x <;> simp

theorem sum_nodup_subset (l D : List Nat) (hl : l.Nodup) (hD : D.Nodup) (hs : ∀ g ∈ l, g ∈ D) (f : Nat → α) :
    (l.map f).sum = (D.map fun g => if l.contains g then f g else 0).sum := by
  rw [sum_map_ite_filter]
  apply List.Perm.sum_eq
  apply List.Perm.map
  apply (List.perm_ext_iff_of_nodup hl (hD.filter _)).2
  intro g
  simp only [List.mem_filter, List.contains_iff_mem]
  exact ⟨fun h => ⟨hs g h, h⟩, fun h => h.2⟩

/-- both branches of `Gate::dot`'s local part are the frequency-weighted sum -/
theorem gdotLocal_eq (p : Patch) (x y : List α) (hx : x.length = p.n) (hy : y.length = p.n) :
    gdotLocal p x y = ((List.range p.n).map fun i => val (freqs p : List α) i * val x i * val y i).sum := by
  unfold gdotLocal
  split
  · rename_i hp
    unfold dotLocal
    rw [foldl_add_eq_sum, zero_add, zipWith_eq_map_range _ x y p.n hx hy]
    congr 1
    apply List.map_congr_left
    intro i hi
    rw [freqs_val_of_isEmpty p hp i (List.mem_range.1 hi), one_mul]
  · unfold tripleDot
    rw [foldl_add_eq_sum, zero_add, zipWith_eq_map_range _ (freqs p) x p.n (freqs_length p) hx,
      zipWith_eq_map_range _ _ y p.n (by simp) hy]
    congr 1
    apply List.map_congr_left
    intro i hi
    have hi := List.mem_range.1 hi
    rw [val_eq_getElem ((List.range p.n).map _) i (by simpa using hi)]
    simp

theorem gdot_eq [CharZero α] (d : Decomp) (h : d.WF) (xs ys : List (List α)) (X Y : Nat → α)
    (hxl : ∀ r, r < d.np → (xs.getD r []).length = (d.patch r).n)
    (hyl : ∀ r, r < d.np → (ys.getD r []).length = (d.patch r).n)
    (hX : ∀ r, r < d.np → ∀ i, i < (d.patch r).n → val (xs.getD r []) i = X (d.gdof r i))
    (hY : ∀ r, r < d.np → ∀ i, i < (d.patch r).n → val (ys.getD r []) i = Y (d.gdof r i))
    (D : List Nat) (hDn : D.Nodup) (hD : ∀ g, g ∈ D ↔ ∃ r, r < d.np ∧ g ∈ d.lmap r) :
    gdot d.patches xs ys = (D.map fun g => X g * Y g).sum := by
  unfold gdot
  rw [foldl_add_eq_sum, zero_add]
  have e1 : ∀ r ∈ List.range d.patches.length,
      gdotLocal (d.patches.getD r default) (xs.getD r []) (ys.getD r [])
        = (D.map fun g => if (d.lmap r).contains g
            then 1 / ((d.sharers g).length : α) * X g * Y g else 0).sum := by
    intro r hr
    have hr : r < d.np := List.mem_range.1 hr
    change gdotLocal (d.patch r) _ _ = _
    rw [gdotLocal_eq _ _ _ (hxl r hr) (hyl r hr),
      ← sum_nodup_subset (d.lmap r) D (h.inj r hr) hDn (fun g hg => (hD g).2 ⟨r, hr, hg⟩)
        (fun g => 1 / ((d.sharers g).length : α) * X g * Y g),
      h.size r hr, ← map_getD_range (d.lmap r) 0]
    congr 1
    apply List.map_congr_left
    intro i hi
    have hi : i < (d.patch r).n := by rw [h.size r hr]; exact List.mem_range.1 hi
    rw [freqs_val d h r hr i hi, hX r hr i hi, hY r hr i hi]
    rfl
  rw [List.map_congr_left e1, sum_map_sum_comm]
  congr 1
  apply List.map_congr_left
  intro g hg
  rw [sum_map_ite_const]
  obtain ⟨r, hr, hgr⟩ := (hD g).1 hg
  have hmem : r ∈ d.sharers g := by
    unfold Decomp.sharers
    rw [List.mem_filter]
    exact ⟨List.mem_range.2 hr, by simpa using hgr⟩
  have hN : ((d.sharers g).length : α) ≠ 0 :=
    Nat.cast_ne_zero.2 (by have := List.length_pos_of_mem hmem; omega)
  change ((d.sharers g).length : α) * _ = _
  field_simp

/-- the enumeration `maps.flatten.dedup` of the global DOFs -/
theorem mem_flatten_dedup (d : Decomp) (h : d.WF) (g : Nat) :
    g ∈ d.maps.flatten.dedup ↔ ∃ r, r < d.np ∧ g ∈ d.lmap r := by
  rw [List.mem_dedup, List.mem_flatten]
  constructor
  · rintro ⟨l, hl, hg⟩
    obtain ⟨r, hr, rfl⟩ := List.getElem_of_mem hl
    refine ⟨r, by rw [Decomp.np, ← h.len]; exact hr, ?_⟩
    simpa [Decomp.lmap, List.getD_eq_getElem?_getD, hr] using hg
  · rintro ⟨r, hr, hg⟩
    have hr' : r < d.maps.length := by rw [h.len]; exact hr
    refine ⟨d.maps[r], List.getElem_mem _, ?_⟩
    simpa [Decomp.lmap, List.getD_eq_getElem?_getD, hr'] using hg

end FeatModel.C13L
