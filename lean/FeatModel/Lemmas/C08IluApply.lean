import FeatModel.Lemmas.C08Ilu
/-! C08: `ILUPrecond::apply` on the stored factors solves `(I+L)(D+U) z = b` (from the two triangular solves). -/
open Finset
namespace FeatModel.Solver
open FeatModel.LA

variable {α : Type} [Field α]

/-- `solve_il` followed by the in-place `solve_du`: for a well-shaped symbolic factorisation (`IluSym.wf`), data arrays
    of matching sizes and non-zero stored inverse pivots, the result `z` satisfies, row by row,
    `(D+U) z = y` and `(I+L) y = b`, i.e. `(I+L)(D+U) z = b` with `D = diag(1 / dataD)` -/
theorem iluSolve_spec (s : IluSym) (hs : s.wf = true) (d : IluNum α)
    (hl : d.dataL.size = s.ciL.size) (hu : d.dataU.size = s.ciU.size)
    (hd : ∀ i, i < s.n → d.dataD.getD i 0 ≠ 0) (b x0 : Array α) (hb : b.size = s.n) (hx0 : x0.size = s.n) :
    (iluSolve s d b x0).size = s.n ∧
    ∃ y : Array α, y.size = s.n ∧
      (∀ i, i < s.n → y.getD i 0 + ∑ j ∈ range s.n, (s.matL d).entry i j * y.getD j 0 = b.getD i 0) ∧
      (∀ i, i < s.n → (iluSolve s d b x0).getD i 0 / d.dataD.getD i 0
          + ∑ j ∈ range s.n, (s.matU d).entry i j * (iluSolve s d b x0).getD j 0 = y.getD i 0) := by
  simp only [IluSym.wf, Bool.and_eq_true, beq_iff_eq, List.all_eq_true, List.mem_range, List.mem_range'_1,
    decide_eq_true_eq, Array.all_eq_true] at hs
  obtain ⟨⟨⟨⟨⟨⟨⟨⟨h1, h2⟩, h3⟩, h4⟩, h5⟩, h6⟩, h7⟩, h8⟩, h9⟩ := hs
  have hcL : ∀ k, k < s.ciL.size → s.ciL.getD k 0 < s.n := by
    intro k hk
    have := h7 k hk
    simpa [Array.getD, hk] using this
  have hcU : ∀ k, k < s.ciU.size → s.ciU.getD k 0 < s.n := by
    intro k hk
    have := h8 k hk
    simpa [Array.getD, hk] using this
  have hL : (s.matL d).WF :=
    ⟨h1, h3, by show s.rpL.getD s.n 0 = d.dataL.size; rw [h5, hl], by show s.ciL.size = d.dataL.size; rw [hl],
      fun i hi => (h9 i hi).1.1.1, hcL⟩
  have hU : (s.matU d).WF :=
    ⟨h2, h4, by show s.rpU.getD s.n 0 = d.dataU.size; rw [h6, hu], by show s.ciU.size = d.dataU.size; rw [hu],
      fun i hi => (h9 i hi).1.1.2, hcU⟩
  have hlow : ∀ i, i < (s.matL d).rows → ∀ k, (s.matL d).rowBegin i ≤ k → k < (s.matL d).rowEnd i →
      (s.matL d).colInd.getD k 0 < i := by
    intro i hi k hk1 hk2
    have hks : k < s.ciL.size := Nat.lt_of_lt_of_le hk2 (Csr.rowEnd_le hL hi)
    have hm := (h9 i hi).1.1.1
    have := (h9 i hi).1.2 k ⟨hk1, by
      have hk2' : k < s.rpL.getD (i + 1) 0 := hk2
      omega⟩
    show s.ciL.getD k 0 < i
    rw [Csr.getD_eq_of_lt _ hks 0 s.n]
    exact this
  have hupp : ∀ i, i < (s.matU d).rows → ∀ k, (s.matU d).rowBegin i ≤ k → k < (s.matU d).rowEnd i →
      i < (s.matU d).colInd.getD k 0 := by
    intro i hi k hk1 hk2
    have hm := (h9 i hi).1.1.2
    exact ((h9 i hi).2 k ⟨hk1, by
      have hk2' : k < s.rpU.getD (i + 1) 0 := hk2
      omega⟩).1
  obtain ⟨hy, hyeq⟩ := solveIl_spec (s.matL d) hL rfl hlow b x0 hb hx0
  obtain ⟨hz, hzeq⟩ := solveDu_spec (s.matU d) hU rfl hupp d.dataD hd (solveIl (s.matL d) b x0) hy
  exact ⟨hz, solveIl (s.matL d) b x0, hy, hyeq, hzeq⟩

end FeatModel.Solver
