import FeatModel.Model.GraphBytes
/-!
C11 — `Graph::serialize` / `Graph(buffer)` round trip (model: `FeatModel/Model/GraphBytes.lean`).
Positive theorem for graphs with at least one domain node, and the negative facts documenting the
"zero domain nodes but allocated pointer array" defect.  Core Lean only.
-/
namespace FeatModel.C11

/-! ### generic list helpers -/

theorem range_map_getD_append (l r : List Nat) (n : Nat) (hn : n = l.length) :
    (List.range n).map (fun i => (l ++ r).getD i 0) = l := by
  subst hn
  apply List.ext_getElem
  · simp
  · intro i h1 h2
    simp only [List.getElem_map, List.getElem_range, List.getD_eq_getElem?_getD]
    rw [List.getElem?_append_left h2, List.getElem?_eq_getElem h2]
    rfl

theorem range_map_getD (l : List Nat) (n : Nat) (hn : n = l.length) :
    (List.range n).map (fun i => l.getD i 0) = l := by
  have := range_map_getD_append l [] n hn
  simpa using this

/-! ### the round trip -/

/-- the shape of the buffer for a graph with at least one domain node -/
theorem serialize_of_two_le (g : RawGraph) (h : g.domainPtr.length ≥ 2) :
    g.serialize =
      graphMagic :: ((5 + g.domainPtr.length + g.imageIdx.length) * 8) :: (g.domainPtr.length - 1) ::
        g.numImage :: g.imageIdx.length :: (g.domainPtr ++ g.imageIdx) := by
  have hne : g.domainPtr.isEmpty = false := by
    cases hd : g.domainPtr with
    | nil => simp [hd] at h
    | cons a t => rfl
  have hgt : ¬ g.domainPtr.length ≤ 1 := by omega
  simp [RawGraph.serialize, hne, hgt]

theorem serialize_length_of_two_le (g : RawGraph) (h : g.domainPtr.length ≥ 2) :
    g.serialize.length = 5 + g.domainPtr.length + g.imageIdx.length := by
  rw [serialize_of_two_le g h]
  simp only [List.length_cons, List.length_append]
  omega

/-- `deserialize (serialize g) = g` for every graph with at least one domain node
    (no consistency between `domainPtr` and `imageIdx` is needed). -/
theorem graph_deserialize_serialize' (g : RawGraph) (h : g.domainPtr.length ≥ 2) :
    RawGraph.deserialize g.serialize = some g := by
  have hlen := serialize_length_of_two_le g h
  have hs := serialize_of_two_le g h
  unfold RawGraph.deserialize
  rw [hlen]
  rw [hs]
  have h5 : ¬ (5 + g.domainPtr.length + g.imageIdx.length < 5) := by omega
  have hnd : g.domainPtr.length - 1 > 0 := by omega
  have hnd1 : g.domainPtr.length - 1 + 1 = g.domainPtr.length := by omega
  simp only [h5, if_false, List.getD_cons_zero, List.getD_cons_succ, bne_self_eq_false,
    Bool.false_eq_true, List.drop_succ_cons, List.drop_zero, hnd, if_true, hnd1]
  rw [range_map_getD_append _ _ _ rfl, List.drop_left]
  cases hi : g.imageIdx with
  | nil => cases g; simp_all
  | cons a t =>
    have : (a :: t).length > 0 := by simp
    simp only [this, if_true]
    rw [range_map_getD _ _ rfl]
    cases g; simp_all

theorem graph_deserialize_serialize (g : RawGraph) (h : g.wf = true) :
    RawGraph.deserialize g.serialize = some g := by
  apply graph_deserialize_serialize'
  simp only [RawGraph.wf, Bool.and_eq_true, decide_eq_true_eq] at h
  exact h.1

/-- byte-for-byte: deserialise-then-serialise reproduces the buffer -/
theorem graph_serialize_idempotent (g : RawGraph) (h : g.domainPtr.length ≥ 2) :
    (RawGraph.deserialize g.serialize).map RawGraph.serialize = some g.serialize := by
  rw [graph_deserialize_serialize' g h]; rfl

/-! ### the known defect: zero domain nodes with an allocated pointer array -/

/-- a graph with `domainPtr = [0]` serialises to 6 words … -/
theorem graph_zero_domain_serialize_length (k : Nat) :
    ({ numImage := k, domainPtr := [0], imageIdx := [] } : RawGraph).serialize.length = 6 := by
  simp [RawGraph.serialize]

/-- … and is read back as the graph without pointer array … -/
theorem graph_zero_domain_deserialize (k : Nat) :
    RawGraph.deserialize ({ numImage := k, domainPtr := [0], imageIdx := [] } : RawGraph).serialize
      = some { numImage := k, domainPtr := [], imageIdx := [] } := by
  simp [RawGraph.serialize, RawGraph.deserialize]

/-- … which re-serialises to 5 words: the byte-for-byte clause fails here. -/
theorem graph_zero_domain_reserialize_length (k : Nat) :
    (RawGraph.deserialize ({ numImage := k, domainPtr := [0], imageIdx := [] } : RawGraph).serialize).map
      (fun g => g.serialize.length) = some 5 := by
  rw [graph_zero_domain_deserialize]
  simp [RawGraph.serialize]

theorem graph_zero_domain_not_idempotent (k : Nat) :
    (RawGraph.deserialize ({ numImage := k, domainPtr := [0], imageIdx := [] } : RawGraph).serialize).map
      RawGraph.serialize ≠ some ({ numImage := k, domainPtr := [0], imageIdx := [] } : RawGraph).serialize := by
  rw [graph_zero_domain_deserialize]
  simp [RawGraph.serialize]

/-- the default-constructed graph round-trips (for every `numImage`) -/
theorem graph_default_roundtrip (k : Nat) :
    RawGraph.deserialize ({ numImage := k, domainPtr := [], imageIdx := [] } : RawGraph).serialize
      = some { numImage := k, domainPtr := [], imageIdx := [] } := by
  simp [RawGraph.serialize, RawGraph.deserialize]

theorem graph_default_idempotent (k : Nat) :
    (RawGraph.deserialize ({ numImage := k, domainPtr := [], imageIdx := [] } : RawGraph).serialize).map
      RawGraph.serialize
      = some ({ numImage := k, domainPtr := [], imageIdx := [] } : RawGraph).serialize := by
  rw [graph_default_roundtrip]; rfl

end FeatModel.C11
