import FeatModel.Model.GraphBytes
/-!
C11 — `Graph::serialize` / `Graph(buffer)` round trip (model: `FeatModel/Model/GraphBytes.lean`).
Round trip for graphs with at least one domain node, the shape of the round trip for graphs without domain
nodes (a pointer array of length ≤ 1 is not stored), and the byte-for-byte clause for ALL graphs (the former
"zero domain nodes but allocated pointer array" defect is fixed).  Core Lean only.
-/
namespace FeatModel.C11

/-! ### generic list helpers -/

theorem range_map_getD_append (l r : List Nat) (n : Nat) (hn : n = l.length) :
    (List.range n).map (fun i => (l ++ r).getD i 0) = l := by
  subst hn
  apply List.ext_getElem
  · simp
  · intro i h1 h2
    simp only [List.getElem_map, List.getElem_range, List.getD_eq_getElem?_getD]
    rw [List.getElem?_append_left h2, List.getElem?_eq_getElem h2]
    rfl

theorem range_map_getD (l : List Nat) (n : Nat) (hn : n = l.length) :
    (List.range n).map (fun i => l.getD i 0) = l := by
  have := range_map_getD_append l [] n hn
  simpa using this

/-! ### the round trip -/

/-- the shape of the buffer for a graph with at least one domain node -/
theorem serialize_of_two_le (g : RawGraph) (h : g.domainPtr.length ≥ 2) :
    g.serialize =
      graphMagic :: ((5 + g.domainPtr.length + g.imageIdx.length) * 8) :: (g.domainPtr.length - 1) ::
        g.numImage :: g.imageIdx.length :: (g.domainPtr ++ g.imageIdx) := by
  have hne : g.domainPtr.isEmpty = false := by
    cases hd : g.domainPtr with
    | nil => simp [hd] at h
    | cons a t => rfl
  have hgt : ¬ g.domainPtr.length ≤ 1 := by omega
  have hgt' : g.domainPtr.length > 1 := by omega
  simp only [RawGraph.serialize, hne, hgt, hgt', if_true, if_false, Bool.false_eq_true]
  simp

theorem serialize_length_of_two_le (g : RawGraph) (h : g.domainPtr.length ≥ 2) :
    g.serialize.length = 5 + g.domainPtr.length + g.imageIdx.length := by
  rw [serialize_of_two_le g h]
  simp only [List.length_cons, List.length_append]
  omega

/-- `deserialize (serialize g) = g` for every graph with at least one domain node
    (no consistency between `domainPtr` and `imageIdx` is needed). -/
theorem graph_deserialize_serialize' (g : RawGraph) (h : g.domainPtr.length ≥ 2) :
    RawGraph.deserialize g.serialize = some g := by
  have hlen := serialize_length_of_two_le g h
  have hs := serialize_of_two_le g h
  unfold RawGraph.deserialize
  rw [hlen]
  rw [hs]
  have h5 : ¬ (5 + g.domainPtr.length + g.imageIdx.length < 5) := by omega
  have hnd : g.domainPtr.length - 1 > 0 := by omega
  have hnd1 : g.domainPtr.length - 1 + 1 = g.domainPtr.length := by omega
  simp only [h5, if_false, List.getD_cons_zero, List.getD_cons_succ, bne_self_eq_false,
    Bool.false_eq_true, List.drop_succ_cons, List.drop_zero, hnd, if_true, hnd1]
  rw [range_map_getD_append _ _ _ rfl, List.drop_left]
  cases hi : g.imageIdx with
  | nil => cases g; simp_all
  | cons a t =>
    have : (a :: t).length > 0 := by simp
    simp only [this, if_true]
    rw [range_map_getD _ _ rfl]
    cases g; simp_all

/-- byte-for-byte: deserialise-then-serialise reproduces the buffer -/
theorem graph_serialize_idempotent (g : RawGraph) (h : g.domainPtr.length ≥ 2) :
    (RawGraph.deserialize g.serialize).map RawGraph.serialize = some g.serialize := by
  rw [graph_deserialize_serialize' g h]; rfl

/-! ### graphs without domain nodes: the pointer array is not stored -/

theorem range_map_getD_replicate (n : Nat) :
    (List.range n).map (fun i => (List.replicate n 0).getD i 0) = List.replicate n 0 := by
  have := range_map_getD (List.replicate n 0) n (by simp)
  exact this

/-- the shape of the buffer for a graph without domain nodes (pointer array absent or of length 1) -/
theorem serialize_of_le_one (g : RawGraph) (h : g.domainPtr.length ≤ 1) :
    g.serialize =
      graphMagic :: ((5 + g.imageIdx.length) * 8) :: 0 :: g.numImage :: g.imageIdx.length ::
        List.replicate g.imageIdx.length 0 := by
  have hgt : ¬ g.domainPtr.length > 1 := by omega
  have h0 : (if g.domainPtr.isEmpty = true then 0 else g.domainPtr.length - 1) = 0 := by
    split
    · rfl
    · omega
  simp only [RawGraph.serialize, hgt, h, h0, if_true, if_false]
  simp

/-- a graph without domain nodes is read back without pointer array (and with the zero-filled index array the
    buffer holds; for a well-formed graph that array is empty) -/
theorem graph_deserialize_serialize_le_one (g : RawGraph) (h : g.domainPtr.length ≤ 1) :
    RawGraph.deserialize g.serialize =
      some { numImage := g.numImage, domainPtr := [], imageIdx := List.replicate g.imageIdx.length 0 } := by
  rw [serialize_of_le_one g h]
  unfold RawGraph.deserialize
  have hlen : (graphMagic :: ((5 + g.imageIdx.length) * 8) :: 0 :: g.numImage :: g.imageIdx.length ::
        List.replicate g.imageIdx.length 0).length = 5 + g.imageIdx.length := by
    simp only [List.length_cons, List.length_replicate]; omega
  rw [hlen]
  have h5 : ¬ (5 + g.imageIdx.length < 5) := by omega
  have h00 : ¬ (0 > 0) := by omega
  simp only [h5, if_false, List.getD_cons_zero, List.getD_cons_succ, bne_self_eq_false,
    Bool.false_eq_true, List.drop_succ_cons, List.drop_zero, h00]
  by_cases hi : g.imageIdx.length > 0
  · simp only [hi, if_true]
    rw [range_map_getD_replicate]
  · have : g.imageIdx.length = 0 := by omega
    simp [this]

/-- `deserialize ∘ serialize` for every well-formed graph: the graph itself if it has domain nodes, the graph
    without its (unstored) pointer array otherwise; in both cases nothing observable is lost -/
theorem graph_deserialize_serialize (g : RawGraph) (h : g.wf = true) :
    ∃ g', RawGraph.deserialize g.serialize = some g' ∧
      g' = (if g.domainPtr.length ≥ 2 then g else { g with domainPtr := [] }) ∧
      g'.serialize = g.serialize ∧ g'.numImage = g.numImage ∧ g'.imageIdx = g.imageIdx ∧
      g'.numDomain = g.numDomain ∧ g'.wf = true := by
  have hw := h
  simp only [RawGraph.wf, Bool.or_eq_true, Bool.and_eq_true, decide_eq_true_eq, List.isEmpty_iff] at h
  rcases h with ⟨h1, h2⟩ | ⟨h1, h2⟩
  · have hlt : ¬ g.domainPtr.length ≥ 2 := by omega
    refine ⟨{ g with domainPtr := [] }, ?_, by simp [hlt], ?_, rfl, rfl, ?_, ?_⟩
    · rw [graph_deserialize_serialize_le_one g h1, h2]; cases g; simp_all
    · rw [serialize_of_le_one g h1, serialize_of_le_one _ (by simp)]
    · simp only [RawGraph.numDomain, List.length_nil]; omega
    · simp [RawGraph.wf, h2]
  · exact ⟨g, graph_deserialize_serialize' g h1, by simp [h1], rfl, rfl, rfl, rfl, hw⟩

/-- a well-formed graph with domain nodes round-trips exactly -/
theorem graph_deserialize_serialize_wf_two_le (g : RawGraph) (_h : g.wf = true) (h2 : g.domainPtr.length ≥ 2) :
    RawGraph.deserialize g.serialize = some g :=
  graph_deserialize_serialize' g h2

/-- byte-for-byte for EVERY graph (no hypothesis at all): deserialise-then-serialise reproduces the buffer -/
theorem graph_serialize_idempotent_any (g : RawGraph) :
    (RawGraph.deserialize g.serialize).map RawGraph.serialize = some g.serialize := by
  by_cases h : g.domainPtr.length ≥ 2
  · exact graph_serialize_idempotent g h
  · have h1 : g.domainPtr.length ≤ 1 := by omega
    rw [graph_deserialize_serialize_le_one g h1, Option.map_some, serialize_of_le_one g h1,
      serialize_of_le_one _ (by simp)]
    simp

/-- the fixed byte-for-byte clause: now for ALL graphs, including those without domain nodes -/
theorem graph_serialize_idempotent_all (g : RawGraph) (_h : g.domainPtr.length ≥ 2 ∨ g.imageIdx = []) :
    (RawGraph.deserialize g.serialize).map RawGraph.serialize = some g.serialize :=
  graph_serialize_idempotent_any g

/-! ### the former defect: zero domain nodes with an allocated pointer array -/

/-- a graph with `domainPtr = [0]` is read back as the graph without pointer array … -/
theorem graph_zero_domain_deserialize (k : Nat) :
    RawGraph.deserialize ({ numImage := k, domainPtr := [0], imageIdx := [] } : RawGraph).serialize
      = some { numImage := k, domainPtr := [], imageIdx := [] } := by
  rw [graph_deserialize_serialize_le_one _ (by simp)]; rfl

/-- … and both serialise to the same 5 words: the byte-for-byte clause holds -/
theorem graph_zero_domain_idempotent (k : Nat) :
    (RawGraph.deserialize ({ numImage := k, domainPtr := [0], imageIdx := [] } : RawGraph).serialize).map
      RawGraph.serialize = some ({ numImage := k, domainPtr := [0], imageIdx := [] } : RawGraph).serialize :=
  graph_serialize_idempotent_all _ (Or.inr rfl)

theorem graph_zero_domain_serialize_eq_default (k : Nat) :
    ({ numImage := k, domainPtr := [0], imageIdx := [] } : RawGraph).serialize =
      ({ numImage := k, domainPtr := [], imageIdx := [] } : RawGraph).serialize := by
  rw [serialize_of_le_one _ (by simp), serialize_of_le_one _ (by simp)]

/-- the default-constructed graph round-trips (for every `numImage`) -/
theorem graph_default_roundtrip (k : Nat) :
    RawGraph.deserialize ({ numImage := k, domainPtr := [], imageIdx := [] } : RawGraph).serialize
      = some { numImage := k, domainPtr := [], imageIdx := [] } := by
  simp [RawGraph.serialize, RawGraph.deserialize]

theorem graph_default_idempotent (k : Nat) :
    (RawGraph.deserialize ({ numImage := k, domainPtr := [], imageIdx := [] } : RawGraph).serialize).map
      RawGraph.serialize
      = some ({ numImage := k, domainPtr := [], imageIdx := [] } : RawGraph).serialize := by
  rw [graph_default_roundtrip]; rfl

end FeatModel.C11
