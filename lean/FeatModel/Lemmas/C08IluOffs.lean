import FeatModel.Lemmas.C08IluFactorAux
/-! C08: facts about the ILU structure that hold for EVERY input: the offset arrays produced by `set_struct_csr` and
`factorize_symbolic(p)` are proper offset arrays, `copy_data_csr` overwrites every position of the data arrays
(`copy_resets_fill`), and the numeric routines keep the array sizes. -/
namespace FeatModel.Solver
open FeatModel.LA

variable {α : Type}

/-- proper offset arrays: `n+1` entries, starting at 0, monotone, ending at the number of stored positions -/
structure IluSym.OffsOk (s : IluSym) : Prop where
  szL : s.rpL.size = s.n + 1
  szU : s.rpU.size = s.n + 1
  firstL : s.rpL.getD 0 0 = 0
  firstU : s.rpU.getD 0 0 = 0
  lastL : s.rpL.getD s.n 0 = s.ciL.size
  lastU : s.rpU.getD s.n 0 = s.ciU.size
  monoL : ∀ i, i < s.n → s.rpL.getD i 0 ≤ s.rpL.getD (i + 1) 0
  monoU : ∀ i, i < s.n → s.rpU.getD i 0 ≤ s.rpU.getD (i + 1) 0

namespace Offs
/-! ### generic loop lemmas -/

theorem foldl_inv {β ι : Type} (P : β → Prop) (f : β → ι → β) (hstep : ∀ y k, P y → P (f y k)) :
    ∀ (l : List ι) (x : β), P x → P (l.foldl f x)
  | [], _, h => h
  | k :: l, x, h => foldl_inv P f hstep l (f x k) (hstep x k h)

theorem foldRange_inv {β : Type} (P : β → Prop) (f : β → Nat → β) (hstep : ∀ y k, P y → P (f y k))
    (b e : Nat) (x : β) (h : P x) : P (foldRange b e f x) :=
  foldl_inv P f hstep _ x h

theorem foldl_range_eq_foldRange {β : Type} (f : β → Nat → β) (n : Nat) (x : β) :
    (List.range n).foldl f x = foldRange 0 n f x := by
  unfold foldRange
  rw [List.range_eq_range', Nat.sub_zero]

/-- relational induction principle for two runs of the same `foldRange` loop -/
theorem foldRange_induct2 {β : Type} (P : Nat → β → β → Prop) (f : β → Nat → β) (b e : Nat) (x x' : β) (hbe : b ≤ e)
    (h0 : P b x x') (hstep : ∀ m y y', b ≤ m → m < e → P m y y' → P (m + 1) (f y m) (f y' m)) :
    P e (foldRange b e f x) (foldRange b e f x') := by
  have key : ∀ k, b + k ≤ e → P (b + k) ((List.range' b k).foldl f x) ((List.range' b k).foldl f x') := by
    intro k
    induction k with
    | zero => intro _; simpa using h0
    | succ k ih =>
      intro hk
      rw [List.range'_concat, List.foldl_append, List.foldl_append]
      simp only [List.foldl_cons, List.foldl_nil, Nat.one_mul]
      exact hstep (b + k) _ _ (by omega) (by omega) (ih (by omega))
  have := key (e - b) (by omega)
  unfold foldRange
  rwa [show b + (e - b) = e by omega] at this

theorem foldlM_range'_inv {σ : Type} (P : Nat → σ → Prop) (f : σ → Nat → Option σ)
    (hstep : ∀ m s s', P m s → f s m = some s' → P (m + 1) s') :
    ∀ k a s s', P a s → (List.range' a k).foldlM f s = some s' → P (a + k) s'
  | 0, a, s, s', h, he => by
    simp only [List.range'_zero, List.foldlM_nil, pure, Option.some.injEq] at he
    subst he
    exact h
  | k + 1, a, s, s', h, he => by
    rw [List.range'_succ, List.foldlM_cons] at he
    cases hf : f s a with
    | none => rw [hf] at he; simp at he
    | some s1 =>
      rw [hf] at he
      have he' : (List.range' (a + 1) k).foldlM f s1 = some s' := by simpa using he
      have := foldlM_range'_inv P f hstep k (a + 1) s1 s' (hstep a s s1 h hf) he'
      rwa [show a + 1 + k = a + (k + 1) by omega] at this

/-! ### offset arrays under `push` -/

/-- `rp` is a proper offset array for `m` rows and `sz` stored positions -/
structure OffInv (rp : Array Nat) (m sz : Nat) : Prop where
  size : rp.size = m + 1
  first : rp.getD 0 0 = 0
  last : rp.getD m 0 = sz
  mono : ∀ i, i < m → rp.getD i 0 ≤ rp.getD (i + 1) 0

theorem getD_push_lt (rp : Array Nat) (v i : Nat) (h : i < rp.size) : (rp.push v).getD i 0 = rp.getD i 0 := by
  rw [Array.getD_eq_getD_getElem?, Array.getD_eq_getD_getElem?, Array.getElem?_push, if_neg (by omega)]

theorem getD_push_eq (rp : Array Nat) (v : Nat) : (rp.push v).getD rp.size 0 = v := by
  rw [Array.getD_eq_getD_getElem?, Array.getElem?_push, if_pos rfl]
  rfl

theorem OffInv.base : OffInv #[0] 0 0 :=
  ⟨rfl, rfl, rfl, fun _ hi => absurd hi (Nat.not_lt_zero _)⟩

theorem OffInv.push {rp : Array Nat} {m sz : Nat} (h : OffInv rp m sz) (sz' : Nat) (hle : sz ≤ sz') :
    OffInv (rp.push sz') (m + 1) sz' := by
  have hlast : (rp.push sz').getD (m + 1) 0 = sz' := by
    have := getD_push_eq rp sz'
    rwa [h.size] at this
  refine ⟨by rw [Array.size_push, h.size], ?_, hlast, ?_⟩
  · rw [getD_push_lt _ _ _ (by rw [h.size]; omega)]
    exact h.first
  · intro i hi
    rw [getD_push_lt _ _ i (by rw [h.size]; omega)]
    rcases Nat.lt_or_ge i m with hlt | hge
    · rw [getD_push_lt _ _ (i + 1) (by rw [h.size]; omega)]
      exact h.mono i hlt
    · have : i = m := by omega
      subst this
      rw [hlast, h.last]
      exact hle

/-! ### `set_struct_csr` -/

theorem scanStructL_size (colInd : Array Nat) (i jend : Nat) :
    ∀ f j (ciL : Array Nat), ciL.size ≤ (scanStructL colInd i jend f j ciL).2.size
  | 0, _, _ => Nat.le_refl _
  | f + 1, j, ciL => by
    unfold scanStructL
    split
    · exact Nat.le_trans (by rw [Array.size_push]; omega) (scanStructL_size colInd i jend f (j + 1) _)
    · exact Nat.le_refl _

end Offs
open Offs

/-- `set_struct_csr` produces proper offsets whatever the input arrays are -/
theorem setStructCsr_offsOk (n : Nat) (rowPtr colInd : Array Nat) (s : IluSym)
    (h : setStructCsr n rowPtr colInd = some s) : s.OffsOk ∧ s.n = n := by
  unfold setStructCsr at h
  rw [List.range_eq_range'] at h
  have key := foldlM_range'_inv
    (fun m (t : IluSym) => t.n = n ∧ OffInv t.rpL m t.ciL.size ∧ OffInv t.rpU m t.ciU.size) _ (by
      intro m t t' ⟨hn, hL, hU⟩ hf
      simp only [] at hf
      split at hf
      · exact absurd hf (by simp)
      · injection hf with hf
        subst hf
        refine ⟨hn, hL.push _ (scanStructL_size ..), hU.push _ ?_⟩
        exact foldl_inv (fun a : Array Nat => t.ciU.size ≤ a.size) _
          (fun y k hy => by rw [Array.size_push]; omega) _ _ (Nat.le_refl _))
    n 0 _ s ⟨rfl, OffInv.base, OffInv.base⟩ h
  obtain ⟨hn, hL, hU⟩ := key
  rw [Nat.zero_add, ← hn] at hL hU
  exact ⟨⟨hL.size, hU.size, hL.first, hU.first, hL.last, hU.last, hL.mono, hU.mono⟩, hn⟩

namespace Offs
/-! ### `factorize_symbolic` -/

theorem insertEntry_size (idx lvl : Array Nat) (i j l : Nat) : idx.size ≤ (insertEntry idx lvl i j l).1.size := by
  unfold insertEntry
  simp only []
  split
  · exact Nat.le_refl _
  · simp only [List.size_toArray, List.length_append, List.length_take, List.length_cons, List.length_drop,
      Array.length_toList]
    omega

theorem symEntry_size (pn i lj : Nat) (c : SymCur) (k : Nat) :
    c.idxL.size ≤ (symEntry pn i lj c k).idxL.size ∧ c.idxU.size ≤ (symEntry pn i lj c k).idxU.size := by
  unfold symEntry
  simp only []
  split
  · exact ⟨Nat.le_refl _, Nat.le_refl _⟩
  · split
    · exact ⟨insertEntry_size .., Nat.le_refl _⟩
    · split
      · exact ⟨Nat.le_refl _, insertEntry_size ..⟩
      · exact ⟨Nat.le_refl _, Nat.le_refl _⟩

theorem symRowLoop_size (pn i : Nat) (ptrU : Array Nat) : ∀ f j (c : SymCur),
    c.idxL.size ≤ (symRowLoop pn i ptrU f j c).idxL.size ∧ c.idxU.size ≤ (symRowLoop pn i ptrU f j c).idxU.size
  | 0, _, _ => ⟨Nat.le_refl _, Nat.le_refl _⟩
  | f + 1, j, c => by
    rw [symRowLoop]
    by_cases hj : j < c.idxL.size
    · rw [if_pos hj]
      have h1 := foldRange_inv (fun y : SymCur => c.idxL.size ≤ y.idxL.size ∧ c.idxU.size ≤ y.idxU.size)
        (symEntry pn i (c.lvlL.getD j 0))
        (fun y k hy => ⟨Nat.le_trans hy.1 (symEntry_size pn i _ y k).1, Nat.le_trans hy.2 (symEntry_size pn i _ y k).2⟩)
        (ptrU.getD (c.idxL.getD j 0) 0) (ptrU.getD (c.idxL.getD j 0 + 1) 0)
        { c with olj := j, ouj := ptrU.getD i 0 } ⟨Nat.le_refl _, Nat.le_refl _⟩
      have h2 := symRowLoop_size pn i ptrU f (j + 1)
        (foldRange (ptrU.getD (c.idxL.getD j 0) 0) (ptrU.getD (c.idxL.getD j 0 + 1) 0)
          (symEntry pn i (c.lvlL.getD j 0)) { c with olj := j, ouj := ptrU.getD i 0 })
      exact ⟨Nat.le_trans h1.1 h2.1, Nat.le_trans h1.2 h2.2⟩
    · rw [if_neg hj]
      exact ⟨Nat.le_refl _, Nat.le_refl _⟩

theorem foldRange_push_size {β : Type} (g : Nat → β) (b e : Nat) (a : Array β) :
    a.size ≤ (foldRange b e (fun a j => a.push (g j)) a).size :=
  foldRange_inv (fun y : Array β => a.size ≤ y.size) _ (fun y k hy => by rw [Array.size_push]; omega) b e a
    (Nat.le_refl _)

theorem symRow_inv (s : IluSym) (pn : Nat) (st : SymState) (m : Nat)
    (h : OffInv st.ptrL m st.idxL.size ∧ OffInv st.ptrU m st.idxU.size) :
    OffInv (symRow s pn st m).ptrL (m + 1) (symRow s pn st m).idxL.size ∧
    OffInv (symRow s pn st m).ptrU (m + 1) (symRow s pn st m).idxU.size := by
  unfold symRow
  simp only []
  have hl := symRowLoop_size pn m st.ptrU
  constructor
  · refine h.1.push _ (Nat.le_trans ?_ (hl _ _ _).1)
    exact foldRange_push_size _ _ _ _
  · refine h.2.push _ (Nat.le_trans ?_ (hl _ _ _).2)
    exact foldRange_push_size _ _ _ _

end Offs

/-- `factorize_symbolic(p)` produces proper offsets for every `p` and every input structure with proper offsets -/
theorem factorizeSymbolic_offsOk (s : IluSym) (h : s.OffsOk) (p : Int) :
    (factorizeSymbolic s p).OffsOk ∧ (factorizeSymbolic s p).n = s.n := by
  unfold factorizeSymbolic
  split
  · exact ⟨h, rfl⟩
  · simp only []
    rw [foldl_range_eq_foldRange]
    have key := foldRange_induct
      (fun m (st : SymState) => OffInv st.ptrL m st.idxL.size ∧ OffInv st.ptrU m st.idxU.size)
      (symRow s p.toNat) 0 s.n
      { ptrL := #[0], idxL := #[], lvlL := #[], ptrU := #[0], idxU := #[], lvlU := #[] } (Nat.zero_le _)
      ⟨OffInv.base, OffInv.base⟩ (fun m y _ _ hy => symRow_inv s p.toNat y m hy)
    obtain ⟨hL, hU⟩ := key
    exact ⟨⟨hL.size, hU.size, hL.first, hU.first, hL.last, hU.last, hL.mono, hU.mono⟩, trivial⟩

/-! ### sizes -/

theorem allocData_sz [Zero α] (s : IluSym) : (allocData s : IluNum α).Sz s := by
  unfold allocData IluNum.Sz
  simp

namespace Offs
theorem copyL_size [Zero α] (s : IluSym) (A : Csr α) (st : Array α × Nat) (j : Nat) :
    (copyL s A st j).1.size = st.1.size := by
  unfold copyL
  split <;> simp

theorem copyU_size [Zero α] (s : IluSym) (A : Csr α) (xa : Nat) (st : Array α × Nat) (j : Nat) :
    (copyU s A xa st j).1.size = st.1.size := by
  unfold copyU
  split <;> simp

theorem copyRow_sz [Zero α] (s : IluSym) (A : Csr α) (d : IluNum α) (i : Nat) (h : d.Sz s) :
    (copyRow s A d i).Sz s := by
  obtain ⟨h1, h2, h3⟩ := h
  unfold copyRow IluNum.Sz
  simp only []
  refine ⟨?_, ?_, ?_⟩
  · exact foldRange_inv (fun y : Array α × Nat => y.1.size = s.ciL.size) _
      (fun y k hy => by rw [copyL_size]; exact hy) _ _ _ h1
  · exact foldRange_inv (fun y : Array α × Nat => y.1.size = s.ciU.size) _
      (fun y k hy => by rw [copyU_size]; exact hy) _ _ _ h2
  · rw [Array.size_setIfInBounds]; exact h3

end Offs

/-- `copy_data_csr` keeps the sizes of the data arrays -/
theorem copyDataCsr_sz [Zero α] (s : IluSym) (A : Csr α) (prev : IluNum α) (h : prev.Sz s) :
    (copyDataCsr s A prev).Sz s := by
  unfold copyDataCsr
  exact foldl_inv (fun d : IluNum α => d.Sz s) _ (fun y k hy => copyRow_sz s A y k hy) _ _ h

namespace Offs
/-! ### `copy_data_csr` overwrites everything -/

/-- same size and equal on all positions `< m` -/
def Agree (m : Nat) (a a' : Array α) : Prop := a.size = a'.size ∧ ∀ p, p < m → a[p]? = a'[p]?

theorem Agree.set {m : Nat} {a a' : Array α} (h : Agree m a a') (v : α) :
    Agree (m + 1) (a.setIfInBounds m v) (a'.setIfInBounds m v) := by
  refine ⟨by rw [Array.size_setIfInBounds, Array.size_setIfInBounds]; exact h.1, ?_⟩
  intro p hp
  rw [Array.getElem?_setIfInBounds, Array.getElem?_setIfInBounds, h.1]
  by_cases hpm : m = p
  · rw [if_pos hpm, if_pos hpm]
  · rw [if_neg hpm, if_neg hpm]
    exact h.2 p (by omega)

theorem Agree.eq {a a' : Array α} (h : Agree a.size a a') : a = a' := by
  apply Array.ext_getElem?
  intro i
  rcases Nat.lt_or_ge i a.size with hlt | hge
  · exact h.2 i hlt
  · rw [Array.getElem?_eq_none hge, Array.getElem?_eq_none (by rw [← h.1]; exact hge)]

theorem copyL_agree [Zero α] (s : IluSym) (A : Csr α) (m : Nat) (y y' : Array α × Nat) (h2 : y.2 = y'.2)
    (ha : Agree m y.1 y'.1) :
    (copyL s A y m).2 = (copyL s A y' m).2 ∧ Agree (m + 1) (copyL s A y m).1 (copyL s A y' m).1 := by
  unfold copyL
  rw [← h2]
  by_cases hc : (s.ciL.getD m 0 == A.colInd.getD y.2 A.cols) = true
  · rw [if_pos hc, if_pos hc]
    exact ⟨rfl, ha.set _⟩
  · rw [if_neg hc, if_neg hc]
    exact ⟨rfl, ha.set _⟩

theorem copyU_agree [Zero α] (s : IluSym) (A : Csr α) (xa m : Nat) (y y' : Array α × Nat) (h2 : y.2 = y'.2)
    (ha : Agree m y.1 y'.1) :
    (copyU s A xa y m).2 = (copyU s A xa y' m).2 ∧ Agree (m + 1) (copyU s A xa y m).1 (copyU s A xa y' m).1 := by
  unfold copyU
  rw [← h2]
  by_cases hc : (decide (y.2 < xa) && s.ciU.getD m 0 == A.colInd.getD y.2 A.cols) = true
  · rw [if_pos hc, if_pos hc]
    exact ⟨rfl, ha.set _⟩
  · rw [if_neg hc, if_neg hc]
    exact ⟨rfl, ha.set _⟩

theorem copyL_fold_agree [Zero α] (s : IluSym) (A : Csr α) (b e : Nat) (hbe : b ≤ e) (a a' : Array α) (ra : Nat)
    (ha : Agree b a a') :
    (foldRange b e (copyL s A) (a, ra)).2 = (foldRange b e (copyL s A) (a', ra)).2 ∧
    Agree e (foldRange b e (copyL s A) (a, ra)).1 (foldRange b e (copyL s A) (a', ra)).1 :=
  foldRange_induct2 (fun m (y y' : Array α × Nat) => y.2 = y'.2 ∧ Agree m y.1 y'.1) (copyL s A) b e (a, ra) (a', ra)
    hbe ⟨rfl, ha⟩ (fun m y y' _ _ hy => copyL_agree s A m y y' hy.1 hy.2)

theorem copyU_fold_agree [Zero α] (s : IluSym) (A : Csr α) (xa b e : Nat) (hbe : b ≤ e) (a a' : Array α) (ra : Nat)
    (ha : Agree b a a') :
    (foldRange b e (copyU s A xa) (a, ra)).2 = (foldRange b e (copyU s A xa) (a', ra)).2 ∧
    Agree e (foldRange b e (copyU s A xa) (a, ra)).1 (foldRange b e (copyU s A xa) (a', ra)).1 :=
  foldRange_induct2 (fun m (y y' : Array α × Nat) => y.2 = y'.2 ∧ Agree m y.1 y'.1) (copyU s A xa) b e (a, ra)
    (a', ra) hbe ⟨rfl, ha⟩ (fun m y y' _ _ hy => copyU_agree s A xa m y y' hy.1 hy.2)

/-- the two runs agree on all positions of the rows `< m` -/
def CopyInv (s : IluSym) (m : Nat) (d d' : IluNum α) : Prop :=
  Agree (s.rpL.getD m 0) d.dataL d'.dataL ∧ Agree (s.rpU.getD m 0) d.dataU d'.dataU ∧ Agree m d.dataD d'.dataD

theorem copyRow_inv [Zero α] (s : IluSym) (h : s.OffsOk) (A : Csr α) (m : Nat) (hm : m < s.n) (d d' : IluNum α)
    (hd : CopyInv s m d d') : CopyInv s (m + 1) (copyRow s A d m) (copyRow s A d' m) := by
  obtain ⟨hL, hU, hD⟩ := hd
  obtain ⟨hl2, hl1⟩ := copyL_fold_agree s A _ _ (h.monoL m hm) d.dataL d'.dataL (A.rowPtr.getD m 0) hL
  unfold CopyInv copyRow
  simp only []
  refine ⟨hl1, ?_, ?_⟩
  · rw [← hl2]
    exact (copyU_fold_agree s A _ _ _ (h.monoU m hm) d.dataU d'.dataU _ hU).2
  · rw [← hl2]
    exact hD.set _

end Offs

/-- **fill-ins are reset.** `copy_data_csr` writes EVERY position of the three data arrays (entries of `A` where the
    patterns meet, zero on the fill-in positions), so its result does not depend on what the arrays held before —
    in particular not on the factors of an earlier `init_numeric`. -/
theorem copy_resets_fill [Zero α] (s : IluSym) (h : s.OffsOk) (A : Csr α) (prev prev' : IluNum α)
    (hp : prev.Sz s) (hp' : prev'.Sz s) : copyDataCsr s A prev = copyDataCsr s A prev' := by
  have hs := copyDataCsr_sz s A prev hp
  have key : CopyInv s s.n (copyDataCsr s A prev) (copyDataCsr s A prev') := by
    unfold copyDataCsr
    rw [foldl_range_eq_foldRange, foldl_range_eq_foldRange]
    refine foldRange_induct2 (fun m (y y' : IluNum α) => CopyInv s m y y') (copyRow s A) 0 s.n prev prev'
      (Nat.zero_le _) ?_ (fun m y y' _ hm hy => copyRow_inv s h A m hm y y' hy)
    refine ⟨⟨hp.1.trans hp'.1.symm, ?_⟩, ⟨hp.2.1.trans hp'.2.1.symm, ?_⟩, ⟨hp.2.2.trans hp'.2.2.symm, ?_⟩⟩
    · intro p hlt; rw [h.firstL] at hlt; exact absurd hlt (Nat.not_lt_zero _)
    · intro p hlt; rw [h.firstU] at hlt; exact absurd hlt (Nat.not_lt_zero _)
    · intro p hlt; exact absurd hlt (Nat.not_lt_zero _)
  obtain ⟨kL, kU, kD⟩ := key
  rw [h.lastL, ← hs.1] at kL
  rw [h.lastU, ← hs.2.1] at kU
  rw [← hs.2.2] at kD
  have eL := kL.eq
  have eU := kU.eq
  have eD := kD.eq
  cases hx : copyDataCsr s A prev with
  | mk l u dd =>
    cases hx' : copyDataCsr s A prev' with
    | mk l' u' dd' =>
      rw [hx, hx'] at eL eU eD
      simp only at eL eU eD
      rw [eL, eU, eD]

namespace Offs
/-! ### `factorize_numeric_il_du` keeps the sizes -/

theorem mergeSub_size [Zero α] [Sub α] (idx : Array Nat) (q ck : Nat) (t : α) :
    ∀ f (a : Array α) p, (mergeSub idx q ck t f a p).1.size = a.size
  | 0, _, _ => rfl
  | f + 1, a, p => by
    unfold mergeSub
    split
    · rw [mergeSub_size idx q ck t f _ (p + 1)]
      split
      · rw [Array.size_setIfInBounds]
      · rfl
    · rfl

theorem elimLow_size [Zero α] [Sub α] [Mul α] (s : IluSym) (i ql kend : Nat) (lij : α) (du : Array α) :
    ∀ f (dl : Array α) pl k, (elimLow s i ql kend lij du f dl pl k).1.size = dl.size
  | 0, _, _, _ => rfl
  | f + 1, dl, pl, k => by
    unfold elimLow
    split
    · simp only []
      split
      · rfl
      · rw [elimLow_size s i ql kend lij du f _ _ (k + 1), mergeSub_size]
    · rfl

theorem elimUpp_size [Zero α] [Sub α] [Mul α] (s : IluSym) (qu kend : Nat) (lij : α) :
    ∀ f (du : Array α) pu k, (elimUpp s qu kend lij f du pu k).size = du.size
  | 0, _, _, _ => rfl
  | f + 1, du, pu, k => by
    unfold elimUpp
    split
    · simp only []
      rw [elimUpp_size s qu kend lij f _ _ (k + 1), mergeSub_size]
    · rfl

theorem elimLM_sz [Zero α] [Sub α] [Mul α] (s : IluSym) (i : Nat) (d : IluNum α) (j : Nat) (h : d.Sz s) :
    (elimLM s i d j).Sz s := by
  obtain ⟨h1, h2, h3⟩ := h
  unfold elimLM IluNum.Sz
  simp only []
  refine ⟨?_, ?_, ?_⟩
  · rw [elimLow_size, Array.size_setIfInBounds]; exact h1
  · rw [elimUpp_size]; exact h2
  · split
    · rw [Array.size_setIfInBounds]; exact h3
    · exact h3

theorem factorRowM_sz [Zero α] [One α] [Sub α] [Mul α] [Div α] (s : IluSym) (d : IluNum α) (i : Nat) (h : d.Sz s) :
    (factorRowM s d i).Sz s := by
  have hf := foldRange_inv (fun y : IluNum α => y.Sz s) (elimLM s i) (fun y k hy => elimLM_sz s i y k hy)
    (s.rpL.getD i 0) (s.rpL.getD (i + 1) 0) d h
  obtain ⟨h1, h2, h3⟩ := hf
  unfold factorRowM IluNum.Sz
  simp only []
  exact ⟨h1, h2, by rw [Array.size_setIfInBounds]; exact h3⟩

end Offs

/-- `factorize_numeric_il_du` keeps the sizes of the data arrays -/
theorem factorizeNumeric_sz [Zero α] [One α] [Sub α] [Mul α] [Div α] (s : IluSym) (d : IluNum α) (h : d.Sz s) :
    (factorizeNumeric s d).Sz s := by
  unfold factorizeNumeric
  exact foldl_inv (fun y : IluNum α => y.Sz s) _ (fun y k hy => factorRowM_sz s y k hy) _ _ h

end FeatModel.Solver
