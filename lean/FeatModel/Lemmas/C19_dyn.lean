import FeatModel.Model.Adjacency
import FeatModel.Model.AdjKernels
/-! C19 lemmas, group `dyn` (statements fixed by Props/C19.statements) -/
open FeatModel.Adj

namespace C19L.dyn

theorem setInsert_mem (x : Nat) (l : List Nat) (k : Nat) :
    k ∈ (DynGraph.setInsert x l).1 ↔ k = x ∨ k ∈ l := by
  induction l with
  | nil => simp [DynGraph.setInsert]
  | cons y ys ih =>
    unfold DynGraph.setInsert
    split
    · simp
    · split
      · subst x; simp
      · simp only [List.mem_cons, ih]; grind

theorem setInsert_sorted (x : Nat) (l : List Nat) (h : l.Pairwise (· < ·)) :
    (DynGraph.setInsert x l).1.Pairwise (· < ·) := by
  induction l with
  | nil => simp [DynGraph.setInsert]
  | cons y ys ih =>
    rw [List.pairwise_cons] at h
    unfold DynGraph.setInsert
    split
    · rename_i hxy
      refine List.pairwise_cons.2 ⟨?_, List.pairwise_cons.2 h⟩
      intro a ha
      rcases List.mem_cons.1 ha with rfl | ha
      · exact hxy
      · exact Nat.lt_trans hxy (h.1 a ha)
    · split
      · exact List.pairwise_cons.2 h
      · refine List.pairwise_cons.2 ⟨?_, ih h.2⟩
        intro a ha
        rcases (setInsert_mem x ys a).1 ha with rfl | ha
        · omega
        · exact h.1 a ha

theorem setInsert_flag (x : Nat) (l : List Nat) (h : l.Pairwise (· < ·)) :
    (DynGraph.setInsert x l).2 = !l.contains x := by
  induction l with
  | nil => simp [DynGraph.setInsert]
  | cons y ys ih =>
    rw [List.pairwise_cons] at h
    unfold DynGraph.setInsert
    split
    · rename_i hxy
      have : ¬ x ∈ y :: ys := by
        intro hm
        rcases List.mem_cons.1 hm with rfl | hm
        · omega
        · have := h.1 x hm; omega
      simp [this]
    · split
      · subst x; simp
      · rename_i h1 h2
        simp only [ih h.2, List.contains_cons]
        have : (x == y) = false := by simp [h2]
        rw [this]; simp

theorem setErase_mem (x : Nat) (l : List Nat) (h : l.Pairwise (· < ·)) (k : Nat) :
    k ∈ (DynGraph.setErase x l).1 ↔ k ∈ l ∧ k ≠ x := by
  induction l with
  | nil => simp [DynGraph.setErase]
  | cons y ys ih =>
    rw [List.pairwise_cons] at h
    unfold DynGraph.setErase
    split
    · subst x
      constructor
      · intro hk
        have := h.1 k hk
        exact ⟨List.mem_cons_of_mem _ hk, by omega⟩
      · rintro ⟨hk, hne⟩
        rcases List.mem_cons.1 hk with rfl | hk
        · exact absurd rfl hne
        · exact hk
    · simp only [List.mem_cons, ih h.2]; grind

theorem setErase_sorted (x : Nat) (l : List Nat) (h : l.Pairwise (· < ·)) :
    (DynGraph.setErase x l).1.Pairwise (· < ·) := by
  induction l with
  | nil => simp [DynGraph.setErase]
  | cons y ys ih =>
    rw [List.pairwise_cons] at h
    unfold DynGraph.setErase
    split
    · exact h.2
    · refine List.pairwise_cons.2 ⟨?_, ih h.2⟩
      intro a ha
      exact h.1 a ((setErase_mem x ys h.2 a).1 ha).1

theorem setErase_flag (x : Nat) (l : List Nat) :
    (DynGraph.setErase x l).2 = l.contains x := by
  induction l with
  | nil => simp [DynGraph.setErase]
  | cons y ys ih =>
    unfold DynGraph.setErase
    split
    · subst x; simp
    · rename_i h2
      simp only [ih, List.contains_cons]
      have : (x == y) = false := by simp [h2]
      rw [this]; simp

theorem row_mem (g : DynGraph) (hs : ∀ l, l ∈ g.rows → l.Pairwise (· < ·)) (i : Nat) :
    (g.row i).Pairwise (· < ·) := by
  unfold DynGraph.row
  rw [List.getD_eq_getElem?_getD]
  by_cases hi : i < g.rows.length
  · simp only [List.getElem?_eq_getElem hi, Option.getD_some]
    exact hs _ (List.getElem_mem hi)
  · simp [List.getElem?_eq_none (Nat.le_of_not_lt hi)]

theorem row_set (rows : List (List Nat)) (i i' : Nat) (r : List Nat) (hi : i < rows.length) :
    (rows.set i r).getD i' [] = if i' = i then r else rows.getD i' [] := by
  simp only [List.getD_eq_getElem?_getD, List.getElem?_set]
  by_cases c : i = i'
  · subst c; simp [hi]
  · simp [c, Ne.symm c]

theorem dyn_insert_spec (g : DynGraph) (hs : ∀ l, l ∈ g.rows → l.Pairwise (· < ·)) (i j : Nat) (hi : i < g.nDom) :
    (∀ l, l ∈ (g.insert i j).1.rows → l.Pairwise (· < ·)) ∧ (g.insert i j).2 = !(g.exists i j) ∧
    (∀ i' k, (g.insert i j).1.exists i' k = (g.exists i' k || (i' == i && k == j))) ∧
    (g.insert i j).1.nDom = g.nDom ∧ (g.insert i j).1.nImg = g.nImg := by
  have hr := row_mem g hs i
  refine ⟨?_, ?_, ?_, ?_, rfl⟩
  · intro l hl
    simp only [DynGraph.insert] at hl
    rcases List.mem_or_eq_of_mem_set hl with hl | rfl
    · exact hs l hl
    · exact setInsert_sorted j _ hr
  · simp only [DynGraph.insert, DynGraph.exists]
    exact setInsert_flag j _ hr
  · intro i' k
    simp only [DynGraph.insert, DynGraph.exists, DynGraph.row]
    rw [row_set _ _ _ _ hi]
    by_cases c : i' = i
    · subst c
      rw [if_pos rfl, Bool.eq_iff_iff]
      simp only [List.contains_iff_mem, setInsert_mem, Bool.or_eq_true, Bool.and_eq_true,
        beq_iff_eq, true_and]
      grind
    · rw [if_neg c]
      have : (i' == i) = false := by simp [c]
      simp [this]
  · simp [DynGraph.insert, DynGraph.nDom]

theorem dyn_erase_spec (g : DynGraph) (hs : ∀ l, l ∈ g.rows → l.Pairwise (· < ·)) (i j : Nat) (hi : i < g.nDom) :
    (∀ l, l ∈ (g.erase i j).1.rows → l.Pairwise (· < ·)) ∧ (g.erase i j).2 = g.exists i j ∧
    (∀ i' k, (g.erase i j).1.exists i' k = (g.exists i' k && !(i' == i && k == j))) ∧
    (g.erase i j).1.nDom = g.nDom ∧ (g.erase i j).1.nImg = g.nImg := by
  have hr := row_mem g hs i
  refine ⟨?_, ?_, ?_, ?_, rfl⟩
  · intro l hl
    simp only [DynGraph.erase] at hl
    rcases List.mem_or_eq_of_mem_set hl with hl | rfl
    · exact hs l hl
    · exact setErase_sorted j _ hr
  · simp only [DynGraph.erase, DynGraph.exists]
    exact setErase_flag j _
  · intro i' k
    simp only [DynGraph.erase, DynGraph.exists, DynGraph.row]
    rw [row_set _ _ _ _ hi]
    by_cases c : i' = i
    · subst c
      rw [if_pos rfl, Bool.eq_iff_iff]
      have := setErase_mem j (g.row i') hr k
      simp only [DynGraph.row] at this
      simp only [List.contains_iff_mem, this, Bool.and_eq_true, Bool.not_eq_true', Bool.and_eq_false_iff,
        beq_eq_false_iff_ne]
      grind
    · rw [if_neg c]
      have : (i' == i) = false := by simp [c]
      simp [this]
  · simp [DynGraph.erase, DynGraph.nDom]


/-- a sequence of `insert`s (the body of both `DynamicGraph` render kernels) -/
theorem insertAll_spec (ps : List (Nat × Nat)) (g : DynGraph) (hs : ∀ l, l ∈ g.rows → l.Pairwise (· < ·))
    (hp : ∀ p, p ∈ ps → p.1 < g.nDom) :
    let g' := ps.foldl (fun (g : DynGraph) p => (g.insert p.1 p.2).1) g
    (∀ l, l ∈ g'.rows → l.Pairwise (· < ·)) ∧ g'.nDom = g.nDom ∧ g'.nImg = g.nImg ∧
    ∀ i k, (g'.exists i k = true ↔ (g.exists i k = true ∨ (i, k) ∈ ps)) := by
  induction ps generalizing g with
  | nil => simpa using hs
  | cons p ps ih =>
    obtain ⟨a1, _, a3, a4, a5⟩ := dyn_insert_spec g hs p.1 p.2 (hp p (List.mem_cons_self))
    have := ih (g.insert p.1 p.2).1 a1 (fun q hq => by rw [a4]; exact hp q (List.mem_cons_of_mem _ hq))
    simp only [List.foldl_cons] at this ⊢
    obtain ⟨b1, b2, b3, b4⟩ := this
    refine ⟨b1, by rw [b2, a4], by rw [b3, a5], ?_⟩
    intro i k
    rw [b4, a3]
    simp only [Bool.or_eq_true, Bool.and_eq_true, beq_iff_eq, List.mem_cons]
    constructor
    · rintro ((h | ⟨h1, h2⟩) | h)
      · exact Or.inl h
      · right; left; subst h1 h2; rfl
      · exact Or.inr (Or.inr h)
    · rintro (h | h | h)
      · exact Or.inl (Or.inl h)
      · left; right; cases h; exact ⟨rfl, rfl⟩
      · exact Or.inr h

theorem empty_sorted (n m : Nat) : ∀ l, l ∈ (DynGraph.empty n m).rows → l.Pairwise (· < ·) := by
  intro l hl
  simp only [DynGraph.empty, List.mem_replicate] at hl
  rw [hl.2]; exact List.Pairwise.nil

theorem empty_exists (n m i k : Nat) : (DynGraph.empty n m).exists i k = false := by
  simp only [DynGraph.exists, DynGraph.row, DynGraph.empty, List.getD_eq_getElem?_getD, List.getElem?_replicate]
  split <;> simp

theorem empty_nDom (n m : Nat) : (DynGraph.empty n m).nDom = n := by
  simp [DynGraph.empty, DynGraph.nDom]

theorem ofAdjactor_false_eq (A : Adjactor) (hA : A.Lawful) :
    DynGraph.ofAdjactor A false =
      (((List.range A.nDom).flatMap fun i => (A.images i).map fun v => (i, v))).foldl
        (fun (g : DynGraph) p => (g.insert p.1 p.2).1) (DynGraph.empty A.nDom A.nImg) := by
  simp only [DynGraph.ofAdjactor, Bool.false_eq_true, if_false, List.foldl_flatMap, List.foldl_map, hA _]

theorem ofAdjactor_true_eq (A : Adjactor) (hA : A.Lawful) :
    DynGraph.ofAdjactor A true =
      (((List.range A.nDom).flatMap fun i => (A.images i).map fun v => (v, i))).foldl
        (fun (g : DynGraph) p => (g.insert p.1 p.2).1) (DynGraph.empty A.nImg A.nDom) := by
  simp only [DynGraph.ofAdjactor, if_true, List.foldl_flatMap, List.foldl_map, hA _]

theorem dyn_ofAdjactor_spec (A : Adjactor) (hA : A.Lawful) :
    (∀ l, l ∈ (DynGraph.ofAdjactor A false).rows → l.Pairwise (· < ·)) ∧
    (DynGraph.ofAdjactor A false).nDom = A.nDom ∧ (DynGraph.ofAdjactor A false).nImg = A.nImg ∧
    ∀ i k, i < A.nDom → (DynGraph.ofAdjactor A false).exists i k = (A.images i).contains k := by
  rw [ofAdjactor_false_eq A hA]
  have := insertAll_spec ((List.range A.nDom).flatMap fun i => (A.images i).map fun v => (i, v))
    (DynGraph.empty A.nDom A.nImg) (empty_sorted _ _) (by
      intro p hp
      simp only [List.mem_flatMap, List.mem_range, List.mem_map] at hp
      obtain ⟨i, hi, v, _, rfl⟩ := hp
      rw [empty_nDom]; exact hi)
  obtain ⟨b1, b2, b3, b4⟩ := this
  refine ⟨b1, by rw [b2, empty_nDom], by rw [b3]; rfl, ?_⟩
  intro i k hi
  rw [Bool.eq_iff_iff, b4, empty_exists]
  simp only [Bool.false_eq_true, false_or, List.mem_flatMap, List.mem_range, List.mem_map, Prod.mk.injEq,
    List.contains_iff_mem]
  constructor
  · rintro ⟨i', _, v, hv, rfl, rfl⟩; exact hv
  · intro hk; exact ⟨i, hi, k, hk, rfl, rfl⟩

theorem images_lt (A : Adjactor) (hwf : A.toGraph.wf = true) (i v : Nat) (hi : i < A.nDom)
    (hv : v ∈ A.images i) : v < A.nImg := by
  simp only [Graph.wf, Adjactor.toGraph, List.all_eq_true, List.mem_map, List.mem_range] at hwf
  exact of_decide_eq_true (hwf _ ⟨i, hi, rfl⟩ v hv)

theorem dyn_ofAdjactor_transpose_spec (A : Adjactor) (hA : A.Lawful) (hwf : A.toGraph.wf = true) :
    (∀ l, l ∈ (DynGraph.ofAdjactor A true).rows → l.Pairwise (· < ·)) ∧
    (DynGraph.ofAdjactor A true).nDom = A.nImg ∧ (DynGraph.ofAdjactor A true).nImg = A.nDom ∧
    ∀ i k, i < A.nDom → k < A.nImg → (DynGraph.ofAdjactor A true).exists k i = (A.images i).contains k := by
  rw [ofAdjactor_true_eq A hA]
  have := insertAll_spec ((List.range A.nDom).flatMap fun i => (A.images i).map fun v => (v, i))
    (DynGraph.empty A.nImg A.nDom) (empty_sorted _ _) (by
      intro p hp
      simp only [List.mem_flatMap, List.mem_range, List.mem_map] at hp
      obtain ⟨i, hi, v, hv, rfl⟩ := hp
      rw [empty_nDom]; exact images_lt A hwf i v hi hv)
  obtain ⟨b1, b2, b3, b4⟩ := this
  refine ⟨b1, by rw [b2, empty_nDom], by rw [b3]; rfl, ?_⟩
  intro i k hi _
  rw [Bool.eq_iff_iff, b4, empty_exists]
  simp only [Bool.false_eq_true, false_or, List.mem_flatMap, List.mem_range, List.mem_map, Prod.mk.injEq,
    List.contains_iff_mem]
  constructor
  · rintro ⟨i', _, v, hv, rfl, rfl⟩; exact hv
  · intro hk; exact ⟨i, hi, k, hk, rfl, rfl⟩

theorem dedup_sorted (l : List Nat) (h : l.Pairwise (· < ·)) : Graph.dedup l = l := by
  induction l with
  | nil => rfl
  | cons x xs ih =>
    rw [List.pairwise_cons] at h
    simp only [Graph.dedup, ih h.2]
    congr 1
    rw [List.filter_eq_self]
    intro a ha
    have := h.1 a ha
    simp; omega

theorem sortList_sorted_id (l : List Nat) (h : l.Pairwise (· < ·)) : Graph.sortList l = l := by
  induction l with
  | nil => rfl
  | cons x xs ih =>
    rw [List.pairwise_cons] at h
    simp only [Graph.sortList, ih h.2]
    cases xs with
    | nil => rfl
    | cons y ys =>
      have := h.1 y List.mem_cons_self
      simp only [Graph.insertSorted]
      rw [if_pos (by omega)]

theorem map_eq_self {α : Type} (f : α → α) (l : List α) (h : ∀ a, a ∈ l → f a = a) : l.map f = l := by
  induction l with
  | nil => rfl
  | cons x xs ih =>
    simp only [List.map_cons, h x List.mem_cons_self, ih (fun a ha => h a (List.mem_cons_of_mem _ ha))]

theorem dyn_render_spec (g : DynGraph) (hs : ∀ l, l ∈ g.rows → l.Pairwise (· < ·)) :
    g.toGraph.injectify = g.toGraph ∧ g.toGraph.sortIndices = g.toGraph := by
  constructor
  · simp only [Graph.injectify, DynGraph.toGraph]
    rw [map_eq_self _ _ (fun l hl => dedup_sorted l (hs l hl))]
  · simp only [Graph.sortIndices, DynGraph.toGraph]
    rw [map_eq_self _ _ (fun l hl => sortList_sorted_id l (hs l hl))]

theorem insertList_spec (ks : List Nat) (s : List Nat) (h : s.Pairwise (· < ·)) :
    (ks.foldl (fun s k => (DynGraph.setInsert k s).1) s).Pairwise (· < ·) ∧
    ∀ k, k ∈ ks.foldl (fun s k => (DynGraph.setInsert k s).1) s ↔ (k ∈ s ∨ k ∈ ks) := by
  induction ks generalizing s with
  | nil => simp [h]
  | cons a ks ih =>
    obtain ⟨b1, b2⟩ := ih _ (setInsert_sorted a s h)
    simp only [List.foldl_cons]
    refine ⟨b1, ?_⟩
    intro k
    rw [b2, setInsert_mem, List.mem_cons]
    grind

theorem dyn_compose_spec (g : DynGraph) (b : Graph) (r : DynGraph) (h : g.compose b = some r) :
    (∀ l, l ∈ r.rows → l.Pairwise (· < ·)) ∧ r.nDom = g.nDom ∧ r.nImg = b.nImg ∧
    ∀ i k, r.exists i k = ((g.row i).flatMap b.row).contains k := by
  unfold DynGraph.compose at h
  split at h
  · cases h
  · injection h with h
    subst h
    have hF : ∀ l : List Nat,
        l.foldl (fun (s : List Nat) j => (b.row j).foldl (fun s k => (DynGraph.setInsert k s).1) s) [] =
        (l.flatMap b.row).foldl (fun s k => (DynGraph.setInsert k s).1) [] := by
      intro l; rw [List.foldl_flatMap]
    refine ⟨?_, by simp [DynGraph.nDom], rfl, ?_⟩
    · intro l hl
      simp only [List.mem_map] at hl
      obtain ⟨l0, _, rfl⟩ := hl
      rw [hF]
      exact (insertList_spec _ [] List.Pairwise.nil).1
    · intro i k
      simp only [DynGraph.exists, DynGraph.row]
      rw [Bool.eq_iff_iff, List.contains_iff_mem, List.contains_iff_mem]
      have hrow : (List.map (fun l => l.foldl (fun (s : List Nat) j =>
            (b.row j).foldl (fun s k => (DynGraph.setInsert k s).1) s) []) g.rows).getD i [] =
          ((g.rows.getD i []).flatMap b.row).foldl (fun s k => (DynGraph.setInsert k s).1) [] := by
        rw [← hF]
        simp only [List.getD_eq_getElem?_getD, List.getElem?_map]
        cases g.rows[i]? <;> simp
      rw [hrow, (insertList_spec _ [] List.Pairwise.nil).2]
      simp

end C19L.dyn
