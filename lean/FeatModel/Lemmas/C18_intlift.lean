/-
C18 helper lemmas, part 18: the reference-cell identity "the refined rule reproduces the coarse mass matrix" lifted to a
case on affine cells: constant `jac_det` per cell, `jac_det_fine = jac_det_coarse / nchildren`, parametric element.
Result: the certificate `intB` holds for every such case (it no longer has to be evaluated).
-/
import FeatModel.Lemmas.C18_intref
open FeatModel.GT FeatModel.Poly FeatModel.FE FeatModel.LocalFE Finset

namespace C18L

theorem monoEval_pad (x : Nat → Rat) (k n : Nat) (m : Mono) :
    monoEval x k (m ++ List.replicate n 0) = monoEval x k m := by
  induction m generalizing k with
  | nil => simp [monoEval, monoEval_replicate_zero]
  | cons e es ih => simp [monoEval, ih]

theorem eval_padPoly (x : Nat → Rat) (d : Nat) (F : Poly) : eval x (padPoly d F) = eval x F := by
  induction F with
  | nil => rfl
  | cons t p ih =>
    have : padPoly d (t :: p) = (t.1, t.2 ++ List.replicate (d - t.2.length) 0) :: padPoly d p := rfl
    rw [this, eval_cons, eval_cons, ih, monoEval_pad]

theorem evalAt_massPoly (t : BasisTab) (d l j : Nat) (xi : List Rat) :
    evalAt xi (massPoly t d l j) = evalAt xi (t.val l) * evalAt xi (t.val j) := by
  unfold massPoly evalAt
  rw [eval_padPoly, eval_normalize, eval_mul]

theorem evalAt_childMassPoly (t : BasisTab) (k : Kind) (d c l j : Nat) (xi : List Rat) :
    evalAt xi (childMassPoly t k d c l j)
      = evalAt (childPoint k d c xi) (t.val l) * evalAt (childPoint k d c xi) (t.val j) := by
  unfold childMassPoly evalAt substL
  rw [eval_padPoly, eval_subst, pt_map_evalAt, eval_mul]
  rfl

/-- the data of a case on affine cells: per coarse cell a constant `detJ`; the coarse cubature loop and every child's
loop run over the points `(w_q, ξ_q)` of the rule `r` with weights `detJ·w_q` resp. `detJ/nch·w_q` and the reference
table values at `ξ_q` resp. `A_c ξ_q` -/
structure AffParam (t : BasisTab) (k : Kind) (dim : Nat) (r : Rule) (d : Dump) : Prop where
  cells : ∀ cell ∈ d.cells, cell.cmap.length = t.nloc ∧ cell.children.length = numChildren k dim ∧ ∃ detJ : Rat,
    cell.cpts = (r.w.zip r.x).map (fun q => ({ w := detJ * q.1, f := [], c := t.vals.map (evalAt q.2) } : Pt)) ∧
    ∀ c, c < cell.children.length →
      (cell.children.getD c default).fmap.length = t.nloc ∧
      (cell.children.getD c default).pts
        = (r.w.zip r.x).map (fun q => refPt t k dim c q.2 (detJ * (1 / (numChildren k dim : Nat) : Rat) * q.1))

theorem list_sum_map_mul_left' {α : Type} (l : List α) (f : α → Rat) (c : Rat) :
    c * (l.map f).sum = (l.map fun p => c * f p).sum := by
  induction l with
  | nil => simp
  | cons a l ih => simp [← ih]; ring

theorem range_map_sum_congr (f g : Nat → Rat) (n : Nat) (h : ∀ c, c < n → f c = g c) :
    ((List.range n).map f).sum = ((List.range n).map g).sum := by
  congr 1
  apply List.map_congr_left
  intro c hc
  exact h c (List.mem_range.1 hc)

theorem list_sum_sum_swap {α : Type} (l : List α) (n : Nat) (g : α → Nat → Rat) (e : Nat → Rat) :
    ∑ m ∈ range n, (l.map fun q => g q m).sum * e m = (l.map fun q => ∑ m ∈ range n, g q m * e m).sum := by
  rw [list_sum_map_finset]
  apply Finset.sum_congr rfl
  intro m _
  rw [list_sum_map_mul_right]

/-- **intB derived**: on affine cells with a parametric Lagrange element of the nestedness table and a rule that is
exact on the monomials of the mass integrands, the refined rule reproduces the coarse mass matrix in every cell -/
theorem intB_of_affine {t : BasisTab} {k : Kind} {simplex : Bool} {dim : Nat} {r : Rule} {ms : List Mono}
    (hex : r.exactOn simplex dim ms = true) (hm : monosB t k dim ms = true) (hcov : covB t k simplex dim = true)
    (hn : nestedRefB t k dim = true) (d : Dump) (haff : AffParam t k dim r d)
    (hok : ∀ cell ∈ d.cells, ∀ ch ∈ cell.children, ∃ x, localProl cell.cmap.length ch = .ok x) :
    intB d = true := by
  unfold intB
  simp only [List.all_eq_true, List.mem_range, beq_iff_eq]
  intro cell hcell l hl j hj
  obtain ⟨hcl, hnch, detJ, hcpts, hch⟩ := haff.cells cell hcell
  have hl' : l < t.nloc := by rw [← hcl]; exact hl
  have hj' : j < t.nloc := by rw [← hcl]; exact hj
  -- right-hand side: the coarse mass matrix entry
  have hR : FeatModel.GT.get (massC cell.cmap.length cell.cpts) l j = detJ * localEntry r 1 (massPoly t dim l j) := by
    unfold massC
    rw [get_tab _ hl hj, lsum_eq, hcpts, List.map_map]
    unfold localEntry quadF
    rw [list_sum_map_mul_left']
    congr 1
    apply List.map_congr_left
    intro q _
    simp only [Function.comp, getD_map_evalAt, evalAt_massPoly]
    ring
  -- left-hand side, child by child
  have hL : ∀ c, c < cell.children.length →
      FeatModel.GT.get (matMul cell.cmap.length (cell.children.getD c default).fmap.length cell.cmap.length
        (massCF cell.cmap.length (cell.children.getD c default).fmap.length (cell.children.getD c default).pts)
        (Eof cell (cell.children.getD c default))) l j
      = detJ * localEntry r (1 / (numChildren k dim : Nat) : Rat) (childMassPoly t k dim c l j) := by
    intro c hc
    obtain ⟨hfl, hpts⟩ := hch c hc
    set ch := cell.children.getD c default with hchdef
    have hmem : ch ∈ cell.children := by
      rw [hchdef, List.getD_eq_getElem?_getD, List.getElem?_eq_getElem hc]; simp
    obtain ⟨x, hx⟩ := hok cell hcell ch hmem
    have hE : ∀ m, m < t.nloc → FeatModel.GT.get (Eof cell ch) m j = FeatModel.GT.get (Eref t k dim c) m j := by
      intro m hm
      have hnest : ∀ p ∈ ch.pts, ∀ j', j' < cell.cmap.length →
          p.c.getD j' 0 = ∑ m' ∈ range ch.fmap.length, FeatModel.GT.get (Eref t k dim c) m' j' * p.f.getD m' 0 := by
        intro p hp j' hj'
        rw [hpts] at hp
        obtain ⟨q, _, rfl⟩ := List.mem_map.1 hp
        unfold refPt
        simp only [getD_map_evalAt]
        rw [hfl, nested_ref hn (by rw [← hnch]; exact hc) (by rw [← hcl]; exact hj')]
      have := localProl_exact (FeatModel.GT.get (Eref t k dim c)) hx hnest m j (by rw [hfl]; exact hm) hj
      unfold Eof
      rw [hx]
      exact this
    unfold matMul
    rw [get_tab _ hl hj, sumTo_eq, hfl]
    have e1 : ∀ m ∈ range t.nloc,
        FeatModel.GT.get (massCF cell.cmap.length t.nloc ch.pts) l m * FeatModel.GT.get (Eof cell ch) m j
        = ((r.w.zip r.x).map fun q => (detJ * (1 / (numChildren k dim : Nat) : Rat) * q.1 *
            evalAt (childPoint k dim c q.2) (t.val l)) * evalAt q.2 (t.val m)).sum
          * FeatModel.GT.get (Eref t k dim c) m j := by
      intro m hm
      have hm' := Finset.mem_range.1 hm
      rw [hE m hm']
      congr 1
      unfold massCF
      rw [get_tab _ hl hm', lsum_eq, hpts, List.map_map]
      congr 1
      apply List.map_congr_left
      intro q _
      simp only [Function.comp, refPt, getD_map_evalAt]
    rw [Finset.sum_congr rfl e1, list_sum_sum_swap]
    unfold localEntry quadF
    rw [list_sum_map_mul_left']
    congr 1
    apply List.map_congr_left
    intro q _
    simp only [evalAt_childMassPoly]
    rw [nested_ref hn (by rw [← hnch]; exact hc) hj' q.2]
    have hS : ∑ m ∈ range t.nloc,
        detJ * (1 / (numChildren k dim : Nat) : Rat) * q.1 * evalAt (childPoint k dim c q.2) (t.val l)
          * evalAt q.2 (t.val m) * FeatModel.GT.get (Eref t k dim c) m j
        = (detJ * (1 / (numChildren k dim : Nat) : Rat) * q.1 * evalAt (childPoint k dim c q.2) (t.val l))
          * ∑ m ∈ range t.nloc, FeatModel.GT.get (Eref t k dim c) m j * evalAt q.2 (t.val m) := by
      rw [Finset.mul_sum]
      apply Finset.sum_congr rfl
      intro m _
      ring
    rw [hS]
    ring
  -- assemble
  have hchildren : cell.children = (List.range cell.children.length).map fun c => cell.children.getD c default :=
    list_eq_map_getD cell.children default
  rw [hR, lsum_eq, List.map_map]
  conv_lhs => rw [hchildren, List.map_map]
  refine (range_map_sum_congr _ (fun c => detJ * localEntry r (1 / (numChildren k dim : Nat) : Rat)
    (childMassPoly t k dim c l j)) _ (fun c hc => hL c hc)).trans ?_
  rw [← list_sum_map_mul_left', hnch, refined_rule_reproduces t k simplex dim r ms hex hm hcov hl' hj']

end C18L
