import FeatModel.Lemmas.C08Sweeps
import Mathlib.Tactic.LinearCombination
/-! C08: the sweeps are linear in the input (uniqueness of the solution of a triangular system with non-zero diagonal). -/
open Finset
namespace FeatModel.Solver
open FeatModel.LA

variable {α : Type} [Field α]

/-- `a x + b x'` componentwise -/
def lincomb (a b : α) (x x' : Array α) : Array α :=
  Array.ofFn (n := x.size) fun i => a * x.getD i.val 0 + b * x'.getD i.val 0


/-- a lower triangular system with non-zero diagonal and zero right-hand side has only the zero solution -/
theorem lower_unique (n : Nat) (d : Nat → α) (e : Nat → Nat → α) (c : α) (u : Nat → α)
    (hd : ∀ i, i < n → d i ≠ 0)
    (H : ∀ i, i < n → d i * u i + c * ∑ j ∈ range i, e i j * u j = 0) :
    ∀ i, i < n → u i = 0 := by
  intro i
  induction i using Nat.strong_induction_on with
  | _ i ih =>
    intro hi
    have h := H i hi
    have hs : ∑ j ∈ range i, e i j * u j = 0 :=
      Finset.sum_eq_zero (fun j hj => by
        have hj' := Finset.mem_range.mp hj
        rw [ih j hj' (Nat.lt_trans hj' hi), mul_zero])
    rw [hs, mul_zero, add_zero] at h
    exact (mul_eq_zero.mp h).resolve_left (hd i hi)

/-- an upper triangular system with non-zero diagonal and zero right-hand side has only the zero solution -/
theorem upper_unique (n : Nat) (d : Nat → α) (e : Nat → Nat → α) (c : α) (u : Nat → α)
    (hd : ∀ i, i < n → d i ≠ 0)
    (H : ∀ i, i < n → d i * u i + c * ∑ j ∈ Ico (i + 1) n, e i j * u j = 0) :
    ∀ i, i < n → u i = 0 := by
  have key : ∀ k i, n - i = k → i < n → u i = 0 := by
    intro k
    induction k using Nat.strong_induction_on with
    | _ k ih =>
      intro i hk hi
      have h := H i hi
      have hs : ∑ j ∈ Ico (i + 1) n, e i j * u j = 0 :=
        Finset.sum_eq_zero (fun j hj => by
          have hj' := Finset.mem_Ico.mp hj
          rw [ih (n - j) (by omega) j rfl hj'.2, mul_zero])
      rw [hs, mul_zero, add_zero] at h
      exact (mul_eq_zero.mp h).resolve_left (hd i hi)
  exact fun i hi => key (n - i) i rfl hi

/-- solutions of a lower triangular system depend linearly on the right-hand side -/
theorem lower_linear (n : Nat) (d : Nat → α) (e : Nat → Nat → α) (c a b : α) (y'' y y' r'' r r' : Nat → α)
    (hd : ∀ i, i < n → d i ≠ 0)
    (H'' : ∀ i, i < n → d i * y'' i + c * ∑ j ∈ range i, e i j * y'' j = r'' i)
    (H : ∀ i, i < n → d i * y i + c * ∑ j ∈ range i, e i j * y j = r i)
    (H' : ∀ i, i < n → d i * y' i + c * ∑ j ∈ range i, e i j * y' j = r' i)
    (hr : ∀ i, i < n → r'' i = a * r i + b * r' i) :
    ∀ i, i < n → y'' i = a * y i + b * y' i := by
  intro i hi
  have := lower_unique n d e c (fun j => y'' j - a * y j - b * y' j) hd (fun i hi => by
    have hs : ∑ j ∈ range i, e i j * (y'' j - a * y j - b * y' j)
        = ∑ j ∈ range i, e i j * y'' j - a * ∑ j ∈ range i, e i j * y j - b * ∑ j ∈ range i, e i j * y' j := by
      rw [Finset.mul_sum, Finset.mul_sum, ← Finset.sum_sub_distrib, ← Finset.sum_sub_distrib]
      exact Finset.sum_congr rfl (fun j _ => by ring)
    rw [hs]
    linear_combination H'' i hi - a * H i hi - b * H' i hi + hr i hi) i hi
  linear_combination this

/-- solutions of an upper triangular system depend linearly on the right-hand side -/
theorem upper_linear (n : Nat) (d : Nat → α) (e : Nat → Nat → α) (c a b : α) (y'' y y' r'' r r' : Nat → α)
    (hd : ∀ i, i < n → d i ≠ 0)
    (H'' : ∀ i, i < n → d i * y'' i + c * ∑ j ∈ Ico (i + 1) n, e i j * y'' j = r'' i)
    (H : ∀ i, i < n → d i * y i + c * ∑ j ∈ Ico (i + 1) n, e i j * y j = r i)
    (H' : ∀ i, i < n → d i * y' i + c * ∑ j ∈ Ico (i + 1) n, e i j * y' j = r' i)
    (hr : ∀ i, i < n → r'' i = a * r i + b * r' i) :
    ∀ i, i < n → y'' i = a * y i + b * y' i := by
  intro i hi
  have := upper_unique n d e c (fun j => y'' j - a * y j - b * y' j) hd (fun i hi => by
    have hs : ∑ j ∈ Ico (i + 1) n, e i j * (y'' j - a * y j - b * y' j)
        = ∑ j ∈ Ico (i + 1) n, e i j * y'' j - a * ∑ j ∈ Ico (i + 1) n, e i j * y j
          - b * ∑ j ∈ Ico (i + 1) n, e i j * y' j := by
      rw [Finset.mul_sum, Finset.mul_sum, ← Finset.sum_sub_distrib, ← Finset.sum_sub_distrib]
      exact Finset.sum_congr rfl (fun j _ => by ring)
    rw [hs]
    linear_combination H'' i hi - a * H i hi - b * H' i hi + hr i hi) i hi
  linear_combination this

theorem lincomb_size (a b : α) (x x' : Array α) : (lincomb a b x x').size = x.size := by
  simp [lincomb]

theorem lincomb_getD (a b : α) (x x' : Array α) (i : Nat) (hi : i < x.size) :
    (lincomb a b x x').getD i 0 = a * x.getD i 0 + b * x'.getD i 0 := by
  unfold lincomb
  rw [getD_ofFn _ i hi]

theorem sorSweep_linear (ω : α) (hω : ω ≠ 0) (A : Csr α) (hA : sortedDiag A = true)
    (hd : ∀ i, i < A.rows → A.entry i i ≠ 0) (a b : α) (x x' : Array α) (hx : x.size = A.rows)
    (hx' : x'.size = A.rows) (i : Nat) (hi : i < A.rows) :
    (sorSweep ω A (lincomb a b x x')).getD i 0
      = a * (sorSweep ω A x).getD i 0 + b * (sorSweep ω A x').getD i 0 := by
  have hl : (lincomb a b x x').size = A.rows := by rw [lincomb_size, hx]
  have H'' := (sorSweep_spec ω hω A hA hd _ hl).2
  have H := (sorSweep_spec ω hω A hA hd x hx).2
  have H' := (sorSweep_spec ω hω A hA hd x' hx').2
  refine lower_linear A.rows (fun i => A.entry i i / ω) (fun i j => A.entry i j) 1 a b
    (fun j => (sorSweep ω A (lincomb a b x x')).getD j 0) (fun j => (sorSweep ω A x).getD j 0)
    (fun j => (sorSweep ω A x').getD j 0) (fun j => (lincomb a b x x').getD j 0) (fun j => x.getD j 0)
    (fun j => x'.getD j 0) (fun i hi => div_ne_zero (hd i hi) hω) ?_ ?_ ?_ ?_ i hi
  · intro i hi; simpa only [one_mul] using H'' i hi
  · intro i hi; simpa only [one_mul] using H i hi
  · intro i hi; simpa only [one_mul] using H' i hi
  · intro i hi; exact lincomb_getD a b x x' i (by omega)

theorem ssorSweep_linear (ω : α) (A : Csr α) (hA : sortedDiag A = true)
    (hd : ∀ i, i < A.rows → A.entry i i ≠ 0) (a b : α) (x x' : Array α) (hx : x.size = A.rows)
    (hx' : x'.size = A.rows) (i : Nat) (hi : i < A.rows) :
    (ssorSweep ω A (lincomb a b x x')).getD i 0
      = a * (ssorSweep ω A x).getD i 0 + b * (ssorSweep ω A x').getD i 0 := by
  have hl : (lincomb a b x x').size = A.rows := by rw [lincomb_size, hx]
  obtain ⟨sF'', F''⟩ := ssorFwd_spec ω A hA hd _ hl
  obtain ⟨sF, F⟩ := ssorFwd_spec ω A hA hd x hx
  obtain ⟨sF', F'⟩ := ssorFwd_spec ω A hA hd x' hx'
  have hfwd : ∀ i, i < A.rows → (ssorFwd ω A (lincomb a b x x')).getD i 0
      = a * (ssorFwd ω A x).getD i 0 + b * (ssorFwd ω A x').getD i 0 :=
    lower_linear A.rows (fun i => A.entry i i) (fun i j => A.entry i j) ω a b
      (fun j => (ssorFwd ω A (lincomb a b x x')).getD j 0) (fun j => (ssorFwd ω A x).getD j 0)
      (fun j => (ssorFwd ω A x').getD j 0) (fun j => (lincomb a b x x').getD j 0) (fun j => x.getD j 0)
      (fun j => x'.getD j 0) hd F'' F F' (fun i hi => lincomb_getD a b x x' i (by omega))
  have B'' := (ssorBwd_spec ω A hA hd _ sF'').2
  have B := (ssorBwd_spec ω A hA hd _ sF).2
  have B' := (ssorBwd_spec ω A hA hd _ sF').2
  unfold ssorSweep
  exact upper_linear A.rows (fun i => A.entry i i) (fun i j => A.entry i j) ω a b
    (fun j => (ssorBwd ω A (ssorFwd ω A (lincomb a b x x'))).getD j 0)
    (fun j => (ssorBwd ω A (ssorFwd ω A x)).getD j 0)
    (fun j => (ssorBwd ω A (ssorFwd ω A x')).getD j 0)
    (fun j => A.entry j j * (ssorFwd ω A (lincomb a b x x')).getD j 0)
    (fun j => A.entry j j * (ssorFwd ω A x).getD j 0)
    (fun j => A.entry j j * (ssorFwd ω A x').getD j 0) hd B'' B B'
    (fun i hi => by rw [hfwd i hi]; ring) i hi

end FeatModel.Solver
