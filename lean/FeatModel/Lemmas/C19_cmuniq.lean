import FeatModel.Model.Adjacency
import FeatModel.Model.AdjKernels
import FeatModel.Lemmas.C19_cmroot
import FeatModel.Lemmas.C19_cmexact
/-! C19 lemmas, group `cmuniq` (statements fixed by Props/C19.statements) -/
open FeatModel.Adj

namespace C19L.cmuniq

theorem cm_root_unique (g : Graph) (rt : CM.RootType) (seen : List Nat) (r1 r2 : Nat)
    (h1 : CM.IsDocumentedRoot g rt seen r1) (h2 : CM.IsDocumentedRoot g rt seen r2) : r1 = r2 := by
  obtain ⟨a1, b1, c1⟩ := h1
  obtain ⟨a2, b2, c2⟩ := h2
  cases rt
  · simp only at c1 c2
    rcases Nat.lt_trichotomy r1 r2 with h | h | h
    · exact absurd (c2 r1 h) b1
    · exact h
    · exact absurd (c1 r2 h) b2
  · simp only at c1 c2
    have := c1 r2 a2 b2
    have := c2 r1 a1 b1
    omega
  · simp only at c1 c2
    have := c1 r2 a2 b2
    have := c2 r1 a1 b1
    omega

theorem sortLevel_nil (g : Graph) (st : CM.SortType) : CM.sortLevel g st [] = [] := by
  cases st <;> simp [CM.sortLevel]

theorem cm_chain_unique (g : Graph) (st : CM.SortType) (seen lv : List Nat) (c1 c2 : List (List Nat))
    (h1 : CM.IsLevelChainExact g st seen lv c1) (h2 : CM.IsLevelChainExact g st seen lv c2) : c1 = c2 := by
  induction c1 generalizing c2 seen lv with
  | nil =>
    cases c2 with
    | nil => rfl
    | cons n2 r2 =>
      simp only [CM.IsLevelChainExact] at h1 h2
      obtain ⟨hne, he, _⟩ := h2
      rw [h1, sortLevel_nil] at he
      exact absurd he hne
  | cons n1 r1 ih =>
    cases c2 with
    | nil =>
      simp only [CM.IsLevelChainExact] at h1 h2
      obtain ⟨hne, he, _⟩ := h1
      rw [h2, sortLevel_nil] at he
      exact absurd he hne
    | cons n2 r2 =>
      simp only [CM.IsLevelChainExact] at h1 h2
      obtain ⟨_, he1, ht1⟩ := h1
      obtain ⟨_, he2, ht2⟩ := h2
      have : n1 = n2 := by rw [he1, he2]
      subst this
      rw [ih _ _ _ ht1 ht2]

theorem cm_components_unique (g : Graph) (rt : CM.RootType) (st : CM.SortType) (seen : List Nat)
    (c1 c2 : List (List (List Nat))) (h1 : CM.AreCmComponents g rt st seen c1) (h2 : CM.AreCmComponents g rt st seen c2)
    (hl : c1.flatten.flatten.length = c2.flatten.flatten.length) : c1 = c2 := by
  induction c1 generalizing c2 seen with
  | nil =>
    cases c2 with
    | nil => rfl
    | cons d2 r2 =>
      simp only [CM.AreCmComponents] at h2
      obtain ⟨⟨root, rest, hc, _, _⟩, _⟩ := h2
      subst hc
      simp [List.flatten_cons, List.length_append] at hl
  | cons d1 r1 ih =>
    cases c2 with
    | nil =>
      simp only [CM.AreCmComponents] at h1
      obtain ⟨⟨root, rest, hc, _, _⟩, _⟩ := h1
      subst hc
      simp [List.flatten_cons, List.length_append] at hl
    | cons d2 r2 =>
      simp only [CM.AreCmComponents] at h1 h2
      obtain ⟨⟨root1, rest1, hc1, hr1, hch1⟩, ht1⟩ := h1
      obtain ⟨⟨root2, rest2, hc2, hr2, hch2⟩, ht2⟩ := h2
      have hr : root1 = root2 := cm_root_unique g rt seen _ _ hr1 hr2
      subst hr
      have hrest : rest1 = rest2 := cm_chain_unique g st _ _ _ _ hch1 hch2
      subst hrest
      have hd : d1 = d2 := by rw [hc1, hc2]
      subst hd
      have hl' : r1.flatten.flatten.length = r2.flatten.flatten.length := by
        simp only [List.flatten_cons, List.flatten_append, List.length_append] at hl
        omega
      rw [ih _ _ ht1 ht2 hl']

theorem flatMap_rev_length (rev : Bool) (comps : List (List (List Nat))) :
    (comps.flatMap fun c => if rev then c.flatten.reverse else c.flatten).length
      = comps.flatten.flatten.length := by
  induction comps with
  | nil => rfl
  | cons c cs ih =>
    simp only [List.flatMap_cons, List.flatten_cons, List.flatten_append, List.length_append, ih]
    cases rev <;> simp

theorem cm_ordering_unique (g : Graph) (rev : Bool) (rt : CM.RootType) (st : CM.SortType)
    (p1 l1 p2 l2 : List Nat) (h1 : CM.IsCmOrdering g rev rt st p1 l1) (h2 : CM.IsCmOrdering g rev rt st p2 l2) :
    p1 = p2 ∧ l1 = l2 := by
  obtain ⟨k1, hc1, hn1, hp1, hl1⟩ := h1
  obtain ⟨k2, hc2, hn2, hp2, hl2⟩ := h2
  have hlen : k1.flatten.flatten.length = k2.flatten.flatten.length := by
    rw [← flatMap_rev_length rev k1, ← flatMap_rev_length rev k2, ← hp1, ← hp2, hn1, hn2]
  have := cm_components_unique g rt st [] k1 k2 hc1 hc2 hlen
  subst this
  exact ⟨hp1.trans hp2.symm, hl1.trans hl2.symm⟩

end C19L.cmuniq
