import FeatModel.Lemmas.C10Keys
/-! C10 — global 2-D lift, last clause: two different fine entities of one dimension never have the same vertex set
(second half of `distinctOk`).  Part 1: `setKey` is a faithful name of a vertex set (both directions), list tools. -/
namespace FeatModel.Refine
open FeatModel.Gen.Refine

/-! ### insertion sort facts -/

theorem insertSorted_perm (x : Nat) (l : List Nat) : (insertSorted x l).Perm (x :: l) := by
  induction l with
  | nil => exact List.Perm.refl _
  | cons y ys ih =>
    unfold insertSorted
    split
    · exact List.Perm.refl _
    · exact ((List.Perm.cons y ih).trans (List.Perm.swap x y ys))

theorem sortNats_perm (l : List Nat) : (sortNats l).Perm l := by
  induction l with
  | nil => exact List.Perm.refl _
  | cons x xs ih =>
    have : sortNats (x :: xs) = insertSorted x (sortNats xs) := rfl
    rw [this]
    exact (insertSorted_perm x _).trans (List.Perm.cons x ih)

theorem insertSorted_sorted (x : Nat) (l : List Nat) (h : l.Pairwise (· ≤ ·)) :
    (insertSorted x l).Pairwise (· ≤ ·) := by
  induction l with
  | nil => simp [insertSorted]
  | cons y ys ih =>
    rw [List.pairwise_cons] at h
    unfold insertSorted
    split
    · rename_i hxy
      rw [List.pairwise_cons]
      refine ⟨?_, List.pairwise_cons.2 h⟩
      intro a ha
      rw [List.mem_cons] at ha
      rcases ha with rfl | ha
      · exact hxy
      · exact Nat.le_trans hxy (h.1 a ha)
    · rename_i hxy
      rw [List.pairwise_cons]
      refine ⟨?_, ih h.2⟩
      intro a ha
      rw [mem_insertSorted] at ha
      rcases ha with rfl | ha
      · omega
      · exact h.1 a ha

theorem sortNats_sorted (l : List Nat) : (sortNats l).Pairwise (· ≤ ·) := by
  induction l with
  | nil => simp [sortNats]
  | cons x xs ih =>
    have : sortNats (x :: xs) = insertSorted x (sortNats xs) := rfl
    rw [this]
    exact insertSorted_sorted x _ ih

theorem sortNats_strict (l : List Nat) (h : l.Nodup) : (sortNats l).Pairwise (· < ·) := by
  have h1 := sortNats_sorted l
  have h2 : (sortNats l).Nodup := (sortNats_perm l).nodup_iff.2 h
  exact (h1.and h2).imp (fun ⟨a, b⟩ => by omega)

theorem strict_sorted_ext (l1 l2 : List Nat) (h1 : l1.Pairwise (· < ·)) (h2 : l2.Pairwise (· < ·))
    (h : ∀ a, a ∈ l1 ↔ a ∈ l2) : l1 = l2 := by
  induction l1 generalizing l2 with
  | nil =>
    cases l2 with
    | nil => rfl
    | cons b bs => exact absurd ((h b).2 (by simp)) (by simp)
  | cons a as ih =>
    cases l2 with
    | nil => exact absurd ((h a).1 (by simp)) (by simp)
    | cons b bs =>
      rw [List.pairwise_cons] at h1 h2
      have hab : a = b := by
        have ha := (h a).1 (by simp)
        have hb := (h b).2 (by simp)
        rw [List.mem_cons] at ha hb
        rcases ha with ha | ha
        · exact ha
        · rcases hb with hb | hb
          · exact hb.symm
          · have := h2.1 a ha; have := h1.1 b hb; omega
      subst hab
      congr 1
      apply ih bs h1.2 h2.2
      intro c
      constructor
      · intro hc
        have := (h c).1 (by simp [hc])
        rw [List.mem_cons] at this
        rcases this with rfl | this
        · have := h1.1 c hc; omega
        · exact this
      · intro hc
        have := (h c).2 (by simp [hc])
        rw [List.mem_cons] at this
        rcases this with rfl | this
        · have := h2.1 c hc; omega
        · exact this

/-- entities with the same vertex set (and no repeated vertex) have the same key -/
theorem setKey_of_sameSet (base : Nat) (x y : List Nat) (hx : x.Nodup) (hy : y.Nodup) (h : sameSet x y = true) :
    setKey base x = setKey base y := by
  rw [sameSet_iff] at h
  have : sortNats x = sortNats y := by
    apply strict_sorted_ext _ _ (sortNats_strict x hx) (sortNats_strict y hy)
    intro a
    rw [mem_sortNats, mem_sortNats]
    exact ⟨h.1 a, h.2 a⟩
  unfold setKey
  rw [this]

/-! ### Nodup of nested lists -/

theorem nodup_flatMap_of {α β : Type} (l : List α) (f : α → List β) (h1 : ∀ x ∈ l, (f x).Nodup) (h2 : l.Nodup)
    (h3 : ∀ x ∈ l, ∀ y ∈ l, ∀ b, b ∈ f x → b ∈ f y → x = y) : (l.flatMap f).Nodup := by
  induction l with
  | nil => simp
  | cons a as ih =>
    rw [List.flatMap_cons, List.nodup_append]
    rw [List.nodup_cons] at h2
    refine ⟨h1 a (by simp), ih (fun x hx => h1 x (by simp [hx])) h2.2
      (fun x hx y hy => h3 x (by simp [hx]) y (by simp [hy])), ?_⟩
    intro b hb c hc hbc
    subst hbc
    rw [List.mem_flatMap] at hc
    obtain ⟨y, hy, hby⟩ := hc
    have := h3 a (by simp) y (by simp [hy]) b hb hby
    subst this
    exact h2.1 hy

theorem nodup_map_of {α β : Type} (l : List α) (f : α → β) (h : l.Nodup)
    (hinj : ∀ x ∈ l, ∀ y ∈ l, f x = f y → x = y) : (l.map f).Nodup := by
  induction l with
  | nil => simp
  | cons a as ih =>
    rw [List.nodup_cons] at h
    rw [List.map_cons, List.nodup_cons]
    refine ⟨?_, ih h.2 (fun x hx y hy => hinj x (by simp [hx]) y (by simp [hy]))⟩
    intro hmem
    obtain ⟨b, hb, hfb⟩ := List.mem_map.1 hmem
    have := hinj b (by simp [hb]) a (by simp) hfb
    subst this
    exact h.1 hb

end FeatModel.Refine
