import FeatModel.Gen.CubatureS2
/-! C14: a slice of the generated tables of shape s2 (split so that lake checks the slices in parallel) -/
namespace FeatModel.Cub

set_option maxRecDepth 100000 in
theorem tabS2c : (Gen.tablesS2.drop 26).all (tableObligation .s2) = true := by decide +kernel

end FeatModel.Cub
