import FeatModel.Model.Adjacency
import FeatModel.Model.AdjKernels
import FeatModel.Lemmas.C19_color
import FeatModel.Lemmas.C19_renders
/-! C19 lemmas, group `api` (statements fixed by Props/C19.statements; proofs to be filled in) -/
open FeatModel.Adj

namespace C19L.api

/-! ### degree -/

theorem prefixSums_diff (acc : Nat) (ls : List Nat) (i : Nat) (hi : i < ls.length) :
    (Graph.prefixSums acc ls).getD (i + 1) 0 - (Graph.prefixSums acc ls).getD i 0 = ls.getD i 0 := by
  induction ls generalizing acc i with
  | nil => simp at hi
  | cons x xs ih =>
    cases i with
    | zero =>
      simp only [Graph.prefixSums, List.getD_cons_succ, List.getD_cons_zero,
        C19L.renders.prefixSums_getD_zero]
      omega
    | succ i =>
      simp only [Graph.prefixSums, List.getD_cons_succ]
      exact ih _ _ (by simpa using hi)

theorem toArray_getD (l : List Nat) (i d : Nat) : l.toArray.getD i d = l.getD i d := by
  simp [Array.getD_eq_getD_getElem?, List.getD_eq_getElem?_getD]

theorem range_map_diff (ls : List Nat) :
    (List.range ls.length).map
      (fun i => (Graph.prefixSums 0 ls).getD (i + 1) 0 - (Graph.prefixSums 0 ls).getD i 0) = ls := by
  apply List.ext_getElem
  · simp
  · intro i h1 h2
    simp only [List.getElem_map, List.getElem_range]
    rw [prefixSums_diff 0 ls i h2]
    simp [List.getD_eq_getElem?_getD, h2]

theorem foldl_max_attained (adj : List (List Nat)) (d0 : Nat) :
    adj.foldl (fun d l => max d l.length) d0 = d0 ∨
    ∃ l, l ∈ adj ∧ l.length = adj.foldl (fun d l => max d l.length) d0 := by
  induction adj generalizing d0 with
  | nil => simp
  | cons x xs ih =>
    simp only [List.foldl_cons]
    rcases ih (max d0 x.length) with h | ⟨l, hl, he⟩
    · by_cases hx : x.length ≤ d0
      · left; rw [h]; omega
      · right; exact ⟨x, by simp, by rw [h]; omega⟩
    · right; exact ⟨l, by simp [hl], he⟩

theorem degree_spec (g : Graph) :
    Kern.degreeAll (Arrays.ofGraph g) = g.maxDegree ∧
    (∀ i, i < g.nDom → Kern.degreeAt (Arrays.ofGraph g) i = (g.row i).length) ∧
    (∀ i, (g.row i).length ≤ g.maxDegree) ∧
    (0 < g.nDom → ∃ i, i < g.nDom ∧ (g.row i).length = g.maxDegree) := by
  refine ⟨?_, ?_, C19L.color.row_length_le_maxDegree g, ?_⟩
  · unfold Kern.degreeAll Arrays.ofGraph Graph.maxDegree Graph.domainPtr
    simp only [toArray_getD, List.size_toArray, C19L.renders.prefixSums_length, List.length_map,
      Nat.add_sub_cancel]
    have h1 : ∀ (F : Nat → Nat) (l : List Nat) (d0 : Nat),
        l.foldl (fun d i => max d (F i)) d0 = (l.map F).foldl max d0 := by
      intro F l d0
      rw [List.foldl_map]
    rw [h1 (fun i => (Graph.prefixSums 0 (g.adj.map List.length)).getD (i + 1) 0
      - (Graph.prefixSums 0 (g.adj.map List.length)).getD i 0)]
    have h2 := range_map_diff (g.adj.map List.length)
    rw [List.length_map] at h2
    rw [h2, List.foldl_map]
  · intro i hi
    unfold Kern.degreeAt Arrays.ofGraph Graph.domainPtr Graph.row
    simp only [toArray_getD]
    rw [prefixSums_diff 0 _ i (by simpa [Graph.nDom] using hi)]
    simp only [List.getD_eq_getElem?_getD, List.getElem?_map]
    have hi' : i < g.adj.length := hi
    simp [hi']
  · intro hpos
    have hpos' : 0 < g.adj.length := hpos
    rcases foldl_max_attained g.adj 0 with h | ⟨l, hl, he⟩
    · refine ⟨0, hpos, ?_⟩
      have := C19L.color.row_length_le_maxDegree g 0
      unfold Graph.maxDegree at this ⊢
      omega
    · obtain ⟨i, hi, rfl⟩ := List.getElem_of_mem hl
      refine ⟨i, hi, ?_⟩
      unfold Graph.row Graph.maxDegree
      rw [← he]
      simp [List.getD_eq_getElem?_getD, hi]

/-! ### permute_indices / clone -/

theorem wf_flatten_lt (g : Graph) (hwf : g.wf = true) : ∀ k, k ∈ g.adj.flatten → k < g.nImg := by
  intro k hk
  obtain ⟨l, hl, hkl⟩ := List.mem_flatten.mp hk
  unfold Graph.wf at hwf
  have h1 := List.all_eq_true.mp hwf l hl
  have h2 := List.all_eq_true.mp h1 k hkl
  simpa using h2

theorem permuteIndices_spec (g : Graph) (p : List Nat) :
    Kern.permuteIndices (Arrays.ofGraph g) p =
      if g.imageIdx = [] ∨ g.nImg ≠ p.length ∨ ¬ (∀ k, k ∈ g.imageIdx → k < p.length) then none
      else some (Arrays.ofGraph { g with adj := g.adj.map fun l => l.map fun k => p.getD k 0 }) := by
  unfold Kern.permuteIndices
  by_cases h1 : g.imageIdx = []
  · simp [Arrays.ofGraph, h1]
  · have he : (Arrays.ofGraph g).idx.isEmpty = false := by
      simp [Arrays.ofGraph, h1]
    by_cases h2 : g.nImg = p.length
    · have hn : ((Arrays.ofGraph g).nImg != p.length) = false := by
        simp [Arrays.ofGraph, h2]
      by_cases h3 : ∀ k, k ∈ g.imageIdx → k < p.length
      · have hall : (Arrays.ofGraph g).idx.all (· < p.length) = true := by
          simp only [Arrays.ofGraph, Array.all_eq_true_iff_forall_mem, List.mem_toArray, decide_eq_true_eq]
          exact h3
        have hc : ¬ (g.imageIdx = [] ∨ g.nImg ≠ p.length ∨ ¬ (∀ k, k ∈ g.imageIdx → k < p.length)) := by
          intro h
          rcases h with h | h | h
          · exact h1 h
          · exact h h2
          · exact h h3
        rw [if_neg hc]
        simp only [he, hn, hall]
        simp [Arrays.ofGraph, Graph.domainPtr, Graph.imageIdx, List.map_flatten, Function.comp_def]
      · have hall : (Arrays.ofGraph g).idx.all (· < p.length) = false := by
          rw [Bool.eq_false_iff]
          intro hh
          apply h3
          simp only [Arrays.ofGraph, Array.all_eq_true_iff_forall_mem, List.mem_toArray, decide_eq_true_eq] at hh
          exact hh
        rw [if_pos (Or.inr (Or.inr h3))]
        simp [he, hn, hall]
    · have hn : ((Arrays.ofGraph g).nImg != p.length) = true := by
        simp [Arrays.ofGraph, h2]
      rw [if_pos (Or.inr (Or.inl h2))]
      simp [he, hn]

theorem permuteIndices_relabels (g : Graph) (p : List Nat) (hwf : g.wf = true) (hne : g.imageIdx ≠ [])
    (hp : p.length = g.nImg) :
    ∃ g' : Graph, Kern.permuteIndices (Arrays.ofGraph g) p = some (Arrays.ofGraph g') ∧
      g'.nImg = g.nImg ∧ g'.nDom = g.nDom ∧ ∀ i, g'.row i = (g.row i).map fun k => p.getD k 0 := by
  refine ⟨{ g with adj := g.adj.map fun l => l.map fun k => p.getD k 0 }, ?_, rfl, ?_, ?_⟩
  · rw [permuteIndices_spec g p]
    have : ¬ (g.imageIdx = [] ∨ g.nImg ≠ p.length ∨ ¬ (∀ k, k ∈ g.imageIdx → k < p.length)) := by
      intro h
      rcases h with h | h | h
      · exact hne h
      · exact h hp.symm
      · apply h
        intro k hk
        have := wf_flatten_lt g hwf k hk
        omega
    rw [if_neg this]
  · simp [Graph.nDom]
  · intro i
    simp only [Graph.row, List.getD_eq_getElem?_getD, List.getElem?_map]
    cases g.adj[i]? <;> simp

theorem prefixSums_ne_nil (acc : Nat) (l : List Nat) : Graph.prefixSums acc l ≠ [] := by
  cases l <;> simp [Graph.prefixSums]

theorem clone_spec (g : Graph) : Kern.clone (Arrays.ofGraph g) = Arrays.ofGraph g := by
  unfold Kern.clone
  have : (Arrays.ofGraph g).ptr.isEmpty = false := by
    unfold Arrays.ofGraph Graph.domainPtr
    simp [prefixSums_ne_nil]
  simp [this]

/-! ### numDistinct -/

theorem numDistinct_spec (col d : List Nat) (hd : d.Nodup) (hm : ∀ c, c ∈ d ↔ c ∈ col) :
    Coloring.numDistinct col = d.length := by
  unfold Coloring.numDistinct
  have h1 := C19L.color.nodup_subset_length_le (l := Graph.dedup col) (m := d)
    (C19L.renders.nodup_dedup col)
    (fun a ha => (hm a).2 ((C19L.renders.mem_dedup col a).1 ha))
  have h2 := C19L.color.nodup_subset_length_le (l := d) (m := Graph.dedup col) hd
    (fun a ha => (C19L.renders.mem_dedup col a).2 ((hm a).1 ha))
  omega

/-! ### greedy colours are contiguous -/

open C19L.color in
/-- every colour below `numColors` is already in use among the first `m` nodes -/
theorem used_upTo (g : Graph) (m : Nat) (hm : m ≤ g.nDom) :
    ∀ c, c < (gUpTo g m).numColors → ∃ i, i < m ∧ (gUpTo g m).coloring.getD i 0 = c := by
  induction m with
  | zero => intro c hc; simp [gUpTo, gInit] at hc
  | succ m ih =>
    have ih := ih (by omega)
    have hinv := GInv_upTo g m (by omega)
    rw [gUpTo_succ]
    have hmk : ∀ x, x ∈ gMarked g (gUpTo g m) m → x < (gUpTo g m).numColors := by
      intro x hx
      obtain ⟨k, _, hlt, rfl⟩ := mem_gMarked.1 hx
      exact hinv.lt k hlt
    obtain ⟨c0, hcol, hcm, hclt, hmono, hnc⟩ :=
      colorNode_spec (gUpTo g m) m (gMarked g (gUpTo g m) m) hmk
    have hsz : m < (gUpTo g m).coloring.size := by rw [hinv.size]; omega
    intro c hc
    unfold gStep at hc ⊢
    rw [hcol]
    by_cases hlt : c < (gUpTo g m).numColors
    · obtain ⟨i, hi, he⟩ := ih c hlt
      exact ⟨i, by omega, by rw [getD_set_ne (by omega)]; exact he⟩
    · rcases hnc with he | ⟨he, hall⟩
      · rw [he] at hc; exact absurd hc hlt
      · rw [he] at hc hclt
        have hc0 : ¬ c0 < (gUpTo g m).numColors := fun h => hcm (hall c0 h)
        refine ⟨m, by omega, ?_⟩
        rw [getD_set_eq hsz]
        omega

set_option linter.unusedVariables false in
theorem greedy_colors_contiguous (g : Graph) :
    Coloring.numDistinct (Coloring.greedy g).coloring.toList = (Coloring.greedy g).numColors := by
  rw [C19L.color.greedy_eq]
  have hinv := C19L.color.GInv_upTo g g.nDom (Nat.le_refl _)
  have hused := used_upTo g g.nDom (Nat.le_refl _)
  rw [numDistinct_spec _ (List.range (C19L.color.gUpTo g g.nDom).numColors) List.nodup_range]
  · simp
  · intro c
    rw [List.mem_range, Array.mem_toList_iff, Array.mem_iff_getElem]
    constructor
    · intro hc
      obtain ⟨i, hi, he⟩ := hused c hc
      have hi' : i < (C19L.color.gUpTo g g.nDom).coloring.size := by rw [hinv.size]; exact hi
      refine ⟨i, hi', ?_⟩
      rw [← he]
      simp [Array.getD_eq_getD_getElem?, hi']
    · rintro ⟨i, hi, rfl⟩
      have := hinv.lt i (by rw [← hinv.size]; exact hi)
      simpa [Array.getD_eq_getD_getElem?, hi] using this

/-! ### CompositeAdjactor::ImageIterator -/

theorem skip_spec (b : Graph) (r : List Nat) :
    (CompIt.skip b r = ⟨[], []⟩ ∧ r.flatMap b.row = []) ∨
    ∃ j r' v vs, CompIt.skip b r = ⟨j :: r', v :: vs⟩ ∧
      r.flatMap b.row = (v :: vs) ++ r'.flatMap b.row := by
  induction r with
  | nil => left; simp [CompIt.skip]
  | cons j r ih =>
    cases hb : b.row j with
    | nil =>
      simp only [CompIt.skip, hb, List.isEmpty_nil, if_true, List.flatMap_cons, List.nil_append]
      exact ih
    | cons v vs =>
      right
      exact ⟨j, r, v, vs, by simp [CompIt.skip, hb], by simp [hb]⟩

theorem collect_end (b : Graph) (fuel : Nat) (acc : List Nat) :
    CompIt.collect b fuel ⟨[], []⟩ acc = some acc := by
  cases fuel <;> simp [CompIt.collect]

theorem collect_spec (b : Graph) (fuel : Nat) : ∀ (j : Nat) (r : List Nat) (v : Nat) (vs acc : List Nat),
    (v :: vs).length + (r.flatMap b.row).length ≤ fuel →
    CompIt.collect b fuel ⟨j :: r, v :: vs⟩ acc = some (acc ++ (v :: vs) ++ r.flatMap b.row) := by
  induction fuel with
  | zero => intro j r v vs acc h; simp at h
  | succ fuel ih =>
    intro j r v vs acc h
    simp only [CompIt.collect]
    cases vs with
    | cons x xs =>
      simp only [CompIt.next]
      rw [ih j r x xs (acc ++ [v]) (by simp only [List.length_cons] at h ⊢; omega)]
      simp
    | nil =>
      simp only [CompIt.next, List.tail_cons]
      rcases skip_spec b r with ⟨hs, hf⟩ | ⟨j', r', v', vs', hs, hf⟩
      · rw [hs, collect_end, hf]
        simp
      · rw [hs, ih j' r' v' vs' (acc ++ [v])
          (by rw [hf] at h; simp only [List.length_cons, List.length_append, List.length_nil] at h ⊢; omega), hf]
        simp

theorem compositeIterator_spec (a b : Graph) (i : Nat) (h : ∀ j r, a.row i = j :: r → b.row j ≠ []) :
    CompIt.imagesOf a b i = some ((a.row i).flatMap b.row) := by
  unfold CompIt.imagesOf CompIt.begin
  cases ha : a.row i with
  | nil => simp [CompIt.collect]
  | cons j r =>
    have hne := h j r ha
    cases hb : b.row j with
    | nil => exact absurd hb hne
    | cons v vs =>
      simp only [List.flatMap_cons, hb]
      rw [collect_spec b _ j r v vs [] (by simp only [List.length_append]; omega)]
      simp

theorem compositeIterator_empty_head (a b : Graph) (i j : Nat) (r : List Nat) (h : a.row i = j :: r)
    (he : b.row j = []) : CompIt.imagesOf a b i = none := by
  unfold CompIt.imagesOf CompIt.begin
  simp only [h, he]
  simp [CompIt.collect]

theorem compositeIterator_fixed_spec (a b : Graph) (i : Nat) :
    CompIt.imagesOfFixed a b i = some ((a.row i).flatMap b.row) ∧
    ((∀ j r, a.row i = j :: r → b.row j ≠ []) → CompIt.beginFixed a b i = CompIt.begin a b i) := by
  constructor
  · unfold CompIt.imagesOfFixed CompIt.beginFixed
    rcases skip_spec b (a.row i) with ⟨hs, hf⟩ | ⟨j', r', v', vs', hs, hf⟩
    · rw [hs, collect_end, hf]
    · rw [hs, collect_spec b _ j' r' v' vs' []
        (by rw [hf]; simp only [List.length_cons, List.length_append]; omega), hf]
      simp
  · intro h
    unfold CompIt.beginFixed CompIt.begin
    cases ha : a.row i with
    | nil => simp [CompIt.skip]
    | cons j r =>
      have hne := h j r ha
      cases hb : b.row j with
      | nil => exact absurd hb hne
      | cons v vs => simp [CompIt.skip, hb]

theorem degree_is_max (a : Arrays) :
    Kern.degreeAll a = (List.range (a.ptr.size - 1)).foldl (fun d i => max d (Kern.degreeAt a i)) 0 ∧
    (∀ i, i < a.ptr.size - 1 → Kern.degreeAt a i ≤ Kern.degreeAll a) ∧
    (0 < a.ptr.size - 1 → ∃ i, i < a.ptr.size - 1 ∧ Kern.degreeAt a i = Kern.degreeAll a) := by
  have key : ∀ (l : List Nat) (d0 : Nat),
      (∀ i, i ∈ l → Kern.degreeAt a i ≤ l.foldl (fun d i => max d (Kern.degreeAt a i)) d0) ∧
      d0 ≤ l.foldl (fun d i => max d (Kern.degreeAt a i)) d0 ∧
      (l.foldl (fun d i => max d (Kern.degreeAt a i)) d0 = d0 ∨
        ∃ i, i ∈ l ∧ Kern.degreeAt a i = l.foldl (fun d i => max d (Kern.degreeAt a i)) d0) := by
    intro l
    induction l with
    | nil => intro d0; simp
    | cons x xs ih =>
      intro d0
      obtain ⟨h1, h2, h3⟩ := ih (max d0 (Kern.degreeAt a x))
      simp only [List.foldl_cons, List.mem_cons]
      refine ⟨?_, by omega, ?_⟩
      · intro i hi
        rcases hi with rfl | hi
        · omega
        · exact h1 i hi
      · rcases h3 with h3 | ⟨i, hi, he⟩
        · by_cases hle : Kern.degreeAt a x ≤ d0
          · left; rw [h3]; omega
          · right; exact ⟨x, Or.inl rfl, by rw [h3]; omega⟩
        · right; exact ⟨i, Or.inr hi, he⟩
  refine ⟨rfl, ?_, ?_⟩
  · intro i hi
    exact (key (List.range (a.ptr.size - 1)) 0).1 i (List.mem_range.mpr hi)
  · intro hn
    rcases (key (List.range (a.ptr.size - 1)) 0).2.2 with h0 | ⟨i, hi, he⟩
    · refine ⟨0, hn, ?_⟩
      have := (key (List.range (a.ptr.size - 1)) 0).1 0 (List.mem_range.mpr hn)
      show Kern.degreeAt a 0 = (List.range (a.ptr.size - 1)).foldl (fun d i => max d (Kern.degreeAt a i)) 0
      omega
    · exact ⟨i, List.mem_range.mp hi, he⟩

end C19L.api
