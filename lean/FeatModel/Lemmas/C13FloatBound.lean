/-
C13, float clause, last step: under `Decomp.WF` the contributions arriving at an entry are the values of the other
sharing patches, so the error bound of the rounded synchronisation holds for every arrival order.
-/
import FeatModel.Lemmas.C13Float
open FeatModel.Dist

set_option linter.unusedSectionVars false

namespace FeatModel.C13L

section Exact
variable {α : Type} [Field α]

/-- the family `h ∘ vs` restricted to the local DOFs -/
def mapFam (d : Decomp) (vs : List (List α)) (h : α → α) : List (List α) :=
  (List.range d.np).map fun s => (List.range (d.lmap s).length).map fun j => h (val (vs.getD s []) j)

theorem sharedVals_mapFam (d : Decomp) (vs : List (List α)) (h : α → α) (s g : Nat) (hs : s < d.np) :
    d.sharedVals (mapFam d vs h) s g = (d.sharedVals vs s g).map h := by
  unfold Decomp.sharedVals mapFam
  rw [List.map_map]
  apply List.map_congr_left
  intro j hj
  have hj' : j < (d.lmap s).length := List.mem_range.1 (List.mem_filter.1 hj).1
  simp only [Function.comp]
  have : ((List.range d.np).map fun s => (List.range (d.lmap s).length).map fun j => h (val (vs.getD s []) j)).getD s []
      = (List.range (d.lmap s).length).map fun j => h (val (vs.getD s []) j) := by
    simp [List.getD_eq_getElem?_getD, hs]
  rw [this, val_eq_getElem _ _ (by simpa using hj')]
  simp

theorem mapFam_val (d : Decomp) (hw : d.WF) (vs : List (List α)) (h : α → α) (r : Nat) (hr : r < d.np) (i : Nat)
    (hi : i < (d.patch r).n) : val ((mapFam d vs h).getD r []) i = h (val (vs.getD r []) i) := by
  have hi' : i < (d.lmap r).length := by rw [← hw.size r hr]; exact hi
  have : (mapFam d vs h).getD r [] = (List.range (d.lmap r).length).map fun j => h (val (vs.getD r []) j) := by
    simp [mapFam, List.getD_eq_getElem?_getD, hr]
  rw [this, val_eq_getElem _ _ (by simpa using hi')]
  simp

theorem sum_filterMap_map {ι : Type} (l : List ι) (f : ι → Option α) (h : α → α) :
    ((l.filterMap f).map h).sum = (l.map fun k => ((f k).map h).getD 0).sum := by
  induction l with
  | nil => rfl
  | cons k l ih =>
    rw [List.filterMap_cons]
    cases hf : f k with
    | none => simp [hf, ih]
    | some c => simp [hf, ih]

/-- what arrives from neighbour `nb` at entry `i`: the value the neighbour holds for the same global DOF, if any -/
theorem arrival_of_nbr (d : Decomp) (hw : d.WF) (vs : List (List α)) (r : Nat) (hr : r < d.np) (i : Nat)
    (hi : i < (d.patch r).n) (nb : Nat × List Nat) (hnb : nb ∈ (d.patch r).nbrs) (h : α → α) :
    ((((nb.2.zip ((sendBuf d.patches vs nb.1 r).getD [])).find? fun p => p.1 == i).map (·.2)).map h).getD 0
      = ((d.sharedVals vs nb.1 (d.gdof r i)).map h).sum := by
  obtain ⟨hne, hlt⟩ := hw.nbr r hr nb hnb
  obtain ⟨nb', hnb', h1, hmap, hrange, hsb⟩ := sendBuf_of_nbr d hw vs r hr nb hnb
  rw [hsb, Option.getD_some]
  have hlen : nb'.2.length = nb.2.length := by simpa using congrArg List.length hmap
  have hnz : ((nb.2.zip (gather nb'.2 (vs.getD nb.1 []))).map (·.1)).Nodup :=
    (hw.mirNodup r hr nb hnb).sublist (zip_fst_sublist _ _)
  by_cases hi' : i ∈ nb.2
  · obtain ⟨k, hk, hki⟩ := List.getElem_of_mem hi'
    have hk' : k < nb'.2.length := by omega
    have hg : d.gdof nb.1 nb'.2[k] = d.gdof r i := by
      have := congrArg (fun l => l[k]?) hmap
      simpa [hk, hk', hki] using this
    have hkb : k < (gather nb'.2 (vs.getD nb.1 [])).length := by simpa [gather] using hk'
    have hmem : (nb.2[k], (gather nb'.2 (vs.getD nb.1 []))[k]) ∈ nb.2.zip (gather nb'.2 (vs.getD nb.1 [])) := by
      rw [List.mem_iff_getElem]
      exact ⟨k, by rw [List.length_zip]; exact Nat.lt_min.2 ⟨hk, hkb⟩, by simp⟩
    have hf := find?_fst_of_nodup _ hnz _ hmem i hki
    rw [hf, sharedVals_of_index d vs nb.1 _ (hw.inj nb.1 hlt) nb'.2[k]
      (by rw [← hw.size nb.1 hlt]; exact hrange _ (List.getElem_mem _)) hg]
    simp [gather]
  · have hf : (nb.2.zip (gather nb'.2 (vs.getD nb.1 []))).find? (fun p => p.1 == i) = none :=
      find?_fst_none _ i (fun hm => hi' ((zip_fst_sublist _ _).subset hm))
    rw [hf, sharedVals_nil]
    · simp
    · intro j hj hgj
      obtain ⟨nb2, hnb2, h2, hi2⟩ :=
        hw.complete r hr nb.1 hlt hne i hi j (by rw [hw.size nb.1 hlt]; exact hj) hgj.symm
      have e1 := find?_fst_of_nodup _ (hw.ranks r hr) nb2 hnb2 nb.1 h2
      have e2 := find?_fst_of_nodup _ (hw.ranks r hr) nb hnb nb.1 rfl
      rw [e1] at e2
      cases e2
      exact hi' hi2

/-- any additive functional `Σ h` of the own value and the arrivals = the same functional over all sharers -/
theorem arrivals_sum (d : Decomp) (hw : d.WF) (vs : List (List α)) (r : Nat) (hr : r < d.np) (i : Nat)
    (hi : i < (d.patch r).n) (ord : List Nat) (hord : ord.Perm (List.range (d.patch r).nbrs.length)) (h : α → α) :
    h (val (vs.getD r []) i) + ((arrivals d.patches vs r ord i).map h).sum
      = ((List.range d.np).map fun s => ((d.sharedVals vs s (d.gdof r i)).map h).sum).sum := by
  unfold arrivals
  rw [sum_filterMap_map, (hord.map _).sum_eq]
  have e1 : ((List.range (d.patch r).nbrs.length).map fun k =>
      (((((msgMir d.patches r k).zip (msgBuf d.patches vs r k)).find? fun p => p.1 == i).map (·.2)).map h).getD 0)
      = (d.patch r).nbrs.map fun nb => ((d.sharedVals vs nb.1 (d.gdof r i)).map h).sum := by
    rw [← map_getD_range (d.patch r).nbrs (0, [])]
    apply List.map_congr_left
    intro k hk
    have hk := List.mem_range.1 hk
    have hm : (d.patch r).nbrs.getD k (0, []) ∈ (d.patch r).nbrs := by
      simp [List.getD_eq_getElem?_getD, hk]
    exact arrival_of_nbr d hw vs r hr i hi _ hm h
  rw [e1]
  have := sum_nbrs_sharedVals d hw (mapFam d vs h) r hr i hi
  rw [mapFam_val d hw vs h r hr i hi] at this
  have e2 : ((d.patch r).nbrs.map fun nb => (d.sharedVals (mapFam d vs h) nb.1 (d.gdof r i)).sum)
      = (d.patch r).nbrs.map fun nb => ((d.sharedVals vs nb.1 (d.gdof r i)).map h).sum := by
    apply List.map_congr_left
    intro nb hnb
    rw [sharedVals_mapFam d vs h nb.1 _ (hw.nbr r hr nb hnb).2]
  have e3 : ((List.range d.np).map fun s => (d.sharedVals (mapFam d vs h) s (d.gdof r i)).sum)
      = (List.range d.np).map fun s => ((d.sharedVals vs s (d.gdof r i)).map h).sum := by
    apply List.map_congr_left
    intro s hs
    rw [sharedVals_mapFam d vs h s _ (List.mem_range.1 hs)]
  rw [e2, e3] at this
  exact this

/-- the number of values held for `g`: one per sharing patch -/
theorem sum_sharedVals_one (d : Decomp) (hw : d.WF) (vs : List (List α)) (g : Nat) :
    ((List.range d.np).map fun s => ((d.sharedVals vs s g).map fun _ => (1 : α)).sum).sum
      = ((d.sharers g).length : α) := by
  have e : ∀ s ∈ List.range d.np, ((d.sharedVals vs s g).map fun _ => (1 : α)).sum
      = if (d.lmap s).contains g then 1 else 0 := by
    intro s hs
    have hs := List.mem_range.1 hs
    by_cases hg : g ∈ d.lmap s
    · obtain ⟨j, hj, hjg⟩ := List.getElem_of_mem hg
      have hgd : d.gdof s j = g := by simp [Decomp.gdof, List.getD_eq_getElem?_getD, hj, hjg]
      rw [sharedVals_of_index d _ s g (hw.inj s hs) j hj hgd]
      simp [hg]
    · rw [sharedVals_nil]
      · simp [hg]
      · intro j hj he
        apply hg
        rw [← he]
        simp [Decomp.gdof, List.getD_eq_getElem?_getD, hj]
  rw [List.map_congr_left e, sum_map_ite_eq_length]
  rfl

end Exact

section Order
variable {α : Type} [Field α] [LinearOrder α] [IsStrictOrderedRing α]

/-- **error bound of the rounded type-0 synchronisation, for every arrival order** -/
theorem sync0_float_bound (fl : α → α) (u : α) (hu : 0 ≤ u) (hfl : ∀ x, |fl x - x| ≤ u * |x|)
    (d : Decomp) (hw : d.WF) (vs : List (List α))
    (hv : ∀ r, r < d.np → (vs.getD r []).length = (d.patch r).n)
    (r : Nat) (hr : r < d.np) (ord : List Nat) (hord : ord.Perm (List.range (d.patch r).nbrs.length))
    (i : Nat) (hi : i < (d.patch r).n) :
    |val (sync0PatchFl fl d.patches vs r ord) i
        - ((List.range d.np).map fun s => (d.sharedVals vs s (d.gdof r i)).sum).sum|
      ≤ ((1 + u) ^ ((d.sharers (d.gdof r i)).length - 1) - 1)
        * ((List.range d.np).map fun s => ((d.sharedVals vs s (d.gdof r i)).map fun c => |c|).sum).sum := by
  have hn : ∀ k ∈ ord, (msgMir d.patches r k).Nodup := by
    intro k hk
    have hk' : k < (d.patch r).nbrs.length := List.mem_range.1 (hord.subset hk)
    have hm : (d.patch r).nbrs.getD k (0, []) ∈ (d.patch r).nbrs := by
      simp [List.getD_eq_getElem?_getD, hk']
    exact hw.mirNodup r hr _ hm
  have hval := sync0PatchFl_val_flSum fl d.patches vs r ord hn i (by rw [hv r hr]; exact hi)
  have hb := flSum_bound fl u hu hfl (val (vs.getD r []) i) (arrivals d.patches vs r ord i)
  have h1 := arrivals_sum d hw vs r hr i hi ord hord (fun c => c)
  have h2 := arrivals_sum d hw vs r hr i hi ord hord (fun c => |c|)
  have h3 := arrivals_sum d hw vs r hr i hi ord hord (fun _ => (1 : α))
  simp only [List.map_id'] at h1
  rw [sum_sharedVals_one d hw vs] at h3
  have hlen : (arrivals d.patches vs r ord i).length = (d.sharers (d.gdof r i)).length - 1 := by
    have : ((1 + (arrivals d.patches vs r ord i).length : Nat) : α) = ((d.sharers (d.gdof r i)).length : α) := by
      rw [← h3]; simp
    have := Nat.cast_injective this
    omega
  rw [hval, ← h1, ← h2, ← hlen]
  exact hb

/-- first-order form of the rounding factor: `(1+u)^n - 1 ≤ n u + (n u)²` as long as `n u ≤ 1` -/
theorem pow_first_order (u : α) (hu : 0 ≤ u) (n : Nat) (hn : (n : α) * u ≤ 1) :
    (1 + u) ^ n - 1 ≤ (n : α) * u + ((n : α) * u) ^ 2 := by
  induction n with
  | zero => simp
  | succ n ih =>
    have hn' : (n : α) * u ≤ 1 := by
      have : (n : α) * u ≤ ((n + 1 : Nat) : α) * u := by
        apply mul_le_mul_of_nonneg_right _ hu
        exact_mod_cast Nat.le_succ n
      linarith
    have ih' := ih hn'
    have hn0 : (0 : α) ≤ n := Nat.cast_nonneg n
    push_cast at hn ⊢
    rw [pow_succ]
    have h1 : (0:α) ≤ (n:α) * u := mul_nonneg hn0 hu
    have h2 : (0:α) ≤ (n:α) * u * u := mul_nonneg h1 hu
    have key : (1 + u) ^ n * (1 + u) ≤ (1 + (n:α) * u + ((n:α) * u) ^ 2) * (1 + u) :=
      mul_le_mul_of_nonneg_right (by linarith) (by linarith)
    have h3 : (n:α) * u * ((n:α) * u * u) ≤ 1 * ((n:α) * u * u) := mul_le_mul_of_nonneg_right hn' h2
    nlinarith

end Order

end FeatModel.C13L
