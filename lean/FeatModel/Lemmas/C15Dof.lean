import FeatModel.Model.FE
/-! The global DOF numbering: one index per node functional `(dimension, entity, j)`, distinct functionals get
    distinct indices, all indices are below the number of DOFs (for every mesh and every family). -/
namespace FeatModel.FE

theorem foldl_add_eq (l : List Nat) (a : Nat) : l.foldl (· + ·) a = a + l.foldl (· + ·) 0 := by
  induction l generalizing a with
  | nil => simp
  | cons x xs ih => simp only [List.foldl_cons, Nat.zero_add]; rw [ih (a + x), ih x]; omega

theorem dofOffset_succ (f : Fam) (m : Mesh) (d : Nat) :
    dofOffset f m (d + 1) = dofOffset f m d + dpd f m d * m.n d := by
  simp only [dofOffset, List.range_succ, List.map_append, List.foldl_append, List.map_cons, List.map_nil,
    List.foldl_cons, List.foldl_nil]

theorem dofOffset_mono (f : Fam) (m : Mesh) {d d' : Nat} (h : d ≤ d') : dofOffset f m d ≤ dofOffset f m d' := by
  induction d' with
  | zero => have : d = 0 := by omega
            subst this; exact Nat.le_refl _
  | succ n ih =>
    by_cases hd : d = n + 1
    · subst hd; exact Nat.le_refl _
    · have := ih (by omega)
      rw [dofOffset_succ]; omega

theorem entityDof_ge (f : Fam) (m : Mesh) (d e j : Nat) : dofOffset f m d ≤ entityDof f m d e j := by
  unfold entityDof; omega

theorem entityDof_lt (f : Fam) (m : Mesh) {d e j : Nat} (he : e < m.n d) (hj : j < dpd f m d) :
    entityDof f m d e j < dofOffset f m (d + 1) := by
  rw [dofOffset_succ]
  unfold entityDof
  have h1 : (e + 1) * dpd f m d ≤ m.n d * dpd f m d := Nat.mul_le_mul_right _ he
  have h2 : (e + 1) * dpd f m d = e * dpd f m d + dpd f m d := by rw [Nat.add_mul, Nat.one_mul]
  have h3 : m.n d * dpd f m d = dpd f m d * m.n d := Nat.mul_comm _ _
  omega

theorem divmod_unique {k e j e' j' : Nat} (hj : j < k) (hj' : j' < k) (h : e * k + j = e' * k + j') :
    e = e' ∧ j = j' := by
  have hk : 0 < k := by omega
  have h1 : (e * k + j) / k = e := by
    rw [Nat.mul_comm, Nat.mul_add_div hk, Nat.div_eq_of_lt hj, Nat.add_zero]
  have h2 : (e' * k + j') / k = e' := by
    rw [Nat.mul_comm, Nat.mul_add_div hk, Nat.div_eq_of_lt hj', Nat.add_zero]
  have he : e = e' := by rw [← h1, ← h2, h]
  subst he
  exact ⟨rfl, by omega⟩

theorem entityDof_inj (f : Fam) (m : Mesh) {d e j d' e' j' : Nat}
    (he : e < m.n d) (hj : j < dpd f m d) (he' : e' < m.n d') (hj' : j' < dpd f m d')
    (h : entityDof f m d e j = entityDof f m d' e' j') : d = d' ∧ e = e' ∧ j = j' := by
  have hdd : d = d' := by
    by_cases hlt : d < d'
    · have a := entityDof_lt f m he hj
      have b := dofOffset_mono f m (show d + 1 ≤ d' by omega)
      have c := entityDof_ge f m d' e' j'
      omega
    · by_cases hgt : d' < d
      · have a := entityDof_lt f m he' hj'
        have b := dofOffset_mono f m (show d' + 1 ≤ d by omega)
        have c := entityDof_ge f m d e j
        omega
      · omega
  subst hdd
  have : e * dpd f m d + j = e' * dpd f m d + j' := by unfold entityDof at h; omega
  have := divmod_unique hj hj' this
  exact ⟨rfl, this.1, this.2⟩

theorem entityDof_lt_numDofs (f : Fam) (m : Mesh) {d e j : Nat} (hd : d ≤ m.dim)
    (he : e < m.n d) (hj : j < dpd f m d) : entityDof f m d e j < numDofs f m := by
  have a := entityDof_lt f m he hj
  have b := dofOffset_mono f m (show d + 1 ≤ m.dim + 1 by omega)
  unfold numDofs; omega

end FeatModel.FE
