import FeatModel.Lemmas.C08IluNC
import Mathlib.Algebra.Quaternion
/-! C08 (non-commutative port): non-vacuity of the `DivisionRing` generalisation — the rational quaternions are a
division ring whose multiplication does not commute, and `ilu_factor_nc` applies to them. -/
namespace FeatModel.Solver.NC
open FeatModel.LA FeatModel.Solver Quaternion

/-- the quaternions over `ℚ` do not commute: `i * j ≠ j * i` -/
theorem quat_noncomm : (⟨0, 1, 0, 0⟩ : ℍ[ℚ]) * ⟨0, 0, 1, 0⟩ ≠ ⟨0, 0, 1, 0⟩ * ⟨0, 1, 0, 0⟩ := by
  intro h
  have := congrArg QuaternionAlgebra.imK h
  norm_num [Quaternion] at this

/-- `ilu_factor_nc` at the (non-commutative) rational quaternions -/
example (s : IluSym) (hs : s.wf = true) (hso : s.sorted = true) (d0 : IluNum ℍ[ℚ])
    (hl : d0.dataL.size = s.ciL.size) (hu : d0.dataU.size = s.ciU.size) (hdd : d0.dataD.size = s.n)
    (hpiv : ∀ i, i < s.n → (factorizeNumeric s d0).dataD.getD i 0 ≠ 0)
    (i c : Nat) (hi : i < s.n) (hc : c < s.n) (hp : s.inPattern i c) :
    ∑ k ∈ Finset.range (min i c),
        (s.matL (factorizeNumeric s d0)).entry i k * (s.matU (factorizeNumeric s d0)).entry k c
      + (if c < i then (s.matL (factorizeNumeric s d0)).entry i c * (1 / (factorizeNumeric s d0).dataD.getD c 0)
         else if c = i then 1 / (factorizeNumeric s d0).dataD.getD i 0
         else (s.matU (factorizeNumeric s d0)).entry i c)
      = s.dense d0 i c :=
  ilu_factor_nc s hs hso d0 hl hu hdd hpiv i c hi hc hp

end FeatModel.Solver.NC
