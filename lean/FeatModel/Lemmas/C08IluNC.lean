import FeatModel.Lemmas.C08IluNCFactor
import FeatModel.Lemmas.C08IluNCEq
/-! C08 (non-commutative port): the executed merge-pointer `factorizeNumeric` over a `DivisionRing` (the algebra of the
block ILU `ILUCoreBlocked`, where blocks do not commute) reproduces the copied matrix on the symbolic pattern, with the
multiplications in the order of the model: `L_ij ← L_ij * D_jj⁻¹` (inverse pivot from the RIGHT), `w_ik -= L_ij * U_jk`,
`D_ii ← 1 / D_ii`. -/
open Finset
namespace FeatModel.Solver.NC
open FeatModel.LA FeatModel.Solver

variable {α : Type} [DivisionRing α]

/-- `factorize_numeric_il_du` as executed (merge pointers), over a division ring: with `f` the result on the input data
    `d0`, `D = 1 / f.dataD` (the stored pivots are inverted) and non-zero stored pivots, `((I+L)(D+U))_{ic} = (d0)_{ic}`
    on the pattern, the products being `L_ik * U_kc` and `L_ic * D_c`. -/
theorem ilu_factor_nc (s : IluSym) (hs : s.wf = true) (hso : s.sorted = true) (d0 : IluNum α)
    (hl : d0.dataL.size = s.ciL.size) (hu : d0.dataU.size = s.ciU.size) (hdd : d0.dataD.size = s.n)
    (hpiv : ∀ i, i < s.n → (factorizeNumeric s d0).dataD.getD i 0 ≠ 0)
    (i c : Nat) (hi : i < s.n) (hc : c < s.n) (hp : s.inPattern i c) :
    ∑ k ∈ range (min i c), (s.matL (factorizeNumeric s d0)).entry i k * (s.matU (factorizeNumeric s d0)).entry k c
      + (if c < i then (s.matL (factorizeNumeric s d0)).entry i c * (1 / (factorizeNumeric s d0).dataD.getD c 0)
         else if c = i then 1 / (factorizeNumeric s d0).dataD.getD i 0
         else (s.matU (factorizeNumeric s d0)).entry i c)
      = s.dense d0 i c := by
  have he := factorizeNumeric_eq_S_nc s hs hso d0 ⟨hl, hu, hdd⟩
  rw [he] at hpiv ⊢
  exact factorizeNumericS_spec_nc s hs hso d0 hl hu hdd hpiv i c hi hc hp

end FeatModel.Solver.NC
