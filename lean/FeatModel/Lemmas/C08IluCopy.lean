import FeatModel.Lemmas.C08IluApply
import FeatModel.Lemmas.C08Sweeps
import FeatModel.Model.Solver.IluSpec
/-! C08: `copy_data_csr` (find-based formulation `copyDataCsrS`) puts the entry of `A` with the same coordinates on
every position of the factor pattern. -/
open Finset
namespace FeatModel.Solver
open FeatModel.LA

variable {α : Type} [Field α]

/-- consecutive strict increase on `[b, e)` gives strict monotonicity on `[b, e)` -/
theorem strictMono_of_consec (ci : Array Nat) (b e : Nat)
    (h : ∀ k, b ≤ k → k + 1 < e → ci.getD k 0 < ci.getD (k + 1) 0) :
    ∀ k' k, b ≤ k → k < k' → k' < e → ci.getD k 0 < ci.getD k' 0
  | 0, k, _, hk, _ => by omega
  | k' + 1, k, hb, hk, he => by
    rcases Nat.lt_or_ge k k' with hlt | hge
    · exact Nat.lt_trans (strictMono_of_consec ci b e h k' k hb hlt (by omega)) (h k' (by omega) he)
    · have : k = k' := by omega
      subst this
      exact h k hb he

/-- entry of a strictly sorted row = value at the unique position with that column -/
theorem entry_eq_val_of_sortedRow (B : Csr α) (i : Nat) (hle : B.rowEnd i ≤ B.colInd.size)
    (hs : ∀ k, B.rowBegin i ≤ k → k + 1 < B.rowEnd i → B.colInd.getD k 0 < B.colInd.getD (k + 1) 0)
    (k : Nat) (hk1 : B.rowBegin i ≤ k) (hk2 : k < B.rowEnd i) :
    B.entry i (B.colInd.getD k 0) = B.val.getD k 0 := by
  have hsm := strictMono_of_consec B.colInd _ _ hs
  rw [Csr.entry_eq_sum_Ico, Finset.sum_eq_single k]
  · rw [Csr.getD_eq_of_lt _ (by omega) B.cols 0, if_pos rfl]
  · intro k' hk' hne
    rw [Finset.mem_Ico] at hk'
    rw [Csr.getD_eq_of_lt _ (by omega) B.cols 0]
    apply if_neg
    rcases Nat.lt_or_ge k' k with hlt | hge
    · have := hsm k k' hk'.1 hlt hk2; omega
    · have := hsm k' k hk1 (by omega) hk'.2; omega
  · intro hn
    exact absurd (Finset.mem_Ico.mpr ⟨hk1, hk2⟩) hn

/-- the find-based lookup in a strictly sorted row is the dense entry -/
theorem csrLookup_eq_entry (B : Csr α) (i c : Nat) (hle : B.rowEnd i ≤ B.colInd.size)
    (hs : ∀ k, B.rowBegin i ≤ k → k + 1 < B.rowEnd i → B.colInd.getD k 0 < B.colInd.getD (k + 1) 0) :
    csrLookup B i c = B.entry i c := by
  unfold csrLookup findPos
  cases hf : (List.range' (B.rowBegin i) (B.rowEnd i - B.rowBegin i)).find?
      (fun k => B.colInd.getD k 0 == c) with
  | none =>
    rw [List.find?_range'_eq_none] at hf
    show (0 : α) = _
    rw [Csr.entry_eq_sum_Ico]
    symm
    apply Finset.sum_eq_zero
    intro k hk
    rw [Finset.mem_Ico] at hk
    rw [Csr.getD_eq_of_lt _ (by omega) B.cols 0]
    apply if_neg
    have := hf k hk.1 (by omega)
    simpa using this
  | some k =>
    rw [List.find?_range'_eq_some] at hf
    obtain ⟨h1, h2, -⟩ := hf
    rw [List.mem_range'_1] at h2
    have hc : B.colInd.getD k 0 = c := by simpa using h1
    show B.val.getD k 0 = _
    rw [← hc]
    exact (entry_eq_val_of_sortedRow B i hle hs k h2.1 (by omega)).symm

theorem SortedDiag.csrLookup_eq {A : Csr α} (h : SortedDiag A) {i : Nat} (hi : i < A.rows) (c : Nat) :
    csrLookup A i c = A.entry i c :=
  csrLookup_eq_entry A i c (Csr.rowEnd_le h.wf hi) (h.sorted i hi)

/-- the owner row of a storage position -/
theorem rowOf_eq (rp : Array Nat) (n i k : Nat) (hi : i < n)
    (hlo : ∀ i', i' < i → rp.getD (i' + 1) 0 ≤ k) (hk2 : k < rp.getD (i + 1) 0) : rowOf rp n k = i := by
  have hf : (List.range n).find? (fun i => decide (k < rp.getD (i + 1) 0)) = some i := by
    rw [List.range_eq_range', List.find?_range'_eq_some]
    refine ⟨by simpa using hk2, List.mem_range'_1.mpr ⟨Nat.zero_le _, by omega⟩, fun j _ hj => ?_⟩
    have := hlo j hj
    simp only [Bool.not_eq_true', decide_eq_false_iff_not]
    omega
  unfold rowOf
  rw [hf]

theorem copyDataCsrS_sizes (s : IluSym) (A : Csr α) :
    (copyDataCsrS s A).dataL.size = s.ciL.size ∧ (copyDataCsrS s A).dataU.size = s.ciU.size
      ∧ (copyDataCsrS s A).dataD.size = s.n := by
  simp [copyDataCsrS]

theorem copyDataCsrS_D (s : IluSym) (A : Csr α) (hA : sortedDiag A = true) (hn : s.n = A.rows)
    (i : Nat) (hi : i < s.n) : (copyDataCsrS s A).dataD.getD i 0 = A.entry i i := by
  have h := SortedDiag.of_bool hA
  show (Array.ofFn (n := s.n) fun i => csrLookup A i.val i.val).getD i 0 = _
  rw [getD_ofFn _ i hi]
  exact h.csrLookup_eq (by omega) i

/-- generic form of `copyDataCsrS_L` / `copyDataCsrS_U`: a CSR matrix with `n` rows whose values are the looked-up
    entries of `A` carries `A`'s entry on every stored position of a strictly sorted row -/
theorem lookup_entry_of_sortedRow (B : Csr α) (A : Csr α) (hAs : SortedDiag A) (hB : B.WF) (hn : B.rows = A.rows)
    (hval : B.val = Array.ofFn (n := B.colInd.size) fun j =>
      csrLookup A (rowOf B.rowPtr B.rows j.val) (B.colInd.getD j.val 0))
    (i : Nat) (hi : i < B.rows)
    (hs : ∀ k, B.rowBegin i ≤ k → k + 1 < B.rowEnd i → B.colInd.getD k 0 < B.colInd.getD (k + 1) 0)
    (k : Nat) (hk1 : B.rowBegin i ≤ k) (hk2 : k < B.rowEnd i) :
    B.entry i (B.colInd.getD k 0) = A.entry i (B.colInd.getD k 0) := by
  have hle := Csr.rowEnd_le hB hi
  rw [entry_eq_val_of_sortedRow B i hle hs k hk1 hk2, hval, getD_ofFn _ k (by omega)]
  have hr : rowOf B.rowPtr B.rows k = i := by
    apply rowOf_eq _ _ _ _ hi
    · intro i' hi'
      have := Csr.rowPtr_mono hB i (i' + 1) (by omega) (by omega)
      have hk1' : B.rowPtr.getD i 0 ≤ k := hk1
      omega
    · exact hk2
  show csrLookup A (rowOf B.rowPtr B.rows k) (B.colInd.getD k 0) = _
  rw [hr]
  exact hAs.csrLookup_eq (by omega) _

theorem copyDataCsrS_L (s : IluSym) (hs : s.wf = true) (hso : s.sorted = true) (A : Csr α)
    (hA : sortedDiag A = true) (hn : s.n = A.rows) (i : Nat) (hi : i < s.n) (k : Nat)
    (hk1 : s.rpL.getD i 0 ≤ k) (hk2 : k < s.rpL.getD (i + 1) 0) :
    (s.matL (copyDataCsrS s A)).entry i (s.ciL.getD k 0) = A.entry i (s.ciL.getD k 0) := by
  have hsz := copyDataCsrS_sizes s A
  simp only [IluSym.wf, Bool.and_eq_true, beq_iff_eq, List.all_eq_true, List.mem_range, List.mem_range'_1,
    decide_eq_true_eq, Array.all_eq_true] at hs
  obtain ⟨⟨⟨⟨⟨⟨⟨⟨h1, h2⟩, h3⟩, h4⟩, h5⟩, h6⟩, h7⟩, h8⟩, h9⟩ := hs
  simp only [IluSym.sorted, Bool.and_eq_true, List.all_eq_true, List.mem_range, List.mem_range'_1,
    decide_eq_true_eq] at hso
  have hcL : ∀ k, k < s.ciL.size → s.ciL.getD k 0 < s.n := by
    intro k hk
    have := h7 k hk
    simpa [Array.getD, hk] using this
  have hL : (s.matL (copyDataCsrS s A)).WF :=
    ⟨h1, h3, by show s.rpL.getD s.n 0 = (copyDataCsrS s A).dataL.size; rw [h5, hsz.1],
      by show s.ciL.size = (copyDataCsrS s A).dataL.size; rw [hsz.1], fun i hi => (h9 i hi).1.1.1, hcL⟩
  exact lookup_entry_of_sortedRow (s.matL (copyDataCsrS s A)) A (SortedDiag.of_bool hA) hL hn rfl i hi
    (fun k hk hk' => (hso i hi).1 k ⟨hk, by
      have : k + 1 < s.rpL.getD (i + 1) 0 := hk'
      omega⟩ hk') k hk1 hk2

theorem copyDataCsrS_U (s : IluSym) (hs : s.wf = true) (hso : s.sorted = true) (A : Csr α)
    (hA : sortedDiag A = true) (hn : s.n = A.rows) (i : Nat) (hi : i < s.n) (k : Nat)
    (hk1 : s.rpU.getD i 0 ≤ k) (hk2 : k < s.rpU.getD (i + 1) 0) :
    (s.matU (copyDataCsrS s A)).entry i (s.ciU.getD k 0) = A.entry i (s.ciU.getD k 0) := by
  have hsz := copyDataCsrS_sizes s A
  simp only [IluSym.wf, Bool.and_eq_true, beq_iff_eq, List.all_eq_true, List.mem_range, List.mem_range'_1,
    decide_eq_true_eq, Array.all_eq_true] at hs
  obtain ⟨⟨⟨⟨⟨⟨⟨⟨h1, h2⟩, h3⟩, h4⟩, h5⟩, h6⟩, h7⟩, h8⟩, h9⟩ := hs
  simp only [IluSym.sorted, Bool.and_eq_true, List.all_eq_true, List.mem_range, List.mem_range'_1,
    decide_eq_true_eq] at hso
  have hcU : ∀ k, k < s.ciU.size → s.ciU.getD k 0 < s.n := by
    intro k hk
    have := h8 k hk
    simpa [Array.getD, hk] using this
  have hU : (s.matU (copyDataCsrS s A)).WF :=
    ⟨h2, h4, by show s.rpU.getD s.n 0 = (copyDataCsrS s A).dataU.size; rw [h6, hsz.2.1],
      by show s.ciU.size = (copyDataCsrS s A).dataU.size; rw [hsz.2.1], fun i hi => (h9 i hi).1.1.2, hcU⟩
  exact lookup_entry_of_sortedRow (s.matU (copyDataCsrS s A)) A (SortedDiag.of_bool hA) hU hn rfl i hi
    (fun k hk hk' => (hso i hi).2 k ⟨hk, by
      have : k + 1 < s.rpU.getD (i + 1) 0 := hk'
      omega⟩ hk') k hk1 hk2

end FeatModel.Solver
