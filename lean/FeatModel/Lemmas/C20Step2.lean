import FeatModel.Lemmas.C20Step
/-! C20 helper lemmas, part 6: the remaining operations preserve the invariant -/
namespace FeatModel.Pool

theorem optIds_some (c : Cont) : optIds (some c) = c.ownIds := rfl

theorem inv_adopt {s s' : State} {a b : Nat} (hi : Inv s) (h : step s (.adopt a b) = .ok s') : Inv s' := by
  unfold step at h
  simp only at h
  split at h
  · cases h
  · rename_i cb hb
    split at h
    · cases h
    · rename_i hc
      simp only [Bool.or_eq_true, decide_eq_true_eq, not_or, Nat.not_le, Bool.not_eq_true] at hc
      obtain ⟨⟨ha, hs⟩, _⟩ := hc
      have hn := slot_none_ids hs
      split at h
      · injection h with h; subst h
        exact inv_setSlot (s := s) (p' := s.pool) hi ha
          (by rw [hn]; simp only [optIds, ownIds_empty]; exact Delta.refl _) hi.1
      · split at h
        · cases h
        · rename_i p1 hinc
          injection h with h; subst h
          obtain ⟨d1, hp1⟩ := delta_incr hinc hi.1
          refine inv_setSlot hi ha ?_ hp1
          rw [hn]
          refine d1.congr ?_ (fun j => rfl)
          intro j
          simp only [optIds, Cont.ownIds, Cont.owned, Cont.empty, idsOf_append, idsOf_cons, idsOf_nil,
            List.count_append, List.count_nil, Bool.false_eq_true, if_false]
          omega

theorem inv_range {s s' : State} {a b n off : Nat} (hi : Inv s) (h : step s (.range a b n off) = .ok s') : Inv s' := by
  unfold step at h
  simp only at h
  split at h
  · cases h
  · rename_i cb hb
    split at h
    · cases h
    · rename_i hc
      simp only [Bool.or_eq_true, decide_eq_true_eq, not_or, Nat.not_le, Bool.not_eq_true] at hc
      obtain ⟨⟨ha, hs⟩, _⟩ := hc
      have hn := slot_none_ids hs
      split at h
      · split at h
        · cases h
        · injection h with h; subst h
          exact inv_setSlot (s := s) (p' := s.pool) hi ha
            (by rw [hn, optIds_some, ownIds_foreign _ rfl]; exact Delta.refl _) hi.1
      · split at h
        · cases h
        · injection h with h; subst h
          exact inv_setSlot (s := s) (p' := s.pool) hi ha
            (by rw [hn, optIds_some, ownIds_foreign _ rfl]; exact Delta.refl _) hi.1

theorem inv_clear {s s' : State} {a : Nat} (hi : Inv s) (h : step s (.clear a) = .ok s') : Inv s' := by
  unfold step at h
  simp only at h
  split at h
  · cases h
  · rename_i ca hsa
    split at h
    · cases h
    · rename_i p1 c1 hcl
      injection h with h; subst h
      obtain ⟨d, hp⟩ := delta_clear hcl hi.1
      refine inv_setSlot hi (slot_lt hsa) ?_ hp
      rw [hsa]; exact d

theorem inv_destroy {s s' : State} {a : Nat} (hi : Inv s) (h : step s (.destroy a) = .ok s') : Inv s' := by
  unfold step at h
  simp only at h
  split at h
  · cases h
  · rename_i ca hsa
    split at h
    · cases h
    · rename_i p1 hr
      injection h with h; subst h
      obtain ⟨d, hp⟩ := delta_releaseOwn hr hi.1
      refine inv_setSlot hi (slot_lt hsa) ?_ hp
      rw [hsa]; exact d

theorem inv_format {s s' : State} {a : Nat} {v : Int} (hi : Inv s) (h : step s (.format a v) = .ok s') : Inv s' := by
  unfold step at h
  simp only at h
  split at h
  · cases h
  · rename_i ca hsa
    injection h with h; subst h
    obtain ⟨d, hp⟩ := delta_formatArrs (ca.elems.zip ca.elemsSize) s.pool v hi.1
    exact inv_pool hi d hp

theorem inv_write {s s' : State} {a w j i : Nat} {v : Int} (hi : Inv s)
    (h : step s (.write a w j i v) = .ok s') : Inv s' := by
  unfold step at h
  simp only at h
  split at h
  · cases h
  · rename_i ca hsa
    split at h
    · split at h
      · cases h
      · injection h with h; subst h
        refine inv_pool hi ?_ (pos_writeArr _ _ _ hi.1)
        intro k; rw [count_writeArr]
    · cases h

theorem inv_ldrop {s s' : State} {l : Nat} (hi : Inv s) (h : step s (.ldrop l) = .ok s') : Inv s' := by
  unfold step at h
  simp only at h
  split at h
  · cases h
  · rename_i L hL
    split at h
    · cases h
    · rename_i p1 hr
      injection h with h; subst h
      obtain ⟨d, hp⟩ := delta_releaseAll hr hi.1
      refine inv_setLay hi (lay_lt hL) ?_ hp
      rw [hL]; exact d

end FeatModel.Pool
