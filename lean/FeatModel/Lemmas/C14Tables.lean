import FeatModel.Lemmas.C14Basic
import FeatModel.Lemmas.C14TabS1
import FeatModel.Lemmas.C14TabS3
import FeatModel.Lemmas.C14TabH1
import FeatModel.Lemmas.C14TabS2a
import FeatModel.Lemmas.C14TabS2b
import FeatModel.Lemmas.C14TabS2c
import FeatModel.Lemmas.C14TabH2a
import FeatModel.Lemmas.C14TabH2b
import FeatModel.Lemmas.C14TabH2c
import FeatModel.Lemmas.C14TabH3a
import FeatModel.Lemmas.C14TabH3b
import FeatModel.Lemmas.C14TabH3c
/-! C14: all generated tables meet their obligation (slices recombined) -/
namespace FeatModel.Cub

theorem all_of_take_drop {α : Type} (l : List α) (p : α → Bool) (a : Nat)
    (h1 : (l.take a).all p = true) (h2 : (l.drop a).all p = true) : l.all p = true := by
  have := List.take_append_drop a l
  rw [← this, List.all_append, h1, h2]; rfl

theorem tabS2 : Gen.tablesS2.all (tableObligation .s2) = true := by
  apply all_of_take_drop _ _ 22 tabS2a
  apply all_of_take_drop _ _ 4 tabS2b
  have h := tabS2c
  rw [List.drop_drop] at *
  simpa using h

theorem tabH2 : Gen.tablesH2.all (tableObligation .h2) = true := by
  apply all_of_take_drop _ _ 8 tabH2a
  apply all_of_take_drop _ _ 2 tabH2b
  have h := tabH2c
  rw [List.drop_drop] at *
  simpa using h

theorem tabH3 : Gen.tablesH3.all (tableObligation .h3) = true := by
  apply all_of_take_drop _ _ 5 tabH3a
  apply all_of_take_drop _ _ 8 tabH3b
  have h := tabH3c
  rw [List.drop_drop] at *
  simpa using h

end FeatModel.Cub
