import FeatModel.Gen.CubatureS3
/-! C14: every generated table of shape s3 meets its obligation (kernel evaluation of the integer moment check) -/
namespace FeatModel.Cub

set_option maxRecDepth 100000 in
theorem tabS3 : Gen.tablesS3.all (tableObligation .s3) = true := by decide +kernel

end FeatModel.Cub
