import FeatModel.Model.DA.Fence
/-
C17: repeated jobs on one assembler.  The reset loop at the top of `assemble()` closes every persisted fence, so
every job starts in the initial state of its protocol machine and all single-job theorems carry over.
-/
namespace FeatModel.DA

/-! ## the reset loop -/

theorem rep_set_step (fs : List Bool) (k : Nat) (hk : k < fs.length) :
    (List.replicate k false ++ fs.drop k).set k false = List.replicate (k + 1) false ++ fs.drop (k + 1) := by
  apply List.ext_getElem?
  intro i
  simp only [List.getElem?_set, List.getElem?_append, List.getElem?_replicate, List.getElem?_drop,
    List.length_append, List.length_replicate, List.length_drop]
  by_cases h1 : k = i
  · subst h1
    simp
    omega
  · by_cases h2 : i < k
    · simp [h1, h2, show i < k + 1 by omega]
    · have h3 : ¬ i < k + 1 := by omega
      simp only [h1, h2, h3, if_false]
      congr 1
      omega

theorem rep_foldl (fs : List Bool) :
    ∀ k, k ≤ fs.length → (List.range k).foldl resetStep fs = List.replicate k false ++ fs.drop k := by
  intro k
  induction k with
  | zero => intro _; simp
  | succ k ih =>
    intro hk
    rw [List.range_succ, List.foldl_append, ih (by omega)]
    simp only [List.foldl_cons, List.foldl_nil, resetStep]
    exact rep_set_step fs k (by omega)

/-- the reset loop closes every fence, whatever state the previous job left -/
theorem resetAll_eq (fs : List Bool) : resetAll fs = List.replicate fs.length false := by
  unfold resetAll
  rw [rep_foldl fs fs.length (Nat.le_refl _)]
  simp

theorem fenceFn_resetAll (fs : List Bool) : fenceFn (resetAll fs) = fun _ => false := by
  funext f
  rw [resetAll_eq]
  simp only [fenceFn, List.getD_eq_getElem?_getD, List.getElem?_replicate]
  split <;> rfl

/-! ## every job starts in the initial state of its protocol machine -/

/-- hence every job starts in the initial state of its protocol machine -/
theorem LCfg.startJob_eq (c : LCfg) (fs : List Bool) : c.startJob fs = c.init := by
  simp only [LCfg.startJob, LCfg.initFrom, fenceFn_resetAll]
  rfl

theorem CCfg.startJob_eq (c : CCfg) (fs : List Bool) : c.startJob fs = c.init := by
  simp only [CCfg.startJob, CCfg.initFrom, fenceFn_resetAll]
  rfl

theorem NCfg.startJob_eq (c : NCfg) (fs : List Bool) : c.startJob fs = c.init := by
  simp only [NCfg.startJob, NCfg.initFrom, fenceFn_resetAll]
  rfl

/-! ## reachability inside a job = reachability of the protocol machine -/

theorem rep_L_reachFrom_init (c : LCfg) (s : LSt) : c.ReachFrom c.init s ↔ c.Reach s := by
  constructor
  · intro h
    induction h with
    | start => exact .init
    | step e _ hst ih => exact .step e ih hst
  · intro h
    induction h with
    | init => exact .start
    | step e _ hst ih => exact .step e ih hst

theorem rep_C_reachFrom_init (c : CCfg) (s : CSt) : c.ReachFrom c.init s ↔ c.Reach s := by
  constructor
  · intro h
    induction h with
    | start => exact .init
    | step e _ hst ih => exact .step e ih hst
  · intro h
    induction h with
    | init => exact .start
    | step e _ hst ih => exact .step e ih hst

theorem rep_N_reachFrom_init (c : NCfg) (s : NSt) : c.ReachFrom c.init s ↔ c.Reach s := by
  constructor
  · intro h
    induction h with
    | start => exact .init
    | step e _ hst ih => exact .step e ih hst
  · intro h
    induction h with
    | init => exact .start
    | step e _ hst ih => exact .step e ih hst

/-- reachability inside a job = reachability of the protocol machine -/
theorem LCfg.reachFrom_startJob (c : LCfg) (fs : List Bool) (s : LSt) :
    c.ReachFrom (c.startJob fs) s ↔ c.Reach s := by
  rw [LCfg.startJob_eq]; exact rep_L_reachFrom_init c s

theorem CCfg.reachFrom_startJob (c : CCfg) (fs : List Bool) (s : CSt) :
    c.ReachFrom (c.startJob fs) s ↔ c.Reach s := by
  rw [CCfg.startJob_eq]; exact rep_C_reachFrom_init c s

theorem NCfg.reachFrom_startJob (c : NCfg) (fs : List Bool) (s : NSt) :
    c.ReachFrom (c.startJob fs) s ↔ c.Reach s := by
  rw [NCfg.startJob_eq]; exact rep_N_reachFrom_init c s

/-! ## the fence vector across jobs -/

theorem rep_persist_length (n : Nat) (f : Nat → Bool) : (persist n f).length = n := by
  simp [persist]

theorem rep_leaves_length {j : Job} {fs fs' : List Bool} (h : j.leaves fs fs') : fs'.length = fs.length := by
  cases j with
  | layered c =>
    obtain ⟨s, _, _, rfl⟩ := h
    exact rep_persist_length _ _
  | colored c =>
    obtain ⟨s, _, _, rfl⟩ := h
    exact rep_persist_length _ _
  | nosc c =>
    obtain ⟨s, _, _, rfl⟩ := h
    rw [List.length_set, resetAll_eq, List.length_replicate]

/-- the fence vector keeps its length through any sequence of jobs -/
theorem Session.length {nF : Nat} {fs : List Bool} (h : Session nF fs) : fs.length = nF := by
  induction h with
  | compiled => exact List.length_replicate
  | job j _ hl ih => rw [rep_leaves_length hl, ih]

/-- a stale open fence is NOT harmless without the reset: witness that `initFrom` of a vector with an open worker
fence differs from `init` (so the reset is what the theorems rest on) -/
theorem LCfg.initFrom_stale (c : LCfg) : c.initFrom [false, false, true] ≠ c.init := by
  intro h
  have h2 := congrArg (fun s => s.fence 2) h
  simp [LCfg.initFrom, LCfg.init, fenceFn] at h2

end FeatModel.DA
