import FeatModel.Lemmas.C05Text
/-! helper lemmas for C05, text modes, part C: dense vector / dense matrix / sparse vector round trips -/
namespace FeatModel.TextIO

variable {α : Type}

theorem map_parseVal_pr (pr : α → String) (rd : String → α) (hp : ∀ v, NoBlank (pr v).toList) (vals : List α) :
    (vals.map pr).map (parseVal rd) = vals.map fun v => rd (pr v) := by
  rw [List.map_map]
  apply List.map_congr_left
  intro v _
  exact parseVal_pr pr rd v (hp v)

theorem dv_mtx_roundtrip (pr : α → String) (rd : String → α) (hp : ∀ v, NoBlank (pr v).toList) (vals : List α) :
    dvMtxRead rd (dvMtxWrite pr vals) = some (vals.map fun v => rd (pr v)) := by
  have hh := mtxHeader_ok arrayBanner (sizeLine2 vals.length 1) (vals.map pr) vals.length (' ' :: natChars 1)
    (by simp [sizeLine2, String.toList_ofList])
  simp only [dvMtxRead, dvMtxWrite, List.cons_append, List.nil_append, hh, parseSize2_sizeLine2,
    List.length_map, ne_eq, not_true_eq_false, if_false, map_parseVal_pr pr rd hp]

theorem dm_mtx_roundtrip (pr : α → String) (rd : String → α) (hp : ∀ v, NoBlank (pr v).toList)
    (r c : Nat) (vals : List α) (hr : r ≠ 0) (hc : c ≠ 0) (hl : vals.length = r * c) :
    dmMtxRead rd (dmMtxWrite pr r c vals) = some (r, c, vals.map fun v => rd (pr v)) := by
  have hh := mtxHeader_ok arrayBanner (sizeLine3 r c (r * c)) (vals.map pr) r
    (' ' :: (natChars c ++ ' ' :: natChars (r * c))) (by simp [sizeLine3, String.toList_ofList])
  simp only [dmMtxRead, dmMtxWrite, List.cons_append, List.nil_append, hh, parseSize2_sizeLine3,
    List.length_map, hl, hr, hc, or_self, ne_eq, not_true_eq_false, if_false, map_parseVal_pr pr rd hp]

theorem exp_roundtrip (pr : α → String) (rd : String → α) (hp : ∀ v, NoBlank (pr v).toList)
    (hh : ∀ v, (pr v).toList.contains '#' = false) (vals : List α) :
    expRead rd (expWrite pr vals) = vals.map fun v => rd (pr v) := by
  have hf : (vals.map pr).filter (fun l => !l.toList.contains '#') = vals.map pr := by
    apply List.filter_eq_self.mpr
    intro l hl
    obtain ⟨v, _, rfl⟩ := List.mem_map.mp hl
    rw [hh v]
    rfl
  simp only [expRead, expWrite, hf, List.map_map]
  apply List.map_congr_left
  intro v _
  simp only [Function.comp, dropWhile_blank_noBlank _ (hp v), String.ofList_toList]

theorem sv_mtx_roundtrip (pr : α → String) (rd : String → α) (hp : ∀ v, NoBlank (pr v).toList)
    (size : Nat) : ∀ (idx : List Nat) (vals : List α), idx.length = vals.length →
    svMtxRead rd (svMtxWrite pr size idx vals) = some (size, idx, vals.map fun v => rd (pr v)) := by
  intro idx vals hl
  have hh := mtxHeader_ok coordBanner (sizeLine3 size 1 vals.length)
    ((idx.zip vals).map fun (i, v) => fmtEntry pr (i + 1) 1 v) size
    (' ' :: (natChars 1 ++ ' ' :: natChars vals.length)) (by simp [sizeLine3, String.toList_ofList])
  have hz : (idx.zip vals).length = vals.length := by simp [List.length_zip, hl]
  have h1 : ((idx.zip vals).map fun (i, v) => fmtEntry pr (i + 1) 1 v).map (fun l => (parseEntry rd l).1)
      = idx := by
    rw [List.map_map]
    have : ∀ p ∈ idx.zip vals, ((fun l => (parseEntry rd l).1) ∘ fun (x : Nat × α) => fmtEntry pr (x.1 + 1) 1 x.2) p
        = p.1 := by
      intro p _
      simp [parseEntry_fmtEntry pr rd _ _ _ (hp p.2)]
    rw [List.map_congr_left this]
    exact List.map_fst_zip (by omega)
  have h2 : ((idx.zip vals).map fun (i, v) => fmtEntry pr (i + 1) 1 v).map (fun l => (parseEntry rd l).2.2)
      = vals.map fun v => rd (pr v) := by
    rw [List.map_map]
    have : ∀ p ∈ idx.zip vals, ((fun l => (parseEntry rd l).2.2) ∘ fun (x : Nat × α) => fmtEntry pr (x.1 + 1) 1 x.2) p
        = rd (pr p.2) := by
      intro p _
      simp [parseEntry_fmtEntry pr rd _ _ _ (hp p.2)]
    rw [List.map_congr_left this]
    have : (idx.zip vals).map (fun p => rd (pr p.2)) = ((idx.zip vals).map (·.2)).map fun v => rd (pr v) := by
      rw [List.map_map]; rfl
    rw [this, List.map_snd_zip (by omega)]
  simp only [svMtxRead, svMtxWrite, List.cons_append, List.nil_append, hh, parseSize3_sizeLine3,
    List.length_map, hz, ne_eq, not_true_eq_false, if_false, h1, h2]

end FeatModel.TextIO
