import FeatModel.Lemmas.C17ErrColored
import FeatModel.Lemmas.C17TermColored
/-
C17 (extension): the error path of the coloured barrier protocol, completed:
full safety of the scatter phase (colour and share), mutual exclusion of `combine()` among non-failing workers,
and termination by a variant function that decreases with every transition of `CCfg.estep`.
-/
set_option linter.unusedVariables false
set_option linter.unusedSimpArgs false

namespace FeatModel.DA

/-! ## mutual exclusion of `combine()` -/

/-- combine stays mutually exclusive among non-failing workers -/
theorem colored_err_combine_mutex (c : CCfg) (s : CESt) (hs : c.EReach s) (a b : Nat)
    (ha : 1 ≤ a ∧ a ≤ c.n) (hb : 1 ≤ b ∧ b ≤ c.n)
    (hA : s.base.ph a = .inComb ∧ s.failing a = false) (hB : s.base.ph b = .inComb ∧ s.failing b = false) : a = b :=
  (ECMInv.reach hs).uniq a b hA.1 hA.2 hB.1 hB.2

/-! ## position bounds -/

/-- a worker before / inside a scatter is inside its own share of its colour -/
def ec2_PInv (c : CCfg) (s : CESt) : Prop :=
  ∀ w, 1 ≤ w → s.base.ph w = .idle ∨ s.base.ph w = .insc →
    c.cbeg (s.base.col w) w ≤ s.base.pos w ∧ s.base.pos w < c.cend (s.base.col w) w

theorem ec2_PInv_init (c : CCfg) : ec2_PInv c c.einit := by
  intro w hw
  simp only [CCfg.einit, CCfg.init]
  split <;> (try split) <;> simp

theorem ec2_PInv_step {c : CCfg} {s s' : CESt} (h : ec2_PInv c s) (tr : ECTr c s s') : ec2_PInv c s' := by
  cases tr
  all_goals
    intro w hw
    have := h w hw
    grind [updP, upd, CCfg.afterElem]

theorem ec2_PInv_reach {c : CCfg} {s : CESt} (hs : c.EReach s) : ec2_PInv c s :=
  ec_reach_induct (ec2_PInv_init c) (fun _ _ h tr => ec2_PInv_step h tr) hs

/-- full safety on the error path: same colour AND each inside its own share -/
theorem colored_err_safe_full (c : CCfg) (hn : 1 ≤ c.n) (s : CESt) (hs : c.EReach s) (a b : Nat)
    (ha : 1 ≤ a ∧ a ≤ c.n) (hb : 1 ≤ b ∧ b ≤ c.n)
    (hA : s.base.ph a = .insc ∧ s.failing a = false) (hB : s.base.ph b = .insc ∧ s.failing b = false) :
    s.base.col a = s.base.col b ∧ c.cbeg (s.base.col a) a ≤ s.base.pos a ∧ s.base.pos a < c.cend (s.base.col a) a :=
  ⟨colored_err_safe c hn s hs a b ha hb hA hB, ec2_PInv_reach hs a ha.1 (.inr hA.1)⟩

/-! ## termination -/

/-- run a list of events of the extended machine -/
def CCfg.erun (c : CCfg) : CESt → List EEv → Option CESt
  | s, [] => some s
  | s, e :: es => match c.estep s e with | some s' => CCfg.erun c s' es | none => none

/-- a failing worker has not terminated yet -/
def ec2_FInv (c : CCfg) (s : CESt) : Prop :=
  ∀ t, s.failing t = true → s.base.ph t ≠ .done ∧ s.base.ph t ≠ .ready

theorem ec2_FInv_init (c : CCfg) : ec2_FInv c c.einit := by
  intro t ht
  simp [CCfg.einit] at ht

theorem ec2_FInv_step {c : CCfg} {s s' : CESt} (h : ec2_FInv c s) (tr : ECTr c s s') : ec2_FInv c s' := by
  cases tr
  all_goals
    intro w
    have := h w
    grind [updP, updB, CCfg.afterElem]

theorem ec2_FInv_reach {c : CCfg} {s : CESt} (hs : c.EReach s) : ec2_FInv c s :=
  ec_reach_induct (ec2_FInv_init c) (fun _ _ h tr => ec2_FInv_step h tr) hs

/-- the variant: twice the remaining normal work (`CCfg.measure` of the base state: master rounds + the steps of
every worker), plus one for every worker that has not yet left its work function through the error path
(`fail` / `fwaitF` cost 1; the final `open(false)` of a failing worker gives back 1 but removes the
worker's remaining normal work, which is at least 1) -/
def CCfg.emeasure (c : CCfg) (s : CESt) : Nat :=
  2 * c.measure s.base + ct_sumW (fun w => if s.failing w = true then 0 else 1) c.n

theorem ec2_sumW_le {f g : Nat → Nat} {n t k : Nat} (h : ∀ w, w ≠ t → g w = f w) (ht : g t ≤ f t + k) :
    ct_sumW g n ≤ ct_sumW f n + k := by
  induction n with
  | zero => simp [ct_sumW]
  | succ n ih =>
    simp only [ct_sumW]
    by_cases htn : n + 1 = t
    · subst htn
      have := ct_sumW_congr (f := g) (g := f) (n := n) (fun w a b => h w (by omega))
      omega
    · have := h (n + 1) htn
      omega

theorem ec2_dec_base {c : CCfg} {s s' : CESt} (hf : s'.failing = s.failing)
    (hb : c.measure s'.base < c.measure s.base) : c.emeasure s' < c.emeasure s := by
  unfold CCfg.emeasure
  rw [hf]
  omega

theorem ec2_dec_fail {c : CCfg} {s s' : CESt} (t : Nat) (h1 : 1 ≤ t) (h2 : t ≤ c.n)
    (hfl : s.failing t = false) (hf : s'.failing = updB s.failing t true)
    (hb : c.measure s'.base = c.measure s.base) : c.emeasure s' < c.emeasure s := by
  unfold CCfg.emeasure
  rw [hf, hb]
  have := ct_sumW_lt (f := fun w => if updB s.failing t true w = true then 0 else 1)
    (g := fun w => if s.failing w = true then 0 else 1) (n := c.n) h1 h2
    (fun w _ _ hne => by simp [updB, hne]) (by simp [updB, hfl])
  omega

theorem ec2_tr_decreases {c : CCfg} (hn : 1 ≤ c.n) {s s' : CESt} (hF : ec2_FInv c s) (tr : ECTr c s s') :
    c.emeasure s' < c.emeasure s := by
  cases tr
  case openFront g0 => exact ec2_dec_base rfl (ct_tr_decreases hn (.openFront g0))
  case wait1 g0 g1 g2 => exact ec2_dec_base rfl (ct_tr_decreases hn (.wait1 g0 g1))
  case wait2 g0 g1 g2 => exact ec2_dec_base rfl (ct_tr_decreases hn (.wait2 g0 g1))
  case close1a g0 g1 => exact ec2_dec_base rfl (ct_tr_decreases hn (.close1a g0 g1))
  case close1b g0 g1 => exact ec2_dec_base rfl (ct_tr_decreases hn (.close1b g0 g1))
  case close2a g0 g1 => exact ec2_dec_base rfl (ct_tr_decreases hn (.close2a g0 g1))
  case close2b g0 g1 => exact ec2_dec_base rfl (ct_tr_decreases hn (.close2b g0 g1))
  case closeFront g0 => exact ec2_dec_base rfl (ct_tr_decreases hn (.closeFront g0))
  case openBack g0 g1 => exact ec2_dec_base rfl (ct_tr_decreases hn (.openBack g0))
  case closeBack g0 => exact ec2_dec_base rfl (ct_tr_decreases hn (.closeBack g0))
  case join g0 g1 => exact ec2_dec_base rfl (ct_tr_decreases hn (.join g0 g1))
  case wfront t g0 g1 g2 g3 g4 g5 => exact ec2_dec_base rfl (ct_tr_decreases hn (.wfront t g0 g1 g3 g4))
  case wenter t g0 g1 g2 g3 => exact ec2_dec_base rfl (ct_tr_decreases hn (.wenter t g0 g1 g3))
  case wleave t g0 g1 g2 g3 => exact ec2_dec_base rfl (ct_tr_decreases hn (.wleave t g0 g1 g3))
  case wopen t g0 g1 g2 g3 => exact ec2_dec_base rfl (ct_tr_decreases hn (.wopen t g0 g1 g3))
  case wback t g0 g1 g2 g3 g4 g5 => exact ec2_dec_base rfl (ct_tr_decreases hn (.wback t g0 g1 g3 g4))
  case wopen2 t g0 g1 g2 g3 => exact ec2_dec_base rfl (ct_tr_decreases hn (.wopen2 t g0 g1 g3))
  case wcenter t g0 g1 g2 g3 g4 => exact ec2_dec_base rfl (ct_tr_decreases hn (.wcenter t g0 g1 g3 g4))
  case wcleave t g0 g1 g2 g3 => exact ec2_dec_base rfl (ct_tr_decreases hn (.wcleave t g0 g1 g3))
  case mwaitF1 g0 g1 g2 => exact ec2_dec_base rfl (ct_tr_decreases hn (.wait1 g0 g1))
  case mwaitF2 g0 g1 g2 => exact ec2_dec_base rfl (ct_tr_decreases hn (.wait2 g0 g1))
  case wwaitFf t g0 g1 g2 g3 g4 g5 => exact ec2_dec_fail t g0 g1 g2 rfl rfl
  case wwaitFb t g0 g1 g2 g3 g4 g5 => exact ec2_dec_fail t g0 g1 g2 rfl rfl
  case wfail t g0 g1 g2 g3 => exact ec2_dec_fail t g0 g1 g2 rfl rfl
  case wfailC t g0 g1 g2 g3 => exact ec2_dec_fail t g0 g1 g2 rfl rfl
  case mfopenF g0 g1 =>
    refine ec2_dec_base rfl (ct_master_step (fun _ _ => rfl) ?_)
    simp only [ct_mm, g0]
    omega
  case wfopenF t g0 g1 g2 =>
    obtain ⟨hd, hr⟩ := hF t g2
    have hb : c.measure { s.base with fence := updB s.base.fence t true, ph := updP s.base.ph t .done } <
        c.measure s.base := by
      refine ct_worker_step t g0 g1 rfl (fun w hne => ?_) ?_
      · simp [ct_wm, updP, hne]
      · simp only [ct_wm, updP, if_true]
        cases hp : s.base.ph t <;> simp_all <;> omega
    unfold CCfg.emeasure
    have := ec2_sumW_le (f := fun w => if s.failing w = true then 0 else 1)
      (g := fun w => if updB s.failing t false w = true then 0 else 1) (n := c.n) (t := t) (k := 1)
      (fun w hne => by simp [updB, hne]) (by simp [updB])
    show 2 * c.measure { s.base with fence := updB s.base.fence t true, ph := updP s.base.ph t .done } +
      ct_sumW (fun w => if updB s.failing t false w = true then 0 else 1) c.n < _
    omega

/-- termination with failures: the variant decreases with every transition -/
theorem colored_err_variant_decreases (c : CCfg) (hn : 1 ≤ c.n) (s : CESt) (hs : c.EReach s) (e : EEv) (s' : CESt)
    (h : c.estep s e = some s') : c.emeasure s' < c.emeasure s :=
  ec2_tr_decreases hn (ec2_FInv_reach hs) (ECTr.of_estep h)

/-- no run from `s` is longer than the measure of `s` -/
theorem colored_err_runs_bounded (c : CCfg) (hn : 1 ≤ c.n) (s : CESt) (hs : c.EReach s) (es : List EEv) (s' : CESt)
    (h : c.erun s es = some s') : es.length + c.emeasure s' ≤ c.emeasure s := by
  induction es generalizing s with
  | nil =>
    simp only [CCfg.erun, Option.some.injEq] at h
    subst h
    simp
  | cons e es ih =>
    simp only [CCfg.erun] at h
    split at h
    next s1 h1 =>
      have := ih s1 (.step e hs h1) h
      have := colored_err_variant_decreases c hn s hs e s1 h1
      simp only [List.length_cons]
      omega
    next => simp at h

/-- a state without enabled transition is final -/
theorem colored_err_maximal_run_final (c : CCfg) (hn : 1 ≤ c.n) (s : CESt) (hs : c.EReach s)
    (hmax : ∀ e, c.estep s e = none) : CCfg.efinal s = true := by
  cases hf : CCfg.efinal s
  · obtain ⟨e, s', h⟩ := colored_err_no_deadlock c hn s hs hf
    rw [hmax e] at h
    simp at h
  · rfl

theorem ec2_terminates_aux (c : CCfg) (hn : 1 ≤ c.n) (m : Nat) :
    ∀ s, c.EReach s → c.emeasure s ≤ m → ∃ es s', c.erun s es = some s' ∧ CCfg.efinal s' = true := by
  induction m with
  | zero =>
    intro s hs hm
    cases hf : CCfg.efinal s
    · obtain ⟨e, s', h⟩ := colored_err_no_deadlock c hn s hs hf
      have := colored_err_variant_decreases c hn s hs e s' h
      omega
    · exact ⟨[], s, rfl, hf⟩
  | succ m ih =>
    intro s hs hm
    cases hf : CCfg.efinal s
    · obtain ⟨e, s1, h⟩ := colored_err_no_deadlock c hn s hs hf
      have := colored_err_variant_decreases c hn s hs e s1 h
      obtain ⟨es, s', hr, hfin⟩ := ih s1 (.step e hs h) (by omega)
      exact ⟨e :: es, s', by simp only [CCfg.erun, h]; exact hr, hfin⟩
    · exact ⟨[], s, rfl, hf⟩

/-- from every reachable state of the extended machine some run reaches a final state -/
theorem colored_err_terminates (c : CCfg) (hn : 1 ≤ c.n) (s : CESt) (hs : c.EReach s) :
    ∃ es s', c.erun s es = some s' ∧ CCfg.efinal s' = true :=
  ec2_terminates_aux c hn (c.emeasure s) s hs (Nat.le_refl _)

end FeatModel.DA
