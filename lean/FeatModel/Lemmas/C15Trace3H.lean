import FeatModel.Lemmas.C15Trace3HL1
import FeatModel.Lemmas.C15Trace3HL2a
import FeatModel.Lemmas.C15Trace3HL2b
import FeatModel.Lemmas.C15Trace3HL2c
import FeatModel.Lemmas.C15Trace3HB2a
import FeatModel.Lemmas.C15Trace3HB2b
import FeatModel.Lemmas.C15Trace3HB2c
/-! trace conformity on the hexahedron, assembled from the per-family / per-face modules (which build in parallel) -/
namespace FeatModel.FE

theorem traceAll3_split (f : Fam) (h0 : traceFaces3 f .H [0, 1] = true) (h1 : traceFaces3 f .H [2, 3] = true)
    (h2 : traceFaces3 f .H [4, 5] = true) : traceAll3 f .H = true := by
  have hr : List.range (numFaces Kind.H 3 2) = [0, 1] ++ [2, 3] ++ [4, 5] := by decide
  simp only [traceAll3, traceFaces3, hr, List.all_append, Bool.and_eq_true] at h0 h1 h2 ⊢
  exact ⟨⟨h0, h1⟩, h2⟩

theorem trace3H : ([(Fam.L1, Kind.H), (.L2, .H), (.B2, .H)] : List (Fam × Kind)).all
    (fun key => traceAll3 key.1 key.2) = true := by
  simp only [List.all_cons, List.all_nil, Bool.and_true, trace3H_L1,
    traceAll3_split .L2 trace3H_L2_0 trace3H_L2_1 trace3H_L2_2,
    traceAll3_split .B2 trace3H_B2_0 trace3H_B2_1 trace3H_B2_2, Bool.and_self]

end FeatModel.FE
