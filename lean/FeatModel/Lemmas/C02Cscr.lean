/-
C02: the CSR <-> CSCR conversions (`Csr.toCscr`, `Cscr.toCsr`) preserve the dense meaning, for all sizes.
No algebraic laws on the scalars are used: both sides are the same fold.
-/
import FeatModel.Lemmas.C02Permute
import FeatModel.Model.LA.Chain
import FeatModel.Lemmas.C02Transpose
open FeatModel FeatModel.LA

namespace C02L
namespace CscrAux
open PermuteAux

variable {α : Type}

/-- the fold of `entry` over one stored row, started from any accumulator -/
theorem foldRange_rowFold [Zero α] [Add α] (C : Csr α) (i j : Nat) (s : α) (h : C.rowEnd i ≤ C.colInd.size) :
    foldRange (C.rowBegin i) (C.rowEnd i) (fun s k => if C.colInd.getD k C.cols = j then s + C.val.getD k 0 else s) s
      = rowFold j (C.rowList i) s := by
  unfold Csr.rowList rowFold foldRange
  rw [List.foldl_map]
  apply List.foldl_ext
  intro s k hk
  have hk' : k < C.colInd.size := by
    rw [List.mem_range'_1] at hk; omega
  simp [Array.getD, hk']

theorem foldl_if_eq {β : Type} (R : β → β) (i : Nat) : ∀ (l : List Nat) (init : β), l.Nodup →
    l.foldl (fun s u => if u = i then R s else s) init = if i ∈ l then R init else init := by
  intro l
  induction l with
  | nil => intro init _; simp
  | cons x xs ih =>
    intro init hnd
    have hnd' := List.nodup_cons.1 hnd
    rw [List.foldl_cons]
    by_cases hx : x = i
    · subst hx
      rw [if_pos rfl, ih _ hnd'.2, if_neg hnd'.1, if_pos (List.mem_cons_self ..)]
    · rw [if_neg hx, ih _ hnd'.2]
      have : i ∈ x :: xs ↔ i ∈ xs := by
        rw [List.mem_cons]
        constructor
        · rintro (h | h)
          · exact absurd h.symm hx
          · exact h
        · exact Or.inr
      simp only [this]

theorem foldl_range_getD {β : Type} (l : List Nat) (d : Nat) (h : β → Nat → β) (init : β) :
    (List.range l.length).foldl (fun s nz => h s (l.toArray.getD nz d)) init = l.foldl h init := by
  have e : (List.range l.length).map (fun nz => l.toArray.getD nz d) = l := by
    apply List.ext_getElem
    · simp
    · intro k h1 h2
      simp [Array.getD, h2]
  conv => rhs; rw [← e]
  rw [List.foldl_map]

/-- a strictly increasing sequence grows at least by one per step -/
theorem strict_gap (f : Nat → Nat) (n : Nat) (h : ∀ k, k + 1 < n → f k < f (k + 1)) :
    ∀ k i, i ≤ k → k < n → f i + (k - i) ≤ f k
  | 0, i, hik, _ => by
    have : i = 0 := by omega
    subst this; simp
  | k + 1, i, hik, hk => by
    rcases Nat.lt_or_ge i (k + 1) with hlt | hge
    · have h1 := strict_gap f n h k i (by omega) (by omega)
      have h2 := h k hk
      omega
    · have : i = k + 1 := by omega
      subst this; simp

/-! ### the compressed rows of a CSCR matrix, seen as a CSR matrix with `usedRows` rows -/

/-- the compressed rows of a CSCR matrix as a CSR matrix with `usedRows` rows -/
def core (A : Cscr α) : Csr α := ⟨A.usedRows, A.cols, A.rowPtr, A.colInd, A.val⟩

theorem core_wf {A : Cscr α} (h : A.wf = true) : (core A).wf = true := by
  simp only [Cscr.wf, Bool.and_eq_true] at h
  obtain ⟨⟨⟨⟨⟨⟨⟨h1, h2⟩, h3⟩, h4⟩, h5⟩, h6⟩, _⟩, _⟩ := h
  simp only [Csr.wf, Bool.and_eq_true]
  exact ⟨⟨⟨⟨⟨h1, h2⟩, h3⟩, h4⟩, h5⟩, h6⟩

theorem core_sorted (A : Cscr α) : (core A).sortedRows = A.sortedRows := rfl

theorem findRow_some {A : Cscr α} {i k : Nat} (h : A.findRow i = some k) :
    k < A.usedRows ∧ A.rowNumbers.getD k A.rows = i := by
  unfold Cscr.findRow at h
  have h1 := List.mem_of_find?_eq_some h
  have h2 := List.find?_some h
  exact ⟨List.mem_range.1 h1, by simpa using h2⟩

theorem findRow_none {A : Cscr α} {i : Nat} (h : A.findRow i = none) :
    ∀ k, k < A.usedRows → A.rowNumbers.getD k A.rows ≠ i := by
  unfold Cscr.findRow at h
  rw [List.find?_eq_none] at h
  intro k hk
  have := h k (List.mem_range.2 hk)
  simpa using this

/-- the row numbers of a well-formed CSCR matrix are pairwise different -/
theorem rowNumbers_inj {A : Cscr α} (h : A.wf = true) {k k' : Nat} (hk : k < A.usedRows) (hk' : k' < A.usedRows)
    (e : A.rowNumbers.getD k A.rows = A.rowNumbers.getD k' A.rows) : k = k' := by
  simp only [Cscr.wf, Bool.and_eq_true, List.all_eq_true, List.mem_range, decide_eq_true_eq] at h
  obtain ⟨_, h8⟩ := h
  have hgap := strict_gap (fun k => A.rowNumbers.getD k 0) A.usedRows (fun k hk => h8 k (by omega))
  rw [getD_default _ (show k < A.rowNumbers.size from hk) A.rows 0,
    getD_default _ (show k' < A.rowNumbers.size from hk') A.rows 0] at e
  rcases Nat.lt_trichotomy k k' with hlt | heq | hgt
  · have g : A.rowNumbers.getD k 0 + (k' - k) ≤ A.rowNumbers.getD k' 0 := hgap k' k (by omega) hk'
    omega
  · exact heq
  · have g : A.rowNumbers.getD k' 0 + (k - k') ≤ A.rowNumbers.getD k 0 := hgap k k' (by omega) hk
    omega

theorem rowOf_some [Zero α] {A : Cscr α} {i k : Nat} (h : A.findRow i = some k) :
    A.rowOf i = (core A).rowList k := by
  unfold Cscr.rowOf
  rw [h]
  rfl

theorem rowOf_none [Zero α] {A : Cscr α} {i : Nat} (h : A.findRow i = none) : A.rowOf i = [] := by
  unfold Cscr.rowOf
  rw [h]

theorem rowOf_col_lt [Zero α] {A : Cscr α} (h : A.wf = true) (i : Nat) : ∀ cv ∈ A.rowOf i, cv.1 < A.cols := by
  intro cv hcv
  cases hf : A.findRow i with
  | none => rw [rowOf_none hf] at hcv; simp at hcv
  | some k =>
    rw [rowOf_some hf] at hcv
    exact rowList_col_lt ((wf_iff _).1 (core_wf h)) (findRow_some hf).1 cv hcv

/-- the stored row of matrix row `i` has strictly increasing column indices when the compressed rows have -/
theorem rowOf_sorted [Zero α] {A : Cscr α} (hs : A.sortedRows = true) (i : Nat) :
    ((A.rowOf i).map Prod.fst).Pairwise (· < ·) := by
  cases hf : A.findRow i with
  | none => rw [rowOf_none hf]; simp
  | some k =>
    rw [rowOf_some hf]
    exact sortedRows_pairwise (A := core A) hs (findRow_some hf).1

/-- the dense meaning of a well-formed CSCR matrix is the row fold over the one stored row with the number `i` -/
theorem entry_eq_rowOf [Zero α] [Add α] {A : Cscr α} (h : A.wf = true) (i j : Nat) :
    A.entry i j = rowFold j (A.rowOf i) 0 := by
  have hC := (wf_iff _).1 (core_wf h)
  unfold Cscr.entry
  rw [List.range_eq_range']
  cases hf : A.findRow i with
  | none =>
    rw [rowOf_none hf]
    exact foldl_range'_nohit (fun nz => A.rowNumbers.getD nz A.rows = i)
      (fun s nz => foldRange (A.rowPtr.getD nz 0) (A.rowPtr.getD (nz + 1) 0)
        (fun s k => if A.colInd.getD k A.cols = j then s + A.val.getD k 0 else s) s) _ _ _
      (fun k _ hk => findRow_none hf k (by omega))
  | some k0 =>
    obtain ⟨hk0, e0⟩ := findRow_some hf
    rw [rowOf_some hf]
    have key := foldl_range'_onehit (fun nz => A.rowNumbers.getD nz A.rows = i)
      (fun s nz => foldRange (A.rowPtr.getD nz 0) (A.rowPtr.getD (nz + 1) 0)
        (fun s k => if A.colInd.getD k A.cols = j then s + A.val.getD k 0 else s) s) k0 e0 A.usedRows 0 0
      (Nat.zero_le _) (by omega) (fun k _ hk hc => rowNumbers_inj h (by omega) hk0 (hc.trans e0.symm))
    exact key.trans (foldRange_rowFold (core A) k0 j 0 (rowEnd_le hC hk0))

end CscrAux
open PermuteAux CscrAux

theorem csr_toCscr_spec {α : Type} [Zero α] [Add α] (A : Csr α) (h : A.wf = true) :
    A.toCscr.rows = A.rows ∧ A.toCscr.cols = A.cols ∧ (A.toCscr.isArrayless = true ∨ A.toCscr.wf = true) ∧
    ∀ i j, i < A.rows → j < A.cols → A.toCscr.entry i j = A.entry i j := by
  have hA := (wf_iff A).1 h
  by_cases h0 : A.usedElements = 0
  · -- the entry-free source: `SparseMatrixCSCR(rows, cols)`, no arrays
    have eT : A.toCscr = ⟨A.rows, A.cols, #[], #[], #[], #[]⟩ := if_pos h0
    rw [eT]
    refine ⟨rfl, rfl, Or.inl rfl, ?_⟩
    intro i j hi _
    have hz : A.entry i j = 0 := by
      unfold Csr.entry
      apply foldRange_ge
      have h1 := rowEnd_le hA hi
      have h2 : A.val.size = 0 := h0
      rw [hA.colSize, h2] at h1
      omega
    rw [hz]
    rfl
  -- the pieces of the definition
  let used := (List.range A.rows).filter fun i => A.rowBegin i < A.rowEnd i
  let rs := used.map A.rowList
  let C : Csr α := Csr.ofRows used.length A.cols rs
  have hlen : rs.length = used.length := by simp [rs]
  have hmem : ∀ u, u ∈ used ↔ u < A.rows ∧ A.rowBegin u < A.rowEnd u := by
    intro u; simp [used, List.mem_filter]
  have hCwf : C.wf = true := by
    apply Permute.ofRows_wf _ _ _ hlen
    intro r hr cv hcv
    obtain ⟨u, hu, rfl⟩ := List.mem_map.1 hr
    exact rowList_col_lt hA ((hmem u).1 hu).1 cv hcv
  have hnd : used.Nodup := List.nodup_range.filter _
  have hpw : used.Pairwise (· < ·) := List.pairwise_lt_range.filter _
  have eT : A.toCscr = ⟨A.rows, A.cols, C.rowPtr, C.colInd, C.val, used.toArray⟩ := if_neg h0
  refine ⟨by rw [eT], by rw [eT], Or.inr ?_, ?_⟩
  · rw [eT]
    simp only [Csr.wf, Bool.and_eq_true] at hCwf
    obtain ⟨⟨⟨⟨⟨h1, h2⟩, h3⟩, h4⟩, h5⟩, h6⟩ := hCwf
    simp only [Cscr.wf, Bool.and_eq_true]
    refine ⟨⟨⟨⟨⟨⟨⟨h1, h2⟩, h3⟩, h4⟩, h5⟩, h6⟩, ?_⟩, ?_⟩
    · simp only [Array.all_eq_true, decide_eq_true_eq]
      intro k hk
      have : used.toArray[k] ∈ used := by simp
      exact ((hmem _).1 this).1
    · simp only [List.all_eq_true, List.mem_range, decide_eq_true_eq, Cscr.usedRows, List.size_toArray]
      intro k hk
      have := (List.pairwise_iff_getElem.1 hpw) k (k + 1) (by omega) (by omega) (by omega)
      simpa [Array.getD, show k < used.length by omega, show k + 1 < used.length by omega] using this
  · intro i j hi hj
    rw [eT]
    unfold Cscr.entry
    show (List.range used.length).foldl (fun s nz =>
        if used.toArray.getD nz A.rows = i then
          foldRange (C.rowBegin nz) (C.rowEnd nz) (fun s k => if C.colInd.getD k C.cols = j then s + C.val.getD k 0 else s) s
        else s) 0 = A.entry i j
    have step : ∀ (s : α) (nz : Nat), nz ∈ List.range used.length →
        (if used.toArray.getD nz A.rows = i then
          foldRange (C.rowBegin nz) (C.rowEnd nz) (fun s k => if C.colInd.getD k C.cols = j then s + C.val.getD k 0 else s) s
        else s)
        = (fun s u => if u = i then rowFold j (A.rowList i) s else s) s (used.toArray.getD nz A.rows) := by
      intro s nz hnz
      have hnz' : nz < used.length := List.mem_range.1 hnz
      have hnz2 : nz < rs.length := by omega
      have e1 : used.toArray.getD nz A.rows = used[nz] := by simp [Array.getD, hnz']
      show _ = if used.toArray.getD nz A.rows = i then rowFold j (A.rowList i) s else s
      by_cases hu : used.toArray.getD nz A.rows = i
      · rw [if_pos hu, if_pos hu, foldRange_rowFold C nz j s (ofRows_rowEnd_le _ _ rs nz hnz2),
          ofRows_rowList _ _ rs nz hnz2]
        have : rs[nz] = A.rowList used[nz] := by simp [rs]
        rw [this, ← e1, hu]
      · rw [if_neg hu, if_neg hu]
    rw [List.foldl_ext _ _ 0 step, foldl_range_getD used A.rows
      (fun s u => if u = i then rowFold j (A.rowList i) s else s) 0, foldl_if_eq _ i used 0 hnd]
    by_cases hiu : i ∈ used
    · rw [if_pos hiu]
      exact (entry_eq_rowFold A i j (rowEnd_le hA hi)).symm
    · rw [if_neg hiu]
      have : ¬ A.rowBegin i < A.rowEnd i := fun hlt => hiu ((hmem i).2 ⟨hi, hlt⟩)
      unfold Csr.entry
      rw [foldRange_ge _ _ _ _ (by omega)]

theorem cscr_toCsr_spec {α : Type} [Zero α] [Add α] (A : Cscr α) (h : A.wf = true) (B : Csr α)
    (hB : A.toCsr = some B) :
    B.rows = A.rows ∧ B.cols = A.cols ∧ B.wf = true ∧
    ∀ i j, i < A.rows → j < A.cols → B.entry i j = A.entry i j := by
  unfold Cscr.toCsr at hB
  split at hB
  · exact absurd hB (by simp)
  have hB' := (Option.some.inj hB).symm
  subst hB'
  have hlen : ((List.range A.rows).map A.rowOf).length = A.rows := by simp
  refine ⟨rfl, rfl, ?_, ?_⟩
  · apply Permute.ofRows_wf _ _ _ hlen
    intro r hr cv hcv
    obtain ⟨u, _, rfl⟩ := List.mem_map.1 hr
    exact rowOf_col_lt h u cv hcv
  · intro i j hi _
    rw [Permute.ofRows_entry _ _ _ hlen i j hi]
    have e : ((List.range A.rows).map A.rowOf).getD i [] = A.rowOf i := by
      simp [List.getD_eq_getElem?_getD, hi]
    rw [e]
    exact (entry_eq_rowOf h i j).symm

/-! ### BCSR transpose -/
namespace CscrAux

/-- `tpost_entry` with arbitrary per-position payloads -/
theorem tpost_fold {α γ : Type} [Zero γ] [Add γ] {A T : Csr α} (hv : V A) (ht : TPost A T) (vA vT : Nat → γ)
    (hval : ∀ k, k < A.val.size → vT (pos A k) = vA k) {i j : Nat} (hi : i < A.rows) (hj : j < A.cols) :
    foldRange (T.rowPtr.getD j 0) (T.rowPtr.getD (j + 1) 0)
        (fun s q => if T.colInd.getD q T.cols = i then s + vT q else s) 0
      = foldRange (A.rowPtr.getD i 0) (A.rowPtr.getD (i + 1) 0)
        (fun s k => if A.colInd.getD k A.cols = j then s + vA k else s) 0 := by
  have hTrow : ∀ q, inRow T j q → q < A.val.size ∧ ∃ k, k < A.val.size ∧ col A k = j ∧ pos A k = q := by
    intro q hq
    unfold inRow at hq
    rw [ht.ptr j (by omega), ht.ptr (j + 1) (by omega)] at hq
    obtain ⟨k, hk, h3, h4⟩ := cpos_surj _ hq.1 hq.2
    exact ⟨by rw [← h4]; exact cpos_lt _ hk, k, hk, h3, h4⟩
  have hcolA : ∀ k, k < A.val.size → A.colInd.getD k A.cols = col A k :=
    fun k hk => getD_default _ (by rw [hv.colSize]; exact hk) _ _
  have hcolT : ∀ q, q < A.val.size → T.colInd.getD q T.cols = T.colInd.getD q 0 :=
    fun q hq => getD_default _ (by rw [ht.cisize]; exact hq) _ _
  have hback : ∀ q, inRow T j q → T.colInd.getD q T.cols = i → ∃ k, inRow A i k ∧ col A k = j ∧ pos A k = q := by
    intro q hq hqi
    obtain ⟨hqn, k, hk, h3, h4⟩ := hTrow q hq
    obtain ⟨i', hi', r', g, _⟩ := ht.done k hk
    rw [h4, ← hcolT q hqn, hqi] at g
    subst g
    exact ⟨k, r', h3, h4⟩
  by_cases hex : ∃ k0, inRow A i k0 ∧ col A k0 = j
  · obtain ⟨k0, hr0, hc0⟩ := hex
    have hk0 := inRow_lt_size hv hi hr0
    obtain ⟨i0, hi0, hr0', g1, g2⟩ := ht.done k0 hk0
    have e0 : i0 = i := inRow_unique hv hi0 hi hr0' hr0
    rw [e0] at g1
    have hpn : pos A k0 < A.val.size := cpos_lt _ hk0
    have hrT : inRow T j (pos A k0) := by
      unfold inRow
      rw [ht.ptr j (by omega), ht.ptr (j + 1) (by omega)]
      have a1 := cpos_ge (col A) A.val.size k0
      have a2 := cpos_lt_next (col A) hk0
      rw [hc0] at a1 a2
      exact ⟨a1, a2⟩
    have eA : foldRange (A.rowPtr.getD i 0) (A.rowPtr.getD (i + 1) 0)
        (fun s k => if A.colInd.getD k A.cols = j then s + vA k else s) 0 = 0 + vA k0 :=
      foldRange_onehit (fun k => A.colInd.getD k A.cols = j) (fun s k => s + vA k) _ _ _ k0
        (by rw [hcolA k0 hk0]; exact hc0) hr0.1 hr0.2 (by
          intro k h1 h2 hkc
          have r : inRow A i k := ⟨h1, h2⟩
          rw [hcolA k (inRow_lt_size hv hi r)] at hkc
          exact sorted_inj hv hi r hr0 (hkc.trans hc0.symm))
    have eT : foldRange (T.rowPtr.getD j 0) (T.rowPtr.getD (j + 1) 0)
        (fun s q => if T.colInd.getD q T.cols = i then s + vT q else s) 0 = 0 + vT (pos A k0) :=
      foldRange_onehit (fun q => T.colInd.getD q T.cols = i) (fun s q => s + vT q) _ _ _ (pos A k0)
        (by rw [hcolT _ hpn]; exact g1) hrT.1 hrT.2 (by
          intro q h1 h2 hqi
          obtain ⟨k, r, h3, h4⟩ := hback q ⟨h1, h2⟩ hqi
          have : k = k0 := sorted_inj hv hi r hr0 (h3.trans hc0.symm)
          rw [← h4, this])
    rw [eA, eT, hval k0 hk0]
  · have eA : foldRange (A.rowPtr.getD i 0) (A.rowPtr.getD (i + 1) 0)
        (fun s k => if A.colInd.getD k A.cols = j then s + vA k else s) 0 = 0 :=
      foldRange_nohit (fun k => A.colInd.getD k A.cols = j) (fun s k => s + vA k) _ _ _ (by
        intro k h1 h2 hkc
        have r : inRow A i k := ⟨h1, h2⟩
        rw [hcolA k (inRow_lt_size hv hi r)] at hkc
        exact hex ⟨k, r, hkc⟩)
    have eT : foldRange (T.rowPtr.getD j 0) (T.rowPtr.getD (j + 1) 0)
        (fun s q => if T.colInd.getD q T.cols = i then s + vT q else s) 0 = 0 :=
      foldRange_nohit (fun q => T.colInd.getD q T.cols = i) (fun s q => s + vT q) _ _ _ (by
        intro q h1 h2 hqi
        obtain ⟨k, r, h3, _⟩ := hback q ⟨h1, h2⟩ hqi
        exact hex ⟨k, r, h3⟩)
    rw [eA, eT]

/-- decoding the pod position of scalar `(h', w')` of block `q` in a matrix of `bw × bh` blocks -/
theorem idx_decode (q h' w' bh bw : Nat) (hh : h' < bw) (hw : w' < bh) :
    (q * bw * bh + h' * bh + w') / (bh * bw) = q ∧
    ((q * bw * bh + h' * bh + w') % (bh * bw)) / bh = h' ∧
    ((q * bw * bh + h' * bh + w') % (bh * bw)) % bh = w' := by
  have hr : h' * bh + w' < bh * bw := by
    have := Nat.mul_le_mul_right bh (show h' + 1 ≤ bw from hh)
    rw [Nat.succ_mul, Nat.mul_comm bw bh] at this
    omega
  have e : q * bw * bh + h' * bh + w' = (h' * bh + w') + bh * bw * q := by
    have : q * bw * bh = bh * bw * q := by ac_rfl
    omega
  have hpos : 0 < bh * bw := by omega
  have hbh : 0 < bh := by omega
  rw [e, Nat.add_mul_div_left _ _ hpos, Nat.add_mul_mod_self_left, Nat.div_eq_of_lt hr, Nat.mod_eq_of_lt hr]
  have e2 : h' * bh + w' = w' + bh * h' := by rw [Nat.mul_comm]; omega
  rw [e2, Nat.add_mul_div_left _ _ hbh, Nat.add_mul_mod_self_left, Nat.div_eq_of_lt hw, Nat.mod_eq_of_lt hw]
  omega

end CscrAux

theorem bcsr_transpose_spec_nz {α : Type} [Zero α] [Add α] (A : Bcsr α) (h : A.wf = true)
    (hs : ((List.range A.rows).all fun i =>
      (List.range' (A.rowPtr.getD i 0) (A.rowPtr.getD (i + 1) 0 - A.rowPtr.getD i 0 - 1)).all fun k =>
        A.colInd.getD k 0 < A.colInd.getD (k + 1) 0) = true)
    (hbh : 0 < A.bh) (hbw : 0 < A.bw) (hnz : 0 < A.usedElements) :
    A.transpose.bh = A.bw ∧ A.transpose.bw = A.bh ∧ A.transpose.rows = A.cols ∧ A.transpose.cols = A.rows ∧
    (A.transpose.wf = true ∧ A.transpose.sortedRows = true) ∧
    ∀ i j, i < A.rows * A.bh → j < A.cols * A.bw → A.transpose.entry j i = A.entry i j := by
  have hn' : ¬ A.usedElements = 0 := by omega
  let S : Csr Nat := ⟨A.rows, A.cols, A.rowPtr, A.colInd, Array.range A.usedElements⟩
  have hSn : S.val.size = A.usedElements := by simp [S]
  have hSwf : S.wf = true := by
    simp only [Bcsr.wf, Bool.and_eq_true] at h
    obtain ⟨⟨⟨⟨⟨h1, h2⟩, h3⟩, _⟩, h5⟩, h6⟩ := h
    simp only [Csr.wf, Bool.and_eq_true]
    refine ⟨⟨⟨⟨⟨h1, h2⟩, ?_⟩, ?_⟩, h5⟩, h6⟩
    · simpa [S, Bcsr.usedElements] using h3
    · simp [S, Bcsr.usedElements]
  have hv : V S := V_of hSwf hs
  have ht : TPost S S.transpose := transpose_post hv (by show S.val.size ≠ 0; omega)
  have hvT : V S.transpose := tpost_V hv ht
  let val' : Array α := Array.ofFn (n := A.usedElements * A.bh * A.bw) fun idx =>
    A.val.getD (S.transpose.val.getD (idx.val / (A.bh * A.bw)) 0 * A.bh * A.bw
      + (idx.val % (A.bh * A.bw) % A.bh) * A.bw + idx.val % (A.bh * A.bw) / A.bh) 0
  have eT : A.transpose = ⟨A.bw, A.bh, A.cols, A.rows, S.transpose.rowPtr, S.transpose.colInd, val'⟩ := by
    unfold Bcsr.transpose
    rw [if_neg hn']
  rw [eT]
  refine ⟨rfl, rfl, rfl, rfl, And.symm ⟨?_, ?_⟩, ?_⟩
  · have hsT := (V_to hvT).2
    simp only [Csr.sortedRows, Csr.rowBegin, Csr.rowEnd] at hsT
    rw [ht.rows] at hsT
    exact hsT
  · have hw := (V_to hvT).1
    simp only [Csr.wf, Bool.and_eq_true] at hw
    obtain ⟨⟨⟨⟨⟨h1, h2⟩, h3⟩, h4⟩, h5⟩, h6⟩ := hw
    rw [ht.rows] at h1 h3 h5
    rw [ht.cols] at h6
    simp only [Bcsr.wf, Bool.and_eq_true]
    refine ⟨⟨⟨⟨⟨h1, h2⟩, ?_⟩, ?_⟩, h5⟩, h6⟩
    · simp only [beq_iff_eq] at h3 h4 ⊢
      show S.transpose.rowPtr.getD A.cols 0 = S.transpose.colInd.size
      exact h3.trans h4.symm
    · simp only [beq_iff_eq]
      show val'.size = S.transpose.colInd.size * A.bw * A.bh
      rw [ht.cisize, hSn, Array.size_ofFn, Nat.mul_right_comm]
  · intro i j hi hj
    have hI : i / A.bh < A.rows := Nat.div_lt_of_lt_mul (by rw [Nat.mul_comm]; exact hi)
    have hJ : j / A.bw < A.cols := Nat.div_lt_of_lt_mul (by rw [Nat.mul_comm]; exact hj)
    unfold Bcsr.entry
    rw [if_neg (by show ¬ (A.bw = 0 ∨ A.bh = 0); omega), if_neg (by omega)]
    have key := tpost_fold hv ht
      (fun k => A.val.getD (k * A.bh * A.bw + (i % A.bh) * A.bw + j % A.bw) 0)
      (fun q => val'.getD (q * A.bw * A.bh + (j % A.bw) * A.bh + i % A.bh) 0) ?_ hI hJ
    · rw [ht.cols] at key
      exact key
    · intro k hk
      have hq : pos S k < A.usedElements := by rw [← hSn]; exact cpos_lt _ hk
      obtain ⟨_, _, _, _, g⟩ := ht.done k hk
      have gk : S.transpose.val.getD (pos S k) 0 = k := by
        rw [g 0]
        show (Array.range A.usedElements).getD k 0 = k
        have hk' : k < A.usedElements := by rw [← hSn]; exact hk
        simp [Array.getD, hk']
      obtain ⟨d1, d2, d3⟩ := idx_decode (pos S k) (j % A.bw) (i % A.bh) A.bh A.bw
        (Nat.mod_lt _ hbw) (Nat.mod_lt _ hbh)
      have hidx : pos S k * A.bw * A.bh + (j % A.bw) * A.bh + i % A.bh < A.usedElements * A.bh * A.bw := by
        have hr : (j % A.bw) * A.bh + i % A.bh < A.bw * A.bh := by
          have := Nat.mul_le_mul_right A.bh (show j % A.bw + 1 ≤ A.bw from Nat.mod_lt _ hbw)
          have := Nat.mod_lt i hbh
          rw [Nat.succ_mul] at *
          omega
        have h2 := Nat.mul_le_mul_right (A.bw * A.bh) (show pos S k + 1 ≤ A.usedElements from hq)
        rw [Nat.succ_mul, ← Nat.mul_assoc, ← Nat.mul_assoc, Nat.mul_right_comm A.usedElements] at h2
        omega
      show val'.getD (pos S k * A.bw * A.bh + (j % A.bw) * A.bh + i % A.bh) 0 = _
      have : val'.getD (pos S k * A.bw * A.bh + (j % A.bw) * A.bh + i % A.bh) 0
          = A.val.getD (S.transpose.val.getD ((pos S k * A.bw * A.bh + (j % A.bw) * A.bh + i % A.bh) / (A.bh * A.bw)) 0
              * A.bh * A.bw
            + ((pos S k * A.bw * A.bh + (j % A.bw) * A.bh + i % A.bh) % (A.bh * A.bw) % A.bh) * A.bw
            + (pos S k * A.bw * A.bh + (j % A.bw) * A.bh + i % A.bh) % (A.bh * A.bw) / A.bh) 0 := by
        simp [val', Array.getD, hidx]
      rw [this, d1, d2, d3, gk]

/-- the Boolean `Bcsr.wf`/`Bcsr.sortedRows` of `A` as the `V` structure of its index matrix -/
theorem CscrAux.bcsr_V {α : Type} (A : Bcsr α) (h : A.wf = true) (hs : A.sortedRows = true) :
    V (⟨A.rows, A.cols, A.rowPtr, A.colInd, Array.range A.usedElements⟩ : Csr Nat) := by
  refine V_of ?_ hs
  simp only [Bcsr.wf, Bool.and_eq_true] at h
  obtain ⟨⟨⟨⟨⟨h1, h2⟩, h3⟩, _⟩, h5⟩, h6⟩ := h
  simp only [Csr.wf, Bool.and_eq_true]
  refine ⟨⟨⟨⟨⟨h1, h2⟩, ?_⟩, ?_⟩, h5⟩, h6⟩
  · simpa [Bcsr.usedElements] using h3
  · simp [Bcsr.usedElements]

theorem CscrAux.bcsr_arrayless_valid {α : Type} (bh bw r c : Nat) :
    (⟨bh, bw, r, c, #[], #[], #[]⟩ : Bcsr α).valid = true := by
  simp [Bcsr.valid, Bcsr.isArrayless]

theorem CscrAux.bcsr_arrayless_entry {α : Type} [Zero α] [Add α] {A : Bcsr α} (h : A.rowPtr = #[]) (i j : Nat) :
    A.entry i j = 0 := by
  unfold Bcsr.entry
  split
  · rfl
  · exact foldRange_nohit (fun k => A.colInd.getD k A.cols = j / A.bw) _ _ _ _ (by
      intro k h1 h2
      simp [h] at h2)

theorem bcsr_transpose_spec {α : Type} [Zero α] [Add α] (A : Bcsr α) (h : A.valid = true) (hbh : 0 < A.bh) (hbw : 0 < A.bw) :
    A.transpose.bh = A.bw ∧ A.transpose.bw = A.bh ∧ A.transpose.rows = A.cols ∧ A.transpose.cols = A.rows ∧
    A.transpose.valid = true ∧
    ∀ i j, i < A.rows * A.bh → j < A.cols * A.bw → A.transpose.entry j i = A.entry i j := by
  by_cases h0 : A.usedElements = 0
  · have eT : A.transpose = ⟨A.bw, A.bh, A.cols, A.rows, #[], #[], #[]⟩ := if_pos h0
    rw [eT]
    refine ⟨rfl, rfl, rfl, rfl, bcsr_arrayless_valid _ _ _ _, fun i j hi _ => ?_⟩
    rw [bcsr_arrayless_entry rfl]
    simp only [Bcsr.valid, Bool.or_eq_true, Bool.and_eq_true] at h
    rcases h with ha | ⟨hw, hs⟩
    · simp only [Bcsr.isArrayless, Bool.and_eq_true, Array.isEmpty_iff] at ha
      exact (bcsr_arrayless_entry ha.1.1 i j).symm
    · have hv := bcsr_V A hw hs
      have hI : i / A.bh < A.rows := Nat.div_lt_of_lt_mul (by rw [Nat.mul_comm]; exact hi)
      unfold Bcsr.entry
      rw [if_neg (by omega)]
      exact (foldRange_nohit (fun k => A.colInd.getD k A.cols = j / A.bw) _ _ _ _ (by
        intro k h1 h2
        have := inRow_lt_size hv hI ⟨h1, h2⟩
        have e : (Array.range A.usedElements).size = 0 := by simp [h0]
        exact absurd this (by rw [show ∀ (a b c d e), (Csr.mk a b c d e : Csr Nat).val = e from fun _ _ _ _ _ => rfl, e]; omega))).symm
  · simp only [Bcsr.valid, Bool.or_eq_true, Bool.and_eq_true] at h
    rcases h with ha | ⟨hw, hs⟩
    · simp only [Bcsr.isArrayless, Bool.and_eq_true, Array.isEmpty_iff] at ha
      exact absurd (by simp [Bcsr.usedElements, ha.1.2]) h0
    · obtain ⟨a1, a2, a3, a4, ⟨a5, a6⟩, a7⟩ := bcsr_transpose_spec_nz A hw hs hbh hbw (by omega)
      refine ⟨a1, a2, a3, a4, ?_, a7⟩
      simp [Bcsr.valid, a5, a6]

end C02L
