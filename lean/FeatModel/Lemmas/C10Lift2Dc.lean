import FeatModel.Lemmas.C10Lift2Db
/-! C10 — global 2-D lift, clause `facetsOk`: every fine edge has exactly as many adjacent fine cells as its parent
edge has adjacent coarse cells (children of coarse edges), or exactly two (inner edges).  Counting argument over the
generated table `(2,2,1)`, which is a permutation of "both children of every edge once, every inner edge twice". -/
namespace FeatModel.Refine
open FeatModel.Gen.Refine

def simT (e b : Nat) : Term := ⟨1, 2, some (2, 1, e), .sim 1 0 e b⟩
def ownT (kind : Kind) (a : Nat) : Term := ⟨2, refCount kind 2 1, none, .const a⟩

/-- canonical arrangement of the terms of table `(2,2,1)` -/
def canon (kind : Kind) : List Term :=
  ((List.range (faceCount kind 2 1)).flatMap fun e => [simT e 0, simT e 1]) ++
  ((List.range (refCount kind 2 1)).flatMap fun a => [ownT kind a, ownT kind a])

theorem table_perm (kind : Kind) : (indexTable kind 2 2 1).flatten.Perm (canon kind) := by
  cases kind <;> decide

theorem facetsOk_iff (M : Mesh) : M.facetsOk = true ↔
    ∀ l < M.num (M.dim - 1), M.facetCount l = 1 ∨ M.facetCount l = 2 := by
  unfold Mesh.facetsOk
  simp [List.all_eq_true]

/-- occurrences of fine edge `x` among the children of coarse cell `i` -/
def occ (M : Mesh) (i x : Nat) : Nat := (canon M.kind).countP fun t => evalTerm M 2 1 i t == x

theorem sum_flatMap_count {α : Type} (l : List α) (g : α → List (List Nat)) (x : Nat) :
    ((l.flatMap g).map (List.count x)).sum = (l.map fun a => (g a).flatten.count x).sum := by
  induction l with
  | nil => simp
  | cons a as ih => simp [List.flatMap_cons, List.map_append, List.sum_append, ih, List.count_flatten]

theorem facetCount_refine2 (M : Mesh) (h : Ok2 M) (x : Nat) :
    (refine M).facetCount x = ((List.range (M.num 2)).map fun i => occ M i x).sum := by
  unfold Mesh.facetCount
  rw [refine_dim, h.dim, refine_idx M 2 1 (by rw [h.dim]; omega) (by omega)]
  unfold fineIdx
  rw [h.dim]
  simp only [show 2 + 1 - 2 = 1 from rfl, List.range'_one, List.flatMap_cons, List.flatMap_nil, List.append_nil]
  rw [sum_flatMap_count]
  congr 1
  apply List.map_congr_left
  intro i _
  unfold childRows occ
  rw [← List.map_flatten, List.count_eq_countP, List.countP_map]
  exact (table_perm M.kind).countP_eq _

theorem idx_eq_map_tuple (M : Mesh) (c f : Nat) :
    M.idx c f = (List.range (M.idx c f).length).map fun i => M.tuple c f i := by
  apply List.ext_getElem
  · simp
  · intro n h1 h2
    unfold Mesh.tuple
    simp [List.getD_eq_getElem?_getD, List.getElem?_eq_getElem h1]

theorem list_eq_map_getD (l : List Nat) : l = (List.range l.length).map fun e => l.getD e 0 := by
  apply List.ext_getElem
  · simp
  · intro n h1 h2
    simp [List.getD_eq_getElem?_getD, List.getElem?_eq_getElem h1]

theorem sum_indicator_range (n i0 c : Nat) (h : i0 < n) :
    ((List.range n).map fun i => if i = i0 then c else 0).sum = c := by
  induction n with
  | zero => omega
  | succ n ih =>
    rw [List.range_succ, List.map_append, List.sum_append]
    by_cases hn : i0 = n
    · subst hn
      have : ((List.range i0).map fun i => if i = i0 then c else 0) = (List.range i0).map fun _ => 0 := by
        apply List.map_congr_left
        intro i hi
        rw [List.mem_range] at hi
        rw [if_neg (by omega)]
      rw [this]
      have z : ∀ n, ((List.range n).map fun _ => 0).sum = 0 := by
        intro n; induction n with
        | zero => rfl
        | succ n ihn => rw [List.range_succ, List.map_append, List.sum_append, ihn]; rfl
      rw [z]; simp
    · rw [ih (by omega)]
      simp [Ne.symm hn]

/-- the two children of an edge get the two different numbers 0 and 1 -/
theorem congLookup_edge_pair (kind : Kind) (o : Int) (ho : o = 0 ∨ o = 1 ∨ o = -1) :
    (congLookup kind 1 0 o 0 = 0 ∧ congLookup kind 1 0 o 1 = 1) ∨
    (congLookup kind 1 0 o 0 = 1 ∧ congLookup kind 1 0 o 1 = 0) := by
  rcases ho with rfl | rfl | rfl <;> cases kind <;> simp [congLookup, congMap]

theorem compare_edge_range (kind : Kind) (s0 s1 : Nat) (trg : List Nat) :
    FeatModel.Refine.compare kind 1 s0 s1 trg = 0 ∨ FeatModel.Refine.compare kind 1 s0 s1 trg = 1 ∨
      FeatModel.Refine.compare kind 1 s0 s1 trg = -1 := by
  unfold FeatModel.Refine.compare
  by_cases c0 : s0 = trgAt trg 0
  · simp [c0]
  · by_cases c1 : s0 = trgAt trg 1
    · rw [if_neg c0, if_pos c1]; simp
    · rw [if_neg c0, if_neg c1]; simp

theorem simMap_edge_pair (M : Mesh) (i e : Nat) :
    (simMap M 2 1 0 i e 0 = 0 ∧ simMap M 2 1 0 i e 1 = 1) ∨ (simMap M 2 1 0 i e 0 = 1 ∧ simMap M 2 1 0 i e 1 = 0) := by
  unfold simMap
  exact congLookup_edge_pair M.kind _ (compare_edge_range M.kind _ _ _)

theorem occ_formula (M : Mesh) (i x : Nat) :
    occ M i x =
      ((List.range (faceCount M.kind 2 1)).map fun e =>
        (if 2 * M.entry 2 1 i e + simMap M 2 1 0 i e 0 = x then 1 else 0) +
        (if 2 * M.entry 2 1 i e + simMap M 2 1 0 i e 1 = x then 1 else 0)).sum +
      ((List.range (refCount M.kind 2 1)).map fun a =>
        2 * (if 2 * M.nums.getD 1 0 + refCount M.kind 2 1 * i + a = x then 1 else 0)).sum := by
  obtain ⟨o00, o01, o02, o11, o12, o22⟩ := off2 M.kind M.nums
  unfold occ canon
  rw [List.countP_append, List.countP_flatMap, List.countP_flatMap]
  congr 1
  · apply congrArg
    apply List.map_congr_left
    intro e _
    simp [simT, evalTerm, evalSrc, evalAdd, o11, List.countP_cons]
    omega
  · apply congrArg
    apply List.map_congr_left
    intro a _
    simp [ownT, evalTerm, evalSrc, evalAdd, o12, List.countP_cons]
    split <;> simp

theorem sum_zero_of_forall {α : Type} (l : List α) (g : α → Nat) (h : ∀ a ∈ l, g a = 0) : (l.map g).sum = 0 := by
  induction l with
  | nil => rfl
  | cons a as ih =>
    rw [List.map_cons, List.sum_cons, h a (by simp), ih (fun b hb => h b (by simp [hb]))]

theorem count_map_sum {α : Type} (l : List α) (f : α → Nat) (a : Nat) :
    (l.map f).count a = (l.map fun e => if f e = a then 1 else 0).sum := by
  induction l with
  | nil => rfl
  | cons b bs ih =>
    rw [List.map_cons, List.count_cons, ih, List.map_cons, List.sum_cons]
    by_cases hb : f b = a <;> simp [hb] <;> omega

theorem mul_add_inj (n i a i0 a0 : Nat) (ha : a < n) (ha0 : a0 < n) (h : n * i + a = n * i0 + a0) :
    i = i0 ∧ a = a0 := by
  have hn : 0 < n := by omega
  have h1 : (n * i + a) / n = i := by
    rw [Nat.mul_add_div hn, Nat.div_eq_of_lt ha]; rfl
  have h2 : (n * i0 + a0) / n = i0 := by
    rw [Nat.mul_add_div hn, Nat.div_eq_of_lt ha0]; rfl
  have hi : i = i0 := by rw [← h1, ← h2, h]
  subst hi
  exact ⟨rfl, by omega⟩

/-- children of coarse edge `E`: as many occurrences in cell `i` as `E` has in the cell's edge tuple -/
theorem occ_edge_child (M : Mesh) (h : Ok2 M) (i E m : Nat) (hi : i < M.num 2) (hE : E < M.num 1) (hm : m < 2) :
    occ M i (2 * E + m) = (M.tuple 2 1 i).count E := by
  rw [occ_formula]
  have hn1 : M.num 1 = M.nums.getD 1 0 := rfl
  have z : ((List.range (refCount M.kind 2 1)).map fun a =>
      2 * (if 2 * M.nums.getD 1 0 + refCount M.kind 2 1 * i + a = 2 * E + m then 1 else 0)).sum = 0 := by
    apply sum_zero_of_forall
    intro a _
    rw [if_neg (by omega)]
  rw [z, Nat.add_zero]
  obtain ⟨hlen, _⟩ := shape_facts M h 2 1 (by omega) (by omega) (by omega) i hi
  have ht := list_eq_map_getD (M.tuple 2 1 i)
  rw [hlen] at ht
  rw [ht, count_map_sum]
  congr 1
  apply List.map_congr_left
  intro e _
  have he : (M.tuple 2 1 i).getD e 0 = M.entry 2 1 i e := rfl
  rw [he]
  have hm' : m = 0 ∨ m = 1 := by omega
  rcases simMap_edge_pair M i e with ⟨h0, h1⟩ | ⟨h0, h1⟩ <;> rw [h0, h1] <;>
    rcases hm' with rfl | rfl <;>
    by_cases hee : M.entry 2 1 i e = E <;> simp [hee] <;> omega

/-- inner edges of coarse cell `i0`: two occurrences in `i0`, none elsewhere -/
theorem occ_inner (M : Mesh) (h : Ok2 M) (i i0 a0 : Nat) (hi : i < M.num 2) (ha0 : a0 < refCount M.kind 2 1) :
    occ M i (2 * M.num 1 + refCount M.kind 2 1 * i0 + a0) = if i = i0 then 2 else 0 := by
  rw [occ_formula]
  have hn1 : M.num 1 = M.nums.getD 1 0 := rfl
  have z : ((List.range (faceCount M.kind 2 1)).map fun e =>
      (if 2 * M.entry 2 1 i e + simMap M 2 1 0 i e 0 = 2 * M.num 1 + refCount M.kind 2 1 * i0 + a0 then 1 else 0) +
      (if 2 * M.entry 2 1 i e + simMap M 2 1 0 i e 1 = 2 * M.num 1 + refCount M.kind 2 1 * i0 + a0 then 1 else 0)).sum = 0 := by
    apply sum_zero_of_forall
    intro e he
    rw [List.mem_range] at he
    have hE := (shape_facts M h 2 1 (by omega) (by omega) (by omega) i hi).2 e he
    rcases simMap_edge_pair M i e with ⟨h0, h1⟩ | ⟨h0, h1⟩ <;> rw [h0, h1] <;>
      rw [if_neg (by omega), if_neg (by omega)]
  rw [z, Nat.zero_add, ← hn1]
  by_cases hii : i = i0
  · subst hii
    rw [if_pos rfl]
    have : ((List.range (refCount M.kind 2 1)).map fun a =>
        2 * (if 2 * M.num 1 + refCount M.kind 2 1 * i + a = 2 * M.num 1 + refCount M.kind 2 1 * i + a0 then 1 else 0))
        = (List.range (refCount M.kind 2 1)).map fun a => if a = a0 then 2 else 0 := by
      apply List.map_congr_left
      intro a _
      by_cases haa : a = a0
      · simp [haa]
      · rw [if_neg (by omega), if_neg haa]
    rw [this]
    exact sum_indicator_range _ a0 2 ha0
  · rw [if_neg hii]
    apply sum_zero_of_forall
    intro a ha
    rw [List.mem_range] at ha
    have : ¬ (2 * M.num 1 + refCount M.kind 2 1 * i + a = 2 * M.num 1 + refCount M.kind 2 1 * i0 + a0) := by
      intro heq
      have := mul_add_inj (refCount M.kind 2 1) i a i0 a0 ha ha0 (by omega)
      exact hii this.1
    rw [if_neg this]

theorem facetCount_coarse (M : Mesh) (h : Ok2 M) (E : Nat) :
    M.facetCount E = ((List.range (M.num 2)).map fun i => (M.tuple 2 1 i).count E).sum := by
  unfold Mesh.facetCount
  rw [h.dim]
  have hlen := ((shapeOk_iff M).1 h.shape 2 (by omega) (by rw [h.dim]; omega) 1 (by omega)).1
  have := idx_eq_map_tuple M 2 1
  rw [hlen] at this
  rw [show (2 : Nat) - 1 = 1 from rfl, this, List.map_map]
  rfl

theorem facetsOk_refine2 (M : Mesh) (h : Ok2 M) (hf : M.facetsOk = true) : (refine M).facetsOk = true := by
  rw [facetsOk_iff] at hf ⊢
  rw [refine_dim, h.dim] at *
  obtain ⟨h1, _, _⟩ := fine_sizes2 M h
  obtain ⟨r11, r22, r10, f10, r21⟩ := rc2 M.kind
  intro x hx
  rw [show (2 : Nat) - 1 = 1 from rfl, h1] at hx
  rw [facetCount_refine2 M h x]
  by_cases hlo : x < 2 * M.num 1
  · have hx2 : x = 2 * (x / 2) + x % 2 := by omega
    have hE : x / 2 < M.num 1 := by omega
    have : ((List.range (M.num 2)).map fun i => occ M i x)
        = (List.range (M.num 2)).map fun i => (M.tuple 2 1 i).count (x / 2) := by
      apply List.map_congr_left
      intro i hi
      rw [List.mem_range] at hi
      rw [hx2]
      have := occ_edge_child M h i (x / 2) (x % 2) hi hE (by omega)
      rw [this]
      congr 1
      omega
    rw [this, ← facetCount_coarse M h]
    exact hf _ hE
  · obtain ⟨y, hxy⟩ : ∃ y, x = 2 * M.num 1 + y := ⟨x - 2 * M.num 1, by omega⟩
    have hy : y < refCount M.kind 2 1 * M.num 2 := by omega
    have hi0 : y / refCount M.kind 2 1 < M.num 2 := Nat.div_lt_of_lt_mul hy
    have ha0 : y % refCount M.kind 2 1 < refCount M.kind 2 1 := Nat.mod_lt _ r21
    have hxx : x = 2 * M.num 1 + refCount M.kind 2 1 * (y / refCount M.kind 2 1) + y % refCount M.kind 2 1 := by
      have := Nat.div_add_mod y (refCount M.kind 2 1)
      omega
    have : ((List.range (M.num 2)).map fun i => occ M i x)
        = (List.range (M.num 2)).map fun i => if i = y / refCount M.kind 2 1 then 2 else 0 := by
      apply List.map_congr_left
      intro i hi
      rw [List.mem_range] at hi
      rw [hxx]
      exact occ_inner M h i _ _ hi ha0
    rw [this, sum_indicator_range _ _ 2 hi0]
    right; rfl


end FeatModel.Refine
