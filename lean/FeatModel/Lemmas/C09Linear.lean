import FeatModel.Lemmas.C09Data
import FeatModel.Lemmas.C09Algebra
/-!
# C09: instances of the relational data-layer theorem
equality (function of the defect), scaling (homogeneity of degree 1, all correction modes), addition (fixed mode).
-/
namespace FeatModel.MG

/-! ## equality -/

def REq (x : Bool → Vec) : Prop := x true = x false

theorem closed_eq (cgc : Cgc) : Closed Bool cgc REq where
  mul := fun m x h => by simp only [REq] at *; rw [h]
  flt := fun idx x h => by simp only [REq] at *; rw [h]
  sub := fun x y h1 h2 => by simp only [REq] at *; rw [h1, h2]
  zero := fun n => rfl
  add1 := fun x y h1 h2 => by simp only [REq] at *; rw [h1, h2]
  energy := fun _ de co tm so h1 h2 h3 h4 => by simp only [REq] at *; rw [h1, h2, h3, h4]; exact ⟨rfl, rfl⟩
  mindef := fun _ de co tm so h1 h2 h3 h4 => by simp only [REq] at *; rw [h1, h2, h3, h4]; exact ⟨rfl, rfl⟩

/-! ## scaling -/

theorem vscale_nil (c : Rat) : vscale c [] = [] := rfl
theorem vscale_cons (c a : Rat) (x : Vec) : vscale c (a :: x) = (c * a) :: vscale c x := rfl

theorem dot_vscale_right (c : Rat) (r x : Vec) : dot r (vscale c x) = c * dot r x := by
  induction r generalizing x with
  | nil => simp [dot_nil_left]
  | cons a r ih =>
    cases x with
    | nil => simp [vscale_nil, dot_nil_right]
    | cons b x => rw [vscale_cons, dot_cons, dot_cons, ih]; ring

theorem dot_vscale_left (c : Rat) (r x : Vec) : dot (vscale c r) x = c * dot r x := by
  rw [dot_comm, dot_vscale_right, dot_comm]

theorem mulVec_vscale (m : Mat) (c : Rat) (x : Vec) : mulVec m (vscale c x) = vscale c (mulVec m x) := by
  induction m with
  | nil => rfl
  | cons r m ih =>
    simp only [mulVec, List.map_cons, vscale] at ih ⊢
    rw [ih]
    congr 1
    exact dot_vscale_right c r x

theorem filt_aux_vscale (idx : List Nat) (c : Rat) (v : Vec) (k : Nat) :
    List.zipWith (fun i x => if idx.contains i then (0 : Rat) else x) (List.range' k (vscale c v).length) (vscale c v)
    = vscale c (List.zipWith (fun i x => if idx.contains i then (0 : Rat) else x) (List.range' k v.length) v) := by
  induction v generalizing k with
  | nil => rfl
  | cons b v ih =>
    have := ih (k + 1)
    simp only [vscale_cons, List.length_cons, List.range'_succ, List.zipWith_cons_cons]
    rw [this]
    congr 1
    split <;> ring

theorem filt_vscale (idx : List Nat) (c : Rat) (v : Vec) : filt idx (vscale c v) = vscale c (filt idx v) := by
  unfold filt
  simp only [List.range_eq_range']
  exact filt_aux_vscale idx c v 0

theorem vsub_vscale (c : Rat) (x y : Vec) : vsub (vscale c x) (vscale c y) = vscale c (vsub x y) := by
  induction x generalizing y with
  | nil => simp [vsub, vscale]
  | cons a x ih =>
    cases y with
    | nil => simp [vsub, vscale]
    | cons b y =>
      have := ih y
      simp only [vsub, vscale_cons, List.zipWith_cons_cons] at this ⊢
      rw [this]
      congr 1
      ring

theorem zero_vscale (c : Rat) (n : Nat) : List.replicate n (0 : Rat) = vscale c (List.replicate n 0) := by
  induction n with
  | zero => rfl
  | succ n ih => rw [List.replicate_succ, vscale_cons, ← ih]; congr 1; ring

theorem axpy_vscale (w c : Rat) (x y : Vec) : axpy w (vscale c x) (vscale c y) = vscale c (axpy w x y) := by
  induction y generalizing x with
  | nil => simp [axpy, vscale]
  | cons b y ih =>
    cases x with
    | nil => simp [axpy, vscale]
    | cons a x =>
      rw [vscale_cons, vscale_cons, axpy_cons, axpy_cons, vscale_cons, ih x]
      congr 1
      ring

theorem axpy_vscale_zero (w w' : Rat) (x y : Vec) : axpy w (vscale 0 x) (vscale 0 y) = vscale 0 (axpy w' x y) := by
  induction y generalizing x with
  | nil => simp [axpy, vscale]
  | cons b y ih =>
    cases x with
    | nil => simp [axpy, vscale]
    | cons a x =>
      rw [vscale_cons, vscale_cons, axpy_cons, axpy_cons, vscale_cons, ih x]
      congr 1
      ring

theorem cgcOmega_scale (c n d : Rat) (hc : c ≠ 0) : cgcOmega (c * (c * n)) (c * (c * d)) = cgcOmega n d := by
  unfold cgcOmega
  by_cases hd : d = 0
  · simp [hd]
  · have : c * (c * d) ≠ 0 := mul_ne_zero hc (mul_ne_zero hc hd)
    simp only [beq_iff_eq, this, hd, if_false]
    field_simp

def RHom (c : Rat) (x : Bool → Vec) : Prop := x true = vscale c (x false)

theorem closed_hom (cgc : Cgc) (c : Rat) : Closed Bool cgc (RHom c) where
  mul := fun m x h => by simp only [RHom] at *; rw [h, mulVec_vscale]
  flt := fun idx x h => by simp only [RHom] at *; rw [h, filt_vscale]
  sub := fun x y h1 h2 => by simp only [RHom] at *; rw [h1, h2, vsub_vscale]
  zero := fun n => zero_vscale c n
  add1 := fun x y h1 h2 => by simp only [RHom] at *; rw [h1, h2, axpy_vscale]
  energy := fun _ de co tm so h1 h2 h3 h4 => by
    simp only [RHom] at *
    rw [h1, h2, h3, h4]
    by_cases hc : c = 0
    · subst hc
      exact ⟨axpy_vscale_zero _ _ _ _, axpy_vscale_zero _ _ _ _⟩
    · rw [dot_vscale_left, dot_vscale_right, dot_vscale_left, dot_vscale_right, cgcOmega_scale _ _ _ hc]
      exact ⟨axpy_vscale _ _ _ _, axpy_vscale _ _ _ _⟩
  mindef := fun _ de co tm so h1 h2 h3 h4 => by
    simp only [RHom] at *
    rw [h1, h2, h3, h4]
    by_cases hc : c = 0
    · subst hc
      exact ⟨axpy_vscale_zero _ _ _ _, axpy_vscale_zero _ _ _ _⟩
    · rw [dot_vscale_left, dot_vscale_right, dot_vscale_left, dot_vscale_right, cgcOmega_scale _ _ _ hc]
      exact ⟨axpy_vscale _ _ _ _, axpy_vscale _ _ _ _⟩

/-! ## addition (fixed coarse grid correction) -/

theorem zip_interchange (f g : Rat → Rat → Rat) (hfg : ∀ a b c d, f (g a b) (g c d) = g (f a c) (f b d))
    (a b c d : Vec) (h1 : a.length = b.length) (h2 : c.length = d.length) :
    List.zipWith f (List.zipWith g a b) (List.zipWith g c d) =
      List.zipWith g (List.zipWith f a c) (List.zipWith f b d) := by
  induction a generalizing b c d with
  | nil =>
    cases b with
    | nil => simp
    | cons _ _ => simp at h1
  | cons a0 a ih =>
    cases b with
    | nil => simp at h1
    | cons b0 b =>
      cases c with
      | nil =>
        cases d with
        | nil => simp
        | cons _ _ => simp at h2
      | cons c0 c =>
        cases d with
        | nil => simp at h2
        | cons d0 d =>
          simp only [List.zipWith_cons_cons]
          rw [hfg, ih b c d (by simpa using h1) (by simpa using h2)]

/-- index type of the three runs of the additivity statement: defects `a`, `b` and their sum `s` -/
inductive Three where
  | a | b | s

def RAdd (x : Three → Vec) : Prop := x .s = vadd (x .a) (x .b) ∧ (x .a).length = (x .b).length

theorem vadd_eq_axpy (a b : Vec) : vadd a b = axpy 1 b a := by
  unfold vadd axpy
  congr 1
  funext x y
  ring

theorem filt_length (idx : List Nat) (v : Vec) : (filt idx v).length = v.length := by simp [filt]

theorem vadd_zero (n : Nat) : List.replicate n (0 : Rat) = vadd (List.replicate n 0) (List.replicate n 0) := by
  induction n with
  | zero => rfl
  | succ n ih =>
    simp only [List.replicate_succ, vadd, List.zipWith_cons_cons] at ih ⊢
    rw [← ih]
    congr 1
    ring

theorem closed_add : Closed Three .fixed RAdd where
  mul := fun m x h => by
    obtain ⟨h1, h2⟩ := h
    refine ⟨?_, by simp [mulVec_length]⟩
    show mulVec m (x .s) = vadd (mulVec m (x .a)) (mulVec m (x .b))
    rw [h1, vadd_eq_axpy, mulVec_axpy _ _ _ _ h2.symm, ← vadd_eq_axpy]
  flt := fun idx x h => by
    obtain ⟨h1, h2⟩ := h
    refine ⟨?_, by simp [filt_length, h2]⟩
    show filt idx (x .s) = vadd (filt idx (x .a)) (filt idx (x .b))
    rw [h1, vadd_eq_axpy, filt_axpy _ _ _ _ h2.symm, ← vadd_eq_axpy]
  sub := fun x y hx hy => by
    obtain ⟨h1, h2⟩ := hx
    obtain ⟨g1, g2⟩ := hy
    refine ⟨?_, by simp [vsub_length, h2, g2]⟩
    show vsub (x .s) (y .s) = vadd (vsub (x .a) (y .a)) (vsub (x .b) (y .b))
    rw [h1, g1]
    exact zip_interchange (· - ·) (· + ·) (fun a b c d => by ring) _ _ _ _ h2 g2
  zero := fun n => ⟨vadd_zero n, rfl⟩
  add1 := fun x y hx hy => by
    obtain ⟨h1, h2⟩ := hx
    obtain ⟨g1, g2⟩ := hy
    refine ⟨?_, by simp [axpy, h2, g2]⟩
    show axpy 1 (x .s) (y .s) = vadd (axpy 1 (x .a) (y .a)) (axpy 1 (x .b) (y .b))
    rw [h1, g1]
    exact zip_interchange (fun yi xi => yi + 1 * xi) (· + ·) (fun a b c d => by ring) _ _ _ _ g2 h2
  energy := fun h => by cases h
  mindef := fun h => by cases h

end FeatModel.MG
