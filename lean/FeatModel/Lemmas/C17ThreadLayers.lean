import FeatModel.Model.DA.Layers
/-
C17: `DomainAssembler::_build_thread_layers` never wraps around / never fails its final XASSERTs and
delivers thread layers of width at least 2, for EVERY layer-offset list `le` with `3 * nW ≤ le.length`.
-/
namespace FeatModel.DA

/-! ### functional update -/

theorem upd_same (f : Nat → Nat) (i v : Nat) : upd f i v i = v := by
  simp [upd]

theorem upd_other (f : Nat → Nat) (i v j : Nat) (h : j ≠ i) : upd f i v j = f j := by
  simp [upd, h]

/-! ### step 1 -/

theorem advance_ge (le : List Nat) (nl d : Nat) : ∀ (fuel j : Nat), j ≤ advance le nl d fuel j := by
  intro fuel
  induction fuel with
  | zero => intro j; simp [advance]
  | succ n ih =>
    intro j
    unfold advance
    split
    · have := ih (j + 1); omega
    · exact Nat.le_refl _

theorem step1_succ_gt (le : List Nat) (numElems nl nW i : Nat) :
    step1 le numElems nl nW i + 1 ≤ step1 le numElems nl nW (i + 1) := by
  show _ ≤ advance le nl _ nl _
  exact advance_ge le nl _ nl _

theorem step1_mono (le : List Nat) (numElems nl nW i : Nat) : ∀ d : Nat,
    step1 le numElems nl nW i + d ≤ step1 le numElems nl nW (i + d) := by
  intro d
  induction d with
  | zero => simp
  | succ d ih =>
    have := step1_succ_gt le numElems nl nW (i + d)
    have e : i + (d + 1) = i + d + 1 := by omega
    rw [e]; omega

/-! ### step 2: backward sweep -/

theorem sweepBack_inv (N L : Nat) (s : Nat → Nat) (hN : 1 ≤ N) (hL : 3 * N ≤ L + 1)
    (hs0 : s 0 = 0) (hs : ∀ i d, s i + d ≤ s (i + d)) :
    ∀ (m : Nat) (t : Nat → Nat), m < N →
      (∀ i, m < i → i ≤ N → t i + 2 * (N - i) ≤ L) →
      (∀ i, i ≤ m → t i = s i) →
      (t (m + 1) + 2 * (N - (m + 1)) = L ∨
        ∃ k, m < k ∧ k < N ∧ t (m + 1) + 2 * (k - (m + 1)) = s k) →
      2 ≤ t (m + 1) →
      ∃ t2, sweepBack m t = some t2 ∧ t2 0 = 0 ∧ (∀ i, m < i → t2 i = t i) ∧
        ∀ i, i ≤ N → t2 i + 2 * (N - i) ≤ L := by
  intro m
  induction m with
  | zero =>
    intro t _ ha hb _ _
    refine ⟨t, rfl, ?_, fun _ _ => rfl, ?_⟩
    · rw [hb 0 (Nat.le_refl _)]; exact hs0
    · intro i hi
      by_cases h0 : i = 0
      · subst h0
        rw [hb 0 (Nat.le_refl _), hs0]; omega
      · exact ha i (by omega) hi
  | succ j ih =>
    intro t hm ha hb hc hd
    have ha2 := ha (j + 2) (by omega) (by omega)
    unfold sweepBack
    simp only [show j + 1 + 1 = j + 2 from rfl] at hc hd ⊢
    by_cases hA : t (j + 2) < t (j + 1) + 2
    · -- the entry is lowered
      rw [if_pos hA, if_neg (by omega : ¬ t (j + 2) < 2)]
      simp only [upd_same]
      by_cases hbr : t (j + 2) - 2 < 2
      · -- break
        rw [if_pos hbr]
        refine ⟨upd t (j + 1) (t (j + 2) - 2), rfl, ?_, ?_, ?_⟩
        · rw [upd_other _ _ _ _ (by omega), hb 0 (by omega)]; exact hs0
        · intro i hi; rw [upd_other _ _ _ _ (by omega)]
        · intro i hi
          by_cases h1 : j + 1 < i
          · rw [upd_other _ _ _ _ (by omega)]; exact ha i h1 hi
          · by_cases h2 : i = j + 1
            · subst h2; rw [upd_same]; omega
            · rw [upd_other _ _ _ _ h2, hb i (by omega)]
              rcases hc with hc | ⟨k, hk1, hk2, hk3⟩
              · exfalso; omega
              · have := hs i (k - i)
                have e : i + (k - i) = k := by omega
                rw [e] at this
                omega
      · rw [if_neg hbr]
        have := ih (upd t (j + 1) (t (j + 2) - 2)) (by omega)
          (by
            intro i h1 hi
            by_cases h2 : i = j + 1
            · subst h2; rw [upd_same]; omega
            · rw [upd_other _ _ _ _ h2]; exact ha i (by omega) hi)
          (by
            intro i hi
            rw [upd_other _ _ _ _ (by omega)]; exact hb i (by omega))
          (by
            rw [upd_same]
            rcases hc with hc | ⟨k, hk1, hk2, hk3⟩
            · left; omega
            · right; exact ⟨k, by omega, hk2, by omega⟩)
          (by rw [upd_same]; omega)
        obtain ⟨t2, e1, e2, e3, e4⟩ := this
        refine ⟨t2, e1, e2, ?_, e4⟩
        intro i hi
        rw [e3 i (by omega), upd_other _ _ _ _ (by omega)]
    · rw [if_neg hA]
      have hsj : j + 1 ≤ s (j + 1) := by
        have := hs 0 (j + 1)
        rw [hs0] at this
        simpa using this
      have hbj := hb (j + 1) (Nat.le_refl _)
      by_cases hbr : t (j + 1) < 2
      · rw [if_pos hbr]
        refine ⟨t, rfl, ?_, fun _ _ => rfl, ?_⟩
        · rw [hb 0 (by omega)]; exact hs0
        · intro i hi
          by_cases h1 : j + 1 < i
          · exact ha i h1 hi
          · by_cases h2 : i = j + 1
            · subst h2; omega
            · have : i = 0 := by omega
              subst this
              rw [hb 0 (by omega), hs0]; omega
      · rw [if_neg hbr]
        have := ih t (by omega)
          (by
            intro i h1 hi
            by_cases h2 : i = j + 1
            · subst h2; omega
            · exact ha i (by omega) hi)
          (by intro i hi; exact hb i (by omega))
          (by
            right
            exact ⟨j + 1, by omega, hm, by simpa using hbj⟩)
          (by omega)
        obtain ⟨t2, e1, e2, e3, e4⟩ := this
        exact ⟨t2, e1, e2, fun i hi => e3 i (by omega), e4⟩

/-! ### step 3: forward sweep -/

theorem sweepFwd_succ (n : Nat) (t : Nat → Nat) :
    sweepFwd (n + 1) t =
      (if sweepFwd n t (n + 1) < sweepFwd n t n + 2
        then upd (sweepFwd n t) (n + 1) (sweepFwd n t n + 2) else sweepFwd n t) := by
  unfold sweepFwd
  rw [List.range_succ, List.foldl_append]
  simp only [List.foldl_cons, List.foldl_nil]
  split <;> rfl

theorem sweepFwd_inv (N L : Nat) (t : Nat → Nat)
    (ht : ∀ i, i ≤ N → t i + 2 * (N - i) ≤ L) :
    ∀ n, n ≤ N →
      (∀ i, i ≤ N → sweepFwd n t i + 2 * (N - i) ≤ L) ∧
      sweepFwd n t 0 = t 0 ∧
      (∀ i, i < n → sweepFwd n t i + 2 ≤ sweepFwd n t (i + 1)) ∧
      (∀ i, t i ≤ sweepFwd n t i) := by
  intro n
  induction n with
  | zero =>
    intro _
    refine ⟨?_, ?_, ?_, ?_⟩
    · intro i hi; simpa [sweepFwd] using ht i hi
    · simp [sweepFwd]
    · intro i hi; omega
    · intro i; simp [sweepFwd]
  | succ n ih =>
    intro hn
    obtain ⟨i1, i2, i3, i4⟩ := ih (by omega)
    rw [sweepFwd_succ]
    generalize sweepFwd n t = g at *
    by_cases hc : g (n + 1) < g n + 2
    · rw [if_pos hc]
      refine ⟨?_, ?_, ?_, ?_⟩
      · intro i hi
        by_cases h : i = n + 1
        · subst h; rw [upd_same]
          have := i1 n (by omega); omega
        · rw [upd_other _ _ _ _ h]; exact i1 i hi
      · rw [upd_other _ _ _ _ (by omega)]; exact i2
      · intro i hi
        by_cases h : i = n
        · subst h
          rw [upd_same, upd_other _ _ _ _ (by omega)]; omega
        · rw [upd_other _ _ _ _ (by omega), upd_other _ _ _ _ (by omega)]
          exact i3 i (by omega)
      · intro i
        by_cases h : i = n + 1
        · subst h; rw [upd_same]
          have := i4 (n + 1); omega
        · rw [upd_other _ _ _ _ h]; exact i4 i
    · rw [if_neg hc]
      refine ⟨i1, i2, ?_, i4⟩
      intro i hi
      by_cases h : i = n
      · subst h; omega
      · exact i3 i (by omega)

/-! ### the specification -/

/-- the tabulated step 1 is the function `i ↦ if i < n then f i else d` -/
theorem getD_map_range (n d : Nat) (f : Nat → Nat) :
    (fun i => ((List.range n).map f).getD i d) = fun i => if i < n then f i else d := by
  funext i
  by_cases h : i < n
  · simp [List.getD_eq_getElem?_getD, h]
  · simp [List.getD_eq_getElem?_getD, h]

theorem threadLayersFn_spec (nW numElems : Nat) (le : List Nat)
    (h1 : 1 ≤ nW) (h3 : 3 * nW ≤ le.length) :
    ∃ tl : Nat → Nat, threadLayersFn nW numElems le = some tl ∧ tl 0 = 0 ∧ tl nW = le.length - 1 ∧
      ∀ i, i < nW → tl i + 2 ≤ tl (i + 1) := by
  have hL : 3 * nW ≤ (le.length - 1) + 1 := by omega
  have hsb := sweepBack_inv nW (le.length - 1) (step1 le numElems (le.length - 1) nW) h1 hL rfl
    (fun i d => step1_mono le numElems (le.length - 1) nW i d)
    (nW - 1)
    (fun i => if i < nW then step1 le numElems (le.length - 1) nW i else le.length - 1)
    (by omega)
    (by
      intro i hi1 hi2
      have : i = nW := by omega
      subst this
      simp)
    (by
      intro i hi
      have : i < nW := by omega
      simp [this])
    (by
      left
      have e : nW - 1 + 1 = nW := by omega
      rw [e]; simp)
    (by
      have e : nW - 1 + 1 = nW := by omega
      rw [e]; simp; omega)
  obtain ⟨t2, e1, e2, e3, e4⟩ := hsb
  have e3N := e3 nW (by omega)
  simp only [Nat.lt_irrefl, if_false] at e3N
  obtain ⟨f1, f2, f3, f4⟩ := sweepFwd_inv nW (le.length - 1) t2 e4 nW (Nat.le_refl _)
  have g0 : sweepFwd nW t2 0 = 0 := by rw [f2, e2]
  have gN : sweepFwd nW t2 nW = le.length - 1 := by
    have a := f1 nW (Nat.le_refl _)
    have b := f4 nW
    omega
  refine ⟨sweepFwd nW t2, ?_, g0, gN, f3⟩
  unfold threadLayersFn
  simp only [getD_map_range, e1]
  rw [if_pos ⟨g0, gN⟩]

theorem buildThreadLayers_spec (maxW numElems : Nat) (le : List Nat)
    (h : 1 ≤ numWorkersLayered maxW le) :
    ∃ tl : List Nat, buildThreadLayers maxW numElems le = some (numWorkersLayered maxW le, tl) ∧
      tl.length = numWorkersLayered maxW le + 1 ∧ tl.getD 0 0 = 0 ∧
      tl.getD (numWorkersLayered maxW le) 0 = le.length - 1 ∧
      ∀ i, i < numWorkersLayered maxW le → tl.getD i 0 + 2 ≤ tl.getD (i + 1) 0 := by
  have h3 : 3 * numWorkersLayered maxW le ≤ le.length := by
    have := Nat.div_mul_le_self le.length 3
    unfold numWorkersLayered
    omega
  obtain ⟨tl, e1, e2, e3, e4⟩ := threadLayersFn_spec (numWorkersLayered maxW le) numElems le h h3
  have hget : ∀ i, i ≤ numWorkersLayered maxW le →
      ((List.range (numWorkersLayered maxW le + 1)).map tl).getD i 0 = tl i := by
    intro i hi
    have : i < numWorkersLayered maxW le + 1 := by omega
    simp [List.getD_eq_getElem?_getD, this]
  refine ⟨(List.range (numWorkersLayered maxW le + 1)).map tl, ?_, ?_, ?_, ?_, ?_⟩
  · unfold buildThreadLayers
    simp only [e1]
    rw [if_neg (by omega)]
  · simp
  · rw [hget 0 (by omega)]; exact e2
  · rw [hget _ (Nat.le_refl _)]; exact e3
  · intro i hi
    rw [hget i (by omega), hget (i + 1) (by omega)]
    exact e4 i hi

end FeatModel.DA
