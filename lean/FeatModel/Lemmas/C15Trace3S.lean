import FeatModel.Model.FETrace
/-! kernel-checked trace conformity on the tetrahedron, every face in every stored order -/
namespace FeatModel.FE
set_option maxRecDepth 100000 in
theorem trace3S : ([(Fam.L1, Kind.S), (.L2, .S)] : List (Fam × Kind)).all (fun key => traceAll3 key.1 key.2) = true := by decide +kernel
end FeatModel.FE
