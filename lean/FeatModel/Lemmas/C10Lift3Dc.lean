import FeatModel.Lemmas.C10Lift3Db
/-! C10 — 3-D global lift, part 3: the `facesOk` clause for every mesh: fine entities born inside cells (child cells,
inner faces) and children of coarse faces. -/
namespace FeatModel.Refine
open FeatModel.Gen.Refine

theorem fim_mem_lt3 (kind : Kind) : ∀ c < 4, 2 ≤ c → ∀ f < c, 1 ≤ f → ∀ k < faceCount kind c f,
    (((faceIndexMap kind c f 0).getD k []).all fun j => j < faceCount kind c 0) = true := by
  cases kind <;> decide

theorem table_row_len (kind : Kind) (s c f r : Nat) (hs : s < 4) (hfc : f < c) (hcs : c ≤ s)
    (hr : r < refCount kind s c) : ((indexTable kind s c f).getD r []).length = faceCount kind c f := by
  have hl : r < (indexTable kind s c f).length := by
    rw [table_rows kind s hs c (by omega) f (by omega) hfc hcs]; exact hr
  rw [List.getD_eq_getElem?_getD, List.getElem?_eq_getElem hl]
  exact table_cols kind s hs c (by omega) f (by omega) hfc hcs _ (List.getElem_mem hl)

/-- **3-D, every mesh: every sub-entity listed by a fine entity born inside a coarse cell (the child cells and the
    inner faces) is the corresponding local face** -/
theorem faces3_from_cells (M : Mesh) (h : Conf3 M) (c f i r k' : Nat) (hc2 : 2 ≤ c) (hc3 : c ≤ 3) (hf1 : 1 ≤ f)
    (hfc : f < c) (hi : i < M.num 3) (hr : r < refCount M.kind 3 c) (hk : k' < faceCount M.kind c f) :
    sameSet
      ((refine M).tuple f 0 ((refine M).entry c f (offset M.kind M.nums c 3 + i * refCount M.kind 3 c + r) k'))
      ((refine M).localFace c f (offset M.kind M.nums c 3 + i * refCount M.kind 3 c + r) k') = true := by
  have hd3 : M.dim ≤ 3 := by rw [h.dim]; omega
  have hd3' : (3 : Nat) ≤ M.dim := by rw [h.dim]; omega
  have hrowf := refine_tuple_child M hd3 c f 3 i r hfc hc3 hd3' hi hr
  have hrow0 := refine_tuple_child M hd3 c 0 3 i r (by omega) hc3 hd3' hi hr
  have hlenf := table_row_len M.kind 3 c f r (by omega) hfc hc3 hr
  have hlen0 := table_row_len M.kind 3 c 0 r (by omega) (by omega) hc3 hr
  have hentry : (refine M).entry c f (offset M.kind M.nums c 3 + i * refCount M.kind 3 c + r) k'
      = evalTerm M 3 f i (((indexTable M.kind 3 c f).getD r []).getD k' default) := by
    unfold Mesh.entry
    rw [hrowf]
    exact getD_map_nat _ _ k' default (by rw [hlenf]; exact hk)
  have hlocal : (refine M).localFace c f (offset M.kind M.nums c 3 + i * refCount M.kind 3 c + r) k'
      = (((faceIndexMap M.kind c f 0).getD k' []).map fun j =>
          ((indexTable M.kind 3 c 0).getD r []).getD j default).map (evalTerm M 3 0 i) := by
    rw [localFace_map _ c f _ k' (by omega), refine_kind, List.map_map]
    apply List.map_congr_left
    intro j hj
    have hjl := fim_mem_lt3 M.kind c (by omega) hc2 f hfc hf1 k' hk
    rw [List.all_eq_true] at hjl
    have hj' : j < faceCount M.kind c 0 := by simpa using hjl j hj
    unfold Mesh.entry
    rw [hrow0]
    simp only [Function.comp]
    exact getD_map_nat _ _ j default (by rw [hlen0]; exact hj')
  rw [hentry, hlocal]
  have hkf : faceOfTerm (((indexTable M.kind 3 c f).getD r []).getD k' default) < faceCount M.kind 3 2 := by
    have hp : 0 < faceCount M.kind 3 2 := by cases M.kind <;> decide
    have hgen := (faces3_table M.kind c f r k' 0 hc2 hc3 hf1 hfc hr hk (by cases M.kind <;> simp [goodCodes])).1
    generalize ((indexTable M.kind 3 c f).getD r []).getD k' default = t at hgen ⊢
    obtain ⟨off, mult, src, add⟩ := t
    cases src with
    | none => exact hp
    | some p =>
      obtain ⟨a', d, e⟩ := p
      rcases d with _ | _ | _ | d
      · exact hp
      · exact hp
      · cases add <;> simp [cterm3Ok] at hgen <;> simp [faceOfTerm] <;> omega
      · exact hp
  obtain ⟨hgood, _⟩ := h.orient i hi _ hkf
  obtain ⟨htok, hsame⟩ := faces3_table M.kind c f r k' _ hc2 hc3 hf1 hfc hr hk hgood
  exact sameSet_trans (subVerts3_sound M h i f hi hf1 (by omega) _ htok) (sameSet_map_of_sameTerms _ hsame)

/-- 3-D meshes: the child `sim.map(e,b)` of the `e`-th edge of a FACE `Q` contains `Q`'s local vertex `FIM[e][b]` -/
theorem sim_child_face (M : Mesh) (h : Conf3 M) (Q e b : Nat) (hQ : Q < M.num 2) (he : e < faceCount M.kind 2 1)
    (hb : b < 2) :
    simMap M 2 1 0 Q e b < 2 ∧
    M.entry 1 0 (M.entry 2 1 Q e) (simMap M 2 1 0 Q e b)
      = M.entry 2 0 Q (((faceIndexMap M.kind 2 1 0).getD e []).getD b 0) := by
  have hE : M.entry 2 1 Q e < M.num 1 :=
    (shape_facts_g M h.shape 2 1 (by omega) (by rw [h.dim]; omega) (by omega) Q hQ).2 e he
  obtain ⟨hp, hne⟩ := edge_pair3 M h _ hE
  have hf := h.faces 2 1 (by omega) (by omega) (by omega) Q hQ e he
  have hl := (fim_len2 M.kind).1 e he
  rw [localFace_map M 2 1 Q e (by omega), list_len2 hl, hp] at hf
  simp only [List.map_cons, List.map_nil] at hf
  have key := edge_orient_pure M.kind _ _ _ _ b hne hf hb
  have hsm : simMap M 2 1 0 Q e b = congLookup M.kind 1 0
      (FeatModel.Refine.compare M.kind 1 (M.entry 2 0 Q (((faceIndexMap M.kind 2 1 0).getD e []).getD 0 0))
        (M.entry 2 0 Q (((faceIndexMap M.kind 2 1 0).getD e []).getD 1 0))
        [M.entry 1 0 (M.entry 2 1 Q e) 0, M.entry 1 0 (M.entry 2 1 Q e) 1]) b := by
    unfold simMap
    simp only [← hp]
    rfl
  have hlt : simMap M 2 1 0 Q e b < 2 := by
    rw [hsm]
    apply congLookup_lt M.kind 1 0 _ b 2 (by omega)
    cases M.kind <;> decide
  refine ⟨hlt, ?_⟩
  have hm : ∀ m, m < 2 → M.entry 1 0 (M.entry 2 1 Q e) m
      = [M.entry 1 0 (M.entry 2 1 Q e) 0, M.entry 1 0 (M.entry 2 1 Q e) 1].getD m 0 := by
    intro m hm
    have : m = 0 ∨ m = 1 := by omega
    rcases this with rfl | rfl <;> rfl
  rw [hsm] at hlt ⊢
  rw [hm _ hlt, key]
  have hb' : b = 0 ∨ b = 1 := by omega
  rcases hb' with rfl | rfl <;> rfl

theorem edgeVerts_sound3 (M : Mesh) (h : Conf3 M) (Q : Nat) (hQ : Q < M.num 2) (t : Term)
    (ht : edgeTermOk M.kind t = true) :
    sameSet ((refine M).tuple 1 0 (evalTerm M 2 1 Q t)) ((edgeVerts M.kind t).map (evalTerm M 2 0 Q)) = true := by
  obtain ⟨off, mult, src, add⟩ := t
  have hd3 : M.dim ≤ 3 := by rw [h.dim]; omega
  obtain ⟨o00, o01, o02⟩ := off0 M.kind M.nums
  obtain ⟨r11, r22, r21⟩ := rc3 M.kind
  cases src with
  | none =>
    cases add with
    | sim _ _ _ _ => simp [edgeTermOk] at ht
    | const a =>
      simp only [edgeTermOk, Bool.and_eq_true, beq_iff_eq, decide_eq_true_eq] at ht
      obtain ⟨⟨rfl, rfl⟩, ha⟩ := ht
      have e1 : evalTerm M 2 1 Q ⟨2, refCount M.kind 2 1, none, .const a⟩
          = offset M.kind M.nums 1 2 + Q * refCount M.kind 2 1 + a := by
        simp [evalTerm, evalSrc, evalAdd, Nat.mul_comm]
      rw [e1, refine_tuple_child M hd3 1 0 2 Q a (by omega) (by omega) (by rw [h.dim]; omega) hQ ha]
      simp only [edgeVerts]
      exact sameSet_refl _
  | some p =>
    obtain ⟨a', b', e⟩ := p
    cases add with
    | const _ => simp [edgeTermOk] at ht
    | sim cd fd e' b =>
      simp only [edgeTermOk, Bool.and_eq_true, beq_iff_eq, decide_eq_true_eq] at ht
      obtain ⟨⟨⟨⟨⟨⟨⟨⟨rfl, rfl⟩, rfl⟩, rfl⟩, rfl⟩, rfl⟩, rfl⟩, he⟩, hb⟩ := ht
      obtain ⟨hm, hv⟩ := sim_child_face M h Q e' b hQ he hb
      have hE : M.entry 2 1 Q e' < M.num 1 :=
        (shape_facts_g M h.shape 2 1 (by omega) (by rw [h.dim]; omega) (by omega) Q hQ).2 e' he
      have e1 : evalTerm M 2 1 Q ⟨1, 2, some (2, 1, e'), .sim 1 0 e' b⟩
          = offset M.kind M.nums 1 1 + M.entry 2 1 Q e' * refCount M.kind 1 1 + simMap M 2 1 0 Q e' b := by
        simp [evalTerm, evalSrc, evalAdd, Nat.mul_comm, r11]
      rw [e1, refine_tuple_child M hd3 1 0 1 (M.entry 2 1 Q e') _ (by omega) (by omega) (by rw [h.dim]; omega) hE
        (by rw [r11]; exact hm), edgeTable]
      have hm' : simMap M 2 1 0 Q e' b = 0 ∨ simMap M 2 1 0 Q e' b = 1 := by omega
      rw [sameSet_iff]
      rcases hm' with h0 | h0 <;> rw [h0] at hv <;>
        simp [h0, edgeVerts, evalTerm, evalSrc, evalAdd, o00, o01, hv]

/-- **3-D, every mesh: every edge listed by a child of a coarse face is the corresponding local edge** -/
theorem faces3_from_faces (M : Mesh) (h : Conf3 M) (Q r k' : Nat) (hQ : Q < M.num 2) (hr : r < 4)
    (hk : k' < faceCount M.kind 2 1) :
    sameSet
      ((refine M).tuple 1 0 ((refine M).entry 2 1 (offset M.kind M.nums 2 2 + Q * refCount M.kind 2 2 + r) k'))
      ((refine M).localFace 2 1 (offset M.kind M.nums 2 2 + Q * refCount M.kind 2 2 + r) k') = true := by
  have hd3 : M.dim ≤ 3 := by rw [h.dim]; omega
  have hd2 : (2 : Nat) ≤ M.dim := by rw [h.dim]; omega
  obtain ⟨r11, r22, r21⟩ := rc3 M.kind
  have hr' : r < refCount M.kind 2 2 := by rw [r22]; exact hr
  have hrowf := refine_tuple_child M hd3 2 1 2 Q r (by omega) (by omega) hd2 hQ hr'
  have hrow0 := refine_tuple_child M hd3 2 0 2 Q r (by omega) (by omega) hd2 hQ hr'
  have hlenf := table_row_len M.kind 2 2 1 r (by omega) (by omega) (by omega) hr'
  have hlen0 := table_row_len M.kind 2 2 0 r (by omega) (by omega) (by omega) hr'
  have hentry : (refine M).entry 2 1 (offset M.kind M.nums 2 2 + Q * refCount M.kind 2 2 + r) k'
      = evalTerm M 2 1 Q (((indexTable M.kind 2 2 1).getD r []).getD k' default) := by
    unfold Mesh.entry
    rw [hrowf]
    exact getD_map_nat _ _ k' default (by rw [hlenf]; exact hk)
  have hlocal : (refine M).localFace 2 1 (offset M.kind M.nums 2 2 + Q * refCount M.kind 2 2 + r) k'
      = (((faceIndexMap M.kind 2 1 0).getD k' []).map fun j =>
          ((indexTable M.kind 2 2 0).getD r []).getD j default).map (evalTerm M 2 0 Q) := by
    rw [localFace_map _ 2 1 _ k' (by omega), refine_kind, List.map_map]
    apply List.map_congr_left
    intro j hj
    have hjl := fim2_mem_lt M.kind k' hk
    rw [List.all_eq_true] at hjl
    have hj' : j < faceCount M.kind 2 0 := by simpa using hjl j hj
    unfold Mesh.entry
    rw [hrow0]
    simp only [Function.comp]
    exact getD_map_nat _ _ j default (by rw [hlen0]; exact hj')
  rw [hentry, hlocal]
  obtain ⟨htok, hsame⟩ := faces2_table M.kind r hr k' hk
  exact sameSet_trans (edgeVerts_sound3 M h Q hQ _ htok) (sameSet_map_of_sameTerms _ hsame)


theorem facesOk_iff3 (M : Mesh) (hd : M.dim = 3) : M.facesOk = true ↔
    ∀ c f, 1 ≤ f → f < c → c ≤ 3 → ∀ e < M.num c, ∀ k < faceCount M.kind c f,
      sameSet (M.tuple f 0 (M.entry c f e k)) (M.localFace c f e k) = true := by
  unfold Mesh.facesOk
  rw [hd]
  simp only [List.all_eq_true, List.mem_range'_1, List.mem_range]
  constructor
  · intro h c f hf1 hfc hc3 e he k hk
    exact h c ⟨by omega, by omega⟩ f ⟨hf1, by omega⟩ e he k hk
  · intro h c hc f hf e he k hk
    exact h c f hf.1 (by omega) (by omega) e he k hk

/-- **3-D, every mesh size: `facesOk` is preserved by refinement** — every edge / face listed by a refined cell or
    face really is the corresponding local face, for hexahedral and tetrahedral meshes, whatever orientation codes the
    faces and edges have relative to the cells -/
theorem facesOk_refine3 (M : Mesh) (h : Conf3 M) : (refine M).facesOk = true := by
  rw [facesOk_iff3 _ (by rw [refine_dim]; exact h.dim)]
  intro c f hf1 hfc hc3 e he k hk
  rw [refine_kind] at hk
  obtain ⟨o22, o23, o33, r22, r32, r33⟩ := off3 M.kind M.nums
  have hc : c = 2 ∨ c = 3 := by omega
  rcases hc with rfl | rfl
  · -- a fine face: child of a coarse face or inner face of a cell
    have hf : f = 1 := by omega
    subst hf
    rw [fine_sizes3 M ⟨h.dim, h.shape⟩] at he
    by_cases hlo : e < 4 * M.num 2
    · have := faces3_from_faces M h (e / 4) (e % 4) k (by omega) (by omega) hk
      rw [o22, r22] at this
      have e1 : 0 + e / 4 * 4 + e % 4 = e := by omega
      rw [e1] at this
      exact this
    · obtain ⟨y, hey⟩ : ∃ y, e = 4 * M.num 2 + y := ⟨e - 4 * M.num 2, by omega⟩
      have hy : y < refCount M.kind 3 2 * M.num 3 := by omega
      have hi : y / refCount M.kind 3 2 < M.num 3 := Nat.div_lt_of_lt_mul hy
      have hr : y % refCount M.kind 3 2 < refCount M.kind 3 2 := Nat.mod_lt _ r32
      have := faces3_from_cells M h 2 1 (y / refCount M.kind 3 2) (y % refCount M.kind 3 2) k (by omega) (by omega)
        (by omega) (by omega) hi hr hk
      rw [o23] at this
      have e1 : 4 * M.nums.getD 2 0 + y / refCount M.kind 3 2 * refCount M.kind 3 2 + y % refCount M.kind 3 2 = e := by
        have := Nat.div_add_mod y (refCount M.kind 3 2)
        have hn : M.num 2 = M.nums.getD 2 0 := rfl
        rw [Nat.mul_comm] at this
        omega
      rw [e1] at this
      exact this
  · -- a fine cell
    have hn3 : (refine M).num 3 = refCount M.kind 3 3 * M.num 3 := by
      rw [refine_num M 3 (by rw [h.dim]; omega)]; unfold fineCount
      rw [h.dim, offset_succ _ _ 3 3 (by omega), o33]; simp [Mesh.num]
    rw [hn3] at he
    have hi : e / refCount M.kind 3 3 < M.num 3 := Nat.div_lt_of_lt_mul he
    have hr : e % refCount M.kind 3 3 < refCount M.kind 3 3 := Nat.mod_lt _ r33
    have := faces3_from_cells M h 3 f (e / refCount M.kind 3 3) (e % refCount M.kind 3 3) k (by omega) (by omega)
      hf1 hfc hi hr hk
    rw [o33] at this
    have e1 : 0 + e / refCount M.kind 3 3 * refCount M.kind 3 3 + e % refCount M.kind 3 3 = e := by
      have := Nat.div_add_mod e (refCount M.kind 3 3)
      rw [Nat.mul_comm] at this
      omega
    rw [e1] at this
    exact this


theorem entity_key_inj (M : Mesh) (hs : M.shapeOk = true) (hdis : M.distinctOk = true) (c : Nat) (hc1 : 1 ≤ c)
    (hc : c ≤ M.dim) (i i' : Nat) (hi : i < M.num c) (hi' : i' < M.num c)
    (hk : setKey (M.num 0) (M.tuple c 0 i) = setKey (M.num 0) (M.tuple c 0 i')) : i = i' := by
  unfold Mesh.distinctOk at hdis
  rw [List.all_eq_true] at hdis
  have := hdis c (by rw [List.mem_range'_1]; omega)
  rw [Bool.and_eq_true] at this
  have hnd := (allDistinct_iff _).1 this.2
  have hlen := ((shapeOk_iff M).1 hs c hc1 hc 0 (by omega)).1
  have hl : ((M.idx c 0).map (setKey (M.num 0))).length = M.num c := by rw [List.length_map, hlen]
  have e : ∀ k, k < M.num c → ((M.idx c 0).map (setKey (M.num 0))).getD k 0 = setKey (M.num 0) (M.tuple c 0 k) := by
    intro k hk
    unfold Mesh.tuple
    simp [List.getD_eq_getElem?_getD, List.getElem?_eq_getElem (show k < (M.idx c 0).length by omega)]
  exact (List.getD_inj (fallback := 0) (by omega) (by omega) hnd).1 (by rw [e i hi, e i' hi', hk])

theorem orientOk_iff3 (M : Mesh) (hd : M.dim = 3) : M.orientOk = true ↔
    ∀ i < M.num 3, ∀ k < faceCount M.kind 3 2, faceCode M i k ∈ goodCodes M.kind ∧
      ∀ j < faceCount M.kind 2 0,
        M.entry 2 0 (M.entry 3 2 i k) (congLookup M.kind 2 0 (faceCode M i k) j)
          = M.entry 3 0 i (((faceIndexMap M.kind 3 2 0).getD k []).getD j 0) := by
  unfold Mesh.orientOk
  rw [hd]
  simp [List.all_eq_true, List.range'_succ]

/-- the hypotheses of the 3-D lift follow from conformity (`consistent` + `orientOk`) -/
theorem conf3_of_consistent3 (M : Mesh) (hd : M.dim = 3) (h : M.consistent3 = true) : Conf3 M := by
  unfold Mesh.consistent3 Mesh.consistent at h
  simp only [Bool.and_eq_true, beq_iff_eq] at h
  obtain ⟨⟨⟨⟨⟨⟨_, hs⟩, hf⟩, hdis⟩, _⟩, _⟩, ho⟩ := h
  have hn := nodupOk_of_distinctOk M hdis
  refine { dim := hd, shape := hs, faces := (facesOk_iff3 M hd).1 hf, nodup := hn, edgeId := ?_,
           orient := (orientOk_iff3 M hd).1 ho }
  intro E hE E' hE' hsame
  have hlen := ((shapeOk_iff M).1 hs 1 (by omega) (by rw [hd]; omega) 0 (by omega)).1
  have n1 := hn 1 (by omega) (by rw [hd]; omega) _ (tuple_mem_idx M 1 0 E (by omega))
  have n2 := hn 1 (by omega) (by rw [hd]; omega) _ (tuple_mem_idx M 1 0 E' (by omega))
  exact entity_key_inj M hs hdis 1 (by omega) (by rw [hd]; omega) E E' hE hE'
    (setKey_of_sameSet _ _ _ n1 n2 hsame)


end FeatModel.Refine
