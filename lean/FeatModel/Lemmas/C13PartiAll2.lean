/-
C13 / C12 bridge: vertex + edge DOFs at once (the pattern of the all-dimensions numbering).
-/
import FeatModel.Lemmas.C13PartiAll
import FeatModel.Lemmas.C13PartiCells
open FeatModel.Dist FeatModel.Parti FeatModel.Adj

namespace FeatModel.C13L

theorem dop_ranks (m : Mesh) (p : Parti) (d r : Nat) (hr : r < p.nDom) :
    ((decompOfPartiDim m p d).patch r).nbrs.map (·.1) = commRanks m p r := by
  rw [dop_patch m p d r hr]
  simp only [List.map_map]
  have : ((fun x : Nat × List Nat => x.1) ∘ fun s => (s, halo m p r s d)) = id := rfl
  rw [this, List.map_id]

theorem target_lt (m : Mesh) (cells : List Nat) (d : Nat) (hd : d < m.dim) (g : Nat) (hg : g ∈ m.target cells d) :
    g < m.numOf d := by
  rw [target_succ m cells d hd, mem_deductStep] at hg
  exact hg.1

/-- vertex DOFs followed by edge DOFs (global edge numbers shifted by the number of vertices) -/
theorem WF_of_partition_01 (m : Mesh) (p : Parti) (hm : m.consistent = true) (hf : m.facetsOk = true)
    (hp : isPartition p = true) (hd : 1 < m.dim) :
    ((decompOfPartiDim m p 0).append (decompOfPartiDim m p 1) (m.numOf 0)).WF := by
  apply WF_append _ _ _ (WF_of_partition_facets m p hm hf hp 0 (by omega))
    (WF_of_partition_facets m p hm hf hp 1 hd)
  · rw [dop_np, dop_np]
  · intro r hr
    rw [dop_np] at hr
    rw [dop_ranks m p 0 r hr, dop_ranks m p 1 r hr]
  · intro r hr g hg
    rw [dop_np] at hr
    rw [dop_lmap m p 0 r hr] at hg
    exact target_lt m _ 0 (by omega) g hg

end FeatModel.C13L
