/-
C13 extensions: the base splitter (`Global::Splitter`): a muxer between the partitioned vector and the
unpartitioned base vector, with a `from_1_to_0` conversion before the join.
-/
import FeatModel.Lemmas.C13ExtSync
import FeatModel.Lemmas.C13CompGate
import FeatModel.Lemmas.C13ExtExpand
open FeatModel.Dist

set_option linter.unusedSectionVars false

namespace FeatModel.C13L

/-- the splitter data fit the decomposition: root mirrors `rm r` enumerate the local DOFs of patch `r` once,
patch mirrors `bm r` list their base DOFs in the same order, buffers fit into `B` -/
structure SplitterOK (d : Decomp) (rm bm : List (List Nat)) (B nBase : Nat) : Prop where
  wf : d.WF
  rmLen : rm.length = d.np
  bmLen : bm.length = d.np
  nodup : ∀ r, r < d.np → (rm.getD r []).Nodup
  range : ∀ r, r < d.np → ∀ i ∈ rm.getD r [], i < (d.patch r).n
  cover : ∀ r, r < d.np → ∀ i, i < (d.patch r).n → i ∈ rm.getD r []
  bmEq : ∀ r, r < d.np → bm.getD r [] = (rm.getD r []).map (d.gdof r)
  base : ∀ r, r < d.np → ∀ i, i < (d.patch r).n → d.gdof r i < nBase
  buf : ∀ r, r < d.np → (rm.getD r []).length ≤ B

variable {α : Type} [Field α]

/-! ### leaf mirrors on scalar leaf vectors -/

theorem leaf_getD (l : List (List Nat)) (c : Nat) : (l.map CMir.leaf).getD c default = CMir.leaf (l.getD c []) := by
  by_cases h : c < l.length
  · simp [List.getD_eq_getElem?_getD, h]
  · simp [List.getD_eq_getElem?_getD, Nat.not_lt.1 h]; rfl

theorem flatIdx_leaf1 (idx : List Nat) (pod : List α) : (CMir.leaf idx).flatIdx (CVec.leaf 1 pod) 0 = idx := by
  simp [CMir.flatIdx, expand_one]

theorem wf_leaf1 (idx : List Nat) (pod : List α) :
    (CMir.leaf idx).wf (CVec.leaf 1 pod) = true ↔ ∀ i ∈ idx, i < pod.length := by
  simp [CMir.wf]; rfl

theorem bufSize_leaf1 (idx : List Nat) (pod : List α) : (CMir.leaf idx).bufSize (CVec.leaf 1 pod) = idx.length := by
  simp [CMir.bufSize]

theorem getD_map_patches {β : Type} (ps : List Patch) (F : Patch → β) (dflt : β) (r : Nat) (hr : r < ps.length) :
    (ps.map F).getD r dflt = F (ps.getD r default) := by
  simp [List.getD_eq_getElem?_getD, hr]

theorem zip_map_self {β : Type} (l : List Nat) (f : Nat → β) : (l.map f).zip l = l.map fun i => (f i, i) := by
  induction l with
  | nil => rfl
  | cons a l ih => simp [ih]

/-! ### (S1) split -/

theorem splitterSplit_getD {d : Decomp} {rm bm : List (List Nat)} {B nBase : Nat} (ok : SplitterOK d rm bm B nBase)
    (base : List α) (hb : base.length = nBase) (r : Nat) (hr : r < d.np) :
    (splitterSplit B d.patches rm bm base).getD r []
      = scatterAxpy (List.replicate (d.patch r).n 0) (rm.getD r []) (gather (bm.getD r []) base) 1 := by
  have hlen : (bm.map CMir.leaf).length = d.np := by rw [List.length_map, ok.bmLen]
  have htr : ∀ c, c < d.np → (d.patches.map fun p => CVec.leaf 1 (List.replicate p.n (0:α))).getD c default
      = CVec.leaf 1 (List.replicate (d.patch c).n 0) := fun c hc => getD_map_patches _ _ _ c hc
  have hbm : ∀ c, c < d.np → ∀ g ∈ bm.getD c [], g < nBase := by
    intro c hc g hg
    rw [ok.bmEq c hc] at hg
    obtain ⟨i, hi, rfl⟩ := List.mem_map.1 hg
    exact ok.base c hc i (ok.range c hc i hi)
  have key := (muxSplit_flat B (rm.map CMir.leaf) (bm.map CMir.leaf) (CVec.leaf 1 base)
    (d.patches.map fun p => CVec.leaf 1 (List.replicate p.n (0:α)))
    (fun c hc => by
      rw [hlen] at hc
      rw [leaf_getD, htr c hc, wf_leaf1]
      intro i hi; rw [List.length_replicate]; exact ok.range c hc i hi)
    (fun c hc => by
      rw [hlen] at hc
      rw [leaf_getD, wf_leaf1]
      intro g hg; rw [hb]; exact hbm c hc g hg)
    (fun c hc => by
      rw [hlen] at hc
      rw [leaf_getD, leaf_getD, htr c hc, bufSize_leaf1, bufSize_leaf1, ok.bmEq c hc, List.length_map]
      exact ⟨rfl, ok.buf c hc⟩)
    r (by rw [hlen]; exact hr)).2
  unfold splitterSplit
  rw [getD_map_flat, key, leaf_getD, leaf_getD, htr r hr, flatIdx_leaf1, flatIdx_leaf1]
  simp [CVec.zero, CVec.flat]

theorem splitterSplit_length {d : Decomp} {rm bm : List (List Nat)} {B nBase : Nat} (ok : SplitterOK d rm bm B nBase)
    (base : List α) (hb : base.length = nBase) (r : Nat) (hr : r < d.np) :
    ((splitterSplit B d.patches rm bm base).getD r []).length = (d.patch r).n := by
  rw [splitterSplit_getD ok base hb r hr, scatterAxpy_length, List.length_replicate]

theorem splitterSplit_val {d : Decomp} {rm bm : List (List Nat)} {B nBase : Nat} (ok : SplitterOK d rm bm B nBase)
    (base : List α) (hb : base.length = nBase) (r : Nat) (hr : r < d.np) (i : Nat) (hi : i < (d.patch r).n) :
    val ((splitterSplit B d.patches rm bm base).getD r []) i = val base (d.gdof r i) := by
  rw [splitterSplit_getD ok base hb r hr, ok.bmEq r hr]
  have hmem : (d.gdof r i, i) ∈ ((rm.getD r []).map (d.gdof r)).zip (rm.getD r []) := by
    rw [zip_map_self]; exact List.mem_map.2 ⟨i, ok.cover r hr i hi, rfl⟩
  have := val_scatter_gather_zip (List.replicate (d.patch r).n (0:α)) ((rm.getD r []).map (d.gdof r)) (rm.getD r [])
    base (by simp) (ok.nodup r hr) (fun j hj => by rw [List.length_replicate]; exact ok.range r hr j hj) _ hmem
  rw [this, val_replicate _ _ _ hi, zero_add]

/-! ### (S2) join -/

/-- a duplicate-free enumeration of `0 … n-1` -/
theorem perm_range_of_cover (l : List Nat) (n : Nat) (hn : l.Nodup) (h1 : ∀ i ∈ l, i < n) (h2 : ∀ i, i < n → i ∈ l) :
    l.Perm (List.range n) := by
  apply (List.perm_ext_iff_of_nodup hn List.nodup_range).2
  intro i
  rw [List.mem_range]
  exact ⟨h1 i, h2 i⟩

/-- the join without assumption on the input: the sum over all patches of their `from_1_to_0` values for `g` -/
theorem splitterJoin_sum {d : Decomp} {rm bm : List (List Nat)} {B nBase : Nat} (ok : SplitterOK d rm bm B nBase)
    (vs : List (List α)) (hv : ∀ r, r < d.np → (vs.getD r []).length = (d.patch r).n)
    (g : Nat) (hg : g < nBase) :
    (splitterJoin B d.patches rm bm vs nBase).length = nBase ∧
    val (splitterJoin B d.patches rm bm vs nBase) g
      = ((List.range d.np).map fun s => (d.sharedVals (from1to0All d.patches vs) s g).sum).sum := by
  have hlen : (bm.map CMir.leaf).length = d.np := by rw [List.length_map, ok.bmLen]
  have hsr : ∀ c, c < d.np →
      ((List.range d.patches.length).map fun r =>
        CVec.leaf 1 (from1to0 (d.patches.getD r default) (vs.getD r []))).getD c default
      = CVec.leaf 1 ((from1to0All d.patches vs).getD c []) := by
    intro c hc
    have hc' : c < d.patches.length := hc
    rw [getD_map_range _ _ _ _ hc', from1to0All_getD d vs c hc]; rfl
  have hfl : ∀ c, c < d.np → ((from1to0All d.patches vs).getD c []).length = (d.patch c).n := by
    intro c hc; rw [from1to0All_getD d vs c hc]; exact from1to0_length _ _ (hv c hc)
  have hpm : ∀ c < (bm.map CMir.leaf).length, ((rm.map CMir.leaf).getD c default).wf
      (((List.range d.patches.length).map fun r =>
        CVec.leaf 1 (from1to0 (d.patches.getD r default) (vs.getD r []))).getD c default) = true := by
    intro c hc
    rw [hlen] at hc
    rw [leaf_getD, hsr c hc, wf_leaf1]
    intro i hi; rw [hfl c hc]; exact ok.range c hc i hi
  have hcm : ∀ c < (bm.map CMir.leaf).length,
      ((bm.map CMir.leaf).getD c default).wf (CVec.leaf 1 (List.replicate nBase (0:α))) = true := by
    intro c hc
    rw [hlen] at hc
    rw [leaf_getD, wf_leaf1, ok.bmEq c hc]
    intro g' hg'
    obtain ⟨i, hi, rfl⟩ := List.mem_map.1 hg'
    rw [List.length_replicate]; exact ok.base c hc i (ok.range c hc i hi)
  have hsz : ∀ c < (bm.map CMir.leaf).length,
      ((rm.map CMir.leaf).getD c default).bufSize
        (((List.range d.patches.length).map fun r =>
          CVec.leaf 1 (from1to0 (d.patches.getD r default) (vs.getD r []))).getD c default)
        = ((bm.map CMir.leaf).getD c default).bufSize (CVec.leaf 1 (List.replicate nBase (0:α)))
      ∧ ((bm.map CMir.leaf).getD c default).bufSize (CVec.leaf 1 (List.replicate nBase (0:α))) ≤ B := by
    intro c hc
    rw [hlen] at hc
    rw [leaf_getD, leaf_getD, hsr c hc, bufSize_leaf1, bufSize_leaf1, ok.bmEq c hc, List.length_map]
    exact ⟨rfl, ok.buf c hc⟩
  unfold splitterJoin
  refine ⟨?_, ?_⟩
  · rw [← podSize_eq_flat_length, sameShape_podSize (muxJoin_flat B _ _ _ _ hpm hcm hsz).1]
    simp [CVec.podSize]
  · rw [muxJoin_val B _ _ _ _ hpm hcm hsz g (by simpa [CVec.podSize] using hg), hlen]
    congr 1
    apply List.map_congr_left
    intro c hc
    have hc := List.mem_range.1 hc
    rw [leaf_getD, leaf_getD, hsr c hc, flatIdx_leaf1, flatIdx_leaf1, ok.bmEq c hc, zip_map_self, List.filter_map,
      List.map_map]
    unfold Decomp.sharedVals
    have hp := perm_range_of_cover (rm.getD c []) (d.patch c).n (ok.nodup c hc) (ok.range c hc) (ok.cover c hc)
    rw [← ok.wf.size c hc]
    refine ((hp.filter _).map _).sum_eq.trans ?_
    have e1 : ((fun p : Nat × Nat => decide (p.1 = g)) ∘ fun i => (d.gdof c i, i)) = fun j => d.gdof c j == g := by
      funext j; simp only [Function.comp]; exact (beq_eq_decide _ _).symm
    rw [e1]; rfl

theorem splitterJoin_covered [CharZero α] {d : Decomp} {rm bm : List (List Nat)} {B nBase : Nat}
    (ok : SplitterOK d rm bm B nBase) (vs : List (List α)) (X : Nat → α)
    (hv : ∀ r, r < d.np → (vs.getD r []).length = (d.patch r).n)
    (hX : ∀ r, r < d.np → ∀ i, i < (d.patch r).n → val (vs.getD r []) i = X (d.gdof r i))
    (r : Nat) (hr : r < d.np) (i : Nat) (hi : i < (d.patch r).n) :
    val (splitterJoin B d.patches rm bm vs nBase) (d.gdof r i) = X (d.gdof r i) := by
  rw [(splitterJoin_sum ok vs hv _ (ok.base r hr i hi)).2,
    sum_sharedVals_from1to0 d ok.wf vs hv
      (fun r s i j hr hs hi hj hg => by rw [hX r hr i hi, hX s hs j hj, hg]) r hr i hi, hX r hr i hi]

theorem splitterJoin_uncovered {d : Decomp} {rm bm : List (List Nat)} {B nBase : Nat}
    (ok : SplitterOK d rm bm B nBase) (vs : List (List α))
    (hv : ∀ r, r < d.np → (vs.getD r []).length = (d.patch r).n)
    (g : Nat) (hg : g < nBase) (hun : ∀ r, r < d.np → g ∉ d.lmap r) :
    val (splitterJoin B d.patches rm bm vs nBase) g = 0 := by
  rw [(splitterJoin_sum ok vs hv g hg).2]
  have : ∀ s ∈ List.range d.np, (d.sharedVals (from1to0All d.patches vs) s g).sum = 0 := by
    intro s hs
    rw [sharedVals_nil]
    · simp
    · intro j hj he
      apply hun s (List.mem_range.1 hs)
      rw [← he]
      simp [Decomp.gdof, List.getD_eq_getElem?_getD, hj]
  rw [List.map_congr_left this]
  simp

/-! ### (S3) round trips -/

theorem splitter_split_join [CharZero α] {d : Decomp} {rm bm : List (List Nat)} {B nBase : Nat}
    (ok : SplitterOK d rm bm B nBase) (vs : List (List α)) (X : Nat → α)
    (hv : ∀ r, r < d.np → (vs.getD r []).length = (d.patch r).n)
    (hX : ∀ r, r < d.np → ∀ i, i < (d.patch r).n → val (vs.getD r []) i = X (d.gdof r i))
    (r : Nat) (hr : r < d.np) (i : Nat) (hi : i < (d.patch r).n) :
    val ((splitterSplit B d.patches rm bm (splitterJoin B d.patches rm bm vs nBase)).getD r []) i
      = val (vs.getD r []) i := by
  rw [splitterSplit_val ok _ (splitterJoin_sum ok vs hv _ (ok.base r hr i hi)).1 r hr i hi,
    splitterJoin_covered ok vs X hv hX r hr i hi, hX r hr i hi]

theorem splitter_join_split [CharZero α] {d : Decomp} {rm bm : List (List Nat)} {B nBase : Nat}
    (ok : SplitterOK d rm bm B nBase) (base : List α) (hb : base.length = nBase)
    (r : Nat) (hr : r < d.np) (i : Nat) (hi : i < (d.patch r).n) :
    val (splitterJoin B d.patches rm bm (splitterSplit B d.patches rm bm base) nBase) (d.gdof r i)
      = val base (d.gdof r i) :=
  splitterJoin_covered ok _ (fun g => val base g) (fun s hs => splitterSplit_length ok base hb s hs)
    (fun s hs j hj => splitterSplit_val ok base hb s hs j hj) r hr i hi

end FeatModel.C13L
