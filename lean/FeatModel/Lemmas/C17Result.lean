import FeatModel.Lemmas.C17Partition
import FeatModel.Lemmas.C17Cover
import FeatModel.Model.DA.Fence
/-!
C17: glue between the output of `compile` and the protocol machines (`LCfg.ofDist`, `CCfg.ofDist`): the index
ranges the workers of the machines walk through, mapped to cells, are together the selected cells (each once), and
the hypotheses of the layered protocol theorems hold for `compile`'s output; the result of a complete run does not
depend on the order of the log.  Core Lean only.
-/
open FeatModel.Adj

namespace FeatModel.DA

/-! ### slices as index ranges -/

theorem rs_slice_eq (xs : List Nat) (a b : Nat) (hb : b ≤ xs.length) :
    slice xs a b = (List.range' a (b - a)).map (fun p => xs.getD p 0) := by
  unfold slice
  apply List.ext_getElem
  · simp; omega
  · intro i h1 h2
    simp only [List.length_map, List.length_range'] at h2
    simp only [List.getElem_take, List.getElem_drop, List.getElem_map, List.getElem_range',
      List.getD_eq_getElem?_getD]
    rw [List.getElem?_eq_getElem (by omega)]
    simp

theorem rs_chain (f : Nat → Nat) (n : Nat) (hm : ∀ k, k < n → f k ≤ f (k + 1)) (i : Nat) (hi : i ≤ n) :
    f i ≤ f n := by
  have := cov_cut_mono (fun k => f (i + k)) (n - i) (fun k hk => hm (i + k) (by omega))
  simp only [Nat.add_zero] at this
  rw [show i + (n - i) = n by omega] at this
  exact this

/-! ### layered -/

theorem rs_layered_facts (strategy maxW nvt : Nat) (cells : List (List Nat)) (sel : List Nat)
    (hsel : ∀ c, c ∈ sel → ∀ v, v ∈ cells.getD c [] → v < nvt)
    (d : Dist) (h : compile strategy maxW nvt cells sel = some d) (hs : d.strategy ≠ 4) (h2 : 2 ≤ d.nW) :
    d.elemIdx.Perm sel ∧ 3 ≤ d.layerElems.length ∧
    d.layerElems.getD 0 0 = 0 ∧ d.layerElems.getD (d.layerElems.length - 1) 0 = d.elemIdx.length ∧
    (∀ i j, i < j → j < d.layerElems.length → d.layerElems.getD i 0 < d.layerElems.getD j 0) ∧
    d.threadLayers.getD 0 0 = 0 ∧ d.threadLayers.getD d.nW 0 = d.layerElems.length - 1 ∧
    (∀ i, i < d.nW → d.threadLayers.getD i 0 + 2 ≤ d.threadLayers.getD (i + 1) 0) := by
  have hv := pt_vertex_bound nvt cells sel hsel
  obtain ⟨hsq, hnd, hwf, _, _⟩ := neighbours_wf nvt _ hv
  rw [List.length_map] at hnd
  rcases pt_compile_shape strategy maxW nvt cells sel d h with
    ⟨_, hd⟩ | ⟨_, hn, _⟩ | ⟨hne, _, _, rev, sorted, nW, hbl, hbt, hn⟩ | ⟨_, _, hs', _, _, _⟩
  · subst hd; exact absurd h2 (by simp)
  · omega
  · have hpos : 0 < (neighbours nvt (sel.map fun c => cells.getD c [])).nDom := by
      rw [hnd]; exact List.length_pos_iff.2 hne
    obtain ⟨p1, p2, p3, p4⟩ := bfs_layers_partition _ sel rev sorted hsq hwf hnd.symm hpos _ _ hbl
    obtain ⟨_, q⟩ := pt_btl _ _ _ _ _ hbt
    have e : d.nW = nW := by
      rw [hn]; split
      · rename_i h'; rw [hn, if_pos h'] at h2; omega
      · rfl
    obtain ⟨q0, q1, q2, q3⟩ := q (by omega)
    rw [← e] at q2 q3
    exact ⟨p1, q0, p2, p3, p4, q1, q2, q3⟩
  · exact absurd hs' hs

/-- the hypotheses the layered protocol theorems need hold for `compile`'s output -/
theorem rs_layered_hyps (strategy maxW nvt : Nat) (cells : List (List Nat)) (sel : List Nat)
    (hsel : ∀ c, c ∈ sel → ∀ v, v ∈ cells.getD c [] → v < nvt)
    (d : Dist) (h : compile strategy maxW nvt cells sel = some d) (hs : d.strategy ≠ 4) (h2 : 2 ≤ d.nW) :
    (∀ i j, i < j → j ≤ d.threadLayers.getD d.nW 0 → d.layerElems.getD i 0 < d.layerElems.getD j 0) ∧
    (∀ i, i < d.nW → d.threadLayers.getD i 0 + 2 ≤ d.threadLayers.getD (i + 1) 0) := by
  obtain ⟨_, l3, _, _, lm, _, t1, tg⟩ := rs_layered_facts strategy maxW nvt cells sel hsel d h hs h2
  refine ⟨fun i j hij hj => lm i j hij (by omega), tg⟩

/-- layered machine: the workers' index ranges, mapped to cells, are together the selected cells -/
theorem rs_layered_shares (strategy maxW nvt : Nat) (cells : List (List Nat)) (sel : List Nat)
    (hsel : ∀ c, c ∈ sel → ∀ v, v ∈ cells.getD c [] → v < nvt)
    (d : Dist) (h : compile strategy maxW nvt cells sel = some d) (hs : d.strategy ≠ 4) (h2 : 2 ≤ d.nW)
    (comb : Bool) :
    ((List.range d.nW).flatMap fun k =>
      (List.range' ((LCfg.ofDist d comb).beg (k + 1))
        ((LCfg.ofDist d comb).fin (k + 1) - (LCfg.ofDist d comb).beg (k + 1))).map (LCfg.ofDist d comb).cell).Perm sel := by
  obtain ⟨hp, l3, l0, l1, lm, t0, t1, tg⟩ := rs_layered_facts strategy maxW nvt cells sel hsel d h hs h2
  have hle : ∀ w, w ≤ d.nW → d.layerElems.getD (d.threadLayers.getD w 0) 0 ≤ d.elemIdx.length := by
    intro w hw
    have g2 := pt_tl_le d.threadLayers d.nW tg (d.nW - w) w (by omega)
    rw [← l1]
    by_cases e : d.threadLayers.getD w 0 = d.layerElems.length - 1
    · rw [e]; exact Nat.le_refl _
    · exact Nat.le_of_lt (lm _ _ (by omega) (by omega))
  have hm : ∀ w, w < d.nW → d.layerElems.getD (d.threadLayers.getD w 0) 0 ≤
      d.layerElems.getD (d.threadLayers.getD (w + 1) 0) 0 := by
    intro w hw
    have g1 := tg w hw
    have g2 := pt_tl_le d.threadLayers d.nW tg (d.nW - (w + 1)) (w + 1) (by omega)
    exact Nat.le_of_lt (lm _ _ (by omega) (by omega))
  have e : ((List.range d.nW).flatMap fun k =>
      (List.range' ((LCfg.ofDist d comb).beg (k + 1))
        ((LCfg.ofDist d comb).fin (k + 1) - (LCfg.ofDist d comb).beg (k + 1))).map (LCfg.ofDist d comb).cell) =
      (List.range d.nW).flatMap (fun k => slice d.elemIdx
        ((fun w => d.layerElems.getD (d.threadLayers.getD w 0) 0) k)
        ((fun w => d.layerElems.getD (d.threadLayers.getD w 0) 0) (k + 1))) := by
    apply cov_flatMap_congr
    intro k hk
    have hk' : k < d.nW := List.mem_range.1 hk
    simp only [LCfg.ofDist, LCfg.ofFns, Nat.add_sub_cancel]
    exact (rs_slice_eq d.elemIdx _ _ (hle (k + 1) (by omega))).symm
  rw [e, cov_slices_tile d.elemIdx _ d.nW (by simp only [t0, l0]) (by simp only [t1, l1]) hm]
  exact hp

/-! ### colored -/

theorem rs_colored_facts (strategy maxW nvt : Nat) (cells : List (List Nat)) (sel : List Nat)
    (hsel : ∀ c, c ∈ sel → ∀ v, v ∈ cells.getD c [] → v < nvt)
    (d : Dist) (h : compile strategy maxW nvt cells sel = some d) (hs : d.strategy = 4) (h2 : 2 ≤ d.nW) :
    d.elemIdx.Perm sel ∧ 1 ≤ d.colorElems.length ∧ d.colorElems.getD 0 0 = 0 ∧
    d.colorElems.getD (d.colorElems.length - 1) 0 = d.elemIdx.length ∧
    (∀ c, c + 1 < d.colorElems.length → d.colorElems.getD c 0 ≤ d.colorElems.getD (c + 1) 0) := by
  have hv := pt_vertex_bound nvt cells sel hsel
  obtain ⟨hsq, hnd, hwf, _, _⟩ := neighbours_wf nvt _ hv
  rw [List.length_map] at hnd
  rcases pt_compile_shape strategy maxW nvt cells sel d h with
    ⟨_, hd⟩ | ⟨_, hn, _⟩ | ⟨_, _, hs', _⟩ | ⟨_, _, _, _, hei, hce⟩
  · subst hd; exact absurd h2 (by simp)
  · omega
  · exact absurd hs hs'
  · obtain ⟨_, c1, c2, c3, c4, c5⟩ := pt_colors _ sel maxW hsq hwf hnd.symm
    rw [← hei] at c1 c4
    rw [← hce] at c2 c3 c4 c5
    exact ⟨c1, c2, c3, c4, c5⟩

/-- colored machine: the workers' index ranges of all colours, mapped to cells, are together the selected cells -/
theorem rs_colored_shares (strategy maxW nvt : Nat) (cells : List (List Nat)) (sel : List Nat)
    (hsel : ∀ c, c ∈ sel → ∀ v, v ∈ cells.getD c [] → v < nvt)
    (d : Dist) (h : compile strategy maxW nvt cells sel = some d) (hs : d.strategy = 4) (h2 : 2 ≤ d.nW)
    (comb : Bool) :
    ((List.range d.nW).flatMap fun k => (List.range (CCfg.ofDist d comb).nc).flatMap fun ic =>
      (List.range' ((CCfg.ofDist d comb).cbeg ic (k + 1))
        ((CCfg.ofDist d comb).cend ic (k + 1) - (CCfg.ofDist d comb).cbeg ic (k + 1))).map
          (CCfg.ofDist d comb).cell).Perm sel := by
  obtain ⟨hp, c2, c3, c4, c5⟩ := rs_colored_facts strategy maxW nvt cells sel hsel d h hs h2
  have e : ((List.range d.nW).flatMap fun k => (List.range (CCfg.ofDist d comb).nc).flatMap fun ic =>
      (List.range' ((CCfg.ofDist d comb).cbeg ic (k + 1))
        ((CCfg.ofDist d comb).cend ic (k + 1) - (CCfg.ofDist d comb).cbeg ic (k + 1))).map
          (CCfg.ofDist d comb).cell) =
      (List.range d.nW).flatMap (fun k => workerCells d true (k + 1)) := by
    apply cov_flatMap_congr
    intro k hk
    have hk' : k < d.nW := List.mem_range.1 hk
    rw [cov_workerCells_colored d hs k hk']
    apply cov_flatMap_congr
    intro ic hic
    have hic' : ic < d.colorElems.length - 1 := List.mem_range.1 hic
    simp only [CCfg.ofDist, Nat.add_sub_cancel]
    unfold cov_share
    refine (rs_slice_eq d.elemIdx _ _ ?_).symm
    have m1 := c5 ic (by omega)
    have m2 := rs_chain (fun c => d.colorElems.getD c 0) (d.colorElems.length - 1)
      (fun c hc => c5 c (by omega)) (ic + 1) (by omega)
    simp only [c4] at m2
    have m3 : ((d.colorElems.getD (ic + 1) 0 - d.colorElems.getD ic 0) * (k + 1)) / d.nW ≤
        d.colorElems.getD (ic + 1) 0 - d.colorElems.getD ic 0 :=
      Nat.div_le_of_le_mul (by rw [Nat.mul_comm d.nW]; exact Nat.mul_le_mul_left _ (by omega))
    omega
  rw [e]
  exact (workerCells_cover_colored d (by omega) hs c2 c3 c4 c5).trans hp

/-! ### the result of a complete run -/

/-- the serial result = the result of any complete run: folding the cell contributions in log order -/
theorem rs_fold_eq_serial {α : Type} (op : α → α → α) (hc : ∀ a b, op a b = op b a)
    (ha : ∀ a b c, op (op a b) c = op a (op b c))
    (contrib : Nat → α) (z : α) (log sel : List Nat) (h : log.Perm sel) :
    log.foldl (fun acc c => op acc (contrib c)) z = sel.foldl (fun acc c => op acc (contrib c)) z :=
  threaded_eq_serial op hc ha contrib z log sel h

end FeatModel.DA
