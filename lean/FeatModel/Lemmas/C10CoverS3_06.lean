import FeatModel.Model.RefineCover
/-! C10 local refinement lemma, tetrahedron, pairwise covering family, configurations 42..48 (kernel evaluation). -/
namespace FeatModel.Refine
set_option maxRecDepth 100000

theorem cover_tetra_06 : ∀ j < 7, (refine (cell3c .simplex (j + 42))).consistent = true := by decide +kernel

end FeatModel.Refine
