import FeatModel.Gen.CubatureH2
/-! C14: a slice of the generated tables of shape h2 (split so that lake checks the slices in parallel) -/
namespace FeatModel.Cub

set_option maxRecDepth 100000 in
theorem tabH2b : ((Gen.tablesH2.drop 8).take 2).all (tableObligation .h2) = true := by decide +kernel

end FeatModel.Cub
