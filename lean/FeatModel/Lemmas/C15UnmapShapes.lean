import FeatModel.Lemmas.C15UnmapAffine
import Mathlib.Tactic.IntervalCases
/-! Affine cells (tetrahedra, triangles, intervals, parallelograms) satisfy `AffineAt`; `unmap(map(s)) = s` there. -/
namespace FeatModel.FE
open FeatModel.Poly Finset

theorem affine_S3 (V : List (List Rat)) (hV : worldDim V = 3) (x0 x1 x2 s0 s1 s2 : Rat) :
    AffineAt Kind.S 3 V [x0, x1, x2] [s0, s1, s2] := by
  apply affineAt_of_vertex Kind.S 3 V hV
  intro v hv
  have d := fun i j hi hj => dS Kind.S 3 4 3 _ dShape_S3 i j hi hj
  have hv' : v < 4 := hv
  interval_cases v <;>
  · simp only [Finset.sum_range_succ, Finset.sum_range_zero, d _ 0 hv' (by omega), d _ 1 hv' (by omega), d _ 2 hv' (by omega), List.getD_cons_zero,
      List.getD_cons_succ]
    simp [shapeFn, unitMono, evalAt, eval, monoEval, rpow, pt, List.range_succ, List.replicate]
    try ring

theorem affine_S2 (V : List (List Rat)) (hV : worldDim V = 2) (x0 x1 s0 s1 : Rat) :
    AffineAt Kind.S 2 V [x0, x1] [s0, s1] := by
  apply affineAt_of_vertex Kind.S 2 V hV
  intro v hv
  have d := fun i j hi hj => dS Kind.S 2 3 2 _ dShape_S2 i j hi hj
  have hv' : v < 3 := hv
  interval_cases v <;>
  · simp only [Finset.sum_range_succ, Finset.sum_range_zero, d _ 0 hv' (by omega), d _ 1 hv' (by omega), List.getD_cons_zero,
      List.getD_cons_succ]
    simp [shapeFn, unitMono, evalAt, eval, monoEval, rpow, pt, List.range_succ, List.replicate]
    try ring

theorem affine_H1 (V : List (List Rat)) (hV : worldDim V = 1) (x0 s0 : Rat) :
    AffineAt Kind.H 1 V [x0] [s0] := by
  apply affineAt_of_vertex Kind.H 1 V hV
  intro v hv
  have d := fun i j hi hj => dS Kind.H 1 2 1 _ dShape_H1 i j hi hj
  have hv' : v < 2 := hv
  interval_cases v <;>
  · simp only [Finset.sum_range_succ, Finset.sum_range_zero, d _ 0 hv' (by omega), List.getD_cons_zero,
      List.getD_cons_succ]
    simp [shapeFn_H1.1, shapeFn_H1.2, evalAt, eval, monoEval, rpow, pt]
    try ring


theorem shapeFn_H2 : (List.range 4).map (shapeFn Kind.H 2)
    = [[((1 : Rat)/4, [0, 0]), ((-1 : Rat)/4, [0, 1]), ((-1 : Rat)/4, [1, 0]), ((1 : Rat)/4, [1, 1])],
       [((1 : Rat)/4, [0, 0]), ((-1 : Rat)/4, [0, 1]), ((1 : Rat)/4, [1, 0]), ((-1 : Rat)/4, [1, 1])],
       [((1 : Rat)/4, [0, 0]), ((1 : Rat)/4, [0, 1]), ((-1 : Rat)/4, [1, 0]), ((-1 : Rat)/4, [1, 1])],
       [((1 : Rat)/4, [0, 0]), ((1 : Rat)/4, [0, 1]), ((1 : Rat)/4, [1, 0]), ((1 : Rat)/4, [1, 1])]] := by
  decide +kernel

theorem shapeFn_H2_get (i : Nat) (hi : i < 4) : shapeFn Kind.H 2 i
    = ([[((1 : Rat)/4, [0, 0]), ((-1 : Rat)/4, [0, 1]), ((-1 : Rat)/4, [1, 0]), ((1 : Rat)/4, [1, 1])],
       [((1 : Rat)/4, [0, 0]), ((-1 : Rat)/4, [0, 1]), ((1 : Rat)/4, [1, 0]), ((-1 : Rat)/4, [1, 1])],
       [((1 : Rat)/4, [0, 0]), ((1 : Rat)/4, [0, 1]), ((-1 : Rat)/4, [1, 0]), ((-1 : Rat)/4, [1, 1])],
       [((1 : Rat)/4, [0, 0]), ((1 : Rat)/4, [0, 1]), ((1 : Rat)/4, [1, 0]), ((1 : Rat)/4, [1, 1])]] : List Poly).getD i [] := by
  rw [← shapeFn_H2]
  simp [List.getD_eq_getElem?_getD, List.getElem?_map, List.getElem?_range hi]

/-- a parallelogram (`v0 - v1 - v2 + v3 = 0`) is affine as seen from the centre -/
theorem affine_H2_parallelogram (V : List (List Rat)) (hV : worldDim V = 2) (s0 s1 : Rat)
    (hpar : ∀ a, a < 2 → (V.getD 0 []).getD a 0 - (V.getD 1 []).getD a 0 - (V.getD 2 []).getD a 0
      + (V.getD 3 []).getD a 0 = 0) :
    AffineAt Kind.H 2 V [0, 0] [s0, s1] := by
  intro a ha
  have d := fun i j hi hj => dS Kind.H 2 4 2 _ dShape_H2 i j hi hj
  rw [mapPoint_comp _ _ _ _ a (by omega), mapPoint_comp _ _ _ _ a (by omega)]
  simp only [Finset.sum_range_succ, Finset.sum_range_zero]
  rw [jacMat_comp _ _ _ _ a 0 (by omega) (by omega), jacMat_comp _ _ _ _ a 1 (by omega) (by omega)]
  simp only [numVerts, Nat.reducePow, List.range_succ, List.range_zero, List.nil_append, List.cons_append, List.map_cons,
    List.map_nil, List.sum_cons, List.sum_nil,
    shapeFn_H2_get 0 (by omega), shapeFn_H2_get 1 (by omega), shapeFn_H2_get 2 (by omega), shapeFn_H2_get 3 (by omega),
    d 0 0 (by omega) (by omega), d 0 1 (by omega) (by omega), d 1 0 (by omega) (by omega), d 1 1 (by omega) (by omega),
    d 2 0 (by omega) (by omega), d 2 1 (by omega) (by omega), d 3 0 (by omega) (by omega), d 3 1 (by omega) (by omega),
    List.getD_cons_zero, List.getD_cons_succ]
  simp only [evalAt, eval, monoEval, rpow, pt, List.getD_cons_zero, List.getD_cons_succ]
  have := hpar a ha
  linear_combination (-(s0 * s1) / 4) * this


theorem unmap_map_S3 (V : List (List Rat)) (hV : worldDim V = 3) (s0 s1 s2 : Rat)
    (hdet : det 3 (jacMat Kind.S 3 V (refCentre Kind.S 3)) ≠ 0) :
    ∃ r, unmapNewton Kind.S 3 V (mapPoint Kind.S 3 V [s0, s1, s2]) = (true, r) ∧
      (r = [s0, s1, s2] ∨ (r = refCentre Kind.S 3 ∧
        defectSq Kind.S 3 V (mapPoint Kind.S 3 V [s0, s1, s2]) (refCentre Kind.S 3) < newtonTolSq)) :=
  unmap_map_of_affine Kind.S 3 (Or.inr (Or.inr rfl)) V hV _ rfl hdet (affine_S3 V hV _ _ _ s0 s1 s2)

theorem unmap_map_H1 (V : List (List Rat)) (hV : worldDim V = 1) (s0 : Rat)
    (hdet : det 1 (jacMat Kind.H 1 V (refCentre Kind.H 1)) ≠ 0) :
    ∃ r, unmapNewton Kind.H 1 V (mapPoint Kind.H 1 V [s0]) = (true, r) ∧
      (r = [s0] ∨ (r = refCentre Kind.H 1 ∧
        defectSq Kind.H 1 V (mapPoint Kind.H 1 V [s0]) (refCentre Kind.H 1) < newtonTolSq)) :=
  unmap_map_of_affine Kind.H 1 (Or.inl rfl) V hV _ rfl hdet (affine_H1 V hV _ s0)

theorem unmap_map_H2_parallelogram (V : List (List Rat)) (hV : worldDim V = 2) (s0 s1 : Rat)
    (hpar : ∀ a, a < 2 → (V.getD 0 []).getD a 0 - (V.getD 1 []).getD a 0 - (V.getD 2 []).getD a 0
      + (V.getD 3 []).getD a 0 = 0)
    (hdet : det 2 (jacMat Kind.H 2 V (refCentre Kind.H 2)) ≠ 0) :
    ∃ r, unmapNewton Kind.H 2 V (mapPoint Kind.H 2 V [s0, s1]) = (true, r) ∧
      (r = [s0, s1] ∨ (r = refCentre Kind.H 2 ∧
        defectSq Kind.H 2 V (mapPoint Kind.H 2 V [s0, s1]) (refCentre Kind.H 2) < newtonTolSq)) :=
  unmap_map_of_affine Kind.H 2 (Or.inr (Or.inl rfl)) V hV _ rfl hdet (affine_H2_parallelogram V hV s0 s1 hpar)

end FeatModel.FE
