import FeatModel.Model.Poly
import FeatModel.Lemmas.C15Poly
import Mathlib.Algebra.MvPolynomial.PDeriv
import Mathlib.Algebra.MvPolynomial.Eval
/-!
The computable polynomials of `Model/Poly.lean` denote Mathlib multivariate polynomials (`toMv`); `eval` is
`MvPolynomial.eval` and the formal derivative `pderiv` is `MvPolynomial.pderiv` — for *all* polynomials and all points.
-/
namespace FeatModel.Poly
open MvPolynomial

/-- the monomial whose first exponent belongs to variable `k` -/
noncomputable def monoMv : Nat → Mono → MvPolynomial Nat Rat
  | _, [] => 1
  | k, e :: es => X k ^ e * monoMv (k + 1) es

/-- denotation of a computable polynomial -/
noncomputable def toMv : Poly → MvPolynomial Nat Rat
  | [] => 0
  | t :: p => C t.1 * monoMv 0 t.2 + toMv p

theorem rpow_eq (a : Rat) (n : Nat) : rpow a n = a ^ n := by
  induction n with
  | zero => simp [rpow]
  | succ n ih => simp [rpow, ih, pow_succ]; ring

theorem eval_monoMv (x : Nat → Rat) (k : Nat) (m : Mono) :
    MvPolynomial.eval x (monoMv k m) = monoEval x k m := by
  induction m generalizing k with
  | nil => simp [monoMv, monoEval]
  | cons e es ih => simp [monoMv, monoEval, ih, rpow_eq]

theorem eval_toMv (x : Nat → Rat) (p : Poly) : MvPolynomial.eval x (toMv p) = eval x p := by
  induction p with
  | nil => simp [toMv, eval]
  | cons t p ih => simp [toMv, eval, ih, eval_monoMv]

/-- a monomial in the variables `≥ k` does not depend on a variable `j < k` -/
theorem pderiv_monoMv_lt (j k : Nat) (m : Mono) (h : j < k) : MvPolynomial.pderiv j (monoMv k m) = 0 := by
  induction m generalizing k with
  | nil => simp [monoMv]
  | cons e es ih =>
    have hne : j ≠ k := Nat.ne_of_lt h
    simp only [monoMv, Derivation.leibniz, Derivation.leibniz_pow, ih (k + 1) (Nat.lt_succ_of_lt h),
      pderiv_X_of_ne hne.symm, smul_zero, add_zero]

theorem pderiv_monoMv (j k : Nat) (m : Mono) :
    MvPolynomial.pderiv (k + j) (monoMv k m) = C ((monoDeriv j m).1 : Rat) * monoMv k (monoDeriv j m).2 := by
  induction m generalizing j k with
  | nil => simp [monoMv, monoDeriv]
  | cons e es ih =>
    cases j with
    | zero =>
      simp only [Nat.add_zero, monoMv, monoDeriv, Derivation.leibniz, Derivation.leibniz_pow, pderiv_X_self,
        pderiv_monoMv_lt k (k + 1) es (Nat.lt_succ_self k), smul_eq_mul, mul_one]
      rw [show (C ((e : Nat) : Rat) : MvPolynomial Nat Rat) = ((e : Nat) : MvPolynomial Nat Rat) from by simp]
      simp only [nsmul_eq_mul]
      ring
    | succ j =>
      have hne : k + (j + 1) ≠ k := by omega
      have h2 : k + (j + 1) = (k + 1) + j := by omega
      simp only [monoMv, monoDeriv, Derivation.leibniz, Derivation.leibniz_pow, pderiv_X_of_ne hne.symm,
        smul_eq_mul]
      rw [h2, ih j (k + 1)]
      ring

theorem toMv_pderiv (j : Nat) (p : Poly) : toMv (FeatModel.Poly.pderiv j p) = MvPolynomial.pderiv j (toMv p) := by
  induction p with
  | nil => simp [FeatModel.Poly.pderiv, toMv]
  | cons t p ih =>
    have hcons : FeatModel.Poly.pderiv j (t :: p) =
        (t.1 * ((monoDeriv j t.2).1 : Rat), (monoDeriv j t.2).2) :: FeatModel.Poly.pderiv j p := rfl
    rw [hcons]
    simp only [toMv, map_add, ih, pderiv_C_mul]
    have := pderiv_monoMv j 0 t.2
    rw [Nat.zero_add] at this
    rw [this, C_mul]
    ring

theorem toMv_cons (t : Rat × Mono) (p : Poly) : toMv (t :: p) = C t.1 * monoMv 0 t.2 + toMv p := rfl

theorem toMv_insertTerm (c : Rat) (m : Mono) (p : Poly) :
    toMv (insertTerm c m p) = C c * monoMv 0 m + toMv p := by
  induction p with
  | nil => simp [insertTerm, toMv]
  | cons t p ih =>
    unfold insertTerm
    by_cases h : m = t.2
    · simp only [h, if_true]
      by_cases h0 : c + t.1 = 0
      · simp only [h0, if_true, toMv_cons]
        have : C c * monoMv 0 t.2 + (C t.1 * monoMv 0 t.2 + toMv p) = C (c + t.1) * monoMv 0 t.2 + toMv p := by
          rw [C_add]; ring
        rw [this, h0]; simp
      · simp only [h0, if_false, toMv_cons, C_add]; ring
    · simp only [h, if_false]
      by_cases hl : monoLt m t.2 = true
      · simp only [hl, if_true, toMv_cons]
      · have hl' : monoLt m t.2 = false := by simpa using hl
        simp only [hl', Bool.false_eq_true, if_false, toMv_cons, ih]; ring

theorem toMv_normalize (p : Poly) : toMv (normalize p) = toMv p := by
  induction p with
  | nil => rfl
  | cons t p ih =>
    unfold normalize
    by_cases h : t.1 = 0
    · simp only [h, if_true, toMv_cons, ih]; simp
    · simp only [h, if_false, toMv_insertTerm, toMv_cons, ih]

/-- equal normal forms denote the same polynomial -/
theorem toMv_eq_of_equiv {p q : Poly} (h : equiv p q = true) : toMv p = toMv q := by
  have : normalize p = normalize q := by simpa [equiv] using h
  rw [← toMv_normalize p, ← toMv_normalize q, this]

end FeatModel.Poly
