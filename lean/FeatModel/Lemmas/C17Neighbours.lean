import FeatModel.Model.DA.Layers
import FeatModel.Lemmas.C19_renders
/-!
C17: `_build_graphs` of the `DomainAssembler` — the element-neighbours graph:
* `neighbours_spec`: cell `j` is a neighbour of cell `i` iff the two cells share a vertex;
* `neighbours_wf`: the graph is square, well-formed, symmetric, and its rows have no duplicates.
Core Lean only.
-/
open FeatModel.Adj
open C19L.renders

namespace FeatModel.DA

/-- the `some` branch of `renderComposite` is taken -/
theorem nbr_eq (nvt : Nat) (vae : List (List Nat)) :
    neighbours nvt vae =
      ((Graph.compose (Graph.sortIndices ⟨nvt, vae⟩) (Graph.sortIndices ⟨nvt, vae⟩).transpose).injectify).sortIndices := by
  have h : ((Graph.sortIndices ⟨nvt, vae⟩).nImg != (Graph.sortIndices ⟨nvt, vae⟩).transpose.nDom) = false := by
    simp [Graph.sortIndices, Graph.transpose, Graph.nDom]
  simp only [neighbours, Graph.renderComposite, h, Graph.render]
  rfl

theorem nbr_row (nvt : Nat) (vae : List (List Nat)) (i : Nat) :
    (neighbours nvt vae).row i =
      Graph.sortList (Graph.dedup
        (((Graph.sortIndices ⟨nvt, vae⟩).row i).flatMap (Graph.sortIndices ⟨nvt, vae⟩).transpose.row)) := by
  rw [nbr_eq, sortIndices_row, injectify_row, (compose_spec _ _ i).1]

theorem nbr_gs_row (nvt : Nat) (vae : List (List Nat)) (i v : Nat) :
    v ∈ (Graph.sortIndices ⟨nvt, vae⟩).row i ↔ v ∈ vae.getD i [] := by
  rw [sortIndices_row]
  exact (sortList_perm _).mem_iff

theorem nbr_getD_lt {vae : List (List Nat)} {i v : Nat} (h : v ∈ vae.getD i []) : i < vae.length := by
  by_cases hi : i < vae.length
  · exact hi
  · rw [List.getD_eq_getElem?_getD, List.getElem?_eq_none (by omega)] at h
    simp at h

theorem nbr_getD_mem {vae : List (List Nat)} {i v : Nat} (h : v ∈ vae.getD i []) : vae.getD i [] ∈ vae := by
  have hi := nbr_getD_lt h
  rw [List.getD_eq_getElem?_getD, List.getElem?_eq_getElem hi]
  simp

theorem nbr_gt_row (nvt : Nat) (vae : List (List Nat)) (v j : Nat) (hv : v < nvt) :
    j ∈ (Graph.sortIndices ⟨nvt, vae⟩).transpose.row v ↔ v ∈ vae.getD j [] := by
  have h := (transpose_spec (Graph.sortIndices ⟨nvt, vae⟩) v j (by simpa [Graph.sortIndices] using hv)).1
  rw [← nbr_gs_row nvt vae j v, ← List.count_pos_iff, ← List.count_pos_iff, h]

theorem nbr_mem (nvt : Nat) (vae : List (List Nat)) (hv : ∀ l, l ∈ vae → ∀ v, v ∈ l → v < nvt)
    (i j : Nat) :
    j ∈ (neighbours nvt vae).row i ↔ ∃ v, v ∈ vae.getD i [] ∧ v ∈ vae.getD j [] := by
  rw [nbr_row, (sortList_perm _).mem_iff, mem_dedup, List.mem_flatMap]
  constructor
  · rintro ⟨v, h1, h2⟩
    have h1' := (nbr_gs_row nvt vae i v).1 h1
    have hlt : v < nvt := hv _ (nbr_getD_mem h1') v h1'
    exact ⟨v, h1', (nbr_gt_row nvt vae v j hlt).1 h2⟩
  · rintro ⟨v, h1, h2⟩
    have hlt : v < nvt := hv _ (nbr_getD_mem h1) v h1
    exact ⟨v, (nbr_gs_row nvt vae i v).2 h1, (nbr_gt_row nvt vae v j hlt).2 h2⟩

/-- `_build_graphs`: cell `j` is a neighbour of cell `i` iff the two cells share a vertex -/
theorem neighbours_spec (nvt : Nat) (vae : List (List Nat)) (hv : ∀ l, l ∈ vae → ∀ v, v ∈ l → v < nvt)
    (i j : Nat) :
    j ∈ (neighbours nvt vae).row i ↔
      i < vae.length ∧ j < vae.length ∧ ∃ v, v ∈ vae.getD i [] ∧ v ∈ vae.getD j [] := by
  rw [nbr_mem nvt vae hv]
  constructor
  · rintro ⟨v, h1, h2⟩
    exact ⟨nbr_getD_lt h1, nbr_getD_lt h2, v, h1, h2⟩
  · rintro ⟨_, _, h⟩
    exact h

theorem nbr_nImg (nvt : Nat) (vae : List (List Nat)) : (neighbours nvt vae).nImg = vae.length := by
  rw [nbr_eq]
  simp [Graph.sortIndices, Graph.injectify, Graph.compose, Graph.transpose, Graph.nDom]

theorem nbr_nDom (nvt : Nat) (vae : List (List Nat)) : (neighbours nvt vae).nDom = vae.length := by
  rw [nbr_eq]
  simp [Graph.sortIndices, Graph.injectify, Graph.compose, Graph.nDom]

/-- the graph is square, well-formed, symmetric, and its rows have no duplicates -/
theorem neighbours_wf (nvt : Nat) (vae : List (List Nat)) (hv : ∀ l, l ∈ vae → ∀ v, v ∈ l → v < nvt) :
    (neighbours nvt vae).nImg = (neighbours nvt vae).nDom ∧ (neighbours nvt vae).nDom = vae.length ∧
    (neighbours nvt vae).wf = true ∧
    (∀ i j, j ∈ (neighbours nvt vae).row i → i ∈ (neighbours nvt vae).row j) ∧
    (∀ i, ((neighbours nvt vae).row i).Nodup) := by
  refine ⟨by rw [nbr_nImg, nbr_nDom], nbr_nDom nvt vae, ?_, ?_, ?_⟩
  · simp only [Graph.wf, List.all_eq_true, decide_eq_true_eq]
    intro l hl k hk
    obtain ⟨i, hi, rfl⟩ := List.mem_iff_getElem.1 hl
    have hrow : (neighbours nvt vae).row i = (neighbours nvt vae).adj[i] := by
      simp [Graph.row, List.getD_eq_getElem?_getD, List.getElem?_eq_getElem hi]
    rw [← hrow] at hk
    rw [nbr_nImg]
    exact ((neighbours_spec nvt vae hv i k).1 hk).2.1
  · intro i j h
    rw [nbr_mem nvt vae hv] at h ⊢
    obtain ⟨v, h1, h2⟩ := h
    exact ⟨v, h2, h1⟩
  · intro i
    rw [nbr_row]
    exact (sortList_perm _).nodup_iff.2 (nodup_dedup _)

end FeatModel.DA
