import FeatModel.Lemmas.C17TermColored
import FeatModel.Lemmas.C17Colored
/-
C17 (extension): every cell is assembled exactly once on the global event log of a complete coloured run
(empty shares included).
-/
set_option linter.unusedVariables false
set_option linter.unusedSimpArgs false

namespace FeatModel.DA

/-- the transitions of the failure-free machine, with their events -/
inductive COCB (c : CCfg) (s : CSt) : Ev → CSt → Prop
  | openFront : s.mph = .openFront →
      COCB c s (.fopen 0 0) { s with fence := updB s.fence 0 true, mph := .wait1, mi := 1 }
  | wait1 : s.mph = .wait1 → s.fence s.mi = true → COCB c s (.fwait 0 s.mi) { s with mph := .close1 }
  | wait2 : s.mph = .wait2 → s.fence s.mi = true → COCB c s (.fwait 0 s.mi) { s with mph := .close2 }
  | close1a : s.mph = .close1 → s.mi < c.n →
      COCB c s (.fclose 0 s.mi) { s with fence := updB s.fence s.mi false, mph := .wait1, mi := s.mi + 1 }
  | close1b : s.mph = .close1 → ¬ s.mi < c.n →
      COCB c s (.fclose 0 s.mi) { s with fence := updB s.fence s.mi false, mph := .closeFront }
  | close2a : s.mph = .close2 → s.mi < c.n →
      COCB c s (.fclose 0 s.mi) { s with fence := updB s.fence s.mi false, mph := .wait2, mi := s.mi + 1 }
  | close2b : s.mph = .close2 → ¬ s.mi < c.n →
      COCB c s (.fclose 0 s.mi) { s with fence := updB s.fence s.mi false, mph := .closeBack }
  | closeFront : s.mph = .closeFront →
      COCB c s (.fclose 0 0) { s with fence := updB s.fence 0 false, mph := .openBack }
  | openBack : s.mph = .openBack →
      COCB c s (.fopen 0 (c.n + 1)) { s with fence := updB s.fence (c.n + 1) true, mph := .wait2, mi := 1 }
  | closeBack : s.mph = .closeBack →
      COCB c s (.fclose 0 (c.n + 1))
        { s with fence := updB s.fence (c.n + 1) false, col := upd s.col 0 (s.col 0 + 1),
                 mph := if s.col 0 + 1 < c.nc then .openFront else .join }
  | join : s.mph = .join → c.allDone s = true → COCB c s .join { s with mph := .done }
  | wfront (t : Nat) : 1 ≤ t → t ≤ c.n → s.ph t = .front → s.fence 0 = true →
      COCB c s (.fwait t 0)
        { s with pos := upd s.pos t (c.cbeg (s.col t) t),
                 ph := updP s.ph t (c.afterElem s t (c.cbeg (s.col t) t)) }
  | wenter (t : Nat) : 1 ≤ t → t ≤ c.n → s.ph t = .idle →
      COCB c s (.enter t (c.cell (s.pos t))) { s with ph := updP s.ph t .insc }
  | wleave (t : Nat) : 1 ≤ t → t ≤ c.n → s.ph t = .insc →
      COCB c s (.leave t (c.cell (s.pos t)))
        { s with pos := upd s.pos t (s.pos t + 1), ph := updP s.ph t (c.afterElem s t (s.pos t + 1)) }
  | wopen (t : Nat) : 1 ≤ t → t ≤ c.n → s.ph t = .toOpen →
      COCB c s (.fopen t t) { s with fence := updB s.fence t true, ph := updP s.ph t .back }
  | wback (t : Nat) : 1 ≤ t → t ≤ c.n → s.ph t = .back → s.fence (c.n + 1) = true →
      COCB c s (.fwait t (c.n + 1)) { s with ph := updP s.ph t .toOpen2 }
  | wopen2 (t : Nat) : 1 ≤ t → t ≤ c.n → s.ph t = .toOpen2 →
      COCB c s (.fopen t t)
        { s with fence := updB s.fence t true, col := upd s.col t (s.col t + 1),
                 ph := updP s.ph t (if s.col t + 1 < c.nc then .front else if c.comb then .preComb else .done) }
  | wcenter (t : Nat) : 1 ≤ t → t ≤ c.n → s.ph t = .preComb → s.mutex = false →
      COCB c s (.center t) { s with ph := updP s.ph t .inComb, mutex := true }
  | wcleave (t : Nat) : 1 ≤ t → t ≤ c.n → s.ph t = .inComb →
      COCB c s (.cleave t) { s with ph := updP s.ph t .done, mutex := false }

theorem COCB.of_step {c : CCfg} {s s' : CSt} {e : Ev} (h : c.step s e = some s') : COCB c s e s' := by
  unfold CCfg.step at h
  split at h
  next hc =>
    obtain ⟨hnx, hen⟩ := hc
    simp only [Option.some.injEq] at h
    subst h
    generalize ht0 : e.thread = t at hnx
    unfold CCfg.next at hnx
    split at hnx
    next ht =>
      subst ht
      split at hnx <;> simp only [Option.some.injEq, reduceCtorEq] at hnx <;> subst hnx
      next hm => simp only [CCfg.apply, hm, if_true]; exact .openFront hm
      next hm =>
        simp only [CCfg.apply, CCfg.enabled, hm, if_true] at hen ⊢; exact .wait1 hm hen
      next hm =>
        simp only [CCfg.apply, CCfg.enabled, hm, if_true, reduceCtorEq, if_false] at hen ⊢
        exact .wait2 hm hen
      next hm =>
        simp only [CCfg.apply, hm]
        split
        next h1 => exact .close1a hm h1
        next h1 => exact .close1b hm h1
      next hm =>
        simp only [CCfg.apply, hm]
        split
        next h1 => exact .close2a hm h1
        next h1 => exact .close2b hm h1
      next hm => simp only [CCfg.apply, hm]; exact .closeFront hm
      next hm =>
        simp only [CCfg.apply, hm, if_true, reduceCtorEq, if_false]; exact .openBack hm
      next hm => simp only [CCfg.apply, hm]; exact .closeBack hm
      next hm => simp only [CCfg.apply, CCfg.enabled] at hen ⊢; exact .join hm hen
    next ht =>
      split at hnx
      next => simp at hnx
      next hle =>
        split at hnx <;> simp only [Option.some.injEq, reduceCtorEq] at hnx <;> subst hnx
        all_goals (have h1 : 1 ≤ t := Nat.pos_of_ne_zero ht)
        all_goals (have h2 : t ≤ c.n := Nat.le_of_not_lt hle)
        next hp =>
          simp only [CCfg.apply, CCfg.enabled, if_neg ht, if_true] at hen ⊢; exact .wfront t h1 h2 hp hen
        next hp => simp only [CCfg.apply]; exact .wenter t h1 h2 hp
        next hp => simp only [CCfg.apply]; exact .wleave t h1 h2 hp
        next hp => simp only [CCfg.apply, if_neg ht, hp, if_true]; exact .wopen t h1 h2 hp
        next hp =>
          simp only [CCfg.apply, CCfg.enabled, if_neg ht, Nat.add_one_ne_zero, if_false] at hen ⊢
          exact .wback t h1 h2 hp hen
        next hp =>
          simp only [CCfg.apply, if_neg ht, hp, reduceCtorEq, if_false]; exact .wopen2 t h1 h2 hp
        next hp =>
          simp only [CCfg.apply, CCfg.enabled, Bool.not_eq_true'] at hen ⊢; exact .wcenter t h1 h2 hp hen
        next hp => simp only [CCfg.apply]; exact .wcleave t h1 h2 hp
  next => simp at h

/-- the cells of the `enter` events of a log -/
def enterCellsC (es : List Ev) : List Nat := es.filterMap fun e => match e with | .enter _ c => some c | _ => none

/-- worker w's share of colour ic (possibly empty) -/
def CCfg.share (c : CCfg) (ic w : Nat) : List Nat := (List.range' (c.cbeg ic w) (c.cend ic w - c.cbeg ic w)).map c.cell

/-! ## bookkeeping: what every worker has entered so far -/

/-- cells of the current colour that worker `w` has entered -/
def coc_cur (c : CCfg) (s : CSt) (w : Nat) : List Nat :=
  match s.ph w with
  | .idle => (List.range' (c.cbeg (s.col w) w) (s.pos w - c.cbeg (s.col w) w)).map c.cell
  | .insc => (List.range' (c.cbeg (s.col w) w) (s.pos w + 1 - c.cbeg (s.col w) w)).map c.cell
  | .toOpen | .back | .toOpen2 => c.share (s.col w) w
  | _ => []

/-- all cells worker `w` has entered: the complete colours `< col w` and the current one -/
def coc_ent (c : CCfg) (s : CSt) (w : Nat) : List Nat :=
  ((List.range (s.col w)).flatMap fun ic => c.share ic w) ++ coc_cur c s w

/-- what an event adds to the entered cells of worker `w` -/
def coc_new (e : Ev) (w : Nat) : List Nat :=
  match e with
  | .enter t x => if w = t then [x] else []
  | _ => []

/-- `f 1 ++ … ++ f n` -/
def coc_fw (f : Nat → List Nat) : Nat → List Nat
  | 0 => []
  | n + 1 => coc_fw f n ++ f (n + 1)

theorem coc_fw_eq_flatMap (f : Nat → List Nat) (n : Nat) :
    (List.range n).flatMap (fun k => f (k + 1)) = coc_fw f n := by
  induction n with
  | zero => rfl
  | succ n ih => simp [List.range_succ, List.flatMap_append, ih, coc_fw]

theorem coc_fw_congr {f g : Nat → List Nat} {n : Nat} (h : ∀ w, 1 ≤ w → w ≤ n → f w = g w) :
    coc_fw f n = coc_fw g n := by
  induction n with
  | zero => rfl
  | succ n ih =>
    simp only [coc_fw]
    rw [ih (fun w h1 h2 => h w h1 (by omega)), h (n + 1) (by omega) (by omega)]

theorem coc_fw_nil {f : Nat → List Nat} {n : Nat} (h : ∀ w, 1 ≤ w → w ≤ n → f w = []) : coc_fw f n = [] := by
  induction n with
  | zero => rfl
  | succ n ih =>
    simp only [coc_fw]
    rw [ih (fun w h1 h2 => h w h1 (by omega)), h (n + 1) (by omega) (by omega)]
    rfl

theorem coc_fw_append (f g : Nat → List Nat) (n : Nat) :
    (coc_fw (fun w => f w ++ g w) n).Perm (coc_fw f n ++ coc_fw g n) := by
  induction n with
  | zero => simp [coc_fw]
  | succ n ih =>
    simp only [coc_fw]
    refine List.perm_iff_count.mpr (fun a => ?_)
    have := ih.count_eq a
    simp only [List.count_append] at this ⊢
    omega

theorem coc_fw_new (e : Ev) (n : Nat) (h : ∀ t x, e = .enter t x → 1 ≤ t ∧ t ≤ n) :
    coc_fw (coc_new e) n = enterCellsC [e] := by
  cases e
  case enter t x =>
    obtain ⟨h1, h2⟩ := h t x rfl
    simp only [enterCellsC, List.filterMap_cons, List.filterMap_nil]
    clear h
    induction n with
    | zero => omega
    | succ n ih =>
      simp only [coc_fw]
      by_cases ht : t = n + 1
      · subst ht
        rw [coc_fw_nil (fun w a b => by simp [coc_new]; omega)]
        simp [coc_new]
      · rw [ih (by omega)]
        simp [coc_new]; omega
  all_goals exact coc_fw_nil (fun w _ _ => rfl)

/-! ## a small invariant: position bounds and colour counters -/

def coc_Inv (c : CCfg) (s : CSt) : Prop :=
  ∀ w, 1 ≤ w →
    (s.ph w = .idle ∨ s.ph w = .insc → c.cbeg (s.col w) w ≤ s.pos w ∧ s.pos w < c.cend (s.col w) w) ∧
    (s.ph w = .front ∨ s.ph w = .idle ∨ s.ph w = .insc ∨ s.ph w = .toOpen ∨ s.ph w = .back ∨ s.ph w = .toOpen2 →
      s.col w < c.nc) ∧
    (s.ph w = .preComb ∨ s.ph w = .inComb ∨ s.ph w = .done → s.col w = c.nc)

theorem coc_Inv_init (c : CCfg) : coc_Inv c c.init := by
  intro w hw
  simp only [CCfg.init]
  split <;> (try split) <;> simp <;> omega

theorem coc_Inv_step {c : CCfg} {s s' : CSt} {e : Ev} (h : coc_Inv c s) (tr : COCB c s e s') : coc_Inv c s' := by
  cases tr
  all_goals
    intro w hw
    have := h w hw
    grind (splits := 40) [updP, upd, CCfg.afterElem]

theorem coc_ent_step {c : CCfg} {s s' : CSt} {e : Ev} (h : coc_Inv c s) (tr : COCB c s e s') :
    ∀ w, 1 ≤ w → coc_ent c s' w = coc_ent c s w ++ coc_new e w := by
  intro w hw
  have hw0 : w ≠ 0 := by omega
  cases tr
  case closeBack => simp [coc_ent, coc_cur, coc_new, upd, hw0]
  case wfront t h1 h2 hp hf =>
    by_cases hwt : w = t
    · subst hwt
      by_cases hlt : c.cbeg (s.col w) w < c.cend (s.col w) w
      · simp [coc_ent, coc_cur, coc_new, updP, upd, hp, CCfg.afterElem, hlt]
      · simp [coc_ent, coc_cur, coc_new, updP, upd, hp, CCfg.afterElem, hlt, CCfg.share,
          Nat.sub_eq_zero_of_le (Nat.le_of_not_lt hlt)]
    · simp [coc_ent, coc_cur, coc_new, updP, upd, hwt]
  case wenter t h1 h2 hp =>
    by_cases hwt : w = t
    · subst hwt
      obtain ⟨hb0, -, -⟩ := h w hw
      have hb := (hb0 (.inl hp)).1
      have e1 : s.pos w + 1 - c.cbeg (s.col w) w = (s.pos w - c.cbeg (s.col w) w) + 1 := by omega
      have e2 : c.cbeg (s.col w) w + (s.pos w - c.cbeg (s.col w) w) = s.pos w := by omega
      simp [coc_ent, coc_cur, coc_new, updP, hp, e1, List.range'_1_concat, e2]
    · simp [coc_ent, coc_cur, coc_new, updP, hwt]
  case wleave t h1 h2 hp =>
    by_cases hwt : w = t
    · subst hwt
      obtain ⟨hb, -, -⟩ := h w hw
      obtain ⟨hb1, hb2⟩ := hb (.inr hp)
      by_cases hlt : s.pos w + 1 < c.cend (s.col w) w
      · simp [coc_ent, coc_cur, coc_new, updP, upd, hp, CCfg.afterElem, hlt]
      · have e1 : s.pos w + 1 - c.cbeg (s.col w) w = c.cend (s.col w) w - c.cbeg (s.col w) w := by omega
        simp [coc_ent, coc_cur, coc_new, updP, upd, hp, CCfg.afterElem, hlt, CCfg.share, e1]
    · simp [coc_ent, coc_cur, coc_new, updP, upd, hwt]
  case wopen t h1 h2 hp =>
    by_cases hwt : w = t
    · subst hwt; simp [coc_ent, coc_cur, coc_new, updP, hp]
    · simp [coc_ent, coc_cur, coc_new, updP, hwt]
  case wback t h1 h2 hp hf =>
    by_cases hwt : w = t
    · subst hwt; simp [coc_ent, coc_cur, coc_new, updP, hp]
    · simp [coc_ent, coc_cur, coc_new, updP, hwt]
  case wopen2 t h1 h2 hp =>
    by_cases hwt : w = t
    · subst hwt
      by_cases hlt : s.col w + 1 < c.nc
      · simp [coc_ent, coc_cur, coc_new, updP, upd, hp, hlt, List.range_succ, List.flatMap_append]
      · cases hcb : c.comb <;>
          simp [coc_ent, coc_cur, coc_new, updP, upd, hp, hlt, hcb, List.range_succ, List.flatMap_append]
    · simp [coc_ent, coc_cur, coc_new, updP, upd, hwt]
  case wcenter t h1 h2 hp hm =>
    by_cases hwt : w = t
    · subst hwt; simp [coc_ent, coc_cur, coc_new, updP, hp]
    · simp [coc_ent, coc_cur, coc_new, updP, hwt]
  case wcleave t h1 h2 hp =>
    by_cases hwt : w = t
    · subst hwt; simp [coc_ent, coc_cur, coc_new, updP, hp]
    · simp [coc_ent, coc_cur, coc_new, updP, hwt]
  all_goals simp [coc_ent, coc_cur, coc_new]

/-! ## along a run -/

theorem coc_enter_rng {c : CCfg} {s s' : CSt} {e : Ev} (tr : COCB c s e s') :
    ∀ t x, e = .enter t x → 1 ≤ t ∧ t ≤ c.n := by
  intro t x he
  subst he
  cases tr
  case wenter h1 h2 hp => exact ⟨h1, h2⟩

theorem coc_cells_cons (e : Ev) (es : List Ev) : enterCellsC (e :: es) = enterCellsC [e] ++ enterCellsC es := by
  cases e <;> simp [enterCellsC]

theorem coc_step_perm {c : CCfg} {s s' : CSt} {e : Ev} (h : coc_Inv c s) (tr : COCB c s e s') :
    (coc_fw (coc_ent c s) c.n ++ enterCellsC [e]).Perm (coc_fw (coc_ent c s') c.n) := by
  rw [coc_fw_congr (f := coc_ent c s') (g := fun w => coc_ent c s w ++ coc_new e w)
    (fun w h1 _ => coc_ent_step h tr w h1), ← coc_fw_new e c.n (coc_enter_rng tr)]
  exact (coc_fw_append _ _ _).symm

theorem coc_run {c : CCfg} (es : List Ev) : ∀ s0 s, coc_Inv c s0 → c.run s0 es = some s →
    coc_Inv c s ∧ (coc_fw (coc_ent c s0) c.n ++ enterCellsC es).Perm (coc_fw (coc_ent c s) c.n) := by
  induction es with
  | nil =>
    intro s0 s hi h
    simp only [CCfg.run, Option.some.injEq] at h
    subst h
    exact ⟨hi, by simp [enterCellsC]⟩
  | cons e es ih =>
    intro s0 s hi h
    simp only [CCfg.run] at h
    split at h
    next s1 h1 =>
      have tr := COCB.of_step h1
      obtain ⟨hi', hp⟩ := ih s1 s (coc_Inv_step hi tr) h
      refine ⟨hi', ?_⟩
      rw [coc_cells_cons, ← List.append_assoc]
      exact ((coc_step_perm hi tr).append_right _).trans hp
    next => simp at h

theorem coc_reach_run {c : CCfg} (es : List Ev) : ∀ s0 s, c.Reach s0 → c.run s0 es = some s → c.Reach s := by
  induction es with
  | nil =>
    intro s0 s hr h
    simp only [CCfg.run, Option.some.injEq] at h
    subst h
    exact hr
  | cons e es ih =>
    intro s0 s hr h
    simp only [CCfg.run] at h
    split at h
    next s1 h1 => exact ih s1 s (.step e hr h1) h
    next => simp at h

theorem coc_ent_init (c : CCfg) (w : Nat) : coc_ent c c.init w = [] := by
  by_cases h0 : 0 < c.nc
  · simp [coc_ent, coc_cur, CCfg.init, h0]
  · cases hc : c.comb <;> simp [coc_ent, coc_cur, CCfg.init, h0, hc]

/-- every cell is assembled exactly once: the `enter` events of a complete run are, up to order, the shares of
all workers in all colours -/
theorem colored_cells_once (c : CCfg) (hn : 1 ≤ c.n) (es : List Ev) (s : CSt)
    (h : c.run c.init es = some s) (hf : CCfg.final s = true) :
    (enterCellsC es).Perm ((List.range c.n).flatMap fun k => (List.range c.nc).flatMap fun ic => c.share ic (k + 1)) := by
  obtain ⟨hi, hp⟩ := coc_run es c.init s (coc_Inv_init c) h
  have hr : c.Reach s := coc_reach_run es c.init s .init h
  have hm : s.mph = .done := by simpa [CCfg.final] using hf
  have hj := (CInv.reach hn hr).w_j
  rw [coc_fw_nil (fun w _ _ => coc_ent_init c w), List.nil_append] at hp
  rw [coc_fw_eq_flatMap (fun w => (List.range c.nc).flatMap fun ic => c.share ic w)]
  rw [coc_fw_congr (f := coc_ent c s) (g := fun w => (List.range c.nc).flatMap fun ic => c.share ic w)] at hp
  · exact hp
  · intro w h1 h2
    have hph := hj w h1 h2 (.inr hm)
    obtain ⟨-, -, hc⟩ := hi w h1
    have hcol := hc hph
    rcases hph with hp' | hp' | hp' <;> simp [coc_ent, coc_cur, hp', hcol]

end FeatModel.DA
